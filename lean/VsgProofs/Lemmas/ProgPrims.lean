/-
  Layer P ↔ layer T/K: the interpreted helpers of `utils.py` compute what the hand models of
  `VsgModel/Classify/Prims.lean` compute.  Each theorem is about `(run S n).call k args st` for a table `S` whose
  entry `k` is the function body printed by the translator (`*Def` below are those bodies with the class index of
  `parser.item` and the positions of the callees as parameters; `Properties/C05.lean` shows by `rfl` that the
  GENERATED table contains exactly these bodies under the names `utils.find_next_token`, …).  Proofs unfold the
  bodies and execute them symbolically; resources (fuel, step budget, frame depth) are assumed sufficient.
-/
import VsgModel.Prog.Eval
import VsgModel.Classify.Prims
namespace Vsgm.Prog
open Vsgm Vsgm.Classify

/-! ### the bodies -/

def fntBody (item : Nat) : List Stmt :=
  [.ite (.cmp .eq (.prim .typeOf [.var 3]) (.clsC item)) [.ret (.binop .add (.var 2) (.var 0))] []]

/-- `utils.find_next_token(iToken, lObjects)` -/
def findNextTokenDef (item : Nat) : FunDef :=
  { nparams := 2, nlocals := 4, defaults := [],
    body := [.for (.tuple [.var 2, .var 3]) (.enumFrom (.var 1) (.var 0)) (fntBody item) [], .ret (.var 0)] }

/-- `utils.object_value_is(lAllObjects, iToken, sString)` -/
def objectValueIsDef : FunDef :=
  { nparams := 3, nlocals := 3, defaults := [],
    body := [.ite (.cmp .eq (.prim .getLower [.index (.var 0) (.var 1)]) (.prim .strLower [.var 2])) [.ret (.bool true)] [],
             .ret (.bool false)] }

/-- `utils.is_next_token(sToken, iToken, lObjects)` -/
def isNextTokenDef (kFind kOvi : Nat) : FunDef :=
  { nparams := 3, nlocals := 4, defaults := [],
    body := [.assign (.var 3) (.callF kFind [.var 1, .var 2]),
             .ite (.callF kOvi [.var 2, .var 3, .var 0]) [.ret (.bool true)] [], .ret (.bool false)] }

/-! ### small facts -/

theorem getVar_some {st : State} {x : Nat} {v : Val} (h : st.frame[x]? = some v) (hv : v ≠ .undef) :
    getVar x st = (.ok v, st) := by
  unfold getVar
  rw [h]
  cases v <;> first | rfl | exact absurd rfl hv

theorem run_expr (S : Sys) (n : Nat) (e : Expr) (st : State) :
    (run S (n + 1)).expr e st = stepExpr S (run S n) e st := rfl
theorem run_stmt (S : Sys) (n : Nat) (s : Stmt) (st : State) :
    (run S (n + 1)).stmt s st = stepStmt S (run S n) n s st := rfl
theorem run_call (S : Sys) (n f : Nat) (a : List Val) (st : State) :
    (run S (n + 1)).call f a st = stepCall S (run S n) f a st := rfl

theorem run_stmt_assign (S : Sys) (n : Nat) (t : Target) (e : Expr) (st : State) :
    (run S (n + 1)).stmt (.assign t e) st = stepStmt S (run S n) n (.assign t e) st := rfl
theorem run_stmt_aug (S : Sys) (n : Nat) (t : Target) (op : BinOp) (e : Expr) (st : State) :
    (run S (n + 1)).stmt (.aug t op e) st = stepStmt S (run S n) n (.aug t op e) st := rfl
theorem run_stmt_ret (S : Sys) (n : Nat) (e : Expr) (st : State) :
    (run S (n + 1)).stmt (.ret e) st = stepStmt S (run S n) n (.ret e) st := rfl
theorem run_stmt_ite (S : Sys) (n : Nat) (c : Expr) (a b : List Stmt) (st : State) :
    (run S (n + 1)).stmt (.ite c a b) st = stepStmt S (run S n) n (.ite c a b) st := rfl
theorem run_stmt_retag (S : Sys) (n : Nat) (l x c : Nat) (b : Bool) (st : State) :
    (run S (n + 1)).stmt (.retag l x c b) st = stepStmt S (run S n) n (.retag l x c b) st := rfl
theorem run_stmt_expr (S : Sys) (n : Nat) (e : Expr) (st : State) :
    (run S (n + 1)).stmt (.expr e) st = stepStmt S (run S n) n (.expr e) st := rfl

/-- the parts of the state a call of a read-only helper leaves alone -/
def SameButCounters (st st' : State) : Prop := st' = { st with steps := st'.steps, calls := st'.calls }

theorem fnt_iter (S : Sys) (m item : Nat) (st : State) (t : CTok) (j i : Int)
    (h3 : st.frame[3]? = some (.tok t)) (h2 : st.frame[2]? = some (.int j)) (h0 : st.frame[0]? = some (.int i)) :
    execBlock (run S (m + 4)) (fntBody item) st =
      if t.cls == item then (.ok (.ret (.int (j + i))), st) else (.ok .normal, st) := by
  have g3 := getVar_some h3 (by simp)
  have g2 := getVar_some h2 (by simp)
  have g0 := getVar_some h0 (by simp)
  simp only [fntBody, execBlock, run, stepStmt, stepExpr, evalArgs, doPrim, cmpVals, pyEq, truthy, binopVals, asInt,
    bind, M.bind, pure, M.pure, g3]
  by_cases hc : t.cls = item
  · simp [hc, execBlock, stepStmt, stepExpr, g2, g0, binopVals, asInt, bind, M.bind, pure, M.pure]
  · simp [hc, execBlock, bind, M.bind, pure, M.pure]

/-- the frame after `for iCurrent, oToken in …` bound its two variables -/
def fntBind (st : State) (j : Int) (t : CTok) : State :=
  { st with steps := st.steps + 1, frame := (st.frame.setIfInBounds 2 (.int j)).setIfInBounds 3 (.tok t) }

theorem fnt_assign (R : Rec) (st : State) (j : Int) (t : CTok) :
    assignTarget R (.tuple [.var 2, .var 3]) (.tuple [.int j, .tok t]) { st with steps := st.steps + 1 }
      = (.ok (), fntBind st j t) := by
  simp [assignTarget, assignMany, assignSimple, setVar, modSt, bind, M.bind, pure, M.pure, fntBind]

/-- the loop of `find_next_token`: first raw item at or after `pos` -/
theorem fnt_loop (S : Sys) (m item ms : Nat) (a : Array CTok) (i : Int) :
    ∀ (d pos k : Nat) (j : Int) (st : State), a.size - pos = d → d < k → st.steps + d < ms →
      st.frame.size = 4 → st.frame[0]? = some (.int i) →
      ∃ st', forLoop ms (run S (m + 4)) (.tuple [.var 2, .var 3]) (fntBody item) [] k (.enum j (.toks a pos)) st
          = ((match (a.toList.drop pos).findIdx? (fun t => t.cls == item) with
              | some q => .ok (.ret (.int (j + q + i)))
              | none => .ok .normal), st')
        ∧ st' = { st with frame := st'.frame, steps := st'.steps } ∧ st'.frame.size = 4
        ∧ st'.frame[0]? = some (.int i) ∧ st.steps ≤ st'.steps ∧ st'.steps ≤ st.steps + d := by
  intro d
  induction d with
  | zero =>
    intro pos k j st hd hk hms hsz h0
    have hpos : a.size ≤ pos := by omega
    obtain ⟨k', rfl⟩ : ∃ k', k = k' + 1 := ⟨k - 1, by omega⟩
    refine ⟨st, ?_, rfl, hsz, h0, Nat.le_refl _, Nat.le_refl _⟩
    have hnone : a[pos]? = none := Array.getElem?_eq_none hpos
    have hdrop : a.toList.drop pos = [] := List.drop_of_length_le (by simpa using hpos)
    simp only [forLoop, Iter.next, hnone, hdrop, List.findIdx?_nil, execBlock]
    rw [if_neg (by omega)]
    rfl
  | succ d ih =>
    intro pos k j st hd hk hms hsz h0
    have hpos : pos < a.size := by omega
    obtain ⟨k', rfl⟩ : ∃ k', k = k' + 1 := ⟨k - 1, by omega⟩
    have hget : a[pos]? = some a[pos] := Array.getElem?_eq_getElem hpos
    have hdrop : a.toList.drop pos = a[pos] :: a.toList.drop (pos + 1) := by
      rw [List.drop_eq_getElem_cons (by simpa using hpos)]
      simp
    have hb3 : (fntBind st j a[pos]).frame[3]? = some (.tok a[pos]) := by
      simp [fntBind, Array.getElem?_setIfInBounds, hsz]
    have hb2 : (fntBind st j a[pos]).frame[2]? = some (.int j) := by
      simp [fntBind, Array.getElem?_setIfInBounds, hsz]
    have hb0 : (fntBind st j a[pos]).frame[0]? = some (.int i) := by
      simp [fntBind, Array.getElem?_setIfInBounds, h0]
    have hbsz : (fntBind st j a[pos]).frame.size = 4 := by simp [fntBind, hsz]
    simp only [forLoop, Iter.next, hget]
    rw [if_neg (by omega)]
    simp only [fnt_assign, fnt_iter S m item _ a[pos] j i hb3 hb2 hb0, hdrop, List.findIdx?_cons]
    by_cases hc : a[pos].cls = item
    · simp only [hc, beq_self_eq_true, if_true]
      refine ⟨fntBind st j a[pos], ?_, rfl, hbsz, hb0, ?_, ?_⟩
      · simp
      · simp [fntBind]
      · simp [fntBind]
    · have hc' : (a[pos].cls == item) = false := by simpa using hc
      simp only [hc', Bool.false_eq_true, if_false]
      obtain ⟨st', hrun, hst', hsz', h0', hle, hle'⟩ :=
        ih (pos + 1) k' (j + 1) (fntBind st j a[pos]) (by omega) (by omega) (by simp [fntBind]; omega) hbsz hb0
      refine ⟨st', ?_, ?_, hsz', h0', ?_, ?_⟩
      · rw [hrun]
        cases (a.toList.drop (pos + 1)).findIdx? (fun t => t.cls == item) with
        | none => rfl
        | some q =>
          simp only [Option.map_some]
          congr 4
          push_cast
          omega
      · rw [hst']; simp [fntBind]
      · have : (fntBind st j a[pos]).steps = st.steps + 1 := rfl
        omega
      · have : (fntBind st j a[pos]).steps = st.steps + 1 := rfl
        omega

theorem clampIdx_nat (n i : Nat) : clampIdx n (i : Int) = if i < n then i else n := by
  unfold clampIdx
  have h : ¬ ((i : Int) < 0) := by omega
  simp only [h, if_false, Int.toNat_natCast]

theorem drop_clampIdx (l : List CTok) (i : Nat) : l.drop (clampIdx l.length (i : Int)) = l.drop i := by
  rw [clampIdx_nat]
  split
  · rfl
  · rw [List.drop_of_length_le (Nat.le_refl _), List.drop_of_length_le (by omega)]

/-- the callee's initial state -/
def callState (st : State) (k : Nat) (fd : FunDef) (args : List Val) : State :=
  { st with frame := mkFrame fd.nlocals args, depth := st.depth + 1, steps := st.steps + 1,
            calls := st.calls.modify k (· + 1) }

/-- what `stepCall` does around the body of a function without defaults -/
theorem stepCall_eq (S : Sys) (R : Rec) (k : Nat) (fd : FunDef) (args : List Val) (st : State)
    (hk : S.funs[k]? = some fd) (hop : fd.isOpaque = false) (hdef : fd.defaults = [])
    (har : fd.nparams = args.length) (hdepth : st.depth < S.maxDepth) (hsteps : st.steps < S.maxSteps) :
    stepCall S R k args st =
      match execBlock R fd.body (callState st k fd args) with
      | (.ok (.ret v), st') => (.ok v, { st' with frame := st.frame, depth := st.depth })
      | (.ok _, st') => (.ok .none, { st' with frame := st.frame, depth := st.depth })
      | (.error e, st') => (.error e, { st' with frame := st.frame, depth := st.depth }) := by
  have h1 : ¬ S.maxDepth ≤ st.depth := by omega
  have h2 : ¬ S.maxSteps ≤ st.steps := by omega
  simp only [stepCall, hk, hop, hdef, har, h1, h2, List.length_nil, Nat.add_zero, Nat.lt_irrefl, Bool.or_self,
    Bool.false_eq_true, if_false, List.drop_nil, evalArgs, pure, M.pure, List.append_nil, decide_false]
  rfl

/-- **`utils.find_next_token`** = `Classify.findNextToken` -/
theorem call_find_next_token (S : Sys) (T : ClassTables) (k m i : Nat) (st : State)
    (hk : S.funs[k]? = some (findNextTokenDef T.item))
    (hfuel : st.toks.size < m + 4) (hsteps : st.steps + st.toks.size + 1 < S.maxSteps) (hdepth : st.depth < S.maxDepth) :
    ∃ st', (run S (m + 6)).call k [.int i, .toks] st = (.ok (.int (findNextToken T i st.toks.toList : Nat)), st')
      ∧ SameButCounters st st' ∧ st.steps ≤ st'.steps ∧ st'.steps ≤ st.steps + st.toks.size + 1 := by
  show ∃ st', stepCall S (run S (m + 5)) k [.int i, .toks] st = _ ∧ _
  rw [stepCall_eq S _ k _ _ st hk rfl rfl rfl hdepth (by omega)]
  generalize hst1 : callState st k (findNextTokenDef T.item) [.int i, .toks] = st1
  have hfr : st1.frame = #[.int i, .toks, .undef, .undef] := by rw [← hst1]; rfl
  have hf0 : st1.frame[0]? = some (.int i) := by rw [hfr]; rfl
  have hf1 : st1.frame[1]? = some .toks := by rw [hfr]; rfl
  have hsz : st1.frame.size = 4 := by rw [hfr]; rfl
  have htoks : st1.toks = st.toks := by rw [← hst1]; rfl
  have hstp : st1.steps = st.steps + 1 := by rw [← hst1]; rfl
  have g0 := getVar_some hf0 (by simp)
  have g1 := getVar_some hf1 (by simp)
  obtain ⟨st2, hloop, hst2, hsz2, h02, hle, hle'⟩ :=
    fnt_loop S m T.item S.maxSteps st1.toks i (st1.toks.size - clampIdx st1.toks.size i) (clampIdx st1.toks.size i)
      (m + 4) 0 st1 rfl (by rw [htoks]; omega) (by rw [htoks, hstp]; omega) hsz hf0
  have g02 := getVar_some h02 (by simp)
  simp only [findNextTokenDef, execBlock, run_stmt, run_expr, stepStmt, mkIter, stepExpr, g0, g1, optBound, asInt, getSt,
    bind, M.bind, pure, M.pure, hloop]
  have hdrop : List.drop (clampIdx st1.toks.size ↑i) st1.toks.toList = st.toks.toList.drop i := by
    rw [htoks]
    have := drop_clampIdx st.toks.toList i
    simpa using this
  rw [hdrop]
  have hp : (fun t : CTok => t.cls == T.item) = isRaw T := rfl
  rw [hp]
  have hcalls : st2.calls = st.calls.modify k (· + 1) := by rw [hst2, ← hst1]; rfl
  refine ⟨{ st2 with frame := st.frame, depth := st.depth }, ?_, ?_, ?_, ?_⟩
  · unfold findNextToken firstFrom
    cases (List.drop i st.toks.toList).findIdx? (isRaw T) with
    | none => simp [g02]
    | some q =>
      simp only [Option.map_some, Option.getD_some]
      congr 3
      push_cast
      omega
  · unfold SameButCounters
    rw [hst2, ← hst1]
    rfl
  · show st.steps ≤ st2.steps
    omega
  · show st2.steps ≤ st.steps + st.toks.size + 1
    rw [htoks] at hle'
    omega

theorem normIdx_nat (n i : Nat) : normIdx n (i : Int) = if i < n then some i else none := by
  unfold normIdx
  have h : ¬ ((i : Int) < 0) := by omega
  simp only [h, if_false, Int.toNat_natCast]

/-- Python value of a hand-model result -/
def boolRes : Except PyErr Bool → Except Err Val
  | .ok b => .ok (.bool b)
  | .error e => .error (.py e)

/-- **`utils.object_value_is`** = `Classify.objectValueIs` (with `sString.lower()` = `S.lowerS s`) -/
theorem call_object_value_is (S : Sys) (k m i : Nat) (s : Str) (st : State)
    (hk : S.funs[k]? = some objectValueIsDef)
    (hsteps : st.steps < S.maxSteps) (hdepth : st.depth < S.maxDepth) :
    ∃ st', (run S (m + 6)).call k [.toks, .int i, .str s] st
        = (boolRes (objectValueIs st.toks.toList i (S.lowerS s)), st')
      ∧ SameButCounters st st' ∧ st'.steps = st.steps + 1 := by
  show ∃ st', stepCall S (run S (m + 5)) k [.toks, .int i, .str s] st = _ ∧ _
  rw [stepCall_eq S _ k _ _ st hk rfl rfl rfl hdepth hsteps]
  generalize hst1 : callState st k objectValueIsDef [.toks, .int i, .str s] = st1
  have hfr : st1.frame = #[.toks, .int i, .str s] := by rw [← hst1]; rfl
  have g0 := getVar_some (st := st1) (x := 0) (v := .toks) (by rw [hfr]; rfl) (by simp)
  have g1 := getVar_some (st := st1) (x := 1) (v := .int i) (by rw [hfr]; rfl) (by simp)
  have g2 := getVar_some (st := st1) (x := 2) (v := .str s) (by rw [hfr]; rfl) (by simp)
  have htoks : st1.toks = st.toks := by rw [← hst1]; rfl
  refine ⟨{ st1 with frame := st.frame, depth := st.depth }, ?_, ?_, ?_⟩
  · by_cases hi : i < st.toks.size
    · have hget : st.toks[i]? = some st.toks[i] := Array.getElem?_eq_getElem hi
      have hget' : st.toks.toList[i]? = some st.toks[i] := by simpa using hget
      by_cases hb : st.toks[i].lower = S.lowerS s
      · simp [objectValueIsDef, execBlock, run_stmt, run_expr, stepStmt, stepExpr, evalArgs, g0, g1, g2, indexVal, asInt,
          getSt, normIdx_nat, htoks, hi, hget, doPrim, tokArg, strArg, cmpVals, pyEq, truthy, bind, M.bind, pure, M.pure,
          boolRes, objectValueIs, natGet, hget', hb, Except.bind, Except.pure]
      · simp [objectValueIsDef, execBlock, run_stmt, run_expr, stepStmt, stepExpr, evalArgs, g0, g1, g2, indexVal, asInt,
          getSt, normIdx_nat, htoks, hi, hget, doPrim, tokArg, strArg, cmpVals, pyEq, truthy, bind, M.bind, pure, M.pure,
          boolRes, objectValueIs, natGet, hget', hb, Except.bind, Except.pure]
    · have hget' : st.toks.toList[i]? = none := by simp; omega
      simp [objectValueIsDef, execBlock, run_stmt, run_expr, stepStmt, stepExpr, evalArgs, g0, g1, g2, indexVal, asInt,
        getSt, normIdx_nat, htoks, hi, indexErr, raise, bind, M.bind, pure, M.pure, boolRes, objectValueIs, natGet, hget', Except.bind, Except.pure]
  · unfold SameButCounters
    rw [← hst1]
    rfl
  · rw [← hst1]; rfl

theorem SameButCounters.frame {st st' : State} (h : SameButCounters st st') : st'.frame = st.frame := by
  rw [h]
theorem SameButCounters.toks {st st' : State} (h : SameButCounters st st') : st'.toks = st.toks := by
  rw [h]
theorem SameButCounters.depth {st st' : State} (h : SameButCounters st st') : st'.depth = st.depth := by
  rw [h]

/-- **`utils.is_next_token`** = `Classify.isNextToken` -/
theorem call_is_next_token (S : Sys) (T : ClassTables) (k kFind kOvi m i : Nat) (s : Str) (st : State)
    (hk : S.funs[k]? = some (isNextTokenDef kFind kOvi))
    (hkF : S.funs[kFind]? = some (findNextTokenDef T.item)) (hkO : S.funs[kOvi]? = some objectValueIsDef)
    (hfuel : st.toks.size < m + 4) (hsteps : st.steps + st.toks.size + 4 < S.maxSteps)
    (hdepth : st.depth + 1 < S.maxDepth) :
    ∃ st', (run S (m + 9)).call k [.str s, .int i, .toks] st
        = (boolRes (isNextToken T (S.lowerS s) i st.toks.toList), st')
      ∧ st'.toks = st.toks ∧ st'.frame = st.frame ∧ st'.depth = st.depth ∧ st'.heap = st.heap
      ∧ st.steps ≤ st'.steps ∧ st'.steps ≤ st.steps + st.toks.size + 3 := by
  show ∃ st', stepCall S (run S (m + 8)) k [.str s, .int i, .toks] st = _ ∧ _
  rw [stepCall_eq S _ k _ _ st hk rfl rfl rfl (by omega) (by omega)]
  generalize hst1 : callState st k (isNextTokenDef kFind kOvi) [.str s, .int i, .toks] = st1
  have hfr : st1.frame = #[.str s, .int i, .toks, .undef] := by rw [← hst1]; rfl
  have htoks : st1.toks = st.toks := by rw [← hst1]; rfl
  have hstp : st1.steps = st.steps + 1 := by rw [← hst1]; rfl
  have hdep : st1.depth = st.depth + 1 := by rw [← hst1]; rfl
  have hheap : st1.heap = st.heap := by rw [← hst1]; rfl
  have g1 := getVar_some (st := st1) (x := 1) (v := .int i) (by rw [hfr]; rfl) (by simp)
  have g2 := getVar_some (st := st1) (x := 2) (v := .toks) (by rw [hfr]; rfl) (by simp)
  -- the call of find_next_token
  obtain ⟨st2, hfind, hs2, hle2, hle2'⟩ := call_find_next_token S T kFind m i st1 hkF (by rw [htoks]; exact hfuel)
    (by rw [htoks, hstp]; omega) (by rw [hdep]; omega)
  have hfr2 : st2.frame = #[.str s, .int i, .toks, .undef] := by rw [hs2.frame, hfr]
  -- after `iCurrent = …`
  generalize hf : findNextToken T i st1.toks.toList = f at hfind
  generalize hst3 : ({ st2 with frame := st2.frame.setIfInBounds 3 (.int f) } : State) = st3
  have hfr3 : st3.frame = #[.str s, .int i, .toks, .int f] := by rw [← hst3, hfr2]; rfl
  have h0 := getVar_some (st := st3) (x := 0) (v := .str s) (by rw [hfr3]; rfl) (by simp)
  have h2 := getVar_some (st := st3) (x := 2) (v := .toks) (by rw [hfr3]; rfl) (by simp)
  have h3 := getVar_some (st := st3) (x := 3) (v := .int f) (by rw [hfr3]; rfl) (by simp)
  have htoks3 : st3.toks = st.toks := by rw [← hst3]; show st2.toks = _; rw [hs2.toks, htoks]
  obtain ⟨st4, hovi, hs4, hstp4⟩ := call_object_value_is S kOvi m f s st3 hkO
    (by rw [← hst3]; show st2.steps < _; rw [htoks] at hle2'; omega)
    (by rw [← hst3]; show st2.depth < _; rw [hs2.depth, hdep]; omega)
  have hst3steps : st3.steps = st2.steps := by rw [← hst3]
  refine ⟨{ st4 with frame := st.frame, depth := st.depth }, ?_, ?_, rfl, rfl, ?_, ?_, ?_⟩
  · simp only [isNextTokenDef, execBlock, run_stmt, run_expr, stepStmt, stepExpr, evalArgs, g1, g2, hfind,
      assignTarget, assignSimple, setVar, modSt, bind, M.bind, pure, M.pure, hst3, h0, h2, h3, hovi]
    unfold isNextToken
    rw [htoks] at hf
    rw [hf, htoks3]
    cases objectValueIs st.toks.toList f (S.lowerS s) with
    | error e => simp [boolRes]
    | ok b => cases b <;> simp [boolRes, truthy, execBlock, run_stmt, run_expr, stepStmt, stepExpr, bind, M.bind, pure, M.pure]
  · show st4.toks = _; rw [hs4.toks, htoks3]
  · show st4.heap = _; rw [hs4]; show st3.heap = _; rw [← hst3]; show st2.heap = _; rw [hs2]; exact hheap
  · show st.steps ≤ st4.steps; omega
  · show st4.steps ≤ _; rw [htoks] at hle2'; omega

/-! ### the assignment helpers -/

/-- `utils.assign_next_token(token, iToken, lObjects)` -/
def assignNextTokenDef (kFind : Nat) : FunDef :=
  { nparams := 3, nlocals := 4, defaults := [],
    body := [.assign (.var 3) (.callF kFind [.var 1, .var 2]),
             .try [.retag 2 3 0 true] [([.typeError], [.retag 2 3 0 false])],
             .aug (.var 3) .add (.int 1), .ret (.var 3)] }

/-- `token(old.get_value())`, falling back to `token()` on TypeError -/
def newTok (S : Sys) (c : Nat) (old : CTok) : Except Err CTok :=
  match constructP S c [.str old.val] with
  | .ok (.tok t) => .ok t
  | .ok _ => .error .unmodelled
  | .error (.py .typeError) =>
    (match constructP S c [] with
      | .ok (.tok t) => .ok t
      | .ok _ => .error .unmodelled
      | .error e => .error e)
  | .error e => .error e

/-- what `assign_next_token` does, stated directly on the token array: re-tag the next raw item, return the index
    after it (this is `Classify.assignNextToken` with the constructor behaviour of the class table) -/
def assignNextTokenSpec (S : Sys) (T : ClassTables) (c i : Nat) (l : Array CTok) : Except Err (Array CTok × Nat) :=
  let cur := findNextToken T i l.toList
  match l[cur]? with
  | none => .error (.py .indexError)
  | some old =>
    match newTok S c old with
    | .ok t => .ok (l.setIfInBounds cur t, cur + 1)
    | .error e => .error e

/-- the fused store with its three variables bound, index in range -/
theorem retag_eval (S : Sys) (st : State) (c f : Nat) (b : Bool) (old : CTok) (xl xi xc : Nat)
    (gc : getVar xc st = (.ok (.cls c), st)) (gl : getVar xl st = (.ok .toks, st))
    (gi : getVar xi st = (.ok (.int f), st)) (hf : st.toks[f]? = some old) :
    retag S xl xi xc b st =
      match constructP S c (if b then [.str old.val] else []) with
      | .ok (.tok t) => (.ok (), (toksSet f t st).2)
      | .ok _ => (.error .unmodelled, st)
      | .error e => (.error e, st) := by
  have hlt : f < st.toks.size := (Array.getElem?_eq_some_iff.mp hf).1
  cases b with
  | true =>
    simp only [retag, retagArgs, retagCtor, construct, gc, gl, gi, indexVal, asInt, getSt, normIdx_nat, hlt, hf, tokArg,
      if_true, bind, M.bind, pure, M.pure]
    cases hc : constructP S c [.str old.val] with
    | error e => rfl
    | ok v =>
      cases v <;> simp [gl, gi, storeIndex, asInt, getSt, normIdx_nat, hlt, unmod, raise, toksSet, modSt, bind, M.bind]
  | false =>
    simp only [retag, retagArgs, retagCtor, construct, gc, Bool.false_eq_true, if_false, bind, M.bind, pure, M.pure]
    cases hc : constructP S c [] with
    | error e => rfl
    | ok v =>
      cases v <;> simp [gl, gi, storeIndex, asInt, getSt, normIdx_nat, hlt, unmod, raise, toksSet, modSt, bind, M.bind]

theorem retag_oob (S : Sys) (st : State) (c f : Nat) (xl xi xc : Nat)
    (gc : getVar xc st = (.ok (.cls c), st)) (gl : getVar xl st = (.ok .toks, st))
    (gi : getVar xi st = (.ok (.int f), st)) (hf : st.toks[f]? = none) :
    retag S xl xi xc true st = (.error (.py .indexError), st) := by
  have hlt : ¬ f < st.toks.size := by
    intro h; rw [Array.getElem?_eq_getElem h] at hf; cases hf
  simp [retag, retagArgs, gc, gl, gi, indexVal, asInt, getSt, normIdx_nat, hlt, indexErr, raise, bind, M.bind]

theorem findHandler_typeError (e : Err) (b : List Stmt) :
    findHandler e [([Exc.typeError], b)] = if e = .py .typeError then some b else none := by
  cases e with
  | py p => cases p <;> simp [findHandler, Exc.matches]
  | _ => simp [findHandler, Exc.matches]

/-- the `try: L[X] = C(L[X].get_value()) except TypeError: L[X] = C()` of `assign_next_token`, index in range -/
theorem try_retag_eval (S : Sys) (n : Nat) (st : State) (c f : Nat) (old : CTok)
    (gc : getVar 0 st = (.ok (.cls c), st)) (gl : getVar 2 st = (.ok .toks, st))
    (gi : getVar 3 st = (.ok (.int f), st)) (hf : st.toks[f]? = some old) :
    (run S (n + 2)).stmt (.try [.retag 2 3 0 true] [([.typeError], [.retag 2 3 0 false])]) st =
      match newTok S c old with
      | .ok t => (.ok .normal, (toksSet f t st).2)
      | .error e => (.error e, st) := by
  simp only [run_stmt, stepStmt, execBlock, retag_eval S st c f _ old 2 3 0 gc gl gi hf, if_true, bind, M.bind, pure, M.pure,
    newTok]
  cases h1 : constructP S c [.str old.val] with
  | ok v => cases v <;> simp [findHandler_typeError]
  | error e =>
    by_cases he : e = .py .typeError
    · subst he
      simp only [findHandler_typeError, if_true, execBlock, run_stmt, stepStmt,
        retag_eval S st c f _ old 2 3 0 gc gl gi hf, Bool.false_eq_true, if_false, bind, M.bind, pure, M.pure]
      cases h0 : constructP S c [] with
      | ok v => cases v <;> simp
      | error e => simp
    · simp only [findHandler_typeError, he, if_false]

theorem try_retag_oob (S : Sys) (n : Nat) (st : State) (c f : Nat)
    (gc : getVar 0 st = (.ok (.cls c), st)) (gl : getVar 2 st = (.ok .toks, st))
    (gi : getVar 3 st = (.ok (.int f), st)) (hf : st.toks[f]? = none) :
    (run S (n + 2)).stmt (.try [.retag 2 3 0 true] [([.typeError], [.retag 2 3 0 false])]) st =
      (.error (.py .indexError), st) := by
  simp [run_stmt, stepStmt, execBlock, retag_oob S st c f 2 3 0 gc gl gi hf, findHandler_typeError, bind, M.bind]

/-- result value and token list the specification prescribes -/
def specVal : Except Err (Array CTok × Nat) → Except Err Val
  | .ok (_, nx) => .ok (.int nx)
  | .error e => .error e

def specToks (l : Array CTok) : Except Err (Array CTok × Nat) → Array CTok
  | .ok (l', _) => l'
  | .error _ => l

/-- **`utils.assign_next_token`**: the interpreted function re-tags the next raw item and returns the index after
    it, exactly as `assignNextTokenSpec` says; on an exception the token list is untouched -/
theorem call_assign_next_token (S : Sys) (T : ClassTables) (k kFind m c i : Nat) (st : State)
    (hk : S.funs[k]? = some (assignNextTokenDef kFind)) (hkF : S.funs[kFind]? = some (findNextTokenDef T.item))
    (hfuel : st.toks.size < m + 4) (hsteps : st.steps + st.toks.size + 4 < S.maxSteps)
    (hdepth : st.depth + 1 < S.maxDepth) :
    ∃ st', (run S (m + 9)).call k [.cls c, .int i, .toks] st
        = (specVal (assignNextTokenSpec S T c i st.toks), st')
      ∧ st'.toks = specToks st.toks (assignNextTokenSpec S T c i st.toks)
      ∧ st'.frame = st.frame ∧ st'.depth = st.depth ∧ st'.heap = st.heap
      ∧ st.steps ≤ st'.steps ∧ st'.steps ≤ st.steps + st.toks.size + 3 := by
  show ∃ st', stepCall S (run S (m + 8)) k [.cls c, .int i, .toks] st = _ ∧ _
  rw [stepCall_eq S _ k _ _ st hk rfl rfl rfl (by omega) (by omega)]
  generalize hst1 : callState st k (assignNextTokenDef kFind) [.cls c, .int i, .toks] = st1
  have hfr : st1.frame = #[.cls c, .int i, .toks, .undef] := by rw [← hst1]; rfl
  have htoks : st1.toks = st.toks := by rw [← hst1]; rfl
  have hstp : st1.steps = st.steps + 1 := by rw [← hst1]; rfl
  have hdep : st1.depth = st.depth + 1 := by rw [← hst1]; rfl
  have hheap : st1.heap = st.heap := by rw [← hst1]; rfl
  have g1 := getVar_some (st := st1) (x := 1) (v := .int i) (by rw [hfr]; rfl) (by simp)
  have g2 := getVar_some (st := st1) (x := 2) (v := .toks) (by rw [hfr]; rfl) (by simp)
  obtain ⟨st2, hfind, hs2, hle2, hle2'⟩ := call_find_next_token S T kFind m i st1 hkF (by rw [htoks]; exact hfuel)
    (by rw [htoks, hstp]; omega) (by rw [hdep]; omega)
  have hfr2 : st2.frame = #[.cls c, .int i, .toks, .undef] := by rw [hs2.frame, hfr]
  rw [htoks] at hfind hle2'
  generalize hf : findNextToken T i st.toks.toList = f at hfind
  generalize hst3 : ({ st2 with frame := st2.frame.setIfInBounds 3 (.int f) } : State) = st3
  have hfr3 : st3.frame = #[.cls c, .int i, .toks, .int f] := by rw [← hst3, hfr2]; rfl
  have h0 := getVar_some (st := st3) (x := 0) (v := .cls c) (by rw [hfr3]; rfl) (by simp)
  have h2 := getVar_some (st := st3) (x := 2) (v := .toks) (by rw [hfr3]; rfl) (by simp)
  have h3 := getVar_some (st := st3) (x := 3) (v := .int f) (by rw [hfr3]; rfl) (by simp)
  have htoks3 : st3.toks = st.toks := by rw [← hst3]; show st2.toks = _; rw [hs2.toks, htoks]
  have hheap3 : st3.heap = st.heap := by rw [← hst3]; show st2.heap = _; rw [hs2]; exact hheap
  have hst3steps : st3.steps = st2.steps := by rw [← hst3]
  have hspec : assignNextTokenSpec S T c i st.toks =
      match st.toks[f]? with
      | none => .error (.py .indexError)
      | some old => (match newTok S c old with
        | .ok t => .ok (st.toks.setIfInBounds f t, f + 1)
        | .error e => .error e) := by
    unfold assignNextTokenSpec; rw [hf]
  rw [hspec]
  cases hget : st.toks[f]? with
  | none =>
    dsimp only
    have hget3 : st3.toks[f]? = none := by rw [htoks3]; exact hget
    refine ⟨{ st3 with frame := st.frame, depth := st.depth }, ?_, ?_, rfl, rfl, hheap3, ?_, ?_⟩
    · simp only [assignNextTokenDef, execBlock, run_stmt_assign, run_stmt_aug, run_stmt_ret, run_expr, stepStmt, stepExpr, evalArgs, g1, g2, hfind,
        assignTarget, assignSimple, setVar, modSt, bind, M.bind, pure, M.pure, hst3]
      have htry : (run S (m + 8)).stmt (.try [.retag 2 3 0 true] [([.typeError], [.retag 2 3 0 false])]) st3 = _ :=
        try_retag_oob S (m + 6) st3 c f h0 h2 h3 hget3
      simp only [htry, specVal]
    · simp only [specToks]; exact htoks3
    · show st.steps ≤ st3.steps; omega
    · show st3.steps ≤ _; omega
  | some old =>
    dsimp only
    have hget3 : st3.toks[f]? = some old := by rw [htoks3]; exact hget
    have htry : (run S (m + 8)).stmt (.try [.retag 2 3 0 true] [([.typeError], [.retag 2 3 0 false])]) st3 = _ :=
      try_retag_eval S (m + 6) st3 c f old h0 h2 h3 hget3
    cases hnew : newTok S c old with
    | error e =>
      rw [hnew] at htry
      dsimp only at htry
      refine ⟨{ st3 with frame := st.frame, depth := st.depth }, ?_, ?_, rfl, rfl, hheap3, ?_, ?_⟩
      · simp only [assignNextTokenDef, execBlock, run_stmt_assign, run_stmt_aug, run_stmt_ret, run_expr, stepStmt, stepExpr, evalArgs, g1, g2, hfind,
          assignTarget, assignSimple, setVar, modSt, bind, M.bind, pure, M.pure, hst3, htry, specVal]
      · simp only [specToks]; exact htoks3
      · show st.steps ≤ st3.steps; omega
      · show st3.steps ≤ _; omega
    | ok t =>
      rw [hnew] at htry
      dsimp only at htry
      obtain ⟨st4, hst4⟩ : ∃ st4, (toksSet f t st3).2 = st4 := ⟨_, rfl⟩
      rw [hst4] at htry
      have hfr4 : st4.frame = #[.cls c, .int i, .toks, .int f] := by rw [← hst4]; exact hfr3
      have k3 := getVar_some (st := st4) (x := 3) (v := .int f) (by rw [hfr4]; rfl) (by simp)
      generalize hst5 : ({ st4 with frame := st4.frame.setIfInBounds 3 (.int ((f + 1 : Nat) : Int)) } : State) = st5
      have hfr5 : st5.frame = #[.cls c, .int i, .toks, .int ((f + 1 : Nat) : Int)] := by rw [← hst5, hfr4]; rfl
      have k5 := getVar_some (st := st5) (x := 3) (v := .int ((f + 1 : Nat) : Int)) (by rw [hfr5]; rfl) (by simp)
      refine ⟨{ st5 with frame := st.frame, depth := st.depth }, ?_, ?_, rfl, rfl, ?_, ?_, ?_⟩
      · simp only [assignNextTokenDef, execBlock, run_stmt_assign, run_stmt_aug, run_stmt_ret, run_expr, stepStmt, stepExpr, evalArgs, g1, g2, hfind,
          assignTarget, assignSimple, setVar, modSt, bind, M.bind, pure, M.pure, hst3, htry, k3, binopVals, asInt]
        have hadd : ((f : Int) + 1) = ((f + 1 : Nat) : Int) := by push_cast; rfl
        simp only [hadd, hst5, k5, specVal]
      · simp only [specToks]
        rw [← hst5, ← hst4]
        show st3.toks.setIfInBounds f t = _
        rw [htoks3]
      · rw [← hst5, ← hst4]; exact hheap3
      · rw [← hst5, ← hst4]; show st.steps ≤ st3.steps; omega
      · rw [← hst5, ← hst4]; show st3.steps ≤ _; omega

/-- `utils.assign_next_token_if(sToken, token, iToken, lObjects)` -/
def assignNextTokenIfDef (kFind kOvi : Nat) : FunDef :=
  { nparams := 4, nlocals := 5, defaults := [],
    body := [.assign (.var 4) (.callF kFind [.var 2, .var 3]),
             .ite (.callF kOvi [.var 3, .var 4, .var 0])
               [.retag 3 4 1 true, .aug (.var 4) .add (.int 1), .ret (.var 4)] [],
             .ret (.var 2)] }

/-- `utils.assign_next_token_if_not(sToken, token, iToken, lObjects)` -/
def assignNextTokenIfNotDef (kFind kOvi : Nat) : FunDef :=
  { nparams := 4, nlocals := 5, defaults := [],
    body := [.assign (.var 4) (.callF kFind [.var 2, .var 3]),
             .ite (.not (.callF kOvi [.var 3, .var 4, .var 0]))
               [.retag 3 4 1 true, .aug (.var 4) .add (.int 1), .ret (.var 4)] [],
             .ret (.var 2)] }

/-- `token(old.get_value())` WITHOUT the TypeError fallback -/
def newTok1 (S : Sys) (c : Nat) (old : CTok) : Except Err CTok :=
  match constructP S c [.str old.val] with
  | .ok (.tok t) => .ok t
  | .ok _ => .error .unmodelled
  | .error e => .error e

/-- `assign_next_token_if` (`neg = false`) / `assign_next_token_if_not` (`neg = true`) on the token array: this is
    `Classify.assignNextTokenIf` / `assignNextTokenIfNot` with the constructor behaviour of the class table -/
def assignIfSpec (S : Sys) (T : ClassTables) (neg : Bool) (s : Str) (c i : Nat) (l : Array CTok) :
    Except Err (Array CTok × Nat) :=
  let cur := findNextToken T i l.toList
  match objectValueIs l.toList cur (S.lowerS s) with
  | .error e => .error (.py e)
  | .ok b =>
    if (b != neg) = true then
      (match l[cur]? with
        | none => .error (.py .indexError)
        | some old =>
          match newTok1 S c old with
          | .ok t => .ok (l.setIfInBounds cur t, cur + 1)
          | .error e => .error e)
    else .ok (l, i)

/-- the fused store as a statement -/
theorem retag_stmt_eval (S : Sys) (n : Nat) (st : State) (c f : Nat) (old : CTok) (xl xi xc : Nat)
    (gc : getVar xc st = (.ok (.cls c), st)) (gl : getVar xl st = (.ok .toks, st))
    (gi : getVar xi st = (.ok (.int f), st)) (hf : st.toks[f]? = some old) :
    (run S (n + 1)).stmt (.retag xl xi xc true) st =
      match newTok1 S c old with
      | .ok t => (.ok .normal, (toksSet f t st).2)
      | .error e => (.error e, st) := by
  simp only [run_stmt, stepStmt, retag_eval S st c f _ old xl xi xc gc gl gi hf, if_true, bind, M.bind, pure, M.pure, newTok1]
  cases constructP S c [.str old.val] with
  | ok v => cases v <;> rfl
  | error e => rfl

theorem objectValueIs_true_get {l : List CTok} {f : Nat} {s : Str} (h : objectValueIs l f s = .ok true) :
    ∃ old, l[f]? = some old := by
  unfold objectValueIs natGet at h
  cases hget : l[f]? with
  | none => rw [hget] at h; cases h
  | some old => exact ⟨old, rfl⟩

theorem objectValueIs_ok_get {l : List CTok} {f : Nat} {s : Str} {b : Bool} (h : objectValueIs l f s = .ok b) :
    ∃ old, l[f]? = some old := by
  unfold objectValueIs natGet at h
  cases hget : l[f]? with
  | none => rw [hget] at h; cases h
  | some old => exact ⟨old, rfl⟩


/-- **`utils.assign_next_token_if`** -/
theorem call_assign_next_token_if (S : Sys) (T : ClassTables) (k kFind kOvi m c i : Nat) (s : Str) (st : State)
    (hk : S.funs[k]? = some (assignNextTokenIfDef kFind kOvi)) (hkF : S.funs[kFind]? = some (findNextTokenDef T.item))
    (hkO : S.funs[kOvi]? = some objectValueIsDef)
    (hfuel : st.toks.size < m + 4) (hsteps : st.steps + st.toks.size + 5 < S.maxSteps)
    (hdepth : st.depth + 1 < S.maxDepth) :
    ∃ st', (run S (m + 10)).call k [.str s, .cls c, .int i, .toks] st
        = (specVal (assignIfSpec S T false s c i st.toks), st')
      ∧ st'.toks = specToks st.toks (assignIfSpec S T false s c i st.toks)
      ∧ st'.frame = st.frame ∧ st'.depth = st.depth ∧ st'.heap = st.heap
      ∧ st.steps ≤ st'.steps ∧ st'.steps ≤ st.steps + st.toks.size + 4 := by
  show ∃ st', stepCall S (run S (m + 9)) k [.str s, .cls c, .int i, .toks] st = _ ∧ _
  rw [stepCall_eq S _ k _ _ st hk rfl rfl rfl (by omega) (by omega)]
  generalize hst1 : callState st k (assignNextTokenIfDef kFind kOvi) [.str s, .cls c, .int i, .toks] = st1
  have hfr : st1.frame = #[.str s, .cls c, .int i, .toks, .undef] := by rw [← hst1]; rfl
  have htoks : st1.toks = st.toks := by rw [← hst1]; rfl
  have hstp : st1.steps = st.steps + 1 := by rw [← hst1]; rfl
  have hdep : st1.depth = st.depth + 1 := by rw [← hst1]; rfl
  have hheap : st1.heap = st.heap := by rw [← hst1]; rfl
  have g2 := getVar_some (st := st1) (x := 2) (v := .int i) (by rw [hfr]; rfl) (by simp)
  have g3 := getVar_some (st := st1) (x := 3) (v := .toks) (by rw [hfr]; rfl) (by simp)
  obtain ⟨st2, hfind, hs2, hle2, hle2'⟩ := call_find_next_token S T kFind (m + 1) i st1 hkF (by rw [htoks]; omega)
    (by rw [htoks, hstp]; omega) (by rw [hdep]; omega)
  have hfr2 : st2.frame = #[.str s, .cls c, .int i, .toks, .undef] := by rw [hs2.frame, hfr]
  rw [htoks] at hfind hle2'
  generalize hf : findNextToken T i st.toks.toList = f at hfind
  generalize hst3 : ({ st2 with frame := st2.frame.setIfInBounds 4 (.int f) } : State) = st3
  have hfr3 : st3.frame = #[.str s, .cls c, .int i, .toks, .int f] := by rw [← hst3, hfr2]; rfl
  have h0 := getVar_some (st := st3) (x := 0) (v := .str s) (by rw [hfr3]; rfl) (by simp)
  have h3 := getVar_some (st := st3) (x := 3) (v := .toks) (by rw [hfr3]; rfl) (by simp)
  have h4 := getVar_some (st := st3) (x := 4) (v := .int f) (by rw [hfr3]; rfl) (by simp)
  have htoks3 : st3.toks = st.toks := by rw [← hst3]; show st2.toks = _; rw [hs2.toks, htoks]
  have hheap3 : st3.heap = st.heap := by rw [← hst3]; show st2.heap = _; rw [hs2]; exact hheap
  have hst3steps : st3.steps = st2.steps := by rw [← hst3]
  obtain ⟨st4, hovi, hs4, hstp4⟩ := call_object_value_is S kOvi (m + 1) f s st3 hkO
    (by rw [hst3steps]; omega) (by rw [← hst3]; show st2.depth < _; rw [hs2.depth, hdep]; omega)
  rw [htoks3] at hovi
  have hfr4 : st4.frame = #[.str s, .cls c, .int i, .toks, .int f] := by rw [hs4.frame, hfr3]
  have htoks4 : st4.toks = st.toks := by rw [hs4.toks, htoks3]
  have hheap4 : st4.heap = st.heap := by rw [hs4]; exact hheap3
  have j1 := getVar_some (st := st4) (x := 1) (v := .cls c) (by rw [hfr4]; rfl) (by simp)
  have j2 := getVar_some (st := st4) (x := 2) (v := .int i) (by rw [hfr4]; rfl) (by simp)
  have j3 := getVar_some (st := st4) (x := 3) (v := .toks) (by rw [hfr4]; rfl) (by simp)
  have j4 := getVar_some (st := st4) (x := 4) (v := .int f) (by rw [hfr4]; rfl) (by simp)
  have hspec : assignIfSpec S T false s c i st.toks =
      match objectValueIs st.toks.toList f (S.lowerS s) with
      | .error e => .error (.py e)
      | .ok b =>
        if (b != false) = true then
          (match st.toks[f]? with
            | none => .error (.py .indexError)
            | some old =>
              match newTok1 S c old with
              | .ok t => .ok (st.toks.setIfInBounds f t, f + 1)
              | .error e => .error e)
        else .ok (st.toks, i) := by
    unfold assignIfSpec; rw [hf]
  rw [hspec]
  cases hres : objectValueIs st.toks.toList f (S.lowerS s) with
  | error e =>
    rw [hres] at hovi
    refine ⟨{ st4 with frame := st.frame, depth := st.depth }, ?_, ?_, rfl, rfl, hheap4, ?_, ?_⟩
    · simp only [assignNextTokenIfDef, execBlock, run_stmt_assign, run_stmt_ite, run_expr, stepStmt, stepExpr, evalArgs, g2, g3, hfind,
        assignTarget, assignSimple, setVar, modSt, bind, M.bind, pure, M.pure, hst3, h0, h3, h4, hovi, boolRes, specVal]
    · simp only [specToks]; exact htoks4
    · show st.steps ≤ st4.steps; omega
    · show st4.steps ≤ _; omega
  | ok b =>
    rw [hres] at hovi
    obtain ⟨old, hold⟩ := objectValueIs_ok_get hres
    have hold' : st.toks[f]? = some old := by simpa using hold
    have hget4 : st4.toks[f]? = some old := by rw [htoks4]; exact hold'
    have hretag : (run S (m + 8)).stmt (.retag 3 4 1 true) st4 = _ :=
      retag_stmt_eval S (m + 7) st4 c f old 3 4 1 j1 j3 j4 hget4
    by_cases hb : (b != false) = true
    · simp only [hb, if_true, hold']
      cases hnew : newTok1 S c old with
      | error e =>
        rw [hnew] at hretag
        dsimp only at hretag
        refine ⟨{ st4 with frame := st.frame, depth := st.depth }, ?_, ?_, rfl, rfl, hheap4, ?_, ?_⟩
        · cases b <;> simp at hb <;>
          simp only [assignNextTokenIfDef, execBlock, run_stmt_assign, run_stmt_ite, run_expr, stepStmt, stepExpr, evalArgs, g2, g3, hfind,
            assignTarget, assignSimple, setVar, modSt, bind, M.bind, pure, M.pure, hst3, h0, h3, h4, hovi, boolRes, truthy,
            hretag, specVal, Bool.not_false, Bool.not_true, if_true]
        · simp only [specToks]; exact htoks4
        · show st.steps ≤ st4.steps; omega
        · show st4.steps ≤ _; omega
      | ok t =>
        rw [hnew] at hretag
        dsimp only at hretag
        obtain ⟨st5, hst5⟩ : ∃ st5, (toksSet f t st4).2 = st5 := ⟨_, rfl⟩
        rw [hst5] at hretag
        have hfr5 : st5.frame = #[.str s, .cls c, .int i, .toks, .int f] := by rw [← hst5]; exact hfr4
        have k4 := getVar_some (st := st5) (x := 4) (v := .int f) (by rw [hfr5]; rfl) (by simp)
        generalize hst6 : ({ st5 with frame := st5.frame.setIfInBounds 4 (.int ((f + 1 : Nat) : Int)) } : State) = st6
        have hfr6 : st6.frame = #[.str s, .cls c, .int i, .toks, .int ((f + 1 : Nat) : Int)] := by rw [← hst6, hfr5]; rfl
        have k6 := getVar_some (st := st6) (x := 4) (v := .int ((f + 1 : Nat) : Int)) (by rw [hfr6]; rfl) (by simp)
        have hadd : ((f : Int) + 1) = ((f + 1 : Nat) : Int) := by push_cast; rfl
        refine ⟨{ st6 with frame := st.frame, depth := st.depth }, ?_, ?_, rfl, rfl, ?_, ?_, ?_⟩
        · cases b <;> simp at hb <;>
          simp only [assignNextTokenIfDef, execBlock, run_stmt_assign, run_stmt_ite, run_stmt_aug, run_stmt_ret, run_expr, stepStmt,
            stepExpr, evalArgs, g2, g3, hfind, assignTarget, assignSimple, setVar, modSt, bind, M.bind, pure, M.pure, hst3,
            h0, h3, h4, hovi, boolRes, truthy, hretag, k4, binopVals, asInt, hadd, hst6, k6, specVal, Bool.not_false,
            Bool.not_true, if_true]
        · simp only [specToks]
          rw [← hst6, ← hst5]
          show st4.toks.setIfInBounds f t = _
          rw [htoks4]
        · rw [← hst6, ← hst5]; exact hheap4
        · rw [← hst6, ← hst5]; show st.steps ≤ st4.steps; omega
        · rw [← hst6, ← hst5]; show st4.steps ≤ _; omega
    · simp only [hb, if_false]
      refine ⟨{ st4 with frame := st.frame, depth := st.depth }, ?_, ?_, rfl, rfl, hheap4, ?_, ?_⟩
      · cases b <;> simp at hb <;>
        simp only [assignNextTokenIfDef, execBlock, run_stmt_assign, run_stmt_ite, run_stmt_ret, run_expr, stepStmt, stepExpr, evalArgs,
          g2, g3, hfind, assignTarget, assignSimple, setVar, modSt, bind, M.bind, pure, M.pure, hst3, h0, h3, h4, hovi, boolRes,
          truthy, j2, specVal, Bool.not_false, Bool.not_true, if_false, Bool.false_eq_true]
      · simp only [specToks]; exact htoks4
      · show st.steps ≤ st4.steps; omega
      · show st4.steps ≤ _; omega

/-- **`utils.assign_next_token_if_not`** -/
theorem call_assign_next_token_if_not (S : Sys) (T : ClassTables) (k kFind kOvi m c i : Nat) (s : Str) (st : State)
    (hk : S.funs[k]? = some (assignNextTokenIfNotDef kFind kOvi)) (hkF : S.funs[kFind]? = some (findNextTokenDef T.item))
    (hkO : S.funs[kOvi]? = some objectValueIsDef)
    (hfuel : st.toks.size < m + 4) (hsteps : st.steps + st.toks.size + 5 < S.maxSteps)
    (hdepth : st.depth + 1 < S.maxDepth) :
    ∃ st', (run S (m + 10)).call k [.str s, .cls c, .int i, .toks] st
        = (specVal (assignIfSpec S T true s c i st.toks), st')
      ∧ st'.toks = specToks st.toks (assignIfSpec S T true s c i st.toks)
      ∧ st'.frame = st.frame ∧ st'.depth = st.depth ∧ st'.heap = st.heap
      ∧ st.steps ≤ st'.steps ∧ st'.steps ≤ st.steps + st.toks.size + 4 := by
  show ∃ st', stepCall S (run S (m + 9)) k [.str s, .cls c, .int i, .toks] st = _ ∧ _
  rw [stepCall_eq S _ k _ _ st hk rfl rfl rfl (by omega) (by omega)]
  generalize hst1 : callState st k (assignNextTokenIfNotDef kFind kOvi) [.str s, .cls c, .int i, .toks] = st1
  have hfr : st1.frame = #[.str s, .cls c, .int i, .toks, .undef] := by rw [← hst1]; rfl
  have htoks : st1.toks = st.toks := by rw [← hst1]; rfl
  have hstp : st1.steps = st.steps + 1 := by rw [← hst1]; rfl
  have hdep : st1.depth = st.depth + 1 := by rw [← hst1]; rfl
  have hheap : st1.heap = st.heap := by rw [← hst1]; rfl
  have g2 := getVar_some (st := st1) (x := 2) (v := .int i) (by rw [hfr]; rfl) (by simp)
  have g3 := getVar_some (st := st1) (x := 3) (v := .toks) (by rw [hfr]; rfl) (by simp)
  obtain ⟨st2, hfind, hs2, hle2, hle2'⟩ := call_find_next_token S T kFind (m + 1) i st1 hkF (by rw [htoks]; omega)
    (by rw [htoks, hstp]; omega) (by rw [hdep]; omega)
  have hfr2 : st2.frame = #[.str s, .cls c, .int i, .toks, .undef] := by rw [hs2.frame, hfr]
  rw [htoks] at hfind hle2'
  generalize hf : findNextToken T i st.toks.toList = f at hfind
  generalize hst3 : ({ st2 with frame := st2.frame.setIfInBounds 4 (.int f) } : State) = st3
  have hfr3 : st3.frame = #[.str s, .cls c, .int i, .toks, .int f] := by rw [← hst3, hfr2]; rfl
  have h0 := getVar_some (st := st3) (x := 0) (v := .str s) (by rw [hfr3]; rfl) (by simp)
  have h3 := getVar_some (st := st3) (x := 3) (v := .toks) (by rw [hfr3]; rfl) (by simp)
  have h4 := getVar_some (st := st3) (x := 4) (v := .int f) (by rw [hfr3]; rfl) (by simp)
  have htoks3 : st3.toks = st.toks := by rw [← hst3]; show st2.toks = _; rw [hs2.toks, htoks]
  have hheap3 : st3.heap = st.heap := by rw [← hst3]; show st2.heap = _; rw [hs2]; exact hheap
  have hst3steps : st3.steps = st2.steps := by rw [← hst3]
  obtain ⟨st4, hovi, hs4, hstp4⟩ := call_object_value_is S kOvi m f s st3 hkO
    (by rw [hst3steps]; omega) (by rw [← hst3]; show st2.depth < _; rw [hs2.depth, hdep]; omega)
  rw [htoks3] at hovi
  have hfr4 : st4.frame = #[.str s, .cls c, .int i, .toks, .int f] := by rw [hs4.frame, hfr3]
  have htoks4 : st4.toks = st.toks := by rw [hs4.toks, htoks3]
  have hheap4 : st4.heap = st.heap := by rw [hs4]; exact hheap3
  have j1 := getVar_some (st := st4) (x := 1) (v := .cls c) (by rw [hfr4]; rfl) (by simp)
  have j2 := getVar_some (st := st4) (x := 2) (v := .int i) (by rw [hfr4]; rfl) (by simp)
  have j3 := getVar_some (st := st4) (x := 3) (v := .toks) (by rw [hfr4]; rfl) (by simp)
  have j4 := getVar_some (st := st4) (x := 4) (v := .int f) (by rw [hfr4]; rfl) (by simp)
  have hspec : assignIfSpec S T true s c i st.toks =
      match objectValueIs st.toks.toList f (S.lowerS s) with
      | .error e => .error (.py e)
      | .ok b =>
        if (b != true) = true then
          (match st.toks[f]? with
            | none => .error (.py .indexError)
            | some old =>
              match newTok1 S c old with
              | .ok t => .ok (st.toks.setIfInBounds f t, f + 1)
              | .error e => .error e)
        else .ok (st.toks, i) := by
    unfold assignIfSpec; rw [hf]
  rw [hspec]
  cases hres : objectValueIs st.toks.toList f (S.lowerS s) with
  | error e =>
    rw [hres] at hovi
    refine ⟨{ st4 with frame := st.frame, depth := st.depth }, ?_, ?_, rfl, rfl, hheap4, ?_, ?_⟩
    · simp only [assignNextTokenIfNotDef, execBlock, run_stmt_assign, run_stmt_ite, run_expr, stepStmt, stepExpr, evalArgs, g2, g3, hfind,
        assignTarget, assignSimple, setVar, modSt, bind, M.bind, pure, M.pure, hst3, h0, h3, h4, hovi, boolRes, specVal]
    · simp only [specToks]; exact htoks4
    · show st.steps ≤ st4.steps; omega
    · show st4.steps ≤ _; omega
  | ok b =>
    rw [hres] at hovi
    obtain ⟨old, hold⟩ := objectValueIs_ok_get hres
    have hold' : st.toks[f]? = some old := by simpa using hold
    have hget4 : st4.toks[f]? = some old := by rw [htoks4]; exact hold'
    have hretag : (run S (m + 8)).stmt (.retag 3 4 1 true) st4 = _ :=
      retag_stmt_eval S (m + 7) st4 c f old 3 4 1 j1 j3 j4 hget4
    by_cases hb : (b != true) = true
    · simp only [hb, if_true, hold']
      cases hnew : newTok1 S c old with
      | error e =>
        rw [hnew] at hretag
        dsimp only at hretag
        refine ⟨{ st4 with frame := st.frame, depth := st.depth }, ?_, ?_, rfl, rfl, hheap4, ?_, ?_⟩
        · cases b <;> simp at hb <;>
          simp only [assignNextTokenIfNotDef, execBlock, run_stmt_assign, run_stmt_ite, run_expr, stepStmt, stepExpr, evalArgs, g2, g3, hfind,
            assignTarget, assignSimple, setVar, modSt, bind, M.bind, pure, M.pure, hst3, h0, h3, h4, hovi, boolRes, truthy,
            hretag, specVal, Bool.not_false, Bool.not_true, if_true]
        · simp only [specToks]; exact htoks4
        · show st.steps ≤ st4.steps; omega
        · show st4.steps ≤ _; omega
      | ok t =>
        rw [hnew] at hretag
        dsimp only at hretag
        obtain ⟨st5, hst5⟩ : ∃ st5, (toksSet f t st4).2 = st5 := ⟨_, rfl⟩
        rw [hst5] at hretag
        have hfr5 : st5.frame = #[.str s, .cls c, .int i, .toks, .int f] := by rw [← hst5]; exact hfr4
        have k4 := getVar_some (st := st5) (x := 4) (v := .int f) (by rw [hfr5]; rfl) (by simp)
        generalize hst6 : ({ st5 with frame := st5.frame.setIfInBounds 4 (.int ((f + 1 : Nat) : Int)) } : State) = st6
        have hfr6 : st6.frame = #[.str s, .cls c, .int i, .toks, .int ((f + 1 : Nat) : Int)] := by rw [← hst6, hfr5]; rfl
        have k6 := getVar_some (st := st6) (x := 4) (v := .int ((f + 1 : Nat) : Int)) (by rw [hfr6]; rfl) (by simp)
        have hadd : ((f : Int) + 1) = ((f + 1 : Nat) : Int) := by push_cast; rfl
        refine ⟨{ st6 with frame := st.frame, depth := st.depth }, ?_, ?_, rfl, rfl, ?_, ?_, ?_⟩
        · cases b <;> simp at hb <;>
          simp only [assignNextTokenIfNotDef, execBlock, run_stmt_assign, run_stmt_ite, run_stmt_aug, run_stmt_ret, run_expr, stepStmt,
            stepExpr, evalArgs, g2, g3, hfind, assignTarget, assignSimple, setVar, modSt, bind, M.bind, pure, M.pure, hst3,
            h0, h3, h4, hovi, boolRes, truthy, hretag, k4, binopVals, asInt, hadd, hst6, k6, specVal, Bool.not_false,
            Bool.not_true, if_true]
        · simp only [specToks]
          rw [← hst6, ← hst5]
          show st4.toks.setIfInBounds f t = _
          rw [htoks4]
        · rw [← hst6, ← hst5]; exact hheap4
        · rw [← hst6, ← hst5]; show st.steps ≤ st4.steps; omega
        · rw [← hst6, ← hst5]; show st4.steps ≤ _; omega
    · simp only [hb, if_false]
      refine ⟨{ st4 with frame := st.frame, depth := st.depth }, ?_, ?_, rfl, rfl, hheap4, ?_, ?_⟩
      · cases b <;> simp at hb <;>
        simp only [assignNextTokenIfNotDef, execBlock, run_stmt_assign, run_stmt_ite, run_stmt_ret, run_expr, stepStmt, stepExpr, evalArgs,
          g2, g3, hfind, assignTarget, assignSimple, setVar, modSt, bind, M.bind, pure, M.pure, hst3, h0, h3, h4, hovi, boolRes,
          truthy, j2, specVal, Bool.not_false, Bool.not_true, if_false, Bool.false_eq_true]
      · simp only [specToks]; exact htoks4
      · show st.steps ≤ st4.steps; omega
      · show st4.steps ≤ _; omega

/-- `utils.assign_next_token_required(sToken, token, iToken, lObjects)` -/
def assignNextTokenRequiredDef (kFind kOvi kErr : Nat) : FunDef :=
  { nparams := 4, nlocals := 5, defaults := [],
    body := [.assign (.var 4) (.callF kFind [.var 2, .var 3]),
             .ite (.callF kOvi [.var 3, .var 4, .var 0])
               [.retag 3 4 1 true, .ret (.binop .add (.var 4) (.int 1))]
               [.expr (.callF kErr [.var 0, .var 1, .var 4, .var 3])],
             .ret (.var 2)] }

/-- **`utils.assign_next_token_required`**, the branches that do not reach `print_error_message`: when the next raw
    item has the required value it is re-tagged and the index after it is returned (the `assign_next_token_if` result);
    when there is no next item the IndexError of `object_value_is` propagates.  (Otherwise the function calls
    `utils.print_error_message`, whose ClassifyError / UnboundLocalError is NOT derived here.) -/
theorem call_assign_next_token_required (S : Sys) (T : ClassTables) (k kFind kOvi kErr m c i : Nat) (s : Str) (st : State)
    (hk : S.funs[k]? = some (assignNextTokenRequiredDef kFind kOvi kErr))
    (hkF : S.funs[kFind]? = some (findNextTokenDef T.item)) (hkO : S.funs[kOvi]? = some objectValueIsDef)
    (hfuel : st.toks.size < m + 4) (hsteps : st.steps + st.toks.size + 5 < S.maxSteps)
    (hdepth : st.depth + 1 < S.maxDepth)
    (hreq : objectValueIs st.toks.toList (findNextToken T i st.toks.toList) (S.lowerS s) ≠ .ok false) :
    ∃ st', (run S (m + 10)).call k [.str s, .cls c, .int i, .toks] st
        = (specVal (assignIfSpec S T false s c i st.toks), st')
      ∧ st'.toks = specToks st.toks (assignIfSpec S T false s c i st.toks)
      ∧ st'.frame = st.frame ∧ st'.depth = st.depth ∧ st'.heap = st.heap
      ∧ st.steps ≤ st'.steps ∧ st'.steps ≤ st.steps + st.toks.size + 4 := by
  show ∃ st', stepCall S (run S (m + 9)) k [.str s, .cls c, .int i, .toks] st = _ ∧ _
  rw [stepCall_eq S _ k _ _ st hk rfl rfl rfl (by omega) (by omega)]
  generalize hst1 : callState st k (assignNextTokenRequiredDef kFind kOvi kErr) [.str s, .cls c, .int i, .toks] = st1
  have hfr : st1.frame = #[.str s, .cls c, .int i, .toks, .undef] := by rw [← hst1]; rfl
  have htoks : st1.toks = st.toks := by rw [← hst1]; rfl
  have hstp : st1.steps = st.steps + 1 := by rw [← hst1]; rfl
  have hdep : st1.depth = st.depth + 1 := by rw [← hst1]; rfl
  have hheap : st1.heap = st.heap := by rw [← hst1]; rfl
  have g2 := getVar_some (st := st1) (x := 2) (v := .int i) (by rw [hfr]; rfl) (by simp)
  have g3 := getVar_some (st := st1) (x := 3) (v := .toks) (by rw [hfr]; rfl) (by simp)
  obtain ⟨st2, hfind, hs2, hle2, hle2'⟩ := call_find_next_token S T kFind (m + 1) i st1 hkF (by rw [htoks]; omega)
    (by rw [htoks, hstp]; omega) (by rw [hdep]; omega)
  have hfr2 : st2.frame = #[.str s, .cls c, .int i, .toks, .undef] := by rw [hs2.frame, hfr]
  rw [htoks] at hfind hle2'
  generalize hf : findNextToken T i st.toks.toList = f at hfind hreq
  generalize hst3 : ({ st2 with frame := st2.frame.setIfInBounds 4 (.int f) } : State) = st3
  have hfr3 : st3.frame = #[.str s, .cls c, .int i, .toks, .int f] := by rw [← hst3, hfr2]; rfl
  have h0 := getVar_some (st := st3) (x := 0) (v := .str s) (by rw [hfr3]; rfl) (by simp)
  have h3 := getVar_some (st := st3) (x := 3) (v := .toks) (by rw [hfr3]; rfl) (by simp)
  have h4 := getVar_some (st := st3) (x := 4) (v := .int f) (by rw [hfr3]; rfl) (by simp)
  have htoks3 : st3.toks = st.toks := by rw [← hst3]; show st2.toks = _; rw [hs2.toks, htoks]
  have hheap3 : st3.heap = st.heap := by rw [← hst3]; show st2.heap = _; rw [hs2]; exact hheap
  have hst3steps : st3.steps = st2.steps := by rw [← hst3]
  obtain ⟨st4, hovi, hs4, hstp4⟩ := call_object_value_is S kOvi (m + 1) f s st3 hkO
    (by rw [hst3steps]; omega) (by rw [← hst3]; show st2.depth < _; rw [hs2.depth, hdep]; omega)
  rw [htoks3] at hovi
  have hfr4 : st4.frame = #[.str s, .cls c, .int i, .toks, .int f] := by rw [hs4.frame, hfr3]
  have htoks4 : st4.toks = st.toks := by rw [hs4.toks, htoks3]
  have hheap4 : st4.heap = st.heap := by rw [hs4]; exact hheap3
  have j1 := getVar_some (st := st4) (x := 1) (v := .cls c) (by rw [hfr4]; rfl) (by simp)
  have j3 := getVar_some (st := st4) (x := 3) (v := .toks) (by rw [hfr4]; rfl) (by simp)
  have j4 := getVar_some (st := st4) (x := 4) (v := .int f) (by rw [hfr4]; rfl) (by simp)
  have hspec : assignIfSpec S T false s c i st.toks =
      match objectValueIs st.toks.toList f (S.lowerS s) with
      | .error e => .error (.py e)
      | .ok b =>
        if (b != false) = true then
          (match st.toks[f]? with
            | none => .error (.py .indexError)
            | some old =>
              match newTok1 S c old with
              | .ok t => .ok (st.toks.setIfInBounds f t, f + 1)
              | .error e => .error e)
        else .ok (st.toks, i) := by
    unfold assignIfSpec; rw [hf]
  rw [hspec]
  cases hres : objectValueIs st.toks.toList f (S.lowerS s) with
  | error e =>
    rw [hres] at hovi
    refine ⟨{ st4 with frame := st.frame, depth := st.depth }, ?_, ?_, rfl, rfl, hheap4, ?_, ?_⟩
    · simp only [assignNextTokenRequiredDef, execBlock, run_stmt_assign, run_stmt_ite, run_expr, stepStmt, stepExpr, evalArgs,
        g2, g3, hfind, assignTarget, assignSimple, setVar, modSt, bind, M.bind, pure, M.pure, hst3, h0, h3, h4, hovi, boolRes,
        specVal]
    · simp only [specToks]; exact htoks4
    · show st.steps ≤ st4.steps; omega
    · show st4.steps ≤ _; omega
  | ok b =>
    cases b with
    | false => exact absurd hres hreq
    | true =>
      rw [hres] at hovi
      obtain ⟨old, hold⟩ := objectValueIs_ok_get hres
      have hold' : st.toks[f]? = some old := by simpa using hold
      have hget4 : st4.toks[f]? = some old := by rw [htoks4]; exact hold'
      have hretag : (run S (m + 8)).stmt (.retag 3 4 1 true) st4 = _ :=
        retag_stmt_eval S (m + 7) st4 c f old 3 4 1 j1 j3 j4 hget4
      simp only [bne_self_eq_false, Bool.true_bne, Bool.not_false, if_true, hold']
      cases hnew : newTok1 S c old with
      | error e =>
        rw [hnew] at hretag
        dsimp only at hretag
        refine ⟨{ st4 with frame := st.frame, depth := st.depth }, ?_, ?_, rfl, rfl, hheap4, ?_, ?_⟩
        · simp only [assignNextTokenRequiredDef, execBlock, run_stmt_assign, run_stmt_ite, run_expr, stepStmt, stepExpr,
            evalArgs, g2, g3, hfind, assignTarget, assignSimple, setVar, modSt, bind, M.bind, pure, M.pure, hst3, h0, h3, h4,
            hovi, boolRes, truthy, hretag, specVal, if_true]
        · simp only [specToks]; exact htoks4
        · show st.steps ≤ st4.steps; omega
        · show st4.steps ≤ _; omega
      | ok t =>
        rw [hnew] at hretag
        dsimp only at hretag
        obtain ⟨st5, hst5⟩ : ∃ st5, (toksSet f t st4).2 = st5 := ⟨_, rfl⟩
        rw [hst5] at hretag
        have hfr5 : st5.frame = #[.str s, .cls c, .int i, .toks, .int f] := by rw [← hst5]; exact hfr4
        have k4 := getVar_some (st := st5) (x := 4) (v := .int f) (by rw [hfr5]; rfl) (by simp)
        have hadd : ((f : Int) + 1) = ((f + 1 : Nat) : Int) := by push_cast; rfl
        refine ⟨{ st5 with frame := st.frame, depth := st.depth }, ?_, ?_, rfl, rfl, ?_, ?_, ?_⟩
        · simp only [assignNextTokenRequiredDef, execBlock, run_stmt_assign, run_stmt_ite, run_stmt_ret, run_expr, stepStmt,
            stepExpr, evalArgs, g2, g3, hfind, assignTarget, assignSimple, setVar, modSt, bind, M.bind, pure, M.pure, hst3,
            h0, h3, h4, hovi, boolRes, truthy, hretag, k4, binopVals, asInt, hadd, specVal, if_true]
        · simp only [specToks]
          rw [← hst5]
          show st4.toks.setIfInBounds f t = _
          rw [htoks4]
        · rw [← hst5]; exact hheap4
        · rw [← hst5]; show st.steps ≤ st4.steps; omega
        · rw [← hst5]; show st4.steps ≤ _; omega

end Vsgm.Prog
