/-
  Lemmas for C08 `emit_retokenise_partial`: on a string free of quote and backslash characters
  the passes 2, 3, 7 and 9 of the tokenizer are inert, and the remaining passes never look
  across a whitespace token.
-/
import VsgModel.Lex.Create
import VsgModel.Lex.Retok
import VsgProofs.Lemmas.Lex
namespace Vsgm.Lex.Rt
open Vsgm Vsgm.Lex

variable (T : LexTables)

/-- passes 4, 5, 6, 8 -/
def mid (l : List Str) : List Str :=
  splitNaturalNumbers T (combineWords T (combineTwo T (combineThree T l)))

/-! ### the inert passes -/

theorem indexesOf_nil_of_not_mem (v : Str) (l : List Str) (i : Nat) (h : v ∉ l) : indexesOf v l i = [] := by
  induction l generalizing i with
  | nil => rfl
  | cons t ts ih =>
    simp only [List.mem_cons, not_or] at h
    simp only [indexesOf]
    rw [if_neg (fun e => h.1 e.symm)]
    exact ih (i + 1) h.2

theorem combineStringLiterals_id (l : List Str) (h : dq ∉ l) : combineStringLiterals l = l := by
  simp [combineStringLiterals, indexesOf_nil_of_not_mem dq l 0 h, pairUp, combineQuotePairs]

theorem combineCharLiterals_id (l : List Str) (h : sq ∉ l) : combineCharLiterals l = l := by
  simp [combineCharLiterals, indexesOf_nil_of_not_mem sq l 0 h, candidates]

theorem bsGo_id (cs acc : List Str) (h : ['\\'] ∉ cs) : bsGo T cs [] false acc = acc ++ cs := by
  induction cs generalizing acc with
  | nil => simp [bsGo]
  | cons c cs ih =>
    simp only [List.mem_cons, not_or] at h
    have hc : ¬ c = ['\\'] := fun e => h.1 e.symm
    simp only [bsGo, stopCharFound, Bool.and_false, hc, if_false, Bool.false_eq_true, Bool.not_false]
    simp only [if_true]
    rw [ih _ h.2]; simp

theorem combineBackslash_id (l : List Str) (h : ['\\'] ∉ l) : combineBackslash T l = l := by
  simp [combineBackslash, bsGo_id T l [] h]

theorem splitBitStrings_id (l : List Str) (h : ∀ t ∈ l, startsDq t = false) : splitBitStrings T l = l := by
  fun_induction splitBitStrings T l with
  | case1 => rfl
  | case2 s => rfl
  | case3 s n rest ih =>
    have hn : startsDq n = false := h n (by simp)
    simp only [hn, Bool.and_false, Bool.false_eq_true, if_false]
    rw [ih (fun t ht => h t (List.mem_cons_of_mem _ ht))]
    rfl

theorem char_mem_of_tok_mem {l : List Str} {t : Str} {c : Char} (ht : t ∈ l) (hc : c ∈ t) : c ∈ l.flatten :=
  List.mem_flatten.2 ⟨t, ht, hc⟩

theorem quoteFree_not_mem {s : Str} (h : quoteFree s = true) :
    '"' ∉ s ∧ '\'' ∉ s ∧ '\\' ∉ s := by
  simp only [quoteFree, List.all_eq_true, isQuoteChar, Bool.not_eq_true', Bool.or_eq_false_iff,
    beq_eq_false_iff_ne, ne_eq] at h
  exact ⟨fun hm => (h _ hm).1.1 rfl, fun hm => (h _ hm).1.2 rfl, fun hm => (h _ hm).2 rfl⟩

theorem startsDq_mem {t : Str} (h : startsDq t = true) : '"' ∈ t := by
  unfold startsDq at h
  split at h
  · simp
  · cases h

/-- on a quote-free string `tokens.create` is passes 1, 4, 5, 6, 8 -/
theorem create_qf (s : Str) (h : quoteFree s = true) :
    create T s = mid T (combineWhitespace T (toChars s)) := by
  obtain ⟨hd, hs, hb⟩ := quoteFree_not_mem h
  have f1 : (combineWhitespace T (toChars s)).flatten = s :=
    (combineWhitespace_flatten T _).trans (toChars_flatten s)
  have e2 : combineStringLiterals (combineWhitespace T (toChars s)) = combineWhitespace T (toChars s) :=
    combineStringLiterals_id _ (fun hm => hd (f1 ▸ char_mem_of_tok_mem hm (by simp [dq])))
  have e3 : combineBackslash T (combineWhitespace T (toChars s)) = combineWhitespace T (toChars s) :=
    combineBackslash_id T _ (fun hm => hb (f1 ▸ char_mem_of_tok_mem hm (by simp)))
  unfold create mid
  rw [e2, e3]
  have f6 : (combineWords T (combineTwo T (combineThree T (combineWhitespace T (toChars s))))).flatten = s := by
    rw [combineWords_flatten, combineTwo_flatten, combineThree_flatten, f1]
  have e7 := combineCharLiterals_id (combineWords T (combineTwo T (combineThree T (combineWhitespace T (toChars s)))))
    (fun hm => hs (f6 ▸ char_mem_of_tok_mem hm (by simp [sq])))
  rw [e7]
  apply splitBitStrings_id
  intro t ht
  cases hq : startsDq t with
  | false => rfl
  | true =>
    exfalso
    have f8 : (splitNaturalNumbers T (combineWords T (combineTwo T (combineThree T (combineWhitespace T (toChars s)))))).flatten = s := by
      rw [splitNaturalNumbers_flatten, f6]
    exact hd (f8 ▸ char_mem_of_tok_mem ht (startsDq_mem hq))

/-! ### pass 1 — combine_whitespace on  segment · whitespace · rest -/

theorem strIsSpace_single (c : Char) : strIsSpace T [c] = T.isSpace c := by
  simp [strIsSpace]

theorem cwGo_acc (cs : List Str) (sp : Str) (acc : List Str) :
    cwGo T cs sp acc = acc ++ cwGo T cs sp [] := by
  induction cs generalizing sp acc with
  | nil => simp [cwGo]
  | cons c cs ih =>
    simp only [cwGo]
    split
    · exact ih _ _
    · split
      · rw [ih _ (acc ++ [sp] ++ [c]), ih _ ([] ++ [sp] ++ [c])]; simp
      · rw [ih _ (acc ++ [c]), ih _ ([] ++ [c])]; simp

/-- a whitespace-free run is copied character by character -/
theorem cwGo_seg (a : Str) (x : List Str) (acc : List Str) (ha : spaceFree T a = true) :
    cwGo T (toChars a ++ x) [] acc = cwGo T x [] (acc ++ toChars a) := by
  induction a generalizing acc with
  | nil => simp [toChars]
  | cons c a ih =>
    simp only [spaceFree, List.all_cons, Bool.and_eq_true, Bool.not_eq_true'] at ha
    have hc : strIsSpace T [c] = false := by rw [strIsSpace_single]; exact ha.1
    have hn : strIsSpace T [] = false := by simp [strIsSpace]
    simp only [toChars, List.map_cons, List.cons_append, cwGo, hc, hn, Bool.false_eq_true, if_false]
    have := ih (acc ++ [[c]]) (by simpa [spaceFree] using ha.2)
    simp only [toChars] at this
    rw [this]; simp

/-- whitespace characters are collected in `sp` -/
theorem cwGo_ws (w : Str) (x : List Str) (sp : Str) (acc : List Str) (hw : w.all T.isSpace = true) :
    cwGo T (toChars w ++ x) sp acc = cwGo T x (sp ++ w) acc := by
  induction w generalizing sp with
  | nil => simp [toChars]
  | cons c w ih =>
    simp only [List.all_cons, Bool.and_eq_true] at hw
    have hc : strIsSpace T [c] = true := by rw [strIsSpace_single]; exact hw.1
    simp only [toChars, List.map_cons, List.cons_append, cwGo, hc, if_true]
    have := ih (sp ++ [c]) hw.2
    simp only [toChars] at this
    rw [this]; simp

theorem toChars_append (a b : Str) : toChars (a ++ b) = toChars a ++ toChars b := by
  simp [toChars]

/-- `seg` alone: the characters and the trailing `""` -/
theorem combineWhitespace_seg (a : Str) (ha : spaceFree T a = true) :
    combineWhitespace T (toChars a) = toChars a ++ [[]] := by
  have := cwGo_seg T a [] [] ha
  simp only [List.append_nil, List.nil_append] at this
  unfold combineWhitespace
  rw [this]; simp [cwGo]

/-- `seg · ws` at the end of the line: the whitespace is the trailing element -/
theorem combineWhitespace_seg_ws (a w : Str) (ha : spaceFree T a = true) (hw : strIsSpace T w = true) :
    combineWhitespace T (toChars (a ++ w)) = toChars a ++ [w] := by
  simp only [strIsSpace, Bool.and_eq_true] at hw
  unfold combineWhitespace
  rw [toChars_append, cwGo_seg T a _ [] ha]
  have := cwGo_ws T w [] [] ([] ++ toChars a) hw.2
  simp only [List.append_nil] at this
  rw [this]; simp [cwGo]

/-- `seg · ws · rest` where `rest` starts with a non-whitespace character -/
theorem combineWhitespace_seg_ws_rest (a w : Str) (c : Char) (b : Str) (ha : spaceFree T a = true)
    (hw : strIsSpace T w = true) (hc : T.isSpace c = false) :
    combineWhitespace T (toChars (a ++ w ++ c :: b)) =
      toChars a ++ w :: combineWhitespace T (toChars (c :: b)) := by
  have hw' := hw
  simp only [strIsSpace, Bool.and_eq_true] at hw'
  have hcs : strIsSpace T [c] = false := by rw [strIsSpace_single]; exact hc
  have hn : strIsSpace T [] = false := by simp [strIsSpace]
  unfold combineWhitespace
  rw [List.append_assoc, toChars_append, cwGo_seg T a _ [] ha, toChars_append, cwGo_ws T w _ [] _ hw'.2]
  simp only [List.nil_append, toChars, List.map_cons, cwGo, hcs, hw, hn, Bool.false_eq_true, if_false, if_true]
  rw [cwGo_acc T _ [] (List.map (fun c => [c]) a ++ [w] ++ [[c]]), cwGo_acc T _ [] [[c]]]
  simp

/-! ### passes 4, 5 — symbols are not combined across a barrier -/

/-- every element is a single character or longer than any symbol of length `n + 1` -/
def Small1 (n : Nat) (X : List Str) : Prop := ∀ x ∈ X, x.length = 1 ∨ n + 1 < x.length

theorem Small1.tail {n : Nat} {a : Str} {X : List Str} (h : Small1 n (a :: X)) : Small1 n X :=
  fun x hx => h x (List.mem_cons_of_mem _ hx)

theorem Small1.drop {n : Nat} {X : List Str} (h : Small1 n X) (k : Nat) : Small1 n (X.drop k) :=
  fun x hx => h x (List.mem_of_mem_drop hx)

theorem Small1.take {n : Nat} {X : List Str} (h : Small1 n X) (k : Nat) : Small1 n (X.take k) :=
  fun x hx => h x (List.mem_of_mem_take hx)

theorem small_flatten_len (n : Nat) (X : List Str) (h : Small1 n X) :
    X.flatten.length = X.length ∨ n + 1 < X.flatten.length := by
  induction X with
  | nil => left; rfl
  | cons x X ih =>
    simp only [List.flatten_cons, List.length_append, List.length_cons]
    rcases h x (List.mem_cons_self ..) with h1 | h1
    · rcases ih h.tail with h2 | h2
      · left; omega
      · right; omega
    · right; omega

/-- fewer than `n + 1` such elements never concatenate to a symbol of length `n + 1` -/
theorem short_not_sym (n : Nat) (syms : List Str) (hlen : ∀ y ∈ syms, y.length = n + 1)
    (X : List Str) (h : Small1 n X) (hs : X.length ≤ n) : X.flatten ∉ syms := by
  intro hm
  have := hlen _ hm
  rcases small_flatten_len n X h with h2 | h2 <;> omega

theorem combN_nil (n : Nat) (syms : List Str) : combN n syms [] = [] := by
  simp [combN]

theorem combN_cons_pos (n : Nat) (syms : List Str) (a : Str) (rest : List Str)
    (h : ((a :: rest).take (n + 1)).flatten ∈ syms) :
    combN n syms (a :: rest) = ((a :: rest).take (n + 1)).flatten :: combN n syms ((a :: rest).drop (n + 1)) := by
  rw [combN]; simp only [h, if_true]

theorem combN_cons_neg (n : Nat) (syms : List Str) (a : Str) (rest : List Str)
    (h : ((a :: rest).take (n + 1)).flatten ∉ syms) :
    combN n syms (a :: rest) = a :: combN n syms rest := by
  rw [combN]; simp only [h, if_false]

/-- **barrier**: an element `e` such that no chunk reaching it is a symbol splits the pass -/
theorem combN_barrier (n : Nat) (syms : List Str) (hlen : ∀ y ∈ syms, y.length = n + 1)
    (e : Str) (Y : List Str)
    (hE : ∀ P k, Small1 n P → P.length ≤ n → (P ++ e :: Y.take k).flatten ∉ syms)
    (X : List Str) (hX : Small1 n X) :
    combN n syms (X ++ e :: Y) = combN n syms X ++ e :: combN n syms Y := by
  induction hl : X.length using Nat.strongRecOn generalizing X with
  | _ len ih =>
    cases X with
    | nil =>
      simp only [List.nil_append, combN_nil]
      apply combN_cons_neg
      have := hE [] n (fun x hx => by cases hx) (Nat.zero_le _)
      simpa using this
    | cons a rest =>
      by_cases hlong : n + 1 ≤ (a :: rest).length
      · -- the chunk lies inside X
        have htake : ((a :: rest) ++ e :: Y).take (n + 1) = (a :: rest).take (n + 1) :=
          List.take_append_of_le_length hlong
        have hdrop : ((a :: rest) ++ e :: Y).drop (n + 1) = (a :: rest).drop (n + 1) ++ e :: Y :=
          List.drop_append_of_le_length hlong
        by_cases hs : ((a :: rest).take (n + 1)).flatten ∈ syms
        · rw [combN_cons_pos n syms a rest hs]
          have : combN n syms ((a :: rest) ++ e :: Y) =
              (((a :: rest) ++ e :: Y).take (n + 1)).flatten :: combN n syms (((a :: rest) ++ e :: Y).drop (n + 1)) := by
            apply combN_cons_pos n syms a (rest ++ e :: Y)
            rw [← List.cons_append, htake]; exact hs
          rw [this, htake, hdrop]
          have hlt : ((a :: rest).drop (n + 1)).length < len := by
            rw [← hl]; simp only [List.length_drop, List.length_cons]; omega
          rw [ih _ hlt _ (hX.drop _) rfl]
          rfl
        · rw [combN_cons_neg n syms a rest hs]
          have : combN n syms ((a :: rest) ++ e :: Y) = a :: combN n syms (rest ++ e :: Y) := by
            apply combN_cons_neg n syms a (rest ++ e :: Y)
            rw [← List.cons_append, htake]; exact hs
          rw [this]
          have hlt : rest.length < len := by rw [← hl]; simp
          rw [ih _ hlt _ hX.tail rfl]
          rfl
      · -- fewer than n+1 elements left in X: no chunk is a symbol, with or without `e`
        have hshort : (a :: rest).length ≤ n := by omega
        have hs : ((a :: rest).take (n + 1)).flatten ∉ syms := by
          rw [List.take_of_length_le (by omega)]
          exact short_not_sym n syms hlen _ hX hshort
        rw [combN_cons_neg n syms a rest hs]
        have : combN n syms ((a :: rest) ++ e :: Y) = a :: combN n syms (rest ++ e :: Y) := by
          apply combN_cons_neg n syms a (rest ++ e :: Y)
          rw [← List.cons_append, List.take_append, List.take_of_length_le (by omega : (a :: rest).length ≤ n + 1)]
          have : (e :: Y).take (n + 1 - (a :: rest).length) = e :: Y.take (n - (a :: rest).length) := by
            have : n + 1 - (a :: rest).length = (n - (a :: rest).length) + 1 := by omega
            rw [this]; rfl
          rw [this]
          exact hE _ _ hX hshort
        rw [this]
        have hlt : rest.length < len := by rw [← hl]; simp
        rw [ih _ hlt _ hX.tail rfl]
        rfl

/-- outputs of the pass are elements of the input or symbols -/
theorem combN_mem (n : Nat) (syms : List Str) (l : List Str) :
    ∀ t ∈ combN n syms l, t ∈ l ∨ t ∈ syms := by
  fun_induction combN n syms l with
  | case1 => intro t ht; cases ht
  | case2 a rest chunk h ih =>
    intro t ht
    rcases List.mem_cons.1 ht with rfl | ht
    · right; exact h
    · rcases ih t ht with h1 | h1
      · left; exact List.mem_of_mem_drop h1
      · right; exact h1
  | case3 a rest chunk h ih =>
    intro t ht
    rcases List.mem_cons.1 ht with rfl | ht
    · left; exact List.mem_cons_self ..
    · rcases ih t ht with h1 | h1
      · left; exact List.mem_cons_of_mem _ h1
      · right; exact h1

/-! ### pass 6 — words end at a barrier; the trailing `""` is absorbed -/

theorem cwordsGo_acc (cs : List Str) (tmp : Str) (acc : List Str) :
    cwordsGo T cs tmp acc = acc ++ cwordsGo T cs tmp [] := by
  induction cs generalizing tmp acc with
  | nil =>
    simp only [cwordsGo]
    split <;> simp
  | cons c cs ih =>
    simp only [cwordsGo]
    split
    · exact ih _ _
    · rw [ih [] ((if (tmp != []) = true then acc ++ [tmp] else acc) ++ [c]),
        ih [] ((if (tmp != []) = true then [] ++ [tmp] else []) ++ [c])]
      split <;> simp

theorem cwordsGo_barrier (e : Str) (he : partOfWord T e = false) (X Y : List Str) (tmp : Str) (acc : List Str) :
    cwordsGo T (X ++ e :: Y) tmp acc = cwordsGo T Y [] (cwordsGo T X tmp acc ++ [e]) := by
  induction X generalizing tmp acc with
  | nil =>
    simp only [List.nil_append, cwordsGo, he, Bool.false_eq_true, if_false]
    by_cases ht : tmp = []
    · subst ht; simp
    · have h1 : (tmp != []) = true := by simpa using ht
      have h2 : (tmp.length != 0) = true := by
        cases tmp with
        | nil => exact absurd rfl ht
        | cons _ _ => simp
      simp [h1, h2]
  | cons c X ih =>
    simp only [List.cons_append, cwordsGo]
    split
    · exact ih _ _
    · exact ih _ _

theorem combineWords_barrier (e : Str) (he : partOfWord T e = false) (X Y : List Str) :
    combineWords T (X ++ e :: Y) = combineWords T X ++ e :: combineWords T Y := by
  unfold combineWords
  rw [cwordsGo_barrier T e he, cwordsGo_acc]
  simp

theorem cwordsGo_trailing_nil (hs : [] ∉ T.single) (X : List Str) (tmp : Str) (acc : List Str) :
    cwordsGo T (X ++ [[]]) tmp acc = cwordsGo T X tmp acc := by
  induction X generalizing tmp acc with
  | nil =>
    have hp : partOfWord T [] = true := by
      simp [partOfWord, strIsSpace, hs]
    simp [cwordsGo, hp]
  | cons c X ih =>
    simp only [List.cons_append, cwordsGo]
    split
    · exact ih _ _
    · exact ih _ _

theorem combineWords_trailing_nil (hs : [] ∉ T.single) (X : List Str) :
    combineWords T (X ++ [[]]) = combineWords T X :=
  cwordsGo_trailing_nil T hs X [] []

theorem partOfWord_ws (w : Str) (hw : strIsSpace T w = true) : partOfWord T w = false := by
  unfold partOfWord
  rw [if_pos hw]
  split <;> rfl

/-! ### pass 8 — a whitespace token is not split -/

theorem pnGo_noE (cs tmp : Str) (acc : List Str) (h : ∀ c ∈ cs, T.lowerIsE c = false) :
    pnGo T cs tmp acc = if (tmp ++ cs).length > 0 then acc ++ [tmp ++ cs] else acc := by
  induction cs generalizing tmp with
  | nil => simp [pnGo]
  | cons c cs ih =>
    have hc := h c (List.mem_cons_self ..)
    simp only [pnGo, hc, Bool.false_eq_true, if_false]
    rw [ih _ (fun c' hc' => h c' (List.mem_cons_of_mem _ hc'))]
    simp

theorem splitNaturalNumbers_ws (hE : ∀ c, T.isSpace c = true → T.lowerIsE c = false) (w : Str)
    (hw : strIsSpace T w = true) :
    (if isNaturalNumber T w then parseNaturalNumber T w else [w]) = [w] := by
  split
  · simp only [strIsSpace, Bool.and_eq_true, List.all_eq_true] at hw
    unfold parseNaturalNumber
    rw [pnGo_noE T w [] [] (fun c hc => hE c (hw.2 c hc))]
    have : w ≠ [] := by
      intro e; subst e; simp at hw
    clear hw
    cases w with
    | nil => exact absurd rfl this
    | cons _ _ => simp
  · rfl

theorem splitNaturalNumbers_barrier (hE : ∀ c, T.isSpace c = true → T.lowerIsE c = false) (w : Str)
    (hw : strIsSpace T w = true) (A B : List Str) :
    splitNaturalNumbers T (A ++ w :: B) = splitNaturalNumbers T A ++ w :: splitNaturalNumbers T B := by
  unfold splitNaturalNumbers
  rw [List.flatMap_append, List.flatMap_cons, splitNaturalNumbers_ws T hE w hw]
  simp

/-! ### the four passes together -/

theorem ws_has_space (w : Str) (hw : strIsSpace T w = true) : ∃ c ∈ w, T.isSpace c = true := by
  simp only [strIsSpace, Bool.and_eq_true, List.all_eq_true] at hw
  cases w with
  | nil => simp at hw
  | cons c w => exact ⟨c, List.mem_cons_self .., hw.2 c (List.mem_cons_self ..)⟩

/-- no list of elements containing a whitespace token concatenates to a symbol -/
theorem ws_not_in_sym (syms : List Str) (hns : ∀ y ∈ syms, ∀ c ∈ y, T.isSpace c = false)
    (w : Str) (hw : strIsSpace T w = true) (P Q : List Str) : (P ++ w :: Q).flatten ∉ syms := by
  intro hm
  obtain ⟨c, hc, hsp⟩ := ws_has_space T w hw
  have : c ∈ (P ++ w :: Q).flatten := char_mem_of_tok_mem (t := w) (by simp) hc
  rw [hns _ hm c this] at hsp
  cases hsp

theorem small1_toChars (n : Nat) (a : Str) : Small1 n (toChars a) := by
  intro x hx
  simp only [toChars, List.mem_map] at hx
  obtain ⟨c, _, rfl⟩ := hx
  left; rfl

theorem small1_combineThree (hT : TablesOk T) (a : Str) : Small1 1 (combineThree T (toChars a)) := by
  intro x hx
  rcases combN_mem 2 T.three _ x hx with h | h
  · exact small1_toChars 1 a x h
  · right; rw [hT.threeLen x h]; omega

/-- `mid` across a whitespace token, the left part being the characters of a segment -/
theorem mid_seg_ws (hT : TablesOk T) (a w : Str) (hw : strIsSpace T w = true) (Y : List Str) :
    mid T (toChars a ++ w :: Y) = mid T (toChars a) ++ w :: mid T Y := by
  unfold mid combineThree combineTwo
  rw [combN_barrier 2 T.three hT.threeLen w Y
      (fun P k _ _ => ws_not_in_sym T T.three hT.threeNoSpace w hw P _) _ (small1_toChars 2 a)]
  rw [combN_barrier 1 T.two hT.twoLen w _
      (fun P k _ _ => ws_not_in_sym T T.two hT.twoNoSpace w hw P _) (combN 2 T.three (toChars a))
      (small1_combineThree T hT a)]
  rw [combineWords_barrier T w (partOfWord_ws T w hw), splitNaturalNumbers_barrier T hT.spaceNotE w hw]

theorem combN_trailing_nil (n : Nat) (syms : List Str) (hlen : ∀ y ∈ syms, y.length = n + 1)
    (X : List Str) (hX : Small1 n X) : combN n syms (X ++ [[]]) = combN n syms X ++ [[]] := by
  have := combN_barrier n syms hlen [] [] (fun P k hP hk => by
    simp only [List.take_nil, List.flatten_append, List.flatten_cons, List.flatten_nil, List.append_nil]
    exact short_not_sym n syms hlen P hP hk) X hX
  rw [this, combN_nil]

/-- the trailing `""` of combine_whitespace disappears -/
theorem mid_trailing_nil (hT : TablesOk T) (a : Str) : mid T (toChars a ++ [[]]) = mid T (toChars a) := by
  unfold mid combineThree combineTwo
  rw [combN_trailing_nil 2 T.three hT.threeLen _ (small1_toChars 2 a),
    combN_trailing_nil 1 T.two hT.twoLen (combN 2 T.three (toChars a)) (small1_combineThree T hT a),
    combineWords_trailing_nil T hT.emptyNotSingle]

theorem mid_nil : mid T [] = [] := by
  simp [mid, combineThree, combineTwo, combN_nil, combineWords, cwordsGo, splitNaturalNumbers]

/-! ### tokens.create on  segment · whitespace · rest -/

theorem quoteFree_append {a b : Str} : quoteFree (a ++ b) = (quoteFree a && quoteFree b) := by
  simp [quoteFree, List.all_append]

theorem create_seg (hT : TablesOk T) (a : Str) (ha : spaceFree T a = true) (hq : quoteFree a = true) :
    create T a = mid T (toChars a) := by
  rw [create_qf T a hq, combineWhitespace_seg T a ha, mid_trailing_nil T hT]

theorem create_nil (hT : TablesOk T) : create T [] = [] := by
  rw [create_seg T hT [] (by rfl) (by rfl)]
  exact mid_nil T

/-- whitespace at the end of the line -/
theorem create_seg_ws (hT : TablesOk T) (a w : Str) (ha : spaceFree T a = true) (hqa : quoteFree a = true)
    (hw : strIsSpace T w = true) (hqw : quoteFree w = true) :
    create T (a ++ w) = create T a ++ [w] := by
  rw [create_qf T (a ++ w) (by rw [quoteFree_append, hqa, hqw]; rfl), combineWhitespace_seg_ws T a w ha hw,
    mid_seg_ws T hT a w hw [], mid_nil, create_seg T hT a ha hqa]

/-- **whitespace compositionality**: the tokens of `segment · whitespace · rest` are the tokens of
    the segment, the whitespace, and the tokens of the rest -/
theorem create_seg_ws_rest (hT : TablesOk T) (a w : Str) (c : Char) (b : Str)
    (ha : spaceFree T a = true) (hqa : quoteFree a = true)
    (hw : strIsSpace T w = true) (hqw : quoteFree w = true)
    (hc : T.isSpace c = false) (hqb : quoteFree (c :: b) = true) :
    create T (a ++ w ++ c :: b) = create T a ++ w :: create T (c :: b) := by
  rw [create_qf T (a ++ w ++ c :: b) (by rw [quoteFree_append, quoteFree_append, hqa, hqw, hqb]; rfl),
    combineWhitespace_seg_ws_rest T a w c b ha hw hc, mid_seg_ws T hT a w hw, create_seg T hT a ha hqa,
    create_qf T (c :: b) hqb]

/-! ### the guard `WellFormedLine` -/

theorem segOk_spec (seg : List Str) (h : segOk T seg = true) :
    seg.flatten ≠ [] ∧ spaceFree T seg.flatten = true ∧ quoteFree seg.flatten = true ∧
      create T seg.flatten = seg := by
  simp only [segOk, Bool.and_eq_true, Bool.not_eq_true', beq_iff_eq] at h
  obtain ⟨⟨⟨h1, h2⟩, h3⟩, h4⟩ := h
  refine ⟨?_, h2, h3, h4⟩
  intro e; rw [e] at h1; cases h1

theorem segOk_head (seg : List Str) (h : segOk T seg = true) :
    ∃ c r, seg.flatten = c :: r ∧ T.isSpace c = false := by
  obtain ⟨h1, h2, _, _⟩ := segOk_spec T seg h
  cases hs : seg.flatten with
  | nil => exact absurd hs h1
  | cons c r =>
    refine ⟨c, r, rfl, ?_⟩
    rw [hs] at h2
    simp only [spaceFree, List.all_cons, Bool.and_eq_true, Bool.not_eq_true'] at h2
    exact h2.1

theorem wfGo_qf (vs acc : List Str) (h : wfGo T vs acc = true) :
    quoteFree (acc.flatten ++ vs.flatten) = true := by
  induction vs generalizing acc with
  | nil =>
    simp only [wfGo] at h
    simpa using (segOk_spec T acc h).2.2.1
  | cons v vs ih =>
    simp only [wfGo] at h
    split at h
    · simp only [Bool.and_eq_true, Bool.or_eq_true] at h
      obtain ⟨⟨hqv, hseg⟩, hrest⟩ := h
      have hqa := (segOk_spec T acc hseg).2.2.1
      rw [List.flatten_cons, quoteFree_append, quoteFree_append, hqa, hqv]
      rcases hrest with he | hr
      · have : vs = [] := by simpa using he
        subst this; rfl
      · have := ih [] hr
        simp only [List.flatten_nil, List.nil_append] at this
        rw [this]; rfl
    · have := ih (acc ++ [v]) h
      simpa [List.flatten_append] using this

theorem wfGo_head (vs acc : List Str) (h : wfGo T vs acc = true) :
    ∃ c r, acc.flatten ++ vs.flatten = c :: r ∧ T.isSpace c = false := by
  induction vs generalizing acc with
  | nil =>
    simp only [wfGo] at h
    obtain ⟨c, r, e, hc⟩ := segOk_head T acc h
    exact ⟨c, r, by simp [e], hc⟩
  | cons v vs ih =>
    simp only [wfGo] at h
    split at h
    · simp only [Bool.and_eq_true] at h
      obtain ⟨c, r, e, hc⟩ := segOk_head T acc h.1.2
      exact ⟨c, r ++ (v :: vs).flatten, by rw [e]; rfl, hc⟩
    · obtain ⟨c, r, e, hc⟩ := ih (acc ++ [v]) h
      exact ⟨c, r, by simpa [List.flatten_append] using e, hc⟩

theorem wfGo_sound (hT : TablesOk T) (vs acc : List Str) (h : wfGo T vs acc = true) :
    create T (acc.flatten ++ vs.flatten) = acc ++ vs := by
  induction vs generalizing acc with
  | nil =>
    simp only [wfGo] at h
    simpa using (segOk_spec T acc h).2.2.2
  | cons v vs ih =>
    simp only [wfGo] at h
    split at h
    · rename_i hv
      simp only [Bool.and_eq_true, Bool.or_eq_true] at h
      obtain ⟨⟨hqv, hseg⟩, hrest⟩ := h
      obtain ⟨_, hsa, hqa, hca⟩ := segOk_spec T acc hseg
      cases vs with
      | nil =>
        have := create_seg_ws T hT acc.flatten v hsa hqa hv hqv
        simp only [List.flatten_cons, List.flatten_nil, List.append_nil]
        rw [this, hca]
      | cons v' vs' =>
        have hr : wfGo T (v' :: vs') [] = true := by
          rcases hrest with he | hr
          · simp at he
          · exact hr
        obtain ⟨c, r, e, hc⟩ := wfGo_head T _ _ hr
        have hq := wfGo_qf T _ _ hr
        have hih := ih [] hr
        simp only [List.flatten_nil, List.nil_append] at e hq hih
        rw [List.flatten_cons, e, ← List.append_assoc,
          create_seg_ws_rest T hT acc.flatten v c r hsa hqa hv hqv hc (e ▸ hq), hca, ← e, hih]
    · have := ih (acc ++ [v]) h
      simpa [List.flatten_append] using this

theorem wellFormedLine_sound (hT : TablesOk T) (vals : List Str) (h : WellFormedLine T vals = true) :
    create T vals.flatten = vals := by
  cases vals with
  | nil => exact create_nil T hT
  | cons v vs =>
    simp only [WellFormedLine] at h
    split at h
    · rename_i hv
      simp only [Bool.and_eq_true, Bool.or_eq_true] at h
      obtain ⟨hqv, hrest⟩ := h
      cases vs with
      | nil =>
        have := create_seg_ws T hT [] v (by rfl) (by rfl) hv hqv
        simp only [List.nil_append] at this
        simp only [List.flatten_cons, List.flatten_nil, List.append_nil]
        rw [this, create_nil T hT]; rfl
      | cons v' vs' =>
        have hr : wfGo T (v' :: vs') [] = true := by
          rcases hrest with he | hr
          · simp at he
          · exact hr
        obtain ⟨c, r, e, hc⟩ := wfGo_head T _ _ hr
        have hq := wfGo_qf T _ _ hr
        have hih := wfGo_sound T hT _ _ hr
        simp only [List.flatten_nil, List.nil_append] at e hq hih
        have := create_seg_ws_rest T hT [] v c r (by rfl) (by rfl) hv hqv hc (e ▸ hq)
        simp only [List.nil_append] at this
        rw [List.flatten_cons, e, this, create_nil T hT, ← e, hih]; rfl
    · have := wfGo_sound T hT _ _ h
      simpa using this

/-! ### resizing whitespace tokens -/

theorem sameUpToWhitespace_isEmpty {l l' : List Str} (h : SameUpToWhitespace T l l') :
    l.isEmpty = l'.isEmpty := by
  cases h <;> rfl

theorem wfGo_resize (vs vs' : List Str) (hR : SameUpToWhitespace T vs vs') :
    ∀ acc, wfGo T vs acc = true → wfGo T vs' acc = true := by
  induction hR with
  | nil => intro acc h; exact h
  | @same a l l' hl ih =>
    intro acc h
    have hemp := sameUpToWhitespace_isEmpty T hl
    simp only [wfGo] at h ⊢
    split at h
    · rename_i hs
      simp only [Bool.and_eq_true, Bool.or_eq_true] at h
      simp only [hs, if_true, Bool.and_eq_true, Bool.or_eq_true]
      refine ⟨h.1, ?_⟩
      rcases h.2 with he | hr
      · left; rw [← hemp]; exact he
      · right; exact ih [] hr
    · rename_i hs
      simp only [hs]
      exact ih _ h
  | @ws a b l l' ha hb hqb hl ih =>
    intro acc h
    have hemp := sameUpToWhitespace_isEmpty T hl
    simp only [wfGo, ha, hb, if_true, Bool.and_eq_true, Bool.or_eq_true] at h ⊢
    refine ⟨⟨hqb, h.1.2⟩, ?_⟩
    rcases h.2 with he | hr
    · left; rw [← hemp]; exact he
    · right; exact ih [] hr


end Vsgm.Lex.Rt
