/-
  Layer P and C05 (partial): the two leaf operations of the interpreter that touch a token AT AN INDEX — the read
  `lObjects[k]` and the store `lObjects[k] = t` (`toksSet`, the only store `Chk.value` admits, through the fused
  `retag`) — are layout blind in the sense of `Lemmas/Classify.lean`: for two states whose token lists have the same
  `view p` (tokens kept by `p`, e.g. everything that is not white space / comment), at CORRESPONDING positions
  (`rank p l k = rank p l' k'`, both pointing at a kept token) they read the same token, and storing the same kept
  token keeps the views equal and every rank unchanged.
-/
import VsgModel.Prog.Eval
import VsgProofs.Lemmas.ClassifyPost
namespace Vsgm.Prog
open Vsgm Vsgm.Classify

/-- positions `k` of `st` and `k'` of `st'` point at kept tokens and correspond -/
structure Corr (p : CTok → Bool) (st st' : State) (k k' : Nat) : Prop where
  view : view p st.toks.toList = view p st'.toks.toList
  rank : rank p st.toks.toList k = rank p st'.toks.toList k'
  kept : ∃ o, st.toks[k]? = some o ∧ p o = true
  kept' : ∃ o', st'.toks[k']? = some o' ∧ p o' = true

/-- corresponding positions hold the same token -/
theorem read_layout (p : CTok → Bool) (st st' : State) (k k' : Nat) (h : Corr p st st' k k') :
    st.toks[k]? = st'.toks[k']? := by
  obtain ⟨o, ho, hpo⟩ := h.kept
  obtain ⟨o', ho', hpo'⟩ := h.kept'
  have e1 := view_get_of_keep p st.toks.toList k o (by simpa using ho) hpo
  have e2 := view_get_of_keep p st'.toks.toList k' o' (by simpa using ho') hpo'
  rw [h.view, h.rank, e2] at e1
  rw [ho, ho']
  exact e1.symm

/-- storing the same kept token at corresponding positions keeps the views equal and all ranks unchanged -/
theorem store_layout (p : CTok → Bool) (st st' : State) (k k' : Nat) (t : CTok) (h : Corr p st st' k k')
    (hpt : p t = true) :
    view p (toksSet k t st).2.toks.toList = view p (toksSet k' t st').2.toks.toList
    ∧ (∀ j, rank p (toksSet k t st).2.toks.toList j = rank p st.toks.toList j)
    ∧ (∀ j, rank p (toksSet k' t st').2.toks.toList j = rank p st'.toks.toList j) := by
  obtain ⟨o, ho, hpo⟩ := h.kept
  obtain ⟨o', ho', hpo'⟩ := h.kept'
  have hl : (toksSet k t st).2.toks.toList = st.toks.toList.set k t := by
    show (st.toks.setIfInBounds k t).toList = _
    simp
  have hl' : (toksSet k' t st').2.toks.toList = st'.toks.toList.set k' t := by
    show (st'.toks.setIfInBounds k' t).toList = _
    simp
  have ho2 : st.toks.toList[k]? = some o := by simpa using ho
  have ho2' : st'.toks.toList[k']? = some o' := by simpa using ho'
  refine ⟨?_, fun j => ?_, fun j => ?_⟩
  · rw [hl, hl']
    show (st.toks.toList.set k t).filter p = (st'.toks.toList.set k' t).filter p
    rw [filter_set_kept p _ k o t ho2 hpo hpt, filter_set_kept p _ k' o' t ho2' hpo' hpt]
    have := h.view
    unfold view at this
    rw [this, h.rank]
  · rw [hl]
    exact rank_set_same p _ k t (fun old hold => by rw [ho2] at hold; cases hold; rw [hpo, hpt]) j
  · rw [hl']
    exact rank_set_same p _ k' t (fun old hold => by rw [ho2'] at hold; cases hold; rw [hpo', hpt]) j

end Vsgm.Prog
