/-
  Helper lemmas for the C18 theorems about the extractors of `VsgModel/Engine/Extract2.lean` (WP3):
  where paired positions come from, the state-threading loops, slices that grow token by token.
-/
import VsgModel.Engine.TokenMap
import VsgModel.Engine.Extract
import VsgModel.Engine.Extract2
import VsgProofs.Lemmas.TokenMap
namespace Vsgm.TM.X.Lemmas
open Vsgm Vsgm.TM Vsgm.TM.Lemmas Vsgm.TM.X

variable {α : Type}

/-! ### where the positions of `get_token_pair_indexes` come from -/

theorem closestPair_fst (s : Nat) (es : List Nat) (p : Option (Nat × Nat)) (mn : Nat) (q : Nat × Nat)
    (h : closestPair s es p mn = some q) : p = some q ∨ q.1 = s := by
  induction es generalizing p mn with
  | nil => left; simpa [closestPair] using h
  | cons e es ih =>
    unfold closestPair at h
    split at h
    · exact ih _ _ h
    · split at h
      · rcases ih _ _ h with h' | h'
        · right; injection h' with h'; rw [← h']
        · right; exact h'
      · exact ih _ _ h

theorem foldl_closestPair_fst (ss es : List Nat) (mn : Nat) (p : Option (Nat × Nat)) (q : Nat × Nat)
    (h : ss.foldl (fun p s => closestPair s es p mn) p = some q) : p = some q ∨ q.1 ∈ ss := by
  induction ss generalizing p with
  | nil => left; simpa using h
  | cons s ss ih =>
    simp only [List.foldl_cons] at h
    rcases ih _ h with h' | h'
    · rcases closestPair_fst s es p mn q h' with h'' | h''
      · left; exact h''
      · right; rw [← h'']; exact List.mem_cons_self ..
    · right; exact List.mem_cons_of_mem _ h'

theorem extractPairsGo_fst (n : Nat) (ss es : List Nat) : ∀ p ∈ extractPairsGo n ss es, p.1 ∈ ss := by
  induction n generalizing ss es with
  | zero => intro p hp; simp [extractPairsGo] at hp
  | succ n ih =>
    intro p hp
    unfold extractPairsGo at hp
    cases hl : es.getLast? with
    | none => simp [hl] at hp
    | some last =>
      cases ss with
      | nil => simp [hl] at hp
      | cons s0 ss0 =>
        simp only [hl] at hp
        cases hfold : (s0 :: ss0).foldl (fun p s => closestPair s es p (last + 1)) none with
        | none => simp [hfold] at hp
        | some se =>
          obtain ⟨s, e⟩ := se
          simp only [hfold] at hp
          rcases List.mem_cons.mp hp with rfl | hp
          · rcases foldl_closestPair_fst (s0 :: ss0) es (last + 1) none (s, e) hfold with h | h
            · cases h
            · exact h
          · exact List.mem_of_mem_erase (ih _ _ p hp)

theorem startEndIndexes_fst (ss es : List Nat) : ∀ s ∈ (startEndIndexes ss es).1, s ∈ ss := by
  intro s hs
  unfold startEndIndexes indexesFromPairs at hs
  simp only [List.mem_mergeSort] at hs
  obtain ⟨p, hp, rfl⟩ := List.mem_map.mp hs
  exact extractPairsGo_fst _ _ _ p hp

theorem pairIndexes_fst (ix : Index) (a b : Option Key) : ∀ s ∈ (ix.pairIndexes a b).1, s ∈ ix.get a :=
  startEndIndexes_fst _ _

theorem fresh_pair_lt (uid : α → Option Key) (f : List α) (a b : Option Key) (se : Nat × Nat)
    (h : se ∈ ((processTokens uid f).pairIndexes a b).1.zip ((processTokens uid f).pairIndexes a b).2) :
    se.1 < f.length := by
  obtain ⟨s, e⟩ := se
  exact fresh_get_lt uid f a s (pairIndexes_fst _ a b s (List.of_mem_zip h).1)

/-! ### the state-threading loops -/

theorem mem_scanE {σ β γ : Type} (g : σ → β → Except PyErr (σ × γ)) (l : List β) (s : σ) (r : List γ)
    (h : scanE g s l = .ok r) : ∀ c ∈ r, ∃ b ∈ l, ∃ s0 s1, g s0 b = .ok (s1, c) := by
  induction l generalizing s r with
  | nil => simp [scanE] at h; subst h; simp
  | cons b bs ih =>
    unfold scanE at h
    cases hg : g s b with
    | error e => simp [hg] at h
    | ok sc =>
      obtain ⟨s', c0⟩ := sc
      cases hr : scanE g s' bs with
      | error e => simp [hg, hr] at h
      | ok cs =>
        simp [hg, hr] at h; subst h
        intro c hc
        rcases List.mem_cons.mp hc with rfl | hc
        · exact ⟨b, List.mem_cons_self .., s, s', hg⟩
        · obtain ⟨b', hb', x⟩ := ih s' cs hr c hc
          exact ⟨b', List.mem_cons_of_mem _ hb', x⟩

/-- an invariant of the loop state that every iteration keeps holds at the end -/
theorem foldlE_inv {σ β : Type} (g : σ → β → Except PyErr σ) (I : σ → Prop) (l : List β) (s r : σ)
    (hstep : ∀ s b s', b ∈ l → I s → g s b = .ok s' → I s') (h0 : I s) (h : foldlE g s l = .ok r) : I r := by
  induction l generalizing s with
  | nil => simp [foldlE] at h; subst h; exact h0
  | cons b bs ih =>
    unfold foldlE at h
    cases hg : g s b with
    | error e => simp [hg] at h
    | ok s' =>
      simp only [hg] at h
      exact ih s' (fun s b s' hb => hstep s b s' (List.mem_cons_of_mem _ hb)) (hstep s b s' (List.mem_cons_self ..) h0 hg) h

/-! ### positions read from a list -/

theorem pyIdx_mem {β : Type} (l : List β) (i : Int) (x : β) (h : pyIdx l i = .ok x) : x ∈ l := by
  unfold pyIdx at h
  generalize (if i < 0 then i + (l.length : Int) else i) = j at h
  simp only at h
  split at h
  · simp at h
  · split at h
    · rename_i hx
      injection h with h; subst h
      exact List.mem_of_getElem? hx
    · simp at h

theorem fresh_cr_lt (uid : α → Option Key) (f : List α) (i : Int) (x : Nat)
    (h : pyIdx ((processTokens uid f).get (some crKey)) i = .ok x) : x < f.length :=
  fresh_get_lt uid f (some crKey) x (pyIdx_mem _ _ _ h)

theorem mem_filterBetween (ix : Index) (cs : List Cls) (a b : Option Key) :
    ∀ i ∈ filterBetween ix cs a b, ∃ c ∈ cs, i ∈ ix.get c.uid := by
  intro i hi
  unfold filterBetween at hi
  obtain ⟨c, hc, hi⟩ := List.mem_flatMap.mp hi
  obtain ⟨se, _, hi⟩ := List.mem_flatMap.mp hi
  unfold Index.getBetween at hi
  exact ⟨c, hc, (List.mem_filter.mp hi).1⟩

theorem fresh_filterBetween_lt (uid : α → Option Key) (f : List α) (cs : List Cls) (a b : Option Key) :
    ∀ i ∈ filterBetween (processTokens uid f) cs a b, i < f.length := by
  intro i hi
  obtain ⟨c, _, h⟩ := mem_filterBetween _ cs a b i hi
  exact fresh_get_lt uid f c.uid i h

theorem mem_filterUnless (ix : Index) (idxs : List Nat) (un : List (Option Key × Option Key)) :
    ∀ i ∈ filterUnless ix idxs un, i ∈ idxs := by
  intro i hi
  unfold filterUnless at hi
  exact (List.mem_filter.mp hi).1

theorem mem_dedupGo {β : Type} [BEq β] [LawfulBEq β] (l acc : List β) : ∀ x ∈ dedupGo acc l, x ∈ acc ∨ x ∈ l := by
  induction l generalizing acc with
  | nil => intro x hx; left; simpa [dedupGo] using hx
  | cons y l ih =>
    intro x hx
    unfold dedupGo at hx
    split at hx
    · rcases ih acc x hx with h | h
      · left; exact h
      · right; exact List.mem_cons_of_mem _ h
    · rcases ih _ x hx with h | h
      · rcases List.mem_append.mp h with h | h
        · left; exact h
        · right; simp at h; subst h; exact List.mem_cons_self ..
      · right; exact List.mem_cons_of_mem _ h

/-! ### slices -/

/-- `l` is the slice of `f` that starts at position `p` -/
def SliceAt (f : List α) (p : Nat) (l : List α) : Prop := p + l.length ≤ f.length ∧ l = (f.drop p).take l.length

theorem sliceAt_nil (f : List α) (p : Nat) (h : p ≤ f.length) : SliceAt f p [] := by
  constructor <;> simp [h]

theorem sliceAt_snoc (f : List α) (p : Nat) (l : List α) (t : α) (h : SliceAt f p l) (ht : f[p + l.length]? = some t) :
    SliceAt f p (l ++ [t]) := by
  obtain ⟨hle, he⟩ := h
  have hlt : p + l.length < f.length := by
    rcases Nat.lt_or_ge (p + l.length) f.length with h' | h'
    · exact h'
    · rw [List.getElem?_eq_none h'] at ht; cases ht
  constructor
  · simp; omega
  · simp only [List.length_append, List.length_singleton]
    rw [List.take_add_one]
    rw [← he]
    congr 1
    rw [List.getElem?_drop, ht]; rfl

theorem sliceAt_dropLast (f : List α) (p : Nat) (l : List α) (h : SliceAt f p l) : SliceAt f p l.dropLast := by
  obtain ⟨hle, he⟩ := h
  constructor
  · simp; omega
  · have e1 := congrArg (List.take (l.length - 1)) he
    rw [List.take_take] at e1
    have : min (l.length - 1) l.length = l.length - 1 := by omega
    rw [this] at e1
    rw [List.dropLast_eq_take, e1]
    simp only [List.length_take, List.length_drop]
    congr 1; omega

theorem exact_of_sliceAt (f : List α) (t : Toi α) (p : Nat) (hs : t.start = some (p : Int)) (h : SliceAt f p t.toks) :
    t.Exact f := ⟨p, hs, h.1, h.2⟩

end Vsgm.TM.X.Lemmas
