/- iteration sequences `x, f x, f (f x), …` : fixpoints, cycles, and what a bounded detector sees -/
namespace Vsgm.Iter

variable {α : Type}

/-- `iter f n x = fⁿ x` -/
def iter (f : α → α) : Nat → α → α
  | 0, x => x
  | n + 1, x => f (iter f n x)

theorem iter_add (f : α → α) (n m : Nat) (x : α) : iter f (n + m) x = iter f m (iter f n x) := by
  induction m with
  | zero => rfl
  | succ m ih => show f (iter f (n + m) x) = f (iter f m (iter f n x)); rw [ih]

theorem iter_succ' (f : α → α) (n : Nat) (x : α) : iter f (n + 1) x = iter f n (f x) := by
  rw [Nat.add_comm, iter_add]; rfl

/-- two consecutive elements equal ⇒ constant afterwards -/
theorem const_after (f : α → α) (x : α) (n : Nat) (h : iter f (n + 1) x = iter f n x) :
    ∀ m, n ≤ m → iter f m x = iter f n x := by
  intro m hm
  obtain ⟨k, rfl⟩ := Nat.exists_eq_add_of_le hm
  induction k with
  | zero => rfl
  | succ k ih =>
    show f (iter f (n + k) x) = iter f n x
    rw [ih (Nat.le_add_right n k)]
    exact h

/-- equal elements stay equal: `fⁿ x = fᵐ x → fⁿ⁺ᵏ x = fᵐ⁺ᵏ x` -/
theorem shift_eq (f : α → α) (x : α) (n m k : Nat) (h : iter f n x = iter f m x) :
    iter f (n + k) x = iter f (m + k) x := by
  rw [iter_add, iter_add, h]

/-- a repetition `fⁿ x = fⁿ⁺ᵖ x` makes the sequence periodic from `n` on, for every multiple -/
theorem periodic (f : α → α) (x : α) (n p : Nat) (h : iter f n x = iter f (n + p) x) :
    ∀ q r, iter f (n + q * p + r) x = iter f (n + r) x := by
  intro q
  induction q with
  | zero => intro r; simp
  | succ q ih =>
    intro r
    have e : n + (q + 1) * p + r = (n + p) + (q * p + r) := by rw [Nat.succ_mul]; omega
    rw [e]
    have := shift_eq f x (n + p) n (q * p + r) h.symm
    rw [this]
    have e2 : n + (q * p + r) = n + q * p + r := by omega
    rw [e2]
    exact ih r

/-- a repetition with no two consecutive equal elements in between is a genuine cycle: the
    sequence never becomes constant -/
theorem cycle_never_constant (f : α → α) (x : α) (n m : Nat) (hnm : n < m)
    (h : iter f n x = iter f m x)
    (hne : ∀ i, n ≤ i → i < m → iter f (i + 1) x ≠ iter f i x) :
    ∀ j, n ≤ j → iter f (j + 1) x ≠ iter f j x := by
  intro j hj
  obtain ⟨p, rfl⟩ : ∃ p, m = n + p := ⟨m - n, by omega⟩
  have hp : 0 < p := by omega
  have hper := periodic f x n p h
  have hj' : j = n + ((j - n) / p) * p + (j - n) % p := by
    have := Nat.div_add_mod (j - n) p
    rw [Nat.mul_comm] at this
    omega
  have hr : (j - n) % p < p := Nat.mod_lt _ hp
  have e1 : iter f j x = iter f (n + (j - n) % p) x := by
    conv => lhs; rw [hj']
    exact hper _ _
  have e2 : iter f (j + 1) x = iter f (n + (j - n) % p + 1) x := by
    have : j + 1 = n + ((j - n) / p) * p + ((j - n) % p + 1) := by omega
    conv => lhs; rw [this]
    exact hper _ _
  rw [e1, e2]
  exact hne _ (by omega) (by omega)

/-! ### the bounded detector of the harness (`classify_sequence`) -/

/-- index `k` (counted from `i`) of the first pair of equal neighbours -/
def firstConsecEq [DecidableEq α] : List α → Nat → Option Nat
  | a :: b :: rest, i => if a = b then some i else firstConsecEq (b :: rest) (i + 1)
  | _, _ => none

theorem firstConsecEq_spec [DecidableEq α] (xs : List α) (i k : Nat) (h : firstConsecEq xs i = some k) :
    ∃ j, k = i + j ∧ ∃ a, xs[j]? = some a ∧ xs[j + 1]? = some a := by
  induction xs generalizing i with
  | nil => simp [firstConsecEq] at h
  | cons a t ih =>
    cases t with
    | nil => simp [firstConsecEq] at h
    | cons b rest =>
      simp only [firstConsecEq] at h
      split at h
      · rename_i hab
        cases h
        exact ⟨0, rfl, a, by simp, by simp [hab]⟩
      · obtain ⟨j, hk, c, h1, h2⟩ := ih (i + 1) h
        exact ⟨j + 1, by omega, c, by simpa using h1, by simpa using h2⟩

/-- first `(n, m)`, `n < m`, with `xs[n] = xs[m]` (scanning `m` upwards) -/
def findRepeat [DecidableEq α] (xs : List α) : Option (Nat × Nat) :=
  (List.range xs.length).findSome? fun m =>
    ((List.range m).find? fun n => xs[n]? == xs[m]?).map fun n => (n, m)

theorem findRepeat_spec [DecidableEq α] (xs : List α) (n m : Nat) (h : findRepeat xs = some (n, m)) :
    n < m ∧ m < xs.length ∧ xs[n]? = xs[m]? := by
  unfold findRepeat at h
  obtain ⟨m', hm', h'⟩ := List.exists_of_findSome?_eq_some h
  simp only [Option.map_eq_some_iff] at h'
  obtain ⟨n', hf, he⟩ := h'
  cases he
  have hp := List.find?_some hf
  have hn := List.mem_of_find?_eq_some hf
  simp only [List.mem_range] at hn hm'
  exact ⟨hn, hm', by simpa using hp⟩

inductive Verdict where
  | converged (k : Nat)      -- xs[k+1] = xs[k]
  | cycle (n m : Nat)        -- xs[n] = xs[m], n < m, no equal neighbours anywhere
  | unstable
  deriving Repr, DecidableEq

def classify [DecidableEq α] (xs : List α) : Verdict :=
  match firstConsecEq xs 0 with
  | some k => .converged k
  | none =>
    match findRepeat xs with
    | some (n, m) => .cycle n m
    | none => .unstable

/-- the observed prefix of the iteration sequence: `x, f x, …, f^N x` -/
def observed (f : α → α) (x : α) (N : Nat) : List α := (List.range (N + 1)).map (fun i => iter f i x)

theorem observed_get (f : α → α) (x : α) (N i : Nat) (a : α) (h : (observed f x N)[i]? = some a) :
    i ≤ N ∧ a = iter f i x := by
  unfold observed at h
  rw [List.getElem?_map] at h
  cases hr : (List.range (N + 1))[i]? with
  | none => simp [hr] at h
  | some j =>
    have hlt : i < (List.range (N + 1)).length := by
      rcases Nat.lt_or_ge i (List.range (N + 1)).length with hlt | hge
      · exact hlt
      · rw [List.getElem?_eq_none hge] at hr; cases hr
    have hj : j = i := by
      rw [List.getElem?_eq_getElem hlt, List.getElem_range] at hr
      exact (Option.some.inj hr).symm
    rw [hr] at h
    simp only [Option.map_some, Option.some.injEq] at h
    rw [List.length_range] at hlt
    exact ⟨by omega, by rw [← h, hj]⟩

theorem firstConsecEq_none_ne [DecidableEq α] (xs : List α) (i : Nat) (h : firstConsecEq xs i = none) :
    ∀ j a b, xs[j]? = some a → xs[j + 1]? = some b → a ≠ b := by
  induction xs generalizing i with
  | nil => intro j a b h1; simp at h1
  | cons a t ih =>
    cases t with
    | nil => intro j a' b h1 h2; simp at h2
    | cons b rest =>
      simp only [firstConsecEq] at h
      split at h
      · cases h
      · rename_i hab
        intro j a' b' h1 h2
        cases j with
        | zero =>
          simp at h1 h2
          rw [← h1, ← h2]; exact hab
        | succ j =>
          exact ih (i + 1) h j a' b' (by simpa using h1) (by simpa using h2)

end Vsgm.Iter
