/-
  Layer B, multi-line structure family: owner-level effect theorems (what `Base.fixByOwner` does for
  each of the 20 owners of `VsgModel/Base/Multi.lean`, for every action and every token list).
-/
import VsgProofs.Lemmas.BaseMulti
namespace Vsgm.Base.Multi
open Vsgm Vsgm.Base Vsgm.Base.LineStruct

/-- results of the models are compared by `decide` in the witness theorems -/
instance multiDecEqExcept {ε α : Type} [DecidableEq ε] [DecidableEq α] : DecidableEq (Except ε α) := fun a b =>
  match a, b with
  | .ok x, .ok y => if h : x = y then isTrue (by rw [h]) else isFalse (fun e => h (Except.ok.inj e))
  | .error x, .error y => if h : x = y then isTrue (by rw [h]) else isFalse (fun e => h (Except.error.inj e))
  | .ok _, .error _ => isFalse (fun e => by cases e)
  | .error _, .ok _ => isFalse (fun e => by cases e)

/-- the dispatcher runs `fixM` of the pinned tree's class tables -/
theorem run_fixM (o : MOwner) (p a : KV) (old new : List Tok) (ho : o ∈ MOwner.all)
    (h : Base.fixByOwner o.name p a old = some (.ok new)) : fixM Base.multiEnv o p a old = .ok new := by
  rw [fixByOwner_fixM o.name o p a old (mownerOf_name o ho)] at h
  exact Option.some.inj h

theorem mowner_all (o : MOwner) : o ∈ MOwner.all := by cases o <;> decide

/-! ### process_021 / process_026 / process_027: which branch runs -/

theorem fixProcess021_cases (c : Cls) (params : KV) (l new : List Tok) (h : fixProcess021 c params l = .ok new) :
    ∃ st, pget params "style" = .ok st ∧
      ((valIs st "no_blank_line" = true ∧ dropBlankAndNext l = .ok new) ∨
       (valIs st "no_blank_line" = false ∧ valIs st "require_blank_line" = true ∧ insertBlankBeforeLast c l = .ok new) ∨
       (valIs st "no_blank_line" = false ∧ valIs st "require_blank_line" = false ∧ new = l)) := by
  unfold fixProcess021 at h
  cases h1 : pget params "style" with
  | error e => simp [h1, bind, Except.bind] at h
  | ok st =>
    simp only [h1, bind, Except.bind] at h
    refine ⟨st, rfl, ?_⟩
    by_cases a1 : valIs st "no_blank_line" = true
    · left; simp only [a1, if_true] at h; exact ⟨a1, h⟩
    · have a1' : valIs st "no_blank_line" = false := by simpa using a1
      by_cases a2 : valIs st "require_blank_line" = true
      · right; left; simp only [a1', a2, Bool.false_eq_true, if_false, if_true] at h; exact ⟨a1', a2, h⟩
      · have a2' : valIs st "require_blank_line" = false := by simpa using a2
        right; right; simp only [a1', a2', Bool.false_eq_true, if_false] at h
        exact ⟨a1', a2', (Except.ok.inj h).symm⟩

theorem fixProcess026_cases (c : Cls) (action : KV) (l new : List Tok) (h : fixProcess026 c action l = .ok new) :
    ∃ a, dget action "action" = .ok a ∧
      ((valIs a "Insert" = true ∧ insertBlankAt c action l = .ok new) ∨
       (valIs a "Insert" = false ∧ cutOut action l = .ok new)) := by
  unfold fixProcess026 at h
  cases h1 : dget action "action" with
  | error e => simp [h1, bind, Except.bind] at h
  | ok a =>
    simp only [h1, bind, Except.bind] at h
    refine ⟨a, rfl, ?_⟩
    by_cases a1 : valIs a "Insert" = true
    · left; simp only [a1, if_true] at h; exact ⟨a1, h⟩
    · have a1' : valIs a "Insert" = false := by simpa using a1
      right; simp only [a1', Bool.false_eq_true, if_false] at h; exact ⟨a1', h⟩

theorem fixProcess027_cases (c : Cls) (action : KV) (l new : List Tok) (h : fixProcess027 c action l = .ok new) :
    ∃ a, dget action "action" = .ok a ∧
      ((valIs a "Insert" = true ∧ insertBlankAt c action l = .ok new) ∨
       (valIs a "Insert" = false ∧ valIs a "Remove" = true ∧ cutOut action l = .ok new) ∨
       (valIs a "Insert" = false ∧ valIs a "Remove" = false ∧ new = l)) := by
  unfold fixProcess027 at h
  cases h1 : dget action "action" with
  | error e => simp [h1, bind, Except.bind] at h
  | ok a =>
    simp only [h1, bind, Except.bind] at h
    refine ⟨a, rfl, ?_⟩
    by_cases a1 : valIs a "Insert" = true
    · left; simp only [a1, if_true] at h; exact ⟨a1, h⟩
    · have a1' : valIs a "Insert" = false := by simpa using a1
      by_cases a2 : valIs a "Remove" = true
      · right; left; simp only [a1', a2, Bool.false_eq_true, if_false, if_true] at h; exact ⟨a1', a2, h⟩
      · have a2' : valIs a "Remove" = false := by simpa using a2
        right; right; simp only [a1', a2', Bool.false_eq_true, if_false] at h
        exact ⟨a1', a2', (Except.ok.inj h).symm⟩

/-! ### rewriting a token value never moves a comment away from its line end -/

/-- `commentEndsLine` looks at token kinds only -/
theorem cel_congr_kinds (a b : List Tok) (h : a.map (·.kind) = b.map (·.kind)) :
    commentEndsLine a = commentEndsLine b := by
  induction a generalizing b with
  | nil =>
    cases b with
    | nil => rfl
    | cons y b' => simp at h
  | cons x a ih =>
    cases b with
    | nil => simp at h
    | cons y b' =>
      simp only [List.map_cons, List.cons.injEq] at h
      cases a with
      | nil =>
        cases b' with
        | nil => rfl
        | cons z b'' => simp at h
      | cons x' a' =>
        cases b' with
        | nil => simp at h
        | cons y' b'' =>
          have h2 := h.2
          simp only [List.map_cons, List.cons.injEq] at h2
          rw [cel_cons_cons, cel_cons_cons, ih (y' :: b'') h.2]
          unfold isLC isCr
          rw [h.1, h2.1]

/-- `lTokens[i].set_value(v)`: safe in every context -/
theorem pySet_val_celSafe (l r : List Tok) (i : Int) (t : Tok) (v : Str) (hg : pyGet l i = .ok t)
    (hs : pySet l i { t with val := v } = .ok r) : CelSafe l r := by
  obtain ⟨k, hk, hx⟩ := pyGet_some l i t hg
  obtain ⟨k', hk', hr⟩ := pySet_eq _ _ _ _ hs
  rw [hk] at hk'; cases hk'
  subst hr
  intro pre post hc
  rw [← hc]
  apply cel_congr_kinds
  simp only [List.map_append, List.append_cancel_left_eq, List.append_cancel_right_eq]
  rw [List.map_set]
  apply List.ext_getElem?
  intro n
  rw [List.getElem?_set]
  split
  · rename_i hkn
    split
    · rename_i hlt
      subst hkn
      rw [List.getElem?_map, hx]; rfl
    · rename_i hlt
      subst hkn
      rw [List.getElem?_eq_none (by simpa using hlt)]
  · rfl

/-- the `adjust` branches of the five aligners (concurrent_008, after_002, signal_012, library_009,
    process_028) — whenever they rewrite a token value the result is safe in every context -/
theorem fixAlignComment_set_celSafe (c : Cls) (b : Bool) (action : KV) (l new : List Tok)
    (h : fixAlignComment c b action l = .ok new)
    (hw : ∃ ti prev, dgetInt action "token_index" = .ok ti ∧ pyGet l (ti - 1) = .ok prev ∧ isWs prev = true) :
    CelSafe l new := by
  obtain ⟨ti, prev, h1, h2, hws⟩ := hw
  unfold fixAlignComment at h
  simp only [h1, h2, hws, bind, Except.bind, if_true] at h
  cases h3 : dgetInt action "adjust" with
  | error e => simp [h3] at h
  | ok adj =>
    simp only [h3] at h
    exact pySet_val_celSafe l new (ti - 1) prev _ h2 h

theorem fixSignal012_set_celSafe (c : Cls) (action : KV) (l new : List Tok) (h : fixSignal012 c action l = .ok new)
    (hlen : l.length ≠ 2) : CelSafe l new := by
  unfold fixSignal012 at h
  have h2 : (l.length == 2) = false := by simpa using hlen
  simp only [h2, Bool.false_eq_true, if_false] at h
  cases ht : pyGet l 1 with
  | error e => simp [ht, bind, Except.bind] at h
  | ok t =>
    simp only [ht, bind, Except.bind] at h
    cases h3 : dgetInt action "adjust" with
    | error e => simp [h3] at h
    | ok adj =>
      simp only [h3] at h
      exact pySet_val_celSafe l new 1 t _ ht h

theorem fixSetWs_set_celSafe (c : Cls) (k : Int) (action : KV) (l new : List Tok) (h : fixSetWs c k action l = .ok new)
    (ha : ∃ a, dget action "action" = .ok a ∧ valIs a "insert" = false) : CelSafe l new := by
  obtain ⟨a, h1, hi⟩ := ha
  unfold fixSetWs at h
  simp only [h1, hi, bind, Except.bind, Bool.false_eq_true, if_false] at h
  cases ht : pyGet l k with
  | error e => simp [ht] at h
  | ok t =>
    simp only [ht] at h
    cases h3 : dgetStr action "whitespace" with
    | error e => simp [h3] at h
    | ok w =>
      simp only [h3] at h
      exact pySet_val_celSafe l new k t _ ht h

end Vsgm.Base.Multi
