/-
  `get_blank_lines_above_line_starting_with_use_clause` (WP3b).
-/
import VsgModel.Engine.Extract8
import VsgProofs.Lemmas.Extract4Thms
namespace Vsgm.TM.X.Lemmas
open Vsgm Vsgm.TM Vsgm.TM.Lemmas Vsgm.TM.X

variable {α : Type}

theorem blankAboveUseClause_exact (uid : α → Option Key) (f : List α) (cs : List Cls) (semis : List (Option Key))
    (lib : Option Key) (r : List (Toi α × Option Nat × Nat))
    (h : blankAboveUseClause f (processTokens uid f) cs semis lib = .ok r) :
    ∀ x ∈ r, x.1.Exact f ∧ (∃ i ∈ idxsOfList (processTokens uid f) cs, x.1.line = lineNo uid f i) ∧
      (∀ p, x.2.1 = some p → p < f.length) ∧ x.2.2 < f.length := by
  intro x hx
  unfold blankAboveUseClause at h
  simp only [bind_ok] at h
  obtain ⟨tois, htois, h⟩ := h
  obtain ⟨t, ht, hb⟩ := mem_mapE _ _ _ h x hx
  simp only [bind_ok, pure_ok] at hb
  obtain ⟨p, hp, c, hc, rfl⟩ := hb
  have ht' := (List.mem_filter.mp ht).1
  obtain ⟨hex, i, hi, hl⟩ := blankLinesAboveIdx_exact uid f _ tois htois t ht'
  refine ⟨hex, ⟨i, (List.mem_filter.mp hi).1, hl⟩, ?_, ?_⟩
  · intro q hq
    simp only at hq
    unfold ucPrevious at hp
    split at hp
    · cases hp
    · simp only [bind_ok] at hp
      obtain ⟨ln, _, st, _, hp⟩ := hp
      split at hp
      · simp only [pure_ok] at hp; subst hp; cases hq
      · rename_i p0 _
        simp only [bind_ok, pure_ok] at hp
        obtain ⟨y, hy, hp⟩ := hp
        subst hp
        injection hq with hq; subst hq
        exact pyIdx_ok_lt f (p0 : Int) y (by omega) hy
  · simp only
    unfold ucCurrent at hc
    simp only [bind_ok] at hc
    obtain ⟨st, _, e, _, hc⟩ := hc
    split at hc
    · cases hc
    · rename_i p0 _
      simp only [bind_ok, pure_ok] at hc
      obtain ⟨y, hy, hc⟩ := hc
      subst hc
      exact pyIdx_ok_lt f (p0 : Int) y (by omega) hy

end Vsgm.TM.X.Lemmas
