/-
  Relayout: resizing a whitespace token of the output of `tokens.create` does not change any
  other token (`create_relayout_partial`, `create_relayout_forward`).
  * forward: every pass acts independently to the left and to the right of a whitespace token
    `t` (`pass (A ++ [t] ++ B) = A' ++ [t] ++ B'` with `A'`, `B'` not depending on `t`), under
    the guards that make `t` survive as a token (`create_relayout_core`);
  * backward: a whitespace token of the output was a token at the same place after pass 7
    (`TokAt`, using the shape `Sh` of tokens that contain whitespace), the combining passes only
    remove token boundaries (`Pref`), and no boundary of the output lies inside a string literal
    (`QB`, `create_quote_boundary`); so the cases in which the token would be swallowed are
    excluded by its being a token.
-/
import VsgModel.Lex.Create
import VsgModel.Lex.Tables
import VsgProofs.Lemmas.Lex
namespace Vsgm.Lex
open Vsgm

variable (T : LexTables)

/-! ### the statement is false without a guard -/

/-- extended identifiers: a blank stops a `\…` symbol, a tab does not -/
theorem create_relayout_false_backslash :
    create pyTables ("\\a\\".toList ++ " ".toList ++ "<= b".toList)
        = ["\\a\\".toList] ++ [" ".toList] ++ ["<=".toList, " ".toList, "b".toList] ∧
    create pyTables ("\\a\\".toList ++ "\t".toList ++ "<= b".toList)
        ≠ ["\\a\\".toList] ++ ["\t".toList] ++ ["<=".toList, " ".toList, "b".toList] ∧
    create pyTables ("\\a\\".toList ++ "\t".toList ++ "<= b".toList)
        = ["\\a\\\t<=".toList, " ".toList, "b".toList] := by decide +kernel

/-- character literals: two blanks between ticks are a token, one blank is a character literal -/
theorem create_relayout_false_tick :
    create pyTables ("'".toList ++ "  ".toList ++ "'".toList)
        = ["'".toList] ++ ["  ".toList] ++ ["'".toList] ∧
    create pyTables ("'".toList ++ " ".toList ++ "'".toList)
        ≠ ["'".toList] ++ [" ".toList] ++ ["'".toList] ∧
    create pyTables ("'".toList ++ " ".toList ++ "'".toList) = ["' '".toList] := by decide +kernel

/-- a guard on the *tokens* next to the whitespace (`pre.getLast? = some sq ∧ post.head? = some sq`)
    is not enough: in `'a' 'b' 'c'` the blank behind `'a'` is a token whose neighbours are not bare
    ticks, yet with two blanks the tokens `'`, `b`, `'` to its right fuse into `'b'`
    (filter_character_literal_candidates drops a candidate that is chained on both sides, and the
    one-character blank between two ticks is itself a candidate).  So the tick guard has to look at
    the tick *characters* on both sides. -/
theorem create_relayout_false_tick_chain :
    create pyTables ("'a'".toList ++ " ".toList ++ "'b' 'c'".toList)
        = ["'a'".toList] ++ [" ".toList] ++
          ["'".toList, "b".toList, "'".toList, " ".toList, "'c'".toList] ∧
    ¬ ((["'a'".toList] : List Str).getLast? = some sq ∧
        (["'".toList, "b".toList, "'".toList, " ".toList, "'c'".toList] : List Str).head? = some sq) ∧
    create pyTables ("'a'".toList ++ "  ".toList ++ "'b' 'c'".toList)
        ≠ ["'a'".toList] ++ ["  ".toList] ++
          ["'".toList, "b".toList, "'".toList, " ".toList, "'c'".toList] ∧
    create pyTables ("'a'".toList ++ "  ".toList ++ "'b' 'c'".toList)
        = ["'a'".toList, "  ".toList, "'b'".toList, " ".toList, "'c'".toList] := by decide +kernel

/-! ### generalities -/

theorem strIsSpace_all {t : Str} (h : strIsSpace T t = true) : t.all T.isSpace = true := by
  simp only [strIsSpace, Bool.and_eq_true] at h; exact h.2

theorem strIsSpace_ne_char {t : Str} (h : strIsSpace T t = true) (c : Char)
    (hc : T.isSpace c = false) : t ≠ [c] := by
  intro e; subst e
  simp [strIsSpace, hc] at h

theorem strIsSpace_exists {t : Str} (h : strIsSpace T t = true) : ∃ c ∈ t, T.isSpace c = true := by
  cases t with
  | nil => simp [strIsSpace] at h
  | cons c cs =>
    have := strIsSpace_all T h
    simp only [List.all_cons, Bool.and_eq_true] at this
    exact ⟨c, List.mem_cons_self .., this.1⟩

/-! ### pass 1 — combine_whitespace -/

theorem cwGo_acc (cs : List Str) (sp : Str) (p acc : List Str) :
    cwGo T cs sp (p ++ acc) = p ++ cwGo T cs sp acc := by
  induction cs generalizing sp acc with
  | nil => simp [cwGo]
  | cons c cs ih =>
    simp only [cwGo]
    split
    · exact ih _ _
    · split
      · rw [← ih]; simp
      · rw [← ih]; simp

theorem cwGo_spaces (u : Str) (hu : u.all T.isSpace = true) (rest : List Str) (sp : Str)
    (acc : List Str) : cwGo T (toChars u ++ rest) sp acc = cwGo T rest (sp ++ u) acc := by
  induction u generalizing sp with
  | nil => simp [toChars]
  | cons c u ih =>
    simp only [List.all_cons, Bool.and_eq_true] at hu
    have hc : strIsSpace T [c] = true := by simp [strIsSpace, hu.1]
    simp only [toChars, List.map_cons, List.cons_append, cwGo, hc, if_true]
    have := ih hu.2 (sp ++ [c])
    simp only [toChars] at this
    rw [this]; simp

theorem count_dq_snoc (acc : List Str) (c : Char) :
    (acc ++ [[c]]).count dq = acc.count dq + [c].count '"' := by
  by_cases h : c = '"'
  · subst h; simp [dq]
  · simp [dq, h]

theorem count_dq_space (acc : List Str) (sp : Str) (hsp : sp.all T.isSpace = true)
    (hq : T.isSpace '"' = false) : (acc ++ [sp]).count dq = acc.count dq := by
  have : sp ≠ dq := by
    intro e; subst e; simp [dq, hq] at hsp
  simp [this]

theorem cwGo_prefix (hq : T.isSpace '"' = false)
    (a : Str) (ha : ∀ c, a.getLast? = some c → T.isSpace c = false)
    (sp : Str) (acc : List Str) (hsp : sp.all T.isSpace = true) (h0 : a = [] → sp = []) :
    ∃ A, A.count dq = acc.count dq + a.count '"' ∧
      ∀ rest, cwGo T (toChars a ++ rest) sp acc = cwGo T rest [] A := by
  induction a generalizing sp acc with
  | nil => exact ⟨acc, by simp, fun rest => by simp [toChars, h0 rfl]⟩
  | cons c a ih =>
    have hlast : ∀ d, a.getLast? = some d → T.isSpace d = false := by
      intro d hd
      apply ha d
      cases a with
      | nil => cases hd
      | cons x xs => simpa [List.getLast?_cons_cons] using hd
    have hcnt : (c :: a).count '"' = [c].count '"' + a.count '"' := by
      rw [← List.count_append]; rfl
    by_cases hc : T.isSpace c = true
    · have hc' : strIsSpace T [c] = true := by simp [strIsSpace, hc]
      have hne : a ≠ [] := by
        intro e; subst e
        have := ha c (by simp)
        rw [hc] at this; cases this
      have hcq : c ≠ '"' := by intro e; subst e; rw [hq] at hc; cases hc
      obtain ⟨A, hAc, hA⟩ := ih hlast (sp ++ [c]) acc (by simp [List.all_append, hsp, hc])
        (fun e => absurd e hne)
      refine ⟨A, ?_, fun rest => ?_⟩
      · rw [hAc, hcnt]; simp [hcq]
      · simp only [toChars, List.map_cons, List.cons_append, cwGo, hc', if_true]
        exact hA rest
    · have hc' : ¬ strIsSpace T [c] = true := by simp [strIsSpace, hc]
      by_cases hs : strIsSpace T sp = true
      · obtain ⟨A, hAc, hA⟩ := ih hlast [] (acc ++ [sp] ++ [[c]]) (by rfl) (fun _ => rfl)
        refine ⟨A, ?_, fun rest => ?_⟩
        · rw [hAc, hcnt, count_dq_snoc, count_dq_space T _ _ hsp hq]; omega
        · simp only [toChars, List.map_cons, List.cons_append, cwGo, hc', hs, if_true]
          exact hA rest
      · have : sp = [] := by
          cases sp with
          | nil => rfl
          | cons x xs => simp [strIsSpace, hsp] at hs
        subst this
        obtain ⟨A, hAc, hA⟩ := ih hlast [] (acc ++ [[c]]) (by rfl) (fun _ => rfl)
        refine ⟨A, ?_, fun rest => ?_⟩
        · rw [hAc, hcnt, count_dq_snoc]; omega
        · simp only [toChars, List.map_cons, List.cons_append, cwGo, hc', hs]
          exact hA rest

/-- pass 1 around a maximal whitespace run -/
theorem combineWhitespace_sep (hq : T.isSpace '"' = false) (a b : Str)
    (ha : ∀ c, a.getLast? = some c → T.isSpace c = false)
    (hb : ∀ c, b.head? = some c → T.isSpace c = false) :
    ∃ A B, A.flatten = a ∧ B.flatten = b ∧ A.count dq = a.count '"' ∧
      ∀ t, strIsSpace T t = true →
        combineWhitespace T (toChars (a ++ t ++ b)) = A ++ [t] ++ B := by
  obtain ⟨A, hAc, hA⟩ := cwGo_prefix T hq a ha [] [] (by rfl) (fun _ => rfl)
  have hAc : A.count dq = a.count '"' := by simpa using hAc
  have hAf : A.flatten = a := by
    have h1 := hA []
    have h2 := congrArg List.flatten h1
    rw [cwGo_flatten T _ _ _ (by rfl), cwGo_flatten T _ _ _ (by rfl)] at h2
    simpa [toChars_flatten] using h2.symm
  have key : ∀ t, strIsSpace T t = true →
      combineWhitespace T (toChars (a ++ t ++ b)) = cwGo T (toChars b) t A := by
    intro t ht
    have : toChars (a ++ t ++ b) = toChars a ++ (toChars t ++ toChars b) := by
      simp [toChars]
    rw [combineWhitespace, this, hA, cwGo_spaces T t (strIsSpace_all T ht)]
    simp
  cases b with
  | nil =>
    refine ⟨A, [], hAf, rfl, hAc, fun t ht => ?_⟩
    rw [key t ht]; simp [toChars, cwGo]
  | cons c b =>
    have hc : ¬ strIsSpace T [c] = true := by simp [strIsSpace, hb c rfl]
    refine ⟨A, cwGo T (toChars b) [] [[c]], hAf, ?_, hAc, fun t ht => ?_⟩
    · rw [cwGo_flatten T _ _ _ (by rfl)]; simp [toChars_flatten]
    · rw [key t ht]
      simp only [toChars, List.map_cons, cwGo, hc, ht, if_true]
      have := cwGo_acc T (List.map (fun c => [c]) b) [] (A ++ [t]) [[c]]
      simpa using this

/-! ### combine_quote_pairs around a token no pair covers -/

theorem joinPair_left (X R : List Str) (p : Nat × Nat) (h1 : p.1 ≤ p.2) (h : p.2 < X.length) :
    joinPair (X ++ R) p = joinPair X p ++ R := by
  unfold joinPair
  have e1 : (X ++ R).take p.1 = X.take p.1 := by
    rw [List.take_append_of_le_length (by omega)]
  have e2 : ((X ++ R).drop p.1).take (p.2 + 1 - p.1) = (X.drop p.1).take (p.2 + 1 - p.1) := by
    rw [List.drop_append_of_le_length (by omega), List.take_append_of_le_length]
    simp only [List.length_drop]; omega
  have e3 : (X ++ R).drop (p.2 + 1) = X.drop (p.2 + 1) ++ R := by
    rw [List.drop_append_of_le_length (by omega)]
  rw [e1, e2, e3]; simp

theorem joinPair_right (X Y : List Str) (p : Nat × Nat) (h1 : p.1 ≤ p.2) (h : X.length ≤ p.1) :
    joinPair (X ++ Y) p = X ++ joinPair Y (p.1 - X.length, p.2 - X.length) := by
  unfold joinPair
  have e1 : (X ++ Y).take p.1 = X ++ Y.take (p.1 - X.length) := by
    rw [List.take_append, List.take_of_length_le h]
  have e2 : (X ++ Y).drop p.1 = Y.drop (p.1 - X.length) := by
    rw [List.drop_append, List.drop_of_length_le h]; simp
  have e3 : (X ++ Y).drop (p.2 + 1) = Y.drop (p.2 - X.length + 1) := by
    rw [List.drop_append, List.drop_of_length_le (by omega)]
    simp only [List.nil_append]; congr 1; omega
  have e4 : p.2 + 1 - p.1 = p.2 - X.length + 1 - (p.1 - X.length) := by omega
  rw [e1, e2, e3, e4]; simp

theorem cqp_split (ps : List (Nat × Nat)) (X Y : List Str)
    (hord : ps.Pairwise (fun p q => q.2 ≤ p.1)) (hle : ∀ p ∈ ps, p.1 ≤ p.2)
    (hk : ∀ p ∈ ps, p.2 < X.length ∨ X.length < p.1) :
    ∃ X' Y', X'.flatten = X.flatten ∧ Y'.flatten = Y.flatten ∧
      ∀ t, combineQuotePairs ps (X ++ [t] ++ Y) = X' ++ [t] ++ Y' := by
  induction ps generalizing X Y with
  | nil => exact ⟨X, Y, rfl, rfl, fun t => rfl⟩
  | cons p ps ih =>
    have hp := hle p (List.mem_cons_self ..)
    have hc := List.pairwise_cons.1 hord
    have hle' : ∀ q ∈ ps, q.1 ≤ q.2 := fun q hq => hle q (List.mem_cons_of_mem _ hq)
    rcases hk p (List.mem_cons_self ..) with h | h
    · obtain ⟨X', Y', hX, hY, hE⟩ := ih (joinPair X p) Y hc.2 hle' (by
        intro q hq
        have h1 := hc.1 q hq
        have h2 := joinPair_length X p (by omega)
        left; omega)
      refine ⟨X', Y', ?_, hY, fun t => ?_⟩
      · rw [hX, joinPair_flatten _ _ (by omega)]
      · rw [← hE t]
        simp only [combineQuotePairs, List.foldl_cons]
        rw [List.append_assoc, joinPair_left X _ p hp h, List.append_assoc]
    · obtain ⟨X', Y', hX, hY, hE⟩ := ih X (joinPair Y (p.1 - (X.length + 1), p.2 - (X.length + 1)))
        hc.2 hle' (by
        intro q hq
        have h1 := hc.1 q hq
        rcases hk q (List.mem_cons_of_mem _ hq) with h2 | h2
        · left; exact h2
        · right; exact h2)
      refine ⟨X', Y', hX, ?_, fun t => ?_⟩
      · rw [hY, joinPair_flatten _ _ (by simp only; omega)]
      · rw [← hE t]
        simp only [combineQuotePairs, List.foldl_cons]
        have := joinPair_right (X ++ [t]) Y p hp (by simp; omega)
        simp only [List.length_append, List.length_singleton] at this
        rw [this]

theorem indexesOf_append (v : Str) (l₁ l₂ : List Str) (i : Nat) :
    indexesOf v (l₁ ++ l₂) i = indexesOf v l₁ i ++ indexesOf v l₂ (i + l₁.length) := by
  induction l₁ generalizing i with
  | nil => simp [indexesOf]
  | cons t ts ih =>
    simp only [List.cons_append, indexesOf, List.length_cons]
    split
    · rw [ih]; simp; congr 1; omega
    · rw [ih]; congr 2; omega

theorem indexesOf_length (v : Str) (l : List Str) (i : Nat) :
    (indexesOf v l i).length = l.count v := by
  induction l generalizing i with
  | nil => simp [indexesOf]
  | cons t ts ih =>
    simp only [indexesOf, List.count_cons]
    split
    · rename_i h; subst h; simp [ih]
    · rename_i h; simp [ih, h]

/-- the indexes do not depend on a token that is not the value looked for -/
theorem indexesOf_sep (v : Str) (X Y : List Str) (t : Str) (ht : t ≠ v) :
    indexesOf v (X ++ [t] ++ Y) 0 = indexesOf v X 0 ++ indexesOf v Y (X.length + 1) := by
  rw [indexesOf_append, indexesOf_append]
  simp [indexesOf, ht]

theorem pairUp_mem (qs : List Nat) : ∀ p ∈ pairUp qs, p.1 ∈ qs ∧ p.2 ∈ qs := by
  fun_induction pairUp qs with
  | case1 a b rest ih =>
    intro p hp
    rcases List.mem_cons.1 hp with e | hp
    · subst e; simp
    · have := ih p hp
      exact ⟨List.mem_cons_of_mem _ (List.mem_cons_of_mem _ this.1),
        List.mem_cons_of_mem _ (List.mem_cons_of_mem _ this.2)⟩
  | case2 l hl => intro p hp; cases hp

theorem pairUp_append_even (q₁ q₂ : List Nat) (h : q₁.length % 2 = 0) :
    pairUp (q₁ ++ q₂) = pairUp q₁ ++ pairUp q₂ := by
  fun_induction pairUp q₁ with
  | case1 a b rest ih =>
    simp only [List.cons_append, pairUp, List.cons.injEq, true_and]
    apply ih
    simp only [List.length_cons] at h; omega
  | case2 l hl =>
    cases l with
    | nil => simp
    | cons a l =>
      cases l with
      | nil => simp at h
      | cons b l => exact absurd rfl (hl a b l)

theorem pairUp_pairwise (qs : List Nat) (h : qs.Pairwise (· < ·)) :
    (pairUp qs).Pairwise (fun p q => p.2 ≤ q.1) := by
  fun_induction pairUp qs with
  | case1 a b rest ih =>
    have h1 := List.pairwise_cons.1 h
    have h2 := List.pairwise_cons.1 h1.2
    refine List.Pairwise.cons ?_ (ih h2.2)
    intro q hq
    have := h2.1 q.1 (pairUp_mem rest q hq).1
    simp only; omega
  | case2 l hl => simp

/-! ### pass 2 — combine_string_literals -/

theorem combineStringLiterals_sep (X Y : List Str)
    (heven : X.count dq % 2 = 0 ∨ Y.count dq = 0) :
    ∃ X' Y', X'.flatten = X.flatten ∧ Y'.flatten = Y.flatten ∧
      ∀ t, t ≠ dq → combineStringLiterals (X ++ [t] ++ Y) = X' ++ [t] ++ Y' := by
  have hidx : ∀ t, t ≠ dq → indexesOf dq (X ++ [t] ++ Y) 0
      = indexesOf dq X 0 ++ indexesOf dq Y (X.length + 1) := fun t ht => indexesOf_sep dq X Y t ht
  have hnil : ([] : Str) ≠ dq := by simp [dq]
  have hsorted : (indexesOf dq X 0 ++ indexesOf dq Y (X.length + 1)).Pairwise (· < ·) := by
    rw [← hidx [] hnil]; exact indexesOf_sorted _ _ _
  obtain ⟨X', Y', hX, hY, hE⟩ := cqp_split
    (pairUp (indexesOf dq X 0 ++ indexesOf dq Y (X.length + 1))).reverse X Y
    (by
      rw [List.pairwise_reverse]
      exact pairUp_pairwise _ hsorted)
    (by
      intro p hp
      have := pairUp_lt _ hsorted p (List.mem_reverse.1 hp)
      omega)
    (by
      intro p hp
      have hp := List.mem_reverse.1 hp
      rcases heven with heven | hzero
      · rw [pairUp_append_even _ _ (by rw [indexesOf_length]; exact heven)] at hp
        rcases List.mem_append.1 hp with h | h
        · have := indexesOf_range dq X 0 p.2 (pairUp_mem _ p h).2
          left; omega
        · have := indexesOf_range dq Y (X.length + 1) p.1 (pairUp_mem _ p h).1
          right; omega
      · have e : indexesOf dq Y (X.length + 1) = [] :=
          List.eq_nil_of_length_eq_zero (by rw [indexesOf_length]; exact hzero)
        rw [e, List.append_nil] at hp
        have := indexesOf_range dq X 0 p.2 (pairUp_mem _ p hp).2
        left; omega)
  refine ⟨X', Y', hX, hY, fun t ht => ?_⟩
  rw [combineStringLiterals, hidx t ht]
  exact hE t

/-! ### pass 3 — combine_backslash_characters_into_symbols -/

/-- one iteration of the loop of the backslash pass -/
def bsStep (c : Str) (sym : Str) (b : Bool) (acc : List Str) : Str × Bool × List Str :=
  let stop := stopCharFound T c b
  let b1 := if stop then false else b
  let acc1 := if stop then acc ++ [sym] else acc
  let sym1 := if stop then [] else sym
  let b2 := if c = ['\\'] then true else b1
  (if b2 then sym1 ++ c else sym1, b2, if !b2 then acc1 ++ [c] else acc1)

theorem bsGo_cons (c : Str) (cs : List Str) (sym : Str) (b : Bool) (acc : List Str) :
    bsGo T (c :: cs) sym b acc
      = bsGo T cs (bsStep T c sym b acc).1 (bsStep T c sym b acc).2.1 (bsStep T c sym b acc).2.2 := rfl

theorem bsStep_inv (c sym : Str) (b : Bool) (acc : List Str) (hb : b = false → sym = []) :
    (bsStep T c sym b acc).2.1 = false → (bsStep T c sym b acc).1 = [] := by
  unfold bsStep
  by_cases hstop : stopCharFound T c b = true <;> by_cases hc : c = ['\\'] <;> cases b <;> simp_all

theorem bsStep_nobs (c sym : Str) (acc : List Str) (hc : c ≠ ['\\']) :
    (bsStep T c sym false acc).2.1 = false := by
  simp [bsStep, stopCharFound, hc]

theorem bsStep_acc (c sym : Str) (b : Bool) (p acc : List Str) :
    bsStep T c sym b (p ++ acc)
      = ((bsStep T c sym b acc).1, (bsStep T c sym b acc).2.1, p ++ (bsStep T c sym b acc).2.2) := by
  unfold bsStep
  by_cases hstop : stopCharFound T c b = true <;> by_cases hc : c = ['\\'] <;> cases b <;> simp_all

theorem bsGo_acc (cs : List Str) (sym : Str) (b : Bool) (p acc : List Str) :
    bsGo T cs sym b (p ++ acc) = p ++ bsGo T cs sym b acc := by
  induction cs generalizing sym b acc with
  | nil => simp only [bsGo]; split <;> simp
  | cons c cs ih =>
    rw [bsGo_cons, bsGo_cons, bsStep_acc]
    exact ih _ _ _

/-! ### passes 4, 5 — combine_three/two_character_symbols -/

theorem combN_cons (n : Nat) (syms : List Str) (a : Str) (rest : List Str) :
    combN n syms (a :: rest) =
      if ((a :: rest).take (n + 1)).flatten ∈ syms then
        ((a :: rest).take (n + 1)).flatten :: combN n syms ((a :: rest).drop (n + 1))
      else a :: combN n syms rest := by
  rw [combN]

/-- a chunk with a whitespace token in it is not a symbol -/
theorem chunk_not_sym (syms : List Str) (hs : ∀ s ∈ syms, ∀ c ∈ s, T.isSpace c = false)
    (chunk : List Str) (t : Str) (ht : strIsSpace T t = true) (hm : t ∈ chunk) :
    chunk.flatten ∉ syms := by
  intro h
  obtain ⟨c, hc, hsp⟩ := strIsSpace_exists T ht
  have := hs _ h c (List.mem_flatten.2 ⟨t, hm, hc⟩)
  rw [hsp] at this; cases this

theorem combN_sep (n : Nat) (syms : List Str) (hs : ∀ s ∈ syms, ∀ c ∈ s, T.isSpace c = false)
    (A B : List Str) :
    ∃ A', A'.flatten = A.flatten ∧ ∀ t, strIsSpace T t = true →
      combN n syms (A ++ [t] ++ B) = A' ++ [t] ++ combN n syms B := by
  obtain ⟨k, hk⟩ : ∃ k, A.length ≤ k := ⟨_, Nat.le_refl _⟩
  induction k generalizing A with
  | zero =>
    have : A = [] := List.eq_nil_of_length_eq_zero (by omega)
    subst this
    refine ⟨[], rfl, fun t ht => ?_⟩
    simp only [List.nil_append, List.singleton_append]
    rw [combN_cons, if_neg]
    exact chunk_not_sym T syms hs _ t ht (by simp)
  | succ k ih =>
    cases A with
    | nil => exact ih [] (by simp)
    | cons x A₀ =>
      simp only [List.length_cons] at hk
      obtain ⟨A₁, hf₁, h₁⟩ := ih A₀ (by omega)
      by_cases hlen : n + 1 ≤ (x :: A₀).length
      · by_cases hin : ((x :: A₀).take (n + 1)).flatten ∈ syms
        · obtain ⟨A₂, hf₂, h₂⟩ := ih ((x :: A₀).drop (n + 1))
            (by simp only [List.length_drop, List.length_cons]; omega)
          refine ⟨((x :: A₀).take (n + 1)).flatten :: A₂, ?_, fun t ht => ?_⟩
          · rw [List.flatten_cons, hf₂, ← List.flatten_append, List.take_append_drop]
          have e1 : (x :: A₀ ++ [t] ++ B) = x :: (A₀ ++ [t] ++ B) := by simp
          have e2 : (x :: (A₀ ++ [t] ++ B)).take (n + 1) = (x :: A₀).take (n + 1) := by
            rw [← e1, List.append_assoc, List.take_append_of_le_length hlen]
          have e3 : (x :: (A₀ ++ [t] ++ B)).drop (n + 1) = (x :: A₀).drop (n + 1) ++ [t] ++ B := by
            rw [← e1, List.append_assoc, List.drop_append_of_le_length hlen, List.append_assoc]
          rw [e1, combN_cons, e2, e3, if_pos hin, h₂ t ht]
          simp
        · refine ⟨x :: A₁, by simp [hf₁], fun t ht => ?_⟩
          have e1 : (x :: A₀ ++ [t] ++ B) = x :: (A₀ ++ [t] ++ B) := by simp
          have e2 : (x :: (A₀ ++ [t] ++ B)).take (n + 1) = (x :: A₀).take (n + 1) := by
            rw [← e1, List.append_assoc, List.take_append_of_le_length hlen]
          rw [e1, combN_cons, e2, if_neg hin, h₁ t ht]
          simp
      · refine ⟨x :: A₁, by simp [hf₁], fun t ht => ?_⟩
        have e1 : (x :: A₀ ++ [t] ++ B) = x :: (A₀ ++ [t] ++ B) := by simp
        have hm : t ∈ (x :: (A₀ ++ [t] ++ B)).take (n + 1) := by
          rw [← e1, List.append_assoc, List.take_append]
          apply List.mem_append_right
          have : n + 1 - (x :: A₀).length = (n - (x :: A₀).length) + 1 := by omega
          rw [this]; simp
        rw [e1, combN_cons, if_neg (chunk_not_sym T syms hs _ t ht hm), h₁ t ht]
        simp

/-! ### pass 6 — combine_characters_into_words -/

theorem cwordsGo_acc (cs : List Str) (tmp : Str) (p acc : List Str) :
    cwordsGo T cs tmp (p ++ acc) = p ++ cwordsGo T cs tmp acc := by
  induction cs generalizing tmp acc with
  | nil => simp only [cwordsGo]; split <;> simp
  | cons c cs ih =>
    simp only [cwordsGo]
    split
    · exact ih _ _
    · rw [← ih]; congr 1; split <;> simp

theorem cwordsGo_sep (A B : List Str) (t : Str) (ht : partOfWord T t = false) (tmp : Str)
    (acc : List Str) :
    cwordsGo T (A ++ t :: B) tmp acc = cwordsGo T A tmp acc ++ [t] ++ cwordsGo T B [] [] := by
  induction A generalizing tmp acc with
  | nil =>
    simp only [List.nil_append, cwordsGo, ht]
    have := cwordsGo_acc T B [] ((if (tmp != []) = true then acc ++ [tmp] else acc) ++ [t]) []
    rw [List.append_nil] at this
    rw [if_neg (by simp), this]
    cases tmp <;> simp
  | cons c A ih =>
    simp only [List.cons_append, cwordsGo]
    split
    · exact ih _ _
    · exact ih _ _

theorem combineWords_sep (A B : List Str) (t : Str) (ht : strIsSpace T t = true) :
    combineWords T (A ++ [t] ++ B) = combineWords T A ++ [t] ++ combineWords T B := by
  have hp : partOfWord T t = false := by
    unfold partOfWord; simp [ht]
  rw [combineWords, List.append_assoc, List.singleton_append, cwordsGo_sep T A B t hp]
  rfl

/-! ### pass 7 — combine_character_literals -/

theorem getElem?_sep_ne (X Y : List Str) (t t' : Str) (i : Nat) (h : i ≠ X.length) :
    (X ++ [t] ++ Y)[i]? = (X ++ [t'] ++ Y)[i]? := by
  rcases Nat.lt_or_gt_of_ne h with h | h
  · rw [List.append_assoc, List.append_assoc, List.getElem?_append_left h,
      List.getElem?_append_left h]
  · rw [List.getElem?_append_right (by simp; omega), List.getElem?_append_right (by simp; omega)]
    simp

theorem getElem?_sep_eq (X Y : List Str) (t : Str) : (X ++ [t] ++ Y)[X.length]? = some t := by
  rw [List.append_assoc, List.getElem?_append_right (Nat.le_refl _)]
  simp

theorem candidates_mem (l : List Str) (qs : List Nat) : ∀ p ∈ candidates l qs,
    p.1 ∈ qs ∧ p.2 ∈ qs ∧ p.2 = p.1 + 2 ∧ (l[p.1 + 1]?).map (·.length) = some 1 := by
  fun_induction candidates l qs with
  | case1 q q' rest ih =>
    intro p hp
    rcases List.mem_append.1 hp with h | h
    · split at h
      · rename_i hc
        rw [List.mem_singleton] at h; subst h
        refine ⟨List.mem_cons_self .., ?_, rfl, hc.2.1⟩
        simp only; rw [hc.1]; simp
      · cases h
    · have := ih p h
      exact ⟨List.mem_cons_of_mem _ this.1, List.mem_cons_of_mem _ this.2.1, this.2.2⟩
  | case2 qs h => intro p hp; cases hp

theorem candidates_pairwise (l : List Str) (qs : List Nat) (h : qs.Pairwise (· < ·)) :
    (candidates l qs).Pairwise (fun p q => p.2 ≤ q.1) := by
  fun_induction candidates l qs with
  | case1 q q' rest ih =>
    have h1 := List.pairwise_cons.1 h
    have hrest := ih h1.2
    split
    · rename_i hc
      simp only [List.singleton_append]
      refine List.Pairwise.cons ?_ hrest
      intro p hp
      have hm := (candidates_mem l _ p hp).1
      simp only
      rcases List.mem_cons.1 hm with e | e
      · omega
      · have := (List.pairwise_cons.1 h1.2).1 p.1 e
        omega
    · simpa using hrest
  | case2 qs h => simp

theorem candidates_congr (l l' : List Str) (qs : List Nat)
    (h : ∀ q, q ∈ qs → q + 2 ∈ qs →
      ((((l[q + 1]?).map (·.length) = some 1) ∧ l[q + 1]? ≠ some ['(']) ↔
       (((l'[q + 1]?).map (·.length) = some 1) ∧ l'[q + 1]? ≠ some ['(']))) :
    candidates l qs = candidates l' qs := by
  fun_induction candidates l qs with
  | case1 q q' rest ih =>
    rw [candidates]
    rw [ih (fun x hx hx2 => h x (List.mem_cons_of_mem _ hx) (List.mem_cons_of_mem _ hx2))]
    congr 1
    by_cases hq : q + 2 = q'
    · have := h q (List.mem_cons_self ..) (by rw [hq]; simp)
      simp only [hq, true_and]
      by_cases h1 : (((l[q + 1]?).map (·.length) = some 1) ∧ l[q + 1]? ≠ some ['('])
      · rw [if_pos h1, if_pos (this.1 h1)]
      · rw [if_neg h1, if_neg (fun h2 => h1 (this.2 h2))]
    · simp [hq]
  | case2 qs hqs =>
    rw [candidates]
    intro q q' rest e
    exact hqs q q' rest e

theorem combineCharLiterals_sep (X Y : List Str) :
    ∃ X' Y', X'.flatten = X.flatten ∧ Y'.flatten = Y.flatten ∧
      ∀ t, t ≠ sq → (X.getLast? = some sq → Y.head? = some sq → t.length ≠ 1) →
        combineCharLiterals (X ++ [t] ++ Y) = X' ++ [t] ++ Y' := by
  have hidx : ∀ t, t ≠ sq → indexesOf sq (X ++ [t] ++ Y) 0
      = indexesOf sq X 0 ++ indexesOf sq Y (X.length + 1) := fun t ht => indexesOf_sep sq X Y t ht
  have hnil : ([] : Str) ≠ sq := by simp [sq]
  generalize hI : indexesOf sq X 0 ++ indexesOf sq Y (X.length + 1) = idx at hidx
  have hsorted : idx.Pairwise (· < ·) := by
    rw [← hidx [] hnil]; exact indexesOf_sorted _ _ _
  -- the members of `idx` avoid the position of the token
  have hlt : ∀ q ∈ idx, q < X.length → X[q]? = some sq := by
    intro q hq hlt
    rw [← hI] at hq
    rcases List.mem_append.1 hq with h | h
    · simpa using indexesOf_get sq X 0 q h
    · have := indexesOf_range sq Y (X.length + 1) q h; omega
  have hgt : ∀ q ∈ idx, X.length ≤ q → X.length + 1 ≤ q ∧ Y[q - (X.length + 1)]? = some sq := by
    intro q hq hge
    rw [← hI] at hq
    rcases List.mem_append.1 hq with h | h
    · have := indexesOf_range sq X 0 q h; omega
    · exact ⟨(indexesOf_range sq Y (X.length + 1) q h).1, indexesOf_get sq Y (X.length + 1) q h⟩
  have hticks : ∀ q, q ∈ idx → q + 2 ∈ idx → q + 1 = X.length →
      X.getLast? = some sq ∧ Y.head? = some sq := by
    intro q h1 h2 h3
    constructor
    · rw [List.getLast?_eq_getElem?]
      have := hlt q h1 (by omega)
      have e : X.length - 1 = q := by omega
      rw [e]; exact this
    · rw [List.head?_eq_getElem?]
      have := (hgt (q + 2) h2 (by omega)).2
      have e : q + 2 - (X.length + 1) = 0 := by omega
      rw [e] at this; exact this
  have hcongr : ∀ t, (X.getLast? = some sq → Y.head? = some sq → t.length ≠ 1) →
      candidates (X ++ [t] ++ Y) idx = candidates (X ++ [[]] ++ Y) idx := by
    intro t ht
    apply candidates_congr
    intro q h1 h2
    by_cases hq : q + 1 = X.length
    · have := hticks q h1 h2 hq
      have htl := ht this.1 this.2
      rw [hq, getElem?_sep_eq, getElem?_sep_eq]
      simp [htl]
    · rw [getElem?_sep_ne X Y t [] (q + 1) hq]
  generalize hL : candidates (X ++ [[]] ++ Y) idx = lits at hcongr
  by_cases hlen : lits.length = 0
  · refine ⟨X, Y, rfl, rfl, fun t ht hg => ?_⟩
    rw [combineCharLiterals]
    simp only [hidx t ht, hcongr t hg, hlen, if_true]
  · have hmem := candidates_mem (X ++ [[]] ++ Y) idx
    rw [hL] at hmem
    have hsub := filterCandidates_sublist lits
    obtain ⟨X', Y', hX, hY, hE⟩ := cqp_split (filterCandidates lits).reverse X Y
      (by
        rw [List.pairwise_reverse]
        have := candidates_pairwise (X ++ [[]] ++ Y) idx hsorted
        rw [hL] at this
        exact this.sublist hsub)
      (by
        intro p hp
        have := (hmem p (hsub.subset (List.mem_reverse.1 hp))).2.2.1
        omega)
      (by
        intro p hp
        obtain ⟨h1, h2, h3, h4⟩ := hmem p (hsub.subset (List.mem_reverse.1 hp))
        by_cases ha : p.2 < X.length
        · left; exact ha
        · right
          have hb := (hgt p.2 h2 (by omega)).1
          by_cases hc : X.length ≤ p.1
          · have := (hgt p.1 h1 hc).1; omega
          · exfalso
            have e : p.1 + 1 = X.length := by omega
            rw [e, getElem?_sep_eq] at h4
            simp at h4)
    refine ⟨X', Y', hX, hY, fun t ht hg => ?_⟩
    rw [combineCharLiterals]
    simp only [hidx t ht, hcongr t hg, hlen, if_false]
    exact hE t

/-! ### pass 8 — split_natural_numbers -/

theorem pnGo_noE (cs tmp : Str) (acc : List Str) (h : ∀ c ∈ cs, T.lowerIsE c = false) :
    pnGo T cs tmp acc = if (tmp ++ cs).length > 0 then acc ++ [tmp ++ cs] else acc := by
  induction cs generalizing tmp with
  | nil => simp [pnGo]
  | cons c cs ih =>
    have hc := h c (List.mem_cons_self ..)
    simp only [pnGo, hc]
    rw [ih _ (fun d hd => h d (List.mem_cons_of_mem _ hd))]
    simp

theorem splitNaturalNumbers_sep (hE : ∀ c, T.isSpace c = true → T.lowerIsE c = false)
    (A B : List Str) (t : Str) (ht : strIsSpace T t = true) :
    splitNaturalNumbers T (A ++ [t] ++ B)
      = splitNaturalNumbers T A ++ [t] ++ splitNaturalNumbers T B := by
  have hall := strIsSpace_all T ht
  have hne := strIsSpace_ne_nil T t ht
  have hp : parseNaturalNumber T t = [t] := by
    rw [parseNaturalNumber, pnGo_noE T t [] [] (fun c hc => hE c (List.all_eq_true.1 hall c hc))]
    cases t with
    | nil => exact absurd rfl hne
    | cons c cs => simp
  simp only [splitNaturalNumbers, List.flatMap_append, List.flatMap_cons, List.flatMap_nil,
    List.append_nil, hp, ite_self]

/-! ### pass 9 — split_bit_string_literal_integer_and_base_specifier -/

theorem strIsSpace_startsDq (hq : T.isSpace '"' = false) (t : Str) (ht : strIsSpace T t = true) :
    startsDq t = false := by
  cases t with
  | nil => rfl
  | cons c cs =>
    have := strIsSpace_all T ht
    simp only [List.all_cons, Bool.and_eq_true] at this
    unfold startsDq
    split
    · rename_i h
      injection h with h1 h2
      subst h1
      rw [hq] at this; exact absurd this.1 (by simp)
    · rfl

theorem strIsSpace_endsBoxd (hB : ∀ c, T.isSpace c = true → T.lowerBoxd c = false) (t : Str)
    (ht : strIsSpace T t = true) : endsBoxd T t = false := by
  unfold endsBoxd
  split
  · rename_i c hc
    exact hB c (List.all_eq_true.1 (strIsSpace_all T ht) c (List.mem_of_getLast? hc))
  · rfl

theorem splitBitStrings_sep (hbd : ∀ c, T.lowerBoxd c = true → T.isDigit c = false)
    (A B : List Str) :
    ∃ A', A'.flatten = A.flatten ∧ ∀ t, startsDq t = false → endsBoxd T t = false →
      splitBitStrings T (A ++ [t] ++ B) = A' ++ [t] ++ splitBitStrings T B := by
  induction A with
  | nil =>
    refine ⟨[], rfl, fun t h1 h2 => ?_⟩
    cases B with
    | nil => simp [splitBitStrings]
    | cons n rest => simp [splitBitStrings, h2]
  | cons s A ih =>
    obtain ⟨A', hf, hA'⟩ := ih
    cases A with
    | nil =>
      refine ⟨s :: A', by simp [hf], fun t h1 h2 => ?_⟩
      have := hA' t h1 h2
      simp only [List.nil_append, List.singleton_append] at this
      simp only [List.cons_append, List.nil_append, splitBitStrings, h1, Bool.and_false]
      rw [this]; simp
    | cons n A₂ =>
      refine ⟨(if endsBoxd T s && startsDq n then parseBitString T s else [s]) ++ A', ?_,
        fun t h1 h2 => ?_⟩
      · rw [List.flatten_append, hf, List.flatten_cons (l := s)]
        congr 1
        split
        · rename_i h
          simp only [Bool.and_eq_true] at h
          exact parseBitString_flatten T s (endsBoxd_splitIndex T hbd s h.1)
        · simp
      · have := hA' t h1 h2
        simp only [List.cons_append] at this ⊢
        rw [splitBitStrings, this]
        simp

/-! ### token boundaries -/

/-- `u` is the concatenation of the first few tokens of `l` -/
def Pref (l : List Str) (u : Str) : Prop := ∃ p q, l = p ++ q ∧ p.flatten = u

theorem Pref.nil (l : List Str) : Pref l [] := ⟨[], l, rfl, rfl⟩

theorem Pref.full (l : List Str) : Pref l l.flatten := ⟨l, [], by simp, rfl⟩

theorem pref_nil_iff (u : Str) : Pref [] u ↔ u = [] := by
  constructor
  · rintro ⟨p, q, h, hu⟩
    have := List.append_eq_nil_iff.1 h.symm
    rw [this.1] at hu; exact hu.symm
  · intro h; subst h; exact Pref.nil _

theorem pref_append (l r : List Str) (u : Str) :
    Pref (l ++ r) u ↔ Pref l u ∨ ∃ v, u = l.flatten ++ v ∧ Pref r v := by
  constructor
  · rintro ⟨p, q, h, hu⟩
    rcases List.append_eq_append_iff.1 h with ⟨a', h1, h2⟩ | ⟨c', h1, h2⟩
    · right
      refine ⟨a'.flatten, ?_, a', q, h2, rfl⟩
      rw [← hu, h1, List.flatten_append]
    · left
      exact ⟨p, c', h1, hu⟩
  · rintro (⟨p, q, h, hu⟩ | ⟨v, hv, p, q, h, hu⟩)
    · exact ⟨p, q ++ r, by rw [h, List.append_assoc], hu⟩
    · exact ⟨l ++ p, q, by rw [h, List.append_assoc], by rw [hv, List.flatten_append, hu]⟩

theorem pref_cons (x : Str) (r : List Str) (u : Str) :
    Pref (x :: r) u ↔ u = [] ∨ ∃ v, u = x ++ v ∧ Pref r v := by
  have := pref_append [x] r u
  simp only [List.singleton_append, List.flatten_cons, List.flatten_nil, List.append_nil] at this
  rw [this]
  constructor
  · rintro (⟨p, q, h, hu⟩ | h)
    · cases p with
      | nil => left; exact hu.symm
      | cons y p' =>
        right
        simp only [List.cons_append, List.cons.injEq] at h
        have hp := (List.append_eq_nil_iff.1 h.2.symm).1
        subst hp
        refine ⟨[], ?_, Pref.nil _⟩
        rw [← hu, h.1]; simp
    · right; exact h
  · rintro (h | h)
    · left; subst h; exact Pref.nil _
    · right; exact h

theorem pref_singleton (x u : Str) : Pref [x] u ↔ u = [] ∨ u = x := by
  rw [pref_cons]
  constructor
  · rintro (h | ⟨v, hv, hp⟩)
    · exact Or.inl h
    · rw [pref_nil_iff] at hp; subst hp; right; simpa using hv
  · rintro (h | h)
    · exact Or.inl h
    · right; exact ⟨[], by simp [h], Pref.nil _⟩

/-- quote parity at the token boundaries: left of every boundary the number of `"` characters
    is even, or there is no `"` to the right -/
def QB (l : List Str) : Prop :=
  ∀ p q, l = p ++ q → p.flatten.count '"' % 2 = 0 ∨ '"' ∉ q.flatten

theorem QB.of_sub {l m : List Str} (h : QB l) (hf : m.flatten = l.flatten)
    (hs : ∀ u, Pref m u → Pref l u) : QB m := by
  intro p' q' e
  obtain ⟨p, q, e', hp⟩ := hs p'.flatten ⟨p', q', e, rfl⟩
  have hq : q.flatten = q'.flatten := by
    rw [e, e', List.flatten_append, List.flatten_append, hp] at hf
    exact (List.append_cancel_left hf).symm
  rw [← hp, ← hq]
  exact h p q e'

theorem QB.of_split {l m : List Str} (h : QB l) (hf : m.flatten = l.flatten)
    (hs : ∀ u, Pref m u → ∃ u₀ v, u = u₀ ++ v ∧ Pref l u₀ ∧ '"' ∉ v) : QB m := by
  intro p' q' e
  obtain ⟨u₀, v, huv, ⟨p, q, e', hp⟩, hv⟩ := hs p'.flatten ⟨p', q', e, rfl⟩
  have hq : q.flatten = v ++ q'.flatten := by
    rw [e, e', List.flatten_append, List.flatten_append, huv, hp, List.append_assoc] at hf
    exact (List.append_cancel_left hf).symm
  rcases h p q e' with h1 | h1
  · left
    rw [huv, List.count_append, List.count_eq_zero.2 hv, ← hp]
    simpa using h1
  · right
    intro hm
    apply h1
    rw [hq]; exact List.mem_append_right _ hm

/-! ### the combining passes only remove boundaries -/

theorem joinPair_pref (l : List Str) (p : Nat × Nat) (hp : p.1 ≤ p.2 + 1) (u : Str)
    (h : Pref (joinPair l p) u) : Pref l u := by
  have e3 : (l.drop p.1).drop (p.2 + 1 - p.1) = l.drop (p.2 + 1) := by
    rw [List.drop_drop]; congr 1; omega
  have e : l = l.take p.1 ++ ((l.drop p.1).take (p.2 + 1 - p.1) ++ l.drop (p.2 + 1)) := by
    rw [← e3, List.take_append_drop, List.take_append_drop]
  unfold joinPair at h
  rw [List.append_assoc, pref_append] at h
  rcases h with h | ⟨v, hv, h⟩
  · rw [e, pref_append]; exact Or.inl h
  · rw [List.singleton_append, pref_cons] at h
    rcases h with h | ⟨v', hv', h⟩
    · subst h
      rw [e, pref_append]; left
      rw [hv, List.append_nil]; exact Pref.full _
    · rw [e, pref_append]; right
      refine ⟨v, hv, ?_⟩
      rw [pref_append]; right
      exact ⟨v', hv', h⟩

theorem combineQuotePairs_pref (ps : List (Nat × Nat)) (l : List Str)
    (hps : ∀ p ∈ ps, p.1 ≤ p.2 + 1) (u : Str) (h : Pref (combineQuotePairs ps l) u) :
    Pref l u := by
  induction ps generalizing l with
  | nil => exact h
  | cons p ps ih =>
    simp only [combineQuotePairs, List.foldl_cons] at h
    exact joinPair_pref l p (hps p (List.mem_cons_self ..)) u
      (ih (joinPair l p) (fun q hq => hps q (List.mem_cons_of_mem _ hq)) h)

theorem combineStringLiterals_pref (l : List Str) (u : Str)
    (h : Pref (combineStringLiterals l) u) : Pref l u := by
  apply combineQuotePairs_pref _ _ _ _ h
  intro p hp
  have := pairUp_lt _ (indexesOf_sorted dq l 0) p (List.mem_reverse.1 hp)
  omega

theorem combineCharLiterals_pref (l : List Str) (u : Str)
    (h : Pref (combineCharLiterals l) u) : Pref l u := by
  unfold combineCharLiterals at h
  simp only at h
  split at h
  · exact h
  · apply combineQuotePairs_pref _ _ _ _ h
    intro p hp
    have h1 := (filterCandidates_sublist _).subset (List.mem_reverse.1 hp)
    have := candidates_snd _ _ p h1
    omega

theorem combN_pref (n : Nat) (syms : List Str) (l : List Str) (u : Str)
    (h : Pref (combN n syms l) u) : Pref l u := by
  fun_induction combN n syms l generalizing u with
  | case1 => exact h
  | case2 a rest chunk hin ih =>
    rw [pref_cons] at h
    rcases h with h | ⟨v, hv, h⟩
    · subst h; exact Pref.nil _
    · have e : a :: rest = chunk ++ (a :: rest).drop (n + 1) := (List.take_append_drop _ _).symm
      rw [e, pref_append]; right
      exact ⟨v, hv, ih v h⟩
  | case3 a rest chunk hin ih =>
    rw [pref_cons] at h ⊢
    rcases h with h | ⟨v, hv, h⟩
    · exact Or.inl h
    · exact Or.inr ⟨v, hv, ih v h⟩

/-- pass 6 -/
theorem cwordsGo_pref (cs : List Str) (tmp : Str) (u : Str)
    (h : Pref (cwordsGo T cs tmp []) u) : u = [] ∨ ∃ v, u = tmp ++ v ∧ Pref cs v := by
  induction cs generalizing tmp u with
  | nil =>
    simp only [cwordsGo] at h
    split at h
    · simp only [List.nil_append, pref_singleton] at h
      rcases h with h | h
      · exact Or.inl h
      · exact Or.inr ⟨[], by simp [h], Pref.nil _⟩
    · rw [pref_nil_iff] at h; exact Or.inl h
  | cons c cs ih =>
    simp only [cwordsGo] at h
    split at h
    · rcases ih _ _ h with h | ⟨v, hv, h⟩
      · exact Or.inl h
      · right
        refine ⟨c ++ v, by rw [hv, List.append_assoc], ?_⟩
        rw [pref_cons]; exact Or.inr ⟨v, rfl, h⟩
    · have hacc := cwordsGo_acc T cs [] ((if (tmp != []) = true then [] ++ [tmp] else []) ++ [c]) []
      rw [List.append_nil] at hacc
      rw [hacc, pref_append] at h
      have hfl : ((if (tmp != []) = true then ([] : List Str) ++ [tmp] else []) ++ [c]).flatten = tmp ++ c := by
        cases tmp <;> simp
      rcases h with h | ⟨v, hv, h⟩
      · -- inside the emitted tokens
        rw [pref_append] at h
        rcases h with h | ⟨v, hv, h⟩
        · split at h
          · simp only [List.nil_append, pref_singleton] at h
            rcases h with h | h
            · exact Or.inl h
            · exact Or.inr ⟨[], by simp [h], Pref.nil _⟩
          · rw [pref_nil_iff] at h; exact Or.inl h
        · rw [pref_singleton] at h
          have hfl' : (if (tmp != []) = true then ([] : List Str) ++ [tmp] else []).flatten = tmp := by
            cases tmp <;> simp
          rw [hfl'] at hv
          rcases h with h | h
          · subst h; exact Or.inr ⟨[], hv, Pref.nil _⟩
          · subst h
            right
            refine ⟨v, hv, ?_⟩
            rw [pref_cons]; exact Or.inr ⟨[], by simp, Pref.nil _⟩
      · rw [hfl] at hv
        rcases ih _ _ h with h | ⟨v', hv', h⟩
        · subst h
          right
          refine ⟨c, by simpa using hv, ?_⟩
          rw [pref_cons]; exact Or.inr ⟨[], by simp, Pref.nil _⟩
        · right
          refine ⟨c ++ v', by rw [hv, hv']; simp, ?_⟩
          rw [pref_cons]; exact Or.inr ⟨v', rfl, h⟩

theorem combineWords_pref (l : List Str) (u : Str) (h : Pref (combineWords T l) u) : Pref l u := by
  rcases cwordsGo_pref T l [] u h with h | ⟨v, hv, h⟩
  · subst h; exact Pref.nil _
  · rw [hv]; exact h

/-- pass 3 -/
theorem bsStep_shape (c sym : Str) (b : Bool) (hb : b = false → sym = []) :
    (bsStep T c sym b []).2.2.flatten ++ (bsStep T c sym b []).1 = sym ++ c ∧
    ∀ u, Pref (bsStep T c sym b []).2.2 u → u = [] ∨ u = sym ∨ u = sym ++ c := by
  unfold bsStep
  by_cases hstop : stopCharFound T c b = true <;> by_cases hc : c = ['\\'] <;> cases b <;>
    simp_all [pref_cons, pref_nil_iff]

theorem bsGo_pref (cs : List Str) (sym : Str) (b : Bool) (hb : b = false → sym = []) (u : Str)
    (h : Pref (bsGo T cs sym b []) u) : u = [] ∨ ∃ v, u = sym ++ v ∧ Pref cs v := by
  induction cs generalizing sym b u with
  | nil =>
    simp only [bsGo] at h
    split at h
    · simp only [List.nil_append, pref_singleton] at h
      rcases h with h | h
      · exact Or.inl h
      · exact Or.inr ⟨[], by simp [h], Pref.nil _⟩
    · rw [pref_nil_iff] at h; exact Or.inl h
  | cons c cs ih =>
    obtain ⟨hfl, hE⟩ := bsStep_shape T c sym b hb
    have hc : Pref (c :: cs) c := by
      rw [pref_cons]; exact Or.inr ⟨[], by simp, Pref.nil _⟩
    have fin : ∀ u, (u = [] ∨ u = sym ∨ u = sym ++ c) → u = [] ∨ ∃ v, u = sym ++ v ∧ Pref (c :: cs) v := by
      rintro u (h | h | h)
      · exact Or.inl h
      · exact Or.inr ⟨[], by simp [h], Pref.nil _⟩
      · exact Or.inr ⟨c, h, hc⟩
    rw [bsGo_cons] at h
    have hacc := bsGo_acc T cs (bsStep T c sym b []).1 (bsStep T c sym b []).2.1
      (bsStep T c sym b []).2.2 []
    rw [List.append_nil] at hacc
    rw [hacc, pref_append] at h
    rcases h with h | ⟨v, hv, h⟩
    · exact fin u (hE u h)
    · rcases ih _ _ (bsStep_inv T c sym b [] hb) v h with h | ⟨v', hv', h⟩
      · subst h
        rw [List.append_nil] at hv
        exact fin u (hE u (hv ▸ Pref.full _))
      · right
        refine ⟨c ++ v', ?_, ?_⟩
        · rw [hv, hv', ← List.append_assoc, hfl, List.append_assoc]
        · rw [pref_cons]; exact Or.inr ⟨v', rfl, h⟩

theorem combineBackslash_pref (l : List Str) (u : Str) (h : Pref (combineBackslash T l) u) :
    Pref l u := by
  rcases bsGo_pref T l [] false (fun _ => rfl) u h with h | ⟨v, hv, h⟩
  · subst h; exact Pref.nil _
  · rw [hv]; exact h

/-! ### the splitting passes add boundaries only behind quote-free prefixes -/

theorem filter_ne_nil_pref (l : List Str) (u : Str) (h : Pref (l.filter (· ≠ [])) u) : Pref l u := by
  induction l generalizing u with
  | nil => exact h
  | cons a l ih =>
    by_cases ha : a = []
    · subst ha
      simp only [ne_eq, not_true_eq_false, decide_false, Bool.false_eq_true, not_false_eq_true,
        List.filter_cons_of_neg] at h
      rw [pref_cons]; right
      exact ⟨u, rfl, ih u h⟩
    · rw [List.filter_cons_of_pos (by simpa using ha), pref_cons] at h
      rw [pref_cons]
      rcases h with h | ⟨v, hv, h⟩
      · exact Or.inl h
      · exact Or.inr ⟨v, hv, ih v h⟩

theorem splitIndex_digits (s : Str) (k i : Nat) (h : splitIndex T s k = some i) :
    k ≤ i ∧ ∀ c ∈ s.take (i - k), T.isDigit c = true := by
  induction s generalizing k with
  | nil => cases h
  | cons a s ih =>
    simp only [splitIndex] at h
    split at h
    · injection h with h; subst h; simp
    · rename_i ha
      obtain ⟨h1, h2⟩ := ih (k + 1) h
      refine ⟨by omega, ?_⟩
      have : i - k = (i - (k + 1)) + 1 := by omega
      rw [this, List.take_succ_cons]
      intro c hc
      rcases List.mem_cons.1 hc with e | hc
      · subst e; simpa using ha
      · exact h2 c hc

theorem parseBitString_pref (hqd : T.isDigit '"' = false) (s : Str)
    (hne : splitIndex T s 0 ≠ none) (v : Str) (h : Pref (parseBitString T s) v) :
    v = s ∨ '"' ∉ v := by
  unfold parseBitString at h
  simp only at h
  have h := filter_ne_nil_pref _ _ h
  split at h
  · rename_i i hi
    have hd := (splitIndex_digits T s 0 i hi).2
    simp only [pref_cons, pref_nil_iff] at h
    rcases h with h | ⟨v1, hv1, h | ⟨v2, hv2, h⟩⟩
    · right; subst h; simp
    · right
      subst h
      rw [hv1, List.append_nil]
      intro hm
      have := hd _ hm
      rw [hqd] at this; cases this
    · left
      subst h
      rw [hv1, hv2, List.append_nil, List.take_append_drop]
  · rename_i hn; exact absurd hn hne

theorem splitBitStrings_pref (hbd : ∀ c, T.lowerBoxd c = true → T.isDigit c = false)
    (hqd : T.isDigit '"' = false) (l : List Str) (u : Str) (h : Pref (splitBitStrings T l) u) :
    ∃ u₀ v, u = u₀ ++ v ∧ Pref l u₀ ∧ '"' ∉ v := by
  fun_induction splitBitStrings T l generalizing u with
  | case1 => exact ⟨u, [], by simp, h, by simp⟩
  | case2 s => exact ⟨u, [], by simp, h, by simp⟩
  | case3 s n rest ih =>
    rw [pref_append] at h
    have hs : Pref (s :: n :: rest) s := by
      rw [pref_cons]; exact Or.inr ⟨[], by simp, Pref.nil _⟩
    split at h
    · rename_i hcond
      simp only [Bool.and_eq_true] at hcond
      have hne := endsBoxd_splitIndex T hbd s hcond.1
      rcases h with h | ⟨v, hv, h⟩
      · rcases parseBitString_pref T hqd s hne u h with e | e
        · exact ⟨s, [], by simp [e], hs, by simp⟩
        · exact ⟨[], u, rfl, Pref.nil _, e⟩
      · rw [parseBitString_flatten T s hne] at hv
        obtain ⟨u₀, v', e1, e2, e3⟩ := ih v h
        refine ⟨s ++ u₀, v', by rw [hv, e1, List.append_assoc], ?_, e3⟩
        rw [pref_cons]; exact Or.inr ⟨u₀, rfl, e2⟩
    · rcases h with h | ⟨v, hv, h⟩
      · rw [pref_singleton] at h
        rcases h with e | e
        · exact ⟨[], [], by simp [e], Pref.nil _, by simp⟩
        · exact ⟨s, [], by simp [e], hs, by simp⟩
      · simp only [List.flatten_cons, List.flatten_nil, List.append_nil] at hv
        obtain ⟨u₀, v', e1, e2, e3⟩ := ih v h
        refine ⟨s ++ u₀, v', by rw [hv, e1, List.append_assoc], ?_, e3⟩
        rw [pref_cons]; exact Or.inr ⟨u₀, rfl, e2⟩

/-! pass 8 -/

theorem pnGo_acc (cs tmp : Str) (p acc : List Str) :
    pnGo T cs tmp (p ++ acc) = p ++ pnGo T cs tmp acc := by
  induction cs generalizing tmp acc with
  | nil => simp only [pnGo]; split <;> simp
  | cons c cs ih =>
    simp only [pnGo]
    split
    · rw [← ih]; simp
    · exact ih _ _

theorem pnGo_pref (cs tmp v : Str) (h : Pref (pnGo T cs tmp []) v) :
    v = [] ∨ v = tmp ++ cs ∨ ∃ c1 e c2, cs = c1 ++ e :: c2 ∧ T.lowerIsE e = true ∧
      (v = tmp ++ c1 ∨ v = tmp ++ c1 ++ [e]) := by
  induction cs generalizing tmp v with
  | nil =>
    simp only [pnGo] at h
    split at h
    · simp only [List.nil_append, pref_singleton] at h
      rcases h with h | h
      · exact Or.inl h
      · exact Or.inr (Or.inl (by simp [h]))
    · rw [pref_nil_iff] at h; exact Or.inl h
  | cons c cs ih =>
    simp only [pnGo] at h
    split at h
    · rename_i hc
      have hacc := pnGo_acc T cs [] ([] ++ [tmp] ++ [[c]]) []
      rw [List.append_nil] at hacc
      rw [hacc, pref_append] at h
      rcases h with h | ⟨v', hv', h⟩
      · simp only [List.nil_append, List.singleton_append, pref_cons, pref_nil_iff] at h
        rcases h with h | ⟨v1, hv1, h | ⟨v2, hv2, h⟩⟩
        · exact Or.inl h
        · subst h
          exact Or.inr (Or.inr ⟨[], c, cs, rfl, hc, Or.inl (by simpa using hv1)⟩)
        · subst h
          exact Or.inr (Or.inr ⟨[], c, cs, rfl, hc, Or.inr (by rw [hv1, hv2]; simp)⟩)
      · have hfl : ([] ++ [tmp] ++ [[c]] : List Str).flatten = tmp ++ [c] := by simp
        rw [hfl] at hv'
        rcases ih [] v' h with h | h | ⟨c1, e, c2, h1, h2, h3⟩
        · subst h
          exact Or.inr (Or.inr ⟨[], c, cs, rfl, hc, Or.inr (by rw [hv']; simp)⟩)
        · subst h
          exact Or.inr (Or.inl (by rw [hv']; simp))
        · refine Or.inr (Or.inr ⟨c :: c1, e, c2, by rw [h1]; rfl, h2, ?_⟩)
          rcases h3 with h3 | h3
          · left; rw [hv', h3]; simp
          · right; rw [hv', h3]; simp
    · rcases ih (tmp ++ [c]) v h with h | h | ⟨c1, e, c2, h1, h2, h3⟩
      · exact Or.inl h
      · exact Or.inr (Or.inl (by rw [h]; simp))
      · refine Or.inr (Or.inr ⟨c :: c1, e, c2, by rw [h1]; rfl, h2, ?_⟩)
        rcases h3 with h3 | h3
        · left; rw [h3]; simp
        · right; rw [h3]; simp

theorem splitOnP_append (p : Char → Bool) (c1 : Str) (e : Char) (c2 cur : Str) (he : p e = true) :
    splitOnP p (c1 ++ e :: c2) cur = splitOnP p c1 cur ++ splitOnP p c2 [] := by
  induction c1 generalizing cur with
  | nil => simp [splitOnP, he]
  | cons c c1 ih =>
    simp only [List.cons_append, splitOnP]
    split
    · rw [ih]; rfl
    · exact ih _

theorem splitOnP_mem (p : Char → Bool) (cs cur : Str) (c : Char) (hc : c ∈ cs) :
    p c = true ∨ ∃ seg ∈ splitOnP p cs cur, c ∈ seg := by
  induction cs generalizing cur with
  | nil => cases hc
  | cons a cs ih =>
    simp only [splitOnP]
    by_cases ha : p a = true
    · rcases List.mem_cons.1 hc with e | hc
      · subst e; exact Or.inl ha
      · rcases ih [] hc with h | ⟨seg, h1, h2⟩
        · exact Or.inl h
        · right; rw [if_pos ha]; exact ⟨seg, List.mem_cons_of_mem _ h1, h2⟩
    · rw [if_neg ha]
      rcases List.mem_cons.1 hc with e | hc
      · subst e
        right
        -- the current segment, extended by `a`, is a prefix of the first segment
        have : ∀ (cs cur : Str), c ∈ cur → ∃ seg ∈ splitOnP p cs cur, c ∈ seg := by
          intro cs
          induction cs with
          | nil => intro cur h; exact ⟨cur, by simp [splitOnP], h⟩
          | cons b cs ih2 =>
            intro cur h
            simp only [splitOnP]
            split
            · exact ⟨cur, List.mem_cons_self .., h⟩
            · exact ih2 _ (List.mem_append_left _ h)
        exact this cs (cur ++ [c]) (by simp)
      · exact ih _ hc

theorem isNaturalNumber_prefix (hqL : T.isDigitL '"' = false) (hqE : T.lowerIsE '"' = false)
    (c1 : Str) (e : Char) (c2 : Str) (he : T.lowerIsE e = true)
    (h : isNaturalNumber T (c1 ++ e :: c2) = true) : '"' ∉ c1 := by
  unfold isNaturalNumber at h
  simp only at h
  rw [splitOnP_append _ c1 e c2 [] he] at h
  intro hm
  rcases splitOnP_mem T.lowerIsE c1 [] '"' hm with h1 | ⟨seg, hseg, hin⟩
  · rw [hqE] at h1; cases h1
  · cases hS1 : splitOnP T.lowerIsE c1 [] with
    | nil => exact absurd hS1 (splitOnP_ne_nil _ _ _)
    | cons h1 t1 =>
      rw [hS1] at h hseg
      simp only [List.cons_append, List.headD_cons, List.tail_cons] at h
      rw [← List.append_assoc, List.dropLast_append_of_ne_nil (splitOnP_ne_nil _ _ _),
        List.all_append, List.all_append, Bool.and_eq_true, Bool.and_eq_true] at h
      have hdig : ∀ sg : Str, segIsDigit T sg = true → '"' ∉ sg := by
        intro sg hsg hq
        simp only [segIsDigit, Bool.and_eq_true] at hsg
        have := List.all_eq_true.1 hsg.2 _ hq
        rw [hqL] at this; cases this
      rcases List.mem_cons.1 hseg with e1 | e1
      · subst e1
        rcases splitOnP_mem (· == '.') seg [] '"' hin with h2 | ⟨sg, hsg, hin2⟩
        · simp at h2
        · exact hdig sg (List.all_eq_true.1 h.1.1 sg hsg) hin2
      · exact hdig seg (List.all_eq_true.1 h.1.2 seg e1) hin

theorem splitNaturalNumbers_pref (hqL : T.isDigitL '"' = false) (hqE : T.lowerIsE '"' = false)
    (l : List Str) (u : Str) (h : Pref (splitNaturalNumbers T l) u) :
    ∃ u₀ v, u = u₀ ++ v ∧ Pref l u₀ ∧ '"' ∉ v := by
  induction l generalizing u with
  | nil => exact ⟨u, [], by simp, h, by simp⟩
  | cons s l ih =>
    have hs : Pref (s :: l) s := by
      rw [pref_cons]; exact Or.inr ⟨[], by simp, Pref.nil _⟩
    have hfl : (if isNaturalNumber T s = true then parseNaturalNumber T s else [s]).flatten = s := by
      split
      · simp [parseNaturalNumber, pnGo_flatten]
      · simp
    simp only [splitNaturalNumbers, List.flatMap_cons] at h
    rw [pref_append] at h
    rcases h with h | ⟨v, hv, h⟩
    · split at h
      · rename_i hnat
        rcases pnGo_pref T s [] u h with e | e | ⟨c1, e, c2, h1, h2, h3⟩
        · exact ⟨[], [], by simp [e], Pref.nil _, by simp⟩
        · exact ⟨s, [], by simp [e], hs, by simp⟩
        · rw [h1] at hnat
          have hq := isNaturalNumber_prefix T hqL hqE c1 e c2 h2 hnat
          refine ⟨[], u, rfl, Pref.nil _, ?_⟩
          rcases h3 with h3 | h3
          · rw [h3]; simpa using hq
          · rw [h3]
            simp only [List.nil_append, List.mem_append, List.mem_singleton, not_or]
            refine ⟨hq, ?_⟩
            intro e'; subst e'; rw [hqE] at h2; cases h2
      · rw [pref_singleton] at h
        rcases h with e | e
        · exact ⟨[], [], by simp [e], Pref.nil _, by simp⟩
        · exact ⟨s, [], by simp [e], hs, by simp⟩
    · rw [hfl] at hv
      obtain ⟨u₀, v', e1, e2, e3⟩ := ih v h
      refine ⟨s ++ u₀, v', by rw [hv, e1, List.append_assoc], ?_, e3⟩
      rw [pref_cons]; exact Or.inr ⟨u₀, rfl, e2⟩

/-! ### quote parity after pass 2 -/

/-- every token is the quote token or free of quotes -/
def Atomic (l : List Str) : Prop := ∀ t ∈ l, t = dq ∨ '"' ∉ t

theorem Atomic.append {a b : List Str} (ha : Atomic a) (hb : Atomic b) : Atomic (a ++ b) := by
  intro t ht
  rcases List.mem_append.1 ht with h | h
  · exact ha t h
  · exact hb t h

theorem atomic_single_char (c : Str) (h : c.length = 1) : Atomic [c] := by
  intro t ht
  rw [List.mem_singleton] at ht; subst ht
  match t, h with
  | [x], _ =>
    by_cases hx : x = '"'
    · left; subst hx; rfl
    · right; simpa using fun e => hx e.symm

theorem atomic_space (hq : T.isSpace '"' = false) (sp : Str) (hsp : sp.all T.isSpace = true) :
    Atomic [sp] := by
  intro t ht
  rw [List.mem_singleton] at ht; subst ht
  right
  intro hm
  have := List.all_eq_true.1 hsp _ hm
  rw [hq] at this; cases this

theorem cwGo_atomic (hq : T.isSpace '"' = false) (cs : List Str) (hcs : ∀ c ∈ cs, c.length = 1)
    (sp : Str) (hsp : sp.all T.isSpace = true) (acc : List Str) (hacc : Atomic acc) :
    Atomic (cwGo T cs sp acc) := by
  induction cs generalizing sp acc with
  | nil => exact hacc.append (atomic_space T hq sp hsp)
  | cons c cs ih =>
    have hcs' : ∀ c ∈ cs, c.length = 1 := fun d hd => hcs d (List.mem_cons_of_mem _ hd)
    have hc1 := atomic_single_char c (hcs c (List.mem_cons_self ..))
    simp only [cwGo]
    split
    · rename_i hc
      exact ih hcs' _ (by simp [List.all_append, hsp, strIsSpace_all T hc]) _ hacc
    · split
      · exact ih hcs' [] (by rfl) _ ((hacc.append (atomic_space T hq sp hsp)).append hc1)
      · exact ih hcs' sp hsp _ (hacc.append hc1)

theorem combineWhitespace_atomic (hq : T.isSpace '"' = false) (s : Str) :
    Atomic (combineWhitespace T (toChars s)) := by
  apply cwGo_atomic T hq _ _ [] (by rfl) [] (by intro t ht; cases ht)
  intro c hc
  simp only [toChars, List.mem_map] at hc
  obtain ⟨x, _, e⟩ := hc
  subst e; rfl

theorem atomic_count (l : List Str) (h : Atomic l) : l.flatten.count '"' = l.count dq := by
  induction l with
  | nil => rfl
  | cons t l ih =>
    have ih := ih (fun x hx => h x (List.mem_cons_of_mem _ hx))
    rw [List.flatten_cons, List.count_append, ih, List.count_cons]
    rcases h t (List.mem_cons_self ..) with e | e
    · subst e; simp [dq]; omega
    · have hne : t ≠ dq := by intro e'; subst e'; simp [dq] at e
      rw [List.count_eq_zero.2 e]
      simp [hne]

theorem atomic_no_quote (l : List Str) (h : Atomic l) (hz : l.count dq = 0) : '"' ∉ l.flatten := by
  rw [← List.count_eq_zero, atomic_count l h, hz]

/-- a list with at most one quote token has the parity property -/
theorem atomic_QB_le_one (l : List Str) (h : Atomic l) (h1 : l.count dq ≤ 1) : QB l := by
  intro p q e
  have hp : Atomic p := fun t ht => h t (by rw [e]; exact List.mem_append_left _ ht)
  have hq : Atomic q := fun t ht => h t (by rw [e]; exact List.mem_append_right _ ht)
  rw [e, List.count_append] at h1
  rw [atomic_count p hp]
  by_cases hz : p.count dq = 0
  · left; rw [hz]
  · right; exact atomic_no_quote q hq (by omega)

/-- combine_quote_pairs to the left of a tail the pairs do not reach -/
theorem cqp_left (ps : List (Nat × Nat)) (X R : List Str)
    (hord : ps.Pairwise (fun p q => q.2 ≤ p.1)) (hle : ∀ p ∈ ps, p.1 ≤ p.2)
    (hk : ∀ p ∈ ps, p.2 < X.length) :
    combineQuotePairs ps (X ++ R) = combineQuotePairs ps X ++ R := by
  induction ps generalizing X with
  | nil => rfl
  | cons p ps ih =>
    have hp := hle p (List.mem_cons_self ..)
    have hc := List.pairwise_cons.1 hord
    simp only [combineQuotePairs, List.foldl_cons]
    rw [joinPair_left X R p hp (hk p (List.mem_cons_self ..))]
    apply ih (joinPair X p) hc.2 (fun q hq => hle q (List.mem_cons_of_mem _ hq))
    intro q hq
    have h1 := hc.1 q hq
    have h2 := joinPair_length X p (by have := hk p (List.mem_cons_self ..); omega)
    omega

/-- combine_quote_pairs to the right of a head the pairs lie behind -/
theorem cqp_right (ps : List (Nat × Nat)) (X Y : List Str) (hle : ∀ p ∈ ps, p.1 ≤ p.2) :
    combineQuotePairs (ps.map fun p => (p.1 + X.length, p.2 + X.length)) (X ++ Y)
      = X ++ combineQuotePairs ps Y := by
  induction ps generalizing Y with
  | nil => rfl
  | cons p ps ih =>
    simp only [List.map_cons, combineQuotePairs, List.foldl_cons]
    have := joinPair_right X Y (p.1 + X.length, p.2 + X.length)
      (by have := hle p (List.mem_cons_self ..); simp only; omega) (by simp)
    simp only [Nat.add_sub_cancel] at this
    rw [this]
    exact ih (joinPair Y p) (fun q hq => hle q (List.mem_cons_of_mem _ hq))

theorem indexesOf_shift (v : Str) (l : List Str) (i k : Nat) :
    indexesOf v l (i + k) = (indexesOf v l i).map (· + k) := by
  induction l generalizing i with
  | nil => rfl
  | cons t ts ih =>
    simp only [indexesOf]
    have : i + k + 1 = (i + 1) + k := by omega
    split
    · rw [this, ih]; rfl
    · rw [this, ih]

theorem pairUp_map (qs : List Nat) (k : Nat) :
    pairUp (qs.map (· + k)) = (pairUp qs).map fun p => (p.1 + k, p.2 + k) := by
  fun_induction pairUp qs with
  | case1 a b rest ih => simp [pairUp, ih]
  | case2 l hl =>
    cases l with
    | nil => rfl
    | cons a l =>
      cases l with
      | nil => rfl
      | cons b l => exact absurd rfl (hl a b l)

theorem combineStringLiterals_append (X Y : List Str) (heven : X.count dq % 2 = 0) :
    combineStringLiterals (X ++ Y) = combineStringLiterals X ++ combineStringLiterals Y := by
  unfold combineStringLiterals
  have hidx : indexesOf dq (X ++ Y) 0 = indexesOf dq X 0 ++ (indexesOf dq Y 0).map (· + X.length) := by
    rw [indexesOf_append, Nat.zero_add]
    have := indexesOf_shift dq Y 0 X.length
    rw [Nat.zero_add] at this
    rw [this]
  rw [hidx, pairUp_append_even _ _ (by rw [indexesOf_length]; exact heven), List.reverse_append,
    pairUp_map, ← List.map_reverse]
  unfold combineQuotePairs
  rw [List.foldl_append]
  have h1 := cqp_right (pairUp (indexesOf dq Y 0)).reverse X Y (by
    intro p hp
    have := pairUp_lt _ (indexesOf_sorted dq Y 0) p (List.mem_reverse.1 hp)
    omega)
  unfold combineQuotePairs at h1
  rw [h1]
  have h2 := cqp_left (pairUp (indexesOf dq X 0)).reverse X
    (List.foldl joinPair Y (pairUp (indexesOf dq Y 0)).reverse)
    (by
      rw [List.pairwise_reverse]
      exact pairUp_pairwise _ (indexesOf_sorted dq X 0))
    (by
      intro p hp
      have := pairUp_lt _ (indexesOf_sorted dq X 0) p (List.mem_reverse.1 hp)
      omega)
    (by
      intro p hp
      have := indexesOf_range dq X 0 p.2 (pairUp_mem _ p (List.mem_reverse.1 hp)).2
      omega)
  unfold combineQuotePairs at h2
  exact h2

theorem indexesOf_nil_of_count (v : Str) (l : List Str) (i : Nat) (h : l.count v = 0) :
    indexesOf v l i = [] :=
  List.eq_nil_of_length_eq_zero (by rw [indexesOf_length]; exact h)

theorem combineStringLiterals_le_one (l : List Str) (h : l.count dq ≤ 1) :
    combineStringLiterals l = l := by
  unfold combineStringLiterals
  have hl := indexesOf_length dq l 0
  cases hi : indexesOf dq l 0 with
  | nil => rfl
  | cons a t =>
    cases t with
    | nil => rfl
    | cons b t => rw [hi] at hl; simp only [List.length_cons] at hl; omega

theorem combineStringLiterals_one_pair (v : List Str) (h : v.count dq = 0) :
    combineStringLiterals (dq :: v ++ [dq]) = [(dq :: v ++ [dq]).flatten] := by
  unfold combineStringLiterals
  have hi : indexesOf dq (dq :: v ++ [dq]) 0 = [0, 1 + v.length] := by
    have : dq :: v ++ [dq] = [dq] ++ (v ++ [dq]) := rfl
    rw [this, indexesOf_append, indexesOf_append, indexesOf_nil_of_count dq v _ h]
    simp [indexesOf]
  rw [hi]
  simp only [pairUp, List.reverse_cons, List.reverse_nil, List.nil_append, combineQuotePairs,
    List.foldl_cons, List.foldl_nil, joinPair]
  have hlen : (dq :: v ++ [dq]).length = 1 + v.length + 1 := by simp; omega
  rw [List.take_zero, List.drop_zero, List.nil_append, Nat.sub_zero,
    List.take_of_length_le (by omega), List.drop_of_length_le (by omega)]
  simp

theorem pref_mem_flatten (l : List Str) (u : Str) (h : Pref l u) (c : Char) (hc : c ∈ u) :
    c ∈ l.flatten := by
  obtain ⟨p, q, e, hu⟩ := h
  rw [e, List.flatten_append, hu]
  exact List.mem_append_left _ hc

theorem QB.append_even {A B : List Str}
    (hA : ∀ w, Pref A w → w.count '"' % 2 = 0) (hB : QB B) : QB (A ++ B) := by
  intro p q e
  rcases List.append_eq_append_iff.1 e with ⟨a', h1, h2⟩ | ⟨c', h1, h2⟩
  · rcases hB a' q h2 with h | h
    · left
      rw [h1, List.flatten_append, List.count_append]
      have := hA A.flatten (Pref.full A)
      omega
    · exact Or.inr h
  · left
    exact hA p.flatten ⟨p, c', h1, rfl⟩

theorem combineStringLiterals_QB (l : List Str) (h : Atomic l) : QB (combineStringLiterals l) := by
  obtain ⟨k, hk⟩ : ∃ k, l.length ≤ k := ⟨_, Nat.le_refl _⟩
  induction k generalizing l with
  | zero =>
    have : l = [] := List.eq_nil_of_length_eq_zero (by omega)
    subst this
    rw [combineStringLiterals_le_one [] (by simp)]
    exact atomic_QB_le_one [] h (by simp)
  | succ k ih =>
    by_cases h1 : l.count dq ≤ 1
    · rw [combineStringLiterals_le_one l h1]
      exact atomic_QB_le_one l h h1
    · have hm : dq ∈ l := List.count_pos_iff.1 (by omega)
      obtain ⟨u, r₁, e1, hu⟩ := List.eq_append_cons_of_mem hm
      have hu0 : u.count dq = 0 := List.count_eq_zero.2 hu
      have hr1 : 1 ≤ r₁.count dq := by
        rw [e1, List.count_append, List.count_cons_self, hu0] at h1; omega
      obtain ⟨v, r, e2, hv⟩ := List.eq_append_cons_of_mem (List.count_pos_iff.1 hr1)
      have hv0 : v.count dq = 0 := List.count_eq_zero.2 hv
      have el : l = (u ++ (dq :: v ++ [dq])) ++ r := by rw [e1, e2]; simp
      have hAu : Atomic u := fun t ht => h t (by rw [el]; simp [ht])
      have hAv : Atomic v := fun t ht => h t (by rw [el]; simp [ht])
      have hAr : Atomic r := fun t ht => h t (by rw [el]; simp [ht])
      have hlen : r.length ≤ k := by
        have := congrArg List.length el
        simp only [List.length_append, List.length_cons, List.length_nil] at this
        omega
      have hX : (u ++ (dq :: v ++ [dq])).count dq % 2 = 0 := by
        simp [List.count_append, hu0, hv0]
      rw [el, combineStringLiterals_append _ _ hX,
        combineStringLiterals_append u _ (by rw [hu0]),
        combineStringLiterals_le_one u (by omega), combineStringLiterals_one_pair v hv0]
      apply QB.append_even _ (ih r hAr hlen)
      intro w hw
      have hqu : '"' ∉ u.flatten := atomic_no_quote u hAu hu0
      have hqv : '"' ∉ v.flatten := atomic_no_quote v hAv hv0
      rw [pref_append] at hw
      rcases hw with hw | ⟨w', hw', hw⟩
      · rw [List.count_eq_zero.2 (fun hc => hqu (pref_mem_flatten u w hw _ hc))]
      · rw [pref_singleton] at hw
        rcases hw with e | e
        · subst e
          rw [hw', List.append_nil, List.count_eq_zero.2 hqu]
        · subst e
          rw [hw', List.count_append, List.count_eq_zero.2 hqu]
          simp [dq, List.count_append, List.count_eq_zero.2 hqv]

/-! ### the shape of a token that contains whitespace -/

/-- a token is empty, free of whitespace, all whitespace, or starts with `"`, `\` or `'` -/
def Sh (t : Str) : Prop :=
  t = [] ∨ (∀ c ∈ t, T.isSpace c = false) ∨ strIsSpace T t = true ∨
    t.head? = some '"' ∨ t.head? = some '\\' ∨ t.head? = some '\''

def ShL (l : List Str) : Prop := ∀ t ∈ l, Sh T t

theorem ShL.append {T : LexTables} {a b : List Str} (ha : ShL T a) (hb : ShL T b) :
    ShL T (a ++ b) := by
  intro t ht
  rcases List.mem_append.1 ht with h | h
  · exact ha t h
  · exact hb t h

theorem shL_nil : ShL T [] := by intro t ht; cases ht

theorem shL_single {t : Str} (h : Sh T t) : ShL T [t] := by
  intro x hx; rw [List.mem_singleton] at hx; subst hx; exact h

theorem sh_allSpace (sp : Str) (hsp : sp.all T.isSpace = true) : Sh T sp := by
  cases sp with
  | nil => exact Or.inl rfl
  | cons x xs => right; right; left; simp [strIsSpace, hsp]

theorem sh_noSpace (t : Str) (h : ∀ c ∈ t, T.isSpace c = false) : Sh T t := Or.inr (Or.inl h)

theorem sh_single_char (c : Str) (h : c.length = 1) : Sh T c := by
  match c, h with
  | [x], _ =>
    by_cases hx : T.isSpace x = true
    · exact sh_allSpace T [x] (by simp [hx])
    · exact sh_noSpace T [x] (by simpa using hx)

/-- pass 1 -/
theorem cwGo_shape (cs : List Str) (hcs : ∀ c ∈ cs, c.length = 1)
    (sp : Str) (hsp : sp.all T.isSpace = true) (acc : List Str) (hacc : ShL T acc) :
    ShL T (cwGo T cs sp acc) := by
  induction cs generalizing sp acc with
  | nil => exact hacc.append (shL_single T (sh_allSpace T sp hsp))
  | cons c cs ih =>
    have hcs' : ∀ c ∈ cs, c.length = 1 := fun d hd => hcs d (List.mem_cons_of_mem _ hd)
    have hc1 := shL_single T (sh_single_char T c (hcs c (List.mem_cons_self ..)))
    simp only [cwGo]
    split
    · rename_i hc
      exact ih hcs' _ (by simp [List.all_append, hsp, strIsSpace_all T hc]) _ hacc
    · split
      · exact ih hcs' [] (by rfl) _ ((hacc.append (shL_single T (sh_allSpace T sp hsp))).append hc1)
      · exact ih hcs' sp hsp _ (hacc.append hc1)

theorem combineWhitespace_shape (s : Str) : ShL T (combineWhitespace T (toChars s)) := by
  apply cwGo_shape T _ _ [] (by rfl) [] (shL_nil T)
  intro c hc
  simp only [toChars, List.mem_map] at hc
  obtain ⟨x, _, e⟩ := hc
  subst e; rfl

/-- combine_quote_pairs: every joined slice starts with a token that starts with `c` -/
def StartsAt (l : List Str) (i : Nat) (c : Char) : Prop := ∃ t, l[i]? = some t ∧ t.head? = some c

theorem joinPair_shape (l : List Str) (p : Nat × Nat) (c : Char)
    (hc : c = '"' ∨ c = '\\' ∨ c = '\'') (hl : ShL T l) (hp : p.1 ≤ p.2)
    (hs : StartsAt l p.1 c) : ShL T (joinPair l p) := by
  unfold joinPair
  have h1 : ShL T (l.take p.1) := fun t ht => hl t (List.mem_of_mem_take ht)
  have h3 : ShL T (l.drop (p.2 + 1)) := fun t ht => hl t (List.mem_of_mem_drop ht)
  refine (h1.append (shL_single T ?_)).append h3
  obtain ⟨t, ht, hh⟩ := hs
  have hlt : p.1 < l.length := by
    rcases Nat.lt_or_ge p.1 l.length with h | h
    · exact h
    · rw [List.getElem?_eq_none h] at ht; cases ht
  have e : (l.drop p.1).take (p.2 + 1 - p.1) = t :: ((l.drop (p.1 + 1)).take (p.2 - p.1)) := by
    have h1 : l.drop p.1 = t :: l.drop (p.1 + 1) := by
      rw [List.drop_eq_getElem_cons hlt]
      congr 1
      have := List.getElem?_eq_getElem hlt
      rw [this] at ht; exact Option.some.inj ht
    have h2 : p.2 + 1 - p.1 = (p.2 - p.1) + 1 := by omega
    rw [h1, h2, List.take_succ_cons]
  rw [e, List.flatten_cons]
  have hhead : (t ++ ((l.drop (p.1 + 1)).take (p.2 - p.1)).flatten).head? = some c := by
    cases t with
    | nil => cases hh
    | cons x xs => simpa using hh
  rcases hc with h | h | h <;> subst h
  · exact Or.inr (Or.inr (Or.inr (Or.inl hhead)))
  · exact Or.inr (Or.inr (Or.inr (Or.inr (Or.inl hhead))))
  · exact Or.inr (Or.inr (Or.inr (Or.inr (Or.inr hhead))))

theorem joinPair_startsAt (l : List Str) (p : Nat × Nat) (i : Nat) (c : Char) (hi : i < p.1)
    (hs : StartsAt l i c) : StartsAt (joinPair l p) i c := by
  obtain ⟨t, ht, hh⟩ := hs
  refine ⟨t, ?_, hh⟩
  have hlt : i < l.length := by
    rcases Nat.lt_or_ge i l.length with h | h
    · exact h
    · rw [List.getElem?_eq_none h] at ht; cases ht
  unfold joinPair
  rw [List.append_assoc, List.getElem?_append_left (by simp only [List.length_take]; omega),
    List.getElem?_take_of_lt hi]
  exact ht

theorem combineQuotePairs_shape (ps : List (Nat × Nat)) (l : List Str) (c : Char)
    (hc : c = '"' ∨ c = '\\' ∨ c = '\'') (hl : ShL T l)
    (hord : ps.Pairwise (fun p q => q.1 < p.1)) (hle : ∀ p ∈ ps, p.1 ≤ p.2)
    (hs : ∀ p ∈ ps, StartsAt l p.1 c) : ShL T (combineQuotePairs ps l) := by
  induction ps generalizing l with
  | nil => exact hl
  | cons p ps ih =>
    have hcns := List.pairwise_cons.1 hord
    simp only [combineQuotePairs, List.foldl_cons]
    apply ih (joinPair l p)
      (joinPair_shape T l p c hc hl (hle p (List.mem_cons_self ..)) (hs p (List.mem_cons_self ..)))
      hcns.2 (fun q hq => hle q (List.mem_cons_of_mem _ hq))
    intro q hq
    exact joinPair_startsAt l p q.1 c (hcns.1 q hq) (hs q (List.mem_cons_of_mem _ hq))

theorem shL_append_iff (a b : List Str) : ShL T (a ++ b) ↔ ShL T a ∧ ShL T b := by
  constructor
  · intro h
    exact ⟨fun t ht => h t (List.mem_append_left _ ht), fun t ht => h t (List.mem_append_right _ ht)⟩
  · intro h; exact h.1.append h.2

theorem shL_singleton_iff (t : Str) : ShL T [t] ↔ Sh T t := by
  constructor
  · intro h; exact h t (List.mem_singleton.2 rfl)
  · exact shL_single T

theorem shL_cons_iff (t : Str) (l : List Str) : ShL T (t :: l) ↔ Sh T t ∧ ShL T l := by
  have := shL_append_iff T [t] l
  rw [shL_singleton_iff] at this
  exact this

/-- pass 2 -/
theorem combineStringLiterals_shape (l : List Str) (hl : ShL T l) :
    ShL T (combineStringLiterals l) := by
  unfold combineStringLiterals
  have hsorted := indexesOf_sorted dq l 0
  apply combineQuotePairs_shape T _ l '"' (Or.inl rfl) hl
  · rw [List.pairwise_reverse]
    refine List.Pairwise.imp_of_mem ?_ (pairUp_pairwise _ hsorted)
    intro p q hp _ h
    have := pairUp_lt _ hsorted p hp
    omega
  · intro p hp
    have := pairUp_lt _ hsorted p (List.mem_reverse.1 hp)
    omega
  · intro p hp
    have h1 := (pairUp_mem _ p (List.mem_reverse.1 hp)).1
    have := indexesOf_get dq l 0 p.1 h1
    exact ⟨dq, by simpa using this, rfl⟩

/-- pass 7 -/
theorem combineCharLiterals_shape (l : List Str) (hl : ShL T l) :
    ShL T (combineCharLiterals l) := by
  unfold combineCharLiterals
  simp only
  split
  · exact hl
  · have hsorted := indexesOf_sorted sq l 0
    have hsub := filterCandidates_sublist (candidates l (indexesOf sq l 0))
    apply combineQuotePairs_shape T _ l '\'' (Or.inr (Or.inr rfl)) hl
    · rw [List.pairwise_reverse]
      refine List.Pairwise.imp_of_mem ?_ ((candidates_pairwise l _ hsorted).sublist hsub)
      intro p q hp _ h
      have := (candidates_mem l _ p (hsub.subset hp)).2.2.1
      omega
    · intro p hp
      have := (candidates_mem l _ p (hsub.subset (List.mem_reverse.1 hp))).2.2.1
      omega
    · intro p hp
      have h1 := (candidates_mem l _ p (hsub.subset (List.mem_reverse.1 hp))).1
      have := indexesOf_get sq l 0 p.1 h1
      exact ⟨sq, by simpa using this, rfl⟩

/-- pass 3 -/
theorem bsStep_shape2 (c sym : Str) (b : Bool) (acc : List Str) (hc : Sh T c) (hacc : ShL T acc)
    (hb1 : b = false → sym = []) (hb2 : b = true → sym.head? = some '\\') :
    ShL T (bsStep T c sym b acc).2.2 ∧
      ((bsStep T c sym b acc).2.1 = true → (bsStep T c sym b acc).1.head? = some '\\') := by
  have hsym : b = true → Sh T sym := fun h => Or.inr (Or.inr (Or.inr (Or.inr (Or.inl (hb2 h)))))
  have hhead : ∀ x : Str, sym.head? = some '\\' → (sym ++ x).head? = some '\\' := by
    intro x h
    cases sym with
    | nil => cases h
    | cons y ys => simpa using h
  unfold bsStep
  by_cases hstop : stopCharFound T c b = true <;> by_cases hcb : c = ['\\'] <;> cases b <;>
    simp_all [shL_append_iff, shL_cons_iff, shL_nil, stopCharFound]

theorem bsGo_shape (cs : List Str) (sym : Str) (b : Bool) (acc : List Str) (hcs : ShL T cs)
    (hacc : ShL T acc) (hb1 : b = false → sym = []) (hb2 : b = true → sym.head? = some '\\') :
    ShL T (bsGo T cs sym b acc) := by
  induction cs generalizing sym b acc with
  | nil =>
    simp only [bsGo]
    split
    · rename_i hlen
      refine hacc.append (shL_single T ?_)
      cases b with
      | false => rw [hb1 rfl] at hlen; simp at hlen
      | true => exact Or.inr (Or.inr (Or.inr (Or.inr (Or.inl (hb2 rfl)))))
    · exact hacc
  | cons c cs ih =>
    rw [bsGo_cons]
    have h := bsStep_shape2 T c sym b acc (hcs c (List.mem_cons_self ..)) hacc hb1 hb2
    exact ih _ _ _ (fun t ht => hcs t (List.mem_cons_of_mem _ ht)) h.1
      (bsStep_inv T c sym b acc hb1) h.2

theorem combineBackslash_shape (l : List Str) (hl : ShL T l) : ShL T (combineBackslash T l) :=
  bsGo_shape T l [] false [] hl (shL_nil T) (fun _ => rfl) (fun h => by cases h)

/-- passes 4, 5 -/
theorem combN_shape (n : Nat) (syms : List Str) (hs : ∀ s ∈ syms, ∀ c ∈ s, T.isSpace c = false)
    (l : List Str) (hl : ShL T l) : ShL T (combN n syms l) := by
  fun_induction combN n syms l with
  | case1 => exact hl
  | case2 a rest chunk hin ih =>
    intro t ht
    rcases List.mem_cons.1 ht with e | ht
    · subst e; exact sh_noSpace T _ (hs _ hin)
    · exact ih (fun x hx => hl x (List.mem_of_mem_drop hx)) t ht
  | case3 a rest chunk hin ih =>
    intro t ht
    rcases List.mem_cons.1 ht with e | ht
    · subst e; exact hl _ (List.mem_cons_self ..)
    · exact ih (fun x hx => hl x (List.mem_cons_of_mem _ hx)) t ht

/-- pass 6 -/
theorem partOfWord_noSpace (c : Str) (h : partOfWord T c = true) : ∀ x ∈ c, T.isSpace x = false := by
  unfold partOfWord at h
  split at h
  · cases h
  · split at h
    · cases h
    · rename_i h1 h2
      match c, h1, h2 with
      | [], _, _ => intro x hx; cases hx
      | [y], _, h2 =>
        intro x hx
        rw [List.mem_singleton] at hx; subst hx
        simpa [strIsSpace] using h2
      | _ :: _ :: _, h1, _ => simp at h1

theorem cwordsGo_shape (cs : List Str) (tmp : Str) (acc : List Str) (hcs : ShL T cs)
    (hacc : ShL T acc) (htmp : ∀ x ∈ tmp, T.isSpace x = false) : ShL T (cwordsGo T cs tmp acc) := by
  induction cs generalizing tmp acc with
  | nil =>
    simp only [cwordsGo]
    split
    · exact hacc.append (shL_single T (sh_noSpace T tmp htmp))
    · exact hacc
  | cons c cs ih =>
    have hcs' : ShL T cs := fun t ht => hcs t (List.mem_cons_of_mem _ ht)
    simp only [cwordsGo]
    split
    · rename_i hp
      apply ih _ _ hcs' hacc
      intro x hx
      rcases List.mem_append.1 hx with h | h
      · exact htmp x h
      · exact partOfWord_noSpace T c hp x h
    · apply ih _ _ hcs' _ (by intro x hx; cases hx)
      refine ShL.append ?_ (shL_single T (hcs c (List.mem_cons_self ..)))
      split
      · exact hacc.append (shL_single T (sh_noSpace T tmp htmp))
      · exact hacc

theorem combineWords_shape (l : List Str) (hl : ShL T l) : ShL T (combineWords T l) :=
  cwordsGo_shape T l [] [] hl (shL_nil T) (by intro x hx; cases hx)

/-! ### a whitespace token of the output is a token before the splitting passes -/

/-- `w` is a token of `l` and `u` is what stands before it -/
def TokAt (l : List Str) (u w : Str) : Prop := ∃ p q, l = p ++ [w] ++ q ∧ p.flatten = u

theorem TokAt.pref {l : List Str} {u w : Str} (h : TokAt l u w) : Pref l u := by
  obtain ⟨p, q, e, hu⟩ := h
  exact ⟨p, [w] ++ q, by rw [e, List.append_assoc], hu⟩

theorem TokAt.mem {l : List Str} {u w : Str} (h : TokAt l u w) : w ∈ l := by
  obtain ⟨p, q, e, hu⟩ := h
  rw [e]; simp

theorem tokAt_append (l r : List Str) (u w : Str) :
    TokAt (l ++ r) u w ↔ TokAt l u w ∨ ∃ v, u = l.flatten ++ v ∧ TokAt r v w := by
  constructor
  · rintro ⟨p, q, h, hu⟩
    rw [List.append_assoc, List.append_eq_append_iff] at h
    rcases h with ⟨a', h1, h2⟩ | ⟨c', h1, h2⟩
    · right
      refine ⟨a'.flatten, by rw [← hu, h1, List.flatten_append], a', q, ?_, rfl⟩
      rw [h2, List.append_assoc]
    · cases c' with
      | nil =>
        right
        simp only [List.append_nil] at h1
        simp only [List.nil_append] at h2
        exact ⟨[], by rw [← hu, h1]; simp, [], q, by rw [← h2]; rfl, rfl⟩
      | cons x c'' =>
        left
        simp only [List.cons_append, List.cons.injEq] at h2
        refine ⟨p, c'', ?_, hu⟩
        rw [h1, h2.1]; simp
  · rintro (⟨p, q, h, hu⟩ | ⟨v, hv, p, q, h, hu⟩)
    · exact ⟨p, q ++ r, by rw [h]; simp, hu⟩
    · exact ⟨l ++ p, q, by rw [h]; simp, by rw [hv, List.flatten_append, hu]⟩

theorem tokAt_cons_of (x : Str) (r : List Str) (v w : Str) (h : TokAt r v w) :
    TokAt (x :: r) (x ++ v) w := by
  have := (tokAt_append [x] r (x ++ v) w).2 (Or.inr ⟨v, by simp, h⟩)
  simpa using this

theorem tokAt_head (w : Str) (r : List Str) : TokAt (w :: r) [] w := ⟨[], r, rfl, rfl⟩

theorem tokAt_singleton (s u w : Str) (h : TokAt [s] u w) : u = [] ∧ s = w := by
  obtain ⟨p, q, e, hu⟩ := h
  cases p with
  | nil =>
    simp only [List.nil_append, List.singleton_append, List.cons.injEq] at e
    exact ⟨hu.symm, e.1⟩
  | cons y p' =>
    have := congrArg List.length e
    simp at this

/-- pass 9 -/
theorem splitBitStrings_tokAt (hbd : ∀ c, T.lowerBoxd c = true → T.isDigit c = false)
    (hB : ∀ c, T.isSpace c = true → T.lowerBoxd c = false)
    (hD : ∀ c, T.isSpace c = true → T.isDigit c = false)
    (l : List Str) (u w : Str) (hw : strIsSpace T w = true)
    (h : TokAt (splitBitStrings T l) u w) : TokAt l u w := by
  fun_induction splitBitStrings T l generalizing u with
  | case1 => exact h
  | case2 s => exact h
  | case3 s n rest ih =>
    rw [tokAt_append] at h
    rcases h with h | ⟨v, hv, h⟩
    · split at h
      · rename_i hcond
        exfalso
        simp only [Bool.and_eq_true] at hcond
        have hm := h.mem
        unfold parseBitString at hm
        simp only [List.mem_filter] at hm
        have hwne := strIsSpace_ne_nil T w hw
        obtain ⟨c, hc, hsp⟩ := strIsSpace_exists T hw
        split at hm
        · rename_i i hi
          have hd := (splitIndex_digits T s 0 i hi).2
          simp only [List.mem_cons, List.not_mem_nil, or_false] at hm
          rcases hm.1 with e | e
          · have := hd c (by rw [Nat.sub_zero, ← e]; exact hc)
            rw [hD c hsp] at this; cases this
          · have hlast : s.getLast? = w.getLast? := by
              rw [e, List.getLast?_drop]
              split
              · rename_i hle
                rw [e, List.drop_of_length_le hle] at hwne
                exact absurd rfl hwne
              · rfl
            have h1 := hcond.1
            unfold endsBoxd at h1
            rw [hlast] at h1
            have h2 := strIsSpace_endsBoxd T hB w hw
            unfold endsBoxd at h2
            rw [h2] at h1; cases h1
        · simp only [List.mem_cons, List.not_mem_nil, or_false, or_self] at hm
          have h1 := hcond.1
          rw [← hm.1, strIsSpace_endsBoxd T hB w hw] at h1; cases h1
      · obtain ⟨e1, e2⟩ := tokAt_singleton s u w h
        subst e1 e2
        exact tokAt_head _ _
    · have hfl : (if (endsBoxd T s && startsDq n) = true then parseBitString T s else [s]).flatten
          = s := by
        split
        · rename_i hcond
          simp only [Bool.and_eq_true] at hcond
          exact parseBitString_flatten T s (endsBoxd_splitIndex T hbd s hcond.1)
        · simp
      rw [hfl] at hv
      rw [hv]
      exact tokAt_cons_of s _ v w (ih v h)

/-- in a natural number, everything in front of an exponent letter is a digit, a dot or an
    exponent letter -/
theorem isNaturalNumber_prefix_chars (c1 : Str) (e : Char) (c2 : Str) (he : T.lowerIsE e = true)
    (h : isNaturalNumber T (c1 ++ e :: c2) = true) :
    ∀ c ∈ c1, T.isDigitL c = true ∨ c = '.' ∨ T.lowerIsE c = true := by
  unfold isNaturalNumber at h
  simp only at h
  rw [splitOnP_append _ c1 e c2 [] he] at h
  intro c hm
  rcases splitOnP_mem T.lowerIsE c1 [] c hm with h1 | ⟨seg, hseg, hin⟩
  · exact Or.inr (Or.inr h1)
  · cases hS1 : splitOnP T.lowerIsE c1 [] with
    | nil => exact absurd hS1 (splitOnP_ne_nil _ _ _)
    | cons h1 t1 =>
      rw [hS1] at h hseg
      simp only [List.cons_append, List.headD_cons, List.tail_cons] at h
      rw [← List.append_assoc, List.dropLast_append_of_ne_nil (splitOnP_ne_nil _ _ _),
        List.all_append, List.all_append, Bool.and_eq_true, Bool.and_eq_true] at h
      have hdig : ∀ sg : Str, segIsDigit T sg = true → c ∈ sg → T.isDigitL c = true := by
        intro sg hsg hq
        simp only [segIsDigit, Bool.and_eq_true] at hsg
        exact List.all_eq_true.1 hsg.2 _ hq
      rcases List.mem_cons.1 hseg with e1 | e1
      · subst e1
        rcases splitOnP_mem (· == '.') seg [] c hin with h2 | ⟨sg, hsg, hin2⟩
        · right; left; simpa using h2
        · exact Or.inl (hdig sg (List.all_eq_true.1 h.1.1 sg hsg) hin2)
      · exact Or.inl (hdig seg (List.all_eq_true.1 h.1.2 seg e1) hin)

theorem isNaturalNumber_head (s : Str) (h : isNaturalNumber T s = true)
    (hE : ∃ e ∈ s, T.lowerIsE e = true) :
    ∃ d, s.head? = some d ∧ (T.isDigitL d = true ∨ d = '.' ∨ T.lowerIsE d = true) := by
  obtain ⟨e, hes, he⟩ := hE
  obtain ⟨c1, c2, hs⟩ := List.append_of_mem hes
  subst hs
  cases c1 with
  | nil => exact ⟨e, rfl, Or.inr (Or.inr he)⟩
  | cons d c1 =>
    exact ⟨d, rfl, isNaturalNumber_prefix_chars T (d :: c1) e c2 he h d (List.mem_cons_self ..)⟩

/-- the three characters a token with whitespace in it can start with are neither digits nor
    exponent letters -/
structure SpecialHyps (T : LexTables) : Prop where
  dqL : T.isDigitL '"' = false
  dqE : T.lowerIsE '"' = false
  bsL : T.isDigitL '\\' = false
  bsE : T.lowerIsE '\\' = false
  sqL : T.isDigitL '\'' = false
  sqE : T.lowerIsE '\'' = false

/-- pass 8 -/
theorem splitNaturalNumbers_tokAt (S : SpecialHyps T)
    (hE : ∀ c, T.isSpace c = true → T.lowerIsE c = false)
    (l : List Str) (hl : ShL T l) (u w : Str) (hw : strIsSpace T w = true)
    (h : TokAt (splitNaturalNumbers T l) u w) : TokAt l u w := by
  induction l generalizing u with
  | nil => exact h
  | cons s l ih =>
    have hl' : ShL T l := fun t ht => hl t (List.mem_cons_of_mem _ ht)
    have hfl : (if isNaturalNumber T s = true then parseNaturalNumber T s else [s]).flatten = s := by
      split
      · simp [parseNaturalNumber, pnGo_flatten]
      · simp
    simp only [splitNaturalNumbers, List.flatMap_cons] at h
    rw [tokAt_append] at h
    rcases h with h | ⟨v, hv, h⟩
    · have hsingle : TokAt [s] u w → TokAt (s :: l) u w := by
        intro h1
        obtain ⟨e1, e2⟩ := tokAt_singleton s u w h1
        subst e1 e2
        exact tokAt_head _ _
      split at h
      · rename_i hnat
        by_cases hex : ∃ e ∈ s, T.lowerIsE e = true
        · exfalso
          obtain ⟨c, hc, hsp⟩ := strIsSpace_exists T hw
          have hcs : c ∈ s := by
            have : c ∈ (parseNaturalNumber T s).flatten := List.mem_flatten.2 ⟨w, h.mem, hc⟩
            simpa [parseNaturalNumber, pnGo_flatten] using this
          obtain ⟨d, hd, hprop⟩ := isNaturalNumber_head T s hnat hex
          rcases hl s (List.mem_cons_self ..) with h1 | h1 | h1 | h1 | h1 | h1
          · subst h1; cases hcs
          · rw [h1 c hcs] at hsp; cases hsp
          · obtain ⟨e, hes, he⟩ := hex
            have := hE e (List.all_eq_true.1 (strIsSpace_all T h1) e hes)
            rw [this] at he; cases he
          · rw [hd] at h1; injection h1 with h1; subst h1
            rcases hprop with p | p | p
            · rw [S.dqL] at p; cases p
            · exact absurd p (by decide)
            · rw [S.dqE] at p; cases p
          · rw [hd] at h1; injection h1 with h1; subst h1
            rcases hprop with p | p | p
            · rw [S.bsL] at p; cases p
            · exact absurd p (by decide)
            · rw [S.bsE] at p; cases p
          · rw [hd] at h1; injection h1 with h1; subst h1
            rcases hprop with p | p | p
            · rw [S.sqL] at p; cases p
            · exact absurd p (by decide)
            · rw [S.sqE] at p; cases p
        · have hno : ∀ c ∈ s, T.lowerIsE c = false := by
            intro c hc
            cases hcE : T.lowerIsE c with
            | false => rfl
            | true => exact absurd ⟨c, hc, hcE⟩ hex
          rw [parseNaturalNumber, pnGo_noE T s [] [] hno] at h
          split at h
          · exact hsingle (by simpa using h)
          · have := h.mem; cases this
      · exact hsingle h
    · rw [hfl] at hv
      rw [hv]
      exact tokAt_cons_of s _ v w (ih hl' v h)

/-! ### pass 3 with the state of the backslash symbol made explicit -/

theorem pref_length_le (l : List Str) (u : Str) (h : Pref l u) : u.length ≤ l.flatten.length := by
  obtain ⟨p, q, e, hu⟩ := h
  rw [e, List.flatten_append, ← hu, List.length_append]; omega

theorem bsStep_ne (c sym : Str) (b : Bool) (acc : List Str) (hb : b = true → sym ≠ []) :
    (bsStep T c sym b acc).2.1 = true → (bsStep T c sym b acc).1 ≠ [] := by
  unfold bsStep
  by_cases hstop : stopCharFound T c b = true <;> by_cases hc : c = ['\\'] <;> cases b <;>
    simp_all [stopCharFound]

theorem bsGo_prefix' (A : List Str) (sym : Str) (b : Bool) (acc : List Str)
    (hb : b = false → sym = []) (hb' : b = true → sym ≠ []) :
    ∃ sym' b' acc', (b' = false → sym' = []) ∧ (b' = true → sym' ≠ []) ∧
      ((∀ x ∈ A, x ≠ ['\\']) → b = false → b' = false) ∧
      ∀ rest, bsGo T (A ++ rest) sym b acc = bsGo T rest sym' b' acc' := by
  induction A generalizing sym b acc with
  | nil => exact ⟨sym, b, acc, hb, hb', fun _ h => h, fun _ => rfl⟩
  | cons x A ih =>
    obtain ⟨sym', b', acc', h1, h1', h2, h3⟩ := ih (bsStep T x sym b acc).1 (bsStep T x sym b acc).2.1
      (bsStep T x sym b acc).2.2 (bsStep_inv T x sym b acc hb) (bsStep_ne T x sym b acc hb')
    refine ⟨sym', b', acc', h1, h1', ?_, fun rest => ?_⟩
    · intro hA hbf
      subst hbf
      exact h2 (fun y hy => hA y (List.mem_cons_of_mem _ hy))
        (bsStep_nobs T x sym acc (hA x (List.mem_cons_self ..)))
    · rw [List.cons_append, bsGo_cons]; exact h3 rest

/-- `stop_character_found` of a token inside a backslash symbol -/
def stopTok (t : Str) : Prop := t ∈ T.stop ∨ ' ' ∈ t

theorem combineBackslash_sep' (A B : List Str) :
    ∃ A' o, A'.flatten = A.flatten ∧ ((∀ x ∈ A, x ≠ ['\\']) → o = false) ∧
      (∀ t, t ≠ ['\\'] → (o = false ∨ stopTok T t) →
        combineBackslash T (A ++ [t] ++ B) = A' ++ [t] ++ combineBackslash T B) ∧
      (o = true → ∀ t, t ≠ ['\\'] → ¬ stopTok T t → ∀ u, A.flatten.length ≤ u.length →
        u.length < A.flatten.length + t.length → ¬ Pref (combineBackslash T (A ++ [t] ++ B)) u) := by
  obtain ⟨sym', b', acc', h1, h1', h2, h3⟩ :=
    bsGo_prefix' T A [] false [] (fun _ => rfl) (fun h => by cases h)
  have hfl : A.flatten = acc'.flatten ++ sym' := by
    have := congrArg List.flatten (h3 [])
    rw [bsGo_flatten T _ _ _ _ (fun _ => rfl), bsGo_flatten T _ _ _ _ h1] at this
    simpa using this
  cases b' with
  | false =>
    have hs := h1 rfl
    subst hs
    refine ⟨acc', false, by simp [hfl], fun _ => rfl, fun t ht _ => ?_, fun h => by cases h⟩
    rw [combineBackslash, List.append_assoc, h3, List.singleton_append, bsGo_cons]
    have : bsStep T t [] false acc' = ([], false, acc' ++ [t]) := by
      simp [bsStep, stopCharFound, ht]
    rw [this]
    simp only
    have := bsGo_acc T B [] false (acc' ++ [t]) []
    simpa [combineBackslash] using this
  | true =>
    refine ⟨acc' ++ [sym'], true, by simp [hfl], fun hA => h2 hA rfl, fun t ht hg => ?_,
      fun _ t ht hns u hu1 hu2 hp => ?_⟩
    · have hsp : stopTok T t := by
        rcases hg with hg | hg
        · cases hg
        · exact hg
      rw [combineBackslash, List.append_assoc, h3, List.singleton_append, bsGo_cons]
      have : bsStep T t sym' true acc' = ([], false, acc' ++ [sym'] ++ [t]) := by
        unfold stopTok at hsp
        simp [bsStep, stopCharFound, ht, hsp]
      rw [this]
      simp only
      have := bsGo_acc T B [] false (acc' ++ [sym'] ++ [t]) []
      simpa [combineBackslash] using this
    · have hsym : 0 < sym'.length := List.length_pos_iff.2 (h1' rfl)
      rw [combineBackslash, List.append_assoc, h3, List.singleton_append, bsGo_cons] at hp
      have : bsStep T t sym' true acc' = (sym' ++ t, true, acc') := by
        unfold stopTok at hns
        simp only [not_or] at hns
        simp [bsStep, stopCharFound, ht, hns.1, hns.2]
      rw [this] at hp
      simp only at hp
      have hacc := bsGo_acc T B (sym' ++ t) true acc' []
      rw [List.append_nil] at hacc
      rw [hacc, pref_append] at hp
      rw [hfl, List.length_append] at hu1 hu2
      rcases hp with hp | ⟨v, hv, hp⟩
      · have := pref_length_le acc' u hp; omega
      · rcases bsGo_pref T B (sym' ++ t) true (fun h => by cases h) v hp with e | ⟨v', hv', _⟩
        · subst e
          have := congrArg List.length hv
          simp only [List.length_append, List.length_nil] at this
          omega
        · have := congrArg List.length hv
          rw [hv'] at this
          simp only [List.length_append] at this
          omega

/-! ### combine_quote_pairs with a pair that covers the token -/

theorem cqp_right' (ps : List (Nat × Nat)) (X Y : List Str) (hle : ∀ p ∈ ps, p.1 ≤ p.2)
    (hge : ∀ p ∈ ps, X.length ≤ p.1) :
    ∃ Y', combineQuotePairs ps (X ++ Y) = X ++ Y' := by
  have e : ps = (ps.map fun p => (p.1 - X.length, p.2 - X.length)).map
      fun p => (p.1 + X.length, p.2 + X.length) := by
    rw [List.map_map]
    conv => lhs; rw [← List.map_id ps]
    apply List.map_congr_left
    intro p hp
    have h1 := hle p hp
    have h2 := hge p hp
    simp only [Function.comp, id]
    ext <;> simp <;> omega
  rw [e, cqp_right]
  · exact ⟨_, rfl⟩
  · intro p hp
    obtain ⟨q, hq, e⟩ := List.mem_map.1 hp
    subst e
    have h1 := hle q hq
    simp only; omega

theorem cqp_cover (ps : List (Nat × Nat)) (X Y : List Str) (t : Str) (ht : t ≠ [])
    (hord : ps.Pairwise (fun p q => q.2 ≤ p.1)) (hle : ∀ p ∈ ps, p.1 ≤ p.2)
    (p₀ : Nat × Nat) (hp₀ : p₀ ∈ ps) (h1 : p₀.1 < X.length) (h2 : X.length < p₀.2)
    (hne : ∀ x, X[p₀.1]? = some x → x ≠ []) :
    ¬ Pref (combineQuotePairs ps (X ++ [t] ++ Y)) X.flatten := by
  obtain ⟨l₁, l₂, e⟩ := List.append_of_mem hp₀
  subst e
  have ho := List.pairwise_append.1 hord
  intro hp
  unfold combineQuotePairs at hp
  rw [List.foldl_append, List.foldl_cons] at hp
  have hp := combineQuotePairs_pref l₂ _ (fun q hq => by
    have := hle q (by simp [hq]); omega) _ hp
  obtain ⟨Y', hY'⟩ := cqp_right' l₁ (X ++ [t]) Y (fun q hq => hle q (by simp [hq])) (by
    intro q hq
    have := ho.2.2 q hq p₀ (List.mem_cons_self ..)
    simp only [List.length_append, List.length_singleton]; omega)
  unfold combineQuotePairs at hY'
  rw [hY'] at hp
  -- the covering pair is joined
  have hx : p₀.1 < X.length := h1
  have e1 : (X ++ [t] ++ Y').take p₀.1 = X.take p₀.1 := by
    rw [List.append_assoc, List.take_append_of_le_length (by omega)]
  have e2 : ((X ++ [t] ++ Y').drop p₀.1).take (p₀.2 + 1 - p₀.1)
      = X.drop p₀.1 ++ [t] ++ Y'.take (p₀.2 - X.length) := by
    rw [List.append_assoc, List.drop_append_of_le_length (by omega), List.take_append,
      List.take_of_length_le (by simp only [List.length_drop]; omega)]
    simp only [List.length_drop]
    have : p₀.2 + 1 - p₀.1 - (X.length - p₀.1) = (p₀.2 - X.length) + 1 := by omega
    rw [this, List.singleton_append, List.take_succ_cons]
    simp
  unfold joinPair at hp
  rw [e1, e2, List.append_assoc, pref_append] at hp
  have hX : X.flatten = (X.take p₀.1).flatten ++ (X.drop p₀.1).flatten := by
    rw [← List.flatten_append, List.take_append_drop]
  have hdrop : 0 < (X.drop p₀.1).flatten.length := by
    have hd : X.drop p₀.1 = X[p₀.1] :: X.drop (p₀.1 + 1) := List.drop_eq_getElem_cons hx
    have := hne X[p₀.1] (List.getElem?_eq_getElem hx)
    rw [hd, List.flatten_cons, List.length_append]
    have := List.length_pos_iff.2 this
    omega
  have htl : 0 < t.length := List.length_pos_iff.2 ht
  rcases hp with hp | ⟨v, hv, hp⟩
  · have := pref_length_le _ _ hp
    rw [hX, List.length_append] at this; omega
  · rw [List.singleton_append, pref_cons] at hp
    have hlen := congrArg List.length hv
    rw [hX] at hlen
    rcases hp with e | ⟨v', hv', _⟩
    · subst e
      simp only [List.length_append, List.length_nil] at hlen; omega
    · rw [hv'] at hlen
      simp only [List.length_append, List.flatten_append, List.flatten_cons, List.flatten_nil,
        List.append_nil] at hlen
      omega

/-- pass 7 around a one-character token: either no kept candidate covers it, and then the
    result does not depend on the token, or one does, and the token is not a token of the result -/
theorem combineCharLiterals_sep_one (X Y : List Str) :
    ∃ X₁ Y₁ cov, X₁.flatten = X.flatten ∧ Y₁.flatten = Y.flatten ∧
      (cov = false → ∀ t, t ≠ sq → t ≠ ['('] → t.length = 1 →
        combineCharLiterals (X ++ [t] ++ Y) = X₁ ++ [t] ++ Y₁) ∧
      (cov = true → ∀ t, t ≠ sq → t ≠ ['('] → t.length = 1 →
        ¬ Pref (combineCharLiterals (X ++ [t] ++ Y)) X.flatten) := by
  have hidx : ∀ t, t ≠ sq → indexesOf sq (X ++ [t] ++ Y) 0
      = indexesOf sq X 0 ++ indexesOf sq Y (X.length + 1) := fun t ht => indexesOf_sep sq X Y t ht
  have hsp : ([' '] : Str) ≠ sq := by simp [sq]
  generalize hI : indexesOf sq X 0 ++ indexesOf sq Y (X.length + 1) = idx at hidx
  have hsorted : idx.Pairwise (· < ·) := by
    rw [← hidx [' '] hsp]; exact indexesOf_sorted _ _ _
  have hlt : ∀ q ∈ idx, q < X.length → X[q]? = some sq := by
    intro q hq hlt
    rw [← hI] at hq
    rcases List.mem_append.1 hq with h | h
    · simpa using indexesOf_get sq X 0 q h
    · have := indexesOf_range sq Y (X.length + 1) q h; omega
  have hne : ∀ q ∈ idx, q ≠ X.length := by
    intro q hq e
    rw [← hI] at hq
    rcases List.mem_append.1 hq with h | h
    · have := indexesOf_range sq X 0 q h; omega
    · have := indexesOf_range sq Y (X.length + 1) q h; omega
  have hcongr : ∀ t, t ≠ ['('] → t.length = 1 →
      candidates (X ++ [t] ++ Y) idx = candidates (X ++ [[' ']] ++ Y) idx := by
    intro t ht1 ht2
    apply candidates_congr
    intro q _ _
    by_cases hq : q + 1 = X.length
    · rw [hq, getElem?_sep_eq, getElem?_sep_eq]
      simp [ht1, ht2]
    · rw [getElem?_sep_ne X Y t [' '] (q + 1) hq]
  generalize hL : candidates (X ++ [[' ']] ++ Y) idx = lits at hcongr
  by_cases hlen : lits.length = 0
  · refine ⟨X, Y, false, rfl, rfl, fun _ t ht h1 h2 => ?_, fun h => by cases h⟩
    rw [combineCharLiterals]
    simp only [hidx t ht, hcongr t h1 h2, hlen, if_true]
  · have hmem := candidates_mem (X ++ [[' ']] ++ Y) idx
    rw [hL] at hmem
    have hsub := filterCandidates_sublist lits
    have hord : (filterCandidates lits).reverse.Pairwise (fun p q => q.2 ≤ p.1) := by
      rw [List.pairwise_reverse]
      have := candidates_pairwise (X ++ [[' ']] ++ Y) idx hsorted
      rw [hL] at this
      exact this.sublist hsub
    have hle : ∀ p ∈ (filterCandidates lits).reverse, p.1 ≤ p.2 := by
      intro p hp
      have := (hmem p (hsub.subset (List.mem_reverse.1 hp))).2.2.1
      omega
    have hccl : ∀ t, t ≠ sq → t ≠ ['('] → t.length = 1 → combineCharLiterals (X ++ [t] ++ Y)
        = combineQuotePairs (filterCandidates lits).reverse (X ++ [t] ++ Y) := by
      intro t ht h1 h2
      rw [combineCharLiterals]
      simp only [hidx t ht, hcongr t h1 h2, hlen, if_false]
    by_cases hcov : ∃ p ∈ (filterCandidates lits).reverse, p.1 < X.length ∧ X.length < p.2
    · refine ⟨X, Y, true, rfl, rfl, (fun h => by cases h), fun _ t ht h1 h2 => ?_⟩
      obtain ⟨p₀, hp₀, h3, h4⟩ := hcov
      rw [hccl t ht h1 h2]
      apply cqp_cover _ X Y t (by intro e; subst e; simp at h2) hord hle p₀ hp₀ h3 h4
      intro x hx
      have := hlt p₀.1 (hmem p₀ (hsub.subset (List.mem_reverse.1 hp₀))).1 h3
      rw [this] at hx
      injection hx with hx
      subst hx; simp [sq]
    · obtain ⟨X₁, Y₁, hX, hY, hE⟩ := cqp_split (filterCandidates lits).reverse X Y hord hle (by
        intro p hp
        obtain ⟨h1, h2, h3, h4⟩ := hmem p (hsub.subset (List.mem_reverse.1 hp))
        have n1 := hne p.1 h1
        have n2 := hne p.2 h2
        by_cases ha : p.2 < X.length
        · left; exact ha
        · right
          rcases Nat.lt_or_gt_of_ne n1 with hb | hb
          · exact absurd ⟨p, hp, hb, by omega⟩ hcov
          · exact hb)
      refine ⟨X₁, Y₁, false, hX, hY, fun _ t ht h1 h2 => ?_, fun h => by cases h⟩
      rw [hccl t ht h1 h2]
      exact hE t

/-! ### tokens.create around a whitespace token -/

/-- what the tables must satisfy: quotes, ticks, backslashes and parentheses are not whitespace,
    no symbol contains whitespace, whitespace is no digit and does not lower-case to `e`, `b`,
    `o`, `x`, `d`, quotes, ticks and backslashes are neither digits nor exponent letters, a
    whitespace stop token contains a blank; and (for the concatenation to be kept by pass 9) a
    base specifier letter is not a digit -/
structure RelayoutHyps (T : LexTables) : Prop where
  dqNotSpace : T.isSpace '"' = false
  sqNotSpace : T.isSpace '\'' = false
  bsNotSpace : T.isSpace '\\' = false
  parenNotSpace : T.isSpace '(' = false
  threeNoSpace : ∀ s ∈ T.three, ∀ c ∈ s, T.isSpace c = false
  twoNoSpace : ∀ s ∈ T.two, ∀ c ∈ s, T.isSpace c = false
  stopSpace : ∀ s ∈ T.stop, strIsSpace T s = true → ' ' ∈ s
  spaceNotE : ∀ c, T.isSpace c = true → T.lowerIsE c = false
  spaceNotBoxd : ∀ c, T.isSpace c = true → T.lowerBoxd c = false
  spaceNotDigit : ∀ c, T.isSpace c = true → T.isDigit c = false
  boxdNotDigit : ∀ c, T.lowerBoxd c = true → T.isDigit c = false
  dqNotDigit : T.isDigit '"' = false
  dqNotDigitL : T.isDigitL '"' = false
  dqNotE : T.lowerIsE '"' = false
  bsNotDigitL : T.isDigitL '\\' = false
  bsNotE : T.lowerIsE '\\' = false
  sqNotDigitL : T.isDigitL '\'' = false
  sqNotE : T.lowerIsE '\'' = false

theorem getLast?_flatten_single (X : List Str) (c : Char) (h : X.getLast? = some [c]) :
    X.flatten.getLast? = some c := by
  obtain ⟨ys, hys⟩ := List.getLast?_eq_some_iff.1 h
  subst hys; simp

theorem head?_flatten_single (Y : List Str) (c : Char) (h : Y.head? = some [c]) :
    Y.flatten.head? = some c := by
  cases Y with
  | nil => cases h
  | cons y ys => simp only [List.head?_cons, Option.some.injEq] at h; subst h; simp

/-- **quote parity of the output**: at every token boundary of `tokens.create s` the number of
    `"` characters to the left is even, or there is no `"` to the right — no token boundary lies
    inside a string literal -/
theorem create_quote_boundary (H : RelayoutHyps T) (s : Str) : QB (create T s) := by
  have h2 := combineStringLiterals_QB _ (combineWhitespace_atomic T H.dqNotSpace s)
  have h3 := h2.of_sub (combineBackslash_flatten T _) (combineBackslash_pref T _)
  have h4 := h3.of_sub (combineThree_flatten T _) (combN_pref 2 T.three _)
  have h5 := h4.of_sub (combineTwo_flatten T _) (combN_pref 1 T.two _)
  have h6 := h5.of_sub (combineWords_flatten T _) (combineWords_pref T _)
  have h7 := h6.of_sub (combineCharLiterals_flatten _) (combineCharLiterals_pref _)
  have h8 := h7.of_split (splitNaturalNumbers_flatten T _)
    (splitNaturalNumbers_pref T H.dqNotDigitL H.dqNotE _)
  exact h8.of_split (splitBitStrings_flatten T H.boxdNotDigit _)
    (splitBitStrings_pref T H.boxdNotDigit H.dqNotDigit _)

/-- the token list after pass 3 -/
def pass3 (s : Str) : List Str :=
  combineBackslash T (combineStringLiterals (combineWhitespace T (toChars s)))

/-- the token list after pass 7 -/
def pass7 (s : Str) : List Str :=
  combineCharLiterals (combineWords T (combineTwo T (combineThree T (pass3 T s))))

theorem create_eq_pass7 (s : Str) :
    create T s = splitBitStrings T (splitNaturalNumbers T (pass7 T s)) := rfl

theorem pass7_shape (H : RelayoutHyps T) (s : Str) : ShL T (pass7 T s) :=
  combineCharLiterals_shape T _ (combineWords_shape T _ (combN_shape T 1 T.two H.twoNoSpace _
    (combN_shape T 2 T.three H.threeNoSpace _ (combineBackslash_shape T _
      (combineStringLiterals_shape T _ (combineWhitespace_shape T s))))))

/-- a whitespace token of the output is a token after pass 7, at the same place -/
theorem create_tokAt_pass7 (H : RelayoutHyps T) (s u w : Str) (hw : strIsSpace T w = true)
    (h : TokAt (create T s) u w) : TokAt (pass7 T s) u w := by
  rw [create_eq_pass7] at h
  have h8 := splitBitStrings_tokAt T H.boxdNotDigit H.spaceNotBoxd H.spaceNotDigit _ u w hw h
  exact splitNaturalNumbers_tokAt T
    ⟨H.dqNotDigitL, H.dqNotE, H.bsNotDigitL, H.bsNotE, H.sqNotDigitL, H.sqNotE⟩ H.spaceNotE _
    (pass7_shape T H s) u w hw h8

theorem pass7_pref_pass3 (s u : Str) (h : Pref (pass7 T s) u) : Pref (pass3 T s) u :=
  combN_pref 2 T.three _ u (combN_pref 1 T.two _ u (combineWords_pref T _ u
    (combineCharLiterals_pref _ u h)))

/-- **core**: everything the passes do around a maximal whitespace run `t` between `a` and `b`,
    outside string literals.  `o` tells whether a backslash symbol is open at the end of `a`,
    `cov` whether a one-character token between two ticks ends up in a character literal. -/
theorem create_relayout_core (H : RelayoutHyps T) (a b : Str)
    (ha : ∀ c, a.getLast? = some c → T.isSpace c = false)
    (hb : ∀ c, b.head? = some c → T.isSpace c = false)
    (hq : a.count '"' % 2 = 0 ∨ '"' ∉ b) :
    ∃ pre post pre₁ post₁ o cov, pre.flatten = a ∧ post.flatten = b ∧
      pre₁.flatten = a ∧ post₁.flatten = b ∧ ('\\' ∉ a → o = false) ∧
      (∀ t, strIsSpace T t = true → (o = false ∨ stopTok T t) →
        (a.getLast? = some '\'' → b.head? = some '\'' → t.length ≠ 1) →
        create T (a ++ t ++ b) = pre ++ [t] ++ post) ∧
      (cov = false → ∀ t, strIsSpace T t = true → (o = false ∨ stopTok T t) → t.length = 1 →
        create T (a ++ t ++ b) = pre₁ ++ [t] ++ post₁) ∧
      (cov = true → ∀ t, strIsSpace T t = true → (o = false ∨ stopTok T t) → t.length = 1 →
        ¬ Pref (pass7 T (a ++ t ++ b)) a) ∧
      (o = true → ∀ t, strIsSpace T t = true → ¬ stopTok T t → ∀ u, a.length ≤ u.length →
        u.length < a.length + t.length → ¬ Pref (pass3 T (a ++ t ++ b)) u) := by
  obtain ⟨A₁, B₁, fa₁, fb₁, hcnt, h₁⟩ := combineWhitespace_sep T H.dqNotSpace a b ha hb
  obtain ⟨A₂, B₂, fa₂, fb₂, h₂⟩ := combineStringLiterals_sep A₁ B₁ (by
    rcases hq with hq | hq
    · left; rw [hcnt]; exact hq
    · right
      rw [List.count_eq_zero]
      intro hm
      apply hq
      rw [← fb₁]
      exact List.mem_flatten.2 ⟨_, hm, by simp [dq]⟩)
  obtain ⟨A₃, o, fa₃, ho, h₃, hbad₃⟩ := combineBackslash_sep' T A₂ B₂
  obtain ⟨A₄, fa₄, h₄⟩ := combN_sep T 2 T.three H.threeNoSpace A₃ (combineBackslash T B₂)
  obtain ⟨A₅, fa₅, h₅⟩ := combN_sep T 1 T.two H.twoNoSpace A₄ (combN 2 T.three (combineBackslash T B₂))
  generalize hB₅ : combN 1 T.two (combN 2 T.three (combineBackslash T B₂)) = B₅ at h₅
  have fb₅ : B₅.flatten = b := by
    rw [← hB₅, combN_flatten, combN_flatten, combineBackslash_flatten, fb₂, fb₁]
  have fA₂ : A₂.flatten = a := by rw [fa₂, fa₁]
  have fA₆ : (combineWords T A₅).flatten = a := by
    rw [combineWords_flatten, fa₅, fa₄, fa₃, fA₂]
  have fB₆ : (combineWords T B₅).flatten = b := by rw [combineWords_flatten, fb₅]
  obtain ⟨A₇, B₇, fa₇, fb₇, h₇⟩ := combineCharLiterals_sep (combineWords T A₅) (combineWords T B₅)
  obtain ⟨A₇', B₇', cov, fa₇', fb₇', h₇', hbad₇⟩ :=
    combineCharLiterals_sep_one (combineWords T A₅) (combineWords T B₅)
  obtain ⟨A₉, fa₉, h₉⟩ := splitBitStrings_sep T H.boxdNotDigit (splitNaturalNumbers T A₇)
    (splitNaturalNumbers T B₇)
  obtain ⟨A₉', fa₉', h₉'⟩ := splitBitStrings_sep T H.boxdNotDigit (splitNaturalNumbers T A₇')
    (splitNaturalNumbers T B₇')
  -- the line after pass 3 and after pass 6
  have hp3 : ∀ t, strIsSpace T t = true →
      pass3 T (a ++ t ++ b) = combineBackslash T (A₂ ++ [t] ++ B₂) := by
    intro t ht
    rw [pass3, h₁ t ht, h₂ t (strIsSpace_ne_char T ht _ H.dqNotSpace)]
  have hp6 : ∀ t, strIsSpace T t = true → (o = false ∨ stopTok T t) →
      combineWords T (combineTwo T (combineThree T (pass3 T (a ++ t ++ b))))
        = combineWords T A₅ ++ [t] ++ combineWords T B₅ := by
    intro t ht g
    rw [hp3 t ht, h₃ t (strIsSpace_ne_char T ht _ H.bsNotSpace) g, combineThree, h₄ t ht,
      combineTwo, h₅ t ht, combineWords_sep T _ _ t ht]
  have hparen : ∀ t, strIsSpace T t = true → t ≠ ['('] :=
    fun t ht => strIsSpace_ne_char T ht _ H.parenNotSpace
  refine ⟨A₉, splitBitStrings T (splitNaturalNumbers T B₇), A₉',
    splitBitStrings T (splitNaturalNumbers T B₇'), o, cov, ?_, ?_, ?_, ?_, ?_, ?_, ?_, ?_, ?_⟩
  · rw [fa₉, splitNaturalNumbers_flatten, fa₇, fA₆]
  · rw [splitBitStrings_flatten T H.boxdNotDigit, splitNaturalNumbers_flatten, fb₇, fB₆]
  · rw [fa₉', splitNaturalNumbers_flatten, fa₇', fA₆]
  · rw [splitBitStrings_flatten T H.boxdNotDigit, splitNaturalNumbers_flatten, fb₇', fB₆]
  · intro hbs
    apply ho
    intro x hx e
    subst e
    apply hbs
    rw [← fA₂]
    exact List.mem_flatten.2 ⟨_, hx, by simp⟩
  · intro t ht g1 g2
    have g4 : (combineWords T A₅).getLast? = some sq → (combineWords T B₅).head? = some sq →
        t.length ≠ 1 := by
      intro e1 e2
      apply g2
      · rw [← fA₆]; exact getLast?_flatten_single _ _ e1
      · rw [← fB₆]; exact head?_flatten_single _ _ e2
    rw [create_eq_pass7, pass7, hp6 t ht g1, h₇ t (strIsSpace_ne_char T ht _ H.sqNotSpace) g4,
      splitNaturalNumbers_sep T H.spaceNotE _ _ t ht,
      h₉ t (strIsSpace_startsDq T H.dqNotSpace t ht) (strIsSpace_endsBoxd T H.spaceNotBoxd t ht)]
  · intro hcov t ht g1 hl
    rw [create_eq_pass7, pass7, hp6 t ht g1,
      h₇' hcov t (strIsSpace_ne_char T ht _ H.sqNotSpace) (hparen t ht) hl,
      splitNaturalNumbers_sep T H.spaceNotE _ _ t ht,
      h₉' t (strIsSpace_startsDq T H.dqNotSpace t ht) (strIsSpace_endsBoxd T H.spaceNotBoxd t ht)]
  · intro hcov t ht g1 hl
    rw [pass7, hp6 t ht g1]
    have := hbad₇ hcov t (strIsSpace_ne_char T ht _ H.sqNotSpace) (hparen t ht) hl
    rw [fA₆] at this
    exact this
  · intro hopen t ht hns u hu1 hu2
    rw [hp3 t ht]
    apply hbad₃ hopen t (strIsSpace_ne_char T ht _ H.bsNotSpace) hns u
    · rw [fA₂]; exact hu1
    · rw [fA₂]; exact hu2

/-- **uniform form**: the tokens left and right of a maximal whitespace run outside string
    literals do not depend on the run -/
theorem create_relayout_uniform (H : RelayoutHyps T) (a b : Str)
    (ha : ∀ c, a.getLast? = some c → T.isSpace c = false)
    (hb : ∀ c, b.head? = some c → T.isSpace c = false)
    (hq : a.count '"' % 2 = 0 ∨ '"' ∉ b) :
    ∃ pre post, pre.flatten = a ∧ post.flatten = b ∧
      ∀ t, strIsSpace T t = true → ('\\' ∉ a ∨ ' ' ∈ t) →
        (a.getLast? = some '\'' → b.head? = some '\'' → t.length ≠ 1) →
        create T (a ++ t ++ b) = pre ++ [t] ++ post := by
  obtain ⟨pre, post, _, _, o, _, f1, f2, _, _, hobs, fam0, _, _, _⟩ :=
    create_relayout_core T H a b ha hb hq
  refine ⟨pre, post, f1, f2, fun t ht g1 g2 => fam0 t ht ?_ g2⟩
  rcases g1 with g | g
  · exact Or.inl (hobs g)
  · exact Or.inr (Or.inr g)

/-- **forward form** of the relayout property -/
theorem create_relayout_forward (H : RelayoutHyps T) (a w w' b : Str)
    (hw : strIsSpace T w = true) (hw' : strIsSpace T w' = true)
    (ha : ∀ c, a.getLast? = some c → T.isSpace c = false)
    (hb : ∀ c, b.head? = some c → T.isSpace c = false)
    (hq : a.count '"' % 2 = 0 ∨ '"' ∉ b)
    (G1 : '\\' ∉ a ∨ (' ' ∈ w ∧ ' ' ∈ w'))
    (G2 : ¬ (a.getLast? = some '\'' ∧ b.head? = some '\'') ∨ (w.length ≠ 1 ∧ w'.length ≠ 1)) :
    ∃ pre post, create T (a ++ w ++ b) = pre ++ [w] ++ post ∧
      create T (a ++ w' ++ b) = pre ++ [w'] ++ post ∧ pre.flatten = a ∧ post.flatten = b := by
  obtain ⟨pre, post, h1, h2, h3⟩ := create_relayout_uniform T H a b ha hb hq
  refine ⟨pre, post, h3 w hw ?_ ?_, h3 w' hw' ?_ ?_, h1, h2⟩
  · rcases G1 with g | g
    · exact Or.inl g
    · exact Or.inr g.1
  · intro e1 e2
    rcases G2 with g | g
    · exact absurd ⟨e1, e2⟩ g
    · exact g.1
  · rcases G1 with g | g
    · exact Or.inl g
    · exact Or.inr g.2
  · intro e1 e2
    rcases G2 with g | g
    · exact absurd ⟨e1, e2⟩ g
    · exact g.2

/-! ### from a token of the output back to the input -/

theorem span_space_head (b : Str) : ∃ s b₀, b = s ++ b₀ ∧ s.all T.isSpace = true ∧
    ∀ c, b₀.head? = some c → T.isSpace c = false := by
  induction b with
  | nil => exact ⟨[], [], rfl, rfl, fun c hc => by cases hc⟩
  | cons c b ih =>
    by_cases hc : T.isSpace c = true
    · obtain ⟨s, b₀, e, hs, hb⟩ := ih
      exact ⟨c :: s, b₀, by rw [e]; rfl, by simp [hc, hs], hb⟩
    · refine ⟨[], c :: b, rfl, rfl, fun d hd => ?_⟩
      simp only [List.head?_cons, Option.some.injEq] at hd
      subst hd; simpa using hc

theorem span_space_last (a : Str) : ∃ a₀ s, a = a₀ ++ s ∧ s.all T.isSpace = true ∧
    ∀ c, a₀.getLast? = some c → T.isSpace c = false := by
  obtain ⟨s, r, e, hs, hr⟩ := span_space_head T a.reverse
  refine ⟨r.reverse, s.reverse, ?_, ?_, ?_⟩
  · rw [← List.reverse_append, ← e, List.reverse_reverse]
  · rw [List.all_reverse]; exact hs
  · intro c hc
    rw [List.getLast?_reverse] at hc
    exact hr c hc

/-- two ways of singling out a token of the same list, the second token reaching at least as far
    to the left and to the right as the first: they are the same -/
theorem sep_unique (p q p' q' : List Str) (x y s : Str) (hx : x ≠ [])
    (h : p ++ [x] ++ q = p' ++ [y] ++ q') (hp : p.flatten = p'.flatten ++ s)
    (hlen : s.length + x.length ≤ y.length) : s = [] ∧ p = p' ∧ x = y ∧ q = q' := by
  have hxl : 0 < x.length := List.length_pos_iff.2 hx
  rw [List.append_assoc, List.append_assoc, List.append_eq_append_iff] at h
  rcases h with ⟨m, h1, h2⟩ | ⟨m, h1, h2⟩
  · rw [h1, List.flatten_append, List.append_assoc] at hp
    have hp' : m.flatten ++ s = [] := by
      have := congrArg List.length hp
      simp only [List.length_append] at this
      exact List.eq_nil_of_length_eq_zero (by simp only [List.length_append]; omega)
    have hm : m.flatten = [] := (List.append_eq_nil_iff.1 hp').1
    have hs : s = [] := (List.append_eq_nil_iff.1 hp').2
    cases m with
    | nil =>
      simp only [List.nil_append, List.singleton_append, List.cons.injEq] at h2
      simp only [List.append_nil] at h1
      exact ⟨hs, h1.symm, h2.1, h2.2⟩
    | cons z m' =>
      simp only [List.cons_append, List.cons.injEq] at h2
      simp only [List.flatten_cons, List.append_eq_nil_iff] at hm
      exact absurd (h2.1.trans hm.1) hx
  · rw [h1, List.flatten_append] at hp
    have hm : m.flatten = s := List.append_cancel_left hp
    cases m with
    | nil =>
      simp only [List.nil_append, List.singleton_append, List.cons.injEq] at h2
      simp only [List.append_nil] at h1
      simp only [List.flatten_nil] at hm
      exact ⟨hm.symm, h1, h2.1.symm, h2.2.symm⟩
    | cons z m' =>
      exfalso
      simp only [List.cons_append, List.cons.injEq] at h2
      have := congrArg List.length hm
      simp only [List.flatten_cons, List.length_append] at this
      rw [← h2.1] at this
      omega

theorem stopTok_space (H : RelayoutHyps T) (t : Str) (ht : strIsSpace T t = true) :
    stopTok T t ↔ ' ' ∈ t := by
  constructor
  · rintro (h | h)
    · exact H.stopSpace t h ht
    · exact h
  · exact Or.inr

/-- **resizing a whitespace token does not change any other token**.  `w` is a token of
    `tokens.create (a ++ w ++ b)` that starts at offset `|a|`.  That `w` is a maximal whitespace
    run, that it is not inside a string literal (`create_quote_boundary`), that no backslash symbol
    swallows it and that it is not the middle of a character literal is all derived from `hc`.
    Guards: both strings contain a blank or both do not, unless there is no backslash to the left
    (a blank stops an extended identifier, a tab does not); both strings are one character long or
    both are not, unless `w` is not between two tick characters. -/
theorem create_relayout_partial (H : RelayoutHyps T)
    (a w w' b : Str) (pre post : List Str)
    (hw : strIsSpace T w = true) (hw' : strIsSpace T w' = true)
    (hc : create T (a ++ w ++ b) = pre ++ [w] ++ post) (hpre : pre.flatten = a)
    (G1 : ((' ' ∈ w) ↔ (' ' ∈ w')) ∨ '\\' ∉ a)
    (G2 : ¬ (a.getLast? = some '\'' ∧ b.head? = some '\'') ∨ (w.length = 1 ↔ w'.length = 1)) :
    create T (a ++ w' ++ b) = pre ++ [w'] ++ post := by
  have hpost : post.flatten = b := by
    have := create_flatten T H.boxdNotDigit (a ++ w ++ b)
    rw [hc, List.flatten_append, List.flatten_append, hpre] at this
    simpa using this
  have hq : a.count '"' % 2 = 0 ∨ '"' ∉ b := by
    have := create_quote_boundary T H (a ++ w ++ b) pre ([w] ++ post)
      (by rw [hc, List.append_assoc])
    rw [hpre] at this
    rcases this with h | h
    · exact Or.inl h
    · right
      intro hm
      apply h
      rw [List.flatten_append, hpost]
      exact List.mem_append_right _ hm
  -- `w` is a token after pass 7; there is a boundary in front of it after pass 3
  have htok7 : TokAt (pass7 T (a ++ w ++ b)) a w :=
    create_tokAt_pass7 T H _ a w hw ⟨pre, post, hc, hpre⟩
  have hp7 : Pref (pass7 T (a ++ w ++ b)) a := htok7.pref
  have hp3 : Pref (pass3 T (a ++ w ++ b)) a := pass7_pref_pass3 T _ a hp7
  obtain ⟨a₀, s, ea, hs, ha₀⟩ := span_space_last T a
  obtain ⟨s', b₀, eb, hs', hb₀⟩ := span_space_head T b
  have hwne := strIsSpace_ne_nil T w hw
  have hwl : 0 < w.length := List.length_pos_iff.2 hwne
  have hq₀ : a₀.count '"' % 2 = 0 ∨ '"' ∉ b₀ := by
    rcases hq with hq | hq
    · left
      have : s.count '"' = 0 := by
        rw [List.count_eq_zero]
        intro hm
        have := List.all_eq_true.1 hs _ hm
        rw [H.dqNotSpace] at this; cases this
      rw [ea, List.count_append, this] at hq
      exact hq
    · right
      intro hm; apply hq; rw [eb]; exact List.mem_append_right _ hm
  obtain ⟨pre₀, post₀, pre₁, post₁, o, cov, f1, f2, f3, f4, hobs, fam0, fam1, bad7, bad3⟩ :=
    create_relayout_core T H a₀ b₀ ha₀ hb₀ hq₀
  have hline : a₀ ++ (s ++ w ++ s') ++ b₀ = a ++ w ++ b := by
    rw [ea, eb]; simp
  have hw₀ : strIsSpace T (s ++ w ++ s') = true := by
    simp only [strIsSpace, Bool.and_eq_true, List.all_append, hs, hs', strIsSpace_all T hw,
      and_true]
    cases hh : s ++ w ++ s' with
    | nil =>
      have := congrArg List.length hh
      simp only [List.length_append, List.length_nil] at this; omega
    | cons x xs => simp
  -- the backslash symbol is closed, or the run stops it
  have hstop₀ : o = false ∨ stopTok T (s ++ w ++ s') := by
    cases ho : o with
    | false => exact Or.inl rfl
    | true =>
      right
      refine Classical.byContradiction fun hns => ?_
      have := bad3 ho (s ++ w ++ s') hw₀ hns a (by rw [ea, List.length_append]; omega)
        (by rw [ea]; simp only [List.length_append]; omega)
      rw [hline] at this
      exact this hp3
  have key : s = [] ∧ s' = [] := by
    refine Classical.byContradiction fun hss => ?_
    have hlen2 : 2 ≤ (s ++ w ++ s').length := by
      simp only [List.length_append]
      rcases Classical.not_and_iff_not_or_not.1 hss with h | h
      · have := List.length_pos_iff.2 h; omega
      · have := List.length_pos_iff.2 h; omega
    have e := fam0 (s ++ w ++ s') hw₀ hstop₀ (fun _ _ => by omega)
    rw [hline, hc] at e
    have := sep_unique pre post pre₀ post₀ w (s ++ w ++ s') s hwne e (by rw [hpre, f1, ea])
      (by simp only [List.length_append]; omega)
    have hl := congrArg List.length this.2.2.1
    simp only [List.length_append] at hl
    apply hss
    refine ⟨this.1, List.eq_nil_of_length_eq_zero ?_⟩
    have := congrArg List.length this.1
    simp only [List.length_nil] at this
    omega
  obtain ⟨e1, e2⟩ := key
  subst e1 e2
  simp only [List.append_nil, List.nil_append] at ea eb hstop₀ hline
  subst ea eb
  have hstop' : o = false ∨ stopTok T w' := by
    rcases G1 with g | g
    · rcases hstop₀ with h | h
      · exact Or.inl h
      · right
        rw [stopTok_space T H w' hw']
        exact g.1 ((stopTok_space T H w hw).1 h)
    · exact Or.inl (hobs g)
  -- both strings in the same family
  have fin : ∀ P Q : List Str, P.flatten = a → create T (a ++ w ++ b) = P ++ [w] ++ Q →
      create T (a ++ w' ++ b) = P ++ [w'] ++ Q → create T (a ++ w' ++ b) = pre ++ [w'] ++ post := by
    intro P Q hP ew ew'
    rw [hc] at ew
    have := sep_unique pre post P Q w w [] hwne ew (by rw [hpre, hP]; simp) (by simp)
    rw [this.2.1, this.2.2.2]
    exact ew'
  by_cases hticks : a.getLast? = some '\'' ∧ b.head? = some '\''
  · have hiff : w.length = 1 ↔ w'.length = 1 := by
      rcases G2 with g | g
      · exact absurd hticks g
      · exact g
    by_cases hl : w.length = 1
    · cases hcov : cov with
      | false =>
        exact fin pre₁ post₁ f3 (fam1 hcov w hw hstop₀ hl) (fam1 hcov w' hw' hstop' (hiff.1 hl))
      | true => exact absurd hp7 (bad7 hcov w hw hstop₀ hl)
    · have hl' : w'.length ≠ 1 := fun h => hl (hiff.2 h)
      exact fin pre₀ post₀ f1 (fam0 w hw hstop₀ (fun _ _ => hl)) (fam0 w' hw' hstop' (fun _ _ => hl'))
  · exact fin pre₀ post₀ f1 (fam0 w hw hstop₀ (fun x1 x2 => absurd ⟨x1, x2⟩ hticks))
      (fam0 w' hw' hstop' (fun x1 x2 => absurd ⟨x1, x2⟩ hticks))

/-! ### the tables of the running system -/

theorem inRanges_disjoint (rs rs' : List (Nat × Nat))
    (h : ∀ r ∈ rs, ∀ r' ∈ rs', r.2 < r'.1 ∨ r'.2 < r.1) (n : Nat)
    (hn : inRanges rs n = true) : inRanges rs' n = false := by
  cases hn' : inRanges rs' n with
  | false => rfl
  | true =>
    exfalso
    simp only [inRanges, List.any_eq_true, Bool.and_eq_true, decide_eq_true_eq] at hn hn'
    obtain ⟨r, hr, h1, h2⟩ := hn
    obtain ⟨r', hr', h3, h4⟩ := hn'
    have := h r hr r' hr'
    omega

/-- the tables of the running system (CPython's predicates, the symbol lists of tokens.py)
    satisfy all the hypotheses; the ones that quantify over all characters are reduced to the
    finite generated tables (`Gen.lowerECodes`, `Gen.lowerBoxdCodes`, `Gen.digitRanges` against
    `Gen.spaceRanges`, `Gen.digitRanges`) -/
theorem pyTables_relayout_hyps : RelayoutHyps pyTables where
  dqNotSpace := by decide
  sqNotSpace := by decide
  bsNotSpace := by decide
  parenNotSpace := by decide
  threeNoSpace := by decide
  twoNoSpace := by decide
  stopSpace := by decide
  spaceNotE := by
    intro c hs
    by_cases h : c.toNat ∈ Gen.lowerECodes
    · exfalso
      have hs' : inRanges Gen.spaceRanges c.toNat = true := hs
      simp only [Gen.lowerECodes, List.mem_cons, List.not_mem_nil, or_false] at h
      rcases h with h | h <;> rw [h] at hs' <;> revert hs' <;> decide
    · simp [pyTables, h]
  spaceNotBoxd := by
    intro c hs
    by_cases h : c.toNat ∈ Gen.lowerBoxdCodes
    · exfalso
      have hs' : inRanges Gen.spaceRanges c.toNat = true := hs
      simp only [Gen.lowerBoxdCodes, List.mem_cons, List.not_mem_nil, or_false] at h
      rcases h with h | h | h | h | h | h | h | h <;> rw [h] at hs' <;> revert hs' <;> decide
    · simp [pyTables, h]
  spaceNotDigit := by
    intro c hs
    exact inRanges_disjoint Gen.spaceRanges Gen.digitRanges (by decide +kernel) c.toNat hs
  boxdNotDigit := by
    intro c hc
    simp only [pyTables, Gen.lowerBoxdCodes, decide_eq_true_eq, List.mem_cons, List.not_mem_nil,
      or_false] at hc
    show inRanges Gen.digitRanges c.toNat = false
    rcases hc with h | h | h | h | h | h | h | h <;> rw [h] <;> decide
  dqNotDigit := by decide
  dqNotDigitL := by decide
  dqNotE := by decide
  bsNotDigitL := by decide
  bsNotE := by decide
  sqNotDigitL := by decide
  sqNotE := by decide

theorem create_quote_boundary_py (s : Str) : QB (create pyTables s) :=
  create_quote_boundary pyTables pyTables_relayout_hyps s

theorem create_relayout_uniform_py (a b : Str)
    (ha : ∀ c, a.getLast? = some c → pyTables.isSpace c = false)
    (hb : ∀ c, b.head? = some c → pyTables.isSpace c = false)
    (hq : a.count '"' % 2 = 0 ∨ '"' ∉ b) :
    ∃ pre post, pre.flatten = a ∧ post.flatten = b ∧
      ∀ t, strIsSpace pyTables t = true → ('\\' ∉ a ∨ ' ' ∈ t) →
        (a.getLast? = some '\'' → b.head? = some '\'' → t.length ≠ 1) →
        create pyTables (a ++ t ++ b) = pre ++ [t] ++ post :=
  create_relayout_uniform pyTables pyTables_relayout_hyps a b ha hb hq

theorem create_relayout_forward_py (a w w' b : Str)
    (hw : strIsSpace pyTables w = true) (hw' : strIsSpace pyTables w' = true)
    (ha : ∀ c, a.getLast? = some c → pyTables.isSpace c = false)
    (hb : ∀ c, b.head? = some c → pyTables.isSpace c = false)
    (hq : a.count '"' % 2 = 0 ∨ '"' ∉ b)
    (G1 : '\\' ∉ a ∨ (' ' ∈ w ∧ ' ' ∈ w'))
    (G2 : ¬ (a.getLast? = some '\'' ∧ b.head? = some '\'') ∨ (w.length ≠ 1 ∧ w'.length ≠ 1)) :
    ∃ pre post, create pyTables (a ++ w ++ b) = pre ++ [w] ++ post ∧
      create pyTables (a ++ w' ++ b) = pre ++ [w'] ++ post ∧ pre.flatten = a ∧ post.flatten = b :=
  create_relayout_forward pyTables pyTables_relayout_hyps a w w' b hw hw' ha hb hq G1 G2

theorem create_relayout_partial_py (a w w' b : Str) (pre post : List Str)
    (hw : strIsSpace pyTables w = true) (hw' : strIsSpace pyTables w' = true)
    (hc : create pyTables (a ++ w ++ b) = pre ++ [w] ++ post) (hpre : pre.flatten = a)
    (G1 : ((' ' ∈ w) ↔ (' ' ∈ w')) ∨ '\\' ∉ a)
    (G2 : ¬ (a.getLast? = some '\'' ∧ b.head? = some '\'') ∨ (w.length = 1 ↔ w'.length = 1)) :
    create pyTables (a ++ w' ++ b) = pre ++ [w'] ++ post :=
  create_relayout_partial pyTables pyTables_relayout_hyps a w w' b pre post hw hw' hc hpre G1 G2

/-! ### non-vacuity -/

/-- the hypotheses are satisfiable: a blank resized to a tab and two blanks -/
example : create pyTables ("x".toList ++ " \t ".toList ++ "<= y".toList)
    = ["x".toList] ++ [" \t ".toList] ++ ["<=".toList, " ".toList, "y".toList] :=
  create_relayout_partial_py "x".toList " ".toList " \t ".toList "<= y".toList
    ["x".toList] ["<=".toList, " ".toList, "y".toList]
    (by decide +kernel) (by decide +kernel) (by decide +kernel) (by decide +kernel)
    (by decide +kernel) (by decide +kernel)

/-- no backslash to the left: a blank may become a tab -/
example : create pyTables ("x".toList ++ "\t".toList ++ "<= y".toList)
    = ["x".toList] ++ ["\t".toList] ++ ["<=".toList, " ".toList, "y".toList] :=
  create_relayout_partial_py "x".toList " ".toList "\t".toList "<= y".toList
    ["x".toList] ["<=".toList, " ".toList, "y".toList]
    (by decide +kernel) (by decide +kernel) (by decide +kernel) (by decide +kernel)
    (by decide +kernel) (by decide +kernel)

/-- behind an extended identifier, between two whitespace strings that both contain a blank -/
example : create pyTables ("\\a\\".toList ++ " \t ".toList ++ "<= b".toList)
    = ["\\a\\".toList] ++ [" \t ".toList] ++ ["<=".toList, " ".toList, "b".toList] :=
  create_relayout_partial_py "\\a\\".toList " ".toList " \t ".toList "<= b".toList
    ["\\a\\".toList] ["<=".toList, " ".toList, "b".toList]
    (by decide +kernel) (by decide +kernel) (by decide +kernel) (by decide +kernel)
    (by decide +kernel) (by decide +kernel)

/-- behind an extended identifier that a blank has closed, between two strings without a blank -/
example : create pyTables ("\\a\\ x".toList ++ "\t\t".toList ++ "y".toList)
    = ["\\a\\".toList, " ".toList, "x".toList] ++ ["\t\t".toList] ++ ["y".toList] :=
  create_relayout_partial_py "\\a\\ x".toList "\t".toList "\t\t".toList "y".toList
    ["\\a\\".toList, " ".toList, "x".toList] ["y".toList]
    (by decide +kernel) (by decide +kernel) (by decide +kernel) (by decide +kernel)
    (by decide +kernel) (by decide +kernel)

/-- between two ticks, neither string being one character long -/
example : create pyTables ("'".toList ++ "\t\t\t".toList ++ "'".toList)
    = ["'".toList] ++ ["\t\t\t".toList] ++ ["'".toList] :=
  create_relayout_partial_py "'".toList "  ".toList "\t\t\t".toList "'".toList
    ["'".toList] ["'".toList]
    (by decide +kernel) (by decide +kernel) (by decide +kernel) (by decide +kernel)
    (by decide +kernel) (by decide +kernel)

/-- between two ticks, both strings one character long (the blank between `'a'` and `'b'` is a
    candidate that filter_character_literal_candidates drops) -/
example : create pyTables ("'a'".toList ++ "\t".toList ++ "'b'".toList)
    = ["'a'".toList] ++ ["\t".toList] ++ ["'b'".toList] :=
  create_relayout_partial_py "'a'".toList " ".toList "\t".toList "'b'".toList
    ["'a'".toList] ["'b'".toList]
    (by decide +kernel) (by decide +kernel) (by decide +kernel) (by decide +kernel)
    (by decide +kernel) (by decide +kernel)

/-- behind an unterminated string literal (odd number of quotes to the left, none to the right) -/
example : create pyTables ("x \"ab".toList ++ "\t".toList ++ "c".toList)
    = ["x".toList, " ".toList, "\"".toList, "ab".toList] ++ ["\t".toList] ++ ["c".toList] :=
  create_relayout_partial_py "x \"ab".toList " ".toList "\t".toList "c".toList
    ["x".toList, " ".toList, "\"".toList, "ab".toList] ["c".toList]
    (by decide +kernel) (by decide +kernel) (by decide +kernel) (by decide +kernel)
    (by decide +kernel) (by decide +kernel)

/-- the forward form on the same line -/
example : ∃ pre post,
    create pyTables ("x".toList ++ " ".toList ++ "<= y".toList) = pre ++ [" ".toList] ++ post ∧
    create pyTables ("x".toList ++ "\t  ".toList ++ "<= y".toList) = pre ++ ["\t  ".toList] ++ post ∧
    pre.flatten = "x".toList ∧ post.flatten = "<= y".toList :=
  create_relayout_forward_py "x".toList " ".toList "\t  ".toList "<= y".toList
    (by decide +kernel) (by decide +kernel) (by decide +kernel) (by decide +kernel)
    (by decide +kernel) (by decide +kernel) (by decide +kernel)

/-- `hq` is not decorative in the forward form: inside a string literal the whitespace is no
    token at all (in the backward form `hc` excludes this, by `create_quote_boundary`) -/
example : create pyTables ("\"a".toList ++ " ".toList ++ "b\"".toList) = ["\"a b\"".toList] := by
  decide +kernel

/-- the three counter-examples are exactly what the guards exclude -/
example : ¬ (((' ' ∈ " ".toList) ↔ (' ' ∈ "\t".toList)) ∨ '\\' ∉ "\\a\\".toList) := by
  decide +kernel

example : ¬ (¬ ("'".toList.getLast? = some '\'' ∧ "'".toList.head? = some '\'') ∨
    ("  ".toList.length = 1 ↔ " ".toList.length = 1)) := by decide +kernel

example : ¬ (¬ ("'a'".toList.getLast? = some '\'' ∧ "'b' 'c'".toList.head? = some '\'') ∨
    (" ".toList.length = 1 ↔ "  ".toList.length = 1)) := by decide +kernel

end Vsgm.Lex
