/-
  WP2d — `blank_line_below_line_ending_with_token`, style no_blank_line (no hierarchy limits), on a file of rows:
  get_blank_lines_below_line_ending_with_token as a row scan; the fix removes the run of blank rows below every trigger row.
-/
import VsgProofs.Lemmas.BFull2Below
namespace Vsgm.BFull2.VSpace
open Vsgm Vsgm.TM Vsgm.TM.Lemmas Vsgm.BFull2 Vsgm.BFull2.Rows

variable (uid : Tok → Option Key)

theorem plain_blank : Plain blankKey := by
  unfold Plain blankKey commaKey openParenKey kLogical kParser kComma kOpenParen; decide

theorem offs_mono (rows : List (Row Tok)) (k k' : Nat) (h : k ≤ k') (hk' : k' ≤ rows.length) : offs rows k ≤ offs rows k' := by
  induction k' with
  | zero => have : k = 0 := by omega
            subst this; exact Nat.le_refl _
  | succ m ih =>
    rcases Nat.lt_or_eq_of_le h with h1 | h1
    · have hm : m < rows.length := by omega
      have := offs_succ rows m rows[m] (List.getElem?_eq_getElem hm)
      have := ih (by omega) (by omega)
      omega
    · subst h1; exact Nat.le_refl _

variable (cs : List Cls)

/-- the line numbers of the end-of-line candidates, in file order: the trigger rows -/
theorem lineList_join (rows : List (Row Tok)) (h : RowsOk uid rows) (hcs : CsOk cs) (hnd : NoDupRows uid cs rows) :
    (eolIdxs (processTokens uid (join rows)) cs).map (lineNo uid (join rows)) = trigLines uid cs rows := by
  have hdec : ∀ i ∈ eolIdxs (processTokens uid (join rows)) cs, ∃ k j r, rows[k]? = some r ∧ j < r.1.length ∧
      i = offs rows k + j ∧ lineNo uid (join rows) i = k + 1 := by
    intro i hi
    obtain ⟨k, j, r, hk, hj, rfl⟩ := (mem_eolIdxs uid cs rows h hcs i).mp hi
    have hjl : j < r.1.length := by
      unfold trigIdx at hj; rw [List.mem_filter, List.mem_range] at hj; exact hj.1
    exact ⟨k, j, r, hk, hjl, rfl, lineNo_join uid rows h k j r hk (Nat.le_of_lt hjl)⟩
  apply eq_of_strict_of_mem
  · rw [List.pairwise_map]
    refine (eolIdxs_sorted uid cs (join rows) hcs).imp_of_mem ?_
    intro a b ha hb hab
    obtain ⟨k, j, r, hk, hj, rfl, hl⟩ := hdec a ha
    obtain ⟨k', j', r', hk', hj', rfl, hl'⟩ := hdec b hb
    rw [hl, hl']
    have hne : k ≠ k' := by
      intro e
      have := lineNo_inj uid cs rows h hcs hnd _ _ ha hb (by rw [hl, hl', e])
      omega
    have hkl : k < rows.length := by
      rcases Nat.lt_or_ge k rows.length with h' | h'
      · exact h'
      · rw [List.getElem?_eq_none h'] at hk; cases hk
    rcases Nat.lt_or_ge k k' with h1 | h1
    · omega
    · exfalso
      have h2 : k' < k := by omega
      have := offs_succ rows k' r' hk'
      have := offs_mono rows (k' + 1) k (by omega) (by omega)
      omega
  · unfold trigLines
    rw [List.pairwise_map]
    exact (List.pairwise_lt_range.filter _).imp (by intro a b hab; omega)
  · intro l
    have := lineNumbers_join uid cs rows h hcs hnd
    unfold lineNumbersOf at this
    have hm : mapE (fun (i : Nat) => (processTokens uid (join rows)).lineOf (i : Int)) (eolIdxs (processTokens uid (join rows)) cs) =
        .ok ((eolIdxs (processTokens uid (join rows)) cs).map (lineNo uid (join rows))) := by
      apply Affix.mapE_ok
      intro i hi
      obtain ⟨k, j, r, hk, _, _⟩ := (mem_eolIdxs uid cs rows h hcs i).mp hi
      exact Affix.lineOf_ok uid (join rows) (hasCr_of_row uid rows h k r hk) i
    rw [hm] at this
    simp only [bind, Except.bind, pure, Except.pure, Except.ok.injEq] at this
    rw [← this]
    unfold sortNat
    rw [List.mem_mergeSort]


/-! ### the run of blank rows below a row -/

/-- the row starts with a blank_line token -/
def blankStart (r : Row Tok) : Bool := isKo uid blankKey r.1[0]?

def blankStartAt (rows : List (Row Tok)) (m : Nat) : Bool :=
  match rows[m]? with
  | some r => blankStart uid r
  | none => false

/-- `iCarriageReturnIndex + 1 in lBlankLines` for the line break of row `m - 1` -/
theorem blanks_contains (rows : List (Row Tok)) (h : RowsOk uid rows) (m : Nat) (hm : m ≤ rows.length) :
    ((processTokens uid (join rows)).get (some blankKey)).contains (offs rows m) = blankStartAt uid rows m := by
  rw [Bool.eq_iff_iff, List.contains_iff_mem]
  unfold Index.get
  simp only
  rw [processTokens_plain' uid (join rows) blankKey plain_blank]
  unfold blankStartAt
  cases hr : rows[m]? with
  | none =>
    have hml : m = rows.length := by
      rcases Nat.lt_or_ge m rows.length with h' | h'
      · rw [List.getElem?_eq_getElem h'] at hr; cases hr
      · omega
    subst hml
    rw [← join_length rows, List.getElem?_eq_none (Nat.le_refl _)]
    simp
  | some r =>
    have := getElem_join rows m 0 r hr (Nat.zero_le _)
    rw [Nat.add_zero] at this
    rw [this]
    unfold blankStart isKo
    cases hc : r.1 with
    | nil =>
      simp only [hc, List.nil_append, List.getElem?_cons_zero, List.getElem?_nil]
      have hcr := h.cr r (List.mem_of_getElem? hr)
      constructor
      · rintro ⟨t, ht, hu⟩
        cases ht
        rw [hcr] at hu
        exact absurd hu (by decide)
      · intro hf; cases hf
    | cons x rest =>
      simp only [hc, List.cons_append, List.getElem?_cons_zero]
      constructor
      · rintro ⟨t, ht, hu⟩; cases ht; simpa using hu
      · intro hu; exact ⟨x, rfl, by simpa using hu⟩

theorem crPosFrom_drop (rows : List (Row Tok)) (off k : Nat) (hk : k ≤ rows.length) :
    (crPosFrom off rows).drop k = crPosFrom (off + offs rows k) (rows.drop k) := by
  induction rows generalizing off k with
  | nil => simp [crPosFrom, offs]
  | cons r rs ih =>
    cases k with
    | zero => simp [offs]
    | succ k =>
      rw [crPosFrom, List.drop_succ_cons, List.drop_succ_cons, ih _ k (by simpa using hk)]
      simp only [offs]
      congr 1
      omega

/-- number of rows starting with a blank_line token from row `m` on -/
def runLenAt (rows : List (Row Tok)) (m : Nat) : Nat := ((rows.drop m).takeWhile (blankStart uid)).length

theorem runLenAt_step (rows : List (Row Tok)) (m : Nat) :
    runLenAt uid rows m = if blankStartAt uid rows m then runLenAt uid rows (m + 1) + 1 else 0 := by
  unfold runLenAt blankStartAt
  rcases Nat.lt_or_ge m rows.length with hm | hm
  · rw [List.drop_eq_getElem_cons hm, List.takeWhile_cons, List.getElem?_eq_getElem hm]
    simp only
    split <;> simp
  · rw [List.drop_eq_nil_of_le hm, List.getElem?_eq_none hm]
    simp

/-- **the inner loop of get_blank_lines_below_line_ending_with_token**: the first line break from row `m` on that is not
    followed by a blank_line token is the line break of the last row of the run below row `m` -/
theorem find_run (rows : List (Row Tok)) (h : RowsOk uid rows) :
    ∀ (d m : Nat), m + d + 1 = rows.length →
      (crPosFrom (offs rows m) (rows.drop m)).find?
          (fun x => !((processTokens uid (join rows)).get (some blankKey)).contains (x + 1)) =
        some (offs rows (m + 1 + runLenAt uid rows (m + 1)) - 1) := by
  intro d
  induction d with
  | zero =>
    intro m hm
    have hml : m < rows.length := by omega
    rw [List.drop_eq_getElem_cons hml, crPosFrom, List.find?_cons]
    have ho := offs_succ rows m rows[m] (List.getElem?_eq_getElem hml)
    have e : offs rows m + rows[m].1.length + 1 = offs rows (m + 1) := by omega
    rw [e, blanks_contains uid rows h (m + 1) (by omega)]
    have hb : blankStartAt uid rows (m + 1) = false := by
      unfold blankStartAt; rw [List.getElem?_eq_none (by omega)]
    rw [runLenAt_step, hb]
    simp only [Bool.not_false, Bool.false_eq_true, if_false, Nat.add_zero]
    congr 1
    omega
  | succ d ih =>
    intro m hm
    have hml : m < rows.length := by omega
    rw [List.drop_eq_getElem_cons hml, crPosFrom, List.find?_cons]
    have ho := offs_succ rows m rows[m] (List.getElem?_eq_getElem hml)
    have e : offs rows m + rows[m].1.length + 1 = offs rows (m + 1) := by omega
    rw [e, blanks_contains uid rows h (m + 1) (by omega), runLenAt_step]
    by_cases hb : blankStartAt uid rows (m + 1) = true
    · simp only [hb, Bool.not_true, if_true]
      have := ih (m + 1) (by omega)
      rw [this]
      have e2 : m + 1 + 1 + runLenAt uid rows (m + 1 + 1) = m + 1 + (runLenAt uid rows (m + 1 + 1) + 1) := by omega
      rw [e2]
    · have hb' : blankStartAt uid rows (m + 1) = false := by simpa using hb
      simp only [hb', Bool.not_false, Bool.false_eq_true, if_false, Nat.add_zero]
      congr 1
      omega


/-! ### regions -/

theorem join_append (a b : List (Row Tok)) : join (a ++ b) = join a ++ join b := by
  simp [join, List.flatMap_append]

/-- rows `a … b-1`, cut out of the file by their positions -/
theorem slice_rows (rows : List (Row Tok)) (a b : Nat) (hab : a ≤ b) (hb : b ≤ rows.length) :
    pySlice (join rows) ((offs rows a : Nat) : Int) ((offs rows b : Nat) : Int) = join ((rows.drop a).take (b - a)) := by
  have hla := join_length_take rows a (by omega)
  have hlb := join_length_take rows b hb
  have hmono := offs_mono rows a b hab hb
  have hlen : (join rows).length = offs rows rows.length := join_length rows
  have hmono2 := offs_mono rows b rows.length hb (Nat.le_refl _)
  rw [pySlice_nat _ _ _ (by omega) (by omega)]
  have e1 : rows = rows.take a ++ ((rows.drop a).take (b - a) ++ rows.drop b) := by
    have h1 : rows = rows.take a ++ rows.drop a := (List.take_append_drop a rows).symm
    have h2 : rows.drop a = (rows.drop a).take (b - a) ++ (rows.drop a).drop (b - a) := (List.take_append_drop _ _).symm
    have h3 : (rows.drop a).drop (b - a) = rows.drop b := by rw [List.drop_drop]; congr 1; omega
    rw [h3] at h2
    rw [← h2]; exact h1
  have hmid : (join ((rows.drop a).take (b - a))).length = offs rows b - offs rows a := by
    have : rows.take b = rows.take a ++ (rows.drop a).take (b - a) := by
      have hb2 : b = a + (b - a) := by omega
      conv => lhs; rw [hb2, List.take_add]
    have h4 := congrArg (fun l => (join l).length) this
    simp only [join_append, List.length_append, hla, hlb] at h4
    omega
  have hj : join rows = join (rows.take a) ++ (join ((rows.drop a).take (b - a)) ++ join (rows.drop b)) := by
    rw [← join_append, ← join_append, ← e1]
  rw [hj, ← hla, List.drop_left, hla, ← hmid, List.take_left]

def regionN (rows : List (Row Tok)) (k : Nat) : Option (Toi Tok) :=
  if runLenAt uid rows (k + 1) = 0 then none
  else some { start := some ((offs rows (k + 1) : Nat) : Int), line := k + 1,
              toks := join ((rows.drop (k + 1)).take (runLenAt uid rows (k + 1))) }

theorem runLenAt_le (rows : List (Row Tok)) (m : Nat) : m + runLenAt uid rows m ≤ rows.length ∨ rows.length < m := by
  rcases Nat.lt_or_ge rows.length m with h | h
  · exact Or.inr h
  · left
    unfold runLenAt
    have h1 : ((rows.drop m).takeWhile (blankStart uid)).length ≤ (rows.drop m).length := by
      have := (List.takeWhile_sublist (p := blankStart uid) (l := rows.drop m)).length_le
      exact this
    rw [List.length_drop] at h1
    omega

theorem join_pos (l : List (Row Tok)) (h : l ≠ []) : 0 < (join l).length := by
  cases l with
  | nil => exact absurd rfl h
  | cons r rs => rw [join_cons]; simp; omega

/-- **one iteration of get_blank_lines_below_line_ending_with_token** for an end-of-line candidate of row `k` -/
theorem blankBelowBody_join (rows : List (Row Tok)) (h : RowsOk uid rows) (k j : Nat) (r : Row Tok) (hk : rows[k]? = some r)
    (hj : j < r.1.length) (he : isEndOfLine (processTokens uid (join rows)) ((offs rows k + j : Nat) : Int) = true) :
    blankBelowBody (join rows) (processTokens uid (join rows)) (offs rows k + j) = .ok (regionN uid rows k) := by
  have hkl : k < rows.length := by
    rcases Nat.lt_or_ge k rows.length with h' | h'
    · exact h'
    · rw [List.getElem?_eq_none h'] at hk; cases hk
  unfold blankBelowBody
  simp only [he, Bool.not_true, Bool.false_eq_true, if_false]
  rw [Affix.lineOf_ok uid (join rows) (hasCr_of_row uid rows h k r hk), lineNo_join uid rows h k j r hk (Nat.le_of_lt hj),
    crs_join uid rows h]
  simp only [bind, Except.bind]
  have e1 : (((k + 1 : Nat) : Int) - 1) = ((k : Nat) : Int) := by omega
  rw [e1, pyIdx_crPos, hk]
  simp only [Nat.zero_add, Nat.add_sub_cancel]
  rw [crPosFrom_drop rows 0 k (Nat.le_of_lt hkl), Nat.zero_add,
    find_run uid rows h (rows.length - k - 1) k (by omega)]
  simp only
  have ho := offs_succ rows k r hk
  have hrl := runLenAt_le uid rows (k + 1)
  have hle : k + 1 + runLenAt uid rows (k + 1) ≤ rows.length := by omega
  have hm := offs_mono rows (k + 1) (k + 1 + runLenAt uid rows (k + 1)) (by omega) hle
  have e2 : (((offs rows k + r.1.length : Nat) : Int) + 1) = ((offs rows (k + 1) : Nat) : Int) := by omega
  have e3 : (((offs rows (k + 1 + runLenAt uid rows (k + 1)) - 1 : Nat) : Int) + 1) =
      ((offs rows (k + 1 + runLenAt uid rows (k + 1)) : Nat) : Int) := by omega
  rw [e2, e3, slice_rows rows (k + 1) (k + 1 + runLenAt uid rows (k + 1)) (by omega) hle, Nat.add_sub_cancel_left]
  unfold regionN
  by_cases ht : runLenAt uid rows (k + 1) = 0
  · simp [ht, join, pure, Except.pure]
  · have hne : (rows.drop (k + 1)).take (runLenAt uid rows (k + 1)) ≠ [] := by
      intro e
      have := congrArg List.length e
      rw [List.length_take, List.length_drop] at this
      simp at this
      omega
    have := join_pos _ hne
    simp [ht, this, pure, Except.pure]


/-- **get_blank_lines_below_line_ending_with_token on a file of rows** (no hierarchy limits): for every trigger row the
    run of rows below it that start with a blank_line token, if there is one -/
theorem blankBelow_join (rows : List (Row Tok)) (h : RowsOk uid rows) (hcs : CsOk cs) (hnd : NoDupRows uid cs rows)
    (hier : Nat → Option Int) :
    blankLinesBelowLineEndingWith (join rows) (processTokens uid (join rows)) hier cs none =
      .ok (((List.range rows.length).filter (isTrig uid cs rows)).filterMap (regionN uid rows)) := by
  unfold blankLinesBelowLineEndingWith idxsWithHier
  simp only
  have hb : ∀ i ∈ idxsOfList (processTokens uid (join rows)) cs,
      blankBelowBody (join rows) (processTokens uid (join rows)) i =
        .ok (if isEndOfLine (processTokens uid (join rows)) (i : Int) then regionN uid rows (lineNo uid (join rows) i - 1) else none) := by
    intro i hi
    by_cases he : isEndOfLine (processTokens uid (join rows)) (i : Int) = true
    · have hm : i ∈ eolIdxs (processTokens uid (join rows)) cs := by
        unfold eolIdxs; rw [List.mem_filter]; exact ⟨hi, he⟩
      obtain ⟨k, j, r, hk, hj, rfl⟩ := (mem_eolIdxs uid cs rows h hcs i).mp hm
      have hjl : j < r.1.length := by
        unfold trigIdx at hj; rw [List.mem_filter, List.mem_range] at hj; exact hj.1
      rw [blankBelowBody_join uid rows h k j r hk hjl he, lineNo_join uid rows h k j r hk (Nat.le_of_lt hjl), if_pos he,
        Nat.add_sub_cancel]
    · have he' : isEndOfLine (processTokens uid (join rows)) (i : Int) = false := by simpa using he
      unfold blankBelowBody
      rw [if_neg he]
      simp only [he', Bool.not_false, if_true]
      rfl
  rw [filterMapE_ok _ _ _ hb]
  congr 1
  have e : (idxsOfList (processTokens uid (join rows)) cs).filterMap
        (fun (i : Nat) => if isEndOfLine (processTokens uid (join rows)) ((i : Nat) : Int) = true then regionN uid rows (lineNo uid (join rows) i - 1) else none) =
      ((eolIdxs (processTokens uid (join rows)) cs).map (lineNo uid (join rows))).filterMap (fun l => regionN uid rows (l - 1)) := by
    unfold eolIdxs
    rw [List.filterMap_map, List.filterMap_filter]
    rfl
  rw [e, lineList_join uid cs rows h hcs hnd]
  unfold trigLines
  rw [List.filterMap_map]
  rfl

variable (inst : Tok → Nat → Bool) (P : Params)

structure BelowNoBlank : Prop where
  fam : P.family = .below
  style : P.style = sNoBlank
  hier : P.hier = none

theorem sRequire_not_prefix_noBlank : sRequire.isPrefixOf sNoBlank = false := by decide
theorem sNoBlank_ne_sRequire : (sNoBlank == sRequire) = false := by decide

def violN (rows : List (Row Tok)) (k : Nat) : Option Viol :=
  if runLenAt uid rows (k + 1) = 0 then none
  else some { line := k + 2, start := offs rows (k + 1),
              toks := join ((rows.drop (k + 1)).take (runLenAt uid rows (k + 1))), act := Act.remove.code }

theorem analyzeN_join (hP : BelowNoBlank P) (hO : HOracle) (rows : List (Row Tok)) (h : RowsOk uid rows)
    (hcs : CsOk P.cs) (hnd : NoDupRows uid P.cs rows) :
    (sem uid inst P hO).analyze (join rows) =
      ((List.range rows.length).filter (isTrig uid P.cs rows)).filterMap (violN uid rows) := by
  unfold sem
  simp only
  unfold analyzeE analyzeWith toisWith
  rw [hP.fam]
  simp only [hP.style, sRequire_not_prefix_noBlank, Bool.false_eq_true, if_false, beq_self_eq_true, if_true, hP.hier,
    blankBelow_join uid P.cs rows h hcs hnd, bind, Except.bind, pure, Except.pure]
  unfold analyzeRegions
  have hj : ∀ r ∈ ones (((List.range rows.length).filter (isTrig uid P.cs rows)).filterMap (regionN uid rows)),
      judge inst P r = .ok (match r with
        | .one (some t) => some ({ line := t.line + 1, start := (t.start.getD 0).toNat, toks := t.toks, act := Act.remove.code }, solBelowRemove)
        | _ => none) := by
    intro r hr
    unfold ones at hr
    obtain ⟨t, ht, rfl⟩ := List.mem_map.mp hr
    obtain ⟨k, _, hk⟩ := List.mem_filterMap.mp ht
    unfold regionN at hk
    split at hk
    · cases hk
    · simp only [Option.some.injEq] at hk
      subst hk
      unfold judge
      rw [hP.fam]
      simp only [hP.style, sNoBlank_ne_sRequire, Bool.false_eq_true, if_false, beq_self_eq_true, if_true, judgeNoBlank, mkViol,
        pure, Except.pure]
      rfl
  rw [filterMapE_ok _ _ _ hj]
  simp only
  unfold ones
  rw [List.map_filterMap, List.filterMap_map, List.filterMap_filterMap]
  apply filterMap_ext_mem
  intro k _
  simp only [Function.comp, violN, regionN]
  by_cases ht : runLenAt uid rows (k + 1) = 0
  · simp [ht]
  · simp [ht]


/-! ### the analysis as a scan -/

open Vsgm.Base.BlankLine

/-- the rows at the head of `rs` that start with a blank_line token -/
def runOf (rs : List (Row Tok)) : List (Row Tok) := rs.takeWhile (blankStart uid)

def hitN (r : Row Tok) (rs : List (Row Tok)) : Bool := trigRow uid P.cs r && !(runOf uid rs).isEmpty

def violRun (off line : Nat) (rs : List (Row Tok)) : Viol :=
  { line := line, start := off, toks := join (runOf uid rs), act := Act.remove.code }

def violsN (off line : Nat) : List (Row Tok) → List Viol
  | [] => []
  | r :: rs =>
    (if hitN uid P r rs then [violRun uid (off + r.1.length + 1) line rs] else []) ++
      violsN (off + r.1.length + 1) (line + 1) rs

theorem take_runOf (rs : List (Row Tok)) : rs.take (runOf uid rs).length = runOf uid rs := by
  unfold runOf
  induction rs with
  | nil => rfl
  | cons r rs ih =>
    rw [List.takeWhile_cons]
    split
    · simp [ih]
    · rfl

def gN (off line : Nat) (rows : List (Row Tok)) (k : Nat) : Option Viol :=
  if isTrig uid P.cs rows k then
    if runLenAt uid rows (k + 1) = 0 then none
    else some { line := line + k, start := off + offs rows (k + 1),
                toks := join ((rows.drop (k + 1)).take (runLenAt uid rows (k + 1))), act := Act.remove.code }
  else none

theorem range_formN (off line : Nat) (rows : List (Row Tok)) :
    (List.range rows.length).filterMap (gN uid P off line rows) = violsN uid P off line rows := by
  induction rows generalizing off line with
  | nil => rfl
  | cons r rs ih =>
    rw [List.length_cons, List.range_succ_eq_map, List.filterMap_cons, List.filterMap_map]
    have hshift : (gN uid P off line (r :: rs)) ∘ Nat.succ = gN uid P (off + r.1.length + 1) (line + 1) rs := by
      funext k
      simp only [Function.comp, gN, isTrig, runLenAt, List.getElem?_cons_succ, List.drop_succ_cons, offs]
      have e1 : off + (r.1.length + 1 + offs rs (k + 1)) = off + r.1.length + 1 + offs rs (k + 1) := by omega
      have e2 : line + k.succ = line + 1 + k := by omega
      rw [e1, e2]
      rfl
    rw [hshift, ih, violsN]
    have hg : gN uid P off line (r :: rs) 0 =
        if hitN uid P r rs then some (violRun uid (off + r.1.length + 1) line rs) else none := by
      have ho : offs (r :: rs) (0 + 1) = r.1.length + 1 := by
        cases rs <;> simp [offs]
      simp only [gN, isTrig, List.getElem?_cons_zero, runLenAt, List.drop_succ_cons, List.drop_zero, ho, hitN, violRun,
        Nat.add_zero]
      by_cases ht : trigRow uid P.cs r = true
      · by_cases hr : (runOf uid rs) = []
        · have : (List.takeWhile (blankStart uid) rs).length = 0 := by
            unfold runOf at hr; rw [hr]; rfl
          simp [ht, hr, this]
        · have hl : ¬ (List.takeWhile (blankStart uid) rs).length = 0 := by
            intro e; apply hr; unfold runOf; exact List.length_eq_zero_iff.mp e
          have ht2 := take_runOf uid rs
          unfold runOf at ht2 hr
          simp [ht, hr, hl, ht2, runOf, Nat.add_assoc]
      · simp [ht]
    rw [hg]
    by_cases hh : hitN uid P r rs = true
    · simp [hh]
    · simp [hh]

theorem analyzeN_scan (hP : BelowNoBlank P) (hO : HOracle) (rows : List (Row Tok)) (h : RowsOk uid rows)
    (hcs : CsOk P.cs) (hnd : NoDupRows uid P.cs rows) :
    (sem uid inst P hO).analyze (join rows) = violsN uid P 0 2 rows := by
  rw [analyzeN_join uid inst P hP hO rows h hcs hnd, ← range_formN, List.filterMap_filter]
  apply filterMap_ext_mem
  intro k _
  simp only [gN, violN, Nat.zero_add]
  have : 2 + k = k + 2 := by omega
  rw [this]


/-! ### the fix: the run below every trigger row goes -/

def skipOf (r : Row Tok) (rs : List (Row Tok)) : Nat := if hitN uid P r rs then (runOf uid rs).length else 0

def piecesN (skip : Nat) : List (Row Tok) → List (Piece Tok)
  | [] => []
  | r :: rs =>
    match skip with
    | s + 1 => piecesN s rs
    | 0 =>
      ⟨r.1 ++ [r.2], r.1 ++ [r.2], false⟩ ::
        ((if hitN uid P r rs then [⟨join (runOf uid rs), [], true⟩] else []) ++ piecesN (skipOf uid P r rs) rs)

def shrink (skip : Nat) : List (Row Tok) → List (Row Tok)
  | [] => []
  | r :: rs =>
    match skip with
    | s + 1 => shrink s rs
    | 0 => r :: shrink (skipOf uid P r rs) rs

theorem takeWhile_mem {β : Type} (p : β → Bool) : ∀ (l : List β) (x : β), x ∈ l.takeWhile p → x ∈ l ∧ p x = true
  | [], _, h => by cases h
  | a :: l, x, h => by
    rw [List.takeWhile_cons] at h
    split at h
    · rename_i hp
      rw [List.mem_cons] at h
      rcases h with rfl | h
      · exact ⟨List.mem_cons_self .., hp⟩
      · obtain ⟨h1, h2⟩ := takeWhile_mem p l x h
        exact ⟨List.mem_cons_of_mem _ h1, h2⟩
    · cases h

theorem join_run_drop (rs : List (Row Tok)) : join (runOf uid rs) ++ join (rs.drop (runOf uid rs).length) = join rs := by
  rw [← join_append]
  have : runOf uid rs ++ rs.drop (runOf uid rs).length = rs := by
    have h := take_runOf uid rs
    calc runOf uid rs ++ rs.drop (runOf uid rs).length
        = rs.take (runOf uid rs).length ++ rs.drop (runOf uid rs).length := by rw [h]
      _ = rs := List.take_append_drop _ _
  rw [this]

theorem piecesN_olds (skip : Nat) (rows : List (Row Tok)) : olds (piecesN uid P skip rows) = join (rows.drop skip) := by
  induction rows generalizing skip with
  | nil => simp [piecesN, olds, join]
  | cons r rs ih =>
    cases skip with
    | succ s => rw [piecesN, ih]; rfl
    | zero =>
      rw [piecesN, olds_cons, List.drop_zero, join_cons]
      unfold skipOf
      by_cases hh : hitN uid P r rs = true
      · simp only [hh, if_true, List.singleton_append, olds_cons, ih, join_run_drop]
      · simp only [hh, Bool.false_eq_true, if_false, List.nil_append, ih, List.drop_zero]

theorem piecesN_news (skip : Nat) (rows : List (Row Tok)) : news (piecesN uid P skip rows) = join (shrink uid P skip rows) := by
  induction rows generalizing skip with
  | nil => simp [piecesN, shrink, news, join]
  | cons r rs ih =>
    cases skip with
    | succ s => rw [piecesN, shrink, ih]
    | zero =>
      rw [piecesN, shrink, news_cons, join_cons]
      by_cases hh : hitN uid P r rs = true
      · simp only [hh, if_true, List.singleton_append, news_cons, ih, List.nil_append]
      · simp only [hh, Bool.false_eq_true, if_false, List.nil_append, ih]

theorem piecesN_hit (skip : Nat) (rows : List (Row Tok)) :
    ∀ p ∈ piecesN uid P skip rows, p.hit = false → p.new = p.old := by
  induction rows generalizing skip with
  | nil => intro p hp; simp [piecesN] at hp
  | cons r rs ih =>
    cases skip with
    | succ s => rw [piecesN]; exact ih s
    | zero =>
      intro p hp hh
      rw [piecesN, List.mem_cons, List.mem_append] at hp
      rcases hp with rfl | hp | hp
      · rfl
      · split at hp
        · simp at hp; subst hp; simp at hh
        · cases hp
      · exact ih _ p hp hh

/-- a row that starts with a blank_line token does not end with a listed token -/
def BlankNotTrig (rows : List (Row Tok)) : Prop := ∀ r ∈ rows, blankStart uid r = true → trigRow uid P.cs r = false

theorem runOf_blank (rs : List (Row Tok)) : ∀ r ∈ runOf uid rs, blankStart uid r = true := by
  intro r hr
  unfold runOf at hr
  exact (takeWhile_mem _ rs r hr).2

theorem fixTok_remove_below (hP : BelowNoBlank P) (v : Viol) (ha : v.act = Act.remove.code) : fixTok P v = [] := by
  unfold fixTok fixE
  rw [hP.fam, ha]
  have : (sRemove == sInsert) = false := by decide
  simp [Act.ofCode, Act.code, Act.str, belowFixV, this, pure, Except.pure]

theorem violsN_edits (hP : BelowNoBlank P) (hO : HOracle) (rows : List (Row Tok))
    (hb : ∀ r ∈ rows, (∀ t ∈ r.1, t.isBof = false) ∧ r.2.isBof = false) (hbt : BlankNotTrig uid P rows) :
    ∀ (skip off line : Nat), (∀ r ∈ rows.take skip, trigRow uid P.cs r = false) →
      (violsN uid P off line rows).map (editOf (sem uid inst P hO)) =
        editsFrom (off + (join (rows.take skip)).length) (piecesN uid P skip rows) := by
  induction rows with
  | nil => intro _ _ _ _; simp [violsN, piecesN, editsFrom]
  | cons r rs ih =>
    have hb' : ∀ x ∈ rs, (∀ t ∈ x.1, t.isBof = false) ∧ x.2.isBof = false := fun x hx => hb x (List.mem_cons_of_mem _ hx)
    have hbt' : BlankNotTrig uid P rs := fun x hx => hbt x (List.mem_cons_of_mem _ hx)
    intro skip off line hsk
    cases skip with
    | succ s =>
      have htr : trigRow uid P.cs r = false := hsk r (by simp)
      rw [violsN, piecesN]
      have hh : hitN uid P r rs = false := by unfold hitN; rw [htr]; rfl
      simp only [hh, Bool.false_eq_true, if_false, List.nil_append]
      rw [ih hb' hbt' s (off + r.1.length + 1) (line + 1) (fun x hx => hsk x (by simp [hx]))]
      congr 1
      simp only [List.take_succ_cons, join_cons, List.length_append, List.length_singleton]
      omega
    | zero =>
      rw [violsN, piecesN, editsFrom]
      simp only [Bool.false_eq_true, if_false, List.take_zero, join, List.flatMap_nil, List.length_nil, Nat.add_zero,
        List.length_append, List.length_singleton]
      by_cases hh : hitN uid P r rs = true
      · have hrun : ∀ x ∈ rs.take (runOf uid rs).length, trigRow uid P.cs x = false := by
          intro x hx
          rw [take_runOf] at hx
          have hxm : x ∈ rs := (takeWhile_mem _ rs x hx).1
          exact hbt' x hxm (runOf_blank uid rs x hx)
        have := ih hb' hbt' (runOf uid rs).length (off + r.1.length + 1) (line + 1) hrun
        rw [take_runOf] at this
        unfold skipOf
        simp only [hh, if_true, List.singleton_append, List.map_cons, editsFrom, this]
        congr 1
        unfold editOf Viol.stop violRun
        have hf : (sem uid inst P hO).fixV (violRun uid (off + r.1.length + 1) line rs) = [] :=
          fixTok_remove_below P hP _ rfl
        unfold violRun at hf
        rw [hf]
        have hnb : dropBof (join (runOf uid rs)) = join (runOf uid rs) := by
          apply dropBof_id'
          intro t ht
          unfold join at ht
          rw [List.mem_flatMap] at ht
          obtain ⟨x, hx, htx⟩ := ht
          have hxm : x ∈ rs := (takeWhile_mem _ rs x hx).1
          rw [List.mem_append] at htx
          rcases htx with htx | htx
          · exact (hb' x hxm).1 t htx
          · simp at htx; subst htx; exact (hb' x hxm).2
        simp only [hnb]
        rfl
      · have := ih hb' hbt' 0 (off + r.1.length + 1) (line + 1) (by intro x hx; simp at hx)
        simp only [List.take_zero, join, List.flatMap_nil, List.length_nil, Nat.add_zero] at this
        unfold skipOf
        simp only [hh, Bool.false_eq_true, if_false, List.nil_append, this, List.take_zero, join, List.flatMap_nil,
          List.length_nil, Nat.add_zero]
        rw [Nat.add_assoc]


/-- the guards about the tokens of the file -/
structure RowsNoBof (rows : List (Row Tok)) : Prop where
  nobof : ∀ r ∈ rows, (∀ t ∈ r.1, t.isBof = false) ∧ r.2.isBof = false

/-- **the file after `Rule.fix`**: every run of blank rows below a trigger row is gone -/
theorem fixAllN_join (hP : BelowNoBlank P) (hO : HOracle) (rows : List (Row Tok)) (h : RowsOk uid rows)
    (hcs : CsOk P.cs) (hnd : NoDupRows uid P.cs rows) (hb : RowsNoBof rows) (hbt : BlankNotTrig uid P rows) :
    fixAll uid inst P hO (join rows) = join (shrink uid P 0 rows) := by
  unfold fixAll
  rw [analyzeN_scan uid inst P hP hO rows h hcs hnd]
  have he := violsN_edits uid inst P hP hO rows hb.nobof hbt 0 0 2 (by intro x hx; simp at hx)
  simp only [List.take_zero, join, List.flatMap_nil, List.length_nil, Nat.add_zero] at he
  have hc := pieces_chain ([] : List Tok) (piecesN uid P 0 rows) []
  simp only [List.nil_append, List.append_nil, List.length_nil] at hc
  rw [← he] at hc
  rw [sortByStart_of_chain _ _ _ _ hc, he]
  have hu := pieces_update (piecesN uid P 0 rows) (piecesN_hit uid P 0 rows)
  rw [piecesN_olds, piecesN_news, List.drop_zero] at hu
  exact hu

theorem shrink_head (skip : Nat) (rows : List (Row Tok)) :
    (shrink uid P skip rows).head? = (rows.drop skip).head? := by
  induction rows generalizing skip with
  | nil => simp [shrink]
  | cons r rs ih =>
    cases skip with
    | succ s => rw [shrink, List.drop_succ_cons, ih]
    | zero => rfl

theorem runOf_nil_of_head (a b : List (Row Tok)) (h : a.head? = b.head?) (hb : runOf uid b = []) : runOf uid a = [] := by
  unfold runOf at hb ⊢
  cases a with
  | nil => rfl
  | cons x a' =>
    cases b with
    | nil => simp at h
    | cons y b' =>
      simp at h
      subst h
      rw [List.takeWhile_cons] at hb ⊢
      split at hb
      · cases hb
      · rename_i hp; simp [hp]

theorem runOf_drop_run (rs : List (Row Tok)) : runOf uid (rs.drop (runOf uid rs).length) = [] := by
  unfold runOf
  induction rs with
  | nil => rfl
  | cons r rs ih =>
    rw [List.takeWhile_cons]
    split
    · simpa using ih
    · rename_i hp
      simp [List.takeWhile_cons, hp]

/-- **the scan of the fixed rows reports nothing** -/
theorem violsN_shrink (rows : List (Row Tok)) : ∀ (skip off line : Nat), violsN uid P off line (shrink uid P skip rows) = [] := by
  induction rows with
  | nil => intro _ _ _; simp [shrink, violsN]
  | cons r rs ih =>
    intro skip off line
    cases skip with
    | succ s => rw [shrink]; exact ih s off line
    | zero =>
      rw [shrink, violsN, ih]
      have hh : hitN uid P r (shrink uid P (skipOf uid P r rs) rs) = false := by
        by_cases ht : trigRow uid P.cs r = true
        · have hrun : runOf uid (shrink uid P (skipOf uid P r rs) rs) = [] := by
            apply runOf_nil_of_head uid _ (rs.drop (skipOf uid P r rs)) (shrink_head uid P _ rs)
            unfold skipOf
            by_cases hh : hitN uid P r rs = true
            · simp only [hh, if_true]; exact runOf_drop_run uid rs
            · simp only [hh, Bool.false_eq_true, if_false, List.drop_zero]
              unfold hitN at hh
              simp only [ht, Bool.true_and, Bool.not_eq_true'] at hh
              cases hr : runOf uid rs with
              | nil => rfl
              | cons a b => rw [hr] at hh; simp at hh
          unfold hitN; rw [hrun]; simp
        · unfold hitN
          have : trigRow uid P.cs r = false := by simpa using ht
          rw [this]; rfl
      simp [hh]


theorem shrink_mem (rows : List (Row Tok)) : ∀ (skip : Nat) (x : Row Tok), x ∈ shrink uid P skip rows → x ∈ rows := by
  induction rows with
  | nil => intro _ x hx; simp [shrink] at hx
  | cons r rs ih =>
    intro skip x hx
    cases skip with
    | succ s => rw [shrink] at hx; exact List.mem_cons_of_mem _ (ih s x hx)
    | zero =>
      rw [shrink, List.mem_cons] at hx
      rcases hx with rfl | hx
      · exact List.mem_cons_self ..
      · exact List.mem_cons_of_mem _ (ih _ x hx)

/-- **whole-rule idempotence of blank_line_below_line_ending_with_token, style no_blank_line** -/
theorem analyze_fixAll_belowNo (hP : BelowNoBlank P) (hO : HOracle) (rows : List (Row Tok)) (h : RowsOk uid rows)
    (hcs : CsOk P.cs) (hnd : NoDupRows uid P.cs rows) (hb : RowsNoBof rows) (hbt : BlankNotTrig uid P rows) :
    (sem uid inst P hO).analyze (fixAll uid inst P hO (join rows)) = [] := by
  rw [fixAllN_join uid inst P hP hO rows h hcs hnd hb hbt,
    analyzeN_scan uid inst P hP hO _
      ⟨fun r hr => h.cr r (shrink_mem uid P rows 0 r hr), fun r hr => h.nocr r (shrink_mem uid P rows 0 r hr)⟩ hcs
      (fun r hr => hnd r (shrink_mem uid P rows 0 r hr))]
  exact violsN_shrink uid P rows 0 0 2

/-- the removed rows hold layout tokens only (a stray blank_line token in front of code is the known defect of the
    blank-line removers) -/
def RunLayout (rows : List (Row Tok)) : Prop := ∀ r ∈ rows, blankStart uid r = true → nonLayout (r.1 ++ [r.2]) = []

theorem nonLayout_join_nil (l : List (Row Tok)) (h : ∀ r ∈ l, nonLayout (r.1 ++ [r.2]) = []) : nonLayout (join l) = [] := by
  induction l with
  | nil => rfl
  | cons r rs ih =>
    rw [join_cons, nonLayout_append, h r (List.mem_cons_self ..), ih (fun x hx => h x (List.mem_cons_of_mem _ hx))]
    rfl

theorem nonLayout_shrink (rows : List (Row Tok)) (hl : RunLayout uid rows) :
    ∀ skip, nonLayout (join (shrink uid P skip rows)) = nonLayout (join (rows.drop skip)) := by
  induction rows with
  | nil => intro _; simp [shrink]
  | cons r rs ih =>
    have hl' : RunLayout uid rs := fun x hx => hl x (List.mem_cons_of_mem _ hx)
    intro skip
    cases skip with
    | succ s => rw [shrink, List.drop_succ_cons]; exact ih hl' s
    | zero =>
      have key : nonLayout (join (rs.drop (skipOf uid P r rs))) = nonLayout (join rs) := by
        unfold skipOf
        by_cases hh : hitN uid P r rs = true
        · simp only [hh, if_true]
          have h1 : nonLayout (join rs) = nonLayout (join (runOf uid rs)) ++ nonLayout (join (rs.drop (runOf uid rs).length)) := by
            rw [← nonLayout_append, join_run_drop]
          rw [h1, nonLayout_join_nil (runOf uid rs) (fun x hx =>
            hl' x (takeWhile_mem _ rs x hx).1 (runOf_blank uid rs x hx))]
          rfl
        · simp only [hh, Bool.false_eq_true, if_false, List.drop_zero]
      rw [shrink, List.drop_zero, join_cons, join_cons]
      simp only [nonLayout_append, ih hl', key]

def sumCr (vs : List Viol) : Nat := (vs.map fun v => (crSeq v.toks).length).sum

theorem crSeq_shrink (rows : List (Row Tok)) (hbt : BlankNotTrig uid P rows) :
    ∀ (skip off line : Nat), (∀ r ∈ rows.take skip, trigRow uid P.cs r = false) →
      (crSeq (join (rows.drop skip))).length =
        (crSeq (join (shrink uid P skip rows))).length + sumCr (violsN uid P off line rows) := by
  induction rows with
  | nil => intro _ _ _ _; simp [shrink, violsN, sumCr, join, crSeq]
  | cons r rs ih =>
    have hbt' : BlankNotTrig uid P rs := fun x hx => hbt x (List.mem_cons_of_mem _ hx)
    intro skip off line hsk
    cases skip with
    | succ s =>
      have htr : trigRow uid P.cs r = false := hsk r (by simp)
      have hh : hitN uid P r rs = false := by unfold hitN; rw [htr]; rfl
      rw [shrink, List.drop_succ_cons, violsN]
      simp only [hh, Bool.false_eq_true, if_false, List.nil_append]
      exact ih hbt' s _ _ (fun x hx => hsk x (by simp [hx]))
    | zero =>
      rw [shrink, List.drop_zero, join_cons, join_cons, violsN]
      simp only [crSeq_append, List.length_append]
      unfold skipOf
      by_cases hh : hitN uid P r rs = true
      · have hrun : ∀ x ∈ rs.take (runOf uid rs).length, trigRow uid P.cs x = false := by
          intro x hx
          rw [take_runOf] at hx
          exact hbt' x (takeWhile_mem _ rs x hx).1 (runOf_blank uid rs x hx)
        have := ih hbt' (runOf uid rs).length (off + r.1.length + 1) (line + 1) hrun
        have hsplit : (crSeq (join rs)).length =
            (crSeq (join (runOf uid rs))).length + (crSeq (join (rs.drop (runOf uid rs).length))).length := by
          have h1 := congrArg (fun l => (crSeq l).length) (join_run_drop uid rs)
          simp only [crSeq_append, List.length_append] at h1
          omega
        simp only [hh, if_true, sumCr, List.singleton_append, List.map_cons, List.sum_cons, violRun] at this ⊢
        omega
      · have := ih hbt' 0 (off + r.1.length + 1) (line + 1) (by intro x hx; simp at hx)
        simp only [List.drop_zero] at this
        simp only [hh, Bool.false_eq_true, if_false, List.nil_append]
        omega

/-- **whole rule: layout-only, and the line count drops by exactly the line breaks of the removed rows** -/
theorem fixAll_belowNo_effect (hP : BelowNoBlank P) (hO : HOracle) (rows : List (Row Tok)) (h : RowsOk uid rows)
    (hcs : CsOk P.cs) (hnd : NoDupRows uid P.cs rows) (hb : RowsNoBof rows) (hbt : BlankNotTrig uid P rows) :
    (RunLayout uid rows → LayoutOnly (join rows) (fixAll uid inst P hO (join rows))) ∧
    (crSeq (join rows)).length =
      (crSeq (fixAll uid inst P hO (join rows))).length + sumCr ((sem uid inst P hO).analyze (join rows)) := by
  rw [fixAllN_join uid inst P hP hO rows h hcs hnd hb hbt, analyzeN_scan uid inst P hP hO rows h hcs hnd]
  constructor
  · intro hl
    have := nonLayout_shrink uid P rows hl 0
    rw [List.drop_zero] at this
    exact this.symm
  · have := crSeq_shrink uid P rows hbt 0 0 2 (by intro x hx; simp at hx)
    rw [List.drop_zero] at this
    exact this

end Vsgm.BFull2.VSpace
