/-
  B-full for vsg/rules/whitespace_between_tokens.py: `_analyze` ∘ `_fix_violation`.
  (a) idempotence: after the fix the analysis of the new tokens is clean (with the exact guard),
      and the oscillation of the strict forms `>N` / `<N` proved for every N;
  (b) locality: the fix touches only the gap between `lTokens[0]` and the next non-whitespace token.
-/
import VsgProofs.Lemmas.BaseWhitespace
namespace Vsgm.Base.WsBetween
open Vsgm Vsgm.Base

/-! ### the transcription and the parsed-form view agree -/

theorem isLt_of_isLte (s : Str) (h : isLte s = true) : isLt s = true := by
  unfold isLte at h; unfold isLt
  unfold lit at h ⊢
  cases s with
  | nil => simp at h
  | cons c r =>
    have : "<=".toList = ['<', '='] := rfl
    rw [this] at h
    have : "<".toList = ['<'] := rfl
    rw [this]
    simp only [List.isPrefixOf, Bool.and_eq_true, beq_iff_eq] at h ⊢
    obtain ⟨hc, _⟩ := h
    subst hc; simp

theorem analyzeWs_eq (nos : NoS) (w : Nat) : analyzeWs nos w = analyzeWsF (formOf nos) w := by
  cases nos with
  | int n => rfl
  | str s =>
    simp only [analyzeWs, formOf]
    by_cases h1 : isGte s = true
    · simp only [h1, if_true]; rfl
    · simp only [h1, Bool.false_eq_true, if_false]
      by_cases h2 : isGt s = true
      · simp only [h2, if_true]; rfl
      · simp only [h2, Bool.false_eq_true, if_false]
        by_cases h3 : isLte s = true
        · simp only [h3, if_true]; rfl
        · simp only [h3, Bool.false_eq_true, if_false]
          by_cases h4 : isLt s = true
          · simp only [h4, if_true]; rfl
          · simp only [h4, Bool.false_eq_true, if_false]
            by_cases h5 : isPlus s = true
            · simp only [h5, if_true]; rfl
            · simp only [h5, Bool.false_eq_true, if_false]; rfl

theorem map_some_bind (e : Except PyErr Int) :
    (do let x ← (e.map some : Except PyErr (Option Int))
        pure (Finding.spaces (match x with | some k => Val.int k | none => Val.none)) : Except PyErr Finding)
      = (do let k ← e; pure (Finding.spaces (.int k))) := by
  cases e <;> rfl

theorem analyzeNoWs_eq (nos : NoS) : analyzeNoWs nos = analyzeNoWsF (formOf nos) := by
  cases nos with
  | int n => rfl
  | str s =>
    simp only [analyzeNoWs, formOf, expected]
    by_cases h3 : isLte s = true
    · have h4 := isLt_of_isLte s h3
      have h1 : isGte s = false := by
        unfold isLte at h3; unfold isGte; unfold lit at h3 ⊢
        cases s with
        | nil => simp at h3
        | cons c r =>
          have e1 : "<=".toList = ['<', '='] := rfl
          have e2 : ">=".toList = ['>', '='] := rfl
          rw [e1] at h3; rw [e2]
          simp only [List.isPrefixOf, Bool.and_eq_true, beq_iff_eq] at h3
          obtain ⟨hc, _⟩ := h3
          subst hc; simp [List.isPrefixOf]
      have h2 : isGt s = false := by
        unfold isLte at h3; unfold isGt; unfold lit at h3 ⊢
        cases s with
        | nil => simp at h3
        | cons c r =>
          have e1 : "<=".toList = ['<', '='] := rfl
          have e2 : ">".toList = ['>'] := rfl
          rw [e1] at h3; rw [e2]
          simp only [List.isPrefixOf, Bool.and_eq_true, beq_iff_eq] at h3
          obtain ⟨hc, _⟩ := h3
          subst hc; simp [List.isPrefixOf]
      simp only [h3, h4, h1, h2, Bool.and_self, if_true, Bool.false_eq_true, if_false]
      rfl
    · have hc : (isLte s && isLt s) = false := by simp [h3]
      simp only [hc, Bool.false_eq_true, if_false]
      by_cases h1 : isGte s = true
      · simp only [h1, if_true]; exact map_some_bind _
      · simp only [h1, Bool.false_eq_true, if_false]
        by_cases h2 : isGt s = true
        · simp only [h2, if_true]; exact map_some_bind _
        · simp only [h2, h3, Bool.false_eq_true, if_false]
          by_cases h4 : isLt s = true
          · simp only [h4, if_true]; exact map_some_bind _
          · simp only [h4, Bool.false_eq_true, if_false]
            by_cases h5 : isPlus s = true
            · simp only [h5, if_true]; exact map_some_bind _
            · simp only [h5, Bool.false_eq_true, if_false]; rfl

/-- the transcription of `_analyze` decides exactly as the parsed-form view does -/
theorem judge_eq (nos : NoS) (w : Option Nat) : judge nos w = judgeF (formOf nos) w := by
  cases w with
  | none => exact analyzeNoWs_eq nos
  | some n => simp only [judge, judgeF, analyzeWs_eq]

/-! ### (a) idempotence of the decision -/

theorem a_lt (k : Int) : ¬ ((k.toNat : Int) < k) := by omega
theorem a_gt (k : Int) (h : 0 ≤ k) : ¬ ((k.toNat : Int) > k) := by omega

/-- one fix makes the decision clean: for every form and every recorded width, under the guard -/
theorem judgeF_idem (f : Form) (w : Option Nat) (k : Int)
    (hj : judgeF f w = .ok (.spaces (.int k))) (hg : idemGuardF f w.isSome = true) :
    judgeF f (some k.toNat) = .ok .clean := by
  cases f with
  | exact n =>
    simp only [idemGuardF, decide_eq_true_eq] at hg
    have hk : k = n := by
      cases w with
      | none =>
        simp only [judgeF, analyzeNoWsF] at hj
        by_cases hn : (n != 0) = true
        · rw [if_pos hn] at hj; cases hj; rfl
        · rw [if_neg hn] at hj; cases hj
      | some m =>
        simp only [judgeF, analyzeWsF, bind, Except.bind, pure, Except.pure] at hj
        by_cases hn : ((m : Int) != n) = true
        · rw [if_pos hn] at hj; cases hj; rfl
        · rw [if_neg hn] at hj; cases hj
    subst hk
    simp only [judgeF, analyzeWsF, bind, Except.bind, pure, Except.pure]
    have : ¬ (((k.toNat : Int) != k) = true) := by
      have : (k.toNat : Int) = k := by omega
      rw [this]; simp
    rw [if_neg this]
  | gte e =>
    cases e with
    | error err => cases w <;> simp [judgeF, analyzeWsF, analyzeNoWsF, bind, Except.bind] at hj
    | ok j =>
      have hk : k = j := by
        cases w with
        | none => simp only [judgeF, analyzeNoWsF, bind, Except.bind, pure, Except.pure] at hj; cases hj; rfl
        | some m =>
          simp only [judgeF, analyzeWsF, bind, Except.bind, pure, Except.pure] at hj
          by_cases hc : (m : Int) < j
          · rw [if_pos hc] at hj; cases hj; rfl
          · rw [if_neg hc] at hj; cases hj
      subst hk
      simp only [judgeF, analyzeWsF, bind, Except.bind, pure, Except.pure]
      rw [if_neg (a_lt k)]
  | plus e =>
    cases e with
    | error err => cases w <;> simp [judgeF, analyzeWsF, analyzeNoWsF, bind, Except.bind] at hj
    | ok j =>
      have hk : k = j := by
        cases w with
        | none => simp only [judgeF, analyzeNoWsF, bind, Except.bind, pure, Except.pure] at hj; cases hj; rfl
        | some m =>
          simp only [judgeF, analyzeWsF, bind, Except.bind, pure, Except.pure] at hj
          by_cases hc : (m : Int) < j
          · rw [if_pos hc] at hj; cases hj; rfl
          · rw [if_neg hc] at hj; cases hj
      subst hk
      simp only [judgeF, analyzeWsF, bind, Except.bind, pure, Except.pure]
      rw [if_neg (a_lt k)]
  | gt e =>
    cases e with
    | error err => cases w <;> simp [judgeF, analyzeWsF, analyzeNoWsF, bind, Except.bind] at hj
    | ok j =>
      simp only [judgeF, analyzeWsF, bind, Except.bind, pure, Except.pure]
      cases w with
      | none =>
        simp only [judgeF, analyzeNoWsF, bind, Except.bind, pure, Except.pure] at hj
        cases hj
        simp only [idemGuardF, Option.isSome_none, Bool.false_or, decide_eq_true_eq] at hg
        have : ¬ ((k.toNat : Int) < k + 1) := by omega
        rw [if_neg this]
      | some m =>
        simp only [judgeF, analyzeWsF, bind, Except.bind, pure, Except.pure] at hj
        by_cases hc : (m : Int) < j + 1
        · rw [if_pos hc] at hj; cases hj
          have : ¬ (((j + 1).toNat : Int) < j + 1) := by omega
          rw [if_neg this]
        · rw [if_neg hc] at hj; cases hj
  | lte e =>
    cases e with
    | error err => cases w <;> simp [judgeF, analyzeWsF, analyzeNoWsF, bind, Except.bind] at hj
    | ok j =>
      simp only [judgeF, analyzeWsF, bind, Except.bind, pure, Except.pure]
      simp only [idemGuardF, decide_eq_true_eq] at hg
      cases w with
      | none => simp [judgeF, analyzeNoWsF] at hj
      | some m =>
        simp only [judgeF, analyzeWsF, bind, Except.bind, pure, Except.pure] at hj
        by_cases hc : (m : Int) > j
        · rw [if_pos hc] at hj; cases hj
          rw [if_neg (a_gt k hg)]
        · rw [if_neg hc] at hj; cases hj
  | lt e =>
    cases e with
    | error err => cases w <;> simp [judgeF, analyzeWsF, analyzeNoWsF, bind, Except.bind] at hj
    | ok j =>
      simp only [judgeF, analyzeWsF, bind, Except.bind, pure, Except.pure]
      cases w with
      | none => simp [idemGuardF] at hg
      | some m =>
        simp only [idemGuardF, Option.isSome_some, Bool.true_and, decide_eq_true_eq] at hg
        simp only [judgeF, analyzeWsF, bind, Except.bind, pure, Except.pure] at hj
        by_cases hc : (m : Int) > j - 1
        · rw [if_pos hc] at hj; cases hj
          have : ¬ (((j - 1).toNat : Int) > j - 1) := by omega
          rw [if_neg this]
        · rw [if_neg hc] at hj; cases hj
  | unknown =>
    cases w with
    | none => simp [judgeF, analyzeNoWsF] at hj
    | some m => simp [judgeF, analyzeWsF, bind, Except.bind, pure, Except.pure] at hj

/-- **the oscillation, for every N ≥ 0**: with `>N` and no whitespace the analysis records N; on a whitespace
    of that width the very same analysis asks for N + 1 -/
theorem judgeF_gt_oscillates (k : Int) (hk : 0 ≤ k) :
    judgeF (.gt (.ok k)) none = .ok (.spaces (.int k)) ∧
    judgeF (.gt (.ok k)) (some k.toNat) = .ok (.spaces (.int (k + 1))) := by
  refine ⟨rfl, ?_⟩
  simp only [judgeF, analyzeWsF, bind, Except.bind, pure, Except.pure]
  have : (k.toNat : Int) < k + 1 := by omega
  rw [if_pos this]

/-- … and with `<N` (any N): records N, then asks for N − 1 -/
theorem judgeF_lt_oscillates (k : Int) :
    judgeF (.lt (.ok k)) none = .ok (.spaces (.int k)) ∧
    judgeF (.lt (.ok k)) (some k.toNat) = .ok (.spaces (.int (k - 1))) := by
  refine ⟨rfl, ?_⟩
  simp only [judgeF, analyzeWsF, bind, Except.bind, pure, Except.pure]
  have : (k.toNat : Int) > k - 1 := by omega
  rw [if_pos this]

/-! ### what the fix does to the token list -/

theorem fix0_shape (wsCls : Nat) (action : KV) (l l' : List Tok) (hf : fixV wsCls (.int 0) action l = .ok l') :
    ∃ a x b rest, l = a :: x :: b :: rest ∧ l' = [a, b] := by
  unfold fixV at hf
  simp only [beq_self_eq_true, if_true, bind, Except.bind, pure, Except.pure] at hf
  cases ha : pyGet l 0 with
  | error e => simp [ha] at hf
  | ok a =>
    cases hb : pyGet l 2 with
    | error e => simp [ha, hb] at hf
    | ok b =>
      simp only [ha, hb] at hf
      cases hf
      have ha' := pyGet_nat_ok l 0 a ha
      have hb' := pyGet_nat_ok l 2 b hb
      match l, ha', hb' with
      | x :: y :: z :: rest, ha', hb' =>
        simp at ha' hb'; subst ha'; subst hb'
        exact ⟨x, y, z, rest, rfl, rfl⟩

theorem fix_shape (wsCls : Nat) (nos : NoS) (action : KV) (l l' : List Tok) (hn0 : nos ≠ .int 0)
    (hf : fixV wsCls nos action l = .ok l') :
    ∃ a t1 rest sp k, l = a :: t1 :: rest ∧ actionGet action "spaces" = .ok sp ∧ asInt sp = some k ∧
      ((t1.kind = .ws ∧ l' = a :: { t1 with val := spaces k } :: rest) ∨
       (t1.kind ≠ .ws ∧ l' = a :: mkWs wsCls (spaces k) :: t1 :: rest)) := by
  unfold fixV at hf
  have hne : (nos == NoS.int 0) = false := by simpa using hn0
  simp only [hne, Bool.false_eq_true, if_false, bind, Except.bind] at hf
  cases h1 : pyGet l 1 with
  | error e => simp [h1] at hf
  | ok t1 =>
    simp only [h1] at hf
    have h1' := pyGet_nat_ok l 1 t1 h1
    match l, h1' with
    | a :: y :: rest, h1' =>
      simp at h1'; subst h1'
      by_cases hw : (y.kind == Kind.ws) = true
      · simp only [hw, if_true] at hf
        cases hsp : actionGet action "spaces" with
        | error e => simp [hsp] at hf
        | ok sp =>
          simp only [hsp] at hf
          unfold mulSpace at hf
          cases hk : asInt sp with
          | none => simp [hk] at hf
          | some k =>
            simp only [hk] at hf
            obtain ⟨j, hj, hr⟩ := pySet_eq _ _ _ _ hf
            have := pyIdx_nat (a :: y :: rest).length 1
            simp only [Int.natCast_one] at this
            rw [this] at hj
            simp at hj; subst hj
            refine ⟨a, y, rest, sp, k, rfl, rfl, hk, Or.inl ⟨by simpa using hw, ?_⟩⟩
            simpa using hr
      · simp only [hw, Bool.false_eq_true, if_false] at hf
        cases hsp : actionGet action "spaces" with
        | error e => simp [hsp] at hf
        | ok sp =>
          simp only [hsp] at hf
          unfold insertWhitespace mulSpace at hf
          cases hk : asInt sp with
          | none => simp [hk, bind, Except.bind] at hf
          | some k =>
            simp only [hk, bind, Except.bind] at hf
            obtain ⟨_, hr⟩ := insertTokenV_ok _ _ _ _ hf
            have hpos : insPosV (a :: y :: rest).length (.int 1) = 1 := by
              simp only [insPosV, asInt, insPos, List.length_cons]
              have : ¬ ((1 : Int) < 0) := by omega
              simp only [this, if_false]
              omega
            rw [hpos] at hr
            refine ⟨a, y, rest, sp, k, rfl, rfl, hk, Or.inr ⟨by simpa using hw, ?_⟩⟩
            simpa using hr

/-- (b) **locality**: whatever the action, the fix leaves `lTokens[0]` and everything from the first
    non-whitespace token after it untouched; what it changes, inserts or removes is one whitespace token
    directly after `lTokens[0]` (with `number_of_spaces = 0`: for a three-token TOI) -/
theorem fix_local (wsCls : Nat) (nos : NoS) (action : KV) (l l' : List Tok)
    (h3 : nos = .int 0 → l.length = 3 ∧ ∀ t, l[1]? = some t → t.kind = .ws)
    (hf : fixV wsCls nos action l = .ok l') :
    ∃ a mid mid' tail, l = a :: mid ++ tail ∧ l' = a :: mid' ++ tail ∧
      mid.length ≤ 1 ∧ mid'.length ≤ 1 ∧ (∀ t ∈ mid, t.kind = .ws) ∧ (∀ t ∈ mid', t.kind = .ws) := by
  by_cases h0 : nos = .int 0
  · subst h0
    obtain ⟨a, x, b, rest, rfl, rfl⟩ := fix0_shape wsCls action l l' hf
    obtain ⟨hl, hx⟩ := h3 rfl
    have hr : rest = [] := by
      simp only [List.length_cons] at hl
      exact List.eq_nil_of_length_eq_zero (by omega)
    subst hr
    exact ⟨a, [x], [], [b], rfl, rfl, by simp, by simp, by simpa using hx, by simp⟩
  · obtain ⟨a, t1, rest, sp, k, rfl, _, _, h | h⟩ := fix_shape wsCls nos action l l' h0 hf
    · obtain ⟨hk, rfl⟩ := h
      exact ⟨a, [t1], [{ t1 with val := spaces k }], rest, rfl, rfl, by simp, by simp, by simpa using hk, by simpa using hk⟩
    · obtain ⟨_, rfl⟩ := h
      exact ⟨a, [], [mkWs wsCls (spaces k)], t1 :: rest, rfl, rfl, by simp, by simp, by simp, by simp [mkWs]⟩

/-! ### (a) idempotence on token lists -/

theorem judge_spaces_form (nos : NoS) (w : Option Nat) (sp : Val) (h : judge nos w = .ok (.spaces sp)) :
    (∃ k, sp = .int k) ∨ sp = .none := by
  rw [judge_eq] at h
  cases w with
  | some n =>
    simp only [judgeF, bind, Except.bind, pure, Except.pure] at h
    cases hr : analyzeWsF (formOf nos) n with
    | error e => simp [hr] at h
    | ok r =>
      simp only [hr] at h
      cases r with
      | none => simp at h
      | some k => simp at h; exact Or.inl ⟨k, h.symm⟩
  | none =>
    simp only [judgeF] at h
    cases hf : formOf nos with
    | exact n =>
      simp only [hf, analyzeNoWsF] at h
      split at h
      · cases h; exact Or.inl ⟨_, rfl⟩
      · cases h
    | lte e => simp [hf, analyzeNoWsF] at h
    | unknown => simp only [hf, analyzeNoWsF] at h; cases h; exact Or.inr rfl
    | gte e => cases e <;> simp [hf, analyzeNoWsF, bind, Except.bind, pure, Except.pure] at h; exact Or.inl ⟨_, h.symm⟩
    | gt e => cases e <;> simp [hf, analyzeNoWsF, bind, Except.bind, pure, Except.pure] at h; exact Or.inl ⟨_, h.symm⟩
    | lt e => cases e <;> simp [hf, analyzeNoWsF, bind, Except.bind, pure, Except.pure] at h; exact Or.inl ⟨_, h.symm⟩
    | plus e => cases e <;> simp [hf, analyzeNoWsF, bind, Except.bind, pure, Except.pure] at h; exact Or.inl ⟨_, h.symm⟩

theorem wsAt_cons_ws (a w : Tok) (rest : List Tok) (hw : w.kind = .ws) (hr : rest ≠ []) :
    wsAt (a :: w :: rest) = .ok (some w.val.length) := by
  unfold wsAt
  have : ((a :: w :: rest).length == 2) = false := by
    cases rest with
    | nil => exact absurd rfl hr
    | cons x r => simp
  simp only [this, Bool.false_eq_true, if_false, bind, Except.bind]
  have hg : pyGet (a :: w :: rest) 1 = .ok w := by
    unfold pyGet
    have := pyIdx_nat (a :: w :: rest).length 1
    simp only [Int.natCast_one] at this
    rw [this]; simp
  rw [hg]; simp [hw, pure, Except.pure]

/-- **C10 for `whitespace_between_tokens`**: if `_analyze` records a violation on a TOI and `_fix_violation`
    returns, `_analyze` finds nothing on the repaired tokens — for every TOI and every `number_of_spaces`
    admitted by the guard -/
theorem analyze_fix_idem (wsCls : Nat) (nos : NoS) (l l' : List Tok) (sp : Val)
    (ha : analyzeToi nos l = .ok (.spaces sp)) (hf : fixV wsCls nos [("spaces", sp)] l = .ok l')
    (hs : shapeOk l = true) (hg : idemGuard nos l = true) : analyzeToi nos l' = .ok .clean := by
  by_cases h0 : nos = .int 0
  · subst h0
    obtain ⟨a, x, b, rest, _, rfl⟩ := fix0_shape wsCls _ l l' hf
    rfl
  · obtain ⟨a, t1, rest, sp', k, rfl, hsp, hk, hcase⟩ := fix_shape wsCls nos _ l l' h0 hf
    have hsp' : sp' = sp := by
      simp [actionGet, actionIsNone, KV.get] at hsp; exact hsp.symm
    subst hsp'
    unfold analyzeToi at ha
    simp only [bind, Except.bind] at ha
    cases hw : wsAt (a :: t1 :: rest) with
    | error e => simp [hw] at ha
    | ok w =>
      simp only [hw] at ha
      have hint : sp' = .int k := by
        rcases judge_spaces_form nos w sp' ha with ⟨k', hk'⟩ | hn
        · subst hk'; simp [asInt] at hk; rw [hk]
        · subst hn; simp [asInt] at hk
      subst hint
      have hhas : hasWs (a :: t1 :: rest) = w.isSome := by
        unfold hasWs; rw [hw]; cases w <;> rfl
      unfold idemGuard at hg
      rw [hhas] at hg
      rw [judge_eq] at ha
      have hclean := judgeF_idem (formOf nos) w k ha hg
      have hview : wsAt l' = .ok (some k.toNat) := by
        rcases hcase with ⟨hkws, rfl⟩ | ⟨hnws, rfl⟩
        · have hrest : rest ≠ [] := by
            intro he; subst he
            simp [shapeOk, hkws] at hs
          have := wsAt_cons_ws a { t1 with val := spaces k } rest hkws hrest
          simpa [spaces] using this
        · have := wsAt_cons_ws a (mkWs wsCls (spaces k)) (t1 :: rest) rfl (by simp)
          simpa [spaces, mkWs] using this
      unfold analyzeToi
      simp only [hview, bind, Except.bind]
      rw [judge_eq]; exact hclean

/-- the analysis of a TOI depends on its whitespace view only: any re-extracted TOI with the same view
    (same first two tokens, length 2 or not) is judged the same -/
theorem analyzeToi_of_view (nos : NoS) (l m : List Tok) (h : wsAt l = wsAt m) : analyzeToi nos l = analyzeToi nos m := by
  unfold analyzeToi; rw [h]

end Vsgm.Base.WsBetween
