/-
  WP2 — the indent family as a whole rule: the analysis of `BFull2/Indent.lean` (index-based transcription) is
  a left-to-right scan of the token list; the file after `Rule.fix` is the concatenation of per-piece results;
  the scan of that file reports nothing.
-/
import VsgModel.BFull2.Indent
import VsgProofs.Lemmas.BFull2Bridge
import VsgProofs.Lemmas.BFull2Pieces
import VsgProofs.Lemmas.BaseIndent
import VsgProofs.Lemmas.SortByStart
namespace Vsgm.BFull2
open Vsgm Vsgm.TM Vsgm.TM.Lemmas

variable (uid : Tok → Option Key) (P : Params) (ind : Oracle)

/-- `get_line_number_of_index` of the position that follows `pre` -/
def lineP (pre : List Tok) : Nat := 1 + countKey crKey (pre.map uid)

/-- the violation for region `toks` starting at `s` whose matched token has ordinal `o` -/
def mkViol (line s : Nat) (toks : List Tok) (o : Nat) : Option Viol :=
  match judge P.style P.size (fun _ => ind o) toks with
  | none => none
  | some al => some { line := line, start := s, toks := toks, act := encAct al.1 al.2 }

/-- what the rule reports for the token `x` that follows `pre` -/
def vOf (pre : List Tok) (x : Tok) : Option Viol :=
  if matchB uid P.cs x then
    match regionAt uid pre x with
    | none => none
    | some r => mkViol P ind (lineP uid pre) r.1 r.2 (ordOf uid pre)
  else none

/-- the analysis as a scan -/
def scanA (pre : List Tok) : List Tok → List Viol
  | [] => []
  | x :: r => (vOf uid P ind pre x).toList ++ scanA (pre ++ [x]) r

/-- the configured styles (`indent_style` documents exactly these two) -/
def StyleOk : Prop := P.style = Base.Indent.sSpaces ∨ P.style = Base.Indent.sSmartTabs

theorem judge_congr (style : Str) (size : Int) (i1 i2 : Nat → Option Int) (l : List Tok)
    (h : i1 (l.length - 1) = i2 (l.length - 1)) : judge style size i1 l = judge style size i2 l := by
  unfold judge
  match l with
  | [] => rfl
  | [_] => simp at h; simp [h]
  | [_, _] => simp at h; simp [h]
  | _ :: _ :: _ :: _ => rfl

theorem regionAt_cases (pre : List Tok) (x : Tok) (r : Nat × List Tok) (h : regionAt uid pre x = some r) :
    (lastCr uid pre = true ∧ r = (pre.length, [x])) ∨
    (lastCr uid pre = false ∧ ∃ w, crWs uid pre = some w ∧ 2 ≤ pre.length ∧ r = (pre.length - 1, [w, x])) := by
  unfold regionAt at h
  by_cases hc : lastCr uid pre = true
  · simp [hc] at h; exact Or.inl ⟨hc, h.symm⟩
  · have hc' : lastCr uid pre = false := by simpa using hc
    simp only [hc', Bool.false_eq_true, if_false] at h
    cases hw : crWs uid pre with
    | none => simp [hw] at h
    | some w =>
      simp [hw] at h
      refine Or.inr ⟨hc', w, rfl, ?_, h.symm⟩
      unfold crWs back at hw
      by_cases h2 : 2 ≤ pre.length
      · exact h2
      · simp [h2] at hw

theorem smartTabs_ne_spaces : (Base.Indent.sSmartTabs == Base.Indent.sSpaces) = false := by decide

theorem solution_ok (hs : StyleOk P) (a : Act) (lvl : Int) : ∃ s, solution P.style P.size a lvl = .ok s := by
  unfold solution
  cases a with
  | remove => exact ⟨_, rfl⟩
  | adjust =>
    rcases hs with h | h
    · rw [h]; simp only [beq_self_eq_true, if_true]; exact ⟨_, rfl⟩
    · rw [h]; simp only [smartTabs_ne_spaces, Bool.false_eq_true, if_false, beq_self_eq_true, if_true]; exact ⟨_, rfl⟩
  | add =>
    rcases hs with h | h
    · rw [h]; simp only [beq_self_eq_true, if_true]; exact ⟨_, rfl⟩
    · rw [h]; simp only [smartTabs_ne_spaces, Bool.false_eq_true, if_false, beq_self_eq_true, if_true]; exact ⟨_, rfl⟩

theorem fmE_ok {ε β γ : Type} (g : β → Except ε (Option γ)) (h : β → Option γ) (l : List β)
    (hg : ∀ b ∈ l, g b = .ok (h b)) : fmE g l = .ok (l.filterMap h) := by
  induction l with
  | nil => rfl
  | cons b bs ih =>
    have hb := hg b (List.mem_cons_self ..)
    have := ih (fun x hx => hg x (List.mem_cons_of_mem _ hx))
    unfold fmE
    rw [hb, this]
    cases hh : h b <;> simp [hh]

theorem filterMap_ext_mem {β γ : Type} (g h : β → Option γ) (l : List β) (e : ∀ b ∈ l, g b = h b) :
    l.filterMap g = l.filterMap h := by
  induction l with
  | nil => rfl
  | cons b bs ih =>
    rw [List.filterMap_cons, List.filterMap_cons, e b (List.mem_cons_self ..),
      ih (fun x hx => e x (List.mem_cons_of_mem _ hx))]

/-- the violation of one region, without the solution text -/
def violOfO (f : List Tok) (t : Toi Tok) : Option Viol :=
  match t.start with
  | none => none
  | some s =>
    match judge P.style P.size (fun k => indAt uid ind f (s.toNat + k)) t.toks with
    | none => none
    | some al => some { line := t.line, start := s.toNat, toks := t.toks, act := encAct al.1 al.2 }

theorem violOf_ok (hs : StyleOk P) (f : List Tok) (t : Toi Tok) :
    ∃ o, violOf uid P ind f t = .ok o ∧ o.map (·.1) = violOfO uid P ind f t := by
  unfold violOf violOfO
  cases t.start with
  | none => exact ⟨none, rfl, rfl⟩
  | some s =>
    simp only
    cases judge P.style P.size (fun k => indAt uid ind f (s.toNat + k)) t.toks with
    | none => exact ⟨none, rfl, rfl⟩
    | some al =>
      obtain ⟨a, lvl⟩ := al
      obtain ⟨sol, hsol⟩ := solution_ok P hs a lvl
      simp only [hsol]
      exact ⟨_, rfl, rfl⟩

theorem fmE_map_ok {β γ δ : Type} (g : β → Except RErr (Option γ)) (h : β → Option δ) (p : γ → δ) (l : List β)
    (hg : ∀ b ∈ l, ∃ o, g b = .ok o ∧ o.map p = h b) : ∃ r, fmE g l = .ok r ∧ r.map p = l.filterMap h := by
  induction l with
  | nil => exact ⟨[], rfl, rfl⟩
  | cons b bs ih =>
    obtain ⟨o, ho, hm⟩ := hg b (List.mem_cons_self ..)
    obtain ⟨r, hr, hrm⟩ := ih (fun x hx => hg x (List.mem_cons_of_mem _ hx))
    unfold fmE
    rw [ho, hr]
    cases o with
    | none => simp at hm; exact ⟨r, rfl, by rw [List.filterMap_cons, ← hm]; exact hrm⟩
    | some c => simp at hm; exact ⟨c :: r, rfl, by rw [List.filterMap_cons, ← hm]; simp [hrm]⟩

/-- one position of the file -/
theorem vAt_eq (f : List Tok) (i : Nat) (hi : i < f.length) :
    (if candB uid P.cs f i = true then (bolAt uid f i).bind (violOfO uid P ind f) else none) =
      vOf uid P ind (f.take i) f[i] := by
  unfold candB vOf bolAt
  rw [List.getElem?_eq_getElem hi]
  simp only
  by_cases hm : matchB uid P.cs f[i] = true
  · simp only [hm, if_true]
    cases hr : regionAt uid (f.take i) f[i] with
    | none => rfl
    | some r =>
      simp only [Option.map_some, Option.bind_some]
      unfold violOfO mkViol
      simp only [Int.toNat_natCast]
      have hlen : (f.take i).length = i := by simp [Nat.min_eq_left (Nat.le_of_lt hi)]
      have hj : judge P.style P.size (fun k => indAt uid ind f (r.1 + k)) r.2 =
          judge P.style P.size (fun _ => ind (ordOf uid (f.take i))) r.2 := by
        apply judge_congr
        unfold indAt
        rcases regionAt_cases uid _ _ _ hr with ⟨_, rfl⟩ | ⟨_, w, _, h2, rfl⟩
        · simp [hlen]
        · simp only [List.length_cons, List.length_nil, hlen]
          rw [hlen] at h2
          have : i - 1 + (0 + 1 + 1 - 1) = i := by omega
          rw [this]
      rw [hj]
      have hl : lineNo uid f i = lineP uid (f.take i) := by
        unfold lineNo lineP; rw [List.map_take]
      rw [hl]
  · simp [hm]

theorem scanA_range (pre l : List Tok) :
    scanA uid P ind pre l =
      (List.range l.length).filterMap (fun i => match l[i]? with
        | some x => vOf uid P ind (pre ++ l.take i) x
        | none => none) := by
  induction l generalizing pre with
  | nil => rfl
  | cons x r ih =>
    rw [scanA, ih (pre ++ [x]), List.length_cons, List.range_succ_eq_map, List.filterMap_cons, List.filterMap_map]
    simp only [List.getElem?_cons_zero, List.take_zero, List.append_nil]
    have : (List.range r.length).filterMap ((fun i => match (x :: r)[i]? with
        | some y => vOf uid P ind (pre ++ (x :: r).take i) y
        | none => none) ∘ Nat.succ) =
        (List.range r.length).filterMap (fun i => match r[i]? with
        | some y => vOf uid P ind (pre ++ [x] ++ r.take i) y
        | none => none) := by
      apply filterMap_ext_mem
      intro i _
      simp [Function.comp]
    rw [this]
    cases vOf uid P ind pre x <;> rfl

/-- **the analysis of the plain `token_indent` rule is the scan** — for every token list, indent oracle,
    `lTokens` satisfying `CsOk`, the two documented styles and every `indent_size` -/
theorem analyze_eq_scanA (hv : P.variant = .plain) (hcs : CsOk P.cs) (hs : StyleOk P) (f : List Tok) :
    (sem uid P ind).analyze f = scanA uid P ind [] f := by
  unfold sem
  simp only
  unfold analyzeE analyzeWith toisWith
  rw [hv]
  simp only
  rw [tokensAtBolMatching_fresh uid f P.cs hcs]
  simp only [liftTM]
  obtain ⟨r, hr, hrm⟩ := fmE_map_ok (violOf uid P ind f) (violOfO uid P ind f) (·.1)
    (((List.range f.length).filter (candB uid P.cs f)).filterMap (bolAt uid f))
    (fun t _ => violOf_ok uid P ind hs f t)
  rw [hr]
  simp only
  rw [hrm, List.filterMap_filterMap, List.filterMap_filter, scanA_range]
  apply filterMap_ext_mem
  intro i hi
  rw [List.mem_range] at hi
  simp only [List.nil_append, List.getElem?_eq_getElem hi]
  exact vAt_eq uid P ind f i hi


/-! ### context of a position: what the scan reads of the prefix -/

theorem back_snoc_one (pre : List Tok) (x : Tok) : back (pre ++ [x]) 1 = some x := by
  unfold back; simp

theorem back_snoc_two (pre : List Tok) (x : Tok) : back (pre ++ [x]) 2 = back pre 1 := by
  unfold back
  simp only [List.length_append, List.length_singleton]
  by_cases h : 1 ≤ pre.length
  · have h2 : 2 ≤ pre.length + 1 := by omega
    have e : pre.length + 1 - 2 = pre.length - 1 := by omega
    simp only [h2, h, if_true, e]
    rw [List.getElem?_append_left (by omega)]
  · have h2 : ¬ 2 ≤ pre.length + 1 := by omega
    simp [h2, h]

theorem lastCr_snoc (pre : List Tok) (x : Tok) : lastCr uid (pre ++ [x]) = isCrU uid x := by
  unfold lastCr; rw [back_snoc_one]

theorem crWs_snoc (pre : List Tok) (x : Tok) :
    crWs uid (pre ++ [x]) = if lastCr uid pre && isWsU uid x then some x else none := by
  unfold crWs lastCr
  rw [back_snoc_one, back_snoc_two]
  cases back pre 1 <;> simp

theorem ordOf_snoc (pre : List Tok) (x : Tok) :
    ordOf uid (pre ++ [x]) = ordOf uid pre + (if isWsU uid x then 0 else 1) := by
  unfold ordOf
  rw [List.filter_append, List.length_append]
  by_cases h : isWsU uid x = true <;> simp [h]

theorem isWs_not_cr (x : Tok) (h : isWsU uid x = true) : isCrU uid x = false := by
  unfold isWsU at h; unfold isCrU
  simp only [beq_iff_eq] at h
  rw [h]; decide

theorem isWs_not_match (cs : List Cls) (hcs : CsOk cs) (x : Tok) (h : isWsU uid x = true) : matchB uid cs x = false := by
  unfold isWsU at h
  simp only [beq_iff_eq] at h
  unfold matchB
  rw [Bool.eq_false_iff]
  intro hm
  simp only [List.any_eq_true, beq_iff_eq] at hm
  obtain ⟨c, hc, he⟩ := hm
  obtain ⟨k, hk, _, hnw, _⟩ := hcs.plain c hc
  rw [hk, h] at he
  exact hnw (Option.some.inj he)

/-- the two prefixes look alike to the scan -/
structure Ctx (pre pre' : List Tok) : Prop where
  ord : ordOf uid pre' = ordOf uid pre
  cr : lastCr uid pre' = lastCr uid pre
  ws : crWs uid pre' = crWs uid pre

theorem Ctx.snoc {pre pre' : List Tok} (h : Ctx uid pre pre') (x : Tok) : Ctx uid (pre ++ [x]) (pre' ++ [x]) :=
  ⟨by rw [ordOf_snoc, ordOf_snoc, h.ord], by rw [lastCr_snoc, lastCr_snoc], by rw [crWs_snoc, crWs_snoc, h.cr]⟩

theorem mkViol_none_iff (line s line' s' : Nat) (toks : List Tok) (o : Nat) :
    mkViol P ind line s toks o = none ↔ mkViol P ind line' s' toks o = none := by
  unfold mkViol
  cases judge P.style P.size (fun _ => ind o) toks <;> simp

/-- a position the rule does not report stays unreported when the prefix is replaced by a look-alike -/
theorem vOf_none_transfer {pre pre' : List Tok} (h : Ctx uid pre pre') (x : Tok)
    (hn : vOf uid P ind pre x = none) : vOf uid P ind pre' x = none := by
  unfold vOf regionAt at hn ⊢
  rw [h.cr, h.ws, h.ord]
  by_cases hm : matchB uid P.cs x = true
  · simp only [hm, if_true] at hn ⊢
    by_cases hc : lastCr uid pre = true
    · simp only [hc, if_true] at hn ⊢
      exact (mkViol_none_iff P ind _ _ _ _ _ _).mp hn
    · simp only [hc, Bool.false_eq_true, if_false] at hn ⊢
      cases hw : crWs uid pre with
      | none => rfl
      | some w =>
        simp only [hw] at hn ⊢
        exact (mkViol_none_iff P ind _ _ _ _ _ _).mp hn
  · simp [hm]


/-! ### the file cut into units: a whitespace token right after a line break goes with the token after it -/

def units (pre : List Tok) : List Tok → List (List Tok × Option Viol)
  | [] => []
  | [x] => [([x], vOf uid P ind pre x)]
  | x :: y :: r =>
    if lastCr uid pre && isWsU uid x then ([x, y], vOf uid P ind (pre ++ [x]) y) :: units (pre ++ [x, y]) r
    else ([x], vOf uid P ind pre x) :: units (pre ++ [x]) (y :: r)

theorem units_olds (pre l : List Tok) : ((units uid P ind pre l).map (·.1)).flatten = l := by
  fun_induction units uid P ind pre l with
  | case1 => rfl
  | case2 => rfl
  | case3 pre x y r h ih => simp [ih]
  | case4 pre x y r h ih => simp [ih]

/-- **the scan reads the units**: with no `[carriage return, whitespace]` pending at the end of the prefix -/
theorem scanA_units (hcs : CsOk P.cs) (pre l : List Tok) (hp : crWs uid pre = none) :
    scanA uid P ind pre l = (units uid P ind pre l).filterMap (·.2) := by
  fun_induction units uid P ind pre l with
  | case1 => rfl
  | case2 pre x => simp [scanA]; cases vOf uid P ind pre x <;> rfl
  | case3 pre x y r h ih =>
    simp only [Bool.and_eq_true] at h
    have hx : vOf uid P ind pre x = none := by
      unfold vOf; simp [isWs_not_match uid P.cs hcs x h.2]
    have hn : crWs uid (pre ++ [x, y]) = none := by
      have : pre ++ [x, y] = (pre ++ [x]) ++ [y] := by simp
      rw [this, crWs_snoc, lastCr_snoc, isWs_not_cr uid x h.2]; rfl
    rw [scanA, scanA, hx, List.filterMap_cons]
    have e : pre ++ [x] ++ [y] = pre ++ [x, y] := by simp
    rw [e, ih hn]
    cases vOf uid P ind (pre ++ [x]) y <;> rfl
  | case4 pre x y r h ih =>
    have hn : crWs uid (pre ++ [x]) = none := by
      rw [crWs_snoc]; simp only [h]; rfl
    rw [scanA, List.filterMap_cons, ih hn]
    cases vOf uid P ind pre x <;> rfl


/-! ### what a reported unit looks like, and what `_fix_violation` makes of it -/

theorem intDecode_intCode (i : Int) : intDecode (intCode i) = i := by
  unfold intDecode intCode
  by_cases h : 0 ≤ i
  · have e : (2 * i.toNat) % 2 = 0 := by omega
    simp only [h, if_true, e, beq_self_eq_true]
    omega
  · have e : (2 * (-i).toNat - 1) % 2 = 1 := by omega
    simp only [h, if_false, e]
    have : ((1 : Nat) == 0) = false := rfl
    simp only [this, Bool.false_eq_true, if_false]
    omega

theorem decAct_encAct (a : Act) (lvl : Int) : decAct (encAct a lvl) = (a, lvl) := by
  unfold decAct encAct
  have h1 : (3 * intCode lvl + a.code) % 3 = a.code := by cases a <;> simp [Act.code] <;> omega
  have h2 : (3 * intCode lvl + a.code) / 3 = intCode lvl := by cases a <;> simp [Act.code] <;> omega
  rw [h1, h2, intDecode_intCode]
  cases a <;> rfl

/-- the indent string `_fix_violation` writes -/
def wsVal (lvl : Int) : Str :=
  if P.style == Base.Indent.sSpaces then Base.Indent.rep ' ' (lvl * P.size) else Base.Indent.rep '\t' lvl

theorem wsVal_expected (lvl : Int) : wsVal P lvl = expectedWs P.style P.size lvl := by
  unfold wsVal expectedWs; rw [Int.mul_comm]

theorem vOf_single (pre : List Tok) (x : Tok) (v : Viol) (hp : crWs uid pre = none)
    (h : vOf uid P ind pre x = some v) :
    lastCr uid pre = true ∧ matchB uid P.cs x = true ∧ v.start = pre.length ∧ v.toks = [x] ∧
      ∃ lvl, ind (ordOf uid pre) = some lvl ∧ lvl ≠ 0 ∧ P.size ≠ 0 ∧ v.act = encAct .add lvl := by
  unfold vOf regionAt at h
  by_cases hm : matchB uid P.cs x = true
  · simp only [hm, if_true, hp] at h
    by_cases hc : lastCr uid pre = true
    · simp only [hc, if_true] at h
      unfold mkViol judge at h
      cases hi : ind (ordOf uid pre) with
      | none => simp [hi] at h
      | some lvl =>
        simp only [hi] at h
        by_cases hz : (P.size == 0) = true
        · simp [hz] at h
        · by_cases hl : (lvl != 0) = true
          · simp only [hz, hl, Bool.false_eq_true, if_false, if_true, Option.some.injEq] at h
            subst h
            exact ⟨hc, hm, rfl, rfl, lvl, rfl, by simpa using hl, by simpa using hz, rfl⟩
          · simp [hz, hl] at h
    · simp [hc] at h
  · simp [hm] at h

theorem vOf_pair (pre : List Tok) (w y : Tok) (v : Viol) (hc : lastCr uid pre = true) (hw : isWsU uid w = true)
    (h : vOf uid P ind (pre ++ [w]) y = some v) :
    matchB uid P.cs y = true ∧ v.start = pre.length ∧ v.toks = [w, y] ∧
      ∃ lvl, ind (ordOf uid pre) = some lvl ∧
        ((lvl = 0 ∧ v.act = encAct .remove 0) ∨
         (lvl ≠ 0 ∧ (w.val != expectedWs P.style P.size lvl) = true ∧ v.act = encAct .adjust lvl)) := by
  unfold vOf regionAt at h
  rw [lastCr_snoc, crWs_snoc, isWs_not_cr uid w hw, hc, hw, ordOf_snoc, hw] at h
  by_cases hm : matchB uid P.cs y = true
  · simp only [hm, if_true, Bool.false_eq_true, if_false, Bool.and_self, List.length_append, List.length_singleton,
      Nat.add_sub_cancel, Nat.add_zero] at h
    unfold mkViol judge at h
    cases hi : ind (ordOf uid pre) with
    | none => simp [hi] at h
    | some lvl =>
      simp only [hi] at h
      by_cases hz : (lvl == 0) = true
      · simp only [hz, if_true, Option.some.injEq] at h
        subst h
        exact ⟨hm, rfl, rfl, lvl, rfl, Or.inl ⟨by simpa using hz, rfl⟩⟩
      · by_cases hne : (w.val != expectedWs P.style P.size lvl) = true
        · simp only [hz, hne, Bool.false_eq_true, if_false, if_true, Option.some.injEq] at h
          subst h
          exact ⟨hm, rfl, rfl, lvl, rfl, Or.inr ⟨by simpa using hz, hne, rfl⟩⟩
        · simp [hz, hne] at h
  · simp [hm] at h

theorem sAdjust_ne_sRemove : (Base.Indent.sAdjust == Base.Indent.sRemove) = false := by decide
theorem sAdd_ne_sRemove : (Base.Indent.sAdd == Base.Indent.sRemove) = false := by decide
theorem sAdd_ne_sAdjust : (Base.Indent.sAdd == Base.Indent.sAdjust) = false := by decide

theorem fixTok_remove (v : Viol) (w y : Tok) (hv : v.toks = [w, y]) (ha : v.act = encAct .remove 0) :
    fixTok P v = [y] := by
  unfold fixTok
  rw [ha, decAct_encAct, hv]
  simp [Base.Indent.fixV, Act.str, Base.pyGet, Base.pyIdx, bind, Except.bind, pure, Except.pure]

theorem fixTok_add (hs : StyleOk P) (v : Viol) (x : Tok) (lvl : Int) (hv : v.toks = [x]) (ha : v.act = encAct .add lvl) :
    fixTok P v = [{ cls := P.wsCls, kind := .ws, val := wsVal P lvl }, x] := by
  unfold fixTok wsVal
  rw [ha, decAct_encAct, hv]
  rcases hs with h | h <;> rw [h] <;>
    simp [Base.Indent.fixV, Act.str, sAdd_ne_sRemove, sAdd_ne_sAdjust, smartTabs_ne_spaces, Base.pyGet, Base.pyIdx,
      Base.Indent.needLevel, Base.insertToken, Base.pyInsert, bind, Except.bind, pure, Except.pure] <;>
    (have e : (min (0 : Int) 1).toNat = 0 := by decide
     rw [e]; rfl)

theorem fixTok_adjust (hs : StyleOk P) (v : Viol) (w y : Tok) (lvl : Int) (hv : v.toks = [w, y])
    (ha : v.act = encAct .adjust lvl) : fixTok P v = [{ w with val := wsVal P lvl }, y] := by
  unfold fixTok wsVal
  rw [ha, decAct_encAct, hv]
  rcases hs with h | h <;> rw [h] <;>
    simp [Base.Indent.fixV, Act.str, sAdjust_ne_sRemove, smartTabs_ne_spaces, Base.pyGet, Base.pyIdx, Base.pySet,
      Base.Indent.needLevel, bind, Except.bind, pure, Except.pure]


/-! ### the units as pieces of the file: `vhdlFile.update` -/

def toPiece (u : List Tok × Option Viol) : Piece Tok :=
  match u.2 with
  | some v => ⟨u.1, dropBof (fixTok P v), true⟩
  | none => ⟨u.1, u.1, false⟩

theorem dropBof_id (l : List Tok) (h : ∀ t ∈ l, t.isBof = false) : dropBof l = l := by
  unfold dropBof
  rw [List.filter_eq_self]
  intro t ht; simp [h t ht]

theorem sem_fixV : (sem uid P ind).fixV = fixTok P := rfl

theorem units_edits (pre l : List Tok) (hp : crWs uid pre = none) (hb : ∀ t ∈ l, t.isBof = false) :
    ((units uid P ind pre l).filterMap (·.2)).map (editOf (sem uid P ind)) =
      editsFrom pre.length ((units uid P ind pre l).map (toPiece P)) := by
  fun_induction units uid P ind pre l with
  | case1 => rfl
  | case2 pre x =>
    cases hv : vOf uid P ind pre x with
    | none => simp [toPiece, editsFrom, hv]
    | some v =>
      obtain ⟨_, _, hst, hto, _⟩ := vOf_single uid P ind pre x v hp hv
      have hd := dropBof_id [x] hb
      simp [toPiece, editsFrom, hv, editOf, Viol.stop, hst, hto, hd, sem_fixV]
  | case3 pre x y r h ih =>
    simp only [Bool.and_eq_true] at h
    have hn : crWs uid (pre ++ [x, y]) = none := by
      have : pre ++ [x, y] = (pre ++ [x]) ++ [y] := by simp
      rw [this, crWs_snoc, lastCr_snoc, isWs_not_cr uid x h.2]; rfl
    have ih' := ih hn (fun t ht => hb t (by simp [ht]))
    have hlen : (pre ++ [x, y]).length = pre.length + 2 := by simp
    rw [hlen] at ih'
    cases hv : vOf uid P ind (pre ++ [x]) y with
    | none => simp [toPiece, editsFrom, hv, ih']
    | some v =>
      obtain ⟨_, hst, hto, _⟩ := vOf_pair uid P ind pre x y v h.1 h.2 hv
      have hd := dropBof_id [x, y] (fun t ht => hb t (by simp at ht; rcases ht with rfl | rfl <;> simp))
      simp [toPiece, editsFrom, hv, editOf, Viol.stop, hst, hto, hd, sem_fixV, ih']
  | case4 pre x y r h ih =>
    have hn : crWs uid (pre ++ [x]) = none := by
      rw [crWs_snoc]; simp only [h]; rfl
    have ih' := ih hn (fun t ht => hb t (by simp [ht]))
    have hlen : (pre ++ [x]).length = pre.length + 1 := by simp
    rw [hlen] at ih'
    cases hv : vOf uid P ind pre x with
    | none => simp [toPiece, editsFrom, hv, ih']
    | some v =>
      obtain ⟨_, _, hst, hto, _⟩ := vOf_single uid P ind pre x v hp hv
      have hd := dropBof_id [x] (fun t ht => hb t (by simp at ht; simp [ht]))
      simp [toPiece, editsFrom, hv, editOf, Viol.stop, hst, hto, hd, sem_fixV, ih']

theorem units_hit (pre l : List Tok) :
    ∀ p ∈ (units uid P ind pre l).map (toPiece P), p.hit = false → p.new = p.old := by
  intro p hp hh
  obtain ⟨u, _, rfl⟩ := List.mem_map.mp hp
  unfold toPiece at hh ⊢
  cases hu : u.2 with
  | none => rfl
  | some v => rw [hu] at hh; cases hh

theorem units_olds' (pre l : List Tok) : olds ((units uid P ind pre l).map (toPiece P)) = l := by
  have := units_olds uid P ind pre l
  unfold olds
  rw [List.map_map]
  have e : (Piece.old ∘ toPiece P) = (fun u : List Tok × Option Viol => u.1) := by
    funext u; unfold toPiece; simp only [Function.comp]; cases u.2 <;> rfl
  rw [e]; exact this


/-! ### the scan of the fixed file -/

theorem scanA_append (pre a b : List Tok) :
    scanA uid P ind pre (a ++ b) = scanA uid P ind pre a ++ scanA uid P ind (pre ++ a) b := by
  induction a generalizing pre with
  | nil => simp [scanA]
  | cons x a ih => simp [scanA, ih, List.append_assoc]

/-- what the theorems assume about `get_unique_id`: it is a function of the token's class, and the class of the
    whitespace token the fix creates is `parser.whitespace` -/
structure UidOk : Prop where
  cls : ∀ t t' : Tok, t.cls = t'.cls → uid t = uid t'
  ws : ∀ t : Tok, t.cls = P.wsCls → uid t = some wsKey

theorem vOf_ws_none (hcs : CsOk P.cs) (pre : List Tok) (w : Tok) (hw : isWsU uid w = true) :
    vOf uid P ind pre w = none := by
  unfold vOf; simp [isWs_not_match uid P.cs hcs w hw]

theorem match_not_ws (hcs : CsOk P.cs) (x : Tok) (hm : matchB uid P.cs x = true) : isWsU uid x = false := by
  cases h : isWsU uid x with
  | false => rfl
  | true => rw [isWs_not_match uid P.cs hcs x h] at hm; cases hm

/-- `[whitespace holding the right indent, token]` after a line break is not reported -/
theorem vOf_pair_clean (pre : List Tok) (w y : Tok) (lvl : Int) (hc : lastCr uid pre = true) (hw : isWsU uid w = true)
    (hi : ind (ordOf uid pre) = some lvl) (hl : lvl ≠ 0) (hv : w.val = expectedWs P.style P.size lvl) :
    vOf uid P ind (pre ++ [w]) y = none := by
  unfold vOf regionAt
  rw [lastCr_snoc, crWs_snoc, isWs_not_cr uid w hw, hc, hw, ordOf_snoc, hw]
  by_cases hm : matchB uid P.cs y = true
  · simp only [hm, if_true, Bool.false_eq_true, if_false, Bool.and_self, Nat.add_zero]
    unfold mkViol judge
    have h0 : (lvl == 0) = false := by simpa using hl
    simp [hi, h0, hv]
  · simp [hm]

theorem single_step (hcs : CsOk P.cs) (hs : StyleOk P) (hu : UidOk uid P) (pre pre' : List Tok) (x : Tok)
    (hp : crWs uid pre = none) (hc : Ctx uid pre pre') (hb : x.isBof = false) :
    scanA uid P ind pre' (toPiece P ([x], vOf uid P ind pre x)).new = [] ∧
      Ctx uid (pre ++ [x]) (pre' ++ (toPiece P ([x], vOf uid P ind pre x)).new) := by
  cases hv : vOf uid P ind pre x with
  | none =>
    simp only [toPiece]
    refine ⟨?_, hc.snoc uid x⟩
    simp [scanA, vOf_none_transfer uid P ind hc x hv]
  | some v =>
    obtain ⟨hcr, hm, _, hto, lvl, hi, hl, _, ha⟩ := vOf_single uid P ind pre x v hp hv
    have hf := fixTok_add P hs v x lvl hto ha
    simp only [toPiece, hf]
    have hwu : isWsU uid ({ cls := P.wsCls, kind := .ws, val := wsVal P lvl } : Tok) = true := by
      unfold isWsU; rw [hu.ws _ rfl]; simp
    have hd : dropBof [({ cls := P.wsCls, kind := .ws, val := wsVal P lvl } : Tok), x] = [{ cls := P.wsCls, kind := .ws, val := wsVal P lvl }, x] := by
      apply dropBof_id
      intro t ht
      simp at ht
      rcases ht with rfl | rfl
      · rfl
      · exact hb
    rw [hd]
    have hxw := match_not_ws uid P hcs x hm
    constructor
    · simp only [scanA, List.append_nil]
      rw [vOf_ws_none uid P ind hcs pre' _ hwu,
        vOf_pair_clean uid P ind pre' _ x lvl (by rw [hc.cr]; exact hcr) hwu (by rw [hc.ord]; exact hi) hl (wsVal_expected P lvl)]
      rfl
    · have e : pre' ++ [({ cls := P.wsCls, kind := .ws, val := wsVal P lvl } : Tok), x] = (pre' ++ [{ cls := P.wsCls, kind := .ws, val := wsVal P lvl }]) ++ [x] := by simp
      rw [e]
      refine ⟨?_, ?_, ?_⟩
      · rw [ordOf_snoc, ordOf_snoc, ordOf_snoc, hwu, hc.ord]; simp
      · rw [lastCr_snoc, lastCr_snoc]
      · rw [crWs_snoc, crWs_snoc, hxw]; simp

theorem pair_step (hcs : CsOk P.cs) (hs : StyleOk P) (hu : UidOk uid P) (pre pre' : List Tok) (x y : Tok)
    (hcr : lastCr uid pre = true) (hw : isWsU uid x = true) (hc : Ctx uid pre pre')
    (hbx : x.isBof = false) (hby : y.isBof = false) :
    scanA uid P ind pre' (toPiece P ([x, y], vOf uid P ind (pre ++ [x]) y)).new = [] ∧
      Ctx uid (pre ++ [x, y]) (pre' ++ (toPiece P ([x, y], vOf uid P ind (pre ++ [x]) y)).new) := by
  have e2 : ∀ (q : List Tok) (a b : Tok), q ++ [a, b] = (q ++ [a]) ++ [b] := by intro q a b; simp
  cases hv : vOf uid P ind (pre ++ [x]) y with
  | none =>
    simp only [toPiece]
    constructor
    · simp only [scanA, List.append_nil]
      rw [vOf_ws_none uid P ind hcs pre' x hw, vOf_none_transfer uid P ind (hc.snoc uid x) y hv]
      rfl
    · rw [e2, e2]; exact (hc.snoc uid x).snoc uid y
  | some v =>
    obtain ⟨hm, _, hto, lvl, hi, hcase⟩ := vOf_pair uid P ind pre x y v hcr hw hv
    have hyw := match_not_ws uid P hcs y hm
    rcases hcase with ⟨hz, ha⟩ | ⟨hnz, _, ha⟩
    · -- remove_whitespace
      have hf := fixTok_remove P v x y hto ha
      simp only [toPiece, hf]
      rw [dropBof_id [y] (by intro t ht; simp at ht; rw [ht]; exact hby)]
      constructor
      · simp only [scanA, List.append_nil]
        have : vOf uid P ind pre' y = none := by
          unfold vOf regionAt mkViol judge
          rw [hc.cr, hcr, hc.ord, hi, hz]
          by_cases hm' : matchB uid P.cs y = true <;> simp [hm']
        rw [this]; rfl
      · rw [e2]
        refine ⟨?_, ?_, ?_⟩
        · rw [ordOf_snoc, ordOf_snoc, ordOf_snoc, hw, hc.ord]; simp
        · rw [lastCr_snoc, lastCr_snoc]
        · rw [crWs_snoc, crWs_snoc, hyw]; simp
    · -- adjust_whitespace
      have hf := fixTok_adjust P hs v x y lvl hto ha
      simp only [toPiece, hf]
      have hwu : isWsU uid ({ x with val := wsVal P lvl } : Tok) = true := by
        have := hu.cls ({ x with val := wsVal P lvl } : Tok) x rfl
        unfold isWsU at hw ⊢; rw [this]; exact hw
      rw [dropBof_id [({ x with val := wsVal P lvl } : Tok), y] (by
        intro t ht; simp at ht; rcases ht with rfl | rfl
        · exact hbx
        · exact hby)]
      constructor
      · simp only [scanA, List.append_nil]
        rw [vOf_ws_none uid P ind hcs pre' _ hwu,
          vOf_pair_clean uid P ind pre' _ y lvl (by rw [hc.cr]; exact hcr) hwu (by rw [hc.ord]; exact hi) hnz (wsVal_expected P lvl)]
        rfl
      · rw [e2, e2]
        refine ⟨?_, ?_, ?_⟩
        · rw [ordOf_snoc, ordOf_snoc, ordOf_snoc, ordOf_snoc, hw, hwu, hc.ord]
        · rw [lastCr_snoc, lastCr_snoc]
        · rw [crWs_snoc, crWs_snoc, lastCr_snoc, lastCr_snoc, isWs_not_cr uid x hw, isWs_not_cr uid _ hwu]

/-- **the scan of the fixed units reports nothing** -/
theorem scanA_news (hcs : CsOk P.cs) (hs : StyleOk P) (hu : UidOk uid P) (pre l : List Tok)
    (hp : crWs uid pre = none) (hb : ∀ t ∈ l, t.isBof = false) :
    ∀ pre', Ctx uid pre pre' → scanA uid P ind pre' (news ((units uid P ind pre l).map (toPiece P))) = [] := by
  fun_induction units uid P ind pre l with
  | case1 => intro pre' _; rfl
  | case2 pre x =>
    intro pre' hc
    simp only [List.map_cons, List.map_nil, news_cons]
    rw [scanA_append, (single_step uid P ind hcs hs hu pre pre' x hp hc (hb x (by simp))).1]
    simp [news, scanA]
  | case3 pre x y r h ih =>
    intro pre' hc
    simp only [Bool.and_eq_true] at h
    have hn : crWs uid (pre ++ [x, y]) = none := by
      have : pre ++ [x, y] = (pre ++ [x]) ++ [y] := by simp
      rw [this, crWs_snoc, lastCr_snoc, isWs_not_cr uid x h.2]; rfl
    obtain ⟨h1, h2⟩ := pair_step uid P ind hcs hs hu pre pre' x y h.1 h.2 hc (hb x (by simp)) (hb y (by simp))
    simp only [List.map_cons, news_cons]
    rw [scanA_append, h1, ih hn (fun t ht => hb t (by simp [ht])) _ h2]
    rfl
  | case4 pre x y r h ih =>
    intro pre' hc
    have hn : crWs uid (pre ++ [x]) = none := by
      rw [crWs_snoc]; simp only [h]; rfl
    obtain ⟨h1, h2⟩ := single_step uid P ind hcs hs hu pre pre' x hp hc (hb x (by simp))
    simp only [List.map_cons, news_cons]
    rw [scanA_append, h1, ih hn (fun t ht => hb t (by simp [ht])) _ h2]
    rfl


/-! ### assembly: `Rule.fix` of the plain `token_indent` rule -/

theorem sortByStart_of_chain (sem : RuleSem) (n : Nat) : ∀ (lo : Nat) (l : List Viol),
    Chain n lo (l.map (editOf sem)) → sortByStart l = l
  | _, [], _ => rfl
  | lo, v :: r, h => by
    obtain ⟨_, h2, _, h4⟩ := h
    rw [sortByStart, sortByStart_of_chain sem n _ r h4]
    cases r with
    | nil => rfl
    | cons w r' =>
      have : v.start ≤ w.start := by
        have := h4.1
        simp only [editOf] at h2 this
        omega
      simp [insertByStart, this]

theorem crWs_nil : crWs uid [] = none := rfl

/-- **the file after `Rule.fix`** (fixable rule, no `--fix_only`): the new texts of the units, concatenated -/
theorem fixAll_eq_news (hv : P.variant = .plain) (hcs : CsOk P.cs) (hs : StyleOk P) (f : List Tok)
    (hb : ∀ t ∈ f, t.isBof = false) :
    fixAll uid P ind f = news ((units uid P ind [] f).map (toPiece P)) := by
  unfold fixAll
  rw [analyze_eq_scanA uid P ind hv hcs hs f, scanA_units uid P ind hcs [] f (crWs_nil uid)]
  have he := units_edits uid P ind [] f (crWs_nil uid) hb
  have hc := pieces_chain ([] : List Tok) ((units uid P ind [] f).map (toPiece P)) []
  simp only [List.nil_append, List.append_nil, List.length_nil] at hc he
  rw [← he] at hc
  rw [sortByStart_of_chain _ _ _ _ hc, he]
  have hu := pieces_update ((units uid P ind [] f).map (toPiece P)) (units_hit uid P ind [] f)
  rw [units_olds'] at hu
  exact hu

theorem ctx_refl (pre : List Tok) : Ctx uid pre pre := ⟨rfl, rfl, rfl⟩

/-- **whole-rule idempotence**: after its own fix the rule's analysis reports nothing -/
theorem analyze_fixAll (hv : P.variant = .plain) (hcs : CsOk P.cs) (hs : StyleOk P) (hu : UidOk uid P) (f : List Tok)
    (hb : ∀ t ∈ f, t.isBof = false) : (sem uid P ind).analyze (fixAll uid P ind f) = [] := by
  rw [fixAll_eq_news uid P ind hv hcs hs f hb, analyze_eq_scanA uid P ind hv hcs hs]
  exact scanA_news uid P ind hcs hs hu [] f (crWs_nil uid) hb [] (ctx_refl uid [])

/-! ### projections that do not see whitespace tokens -/

theorem units_mem (pre l : List Tok) (hp : crWs uid pre = none) :
    ∀ u ∈ units uid P ind pre l, ∃ q, crWs uid q = none ∧
      ((∃ x ∈ l, u = ([x], vOf uid P ind q x)) ∨
       (∃ x ∈ l, ∃ y ∈ l, lastCr uid q = true ∧ isWsU uid x = true ∧ u = ([x, y], vOf uid P ind (q ++ [x]) y))) := by
  fun_induction units uid P ind pre l with
  | case1 => intro u hu; cases hu
  | case2 pre x =>
    intro u hu
    simp only [List.mem_singleton] at hu
    exact ⟨pre, hp, Or.inl ⟨x, by simp, hu⟩⟩
  | case3 pre x y r h ih =>
    intro u hu
    simp only [Bool.and_eq_true] at h
    have hn : crWs uid (pre ++ [x, y]) = none := by
      have : pre ++ [x, y] = (pre ++ [x]) ++ [y] := by simp
      rw [this, crWs_snoc, lastCr_snoc, isWs_not_cr uid x h.2]; rfl
    rw [List.mem_cons] at hu
    rcases hu with rfl | hu
    · exact ⟨pre, hp, Or.inr ⟨x, by simp, y, by simp, h.1, h.2, rfl⟩⟩
    · obtain ⟨q, hq, hc⟩ := ih hn u hu
      refine ⟨q, hq, ?_⟩
      rcases hc with ⟨a, ha, e⟩ | ⟨a, ha, b, hb', e⟩
      · exact Or.inl ⟨a, by simp [ha], e⟩
      · exact Or.inr ⟨a, by simp [ha], b, by simp [hb'], e⟩
  | case4 pre x y r h ih =>
    intro u hu
    have hn : crWs uid (pre ++ [x]) = none := by
      rw [crWs_snoc]; simp only [h]; rfl
    rw [List.mem_cons] at hu
    rcases hu with rfl | hu
    · exact ⟨pre, hp, Or.inl ⟨x, by simp, rfl⟩⟩
    · obtain ⟨q, hq, hc⟩ := ih hn u hu
      refine ⟨q, hq, ?_⟩
      rcases hc with ⟨a, ha, e⟩ | ⟨a, ha, b, hb', e⟩
      · exact Or.inl ⟨a, by simp [ha], e⟩
      · exact Or.inr ⟨a, by simp [ha], b, by simp [hb'], e⟩

theorem news_hom {β : Type} (π : List Tok → List β) (hπ : ∀ a b, π (a ++ b) = π a ++ π b) (ps : List (Piece Tok))
    (h : ∀ p ∈ ps, π p.new = π p.old) : π (news ps) = π (olds ps) := by
  induction ps with
  | nil => rfl
  | cons p r ih =>
    rw [news_cons, olds_cons, hπ, hπ, h p (List.mem_cons_self ..), ih (fun q hq => h q (List.mem_cons_of_mem _ hq))]

/-- **the whole fix is invisible to every projection that does not see whitespace tokens** (`π` = the non-layout
    tokens, the line breaks, the code sequence, the comments …) -/
theorem fixAll_hom {β : Type} (π : List Tok → List β) (hπ : ∀ a b, π (a ++ b) = π a ++ π b)
    (hπws : ∀ t : Tok, t.kind = .ws → π [t] = [])
    (hv : P.variant = .plain) (hcs : CsOk P.cs) (hs : StyleOk P) (f : List Tok)
    (hb : ∀ t ∈ f, t.isBof = false) (hk : ∀ t ∈ f, isWsU uid t = true → t.kind = .ws) :
    π (fixAll uid P ind f) = π f := by
  rw [fixAll_eq_news uid P ind hv hcs hs f hb]
  have := news_hom π hπ ((units uid P ind [] f).map (toPiece P)) ?_
  · rw [this, units_olds']
  · intro p hp
    obtain ⟨u, hu, rfl⟩ := List.mem_map.mp hp
    obtain ⟨q, hq, hc⟩ := units_mem uid P ind [] f (crWs_nil uid) u hu
    have hcons : ∀ (a : Tok) (l : List Tok), π (a :: l) = π [a] ++ π l := by
      intro a l; rw [← hπ]; rfl
    rcases hc with ⟨x, hx, rfl⟩ | ⟨x, hx, y, hy, hcr, hw, rfl⟩
    · cases hvv : vOf uid P ind q x with
      | none => simp [toPiece]
      | some v =>
        obtain ⟨_, _, _, hto, lvl, _, _, _, ha⟩ := vOf_single uid P ind q x v hq hvv
        have hf := fixTok_add P hs v x lvl hto ha
        simp only [toPiece, hf]
        rw [dropBof_id _ (by
          intro t ht; simp at ht; rcases ht with rfl | rfl
          · rfl
          · exact hb _ hx)]
        rw [hcons, hπws _ rfl]; rfl
    · cases hvv : vOf uid P ind (q ++ [x]) y with
      | none => simp [toPiece]
      | some v =>
        obtain ⟨_, _, hto, lvl, _, hcase⟩ := vOf_pair uid P ind q x y v hcr hw hvv
        have hxk := hk x hx hw
        rcases hcase with ⟨_, ha⟩ | ⟨_, _, ha⟩
        · have hf := fixTok_remove P v x y hto ha
          simp only [toPiece, hf]
          rw [dropBof_id [y] (by intro t ht; simp at ht; rw [ht]; exact hb _ hy)]
          rw [hcons x, hπws x hxk]; rfl
        · have hf := fixTok_adjust P hs v x y lvl hto ha
          simp only [toPiece, hf]
          rw [dropBof_id _ (by
            intro t ht; simp at ht; rcases ht with rfl | rfl
            · exact hb x hx
            · exact hb _ hy)]
          have hx' : π [({ x with val := wsVal P lvl } : Tok)] = [] := hπws _ hxk
          rw [hcons, hcons x, hπws x hxk, hx']

/-! ### a toy instance for the non-vacuity examples of the property files -/

/-- toy instance for the non-vacuity examples: class 1 = carriage return, 2 = whitespace, 3 = `signal` keyword -/
def toyUid (t : Tok) : Option Key :=
  if t.cls = 1 then some crKey else if t.cls = 2 then some wsKey else if t.cls = 3 then some ("signal_declaration", "signal_keyword") else none

def toyP : Params :=
  { cs := [{ uid := some ("signal_declaration", "signal_keyword"), idx := 3 }], style := Base.Indent.sSpaces, size := 2, wsCls := 2 }


end Vsgm.BFull2
