/-
  `get_tokens_in_declarative_parts` (WP3b): every region is a slice of the file.
-/
import VsgModel.Engine.Extract7
import VsgProofs.Lemmas.Extract2
import VsgProofs.Lemmas.Extract3If
namespace Vsgm.TM.X.Lemmas
open Vsgm Vsgm.TM Vsgm.TM.Lemmas Vsgm.TM.X

variable {α : Type}

/-- a region that is the slice at its start, which is a position of the file -/
def GoodAt (f : List α) (t : Toi α) : Prop :=
  ∃ s : Nat, t.start = some (s : Int) ∧ s ≤ f.length ∧ SliceAt f s t.toks

theorem goodAt_exact (f : List α) (t : Toi α) (h : GoodAt f t) : t.Exact f := by
  obtain ⟨s, hs, _, hsl⟩ := h
  exact exact_of_sliceAt f t s hs hsl

/-- `get_tokens_bounded_by`: the start token is read at the recorded start, so the start is a
    position of the file and the region a slice there (stale index or not) -/
theorem tokensBoundedBy_good (f : List α) (ix : Index) (a b : Option Key) (fl : BoundedFlags)
    (r : List (Toi α)) (h : tokensBoundedBy f ix a b fl = .ok r) :
    ∀ t ∈ r, ∃ s : Nat, t.start = some (s : Int) ∧ s < f.length ∧ SliceAt f s t.toks := by
  intro t ht
  unfold tokensBoundedBy at h
  simp only [bind_ok] at h
  obtain ⟨newStart, hns, newEnd0, _, h⟩ := h
  obtain ⟨sei, hmem, hb⟩ := mem_mapE _ _ _ h t ht
  obtain ⟨s, e, i⟩ := sei
  unfold bbBody at hb
  simp only [bind_ok, pure_ok] at hb
  obtain ⟨line, _, x, hx, _, _, rfl⟩ := hb
  have hs : s ∈ newStart := mem_zip3 _ _ _ _ hmem
  have hs0 : 0 ≤ s := by
    unfold bbNewStart at hns
    by_cases hb : fl.tillBol = true
    · simp only [hb, if_true] at hns
      obtain ⟨s0, _, hg⟩ := mem_filterMapE _ _ _ hns s hs
      simp only [bind_ok, pure_ok] at hg
      obtain ⟨r0, hr0, hm⟩ := hg
      cases r0 with
      | none => simp at hm
      | some y =>
        simp at hm
        have := crBefore_nonneg ix s0 y (by omega) hr0
        omega
    · simp only [hb] at hns
      injection hns with hns
      subst hns
      unfold ints at hs
      obtain ⟨n, _, rfl⟩ := List.mem_map.mp hs
      simp
  have hlt := pyIdx_ok_lt f s x hs0 hx
  have e1 : s = ((s.toNat : Nat) : Int) := by omega
  refine ⟨s.toNat, by simp only; rw [← e1], hlt, ?_⟩
  simp only
  rw [e1]
  exact sliceAt_pySlice f s.toNat _ (Nat.le_of_lt hlt)

theorem extractTail_good (V : View α) (f : List α) (t t' : Toi α)
    (h : ∃ s : Nat, t.start = some (s : Int) ∧ s < f.length ∧ SliceAt f s t.toks)
    (he : extractTail V t = .ok t') : GoodAt f t' := by
  obtain ⟨s, hs, hlt, hsl⟩ := h
  unfold extractTail at he
  rw [hs] at he
  simp only at he
  injection he with he
  subst he
  refine ⟨s + 1, by simp, by omega, ?_⟩
  simp only
  cases htk : t.toks with
  | nil => simp only [List.drop_nil]; exact sliceAt_nil f (s + 1) (by omega)
  | cons x xs =>
    rw [← htk]
    exact sliceAt_drop f s 1 t.toks hsl (by rw [htk]; simp)

theorem mem_insertToi (x : Toi α) (l r : List (Toi α)) (h : insertToi x l = .ok r) : ∀ t ∈ r, t = x ∨ t ∈ l := by
  induction l generalizing r with
  | nil => simp [insertToi] at h; subst h; simp
  | cons y ys ih =>
    unfold insertToi at h
    split at h
    · split at h
      · injection h with h; subst h
        intro t ht
        rcases List.mem_cons.mp ht with rfl | ht
        · left; rfl
        · right; exact ht
      · simp only [bind_ok] at h
        obtain ⟨r0, hr0, h⟩ := h
        injection h with h; subst h
        intro t ht
        rcases List.mem_cons.mp ht with rfl | ht
        · right; exact List.mem_cons_self ..
        · rcases ih r0 hr0 t ht with h' | h'
          · left; exact h'
          · right; exact List.mem_cons_of_mem _ h'
    · cases h

theorem combineTois_mem (a b r : List (Toi α)) (h : combineTois a b = .ok r) : ∀ t ∈ r, t ∈ a ∨ t ∈ b := by
  unfold combineTois at h
  split at h
  · injection h with h; subst h; intro t ht; right; exact ht
  · split at h
    · injection h with h; subst h; intro t ht; left; exact ht
    · exact foldlE_inv (fun acc x => insertToi x acc) (fun acc => ∀ t ∈ acc, t ∈ a ∨ t ∈ b) b a r
        (fun acc x acc' hx hacc hstep t ht => by
          rcases mem_insertToi x acc acc' hstep t ht with rfl | h'
          · right; exact hx
          · exact hacc t h')
        (fun t ht => Or.inl ht) h

theorem declarativeParts_exact (V : View α) (f : List α) (ix : Index) (K : DeclKeys) (r : List (Toi α))
    (h : declarativeParts V f ix K = .ok r) : ∀ t ∈ r, t.Exact f := by
  unfold declarativeParts at h
  simp only [bind_ok] at h
  obtain ⟨prot0, hprot0, prot, hprot, arch, harch, pkgBody, hpkgBody, subp0, hsubp0, subp, hsubp, pkg, hpkg,
    process, hprocess, entity, hentity, block, hblock, r1, h1, r2, h2, r3, h3, r4, h4, r5, h5, r6, h6, h7⟩ := h
  have gb : ∀ (p : Option Key × Option Key) (l : List (Toi α)), tokensBoundedBy f ix p.1 p.2 {} = .ok l → ∀ t ∈ l, GoodAt f t := by
    intro p l hl t ht
    obtain ⟨s, hs, hlt, hsl⟩ := tokensBoundedBy_good f ix p.1 p.2 {} l hl t ht
    exact ⟨s, hs, Nat.le_of_lt hlt, hsl⟩
  have gt : ∀ (p : Option Key × Option Key) (l0 l : List (Toi α)), tokensBoundedBy f ix p.1 p.2 {} = .ok l0 →
      mapE (extractTail V) l0 = .ok l → ∀ t ∈ l, GoodAt f t := by
    intro p l0 l hl0 hl t ht
    obtain ⟨t0, ht0, he⟩ := mem_mapE _ _ _ hl t ht
    exact extractTail_good V f t0 t (tokensBoundedBy_good f ix p.1 p.2 {} l0 hl0 t0 ht0) he
  have c : ∀ (a b r : List (Toi α)), combineTois a b = .ok r → (∀ t ∈ a, GoodAt f t) → (∀ t ∈ b, GoodAt f t) → ∀ t ∈ r, GoodAt f t := by
    intro a b r hr ha hb t ht
    rcases combineTois_mem a b r hr t ht with h' | h'
    · exact ha t h'
    · exact hb t h'
  have g1 := c _ _ _ h1 (gb K.arch arch harch) (gt K.prot prot0 prot hprot0 hprot)
  have g2 := c _ _ _ h2 g1 (gb K.pkg pkg hpkg)
  have g3 := c _ _ _ h3 g2 (gb K.pkgBody pkgBody hpkgBody)
  have g4 := c _ _ _ h4 g3 (gt K.subp subp0 subp hsubp0 hsubp)
  have g5 := c _ _ _ h5 g4 (gb K.process process hprocess)
  have g6 := c _ _ _ h6 g5 (gb K.entity entity hentity)
  have g7 := c _ _ _ h7 g6 (gb K.block block hblock)
  exact fun t ht => goodAt_exact f t (g7 t ht)

end Vsgm.TM.X.Lemmas
