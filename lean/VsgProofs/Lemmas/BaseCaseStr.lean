/-
  String-level facts of the case family: what the hypotheses about the character tables are
  (`CharWise`, `CharWiseIdem`), what they give (`FE`: equal after folding, hence equal length and the
  same literal-ness), how `startswith` / `endswith` on lower-cased strings cut the original value.
-/
import VsgModel.Base.Case
import VsgModel.Base.CaseTables
import VsgModel.Engine.Relations
namespace Vsgm.Base.Case
open Vsgm Vsgm.Base

/-- the three characters that make a value "compare exactly" (`isExact`) -/
def isQ (c : Char) : Bool := c == '"' || c == '\'' || c == '\\'

/-- HYPOTHESES ABOUT THE CHARACTER TABLES: `lower()`, `upper()` and the fold of the checker work
    character by character (so they keep the length), folding forgets what `lower` / `upper`
    did, and no quote or backslash is the fold of anything else. -/
structure CharWise (E : Env) (fold : Str → Str) (lc uc fc : Char → Char) : Prop where
  lower_eq : ∀ v, E.lowerS v = v.map lc
  upper_eq : ∀ v, E.upperS v = v.map uc
  fold_eq : ∀ v, fold v = v.map fc
  fold_lower : ∀ c, fc (lc c) = fc c
  fold_upper : ∀ c, fc (uc c) = fc c
  fold_quote : ∀ c, isQ (fc c) = isQ c

/-- additional hypotheses for idempotence -/
structure CharWiseIdem (E : Env) (fold : Str → Str) (lc uc fc : Char → Char) : Prop
    extends CharWise E fold lc uc fc where
  lower_idem : ∀ c, lc (lc c) = lc c
  upper_idem : ∀ c, uc (uc c) = uc c
  lower_upper : ∀ c, lc (uc c) = lc c

/-- no two entries of `case_exceptions` are the same word in different case -/
def NoCaseDup (E : Env) (exc : List Str) : Prop :=
  ∀ a ∈ exc, ∀ b ∈ exc, E.lowerS a = E.lowerS b → a = b

section
variable {E : Env} {fold : Str → Str} {lc uc fc : Char → Char}

theorem CharWise.map_fc_lc (T : CharWise E fold lc uc fc) (w : Str) : (w.map lc).map fc = w.map fc := by
  rw [List.map_map]; congr 1; funext c; exact T.fold_lower c

theorem CharWise.map_fc_uc (T : CharWise E fold lc uc fc) (w : Str) : (w.map uc).map fc = w.map fc := by
  rw [List.map_map]; congr 1; funext c; exact T.fold_upper c

/-- equal after `lower()` ⇒ equal after folding -/
theorem CharWise.fe_of_le (T : CharWise E fold lc uc fc) {a b : Str} (h : a.map lc = b.map lc) :
    a.map fc = b.map fc := by
  rw [← T.map_fc_lc a, ← T.map_fc_lc b, h]

theorem fe_length {a b : Str} (h : a.map fc = b.map fc) : a.length = b.length := by
  have := congrArg List.length h
  simpa using this

theorem isExact_eq_head (v : Str) : isExact v = (match v with | [] => false | c :: _ => isQ c) := by
  cases v with
  | nil => rfl
  | cons c r =>
    simp only [isQ]
    by_cases h1 : c = '"'
    · subst h1; rfl
    · by_cases h2 : c = '\''
      · subst h2; rfl
      · by_cases h3 : c = '\\'
        · subst h3; rfl
        · simp only [isExact]
          split <;> simp_all

/-- equal after folding ⇒ both or neither start with a quote / backslash -/
theorem CharWise.isExact_of_fe (T : CharWise E fold lc uc fc) {a b : Str} (h : a.map fc = b.map fc) :
    isExact a = isExact b := by
  rw [isExact_eq_head, isExact_eq_head]
  cases a with
  | nil => cases b with
    | nil => rfl
    | cons d s => simp at h
  | cons c r => cases b with
    | nil => simp at h
    | cons d s =>
      simp only [List.map_cons, List.cons.injEq] at h
      simp only
      rw [← T.fold_quote c, ← T.fold_quote d, h.1]

/-! ### `startswith` / `endswith` on the lower-cased strings -/

theorem prefix_cut (lc : Char → Char) (p v : Str) (h : (p.map lc).isPrefixOf (v.map lc) = true) :
    (v.take p.length).map lc = p.map lc ∧ p.length ≤ v.length := by
  rw [List.isPrefixOf_iff_prefix] at h
  have hlen : p.length ≤ v.length := by simpa using h.length_le
  refine ⟨?_, hlen⟩
  have := List.prefix_iff_eq_take.mp h
  rw [List.length_map, ← List.map_take] at this
  exact this.symm

theorem suffix_cut (lc : Char → Char) (x v : Str) (h : (x.map lc).isSuffixOf (v.map lc) = true) :
    (v.drop (v.length - x.length)).map lc = x.map lc ∧ x.length ≤ v.length := by
  rw [List.isSuffixOf_iff_suffix] at h
  have hlen : x.length ≤ v.length := by simpa using h.length_le
  refine ⟨?_, hlen⟩
  have := List.suffix_iff_eq_drop.mp h
  rw [List.length_map, List.length_map, ← List.map_drop] at this
  exact this.symm

theorem pySliceFrom_nonneg (s : Str) (k : Nat) (h : k ≤ s.length) :
    pySliceFrom s ((s.length : Int) - k) = s.drop (s.length - k) := by
  unfold pySliceFrom
  have h1 : ¬ ((s.length : Int) - k < 0) := by omega
  simp only [h1, if_false]
  congr 1
  omega

theorem pySliceTo_nonneg (s : Str) (k : Nat) (h : k ≤ s.length) :
    pySliceTo s ((s.length : Int) - k) = s.take (s.length - k) := by
  unfold pySliceTo
  have h1 : ¬ ((s.length : Int) - k < 0) := by omega
  simp only [h1, if_false]
  congr 1
  omega

end
end Vsgm.Base.Case
