/-
  Token level of the case family: analysis + fix of each of the five `_fix_violation` owners.
-/
import VsgProofs.Lemmas.BaseCase
import VsgProofs.Lemmas.BaseCommon
import VsgModel.Base.Dispatch
namespace Vsgm.Base.Case
open Vsgm Vsgm.Base

/-! ### `CaseOnly` as a relation -/

deriving instance DecidableEq for Except

instance (fold : Str → Str) (a b : List Tok) : Decidable (CaseOnly fold a b) := by
  unfold CaseOnly; exact inferInstance

theorem tokCaseEq_refl (fold : Str → Str) (t : Tok) : tokCaseEq fold t t = true := by
  unfold tokCaseEq
  by_cases h : (t.exact || !t.isCode) = true
  · simp [h]
  · have : t.exact = false := by
      cases he : t.exact <;> simp_all
    simp [this]

theorem caseOnly_refl (fold : Str → Str) (l : List Tok) : CaseOnly fold l l := by
  unfold CaseOnly
  induction l with
  | nil => rfl
  | cons t l ih => simp [caseOnlyB, tokCaseEq_refl, ih]

theorem caseOnly_append (fold : Str → Str) {a a' b b' : List Tok} (h1 : CaseOnly fold a a')
    (h2 : CaseOnly fold b b') : CaseOnly fold (a ++ b) (a' ++ b') := by
  unfold CaseOnly at *
  induction a generalizing a' with
  | nil => cases a' <;> simp_all [caseOnlyB]
  | cons s a ih =>
    cases a' with
    | nil => simp [caseOnlyB] at h1
    | cons t a' =>
      simp only [caseOnlyB, Bool.and_eq_true, List.cons_append] at h1 ⊢
      exact ⟨h1.1, ih h1.2⟩

/-- a case-only step keeps every token class and kind -/
theorem caseOnly_classes (fold : Str → Str) {a b : List Tok} (h : CaseOnly fold a b) :
    a.map (fun t => (t.cls, t.kind)) = b.map (fun t => (t.cls, t.kind)) := by
  unfold CaseOnly at h
  induction a generalizing b with
  | nil => cases b <;> simp_all [caseOnlyB]
  | cons s a ih =>
    cases b with
    | nil => simp [caseOnlyB] at h
    | cons t b =>
      simp only [caseOnlyB, Bool.and_eq_true] at h
      have h1 := h.1
      unfold tokCaseEq at h1
      simp only [Bool.and_eq_true, beq_iff_eq] at h1
      simp [h1.1.1.1, h1.1.1.2, ih h.2]

section tok
variable {E : Env} {fold : Str → Str} {lc uc fc : Char → Char}

theorem skip_eq_head (v : Str) :
    doesNotContainAnyAlpha v = (match v with | [] => false | c :: _ => isQ c) := by
  cases v with
  | nil => rfl
  | cons c r =>
    simp only [isQ]
    by_cases h1 : c = '"'
    · subst h1; rfl
    · by_cases h2 : c = '\''
      · subst h2; rfl
      · by_cases h3 : c = '\\'
        · subst h3; rfl
        · simp only [doesNotContainAnyAlpha]
          split <;> simp_all

/-- AFTER THE REPAIR the values the case rules skip are exactly the values that "compare exactly"
    (string literals, character literals, extended identifiers) -/
theorem isExact_eq_skip (v : Str) : isExact v = doesNotContainAnyAlpha v := by
  rw [isExact_eq_head, skip_eq_head]
  cases v <;> rfl

/-- an extended identifier is skipped -/
theorem skip_of_backslash {v : Str} (h : v.head? = some '\\') : doesNotContainAnyAlpha v = true := by
  cases v with
  | nil => simp at h
  | cons c r =>
    simp only [List.head?_cons, Option.some.injEq] at h
    subst h; rfl

theorem not_backslash_of_not_skip {v : Str} (h : doesNotContainAnyAlpha v = false) : v.head? ≠ some '\\' := by
  intro hb
  rw [skip_of_backslash hb] at h
  cases h

/-- ONE TOKEN'S VALUE REPLACED by a value that is equal after folding: a case-only change, provided
    the token is a code token and not a literal / extended identifier -/
theorem set_caseOnly (T : CharWise E fold lc uc fc) (l : List Tok) (i : Nat) (t : Tok) (e : Str)
    (hi : l[i]? = some t) (hc : t.isCode = true) (hx : t.exact = false) (hfe : e.map fc = t.val.map fc) :
    CaseOnly fold l (l.set i { t with val := e }) := by
  unfold CaseOnly
  induction l generalizing i with
  | nil => simp at hi
  | cons x l ih =>
    cases i with
    | zero =>
      simp only [List.getElem?_cons_zero, Option.some.injEq] at hi
      subst hi
      simp only [List.set_cons_zero, caseOnlyB, Bool.and_eq_true]
      refine ⟨?_, caseOnly_refl fold l⟩
      have hx' : ({ x with val := e } : Tok).exact = false := by
        unfold Tok.exact at hx ⊢
        simp only
        rw [T.isExact_of_fe hfe]; exact hx
      unfold tokCaseEq
      simp only [hx, hc, Bool.not_true, Bool.or_false, Bool.false_eq_true, if_false, hx', Bool.not_false,
        Bool.and_true, T.fold_eq, hfe, beq_self_eq_true, fe_length hfe]
    | succ j =>
      simp only [List.getElem?_cons_succ] at hi
      simp only [List.set_cons_succ, caseOnlyB, Bool.and_eq_true]
      exact ⟨tokCaseEq_refl fold x, ih j hi⟩

theorem pyIdx_ofNat (n k : Nat) (j : Nat) (h : pyIdx n (j : Int) = some k) : k = j ∧ j < n := by
  unfold pyIdx at h
  have h1 : ¬ ((j : Int) < 0) := by omega
  simp only [h1, if_false] at h
  split at h
  · rename_i hlt
    simp only [Option.some.injEq] at h
    exact ⟨by omega, by omega⟩
  · cases h

/-- `lTokens[j].set_value(e)` for a non-negative `j` -/
theorem getset_eq (l r : List Tok) (j : Nat) (e : Str)
    (h : (do let t ← pyGet l (j : Int); pySet l (j : Int) { t with val := e }) = Except.ok r) :
    ∃ t, l[j]? = some t ∧ r = l.set j { t with val := e } := by
  cases hg : pyGet l (j : Int) with
  | error x => simp [hg, bind, Except.bind] at h
  | ok t =>
    simp only [hg, bind, Except.bind] at h
    obtain ⟨k, hk, hkt⟩ := pyGet_some l _ t hg
    obtain ⟨k', hk', hr⟩ := pySet_eq _ _ _ _ h
    obtain ⟨rfl, _⟩ := pyIdx_ofNat _ _ _ hk
    obtain ⟨rfl, _⟩ := pyIdx_ofNat _ _ _ hk'
    exact ⟨t, hkt, hr⟩

/-! ### token_case -/

/-- hypotheses on the token a `token_case` rule looks at (token 0 of the region):
    a code token (the extractor returns tokens of the rule's classes), and for the
    `bit_string_literal` rules (which do not skip quoted values) a bit-string value token.
    (The former clause "not an extended identifier" is gone: since the repair the analysis skips
    `\Ext\` itself — `bfull_case_extended_identifier_untouched` in C03.lean.) -/
structure TokOk (p : Params) (t : Tok) : Prop where
  code : t.isCode = true
  bitString : p.name = bitStringLiteral → doesNotContainAnyAlpha t.val = true → t.kind = .codeCI

theorem exact_false_of_reported {p : Params} {cp cs : Bool} {t : Tok} {idx : Int} {a : Action}
    (ht : TokOk p t) (h : checkForCaseViolation E p cp cs t.val idx = .ok (some a)) : t.exact = false := by
  have hs := check_not_skipped h
  unfold Tok.exact
  rw [isExact_eq_skip]
  cases hd : doesNotContainAnyAlpha t.val with
  | false => rfl
  | true =>
    rw [hd, Bool.and_true] at hs
    have hn : p.name = bitStringLiteral := by simpa using hs
    have := ht.bitString hn hd
    simp [this]

theorem TokenCase.analyze_get {p : Params} {l : List Tok} {o : Option Action}
    (h : TokenCase.analyzeToi E p l = .ok o) :
    ∃ t, l[0]? = some t ∧
      checkForCaseViolation E p (isExceptionEnabled p.prefixes) (isExceptionEnabled p.suffixes) t.val 0 = .ok o := by
  unfold TokenCase.analyzeToi at h
  cases hg : pyGet l 0 with
  | error x => simp [hg, bind, Except.bind] at h
  | ok t =>
    simp only [hg, bind, Except.bind] at h
    obtain ⟨k, hk, hkt⟩ := pyGet_some l _ t hg
    obtain ⟨rfl, _⟩ := pyIdx_ofNat _ _ 0 hk
    exact ⟨t, hkt, h⟩

theorem TokenCase.fix_shape {a : Action} {l r : List Tok} (h : TokenCase.fixV a l = .ok r) :
    (a.value = none ∧ r = l) ∨ ∃ e t, a.value = some e ∧ l[0]? = some t ∧ r = l.set 0 { t with val := e } := by
  unfold TokenCase.fixV at h
  cases hv : a.value with
  | none => simp only [hv] at h; cases h; exact .inl ⟨rfl, rfl⟩
  | some e =>
    simp only [hv] at h
    obtain ⟨t, ht, hr⟩ := getset_eq l r 0 e h
    exact .inr ⟨e, t, rfl, ht, hr⟩

/-- B-FULL, token_case: for the action produced by the analysis the fix is case-only -/
theorem TokenCase.analyze_fix_caseOnly (T : CharWise E fold lc uc fc) (p : Params) (l r : List Tok)
    (a : Action) (hok : ∀ t, l[0]? = some t → TokOk p t)
    (ha : TokenCase.analyzeToi E p l = .ok (some a)) (hf : TokenCase.fixV a l = .ok r) :
    CaseOnly fold l r := by
  obtain ⟨t, ht, hc⟩ := TokenCase.analyze_get ha
  rcases TokenCase.fix_shape hf with ⟨_, hrl⟩ | ⟨e, t', he, ht', hrl⟩
  · rw [hrl]; exact caseOnly_refl fold l
  · rw [ht] at ht'; cases ht'
    rw [hrl]
    exact set_caseOnly T l 0 t e ht (hok t ht).code (exact_false_of_reported (hok t ht) hc) (check_sound T hc e he)

/-- B-FULL, token_case, idempotence: analyse the fixed region again — `lower` / `upper` report
    nothing; whatever is reported (`upper_or_lower`: None, pattern styles: the value itself) makes
    the second fix the identity -/
theorem TokenCase.analyze_fix_idem (T : CharWiseIdem E fold lc uc fc) (p : Params) (l r : List Tok)
    (a : Action) (hnd : NoCaseDup E p.exceptions)
    (ha : TokenCase.analyzeToi E p l = .ok (some a)) (hf : TokenCase.fixV a l = .ok r) :
    ∃ o, TokenCase.analyzeToi E p r = .ok o ∧
      ((p.style = .lower ∨ p.style = .upper) → o = none) ∧
      ∀ a', o = some a' → TokenCase.fixV a' r = .ok r := by
  obtain ⟨t, ht, hc⟩ := TokenCase.analyze_get ha
  have hlen : 0 < l.length := by
    cases l with
    | nil => simp at ht
    | cons x l => simp
  rcases TokenCase.fix_shape hf with ⟨hv, hrl⟩ | ⟨e, t', he, ht', hrl⟩
  · -- unrepairable: the region is unchanged, the same action is reported again and does nothing
    rw [hrl]
    refine ⟨some a, ha, ?_, ?_⟩
    · intro hst
      exfalso
      -- lower / upper always record a value
      by_cases hx : p.exceptions.contains t.val = true
      · rw [check_exc (check_not_skipped hc) hx, checkForException_mem hnd (by simpa using hx)] at hc
        cases hc
      · have hx' : p.exceptions.contains t.val = false := by simpa using hx
        rcases check_style_path hx' hc with ⟨h0, _⟩ | ⟨f, pre, w, suf, hl, hd, ho⟩
        · cases h0
        · obtain ⟨_, hcases⟩ := style_cases T.toCharWise hl t.val pre w suf 0 a ho.symm
          rcases hcases with ⟨_, h1⟩ | ⟨_, h1⟩ | ⟨h1, _⟩ | ⟨n, h1, _⟩
          · rw [hv] at h1; cases h1
          · rw [hv] at h1; cases h1
          · rw [h1] at hst; rcases hst with h | h <;> cases h
          · rw [h1] at hst; rcases hst with h | h <;> cases h
    · intro a' ha'
      cases ha'
      unfold TokenCase.fixV
      simp [hv]
  · rw [ht] at ht'; cases ht'
    rw [hrl]
    obtain ⟨o, ho, h1, h2⟩ := check_second (idx' := 0) T hnd hc e he
    have hget : pyGet (l.set 0 { t with val := e }) 0 = .ok { t with val := e } := by
      unfold pyGet pyIdx
      simp [hlen]
    refine ⟨o, ?_, h1, ?_⟩
    · unfold TokenCase.analyzeToi
      simp only [hget, bind, Except.bind]
      exact ho
    · intro a' ha'
      unfold TokenCase.fixV
      rcases h2 a' ha' with hn | hs
      · simp [hn]
      · simp only [hs, hget, bind, Except.bind]
        unfold pySet pyIdx
        simp [hlen]

/-! ### formal part of an association element -/

theorem FormalPart.scan_spec (c : FormalPart.Classes) (p : Params) (cp cs : Bool) :
    ∀ (rest : List Tok) (i : Nat) (mf ff : Bool) (acc out : List Action) (pre : List Tok),
      pre.length = i → FormalPart.scan E c p cp cs rest i mf ff acc = .ok out →
      ∀ a ∈ out, a ∈ acc ∨ ∃ (j : Nat) (t : Tok), (pre ++ rest)[j]? = some t ∧ t.cls = c.formal ∧
        checkForCaseViolation E p cp cs t.val (j : Int) = .ok (some a) := by
  intro rest
  induction rest with
  | nil =>
    intro i mf ff acc out pre _ h a ha
    simp only [FormalPart.scan, Except.ok.injEq] at h
    subst h
    exact .inl ha
  | cons t r ih =>
    intro i mf ff acc out pre hpre h a ha
    have happ : pre ++ t :: r = (pre ++ [t]) ++ r := by simp
    have hlen : (pre ++ [t]).length = i + 1 := by simp [hpre]
    unfold FormalPart.scan at h
    by_cases h1 : (t.cls == c.mapStart) = true
    · simp only [h1, if_true] at h
      rw [happ]
      exact ih _ _ _ _ _ _ hlen h a ha
    · simp only [h1, Bool.false_eq_true, if_false] at h
      by_cases h2 : (t.cls == c.mapEnd) = true
      · simp only [h2, if_true, Except.ok.injEq] at h
        subst h
        exact .inl ha
      · simp only [h2, Bool.false_eq_true, if_false] at h
        by_cases hit : (t.cls == c.formal && !ff && mf) = true
        · simp only [hit, if_true, bind, Except.bind] at h
          cases hchk : checkForCaseViolation E p cp cs t.val (i : Int) with
          | error x => simp [hchk] at h
          | ok o =>
            simp only [hchk, pure, Except.pure] at h
            rcases ih _ _ _ _ _ _ hlen h a ha with hin | hex
            · rcases List.mem_append.mp hin with h' | h'
              · exact .inl h'
              · right
                cases o with
                | none => simp at h'
                | some a0 =>
                  simp only [Option.toList_some, List.mem_singleton] at h'
                  subst h'
                  refine ⟨i, t, ?_, ?_, hchk⟩
                  · rw [← hpre]; simp
                  · simp only [Bool.and_eq_true, beq_iff_eq] at hit
                    exact hit.1.1
            · right; rw [happ]; exact hex
        · simp only [hit, Bool.false_eq_true, if_false, bind, Except.bind, pure, Except.pure] at h
          rcases ih _ _ _ _ _ _ hlen h a ha with hin | hex
          · exact .inl hin
          · right; rw [happ]; exact hex

theorem FormalPart.fix_shape {i : Int} {v : Option Str} {l r : List Tok}
    (h : FormalPart.fixV i (.ok v) l = .ok r) (j : Nat) (hj : i = (j : Int)) :
    ∃ e t, v = some e ∧ l[j]? = some t ∧ r = l.set j { t with val := e } := by
  subst hj
  unfold FormalPart.fixV at h
  cases hg : pyGet l (j : Int) with
  | error x => simp [hg, bind, Except.bind] at h
  | ok t =>
    simp only [hg, bind, Except.bind] at h
    cases v with
    | none => simp at h
    | some e =>
      simp only at h
      obtain ⟨k, hk, hkt⟩ := pyGet_some l _ t hg
      obtain ⟨k', hk', hr⟩ := pySet_eq _ _ _ _ h
      obtain ⟨rfl, _⟩ := pyIdx_ofNat _ _ _ hk
      obtain ⟨rfl, _⟩ := pyIdx_ofNat _ _ _ hk'
      exact ⟨e, t, rfl, hkt, hr⟩

/-- B-FULL, formal part: every action the analysis of a region produces makes a case-only fix, for
    every `case_exceptions` list (since the repo repair of `check_for_exception` the recorded index is
    the token's; before it the list must not contain the same word twice in different case) -/
theorem FormalPart.analyze_fix_caseOnly (T : CharWise E fold lc uc fc) (c : FormalPart.Classes)
    (p : Params) (l r : List Tok) (acts : List Action) (a : Action)
    (hok : ∀ t ∈ l, t.cls = c.formal → TokOk p t)
    (ha : FormalPart.analyzeToi E c p l = .ok acts) (hm : a ∈ acts)
    (hf : FormalPart.fixV a.index (.ok a.value) l = .ok r) : CaseOnly fold l r := by
  unfold FormalPart.analyzeToi at ha
  rcases FormalPart.scan_spec c p _ _ l 0 false false [] acts [] rfl ha a hm with h | ⟨j, t, hj, hcls, hchk⟩
  · cases h
  · simp only [List.nil_append] at hj
    have hidx := check_index T hchk
    obtain ⟨e, t', he, ht', rfl⟩ := FormalPart.fix_shape hf j hidx
    rw [hj] at ht'; cases ht'
    have htok := hok t (List.mem_of_getElem? hj) hcls
    exact set_caseOnly T l j t e hj htok.code (exact_false_of_reported htok hchk) (check_sound T hchk e he)

/-! ### the three `consistent_*` owners -/

theorem Consistent.fix_shape {e : Str} {l r : List Tok} (h : Consistent.fixV (.ok (some e)) l = .ok r) :
    ∃ t, l[0]? = some t ∧ r = l.set 0 { t with val := e } := by
  unfold Consistent.fixV at h
  cases hg : pyGet l 0 with
  | error x => simp [hg, bind, Except.bind] at h
  | ok t =>
    simp only [hg, bind, Except.bind] at h
    obtain ⟨k, hk, hkt⟩ := pyGet_some l _ t hg
    obtain ⟨k', hk', hr⟩ := pySet_eq _ _ _ _ h
    obtain ⟨rfl, _⟩ := pyIdx_ofNat _ _ 0 hk
    obtain ⟨rfl, _⟩ := pyIdx_ofNat _ _ 0 hk'
    exact ⟨t, hkt, hr⟩

/-- the repaired value choices leave literals and extended identifiers alone -/
theorem Consistent.expectedFirst_skip {ids : List Str} {v : Str} (h : doesNotContainAnyAlpha v = true) :
    Consistent.expectedFirst E ids v = none := by
  unfold Consistent.expectedFirst
  rw [if_pos h]

theorem Consistent.expectedMap_skip {ids : List Str} {v : Str} (h : doesNotContainAnyAlpha v = true) :
    Consistent.expectedMap E ids v = .ok none := by
  unfold Consistent.expectedMap
  rw [if_pos h]

theorem Consistent.expectedFirst_not_skipped {ids : List Str} {v e : Str}
    (h : Consistent.expectedFirst E ids v = some e) : doesNotContainAnyAlpha v = false := by
  cases hs : doesNotContainAnyAlpha v with
  | false => rfl
  | true => rw [Consistent.expectedFirst_skip hs] at h; cases h

theorem Consistent.expectedMap_not_skipped {ids : List Str} {v e : Str}
    (h : Consistent.expectedMap E ids v = .ok (some e)) : doesNotContainAnyAlpha v = false := by
  cases hs : doesNotContainAnyAlpha v with
  | false => rfl
  | true => rw [Consistent.expectedMap_skip hs] at h; cases h

theorem exact_false_of_not_skip {t : Tok} (h : doesNotContainAnyAlpha t.val = false) : t.exact = false := by
  unfold Tok.exact
  rw [isExact_eq_skip, h]
  rfl

theorem Consistent.expectedFirst_le {ids : List Str} {v e : Str}
    (h : Consistent.expectedFirst E ids v = some e) : E.lowerS e = E.lowerS v ∧ e ∈ ids ∧ e ≠ v := by
  have hs := Consistent.expectedFirst_not_skipped h
  unfold Consistent.expectedFirst at h
  simp only [hs, Bool.false_eq_true, if_false] at h
  cases hf : ids.find? (fun i => E.lowerS i == E.lowerS v) with
  | none => simp [hf] at h
  | some i =>
    simp only [hf] at h
    by_cases hiv : (i == v) = true
    · simp [hiv] at h
    · simp only [hiv, Bool.false_eq_true, if_false, Option.some.injEq] at h
      subst h
      exact ⟨by simpa using List.find?_some hf, List.mem_of_find?_eq_some hf, by simpa using hiv⟩

theorem Consistent.expectedMap_le {ids : List Str} {v e : Str}
    (h : Consistent.expectedMap E ids v = .ok (some e)) : E.lowerS e = E.lowerS v ∧ e ∈ ids := by
  have hs := Consistent.expectedMap_not_skipped h
  unfold Consistent.expectedMap at h
  simp only [hs, Bool.false_eq_true, if_false] at h
  split at h
  · cases hf : ids.reverse.find? (fun i => E.lowerS i == E.lowerS v) with
    | none => simp [hf] at h
    | some i =>
      simp only [hf, Except.ok.injEq, Option.some.injEq] at h
      subst h
      exact ⟨by simpa using List.find?_some hf, by simpa using List.mem_of_find?_eq_some hf⟩
  · cases h

/-- B-FULL (value part), consistent_token_case -/
theorem Consistent.first_fix_caseOnly (T : CharWise E fold lc uc fc) (ids : List Str) (l r : List Tok)
    (t : Tok) (e : Str) (h0 : l[0]? = some t) (hc : t.isCode = true)
    (he : Consistent.expectedFirst E ids t.val = some e)
    (hf : Consistent.fixV (.ok (some e)) l = .ok r) : CaseOnly fold l r := by
  have hx : t.exact = false := exact_false_of_not_skip (Consistent.expectedFirst_not_skipped he)
  obtain ⟨t', ht', rfl⟩ := Consistent.fix_shape hf
  rw [h0] at ht'; cases ht'
  have hl := (Consistent.expectedFirst_le he).1
  rw [T.lower_eq, T.lower_eq] at hl
  exact set_caseOnly T l 0 t e h0 hc hx (T.fe_of_le hl)

/-- B-FULL (value part), consistent_interface_token_case / consistent_subprogram_parameter_token_case -/
theorem Consistent.map_fix_caseOnly (T : CharWise E fold lc uc fc) (ids : List Str) (l r : List Tok)
    (t : Tok) (e : Str) (h0 : l[0]? = some t) (hc : t.isCode = true)
    (he : Consistent.expectedMap E ids t.val = .ok (some e))
    (hf : Consistent.fixV (.ok (some e)) l = .ok r) : CaseOnly fold l r := by
  have hx : t.exact = false := exact_false_of_not_skip (Consistent.expectedMap_not_skipped he)
  obtain ⟨t', ht', rfl⟩ := Consistent.fix_shape hf
  rw [h0] at ht'; cases ht'
  have hl := (Consistent.expectedMap_le he).1
  rw [T.lower_eq, T.lower_eq] at hl
  exact set_caseOnly T l 0 t e h0 hc hx (T.fe_of_le hl)

/-- idempotence of the value choice: the chosen spelling asks for nothing -/
theorem Consistent.expectedFirst_idem {ids : List Str} {v e : Str}
    (h : Consistent.expectedFirst E ids v = some e) : Consistent.expectedFirst E ids e = none := by
  obtain ⟨hl, _, _⟩ := Consistent.expectedFirst_le h
  have hs := Consistent.expectedFirst_not_skipped h
  cases hse : doesNotContainAnyAlpha e with
  | true => exact Consistent.expectedFirst_skip hse
  | false =>
    unfold Consistent.expectedFirst at h ⊢
    simp only [hs, hse, Bool.false_eq_true, if_false] at h ⊢
    rw [hl]
    cases hf : ids.find? (fun i => E.lowerS i == E.lowerS v) with
    | none => simp [hf] at h
    | some i =>
      simp only [hf] at h ⊢
      by_cases hiv : (i == v) = true
      · simp [hiv] at h
      · simp only [hiv, Bool.false_eq_true, if_false, Option.some.injEq] at h
        subst h
        simp

theorem Consistent.expectedMap_idem {ids : List Str} {v e : Str}
    (h : Consistent.expectedMap E ids v = .ok (some e)) : Consistent.expectedMap E ids e = .ok none := by
  obtain ⟨_, hm⟩ := Consistent.expectedMap_le h
  unfold Consistent.expectedMap
  have hc : ids.contains e = true := by simpa using hm
  cases hse : doesNotContainAnyAlpha e with
  | true => rw [if_pos rfl]
  | false => rw [if_neg (by simp), if_neg (by rw [hc]; simp)]

end tok
end Vsgm.Base.Case

/-! ### the dispatcher on the action dictionaries the analyses build

The proofs resolve the `if owner ∈ …` chain of `fixByOwner` by deciding every closed condition
(`repeat (first | rw [if_pos …] | rw [if_neg …])`), so they do not depend on the order or the
number of arms other families add to the dispatcher. -/
namespace Vsgm.Base
open Vsgm Vsgm.Base Vsgm.Base.Case

theorem set_val_shape (l : List Tok) (k : Nat) (t : Tok) (e : Str) (h : l[k]? = some t) :
    (l.set k { t with val := e }).map (fun t => (t.cls, t.kind)) = l.map (fun t => (t.cls, t.kind)) := by
  induction l generalizing k with
  | nil => simp at h
  | cons x l ih =>
    cases k with
    | zero => simp at h; subst h; simp
    | succ j => simp at h; simp [ih j h]

theorem getset_any (l r : List Tok) (i : Int) (e : Str)
    (h : (do let t ← pyGet l i; pySet l i { t with val := e }) = Except.ok r) :
    ∃ k t, l[k]? = some t ∧ r = l.set k { t with val := e } := by
  cases hg : pyGet l i with
  | error x => simp [hg, bind, Except.bind] at h
  | ok t =>
    simp only [hg, bind, Except.bind] at h
    obtain ⟨k, hk, hkt⟩ := pyGet_some l _ t hg
    obtain ⟨k', hk', hr⟩ := pySet_eq _ _ _ _ h
    rw [hk] at hk'; cases hk'
    exact ⟨k, t, hkt, hr⟩

theorem fixByOwner_tokenCase (owner : String) (ho : owner ∈ caseTokenOwners) (params : KV) (a : Action)
    (old : List Tok) : fixByOwner owner params (caseActionKV a) old = some (TokenCase.fixV a old) := by
  simp only [caseTokenOwners, List.mem_singleton] at ho
  subst ho
  unfold fixByOwner
  repeat (first | rw [if_pos (by decide +kernel)] | rw [if_neg (by decide +kernel)])
  cases a with
  | mk v i =>
    cases v <;> rfl

theorem fixByOwner_formal (owner : String) (ho : owner ∈ caseFormalOwners) (params : KV) (a : Action)
    (old : List Tok) :
    fixByOwner owner params (caseActionKV a) old = some (FormalPart.fixV a.index (.ok a.value) old) := by
  simp only [caseFormalOwners, List.mem_singleton] at ho
  subst ho
  unfold fixByOwner
  repeat (first | rw [if_pos (by decide +kernel)] | rw [if_neg (by decide +kernel)])
  cases a with
  | mk v i =>
    cases v <;> rfl

theorem fixByOwner_consistent (owner : String) (ho : owner ∈ caseConsistentOwners) (params : KV) (e : Str)
    (old : List Tok) :
    fixByOwner owner params (consistentActionKV "expected" e) old = some (Consistent.fixV (.ok (some e)) old) := by
  simp only [caseConsistentOwners, List.mem_singleton] at ho
  subst ho
  unfold fixByOwner
  repeat (first | rw [if_pos (by decide +kernel)] | rw [if_neg (by decide +kernel)])
  rfl

theorem fixByOwner_interface (owner : String) (ho : owner ∈ caseInterfaceOwners) (params : KV) (e : Str)
    (old : List Tok) :
    fixByOwner owner params (consistentActionKV "value" e) old = some (Consistent.fixV (.ok (some e)) old) := by
  simp only [caseInterfaceOwners, List.mem_cons, List.mem_nil_iff, or_false] at ho
  unfold fixByOwner
  rcases ho with rfl | rfl
  · repeat (first | rw [if_pos (by decide +kernel)] | rw [if_neg (by decide +kernel)])
    rfl
  · repeat (first | rw [if_pos (by decide +kernel)] | rw [if_neg (by decide +kernel)])
    rfl

/-- FOR ALL ACTIONS: a fix of the case family returns the region itself or the region with ONE
    token's value replaced -/
theorem fixByOwner_case_shape (owner : String) (ho : owner ∈ caseOwners) (params action : KV)
    (old new : List Tok) (h : fixByOwner owner params action old = some (.ok new)) :
    new = old ∨ ∃ k t e, old[k]? = some t ∧ new = old.set k { t with val := e } := by
  have key : ∀ (v : Except PyErr (Option Str)) (i : Int),
      (do let t ← pyGet old i; let x ← v;
          match x with
          | some e => pySet old i { t with val := e }
          | none => Except.error (PyErr.unmodelled "set_value(None)")) = Except.ok new →
      ∃ k t e, old[k]? = some t ∧ new = old.set k { t with val := e } := by
    intro v i hv
    cases hg : pyGet old i with
    | error x => simp [hg, bind, Except.bind] at hv
    | ok t =>
      cases v with
      | error x => simp [hg, bind, Except.bind] at hv
      | ok x =>
        cases x with
        | none => simp [hg, bind, Except.bind] at hv
        | some e =>
          have : (do let t ← pyGet old i; pySet old i { t with val := e }) = Except.ok new := by
            simpa [hg, bind, Except.bind] using hv
          obtain ⟨k, t', hk, hr⟩ := getset_any old new i e this
          exact ⟨k, t', e, hk, hr⟩
  simp only [caseOwners, caseTokenOwners, caseFormalOwners, caseConsistentOwners, caseInterfaceOwners,
    List.cons_append, List.nil_append, List.mem_cons, List.mem_nil_iff, or_false] at ho
  unfold fixByOwner at h
  rcases ho with rfl | rfl | rfl | rfl | rfl
  · repeat (first | rw [if_pos (by decide +kernel)] at h | rw [if_neg (by decide +kernel)] at h)
    simp only [Option.some.injEq] at h
    cases hv : needOptStr action "value" with
    | error x => simp [hv, bind, Except.bind] at h
    | ok v =>
      simp only [hv, bind, Except.bind] at h
      cases v with
      | none => simp only [TokenCase.fixV] at h; cases h; exact .inl rfl
      | some e =>
        simp only [TokenCase.fixV] at h
        obtain ⟨k, t, hk, hr⟩ := getset_any old new 0 e h
        exact .inr ⟨k, t, e, hk, hr⟩
  · repeat (first | rw [if_pos (by decide +kernel)] at h | rw [if_neg (by decide +kernel)] at h)
    simp only [Option.some.injEq] at h
    cases hi : needInt action "index" with
    | error x => simp [hi, bind, Except.bind] at h
    | ok i =>
      simp only [hi, bind, Except.bind] at h
      exact .inr (key _ i h)
  · repeat (first | rw [if_pos (by decide +kernel)] at h | rw [if_neg (by decide +kernel)] at h)
    simp only [Option.some.injEq] at h
    exact .inr (key _ 0 h)
  · repeat (first | rw [if_pos (by decide +kernel)] at h | rw [if_neg (by decide +kernel)] at h)
    simp only [Option.some.injEq] at h
    exact .inr (key _ 0 h)
  · repeat (first | rw [if_pos (by decide +kernel)] at h | rw [if_neg (by decide +kernel)] at h)
    simp only [Option.some.injEq] at h
    exact .inr (key _ 0 h)

end Vsgm.Base
