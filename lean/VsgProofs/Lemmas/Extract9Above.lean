/-
  WP3b: the line-above family records ONE MORE than the line its region starts on (the line of the
  matched token; the region is the line above it).
-/
import VsgProofs.Lemmas.Extract9Line
namespace Vsgm.TM.X.Lemmas
open Vsgm Vsgm.TM Vsgm.TM.Lemmas Vsgm.TM.X

variable {α : Type}

theorem bisectLeft_pos_of_mem (l : List Nat) (hs : l.Pairwise (· ≤ ·)) (c : Nat) (x : Int) (hc : c ∈ l) (hx : (c : Int) < x) :
    1 ≤ bisectLeft l x := by
  cases l with
  | nil => simp at hc
  | cons a t =>
    rw [bisectLeft_cons]
    have hac : a ≤ c := by
      rcases List.mem_cons.mp hc with rfl | h
      · exact Nat.le_refl _
      · exact (List.pairwise_cons.mp hs).1 c h
    have : (a : Int) < x := by omega
    simp [this]

theorem isAt_cr_mem (uid : α → Option Key) (f : List α) (j : Int) (h : (processTokens uid f).isAt (some crKey) j = true) :
    0 ≤ j ∧ j.toNat ∈ (processTokens uid f).get (some crKey) := by
  have h0 := isAt_nonneg _ _ _ h
  refine ⟨h0, ?_⟩
  unfold Index.isAt at h
  simp only at h
  cases hf : (processTokens uid f).dmap.find crKey with
  | none => simp [hf] at h
  | some l =>
    simp only [hf] at h
    unfold memInt at h
    simp only [Bool.and_eq_true, decide_eq_true_eq, List.contains_iff_mem] at h
    show j.toNat ∈ ((processTokens uid f).dmap.find crKey).getD []
    rw [hf]; exact h.2

/-- a token that starts a line (a line break one or two positions before it) is on line 2 or later -/
theorem startOfLine_line_ge (uid : α → Option Key) (f : List α) (i : Nat) (n : Nat)
    (hs : isStartOfLine (processTokens uid f) (i : Int) = true) (hl : (processTokens uid f).lineOf (i : Int) = .ok n) : 2 ≤ n := by
  have hc : ∃ c : Nat, c ∈ (processTokens uid f).get (some crKey) ∧ (c : Int) < (i : Int) := by
    unfold isStartOfLine at hs
    simp only [Bool.or_eq_true, Bool.and_eq_true] at hs
    rcases hs with h | ⟨h, _⟩
    · obtain ⟨h0, hm⟩ := isAt_cr_mem uid f _ h
      exact ⟨_, hm, by omega⟩
    · obtain ⟨h0, hm⟩ := isAt_cr_mem uid f _ h
      exact ⟨_, hm, by omega⟩
  obtain ⟨c, hcm, hci⟩ := hc
  have hne : (processTokens uid f).get (some crKey) ≠ [] := by intro e; rw [e] at hcm; simp at hcm
  rw [fresh_lineOf uid f _ hne] at hl
  injection hl with hl
  have hsorted : ((processTokens uid f).get (some crKey)).Pairwise (· ≤ ·) := by
    show ((processTokens uid f).dmap.get crKey).Pairwise (· ≤ ·)
    rw [processTokens_get]; exact specFrom_sorted crKey _ 0
  have := bisectLeft_pos_of_mem _ hsorted c (i : Int) hcm hci
  omega

theorem linePreceding2_lineOfStart (uid : α → Option Key) (f : List α) (line : Nat) (incl : Bool) (t : Toi α) (h2 : 2 ≤ line)
    (h : linePreceding2 f (processTokens uid f) line 1 incl = .ok t) :
    ∃ s : Nat, t.start = some (s : Int) ∧ t.line = lineNo uid f s + 1 := by
  unfold linePreceding2 at h
  split at h
  · exact linePrecedingSkip_lineOfStart uid f line t h
  · exact linePreceding_lineOfStart uid f line 1 t (by omega) h

theorem lines_ge_two (uid : α → Option Key) (f : List α) (idxs lines : List Nat)
    (hidx : ∀ i ∈ idxs, isStartOfLine (processTokens uid f) (i : Int) = true)
    (h : mapE (fun (i : Nat) => (processTokens uid f).lineOf i) idxs = .ok lines) : ∀ l ∈ sortNat lines, 2 ≤ l := by
  intro l hl
  unfold sortNat at hl
  rw [List.mem_mergeSort] at hl
  obtain ⟨i, hi, hli⟩ := mem_mapE _ _ _ h l hl
  exact startOfLine_line_ge uid f i l (hidx i hi) hli

theorem lineAbove_lineOfStart (uid : α → Option Key) (f : List α) (cs : List Cls) (incl : Bool) (r : List (Toi α))
    (h : lineAbove f (processTokens uid f) cs incl = .ok r) :
    ∀ t ∈ r, ∃ s : Nat, t.start = some (s : Int) ∧ t.line = lineNo uid f s + 1 := by
  intro t ht
  unfold lineAbove at h
  simp only [bind_ok] at h
  obtain ⟨lines, hlines, h⟩ := h
  obtain ⟨l, hl, hb⟩ := mem_mapE _ _ _ h t ht
  have h2 := lines_ge_two uid f _ lines (fun i hi => by simpa using (List.mem_filter.mp hi).2) hlines l hl
  exact linePreceding2_lineOfStart uid f l incl t h2 hb

theorem lineAboveHier_lineOfStart (uid : α → Option Key) (f : List α) (hier : α → Option Int) (cs : List Cls) (lh : List Int)
    (incl : Bool) (r : List (Toi α)) (h : lineAboveHier f (processTokens uid f) hier cs lh incl = .ok r) :
    ∀ t ∈ r, ∃ s : Nat, t.start = some (s : Int) ∧ t.line = lineNo uid f s + 1 := by
  intro t ht
  unfold lineAboveHier at h
  simp only [bind_ok] at h
  obtain ⟨idxs, hidxs, lines, hlines, h⟩ := h
  obtain ⟨l, hl, hb⟩ := mem_mapE _ _ _ h t ht
  have hst : ∀ i ∈ idxs, isStartOfLine (processTokens uid f) (i : Int) = true := by
    intro i hi
    unfold hierIdxs at hidxs
    obtain ⟨j, _, hg⟩ := mem_filterMapE _ _ _ hidxs i hi
    simp only [bind_ok, pure_ok] at hg
    obtain ⟨x, _, hg⟩ := hg
    split at hg
    · rename_i hc
      simp only [Option.some.injEq] at hg
      subst hg
      simp only [Bool.and_eq_true] at hc
      exact hc.2
    · cases hg
  have h2 := lines_ge_two uid f idxs lines hst hlines l hl
  exact linePreceding2_lineOfStart uid f l incl t h2 hb

end Vsgm.TM.X.Lemmas
