/-
  C01 — fixing never changes what the VHDL means.
  ONLY property theorems and their non-vacuity examples live here.
-/
import VsgModel.Engine.RuleRun
import VsgModel.Engine.Relations
import VsgModel.Check.Verdict
import VsgProofs.Lemmas.Extras
import VsgProofs.Lemmas.BaseLineStruct
import VsgProofs.Lemmas.BaseWsEffects
import VsgProofs.Lemmas.BaseBindEffects
import VsgProofs.Lemmas.PostPhase1
import VsgProofs.Lemmas.BaseCaseTok
import VsgProofs.Lemmas.BaseStructDispatch
import VsgProofs.Lemmas.BaseVerdict
import VsgProofs.Lemmas.BaseParensAction
import VsgModel.Generated.StructParams
import VsgProofs.Lemmas.BaseMultiDispatch
namespace Vsgm.C01
open Vsgm Vsgm.Verdict

variable (fold : Str → Str)

/-- **engine**: if the violations of one `Rule.fix` are sorted, disjoint and in range and each
    `_fix_violation` keeps the code sequence of its own slice, `vhdlFile.update` keeps the
    code sequence of the whole file — no token lost, duplicated or reordered by the splice -/
theorem update_codeSeq (f : List Tok) (es : List (Edit Tok)) (h : Chain f.length 0 es)
    (hp : ∀ e ∈ es, codeSeq fold e.new = codeSeq fold (old f e)) :
    codeSeq fold (update f es) = codeSeq fold f :=
  update_hom (codeSeq fold) (codeSeq_append fold) f es h hp

/-- **engine, structural rules**: for any relation `R` on code sequences that is reflexive
    and compatible with concatenation (e.g. "equal up to the permitted redundant elements"),
    per-violation `R` lifts to the whole update -/
theorem update_codeRel (R : List Str → List Str → Prop) (hrefl : ∀ x, R x x)
    (happ : ∀ a a' b b', R a a' → R b b' → R (a ++ b) (a' ++ b'))
    (f : List Tok) (es : List (Edit Tok)) (h : Chain f.length 0 es)
    (hp : ∀ e ∈ es, R (codeSeq fold (old f e)) (codeSeq fold e.new)) :
    R (codeSeq fold f) (codeSeq fold (update f es)) :=
  update_rel (codeSeq fold) (codeSeq_append fold) R hrefl happ f es h hp

/-- dropping the beginning_of_file pseudo token from a replacement (as `update` does) never
    drops code -/
theorem dropBof_codeSeq (l : List Tok) : codeSeq fold (dropBof l) = codeSeq fold l := by
  induction l with
  | nil => rfl
  | cons t l ih =>
    by_cases h : t.isBof = true
    · have hc : t.isCode = false := by
        unfold Tok.isBof at h; unfold Tok.isCode
        cases hk : t.kind <;> simp_all
      simp [dropBof, h, codeSeq, codeOf, hc] at ih ⊢
      exact ih
    · simp [dropBof, h, codeSeq] at ih ⊢
      exact ih

/-- phases 2–5 and 6: a layout-only or case-only step keeps the code sequence -/
theorem layout_or_case_step (a b : List Tok) (h : LayoutOnly a b ∨ CaseOnly fold a b) :
    codeSeq fold a = codeSeq fold b := by
  rcases h with h | h
  · exact h.codeSeq fold
  · exact h.codeSeq fold

/-- a whole run whose consecutive states are layout-only, case-only or code-preserving steps
    ends with the code sequence it started with -/
theorem run_codeSeq (states : List (List Tok)) (first : List Tok)
    (h : StepsAll (fun a b => LayoutOnly a b ∨ CaseOnly fold a b ∨ codeSeq fold a = codeSeq fold b) first states) :
    codeSeq fold (lastOf first states) = codeSeq fold first := by
  induction states generalizing first with
  | nil => rfl
  | cons s rest ih =>
    simp only [StepsAll] at h
    have h1 : codeSeq fold first = codeSeq fold s := by
      rcases h.1 with h | h | h
      · exact h.codeSeq fold
      · exact h.codeSeq fold
      · exact h
    rw [h1]; exact ih s h.2

/-- soundness of the step-level certificate check, class `none` (every rule that is not one
    of the documented structure-changing base classes): accepted ⇒ code sequence unchanged -/
theorem codeAllowed_none (n : Nat) (a b : List Str) (h : codeAllowed .none n a b = true) : a = b := by
  simpa [codeAllowed] using h

/-- class `insert` (optional elements, added or — with `action: remove` — removed): accepted ⇒
    one of the two code sequences is a subsequence of the other (nothing reordered, nothing
    replaced); what is added consists only of redundant keywords or copies of names present in the
    input; what is removed is a redundant keyword, a name that is still present, or the token in
    the end-name position; at most two tokens per violation -/
theorem codeAllowed_insert (n : Nat) (a b : List Str) (h : codeAllowed .insert n a b = true) :
    a = b ∨
    (∃ e, Trace.extras a b = some e ∧ a.Sublist b ∧ (∀ x ∈ e, x ∈ redundantKeywords ∨ (isWord x = true ∧ x ∈ a)) ∧ e.length ≤ n * 2) ∨
    (∃ e, Trace.extras b a = some e ∧ b.Sublist a ∧ e.length ≤ n * 2) := by
  simp only [codeAllowed, Bool.or_eq_true, beq_iff_eq] at h
  rcases h with h | h | h
  · exact Or.inl h
  · refine Or.inr (Or.inl ?_)
    unfold insertOk at h
    split at h
    · rename_i e he
      refine ⟨e, he, (Lemmas.extras_sublist _ _ _ he).1, ?_, ?_⟩
      · intro x hx
        simp only [Bool.and_eq_true, List.all_eq_true, Bool.or_eq_true, decide_eq_true_eq] at h
        exact h.1 x hx
      · simp only [Bool.and_eq_true, perEdit] at h
        exact of_decide_eq_true h.2
    · simp at h
  · refine Or.inr (Or.inr ?_)
    unfold removeOk at h
    split at h
    · rename_i e he
      have hx := Lemmas.extrasP_extras _ _ _ _ he
      refine ⟨e.map (·.2), hx, (Lemmas.extras_sublist _ _ _ hx).1, ?_⟩
      simp only [Bool.and_eq_true, perEdit] at h
      simpa using of_decide_eq_true h.2
    · simp at h

/-- class `parens` (added, or removed with `parenthesis: remove`): accepted ⇒ one sequence is a
    subsequence of the other and the surplus is a balanced string of parentheses -/
theorem codeAllowed_parens (n : Nat) (a b : List Str) (h : codeAllowed .parens n a b = true) :
    a = b ∨ (∃ e, Trace.extras a b = some e ∧ a.Sublist b ∧ balanced e 0 = true) ∨
      (∃ e, Trace.extras b a = some e ∧ b.Sublist a ∧ balanced e 0 = true) := by
  have key : ∀ (a b : List Str), parensOk n a b = true →
      ∃ e, Trace.extras a b = some e ∧ a.Sublist b ∧ balanced e 0 = true := by
    intro a b h
    unfold parensOk at h
    split at h
    · rename_i e he
      simp only [Bool.and_eq_true] at h
      exact ⟨e, he, (Lemmas.extras_sublist _ _ _ he).1, h.1⟩
    · simp at h
  simp only [codeAllowed, Bool.or_eq_true, beq_iff_eq] at h
  rcases h with h | h | h
  · exact Or.inl h
  · exact Or.inr (Or.inl (key a b h))
  · exact Or.inr (Or.inr (key b a h))

/-- class `delete`: accepted ⇒ every code token of the output was in the input, in the same
    order (nothing invented, duplicated or reordered) -/
theorem codeAllowed_delete (n : Nat) (a b : List Str) (h : codeAllowed .delete n a b = true) :
    b.Sublist a := by
  simp only [codeAllowed, Bool.or_eq_true, beq_iff_eq] at h
  rcases h with h | h
  · subst h; exact List.Sublist.refl _
  · unfold deleteOk at h
    split at h
    · rename_i e he; exact (Lemmas.extras_sublist _ _ _ he).1
    · simp at h

/-- class `split`: accepted ⇒ apart from commas nothing is lost or reordered, and whatever is
    added is a copy of a token of the input or a `;` -/
theorem codeAllowed_split (n : Nat) (a b : List Str) (h : codeAllowed .split n a b = true) :
    (a.filter (· != s ",")).Sublist (b.filter (· != s ",")) := by
  simp only [codeAllowed, Bool.or_eq_true, beq_iff_eq] at h
  rcases h with h | h
  · subst h; exact List.Sublist.refl _
  · unfold splitOk at h
    split at h
    · rename_i e he; exact (Lemmas.extras_sublist _ _ _ he).1
    · simp at h

/-! ### non-vacuity -/

/-- a concrete layout edit (one whitespace token resized between two code tokens) satisfies the
    hypotheses of `update_codeSeq` -/
example :
    let a : Tok := ⟨5, .code, "a".toList⟩
    let w : Tok := ⟨1, .ws, " ".toList⟩
    let w2 : Tok := ⟨1, .ws, "   ".toList⟩
    let f := [a, w, a]
    let es : List (Edit Tok) := [⟨1, 2, [w2]⟩]
    Chain f.length 0 es ∧ (∀ e ∈ es, codeSeq id e.new = codeSeq id (old f e)) ∧ update f es = [a, w2, a] := by
  decide

example : codeAllowed .insert 1 ["end".toList, ";".toList] ["end".toList, "process".toList, ";".toList] = true := by decide
example : codeAllowed .insert 1 ["end".toList, ";".toList] ["end".toList, "foo".toList, ";".toList] = false := by decide
example : codeAllowed .none 1 ["a".toList] ["a".toList, "a".toList] = false := by decide

/-! ### layer B: the whitespace family — BEGIN ag_bws -/

/-- **every `_fix_violation` of the whitespace family (187 rules), all actions, all token lists**: the code
    sequence is kept — `_partial`: the guard says that the old tokens the fix deletes or overwrites are layout
    tokens (comment_100 / whitespace_002: that the token whose value is edited is a comment) -/
theorem bfix_ws_codeSeq_partial (owner : String) (params action : Base.KV) (old new : List Tok)
    (ho : owner ∈ Base.wsOwners) (h : Base.fixByOwner owner params action old = some (.ok new))
    (hg : Base.wsGuard (fun k => k.isLayout) owner params action old = true) : codeSeq fold old = codeSeq fold new := by
  rw [Base.fixByOwner_ws _ _ _ _ ho] at h
  exact Base.ws_codeSeq fold owner params action old new ho h hg

/-- whitespace_between_tokens with `number_of_spaces ≠ 0` (the default of all 171 rules is 1 or ">=1"):
    no guard at all -/
theorem bfix_wsBetween_codeSeq (params action : Base.KV) (old new : List Tok) (nos : Base.NoS)
    (hn : Base.nosOf (params.get "number_of_spaces") = .ok nos) (hn0 : nos ≠ .int 0)
    (h : Base.fixByOwner Base.wsBetweenOwner params action old = some (.ok new)) : codeSeq fold old = codeSeq fold new := by
  apply bfix_ws_codeSeq_partial fold _ params action old new (by decide +kernel) h
  have hne : (nos == Base.NoS.int 0) = false := by simpa using hn0
  simp [Base.wsGuard, hn, Base.WsBetween.guard, Base.WsBetween.touched, hne]

/-- the guard of comment_100 is needed: on a CODE token the inserted blank changes the code sequence -/
theorem bfix_comment100_code_witness :
    ∃ old new, Base.fixByOwner Base.comment100Owner [] [("index", .int 2)] old = some (.ok new) ∧
      codeSeq id old ≠ codeSeq id new :=
  ⟨[⟨9, .code, "abcd".toList⟩], [⟨9, .code, "ab cd".toList⟩], by decide +kernel, by decide +kernel⟩

/-! END ag_bws -/

/-! ### BEGIN ag_bind (indent / vertical spacing / post-phase-1) -/

/-! ### layer B: indent and vertical-spacing families, post-phase-1 normalisation — code kept -/

/-- every indent rule keeps the code sequence, for every action / style / size / indent level, on
    tokens of interest of the extractor's shape (`ToiOk`) -/
theorem bfix_indent_codeSeq_partial (owner : String) (params action : Base.KV) (old new : List Tok)
    (ho : owner ∈ Base.indentOwners) (h : Base.fixByOwner owner params action old = some (.ok new))
    (hok : Base.Indent.ToiOk (Base.strAction action) old) : codeSeq fold old = codeSeq fold new := by
  obtain ⟨style, size, h'⟩ := Base.Bind.indent_fixV_of_owner owner params action old new ho h
  exact (Base.Indent.fixV_layoutOnly _ _ _ _ _ _ _ h' hok).codeSeq fold

/-- every vertical-spacing rule: inserting a blank line keeps the code sequence on EVERY token list;
    removing keeps it when the region holds no code (`nonLayout old = []`, the extractors' contract) -/
theorem bfix_blankline_codeSeq_partial (owner : String) (params action : Base.KV) (old new : List Tok)
    (ho : owner ∈ Base.blankLineOwners) (h : Base.fixByOwner owner params action old = some (.ok new))
    (hreg : new.length < old.length → nonLayout old = []) : codeSeq fold old = codeSeq fold new := by
  suffices hl : LayoutOnly old new from hl.codeSeq fold
  rcases Base.Bind.blankline_shape owner params action old new ho h with ⟨_, hr⟩ | hr | hr | ⟨pre, suf, c⟩
  · rw [hr]; exact Base.BlankLine.layoutOnly_insert_front _ _ old
  · rw [hr]; exact Base.BlankLine.layoutOnly_insert_back _ _ old
  · rw [hr]; rfl
  · rw [c.layoutOnly_iff]
    unfold Base.BlankLine.Cut at c
    by_cases hlen : new.length < old.length
    · have hz := hreg hlen
      rw [c, nonLayout_append, nonLayout_append] at hz
      simp only [List.append_eq_nil_iff] at hz
      exact ⟨hz.1.1, hz.2⟩
    · have hl := congrArg List.length c
      simp only [List.length_append] at hl
      have h1 : pre = [] := List.eq_nil_of_length_eq_zero (by omega)
      have h2 : suf = [] := List.eq_nil_of_length_eq_zero (by omega)
      rw [h1, h2]; exact ⟨rfl, rfl⟩

/-- whitespace_200 DELETES CODE on a concrete region (genuine defect, replayed on the real class) -/
theorem bfix_ws200_codeSeq_false :
    ∃ params action old new, Base.fixByOwner "vsg.rules.whitespace.rule_200.rule_200" params action old = some (.ok new) ∧
      codeSeq id old = ["others".toList, ";".toList] ∧ codeSeq id new = [";".toList] :=
  ⟨[], [("remove", .int 1)],
   [⟨Gen.blankCls, .blank, []⟩, ⟨9, .code, "others".toList⟩, ⟨9, .code, ";".toList⟩, ⟨Gen.crCls, .cr, ['\n']⟩,
    ⟨Gen.blankCls, .blank, []⟩, ⟨Gen.crCls, .cr, ['\n']⟩],
   [⟨9, .code, ";".toList⟩, ⟨Gen.crCls, .cr, ['\n']⟩, ⟨Gen.blankCls, .blank, []⟩, ⟨Gen.crCls, .cr, ['\n']⟩],
   by decide +kernel, by decide +kernel, by decide +kernel⟩

/-- the post-phase-1 normalisation keeps the code sequence of every token list -/
theorem postPhase1_codeSeq (blCls : Nat) (l : List Tok) :
    codeSeq fold (Post.postPhase1 blCls l) = codeSeq fold l := by
  have hl : LayoutOnly l (Post.postPhase1 blCls l) := by
    unfold LayoutOnly Post.postPhase1
    rw [Post.fixTrailingWhitespace_eq, Post.fixBlankLines_eq, Post.ftwGo_nonLayout, Post.fblGo_nonLayout]
  exact (hl.codeSeq fold).symm

/-! ### END ag_bind -/

/-! ### layer B: the phase-1 line-structure base classes (≈110 rules)

`Base.fixByOwner` is the Lean transcription of the `_fix_violation` of the owner; action, rule
parameters and token list are universally quantified. -/

section LineStruct
open Vsgm.Base.LineStruct
open Vsgm.Base (KV pyIdx)

/-- **line-break inserting / removing base classes** (insert_carriage_return_after_token…,
    split_line_at_token…, remove_carriage_return_after_token, remove_carriage_returns_between_token_pairs;
    54 rules): whatever the action and the region, no code token is lost, duplicated or reordered -/
theorem bfix_lineBreak_codeSeq (owner : String) (params action : KV) (old new : List Tok)
    (ho : owner ∈ breakOwners ++ removeCrOwners) (h : Base.fixByOwner owner params action old = some (.ok new)) :
    codeSeq fold new = codeSeq fold old := by
  rw [fixByOwner_lineStruct owner params action old (layoutOwners_sub_all ho)] at h
  exact ((dispatch_layout _ owner params action old new ho h).1.codeSeq fold).symm

/-- **single-token moves** (move_token_next_to_another_token, …_if_it_exists_between_tokens,
    move_token_left_…, move_token_right_…, move_token_to_the_right_of_several_possible_tokens…;
    53 rules) — THE EXACT CONDITION: the fix pops the token `x` at index `k` and re-inserts it at
    position `p`; the code sequence is unchanged iff what `x` contributes commutes with what the
    tokens it jumps over (`crossed old k p`) contribute -/
theorem bfix_move_codeSeq_iff (owner : String) (params action : KV) (old new : List Tok)
    (ho : owner ∈ singleMoveOwners) (h : Base.fixByOwner owner params action old = some (.ok new)) :
    ∃ ki ii k x, moveIdx owner action = some (ki, ii) ∧ pyIdx old.length ki = some k ∧ old[k]? = some x ∧
      (codeSeq fold new = codeSeq fold old ↔
        codeOf fold x ++ codeSeq fold (crossed old k (insPos (old.length - 1) ii)) =
          codeSeq fold (crossed old k (insPos (old.length - 1) ii)) ++ codeOf fold x) := by
  rw [fixByOwner_lineStruct owner params action old (singleMove_sub_all ho)] at h
  obtain ⟨ki, ii, w, k, x, hidx, fo, _⟩ := dispatch_move _ owner params action old new ho h
  exact ⟨ki, ii, k, x, hidx, fo.idx, fo.get, fo.codeSeq_iff fold⟩

/-- … in particular the code sequence is kept whenever the moved token jumps over no code token
    (the hypothesis is exactly the excluded case of `move_codeSeq_false`) -/
theorem bfix_move_codeSeq_partial (owner : String) (params action : KV) (old new : List Tok)
    (ho : owner ∈ singleMoveOwners) (h : Base.fixByOwner owner params action old = some (.ok new))
    (hcross : ∀ ki ii k, moveIdx owner action = some (ki, ii) → pyIdx old.length ki = some k →
      ∀ t ∈ crossed old k (insPos (old.length - 1) ii), t.isCode = false) :
    codeSeq fold new = codeSeq fold old := by
  obtain ⟨ki, ii, k, x, hidx, hk, _, hiff⟩ := bfix_move_codeSeq_iff fold owner params action old new ho h
  rw [hiff, codeSeq_eq_nil_of_noCode fold _ (hcross ki ii k hidx hk)]
  simp

/-- the full-strength statement is FALSE for an action that makes the token jump over code:
    `[a, b, c]` with token value 2 becomes `[a, ␣, c, b]` -/
theorem move_codeSeq_false :
    ∃ old new, fixMoveNext Base.lineCls 2 old = .ok new ∧ codeSeq id new ≠ codeSeq id old :=
  ⟨[⟨9, .code, ['a']⟩, ⟨9, .code, ['b']⟩, ⟨9, .code, ['c']⟩], _, rfl, by decide⟩

/-- **move_token** (5 rules; three fixes selected by `action` / `preserve_comment`): splitting the
    line and pulling the trailing comment in front of the new line break never touch code; the
    `move_left` mode moves the last token of the region to index 1 -/
theorem bfix_moveToken_codeSeq_partial (owner : String) (params action : KV) (old new : List Tok)
    (ho : owner ∈ moveTokenOwners) (h : Base.fixByOwner owner params action old = some (.ok new))
    (hcross : ∀ k, pyIdx old.length (-1) = some k → ∀ t ∈ crossed old k (insPos (old.length - 1) 1), t.isCode = false) :
    codeSeq fold new = codeSeq fold old := by
  rw [fixByOwner_lineStruct owner params action old (moveToken_sub_all ho)] at h
  obtain ⟨a, pc, _, _, h1, h2, h3⟩ := dispatch_moveToken _ owner params action old new ho h
  cases hm : moveTokenMode a pc with
  | newLine => exact ((fixSplitLine_spec _ old new (h1 hm)).1.codeSeq fold).symm
  | newLinePreserve =>
    obtain ⟨i, _, hf⟩ := h2 hm
    exact fixNewLinePreserve_codeSeq fold _ i old new hf
  | moveLeft =>
    obtain ⟨b, hf⟩ := h3 hm
    obtain ⟨k, x, fo⟩ := fixMoveTokenLeft_spec _ b old new hf
    rw [fo.codeSeq_iff fold, codeSeq_eq_nil_of_noCode fold _ (hcross k fo.idx)]
    simp

/-- **block_001** (move_token_sequences_left_of_token) — THE EXACT CONDITION: the fix swaps the
    prefix `seqMoved` (the first `num_tokens` tokens after an optional leading whitespace) with
    `seqJumped` (everything up to the last token); the code sequence is unchanged iff the two
    contributions commute -/
theorem bfix_moveSeq_codeSeq_iff (owner : String) (params action : KV) (old new : List Tok)
    (ho : owner ∈ moveSeqOwners) (h : Base.fixByOwner owner params action old = some (.ok new)) :
    ∃ n, Base.LineStruct.needInt action "num_tokens" = .ok n ∧
      (codeSeq fold new = codeSeq fold old ↔
        codeSeq fold (seqJumped n old) ++ codeSeq fold (seqMoved n old) =
          codeSeq fold (seqMoved n old) ++ codeSeq fold (seqJumped n old)) := by
  rw [fixByOwner_lineStruct owner params action old (moveSeq_sub_all ho)] at h
  obtain ⟨n, hn, hf⟩ := dispatch_moveSeq _ owner params action old new ho h
  obtain ⟨last, h1, h2, _⟩ := fixMoveSeq_spec _ n old new hf
  refine ⟨n, hn, ?_⟩
  rw [(blind_codeSeq fold).layoutOnly h1, (blind_codeSeq fold).layoutOnly h2]
  exact swap_hom_iff (codeSeq fold) (codeSeq_append fold) _ _ _

/-- block_001 keeps the code sequence when nothing but layout and comments stands between the moved
    prefix and the `block` keyword (the hypothesis is exactly the excluded case of
    `moveSeq_codeSeq_false`) -/
theorem bfix_moveSeq_codeSeq_partial (owner : String) (params action : KV) (old new : List Tok)
    (ho : owner ∈ moveSeqOwners) (h : Base.fixByOwner owner params action old = some (.ok new))
    (hj : ∀ n, Base.LineStruct.needInt action "num_tokens" = .ok n → ∀ t ∈ seqJumped n old, t.isCode = false) :
    codeSeq fold new = codeSeq fold old := by
  obtain ⟨n, hn, hiff⟩ := bfix_moveSeq_codeSeq_iff fold owner params action old new ho h
  rw [hiff, codeSeq_eq_nil_of_noCode fold _ (hj n hn)]
  simp

/-- the known defect: label, colon and keyword on three lines, `num_tokens = 1` (what the analysis
    records): `block_label ⏎ : ⏎ block` becomes `⏎ : ⏎ block_label block` — code REORDERED -/
theorem moveSeq_codeSeq_false :
    ∃ old new, fixMoveSeq Base.lineCls 1 old = .ok new ∧ codeSeq id new ≠ codeSeq id old ∧
      codeSeq id old = ["lbl".toList, ":".toList, "block".toList] ∧
      codeSeq id new = [":".toList, "lbl".toList, "block".toList] :=
  ⟨[⟨9, .code, "lbl".toList⟩, ⟨2, .cr, ['\n']⟩, ⟨9, .code, ":".toList⟩, ⟨2, .cr, ['\n']⟩, ⟨9, .code, "block".toList⟩],
    _, rfl, by decide, by decide, by decide⟩

/-- remove_lines_starting_with_token_between_token_pairs (sequential_006, variable_assignment_006,
    phase 2): the fix deletes its whole region — it keeps the code sequence iff the region holds no code -/
theorem bfix_removeLines_codeSeq_iff (owner : String) (params action : KV) (old new : List Tok)
    (ho : owner ∈ removeLinesOwners) (h : Base.fixByOwner owner params action old = some (.ok new)) :
    new = [] ∧ (codeSeq fold new = codeSeq fold old ↔ codeSeq fold old = []) := by
  rw [fixByOwner_lineStruct owner params action old (removeLines_sub_all ho)] at h
  simp only [removeLinesOwners, List.mem_singleton] at ho
  subst ho
  simp [Base.LineStruct.fixByOwner, moveNextOwners, moveNextBetweenOwners, moveLeftOwners, moveRightOwners,
    moveTokenOwners, moveRightOfOwners, moveSeqOwners, insertCrAfterOwners, splitLineOwners, splitAtOwners,
    removeCrAfterOwners, removeCrPairsOwners, removeLinesOwners, fixRemoveLines] at h
  subst h
  exact ⟨rfl, ⟨fun h => h.symm, fun h => h.symm⟩⟩

/-- **table**: every rule served by a phase-1 model of this family is a phase-1 `structure` rule whose
    edit class in the certificate checker is `none` — the checker demands code-sequence equality for
    exactly these rules, and the theorems above prove that demand for all inputs and actions -/
theorem lineStruct_owners_are_phase1_structure_rules : ∀ r ∈ Gen.ruleTable, r.fixVOwner ∈ phase1Owners →
    Verdict.effectOfGroups r.groups = .any ∧ r.phase = 1 ∧ Verdict.editClassOfOwner r.fixVOwner = .none := by
  decide +kernel

/-- remove_lines… is the one base class of the family that serves phase-2 rules -/
theorem removeLines_owners_are_phase2_structure_rules : ∀ r ∈ Gen.ruleTable, r.fixVOwner ∈ removeLinesOwners →
    Verdict.effectOfGroups r.groups = .any ∧ r.phase = 2 ∧ Verdict.editClassOfOwner r.fixVOwner = .none := by
  decide +kernel

/-- how many rules the models serve (re-checked against the regenerated rule table) -/
theorem lineStruct_rule_count :
    (Gen.ruleTable.filter (fun r => decide (r.fixVOwner ∈ allOwners))).length = 114 := by decide +kernel

example : ∃ r ∈ Gen.ruleTable, r.fixVOwner ∈ phase1Owners := by decide +kernel

/-- non-vacuity of `bfix_move_codeSeq_partial`: `architecture ⏎ ␣ rtl`, token value 3 — the fix
    returns, the moved token jumps over layout only, the result is `architecture ␣ rtl ⏎ ␣` -/
example :
    let a : Tok := ⟨9, .code, "architecture".toList⟩
    let n : Tok := ⟨2, .cr, ['\n']⟩
    let w : Tok := ⟨1, .ws, [' ']⟩
    let x : Tok := ⟨9, .code, "rtl".toList⟩
    fixMoveNext Base.lineCls 3 [a, n, w, x] = .ok [a, mkWs Base.lineCls, x, n, w] ∧
    (∀ t ∈ crossed [a, n, w, x] 3 (insPos 3 1), t.isCode = false) := by
  intro a n w x; exact ⟨rfl, by decide⟩

/-- non-vacuity of `bfix_moveSeq_codeSeq_partial`: `lbl ␣ : ⏎ ␣ block` with `num_tokens = 3` (what the
    analysis records for this layout) — nothing but layout is jumped over -/
example :
    let l : Tok := ⟨9, .code, "lbl".toList⟩
    let c : Tok := ⟨9, .code, ":".toList⟩
    let b : Tok := ⟨9, .code, "block".toList⟩
    let n : Tok := ⟨2, .cr, ['\n']⟩
    let w : Tok := ⟨1, .ws, [' ']⟩
    fixMoveSeq Base.lineCls 3 [l, w, c, n, w, b] = .ok [n, w, l, w, c, mkWs Base.lineCls, b] ∧
    seqMoved 3 [l, w, c, n, w, b] = [l, w, c] ∧ seqJumped 3 [l, w, c, n, w, b] = [n, w] := by
  intro l c b n w; exact ⟨rfl, by decide, by decide⟩

end LineStruct

/-! ### BEGIN ag_bcase (case family, B-full) -/
/-! ### layer B, the case family: analysis + fix keep the code sequence -/

/-- `token_case` (243 rules): for every parameter setting and every region, the action the analysis
    produces makes a fix that keeps the folded code sequence (hypotheses as in C03.bfull_case_caseOnly:
    character tables; the analysed token is a code token).  Extended identifiers are no longer excluded:
    the repaired analysis skips them, so they are "compared exactly" because they are never written. -/
theorem bfull_case_codeSeq {E : Base.Case.Env} {lc uc fc : Char → Char}
    (T : Base.Case.CharWise E fold lc uc fc) (owner : String) (ho : owner ∈ Base.caseTokenOwners)
    (params : Base.KV) (p : Base.Case.Params) (old new : List Tok) (a : Base.Case.Action)
    (hok : ∀ t, old[0]? = some t → Base.Case.TokOk p t)
    (ha : Base.Case.TokenCase.analyzeToi E p old = .ok (some a))
    (hf : Base.fixByOwner owner params (Base.caseActionKV a) old = some (.ok new)) :
    codeSeq fold new = codeSeq fold old := by
  rw [Base.fixByOwner_tokenCase owner ho] at hf
  simp only [Option.some.injEq] at hf
  exact ((Base.Case.TokenCase.analyze_fix_caseOnly T p old new a hok ha hf).codeSeq fold).symm

/-- formal parts of port / generic maps (2 rules), every `case_exceptions` list (the former hypothesis "no
    duplicate-by-case entries" is gone with the repo repair of `check_for_exception`: the action points at
    the formal part it was found in, not at the instantiation label) -/
theorem bfull_case_formal_codeSeq {E : Base.Case.Env} {lc uc fc : Char → Char}
    (T : Base.Case.CharWise E fold lc uc fc) (owner : String) (ho : owner ∈ Base.caseFormalOwners)
    (params : Base.KV) (c : Base.Case.FormalPart.Classes) (p : Base.Case.Params) (old new : List Tok)
    (acts : List Base.Case.Action) (a : Base.Case.Action)
    (hok : ∀ t ∈ old, t.cls = c.formal → Base.Case.TokOk p t)
    (ha : Base.Case.FormalPart.analyzeToi E c p old = .ok acts) (hm : a ∈ acts)
    (hf : Base.fixByOwner owner params (Base.caseActionKV a) old = some (.ok new)) :
    codeSeq fold new = codeSeq fold old := by
  rw [Base.fixByOwner_formal owner ho] at hf
  simp only [Option.some.injEq] at hf
  exact ((Base.Case.FormalPart.analyze_fix_caseOnly T c p old new acts a hok ha hm hf).codeSeq fold).symm

/-! ### END ag_bcase -/

/-! ### BEGIN ag_bstruct (insert / remove / parens / split / multiline alignment) -/

/-! ### layer B: the base classes documented to add or remove code tokens, for ALL actions and token lists -/

/-- **insert family** (`structure::optional`, configured `action: add`; 6 base classes, 24 rules): for
    every class environment, every action / recorded token value and every token list on which the
    fixer returns, the result is the input itself (no value recorded / no anchor), or its code
    sequence is the input's code sequence with the code of the DESIGNATED token(s) — class and value
    from the rule parameter, value copied from the recorded token, or the label the action carries —
    inserted at one place: a subsequence with exactly `|code ins|` extra elements, nothing reordered -/
theorem bfix_insert_codeSeq (E : Base.Env) (owner : String) (o : Base.SOwner) (params action : Base.KV)
    (old new : List Tok) (ho : Base.sownerOf owner = some o) (hi : o.isInsert = true)
    (hm : Base.removeMode o params = false)
    (h : Base.fixStruct E owner params action old = some (.ok new)) :
    new = old ∨ ∃ ins, Base.designated E o params action = .ok (some ins) ∧
      Base.InsSeg (codeSeq fold ins) (codeSeq fold old) (codeSeq fold new) ∧
      (codeSeq fold old).Sublist (codeSeq fold new) ∧
      (codeSeq fold new).length = (codeSeq fold old).length + (codeSeq fold ins).length := by
  unfold Base.fixStruct at h
  simp only [ho, Option.map_some, Option.some.injEq] at h
  rcases Base.fixS_insert_add (Base.projCode fold) E o params action old new hi hm h with h | ⟨ins, hd, hs⟩
  · exact Or.inl h
  · exact Or.inr ⟨ins, hd, hs, hs.sublist, hs.length⟩

/-- a single designated code token: exactly one extra element -/
theorem bfix_insert_one (t : Tok) (a b : List Str) (ht : t.isCode = true)
    (h : Base.InsSeg (codeSeq fold [t]) a b) : a.Sublist b ∧ b.length = a.length + 1 := by
  refine ⟨h.sublist, ?_⟩
  have := h.length
  simpa [codeSeq, codeOf, ht] using this

/-- **the certificate checker's edit class `insert` is a theorem for the modelled owners**: the
    model's old / new code sequences pass `codeAllowed .insert 1`, provided every inserted code
    value is a redundant keyword or occurs in the old code sequence, and at most two code tokens are
    designated (one everywhere except `package body`) -/
theorem bfix_insert_allowed (E : Base.Env) (owner : String) (o : Base.SOwner) (params action : Base.KV)
    (old new ins : List Tok) (ho : Base.sownerOf owner = some o) (hi : o.isInsert = true)
    (hm : Base.removeMode o params = false)
    (h : Base.fixStruct E owner params action old = some (.ok new))
    (hd : Base.designated E o params action = .ok (some ins))
    (hval : ∀ x ∈ codeSeq fold ins, x ∈ redundantKeywords ∨ (isWord x = true ∧ x ∈ codeSeq fold old))
    (hlen : (codeSeq fold ins).length ≤ 2) :
    codeAllowed .insert 1 (codeSeq fold old) (codeSeq fold new) = true := by
  rcases bfix_insert_codeSeq fold E owner o params action old new ho hi hm h with h | ⟨ins', hd', hs, hsub, hl⟩
  · subst h; simp [codeAllowed]
  · rw [hd] at hd'
    cases hd'
    obtain ⟨e, he⟩ := Base.extras_of_sublist _ _ hsub
    obtain ⟨_, hesub, helen⟩ := Lemmas.extras_sublist _ _ _ he
    simp only [codeAllowed, Bool.or_eq_true]
    refine Or.inr (Or.inl ?_)
    unfold insertOk
    rw [he]
    simp only [Bool.and_eq_true, List.all_eq_true, Bool.or_eq_true, decide_eq_true_eq, perEdit]
    refine ⟨?_, by apply decide_eq_true; omega⟩
    intro x hx
    obtain ⟨p, sfx, hp, hq⟩ := hs
    rw [hp, hq] at he
    exact hval x (Lemmas.extras_mem_of_splice p sfx _ e he x hx)

/-- the parameter tokens of the pinned rules satisfy the hypotheses of `bfix_insert_allowed`: every
    token object a rule of the family inserts is a whitespace token or a code token whose value is one
    of the redundant keywords (at most two code tokens per rule); every class-valued parameter (end
    names, end keywords copied from the opening keyword) is a code token class -/
theorem insert_params_redundant :
    (∀ p ∈ Gen.insertTokParams, (∀ t ∈ p.2, Wire.kindOfCls t.1 = .ws ∨
        (Wire.kindOfCls t.1 = .code ∧ t.2.toList ∈ redundantKeywords)) ∧
      (p.2.filter (fun t => Wire.kindOfCls t.1 != .ws)).length ≤ 2) ∧
    (∀ p ∈ Gen.insertClsParams, Wire.kindOfCls p.2 = .code) := by
  decide +kernel

/-- **insert family configured `action: remove`** (every owner but `insert_tokens_right_of…`): the
    result is the first token of interest (dropped when it is a whitespace token): the code sequence
    of the result is the code of that first token — a prefix of the input's code sequence -/
theorem bfix_optional_remove_codeSeq (E : Base.Env) (owner : String) (o : Base.SOwner) (params action : Base.KV)
    (old new : List Tok) (ho : Base.sownerOf owner = some o) (hi : o.isInsert = true)
    (hne : o ≠ .tokensRightOf) (hm : Base.removeMode o params = true)
    (h : Base.fixStruct E owner params action old = some (.ok new)) :
    ∃ t0 rest, old = t0 :: rest ∧ codeSeq fold new = codeOf fold t0 ∧
      codeSeq fold old = codeSeq fold new ++ codeSeq fold rest ∧ (codeSeq fold new).Sublist (codeSeq fold old) := by
  unfold Base.fixStruct at h
  simp only [ho, Option.map_some, Option.some.injEq] at h
  obtain ⟨t0, rest, rfl, hn⟩ := Base.fixS_insert_remove E o params action old new hi hne hm h
  have hc : codeSeq fold new = codeOf fold t0 := by
    subst hn
    by_cases hw : (t0.kind == Kind.ws) = true
    · have hk : t0.kind = .ws := by simpa using hw
      simp [codeSeq, codeOf, Tok.isCode, hk]
    · simp [hw, codeSeq]
  refine ⟨t0, rest, rfl, hc, ?_, ?_⟩
  · rw [hc]; simp [codeSeq]
  · rw [hc]; simp only [codeSeq, List.flatMap_cons]; exact List.sublist_append_left _ _

/-- on the tokens of interest the extractor of these rules delivers (`get_token_and_n_tokens_before_it(…, 1)`:
    the optional token `t` and the token `a` before it) exactly the code of `t` goes, and the step
    passes the certificate checker's `remove` test when `t` is a redundant keyword, repeats the token
    before it, or stands after `end` / a redundant keyword -/
theorem bfix_optional_remove_allowed (E : Base.Env) (owner : String) (o : Base.SOwner) (params action : Base.KV)
    (a t : Tok) (new : List Tok) (ho : Base.sownerOf owner = some o) (hi : o.isInsert = true)
    (hne : o ≠ .tokensRightOf) (hm : Base.removeMode o params = true)
    (h : Base.fixStruct E owner params action [a, t] = some (.ok new))
    (hv : ∀ x ∈ codeOf fold t, x ∈ redundantKeywords ∨
      (isWord x = true ∧ ∃ y ∈ codeOf fold a, y = x ∨ y = s "end" ∨ y ∈ redundantKeywords)) :
    codeSeq fold [a, t] = codeSeq fold new ++ codeOf fold t ∧
      codeAllowed .insert 1 (codeSeq fold [a, t]) (codeSeq fold new) = true := by
  obtain ⟨t0, rest, hl, hc, hold, _⟩ := bfix_optional_remove_codeSeq fold E owner o params action [a, t] new ho hi hne hm h
  cases hl
  have hold' : codeSeq fold [a, t] = codeSeq fold new ++ codeOf fold t := by
    rw [hold]; simp [codeSeq]
  refine ⟨hold', ?_⟩
  rw [hold', hc]
  -- the two code sequences, by cases on whether `a` and `t` are code tokens
  unfold codeOf at hv ⊢
  by_cases hta : t.isCode = true <;> by_cases haa : a.isCode = true
  · simp only [hta, haa, if_true] at hv ⊢
    have := hv _ (List.mem_singleton.mpr rfl)
    simp only [List.mem_singleton, exists_eq_left] at this
    simp only [codeAllowed, Bool.or_eq_true]
    exact Or.inr (Or.inr (Base.removeOk_two _ _ this))
  · simp only [hta, haa, if_true, Bool.false_eq_true, if_false] at hv ⊢
    have := hv _ (List.mem_singleton.mpr rfl)
    simp only [List.not_mem_nil, false_and, exists_false, and_false, or_false] at this
    simp only [codeAllowed, Bool.or_eq_true, List.nil_append]
    exact Or.inr (Or.inr (Base.removeOk_one _ this))
  · simp [hta, codeAllowed]
  · simp [hta, codeAllowed]


/-! #### remove family -/

/-- **remove family** (`remove_tokens_bounded_by_tokens_and_remove_trailing_whitespace`: 5 label rules;
    `remove_tokens`: case_020): the code sequence of the result is a subsequence of the input's —
    nothing invented, duplicated or reordered.  The label rules delete ALL tokens of interest (label,
    colon, trailing whitespace — and whatever else lies between them); `remove_tokens` deletes
    exactly the token at index 1 -/
theorem bfix_delete_codeSeq (E : Base.Env) (owner : String) (o : Base.SOwner) (params action : Base.KV)
    (old new : List Tok) (ho : Base.sownerOf owner = some o) (hd : o.isDelete = true)
    (h : Base.fixStruct E owner params action old = some (.ok new)) :
    (codeSeq fold new).Sublist (codeSeq fold old) ∧ (o = .bounded → new = []) ∧
      (o = .removeTokens → ∃ a x rest, old = a :: x :: rest ∧ new = Base.rcw (a :: rest) ∧
        Base.InsSeg (codeOf fold x) (codeSeq fold new) (codeSeq fold old)) := by
  unfold Base.fixStruct at h
  simp only [ho, Option.map_some, Option.some.injEq] at h
  cases o <;> simp [Base.SOwner.isDelete] at hd
  · have := Base.Remove.fixBounded_eq old new h
    subst this
    exact ⟨by simp [codeSeq], fun _ => rfl, (fun h => by cases h)⟩
  · obtain ⟨a, x, rest, h1, h2, h3⟩ := Base.Remove.fixRemoveTokens_proj (Base.projCode fold) old new h
    refine ⟨h3.sublist, (fun h => by cases h), fun _ => ⟨a, x, rest, h1, h2, ?_⟩⟩
    have : codeSeq fold [x] = codeOf fold x := by simp [codeSeq]
    rw [← this]; exact h3

/-- the checker's edit class `delete` for the modelled owners: the step passes whenever at most two
    code tokens are deleted and each code token of the tokens of interest is a `:` or not a redundant
    keyword (a label and its colon) -/
theorem bfix_delete_allowed (E : Base.Env) (owner : String) (o : Base.SOwner) (params action : Base.KV)
    (old new : List Tok) (ho : Base.sownerOf owner = some o) (hd : o.isDelete = true)
    (h : Base.fixStruct E owner params action old = some (.ok new))
    (hlen : (codeSeq fold old).length ≤ (codeSeq fold new).length + 2)
    (hval : ∀ x ∈ codeSeq fold old, x = s ":" ∨ x ∉ redundantKeywords) :
    codeAllowed .delete 1 (codeSeq fold old) (codeSeq fold new) = true := by
  obtain ⟨hsub, _, _⟩ := bfix_delete_codeSeq fold E owner o params action old new ho hd h
  obtain ⟨e, he⟩ := Base.extras_of_sublist _ _ hsub
  obtain ⟨_, hesub, helen⟩ := Lemmas.extras_sublist _ _ _ he
  simp only [codeAllowed, Bool.or_eq_true]
  refine Or.inr ?_
  unfold deleteOk
  rw [he]
  simp only [Bool.and_eq_true, List.all_eq_true, Bool.or_eq_true, beq_iff_eq, decide_eq_true_eq, perEdit]
  refine ⟨?_, by apply decide_eq_true; omega⟩
  intro x hx
  rcases hval x (hesub.subset hx) with h | h
  · exact Or.inl h
  · exact Or.inr (by simpa using h)

/-! #### parentheses (`if_002`) -/

/-- **`if_002`, `parenthesis: insert`**: for every non-empty token list the result is the input between
    one new `(` and one new `)` — nothing else is added, nothing removed -/
theorem bfix_parens_insert (E : Base.Env) (owner : String) (params action : Base.KV) (old new : List Tok)
    (ho : Base.sownerOf owner = some .if002) (hp : Base.strIs params "parenthesis" "insert" = true)
    (h : Base.fixStruct E owner params action old = some (.ok new)) :
    new = [E.inst E.openParenCls ['(']] ++ old ++ [E.inst E.closeParenCls [')']] ∧
    codeSeq fold new = codeOf fold (E.inst E.openParenCls ['(']) ++ codeSeq fold old ++
      codeOf fold (E.inst E.closeParenCls [')']) := by
  unfold Base.fixStruct at h
  simp only [ho, Option.map_some, Option.some.injEq] at h
  unfold Base.fixS at h
  simp only [hp] at h
  obtain ⟨_, hn⟩ := Base.Parens.fixV_insert E action old new h
  refine ⟨hn, ?_⟩
  rw [hn]; simp [codeSeq]

/-- … and passes the checker's `parens` class when the two parenthesis classes are code classes
    and case folding leaves `(` and `)` alone (true of the pinned class table and of `Wire.fold`) -/
theorem bfix_parens_insert_allowed (E : Base.Env) (owner : String) (params action : Base.KV) (old new : List Tok)
    (ho : Base.sownerOf owner = some .if002) (hp : Base.strIs params "parenthesis" "insert" = true)
    (h : Base.fixStruct E owner params action old = some (.ok new))
    (hko : E.kindOf E.openParenCls = .code) (hkc : E.kindOf E.closeParenCls = .code)
    (hfo : fold ['('] = ['(']) (hfc : fold [')'] = [')']) :
    codeAllowed .parens 1 (codeSeq fold old) (codeSeq fold new) = true := by
  obtain ⟨_, hc⟩ := bfix_parens_insert fold E owner params action old new ho hp h
  have ho' : codeOf fold (E.inst E.openParenCls ['(']) = [s "("] := by
    simp [codeOf, Base.Env.inst, Tok.isCode, hko, Tok.exact, isExact, hfo, s]
  have hc' : codeOf fold (E.inst E.closeParenCls [')']) = [s ")"] := by
    simp [codeOf, Base.Env.inst, Tok.isCode, hkc, Tok.exact, isExact, hfc, s]
  rw [hc, ho', hc']
  simp only [codeAllowed, Bool.or_eq_true]
  refine Or.inr (Or.inl ?_)
  unfold parensOk
  have := Base.extras_wrap (s "(") (s ")") (codeSeq fold old)
  simp only [List.cons_append, List.nil_append] at this ⊢
  rw [this]
  decide

/-- **`if_002`, `parenthesis: remove`, EVERY action**: the result is a subsequence of
    `left_insert ++ old` followed by `right_insert`: with layout-only insert lists (what the analysis
    records) the code sequence of the result is a subsequence of the input's — nothing invented,
    nothing reordered.  WHICH tokens go is up to the indices in the action. -/
theorem bfix_parens_remove_sublist (E : Base.Env) (owner : String) (params action : Base.KV) (old new : List Tok)
    (ho : Base.sownerOf owner = some .if002) (hp : Base.strIs params "parenthesis" "insert" = false)
    (h : Base.fixStruct E owner params action old = some (.ok new)) :
    ∃ li ri, (Base.needList action "left_insert" >>= Base.toksOf) = .ok li ∧
      (Base.needList action "right_insert" >>= Base.toksOf) = .ok ri ∧
      (codeSeq fold li = [] → codeSeq fold ri = [] → (codeSeq fold new).Sublist (codeSeq fold old)) := by
  unfold Base.fixStruct at h
  simp only [ho, Option.map_some, Option.some.injEq] at h
  unfold Base.fixS at h
  simp only [hp] at h
  obtain ⟨li, ri, k, hli, hri, hk, hn⟩ := Base.Parens.fixV_remove E action old new h
  refine ⟨li, ri, hli, hri, ?_⟩
  intro h1 h2
  subst hn
  rw [codeSeq_append, h2, List.append_nil]
  have : (codeSeq fold k).Sublist (codeSeq fold (li ++ old)) := (Base.projCode fold).sublist hk
  rw [codeSeq_append, h1, List.nil_append] at this
  exact this



/-- **`if_002`, `parenthesis: remove`: "only balanced parentheses are removed" is FALSE** — the action
    lists indices, the fixer drops whatever sits there.  When the condition starts on the line after `if`
    (`if⏎(a) then`) the analysis itself (`create_remove_action_dict`, modelled by `Parens.removeAction`)
    records index 0 — the line break — instead of the parenthesis: the fix deletes the line break and the
    CLOSING parenthesis and keeps the opening one.  Reproduced on the real CLI (genuine defect). -/
theorem bfix_parens_remove_unbalanced :
    let old : List Tok := [⟨5, .cr, "\n".toList⟩, ⟨33, .code, "(".toList⟩, ⟨47, .code, "a".toList⟩,
      ⟨10, .code, ")".toList⟩, ⟨51, .ws, " ".toList⟩]
    let action : Base.KV := [("action", .str "remove".toList), ("left_remove", .list [.int 0]),
      ("left_insert", .list [.tok ⟨51, .ws, " ".toList⟩]), ("right_remove", .list [.int 3]), ("right_insert", .list [])]
    (Base.Parens.removeAction Base.stdEnv old).toOption.map (fun a => (a.leftRemove, a.leftInsert, a.rightRemove, a.rightInsert))
      = some ([0], [⟨51, .ws, " ".toList⟩], [3], []) ∧
    ∃ new, Base.fixS Base.stdEnv .if002 [("parenthesis", .str "remove".toList)] action old = .ok new ∧
      codeSeq id old = ["(".toList, "a".toList, ")".toList] ∧ codeSeq id new = ["(".toList, "a".toList] ∧
      codeAllowed .parens 1 (codeSeq id old) (codeSeq id new) = false ∧ crSeq new ≠ crSeq old := by
  refine ⟨by decide +kernel, _, by rfl, by decide, by decide, by decide, by decide⟩



/-- the mirror image at the end of the condition (`if (a)⏎then`): the analysis records the index of the
    line break that follows the closing parenthesis; the fix deletes the OPENING parenthesis and the line
    break and keeps the closing one.  Reproduced on the real CLI with the full default rule set. -/
theorem bfix_parens_remove_unbalanced_end :
    let old : List Tok := [⟨33, .code, "(".toList⟩, ⟨47, .code, "a".toList⟩, ⟨10, .code, ")".toList⟩, ⟨5, .cr, "\n".toList⟩]
    (Base.Parens.removeAction Base.stdEnv old).toOption.map (fun a => (a.leftRemove, a.leftInsert, a.rightRemove, a.rightInsert))
      = some ([0], [⟨51, .ws, " ".toList⟩], [3], [⟨51, .ws, " ".toList⟩]) ∧
    ∃ act new, (Base.Parens.removeAction Base.stdEnv old).toOption = some act ∧
      Base.fixS Base.stdEnv .if002 [("parenthesis", .str "remove".toList)] act.toKV old = .ok new ∧
      codeSeq id new = ["a".toList, ")".toList] ∧
      codeAllowed .parens 1 (codeSeq id old) (codeSeq id new) = false ∧ crSeq new ≠ crSeq old := by
  refine ⟨by decide +kernel, ⟨[0], [⟨51, .ws, " ".toList⟩], [3], [⟨51, .ws, " ".toList⟩]⟩, _, by decide +kernel, by rfl, by decide, by decide, by decide⟩

/-- **`if_002`, `parenthesis: remove`, with the action the analysis computes for the same tokens**
    (`create_remove_action_dict`, modelled by `Parens.removeAction`), for well-classified tokens (no token
    of interest is both an opening and a closing parenthesis, and no parenthesis token is a whitespace
    token — `classTree_parens` shows the class tree guarantees this for every parsed token): IF the tokens
    of interest begin with the opening parenthesis (possibly after one whitespace token) and end with the
    closing one (possibly before one whitespace token) — the excluded case is exactly the witness
    `bfix_parens_remove_unbalanced` — THEN the fix removes exactly these two parentheses: the input's code
    sequence is `(` ++ the result's ++ `)`, and the step passes the checker's `parens` class -/
theorem bfix_parens_remove_partial (E : Base.Env) (params : Base.KV) (old new : List Tok)
    (hD : ∀ t ∈ old, ¬ (Base.Parens.isO E t = true ∧ Base.Parens.isC E t = true))
    (hKo : ∀ t ∈ old, Base.Parens.isO E t = true → (t.kind == Kind.ws) = false)
    (hKc : ∀ t ∈ old, Base.Parens.isC E t = true → (t.kind == Kind.ws) = false)
    (act : Base.Parens.RemoveAction)
    (hp : Base.strIs params "parenthesis" "insert" = false)
    (ha : Base.Parens.removeAction E old = .ok act)
    (hs : Base.Parens.StartsWithParen E old) (he : Base.Parens.EndsWithParen E old)
    (h : Base.fixS E .if002 params act.toKV old = .ok new) :
    ∃ p q, Base.Parens.isO E p = true ∧ Base.Parens.isC E q = true ∧
      codeSeq fold old = codeOf fold p ++ codeSeq fold new ++ codeOf fold q ∧
      (codeOf fold p = [s "("] → codeOf fold q = [s ")"] →
        codeAllowed .parens 1 (codeSeq fold old) (codeSeq fold new) = true) := by
  unfold Base.fixS at h
  simp only [hp] at h
  obtain ⟨p, q, hpo, hqc, hc⟩ := Base.Parens.removeAction_proj (Base.projCode fold) E old new hD hKo hKc act ha hs he h
  have hc' : codeSeq fold old = codeOf fold p ++ codeSeq fold new ++ codeOf fold q := by
    simp only [Base.projCode] at hc
    rw [hc]; simp [codeSeq]
  refine ⟨p, q, hpo, hqc, hc', ?_⟩
  intro h1 h2
  rw [hc', h1, h2]
  simp only [codeAllowed, Bool.or_eq_true]
  refine Or.inr (Or.inr ?_)
  unfold parensOk
  have := Base.extras_wrap (s "(") (s ")") (codeSeq fold new)
  simp only [List.cons_append, List.nil_append] at this ⊢
  rw [this]
  decide

/-- the generated class tree satisfies the hypotheses on `E`: no class has both `parser.open_parenthesis`
    and `parser.close_parenthesis` among itself and its ancestors, and every class that has one of them
    is a code class (`Gen.isa c p` is `c == p || (classParentsList[c]).contains p`) -/
theorem classTree_parens :
    ((List.range Gen.classParentsList.length).zip Gen.classParentsList).all (fun (c, anc) =>
      let o := c == Gen.openParenCls || anc.contains Gen.openParenCls
      let cl := c == Gen.closeParenCls || anc.contains Gen.closeParenCls
      !(o && cl) && (!(o || cl) || Wire.kindOfCls c == .code)) = true ∧
    Gen.classParentsList.length = Gen.numClasses := by
  decide +kernel

/-! #### declaration splitters (signal_015, port_026) -/

/-- **signal_015, every action**: the code sequence of the result is the concatenation, over the
    identifiers the action carries, of one block each; every token of the result is a token of the
    input, one of the action's identifiers, or a new line break -/
theorem bfix_signal_blocks (E : Base.Env) (params action : Base.KV) (old new : List Tok)
    (h : Base.fixS E .signal015 params action old = .ok new) :
    ∃ ids start stop, (Base.needList action "identifiers" >>= Base.toksOf) = .ok ids ∧ ids ≠ [] ∧
      (old ≠ [] → Base.needIntS action "start" = .ok start ∧ Base.needIntS action "end" = .ok stop) ∧
      codeSeq fold new = ids.flatMap (fun x => codeSeq fold (Base.Split.sigOne start stop x old 0)) ∧
      (∀ t ∈ new, t ∈ old ∨ t ∈ ids ∨ t = E.cr) := by
  obtain ⟨ids, start, stop, h1, h2, h3, h4, _, h6⟩ := Base.Split.fixSignal_codeSeq fold E action old new h
  exact ⟨ids, start, stop, h1, h2, h3, h4, h6⟩

/-- **signal_015** with an action that is consistent with the tokens (`0 ≤ start ≤ end`, `start` in
    range, and the identifiers it carries are — up to commas — the code tokens between `start` and
    `end`, which is what the analysis records): every code token of the input except commas survives
    in order, and the step passes the checker's `split` class (what is added are copies of input
    tokens) -/
theorem bfix_signal_split_partial (E : Base.Env) (params action : Base.KV) (old new ids : List Tok) (a b : Nat)
    (h : Base.fixS E .signal015 params action old = .ok new)
    (hids : (Base.needList action "identifiers" >>= Base.toksOf) = .ok ids)
    (hs : Base.needIntS action "start" = .ok (a : Int)) (he : Base.needIntS action "end" = .ok (b : Int))
    (hab : a ≤ b) (hal : a < old.length)
    (hc : (codeSeq fold ((old.drop a).take (b + 1 - a))).filter Base.notComma =
      (ids.flatMap (codeOf fold)).filter Base.notComma) :
    ((codeSeq fold old).filter Base.notComma).Sublist ((codeSeq fold new).filter Base.notComma) ∧
      codeAllowed .split 1 (codeSeq fold old) (codeSeq fold new) = true := by
  obtain ⟨ids', start, stop, h1, hne, h3, h4, _⟩ := bfix_signal_blocks fold E params action old new h
  rw [hids] at h1
  cases h1
  have hold : old ≠ [] := by intro h; subst h; simp at hal
  obtain ⟨hs', he'⟩ := h3 hold
  rw [hs] at hs'; rw [he] at he'
  cases hs'; cases he'
  obtain ⟨hb1, hb2⟩ := Base.Split.signal_blocks fold a b hab old hal ids
  rw [hb1] at h4
  have hxs : ((ids.map (fun x => (codeOf fold x, ([] : List Str)))).map (·.1)).flatten = ids.flatMap (codeOf fold) := by
    simp [List.flatMap_def, Function.comp_def]
  have hc' : (codeSeq fold ((old.drop a).take (b + 1 - a))).filter Base.notComma =
      (((ids.map (fun x => (codeOf fold x, ([] : List Str)))).map (·.1)).flatten).filter Base.notComma := by
    rw [hxs]; exact hc
  have hne' : ids.map (fun x => (codeOf fold x, ([] : List Str))) ≠ [] := by simpa using hne
  rw [h4, hb2]
  refine ⟨Base.Split.split_sublist Base.notComma _ _ _ _ hne' hc', ?_⟩
  simp only [codeAllowed, Bool.or_eq_true]
  refine Or.inr (Base.splitOk_of_blocks _ _ _ _ hne' hc' ?_)
  intro y hy x hx
  simp only [List.mem_map] at hy
  obtain ⟨_, _, rfl⟩ := hy
  simp at hx

/-- **port_026, every action** (with at least one identifier index): one block per index — the token
    at that index, the tokens from `split_index` on, and `;` + line break after every block whose index
    differs from the last one — and nothing else -/
theorem bfix_port_blocks (E : Base.Env) (params action : Base.KV) (old new : List Tok)
    (h : Base.fixS E .port026 params action old = .ok new) :
    new = [] ∨ ∃ (idx : List Int) (last split : Int) (ts : List Tok),
      (Base.needList action "identifier_indexes" >>= Base.intsStrict) = .ok idx ∧ idx.getLast? = some last ∧
      Base.needIntS action "split_index" = .ok split ∧ ts.length = idx.length ∧
      (∀ p ∈ ts.zip idx, Base.pyGet old p.2 = .ok p.1) ∧
      new = (ts.zip idx).flatMap (fun p => [p.1] ++ Base.pyFrom old split ++
        (if p.2 != last then [E.inst E.ifaceSemicolonCls [';'], E.cr] else [])) ∧
      (∀ t ∈ new, t ∈ old ∨ t = E.inst E.ifaceSemicolonCls [';'] ∨ t = E.cr) := by
  have hm := Base.Split.fixPort_mem E action old new h
  rcases Base.Split.fixPort_eq E action old new h with h | ⟨idx, last, split, ts, h1, h2, h3, h4, _, h6, h7⟩
  · exact Or.inl h
  · exact Or.inr ⟨idx, last, split, ts, h1, h2, h3, h4, h6, h7, hm⟩

/-- **port_026** with an action consistent with the tokens (the code tokens before `split_index` are —
    up to commas — the tokens at the recorded identifier indexes; the created `;` is a code token that
    folds to `;`): every code token of the input except commas survives in order; what is added are
    copies of input tokens and `;` — the step passes the checker's `split` class -/
theorem bfix_port_split_partial (E : Base.Env) (params action : Base.KV) (old new ts : List Tok)
    (idx : List Int) (split : Int)
    (h : Base.fixS E .port026 params action old = .ok new)
    (hidx : (Base.needList action "identifier_indexes" >>= Base.intsStrict) = .ok idx) (hne : idx ≠ [])
    (hsp : Base.needIntS action "split_index" = .ok split)
    (hts : ts.length = idx.length ∧ ∀ p ∈ ts.zip idx, Base.pyGet old p.2 = .ok p.1)
    (hc : (codeSeq fold (Base.pyTo old split)).filter Base.notComma = (ts.flatMap (codeOf fold)).filter Base.notComma)
    (hsemi : ∀ x ∈ codeOf fold (E.inst E.ifaceSemicolonCls [';']), x = s ";") :
    ((codeSeq fold old).filter Base.notComma).Sublist ((codeSeq fold new).filter Base.notComma) ∧
      codeAllowed .split 1 (codeSeq fold old) (codeSeq fold new) = true := by
  rcases bfix_port_blocks E params action old new h with hn | ⟨idx', last, split', ts', h1, h2, h3, h4, h5, h6, _⟩
  · -- `new = []` only arises from an empty index list
    exfalso
    unfold Base.fixS Base.Split.fixPort at h
    obtain ⟨idxV, g1, h⟩ := Base.bind_ok _ _ _ h
    obtain ⟨idx0, g2, h⟩ := Base.bind_ok _ _ _ h
    have : idx0 = idx := by
      have : (Base.needList action "identifier_indexes" >>= Base.intsStrict) = .ok idx0 := by rw [g1]; exact g2
      rw [hidx] at this; cases this; rfl
    subst this
    cases hl : idx0.getLast? with
    | none => exact hne (List.getLast?_eq_none_iff.mp hl)
    | some last =>
      simp only [hl] at h
      obtain ⟨sp, _, h⟩ := Base.bind_ok _ _ _ h
      subst hn
      cases idx0 with
      | nil => exact hne rfl
      | cons i is =>
        unfold Base.Split.portAll at h
        obtain ⟨a, ha, h⟩ := Base.bind_ok _ _ _ h
        obtain ⟨b, _, h⟩ := Base.bind_ok _ _ _ h
        unfold Base.Split.portOne at ha
        obtain ⟨t, _, ha⟩ := Base.bind_ok _ _ _ ha
        cases ha
        simp at h
  · rw [hidx] at h1; cases h1
    rw [hsp] at h3; cases h3
    -- the tokens at the indexes are determined by the indexes
    have hts' : ts' = ts := by
      have key : ∀ (u v : List Tok) (ix : List Int), u.length = ix.length → v.length = ix.length →
          (∀ p ∈ u.zip ix, Base.pyGet old p.2 = .ok p.1) → (∀ p ∈ v.zip ix, Base.pyGet old p.2 = .ok p.1) → u = v := by
        intro u
        induction u with
        | nil => intro v ix hu hv _ _; cases ix with
          | nil => cases v with
            | nil => rfl
            | cons _ _ => simp at hv
          | cons _ _ => simp at hu
        | cons x u ih =>
          intro v ix hu hv h1 h2
          cases ix with
          | nil => simp at hu
          | cons i ix =>
            cases v with
            | nil => simp at hv
            | cons y v =>
              have e1 := h1 (x, i) (by simp)
              have e2 := h2 (y, i) (by simp)
              simp only at e1 e2
              rw [e1] at e2
              cases e2
              congr 1
              exact ih v ix (by simpa using hu) (by simpa using hv)
                (fun p hp => h1 p (by simp [hp])) (fun p hp => h2 p (by simp [hp]))
      exact key ts' ts idx h4 hts.1 h5 hts.2
    subst hts'
    obtain ⟨hb1, hb2, hb3⟩ := Base.Split.port_blocks fold E split last old ts' idx h4
    have hc' : (codeSeq fold (Base.pyTo old split)).filter Base.notComma =
        ((((ts'.zip idx).map (fun p => (codeOf fold p.1,
          if p.2 != last then codeOf fold (E.inst E.ifaceSemicolonCls [';']) else []))).map (·.1)).flatten).filter Base.notComma := by
      rw [hb3]; exact hc
    have hne' : (ts'.zip idx).map (fun p => (codeOf fold p.1,
          if p.2 != last then codeOf fold (E.inst E.ifaceSemicolonCls [';']) else [])) ≠ [] := by
      cases idx with
      | nil => exact absurd rfl hne
      | cons i is =>
        cases ts' with
        | nil => simp at h4
        | cons t ts'' => simp
    rw [h6, hb1, hb2]
    refine ⟨Base.Split.split_sublist Base.notComma _ _ _ _ hne' hc', ?_⟩
    simp only [codeAllowed, Bool.or_eq_true]
    refine Or.inr (Base.splitOk_of_blocks _ _ _ _ hne' hc' ?_)
    intro y hy x hx
    simp only [List.mem_map] at hy
    obtain ⟨p, _, rfl⟩ := hy
    simp only at hx
    split at hx
    · exact hsemi x hx
    · simp at hx


/-! #### the owner lists of the certificate checker vs the modelled owners -/

/-- the edit class the theorems above establish for a modelled owner -/
def classOfSOwner (o : Base.SOwner) : EditClass :=
  if o.isInsert then .insert else if o.isDelete then .delete else if o = .if002 then .parens
  else if o.isSplit then .split else .none

/-- for EVERY rule of the pinned tree, the edit class the certificate checker grants its
    `_fix_violation` owner (`Verdict.editClassOfOwner`) is the class proved for the Lean model of that
    owner — and `none` for every owner outside this family: the checker's lists neither miss an owner
    with a proved insert / delete / parens / split effect nor grant a class to an unmodelled owner.
    Moreover every rule of the insert family has its parameter in one of the two generated parameter
    tables (`insert_params_redundant` speaks about all of them). -/
def editRowOk (r : RuleRow) : Bool :=
  match Base.sownerOf r.fixVOwner with
  | some o => decide (editClassOfOwner r.fixVOwner = classOfSOwner o) &&
      (!o.isInsert || (Gen.insertTokParams.map (·.1)).contains r.id || (Gen.insertClsParams.map (·.1)).contains r.id)
  | none => decide (editClassOfOwner r.fixVOwner = .none)

theorem editClass_table : ∀ r ∈ Gen.ruleTable, editRowOk r = true := by
  decide +kernel

/-- the same per owner name, and the name ↦ owner map is injective on the modelled owners -/
theorem editClass_owner_names : ∀ o ∈ Base.SOwner.all, editClassOfOwner o.name = classOfSOwner o ∧
    Base.sownerOf o.name = some o := by
  decide +kernel

/-! ### END ag_bstruct -/

/-! ### BEGIN ag_bstruct (insert / remove / parens / split / multiline alignment) -/

/-- architecture_010 on `end rtl;`: the hypotheses of `bfix_insert_codeSeq` / `bfix_insert_allowed` hold
    (owner resolved, `action: add`, the fixer returns, the designated token is the rule parameter
    `architecture` — a redundant keyword) and the keyword lands after `end` -/
example :
    let endK : Tok := ⟨68, .code, "end".toList⟩
    let w : Tok := ⟨51, .ws, " ".toList⟩
    let nm : Tok := ⟨65, .code, "rtl".toList⟩
    let semi : Tok := ⟨73, .code, ";".toList⟩
    let kw : Tok := ⟨67, .code, "architecture".toList⟩
    let params : Base.KV := [("action", .str "add".toList), ("insert_token", .tok kw)]
    Base.sownerOf Base.ownRightOf = some .rightOf ∧ Base.removeMode .rightOf params = false ∧
    (Base.fixS Base.stdEnv .rightOf params [] [endK, w, nm, semi]).toOption = some [endK, w, kw, w, nm, semi] ∧
    Base.designated Base.stdEnv .rightOf params [] = .ok (some [kw]) ∧
    (∀ x ∈ codeSeq id [kw], x ∈ redundantKeywords ∨ x ∈ codeSeq id [endK, w, nm, semi]) := by
  refine ⟨by decide +kernel, by decide, by decide +kernel, by rfl, by decide⟩

/-- the same rule configured `action: remove` on the two tokens of interest `end␣` … `architecture` -/
example :
    let w : Tok := ⟨51, .ws, " ".toList⟩
    let kw : Tok := ⟨67, .code, "architecture".toList⟩
    let params : Base.KV := [("action", .str "remove".toList), ("insert_token", .tok kw)]
    Base.removeMode .rightOf params = true ∧ Base.fixS Base.stdEnv .rightOf params [] [w, kw] = .ok [] := by
  refine ⟨by decide, by rfl⟩

/-- signal_015 on `signal a, b : bit;` with the action the analysis records: every hypothesis of
    `bfix_signal_split_partial` holds -/
example :
    let sg : Tok := ⟨692, .code, "signal".toList⟩
    let w : Tok := ⟨51, .ws, " ".toList⟩
    let a : Tok := ⟨690, .code, "a".toList⟩
    let b : Tok := ⟨690, .code, "b".toList⟩
    let old : List Tok := [sg, w, a, ⟨352, .code, ",".toList⟩, w, b, w, ⟨689, .code, ":".toList⟩, w,
      ⟨749, .code, "bit".toList⟩, ⟨691, .code, ";".toList⟩]
    let action : Base.KV := [("start", .int 2), ("end", .int 5), ("number", .int 2), ("identifiers", .list [.tok a, .tok b])]
    (∃ new, Base.fixS Base.stdEnv .signal015 [] action old = .ok new) ∧
    (Base.needList action "identifiers" >>= Base.toksOf) = .ok [a, b] ∧
    (codeSeq id ((old.drop 2).take (5 + 1 - 2))).filter Base.notComma = ([a, b].flatMap (codeOf id)).filter Base.notComma := by
  refine ⟨⟨_, by rfl⟩, by rfl, by decide⟩


/-- `if ( a ) then` with the tokens of interest `␣(␣a␣)␣`: every hypothesis of `bfix_parens_remove_partial`
    holds in the class environment of the pinned tree, and the fix yields `␣a␣` -/
example :
    let w : Tok := ⟨51, .ws, " ".toList⟩
    let o : Tok := ⟨33, .code, "(".toList⟩
    let a : Tok := ⟨47, .code, "a".toList⟩
    let c : Tok := ⟨10, .code, ")".toList⟩
    let old : List Tok := [w, o, w, a, w, c, w]
    (∀ t ∈ old, ¬ (Base.Parens.isO Base.stdEnv t = true ∧ Base.Parens.isC Base.stdEnv t = true)) ∧
    (∀ t ∈ old, Base.Parens.isO Base.stdEnv t = true → (t.kind == Kind.ws) = false) ∧
    (∀ t ∈ old, Base.Parens.isC Base.stdEnv t = true → (t.kind == Kind.ws) = false) ∧
    Base.Parens.StartsWithParen Base.stdEnv old ∧ Base.Parens.EndsWithParen Base.stdEnv old ∧
    ∃ act, (Base.Parens.removeAction Base.stdEnv old).toOption = some act ∧
      (Base.fixS Base.stdEnv .if002 [("parenthesis", .str "remove".toList)] act.toKV old).toOption = some [w, a, w] := by
  refine ⟨by decide +kernel, by decide +kernel, by decide +kernel,
    ⟨⟨33, .code, "(".toList⟩, _, by decide +kernel, Or.inr ⟨⟨51, .ws, " ".toList⟩, rfl, rfl⟩⟩,
    ⟨[⟨51, .ws, " ".toList⟩, ⟨33, .code, "(".toList⟩, ⟨51, .ws, " ".toList⟩, ⟨47, .code, "a".toList⟩, ⟨51, .ws, " ".toList⟩],
      ⟨10, .code, ")".toList⟩, by decide +kernel, Or.inr ⟨⟨51, .ws, " ".toList⟩, rfl, rfl⟩⟩,
    ⟨[0, 1], [], [6, 5], []⟩, by decide +kernel, by decide +kernel⟩

/-! ### END ag_bstruct -/

/-! ### BEGIN ag_bmulti (multi-line structure family: multiline_structure, fix.py, single rules) -/

open Base.Multi Base.LineStruct in
/-- **multiline_structure**, every fix function and every action string: the code sequence is kept by
    the `insert` branches, by `_fix_assign_on_single_line` and by unknown action strings; by a `remove`
    branch EXACTLY when no code stood between the first and the last token of the region; by
    `insert_and_move_comment` EXACTLY when the code of the moved tail commutes with the code it jumps over -/
theorem bfix_multiStruct_codeSeq (fold : Str → Str) (params action : Base.KV) (old new : List Tok)
    (h : Base.fixByOwner (MOwner.name .multiStruct) params action old = some (.ok new)) :
    ∃ ty f act, dget action "type" = .ok ty ∧ msFnOf ty = .ok f ∧ dget action "action" = .ok act ∧
      match msKind f act old with
      | .insert | .noop | .join => codeSeq fold new = codeSeq fold old
      | .collapse => 2 ≤ old.length → (codeSeq fold new = codeSeq fold old ↔ codeSeq fold (middle old) = [])
      | .moveComment => ∃ t0 M D, LayoutOnly old (t0 :: M ++ D) ∧ new = t0 :: D ++ mkCr Base.lineCls :: M ∧
          (codeSeq fold new = codeSeq fold old ↔ codeSeq fold D ++ codeSeq fold M = codeSeq fold M ++ codeSeq fold D) := by
  have hm := run_fixM .multiStruct params action old new (mowner_all _) h
  obtain ⟨ty, f, act, h1, h2, h3, he⟩ := fixMS_effect _ _ action old new hm
  refine ⟨ty, f, act, h1, h2, h3, ?_⟩
  cases hk : msKind f act old <;> simp only [hk] at he ⊢
  · exact (he.1.codeSeq fold).symm
  · intro hlen; exact collapse_codeSeq_iff fold _ old new he hlen
  · obtain ⟨t0, M, D, hl, hn⟩ := he
    refine ⟨t0, M, D, hl, hn, ?_⟩
    rw [hn]
    exact moveComment_proj (codeSeq fold) (blind_codeSeq fold) _ t0 M D old hl
  · rw [he]; exact joinAssign_codeSeq fold old
  · rw [he]

open Base.Multi Base.LineStruct in
/-- a `remove` branch deletes code when the analysis hands it a region with code in the middle; a
    region of ONE token is doubled (`[lTokens[0], lTokens[-1]]`) -/
theorem multiStruct_remove_changes_code :
    let act : Base.KV := [("type", .dict [("fn", .str "_fix_last_paren_new_line".toList)]), ("action", .str "remove".toList)]
    (∃ new, Base.fixByOwner (MOwner.name .multiStruct) [] act
        [⟨9, .code, ['a']⟩, ⟨9, .code, ['b']⟩, ⟨9, .code, [')']⟩] = some (.ok new) ∧
      codeSeq id new = [['a'], [')']]) ∧
    (∃ new, Base.fixByOwner (MOwner.name .multiStruct) [] act [⟨9, .code, [')']⟩] = some (.ok new) ∧
      codeSeq id new = [[')'], [')']]) := by
  exact ⟨⟨[⟨9, .code, ['a']⟩, ⟨9, .code, [')']⟩], by decide +kernel, by decide⟩,
    ⟨[⟨9, .code, [')']⟩, ⟨9, .code, [')']⟩], by decide +kernel, by decide⟩⟩

open Base.Multi in
/-- **multiline_simple_structure**: code kept by "insert" and by unknown types / actions; by "remove"
    EXACTLY when no code stood between the first and the last token of the region -/
theorem bfix_simple_codeSeq (fold : Str → Str) (params action : Base.KV) (old new : List Tok)
    (h : Base.fixByOwner (MOwner.name .simple) params action old = some (.ok new)) :
    ∃ ty, dget action "type" = .ok ty ∧
      ((valIs ty "new_line_after_assign" = false ∧ new = old) ∨
       (valIs ty "new_line_after_assign" = true ∧ ∃ act, dget action "action" = .ok act ∧
          match simpleKind ty act with
          | .collapse => 2 ≤ old.length → (codeSeq fold new = codeSeq fold old ↔ codeSeq fold (middle old) = [])
          | _ => codeSeq fold new = codeSeq fold old)) := by
  have hm := run_fixM .simple params action old new (mowner_all _) h
  obtain ⟨ty, h1, hc⟩ := fixSimple_effect _ action old new hm
  refine ⟨ty, h1, ?_⟩
  rcases hc with hc | ⟨ht, act, ha, he⟩
  · exact Or.inl hc
  · refine Or.inr ⟨ht, act, ha, ?_⟩
    have hkinds : simpleKind ty act = .insert ∨ simpleKind ty act = .collapse ∨ simpleKind ty act = .noop := by
      unfold simpleKind; simp only [ht, if_true]
      by_cases a1 : valIs act "insert" = true
      · simp [a1]
      · by_cases a2 : valIs act "remove" = true <;> simp [a1, a2]
    rcases hkinds with hk | hk | hk <;> simp only [hk] at he ⊢
    · exact (he.1.codeSeq fold).symm
    · intro hlen; exact collapse_codeSeq_iff fold _ old new he hlen
    · rw [he]

open Base.Multi in
/-- **vsg/rules/fix.py** (function_019, procedure_013, constant_017, signal_017, variable_017,
    procedure_call_003): for EVERY action and EVERY token list the code sequence is kept -/
theorem bfix_fixpy_codeSeq (fold : Str → Str) (o : MOwner) (ho : o.usesFixPy = true) (params action : Base.KV)
    (old new : List Tok) (h : Base.fixByOwner o.name params action old = some (.ok new)) :
    codeSeq fold new = codeSeq fold old := by
  have hm := run_fixM o params action old new (mowner_all _) h
  cases o <;> simp [MOwner.usesFixPy] at ho <;> exact fixNL_codeSeq fold _ action old new hm

open Base.Multi in
/-- conditional_waveforms_001, concurrent_008, after_002: code kept for every action -/
theorem bfix_multi_inserters_codeSeq (fold : Str → Str) (o : MOwner)
    (ho : o = .condWave001 ∨ o = .concurrent008 ∨ o = .after002) (params action : Base.KV) (old new : List Tok)
    (h : Base.fixByOwner o.name params action old = some (.ok new)) : codeSeq fold new = codeSeq fold old := by
  have hm := run_fixM o params action old new (mowner_all _) h
  rcases ho with rfl | rfl | rfl
  · exact ((fixCondWave_spec _ old new hm).1.codeSeq fold).symm
  · exact ((fixAlignComment_layoutOnly _ _ action old new hm).codeSeq fold).symm
  · exact ((fixAlignComment_layoutOnly _ _ action old new hm).codeSeq fold).symm

open Base.Multi in
/-- **instantiation_005**: "add" keeps the code; "remove" keeps the first token and drops the rest
    of the region, so the code is kept exactly when the rest held none; any other action object
    changes nothing -/
theorem bfix_inst005_codeSeq (fold : Str → Str) (params action : Base.KV) (old new : List Tok)
    (h : Base.fixByOwner (MOwner.name .inst005) params action old = some (.ok new)) :
    (action.get "_str" = some (.str "add".toList) → codeSeq fold new = codeSeq fold old) ∧
    (action.get "_str" = some (.str "remove".toList) →
      (codeSeq fold new = codeSeq fold old ↔ codeSeq fold (old.drop 1) = [])) ∧
    (action.get "_str" ≠ some (.str "add".toList) → action.get "_str" ≠ some (.str "remove".toList) → new = old) := by
  have hm := run_fixM .inst005 params action old new (mowner_all _) h
  refine ⟨fun ha => ((fixInst005_add_spec _ action old new hm ha).1.codeSeq fold).symm, fun ha => ?_,
    fun h1 h2 => fixInst005_other _ action old new hm h1 h2⟩
  obtain ⟨t, r, rfl, rfl⟩ := fixInst005_remove_eq _ action old new hm ha
  have e1 : ∀ cc, codeSeq fold [t, Base.LineStruct.mkWs cc] = codeSeq fold [t] := by
    intro cc; simp [codeSeq, codeOf, Tok.isCode, Base.LineStruct.mkWs]
  have e2 : codeSeq fold (t :: r) = codeSeq fold [t] ++ codeSeq fold r := by
    rw [← codeSeq_append]; rfl
  rw [e1, e2, List.drop_succ_cons, List.drop_zero]
  constructor
  · intro hh
    have := congrArg List.length hh
    simp only [List.length_append] at this
    exact List.eq_nil_of_length_eq_zero (by omega)
  · intro hh; rw [hh, List.append_nil]

open Base.Multi Base.LineStruct in
/-- **comment_011** rotates the line at `iToken`: `old[iToken:] ++ [line break] ++ old[:iToken]`.  The code
    sequence is kept EXACTLY when the code of the two parts commutes (the analysis cuts in front of the
    trailing comment: nothing but the comment moves) -/
theorem bfix_comment011_codeSeq_iff (fold : Str → Str) (params action : Base.KV) (old new : List Tok) (i : Int)
    (h : Base.fixByOwner (MOwner.name .comment011) params action old = some (.ok new))
    (hi : dget action "iToken" = .ok (.int i)) :
    new = old.drop (pyCut old.length i) ++ [mkCr Base.lineCls] ++ old.take (pyCut old.length i) ∧
    (codeSeq fold new = codeSeq fold old ↔
      codeSeq fold (old.drop (pyCut old.length i)) ++ codeSeq fold (old.take (pyCut old.length i)) =
        codeSeq fold (old.take (pyCut old.length i)) ++ codeSeq fold (old.drop (pyCut old.length i))) := by
  have hm := run_fixM .comment011 params action old new (mowner_all _) h
  obtain ⟨v, b, hv, hb, hn⟩ := fixComment011_eq _ action old new hm
  rw [hi] at hv; cases hv
  simp only [asBound] at hb; cases hb
  have hn' : new = old.drop (pyCut old.length i) ++ [mkCr Base.lineCls] ++ old.take (pyCut old.length i) := hn
  refine ⟨hn', ?_⟩
  rw [hn']
  exact rotate_proj (codeSeq fold) (blind_codeSeq fold) _ old _

open Base.Multi in
/-- with a cut point in the middle of the code the line is re-ordered (never produced by the analysis) -/
theorem comment011_codeSeq_false :
    ∃ new, Base.fixByOwner (MOwner.name .comment011) [] [("iToken", .int 1)] [⟨9, .code, ['a']⟩, ⟨9, .code, ['b']⟩] = some (.ok new) ∧
      codeSeq id new = [['b'], ['a']] :=
  ⟨[⟨9, .code, ['b']⟩, ⟨Gen.crCls, .cr, ['\n']⟩, ⟨9, .code, ['a']⟩], by decide +kernel, by decide⟩

open Base.Multi Base.LineStruct in
/-- **when_001** moves the last token of the region (behind an optional trailing blank) to the front:
    `m ++ [x] (++ [blank]) ↦ [blank, x] ++ m`.  Code kept EXACTLY when `x` commutes with the code of `m`
    (the analysis starts the region behind the last code token: `m` is whitespace, line breaks, comments) -/
theorem bfix_when001_codeSeq_iff (fold : Str → Str) (params action : Base.KV) (old new : List Tok)
    (h : Base.fixByOwner (MOwner.name .when001) params action old = some (.ok new)) :
    ∃ m x tail, old = m ++ [x] ++ tail ∧ (∀ t ∈ tail, isWs t = true) ∧ m ≠ [] ∧ new = mkWs Base.lineCls :: x :: m ∧
      (codeSeq fold new = codeSeq fold old ↔ codeOf fold x ++ codeSeq fold m = codeSeq fold m ++ codeOf fold x) := by
  have hm := run_fixM .when001 params action old new (mowner_all _) h
  obtain ⟨m, x, tail, hl, ht, hne, hn⟩ := fixWhen001_eq _ old new hm
  refine ⟨m, x, tail, hl, ht, hne, hn, ?_⟩
  rw [hn, hl, ← codeSeq_singleton]
  exact when001_proj (codeSeq fold) (blind_codeSeq fold) _ m x tail ht

open Base.Multi in
/-- the guard is needed: handed a region with code in front of the moved token, the fix re-orders it -/
theorem when001_codeSeq_false :
    ∃ new, Base.fixByOwner (MOwner.name .when001) [] [] [⟨9, .code, ['b']⟩, ⟨9, .code, "when".toList⟩] = some (.ok new) ∧
      codeSeq id new = ["when".toList, ['b']] :=
  ⟨[⟨Gen.wsCls, .ws, [' ']⟩, ⟨9, .code, "when".toList⟩, ⟨9, .code, ['b']⟩], by decide +kernel, by decide⟩

open Base.Multi in
/-- **process_021**: code kept when every blank_line token of the region is followed by its line break
    (C03 `process021_deletes_code` is the counterexample without the guard) -/
theorem bfix_process021_codeSeq_partial (fold : Str → Str) (params action : Base.KV) (old new : List Tok)
    (h : Base.fixByOwner (MOwner.name .process021) params action old = some (.ok new))
    (hg : blankThenCr old = true) : codeSeq fold new = codeSeq fold old := by
  have hm := run_fixM .process021 params action old new (mowner_all _) h
  obtain ⟨st, _, hc⟩ := fixProcess021_cases _ params old new hm
  rcases hc with ⟨_, h1⟩ | ⟨_, _, h1⟩ | ⟨_, _, h1⟩
  · exact ((dropBlankAndNext_layoutOnly old new h1 hg).1.codeSeq fold).symm
  · exact ((insertBlankBeforeLast_layoutOnly _ old new h1).codeSeq fold).symm
  · rw [h1]

open Base.Multi in
/-- **process_026 / process_027**: "Insert" keeps the code; the removing branch `old[:s] ++ old[e:]` keeps it
    exactly when the cut `old[s:e]` holds none (cut points `s ≤ e`) -/
theorem bfix_cut_codeSeq_iff (fold : Str → Str) (old : List Tok) (s e : Nat) (hse : s ≤ e) :
    codeSeq fold (old.take s ++ old.drop e) = codeSeq fold old ↔ codeSeq fold ((old.take e).drop s) = [] := by
  rw [cut_proj (codeSeq fold) (Base.LineStruct.blind_codeSeq fold) old s e hse, codeSeq_append]
  constructor
  · intro hh
    have := congrArg List.length hh
    simp only [List.length_append] at this
    exact List.eq_nil_of_length_eq_zero (by omega)
  · intro hh; rw [hh, List.append_nil]

open Base.Multi in
/-- **after_001** (documented to add code): the region is prefixed with ` after <magnitude> <units>`; the
    code sequence grows by exactly those three tokens -/
theorem bfix_after001_adds (fold : Str → Str) (params action : Base.KV) (old new : List Tok)
    (h : Base.fixByOwner (MOwner.name .after001) params action old = some (.ok new)) :
    ∃ mv m uv u, pget params "magnitude" = .ok mv ∧ pyStr mv = .ok m ∧ pget params "units" = .ok uv ∧
      asStr "units" uv = .ok u ∧ new = afterClause Base.multiEnv m u ++ old ∧
      codeSeq fold new = codeSeq fold [Base.multiEnv.inst Gen.afterKeywordCls "after".toList,
        Base.multiEnv.inst Gen.todoCls m, Base.multiEnv.inst Gen.todoCls u] ++ codeSeq fold old ∧
      commentSeq new = commentSeq old := by
  have hm := run_fixM .after001 params action old new (mowner_all _) h
  obtain ⟨mv, m, uv, u, h1, h2, h3, h4, hn⟩ := fixAfter001_eq _ params old new hm
  refine ⟨mv, m, uv, u, h1, h2, h3, h4, hn, ?_, ?_⟩
  · rw [hn]; exact afterClause_codeSeq fold _ m u old
  · rw [hn, afterClause_commentSeq]
    have ka : Base.multiEnv.kindOf Base.multiEnv.afterCls = .code := by decide +kernel
    have kt : Base.multiEnv.kindOf Base.multiEnv.todoCls = .code := by decide +kernel
    have k1 : ∀ s, (Base.multiEnv.inst Base.multiEnv.afterCls s).isCommentLike = false := by
      intro s; simp [MEnv.inst, Tok.isCommentLike, ka, Kind.isCommentLike]
    have k2 : ∀ s, (Base.multiEnv.inst Base.multiEnv.todoCls s).isCommentLike = false := by
      intro s; simp [MEnv.inst, Tok.isCommentLike, kt, Kind.isCommentLike]
    simp only [commentSeq, List.flatMap_cons, List.flatMap_nil, k1, k2, Bool.false_eq_true, if_false, List.append_nil,
      List.nil_append]

/-- with the default parameters: `after`, `1`, `ns` -/
example : codeSeq id (Base.Multi.afterClause Base.multiEnv ['1'] "ns".toList) = ["after".toList, ['1'], "ns".toList] := by
  decide +kernel

open Base.Multi in
/-- **after_003** (documented to remove code): only the LAST token of the region survives -/
theorem bfix_after003_removes (fold : Str → Str) (params action : Base.KV) (old new : List Tok)
    (h : Base.fixByOwner (MOwner.name .after003) params action old = some (.ok new)) :
    ∃ x, old = old.dropLast ++ [x] ∧ new = [x] ∧
      codeSeq fold old = codeSeq fold old.dropLast ++ codeSeq fold new := by
  have hm := run_fixM .after003 params action old new (mowner_all _) h
  obtain ⟨x, hl, hn⟩ := fixAfter003_eq old new hm
  refine ⟨x, hl, hn, ?_⟩
  rw [hn]
  conv => lhs; rw [hl]
  rw [codeSeq_append]

open Base.Multi in
/-- **process_029** (documented to rewrite code): the new region does not depend on the old tokens at
    all — it is `rising_edge(clk)` / `falling_edge(clk)` or `clk'event and clk = '1'` built from the action -/
theorem bfix_process029_rewrites (params action : Base.KV) (old new : List Tok)
    (h : Base.fixByOwner (MOwner.name .process029) params action old = some (.ok new)) :
    ∃ conv, dget action "convert_to" = .ok conv ∧
      ((valIs conv "edge" = true ∧ ∃ e clk, dget action "edge" = .ok e ∧ dgetStr action "clock" = .ok clk ∧
          new = edgeCall Base.multiEnv (valIs e "rising_edge") clk) ∨
       (valIs conv "edge" = false ∧ ∃ clk e, dgetStr action "clock" = .ok clk ∧ dgetStr action "edge" = .ok e ∧
          new = eventExpr Base.multiEnv clk e)) :=
  fixProcess029_eq _ action old new (run_fixM .process029 params action old new (mowner_all _) h)

/-- the two replacement texts -/
example : codeSeq id (Base.Multi.edgeCall Base.multiEnv true "clk".toList) =
    ["rising_edge".toList, ['('], "clk".toList, [')']] ∧
    codeSeq id (Base.Multi.eventExpr Base.multiEnv "clk".toList "'1'".toList) =
    ["clk".toList, ['\''], "event".toList, "and".toList, "clk".toList, ['='], "'1'".toList] := by
  constructor <;> decide +kernel

/-! ### END ag_bmulti -/

end Vsgm.C01
