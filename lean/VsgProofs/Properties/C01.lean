/-
  C01 — fixing never changes what the VHDL means.
  ONLY property theorems and their non-vacuity examples live here.
-/
import VsgModel.Engine.RuleRun
import VsgModel.Engine.Relations
import VsgModel.Check.Verdict
import VsgProofs.Lemmas.Extras
namespace Vsgm.C01
open Vsgm Vsgm.Verdict

variable (fold : Str → Str)

/-- **engine**: if the violations of one `Rule.fix` are sorted, disjoint and in range and each
    `_fix_violation` keeps the code sequence of its own slice, `vhdlFile.update` keeps the
    code sequence of the whole file — no token lost, duplicated or reordered by the splice -/
theorem update_codeSeq (f : List Tok) (es : List (Edit Tok)) (h : Chain f.length 0 es)
    (hp : ∀ e ∈ es, codeSeq fold e.new = codeSeq fold (old f e)) :
    codeSeq fold (update f es) = codeSeq fold f :=
  update_hom (codeSeq fold) (codeSeq_append fold) f es h hp

/-- **engine, structural rules**: for any relation `R` on code sequences that is reflexive
    and compatible with concatenation (e.g. "equal up to the permitted redundant elements"),
    per-violation `R` lifts to the whole update -/
theorem update_codeRel (R : List Str → List Str → Prop) (hrefl : ∀ x, R x x)
    (happ : ∀ a a' b b', R a a' → R b b' → R (a ++ b) (a' ++ b'))
    (f : List Tok) (es : List (Edit Tok)) (h : Chain f.length 0 es)
    (hp : ∀ e ∈ es, R (codeSeq fold (old f e)) (codeSeq fold e.new)) :
    R (codeSeq fold f) (codeSeq fold (update f es)) :=
  update_rel (codeSeq fold) (codeSeq_append fold) R hrefl happ f es h hp

/-- dropping the beginning_of_file pseudo token from a replacement (as `update` does) never
    drops code -/
theorem dropBof_codeSeq (l : List Tok) : codeSeq fold (dropBof l) = codeSeq fold l := by
  induction l with
  | nil => rfl
  | cons t l ih =>
    by_cases h : t.isBof = true
    · have hc : t.isCode = false := by
        unfold Tok.isBof at h; unfold Tok.isCode
        cases hk : t.kind <;> simp_all
      simp [dropBof, h, codeSeq, codeOf, hc] at ih ⊢
      exact ih
    · simp [dropBof, h, codeSeq] at ih ⊢
      exact ih

/-- phases 2–5 and 6: a layout-only or case-only step keeps the code sequence -/
theorem layout_or_case_step (a b : List Tok) (h : LayoutOnly a b ∨ CaseOnly fold a b) :
    codeSeq fold a = codeSeq fold b := by
  rcases h with h | h
  · exact h.codeSeq fold
  · exact h.codeSeq fold

/-- a whole run whose consecutive states are layout-only, case-only or code-preserving steps
    ends with the code sequence it started with -/
theorem run_codeSeq (states : List (List Tok)) (first : List Tok)
    (h : StepsAll (fun a b => LayoutOnly a b ∨ CaseOnly fold a b ∨ codeSeq fold a = codeSeq fold b) first states) :
    codeSeq fold (lastOf first states) = codeSeq fold first := by
  induction states generalizing first with
  | nil => rfl
  | cons s rest ih =>
    simp only [StepsAll] at h
    have h1 : codeSeq fold first = codeSeq fold s := by
      rcases h.1 with h | h | h
      · exact h.codeSeq fold
      · exact h.codeSeq fold
      · exact h
    rw [h1]; exact ih s h.2

/-- soundness of the step-level certificate check, class `none` (every rule that is not one
    of the documented structure-changing base classes): accepted ⇒ code sequence unchanged -/
theorem codeAllowed_none (n : Nat) (a b : List Str) (h : codeAllowed .none n a b = true) : a = b := by
  simpa [codeAllowed] using h

/-- class `insert` (optional elements, added or — with `action: remove` — removed): accepted ⇒
    one of the two code sequences is a subsequence of the other (nothing reordered, nothing
    replaced); what is added consists only of redundant keywords or copies of names present in the
    input; what is removed is a redundant keyword, a name that is still present, or the token in
    the end-name position; at most two tokens per violation -/
theorem codeAllowed_insert (n : Nat) (a b : List Str) (h : codeAllowed .insert n a b = true) :
    a = b ∨
    (∃ e, Trace.extras a b = some e ∧ a.Sublist b ∧ (∀ x ∈ e, x ∈ redundantKeywords ∨ x ∈ a) ∧ e.length ≤ n * 2) ∨
    (∃ e, Trace.extras b a = some e ∧ b.Sublist a ∧ e.length ≤ n * 2) := by
  simp only [codeAllowed, Bool.or_eq_true, beq_iff_eq] at h
  rcases h with h | h | h
  · exact Or.inl h
  · refine Or.inr (Or.inl ?_)
    unfold insertOk at h
    split at h
    · rename_i e he
      refine ⟨e, he, (Lemmas.extras_sublist _ _ _ he).1, ?_, ?_⟩
      · intro x hx
        simp only [Bool.and_eq_true, List.all_eq_true, Bool.or_eq_true, decide_eq_true_eq] at h
        exact h.1 x hx
      · simp only [Bool.and_eq_true, perEdit] at h
        exact of_decide_eq_true h.2
    · simp at h
  · refine Or.inr (Or.inr ?_)
    unfold removeOk at h
    split at h
    · rename_i e he
      have hx := Lemmas.extrasP_extras _ _ _ _ he
      refine ⟨e.map (·.2), hx, (Lemmas.extras_sublist _ _ _ hx).1, ?_⟩
      simp only [Bool.and_eq_true, perEdit] at h
      simpa using of_decide_eq_true h.2
    · simp at h

/-- class `parens` (added, or removed with `parenthesis: remove`): accepted ⇒ one sequence is a
    subsequence of the other and the surplus is a balanced string of parentheses -/
theorem codeAllowed_parens (n : Nat) (a b : List Str) (h : codeAllowed .parens n a b = true) :
    a = b ∨ (∃ e, Trace.extras a b = some e ∧ a.Sublist b ∧ balanced e 0 = true) ∨
      (∃ e, Trace.extras b a = some e ∧ b.Sublist a ∧ balanced e 0 = true) := by
  have key : ∀ (a b : List Str), parensOk n a b = true →
      ∃ e, Trace.extras a b = some e ∧ a.Sublist b ∧ balanced e 0 = true := by
    intro a b h
    unfold parensOk at h
    split at h
    · rename_i e he
      simp only [Bool.and_eq_true] at h
      exact ⟨e, he, (Lemmas.extras_sublist _ _ _ he).1, h.1⟩
    · simp at h
  simp only [codeAllowed, Bool.or_eq_true, beq_iff_eq] at h
  rcases h with h | h | h
  · exact Or.inl h
  · exact Or.inr (Or.inl (key a b h))
  · exact Or.inr (Or.inr (key b a h))

/-- class `delete`: accepted ⇒ every code token of the output was in the input, in the same
    order (nothing invented, duplicated or reordered) -/
theorem codeAllowed_delete (n : Nat) (a b : List Str) (h : codeAllowed .delete n a b = true) :
    b.Sublist a := by
  simp only [codeAllowed, Bool.or_eq_true, beq_iff_eq] at h
  rcases h with h | h
  · subst h; exact List.Sublist.refl _
  · unfold deleteOk at h
    split at h
    · rename_i e he; exact (Lemmas.extras_sublist _ _ _ he).1
    · simp at h

/-- class `split`: accepted ⇒ apart from commas nothing is lost or reordered, and whatever is
    added is a copy of a token of the input or a `;` -/
theorem codeAllowed_split (n : Nat) (a b : List Str) (h : codeAllowed .split n a b = true) :
    (a.filter (· != s ",")).Sublist (b.filter (· != s ",")) := by
  simp only [codeAllowed, Bool.or_eq_true, beq_iff_eq] at h
  rcases h with h | h
  · subst h; exact List.Sublist.refl _
  · unfold splitOk at h
    split at h
    · rename_i e he; exact (Lemmas.extras_sublist _ _ _ he).1
    · simp at h

/-! ### non-vacuity -/

/-- a concrete layout edit (one whitespace token resized between two code tokens) satisfies the
    hypotheses of `update_codeSeq` -/
example :
    let a : Tok := ⟨5, .code, "a".toList⟩
    let w : Tok := ⟨1, .ws, " ".toList⟩
    let w2 : Tok := ⟨1, .ws, "   ".toList⟩
    let f := [a, w, a]
    let es : List (Edit Tok) := [⟨1, 2, [w2]⟩]
    Chain f.length 0 es ∧ (∀ e ∈ es, codeSeq id e.new = codeSeq id (old f e)) ∧ update f es = [a, w2, a] := by
  decide

example : codeAllowed .insert 1 ["end".toList, ";".toList] ["end".toList, "process".toList, ";".toList] = true := by decide
example : codeAllowed .insert 1 ["end".toList, ";".toList] ["end".toList, "foo".toList, ";".toList] = false := by decide
example : codeAllowed .none 1 ["a".toList] ["a".toList, "a".toList] = false := by decide

end Vsgm.C01
