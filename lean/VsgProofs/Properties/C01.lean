/-
  C01 — fixing never changes what the VHDL means.
  ONLY property theorems and their non-vacuity examples live here.
-/
import VsgModel.Engine.RuleRun
import VsgModel.Engine.Relations
import VsgModel.Check.Verdict
import VsgProofs.Lemmas.Extras
import VsgProofs.Lemmas.BaseLineStruct
import VsgProofs.Lemmas.BaseWsEffects
import VsgProofs.Lemmas.BaseBindEffects
import VsgProofs.Lemmas.PostPhase1
import VsgProofs.Lemmas.BaseCaseTok
namespace Vsgm.C01
open Vsgm Vsgm.Verdict

variable (fold : Str → Str)

/-- **engine**: if the violations of one `Rule.fix` are sorted, disjoint and in range and each
    `_fix_violation` keeps the code sequence of its own slice, `vhdlFile.update` keeps the
    code sequence of the whole file — no token lost, duplicated or reordered by the splice -/
theorem update_codeSeq (f : List Tok) (es : List (Edit Tok)) (h : Chain f.length 0 es)
    (hp : ∀ e ∈ es, codeSeq fold e.new = codeSeq fold (old f e)) :
    codeSeq fold (update f es) = codeSeq fold f :=
  update_hom (codeSeq fold) (codeSeq_append fold) f es h hp

/-- **engine, structural rules**: for any relation `R` on code sequences that is reflexive
    and compatible with concatenation (e.g. "equal up to the permitted redundant elements"),
    per-violation `R` lifts to the whole update -/
theorem update_codeRel (R : List Str → List Str → Prop) (hrefl : ∀ x, R x x)
    (happ : ∀ a a' b b', R a a' → R b b' → R (a ++ b) (a' ++ b'))
    (f : List Tok) (es : List (Edit Tok)) (h : Chain f.length 0 es)
    (hp : ∀ e ∈ es, R (codeSeq fold (old f e)) (codeSeq fold e.new)) :
    R (codeSeq fold f) (codeSeq fold (update f es)) :=
  update_rel (codeSeq fold) (codeSeq_append fold) R hrefl happ f es h hp

/-- dropping the beginning_of_file pseudo token from a replacement (as `update` does) never
    drops code -/
theorem dropBof_codeSeq (l : List Tok) : codeSeq fold (dropBof l) = codeSeq fold l := by
  induction l with
  | nil => rfl
  | cons t l ih =>
    by_cases h : t.isBof = true
    · have hc : t.isCode = false := by
        unfold Tok.isBof at h; unfold Tok.isCode
        cases hk : t.kind <;> simp_all
      simp [dropBof, h, codeSeq, codeOf, hc] at ih ⊢
      exact ih
    · simp [dropBof, h, codeSeq] at ih ⊢
      exact ih

/-- phases 2–5 and 6: a layout-only or case-only step keeps the code sequence -/
theorem layout_or_case_step (a b : List Tok) (h : LayoutOnly a b ∨ CaseOnly fold a b) :
    codeSeq fold a = codeSeq fold b := by
  rcases h with h | h
  · exact h.codeSeq fold
  · exact h.codeSeq fold

/-- a whole run whose consecutive states are layout-only, case-only or code-preserving steps
    ends with the code sequence it started with -/
theorem run_codeSeq (states : List (List Tok)) (first : List Tok)
    (h : StepsAll (fun a b => LayoutOnly a b ∨ CaseOnly fold a b ∨ codeSeq fold a = codeSeq fold b) first states) :
    codeSeq fold (lastOf first states) = codeSeq fold first := by
  induction states generalizing first with
  | nil => rfl
  | cons s rest ih =>
    simp only [StepsAll] at h
    have h1 : codeSeq fold first = codeSeq fold s := by
      rcases h.1 with h | h | h
      · exact h.codeSeq fold
      · exact h.codeSeq fold
      · exact h
    rw [h1]; exact ih s h.2

/-- soundness of the step-level certificate check, class `none` (every rule that is not one
    of the documented structure-changing base classes): accepted ⇒ code sequence unchanged -/
theorem codeAllowed_none (n : Nat) (a b : List Str) (h : codeAllowed .none n a b = true) : a = b := by
  simpa [codeAllowed] using h

/-- class `insert` (optional elements, added or — with `action: remove` — removed): accepted ⇒
    one of the two code sequences is a subsequence of the other (nothing reordered, nothing
    replaced); what is added consists only of redundant keywords or copies of names present in the
    input; what is removed is a redundant keyword, a name that is still present, or the token in
    the end-name position; at most two tokens per violation -/
theorem codeAllowed_insert (n : Nat) (a b : List Str) (h : codeAllowed .insert n a b = true) :
    a = b ∨
    (∃ e, Trace.extras a b = some e ∧ a.Sublist b ∧ (∀ x ∈ e, x ∈ redundantKeywords ∨ x ∈ a) ∧ e.length ≤ n * 2) ∨
    (∃ e, Trace.extras b a = some e ∧ b.Sublist a ∧ e.length ≤ n * 2) := by
  simp only [codeAllowed, Bool.or_eq_true, beq_iff_eq] at h
  rcases h with h | h | h
  · exact Or.inl h
  · refine Or.inr (Or.inl ?_)
    unfold insertOk at h
    split at h
    · rename_i e he
      refine ⟨e, he, (Lemmas.extras_sublist _ _ _ he).1, ?_, ?_⟩
      · intro x hx
        simp only [Bool.and_eq_true, List.all_eq_true, Bool.or_eq_true, decide_eq_true_eq] at h
        exact h.1 x hx
      · simp only [Bool.and_eq_true, perEdit] at h
        exact of_decide_eq_true h.2
    · simp at h
  · refine Or.inr (Or.inr ?_)
    unfold removeOk at h
    split at h
    · rename_i e he
      have hx := Lemmas.extrasP_extras _ _ _ _ he
      refine ⟨e.map (·.2), hx, (Lemmas.extras_sublist _ _ _ hx).1, ?_⟩
      simp only [Bool.and_eq_true, perEdit] at h
      simpa using of_decide_eq_true h.2
    · simp at h

/-- class `parens` (added, or removed with `parenthesis: remove`): accepted ⇒ one sequence is a
    subsequence of the other and the surplus is a balanced string of parentheses -/
theorem codeAllowed_parens (n : Nat) (a b : List Str) (h : codeAllowed .parens n a b = true) :
    a = b ∨ (∃ e, Trace.extras a b = some e ∧ a.Sublist b ∧ balanced e 0 = true) ∨
      (∃ e, Trace.extras b a = some e ∧ b.Sublist a ∧ balanced e 0 = true) := by
  have key : ∀ (a b : List Str), parensOk n a b = true →
      ∃ e, Trace.extras a b = some e ∧ a.Sublist b ∧ balanced e 0 = true := by
    intro a b h
    unfold parensOk at h
    split at h
    · rename_i e he
      simp only [Bool.and_eq_true] at h
      exact ⟨e, he, (Lemmas.extras_sublist _ _ _ he).1, h.1⟩
    · simp at h
  simp only [codeAllowed, Bool.or_eq_true, beq_iff_eq] at h
  rcases h with h | h | h
  · exact Or.inl h
  · exact Or.inr (Or.inl (key a b h))
  · exact Or.inr (Or.inr (key b a h))

/-- class `delete`: accepted ⇒ every code token of the output was in the input, in the same
    order (nothing invented, duplicated or reordered) -/
theorem codeAllowed_delete (n : Nat) (a b : List Str) (h : codeAllowed .delete n a b = true) :
    b.Sublist a := by
  simp only [codeAllowed, Bool.or_eq_true, beq_iff_eq] at h
  rcases h with h | h
  · subst h; exact List.Sublist.refl _
  · unfold deleteOk at h
    split at h
    · rename_i e he; exact (Lemmas.extras_sublist _ _ _ he).1
    · simp at h

/-- class `split`: accepted ⇒ apart from commas nothing is lost or reordered, and whatever is
    added is a copy of a token of the input or a `;` -/
theorem codeAllowed_split (n : Nat) (a b : List Str) (h : codeAllowed .split n a b = true) :
    (a.filter (· != s ",")).Sublist (b.filter (· != s ",")) := by
  simp only [codeAllowed, Bool.or_eq_true, beq_iff_eq] at h
  rcases h with h | h
  · subst h; exact List.Sublist.refl _
  · unfold splitOk at h
    split at h
    · rename_i e he; exact (Lemmas.extras_sublist _ _ _ he).1
    · simp at h

/-! ### non-vacuity -/

/-- a concrete layout edit (one whitespace token resized between two code tokens) satisfies the
    hypotheses of `update_codeSeq` -/
example :
    let a : Tok := ⟨5, .code, "a".toList⟩
    let w : Tok := ⟨1, .ws, " ".toList⟩
    let w2 : Tok := ⟨1, .ws, "   ".toList⟩
    let f := [a, w, a]
    let es : List (Edit Tok) := [⟨1, 2, [w2]⟩]
    Chain f.length 0 es ∧ (∀ e ∈ es, codeSeq id e.new = codeSeq id (old f e)) ∧ update f es = [a, w2, a] := by
  decide

example : codeAllowed .insert 1 ["end".toList, ";".toList] ["end".toList, "process".toList, ";".toList] = true := by decide
example : codeAllowed .insert 1 ["end".toList, ";".toList] ["end".toList, "foo".toList, ";".toList] = false := by decide
example : codeAllowed .none 1 ["a".toList] ["a".toList, "a".toList] = false := by decide

/-! ### layer B: the whitespace family — BEGIN ag_bws -/

/-- **every `_fix_violation` of the whitespace family (187 rules), all actions, all token lists**: the code
    sequence is kept — `_partial`: the guard says that the old tokens the fix deletes or overwrites are layout
    tokens (comment_100 / whitespace_002: that the token whose value is edited is a comment) -/
theorem bfix_ws_codeSeq_partial (owner : String) (params action : Base.KV) (old new : List Tok)
    (ho : owner ∈ Base.wsOwners) (h : Base.fixByOwner owner params action old = some (.ok new))
    (hg : Base.wsGuard (fun k => k.isLayout) owner params action old = true) : codeSeq fold old = codeSeq fold new := by
  rw [Base.fixByOwner_ws _ _ _ _ ho] at h
  exact Base.ws_codeSeq fold owner params action old new ho h hg

/-- whitespace_between_tokens with `number_of_spaces ≠ 0` (the default of all 171 rules is 1 or ">=1"):
    no guard at all -/
theorem bfix_wsBetween_codeSeq (params action : Base.KV) (old new : List Tok) (nos : Base.NoS)
    (hn : Base.nosOf (params.get "number_of_spaces") = .ok nos) (hn0 : nos ≠ .int 0)
    (h : Base.fixByOwner Base.wsBetweenOwner params action old = some (.ok new)) : codeSeq fold old = codeSeq fold new := by
  apply bfix_ws_codeSeq_partial fold _ params action old new (by decide +kernel) h
  have hne : (nos == Base.NoS.int 0) = false := by simpa using hn0
  simp [Base.wsGuard, hn, Base.WsBetween.guard, Base.WsBetween.touched, hne]

/-- the guard of comment_100 is needed: on a CODE token the inserted blank changes the code sequence -/
theorem bfix_comment100_code_witness :
    ∃ old new, Base.fixByOwner Base.comment100Owner [] [("index", .int 2)] old = some (.ok new) ∧
      codeSeq id old ≠ codeSeq id new :=
  ⟨[⟨9, .code, "abcd".toList⟩], [⟨9, .code, "ab cd".toList⟩], by decide +kernel, by decide +kernel⟩

/-! END ag_bws -/

/-! ### BEGIN ag_bind (indent / vertical spacing / post-phase-1) -/

/-! ### layer B: indent and vertical-spacing families, post-phase-1 normalisation — code kept -/

/-- every indent rule keeps the code sequence, for every action / style / size / indent level, on
    tokens of interest of the extractor's shape (`ToiOk`) -/
theorem bfix_indent_codeSeq_partial (owner : String) (params action : Base.KV) (old new : List Tok)
    (ho : owner ∈ Base.indentOwners) (h : Base.fixByOwner owner params action old = some (.ok new))
    (hok : Base.Indent.ToiOk (Base.strAction action) old) : codeSeq fold old = codeSeq fold new := by
  obtain ⟨style, size, h'⟩ := Base.Bind.indent_fixV_of_owner owner params action old new ho h
  exact (Base.Indent.fixV_layoutOnly _ _ _ _ _ _ _ h' hok).codeSeq fold

/-- every vertical-spacing rule: inserting a blank line keeps the code sequence on EVERY token list;
    removing keeps it when the region holds no code (`nonLayout old = []`, the extractors' contract) -/
theorem bfix_blankline_codeSeq_partial (owner : String) (params action : Base.KV) (old new : List Tok)
    (ho : owner ∈ Base.blankLineOwners) (h : Base.fixByOwner owner params action old = some (.ok new))
    (hreg : new.length < old.length → nonLayout old = []) : codeSeq fold old = codeSeq fold new := by
  suffices hl : LayoutOnly old new from hl.codeSeq fold
  rcases Base.Bind.blankline_shape owner params action old new ho h with ⟨_, hr⟩ | hr | hr | ⟨pre, suf, c⟩
  · rw [hr]; exact Base.BlankLine.layoutOnly_insert_front _ _ old
  · rw [hr]; exact Base.BlankLine.layoutOnly_insert_back _ _ old
  · rw [hr]; rfl
  · rw [c.layoutOnly_iff]
    unfold Base.BlankLine.Cut at c
    by_cases hlen : new.length < old.length
    · have hz := hreg hlen
      rw [c, nonLayout_append, nonLayout_append] at hz
      simp only [List.append_eq_nil_iff] at hz
      exact ⟨hz.1.1, hz.2⟩
    · have hl := congrArg List.length c
      simp only [List.length_append] at hl
      have h1 : pre = [] := List.eq_nil_of_length_eq_zero (by omega)
      have h2 : suf = [] := List.eq_nil_of_length_eq_zero (by omega)
      rw [h1, h2]; exact ⟨rfl, rfl⟩

/-- whitespace_200 DELETES CODE on a concrete region (genuine defect, replayed on the real class) -/
theorem bfix_ws200_codeSeq_false :
    ∃ params action old new, Base.fixByOwner "vsg.rules.whitespace.rule_200.rule_200" params action old = some (.ok new) ∧
      codeSeq id old = ["others".toList, ";".toList] ∧ codeSeq id new = [";".toList] :=
  ⟨[], [("remove", .int 1)],
   [⟨Gen.blankCls, .blank, []⟩, ⟨9, .code, "others".toList⟩, ⟨9, .code, ";".toList⟩, ⟨Gen.crCls, .cr, ['\n']⟩,
    ⟨Gen.blankCls, .blank, []⟩, ⟨Gen.crCls, .cr, ['\n']⟩],
   [⟨9, .code, ";".toList⟩, ⟨Gen.crCls, .cr, ['\n']⟩, ⟨Gen.blankCls, .blank, []⟩, ⟨Gen.crCls, .cr, ['\n']⟩],
   by decide +kernel, by decide +kernel, by decide +kernel⟩

/-- the post-phase-1 normalisation keeps the code sequence of every token list -/
theorem postPhase1_codeSeq (blCls : Nat) (l : List Tok) :
    codeSeq fold (Post.postPhase1 blCls l) = codeSeq fold l := by
  have hl : LayoutOnly l (Post.postPhase1 blCls l) := by
    unfold LayoutOnly Post.postPhase1
    rw [Post.fixTrailingWhitespace_eq, Post.fixBlankLines_eq, Post.ftwGo_nonLayout, Post.fblGo_nonLayout]
  exact (hl.codeSeq fold).symm

/-! ### END ag_bind -/

/-! ### layer B: the phase-1 line-structure base classes (≈110 rules)

`Base.fixByOwner` is the Lean transcription of the `_fix_violation` of the owner; action, rule
parameters and token list are universally quantified. -/

section LineStruct
open Vsgm.Base.LineStruct
open Vsgm.Base (KV pyIdx)

/-- **line-break inserting / removing base classes** (insert_carriage_return_after_token…,
    split_line_at_token…, remove_carriage_return_after_token, remove_carriage_returns_between_token_pairs;
    54 rules): whatever the action and the region, no code token is lost, duplicated or reordered -/
theorem bfix_lineBreak_codeSeq (owner : String) (params action : KV) (old new : List Tok)
    (ho : owner ∈ breakOwners ++ removeCrOwners) (h : Base.fixByOwner owner params action old = some (.ok new)) :
    codeSeq fold new = codeSeq fold old := by
  rw [fixByOwner_lineStruct owner params action old (layoutOwners_sub_all ho)] at h
  exact ((dispatch_layout _ owner params action old new ho h).1.codeSeq fold).symm

/-- **single-token moves** (move_token_next_to_another_token, …_if_it_exists_between_tokens,
    move_token_left_…, move_token_right_…, move_token_to_the_right_of_several_possible_tokens…;
    53 rules) — THE EXACT CONDITION: the fix pops the token `x` at index `k` and re-inserts it at
    position `p`; the code sequence is unchanged iff what `x` contributes commutes with what the
    tokens it jumps over (`crossed old k p`) contribute -/
theorem bfix_move_codeSeq_iff (owner : String) (params action : KV) (old new : List Tok)
    (ho : owner ∈ singleMoveOwners) (h : Base.fixByOwner owner params action old = some (.ok new)) :
    ∃ ki ii k x, moveIdx owner action = some (ki, ii) ∧ pyIdx old.length ki = some k ∧ old[k]? = some x ∧
      (codeSeq fold new = codeSeq fold old ↔
        codeOf fold x ++ codeSeq fold (crossed old k (insPos (old.length - 1) ii)) =
          codeSeq fold (crossed old k (insPos (old.length - 1) ii)) ++ codeOf fold x) := by
  rw [fixByOwner_lineStruct owner params action old (singleMove_sub_all ho)] at h
  obtain ⟨ki, ii, w, k, x, hidx, fo, _⟩ := dispatch_move _ owner params action old new ho h
  exact ⟨ki, ii, k, x, hidx, fo.idx, fo.get, fo.codeSeq_iff fold⟩

/-- … in particular the code sequence is kept whenever the moved token jumps over no code token
    (the hypothesis is exactly the excluded case of `move_codeSeq_false`) -/
theorem bfix_move_codeSeq_partial (owner : String) (params action : KV) (old new : List Tok)
    (ho : owner ∈ singleMoveOwners) (h : Base.fixByOwner owner params action old = some (.ok new))
    (hcross : ∀ ki ii k, moveIdx owner action = some (ki, ii) → pyIdx old.length ki = some k →
      ∀ t ∈ crossed old k (insPos (old.length - 1) ii), t.isCode = false) :
    codeSeq fold new = codeSeq fold old := by
  obtain ⟨ki, ii, k, x, hidx, hk, _, hiff⟩ := bfix_move_codeSeq_iff fold owner params action old new ho h
  rw [hiff, codeSeq_eq_nil_of_noCode fold _ (hcross ki ii k hidx hk)]
  simp

/-- the full-strength statement is FALSE for an action that makes the token jump over code:
    `[a, b, c]` with token value 2 becomes `[a, ␣, c, b]` -/
theorem move_codeSeq_false :
    ∃ old new, fixMoveNext Base.lineCls 2 old = .ok new ∧ codeSeq id new ≠ codeSeq id old :=
  ⟨[⟨9, .code, ['a']⟩, ⟨9, .code, ['b']⟩, ⟨9, .code, ['c']⟩], _, rfl, by decide⟩

/-- **move_token** (5 rules; three fixes selected by `action` / `preserve_comment`): splitting the
    line and pulling the trailing comment in front of the new line break never touch code; the
    `move_left` mode moves the last token of the region to index 1 -/
theorem bfix_moveToken_codeSeq_partial (owner : String) (params action : KV) (old new : List Tok)
    (ho : owner ∈ moveTokenOwners) (h : Base.fixByOwner owner params action old = some (.ok new))
    (hcross : ∀ k, pyIdx old.length (-1) = some k → ∀ t ∈ crossed old k (insPos (old.length - 1) 1), t.isCode = false) :
    codeSeq fold new = codeSeq fold old := by
  rw [fixByOwner_lineStruct owner params action old (moveToken_sub_all ho)] at h
  obtain ⟨a, pc, _, _, h1, h2, h3⟩ := dispatch_moveToken _ owner params action old new ho h
  cases hm : moveTokenMode a pc with
  | newLine => exact ((fixSplitLine_spec _ old new (h1 hm)).1.codeSeq fold).symm
  | newLinePreserve =>
    obtain ⟨i, _, hf⟩ := h2 hm
    exact fixNewLinePreserve_codeSeq fold _ i old new hf
  | moveLeft =>
    obtain ⟨b, hf⟩ := h3 hm
    obtain ⟨k, x, fo⟩ := fixMoveTokenLeft_spec _ b old new hf
    rw [fo.codeSeq_iff fold, codeSeq_eq_nil_of_noCode fold _ (hcross k fo.idx)]
    simp

/-- **block_001** (move_token_sequences_left_of_token) — THE EXACT CONDITION: the fix swaps the
    prefix `seqMoved` (the first `num_tokens` tokens after an optional leading whitespace) with
    `seqJumped` (everything up to the last token); the code sequence is unchanged iff the two
    contributions commute -/
theorem bfix_moveSeq_codeSeq_iff (owner : String) (params action : KV) (old new : List Tok)
    (ho : owner ∈ moveSeqOwners) (h : Base.fixByOwner owner params action old = some (.ok new)) :
    ∃ n, Base.LineStruct.needInt action "num_tokens" = .ok n ∧
      (codeSeq fold new = codeSeq fold old ↔
        codeSeq fold (seqJumped n old) ++ codeSeq fold (seqMoved n old) =
          codeSeq fold (seqMoved n old) ++ codeSeq fold (seqJumped n old)) := by
  rw [fixByOwner_lineStruct owner params action old (moveSeq_sub_all ho)] at h
  obtain ⟨n, hn, hf⟩ := dispatch_moveSeq _ owner params action old new ho h
  obtain ⟨last, h1, h2, _⟩ := fixMoveSeq_spec _ n old new hf
  refine ⟨n, hn, ?_⟩
  rw [(blind_codeSeq fold).layoutOnly h1, (blind_codeSeq fold).layoutOnly h2]
  exact swap_hom_iff (codeSeq fold) (codeSeq_append fold) _ _ _

/-- block_001 keeps the code sequence when nothing but layout and comments stands between the moved
    prefix and the `block` keyword (the hypothesis is exactly the excluded case of
    `moveSeq_codeSeq_false`) -/
theorem bfix_moveSeq_codeSeq_partial (owner : String) (params action : KV) (old new : List Tok)
    (ho : owner ∈ moveSeqOwners) (h : Base.fixByOwner owner params action old = some (.ok new))
    (hj : ∀ n, Base.LineStruct.needInt action "num_tokens" = .ok n → ∀ t ∈ seqJumped n old, t.isCode = false) :
    codeSeq fold new = codeSeq fold old := by
  obtain ⟨n, hn, hiff⟩ := bfix_moveSeq_codeSeq_iff fold owner params action old new ho h
  rw [hiff, codeSeq_eq_nil_of_noCode fold _ (hj n hn)]
  simp

/-- the known defect: label, colon and keyword on three lines, `num_tokens = 1` (what the analysis
    records): `block_label ⏎ : ⏎ block` becomes `⏎ : ⏎ block_label block` — code REORDERED -/
theorem moveSeq_codeSeq_false :
    ∃ old new, fixMoveSeq Base.lineCls 1 old = .ok new ∧ codeSeq id new ≠ codeSeq id old ∧
      codeSeq id old = ["lbl".toList, ":".toList, "block".toList] ∧
      codeSeq id new = [":".toList, "lbl".toList, "block".toList] :=
  ⟨[⟨9, .code, "lbl".toList⟩, ⟨2, .cr, ['\n']⟩, ⟨9, .code, ":".toList⟩, ⟨2, .cr, ['\n']⟩, ⟨9, .code, "block".toList⟩],
    _, rfl, by decide, by decide, by decide⟩

/-- remove_lines_starting_with_token_between_token_pairs (sequential_006, variable_assignment_006,
    phase 2): the fix deletes its whole region — it keeps the code sequence iff the region holds no code -/
theorem bfix_removeLines_codeSeq_iff (owner : String) (params action : KV) (old new : List Tok)
    (ho : owner ∈ removeLinesOwners) (h : Base.fixByOwner owner params action old = some (.ok new)) :
    new = [] ∧ (codeSeq fold new = codeSeq fold old ↔ codeSeq fold old = []) := by
  rw [fixByOwner_lineStruct owner params action old (removeLines_sub_all ho)] at h
  simp only [removeLinesOwners, List.mem_singleton] at ho
  subst ho
  simp [Base.LineStruct.fixByOwner, moveNextOwners, moveNextBetweenOwners, moveLeftOwners, moveRightOwners,
    moveTokenOwners, moveRightOfOwners, moveSeqOwners, insertCrAfterOwners, splitLineOwners, splitAtOwners,
    removeCrAfterOwners, removeCrPairsOwners, removeLinesOwners, fixRemoveLines] at h
  subst h
  exact ⟨rfl, ⟨fun h => h.symm, fun h => h.symm⟩⟩

/-- **table**: every rule served by a phase-1 model of this family is a phase-1 `structure` rule whose
    edit class in the certificate checker is `none` — the checker demands code-sequence equality for
    exactly these rules, and the theorems above prove that demand for all inputs and actions -/
theorem lineStruct_owners_are_phase1_structure_rules : ∀ r ∈ Gen.ruleTable, r.fixVOwner ∈ phase1Owners →
    Verdict.effectOfGroups r.groups = .any ∧ r.phase = 1 ∧ Verdict.editClassOfOwner r.fixVOwner = .none := by
  decide +kernel

/-- remove_lines… is the one base class of the family that serves phase-2 rules -/
theorem removeLines_owners_are_phase2_structure_rules : ∀ r ∈ Gen.ruleTable, r.fixVOwner ∈ removeLinesOwners →
    Verdict.effectOfGroups r.groups = .any ∧ r.phase = 2 ∧ Verdict.editClassOfOwner r.fixVOwner = .none := by
  decide +kernel

/-- how many rules the models serve (re-checked against the regenerated rule table) -/
theorem lineStruct_rule_count :
    (Gen.ruleTable.filter (fun r => decide (r.fixVOwner ∈ allOwners))).length = 114 := by decide +kernel

example : ∃ r ∈ Gen.ruleTable, r.fixVOwner ∈ phase1Owners := by decide +kernel

/-- non-vacuity of `bfix_move_codeSeq_partial`: `architecture ⏎ ␣ rtl`, token value 3 — the fix
    returns, the moved token jumps over layout only, the result is `architecture ␣ rtl ⏎ ␣` -/
example :
    let a : Tok := ⟨9, .code, "architecture".toList⟩
    let n : Tok := ⟨2, .cr, ['\n']⟩
    let w : Tok := ⟨1, .ws, [' ']⟩
    let x : Tok := ⟨9, .code, "rtl".toList⟩
    fixMoveNext Base.lineCls 3 [a, n, w, x] = .ok [a, mkWs Base.lineCls, x, n, w] ∧
    (∀ t ∈ crossed [a, n, w, x] 3 (insPos 3 1), t.isCode = false) := by
  intro a n w x; exact ⟨rfl, by decide⟩

/-- non-vacuity of `bfix_moveSeq_codeSeq_partial`: `lbl ␣ : ⏎ ␣ block` with `num_tokens = 3` (what the
    analysis records for this layout) — nothing but layout is jumped over -/
example :
    let l : Tok := ⟨9, .code, "lbl".toList⟩
    let c : Tok := ⟨9, .code, ":".toList⟩
    let b : Tok := ⟨9, .code, "block".toList⟩
    let n : Tok := ⟨2, .cr, ['\n']⟩
    let w : Tok := ⟨1, .ws, [' ']⟩
    fixMoveSeq Base.lineCls 3 [l, w, c, n, w, b] = .ok [n, w, l, w, c, mkWs Base.lineCls, b] ∧
    seqMoved 3 [l, w, c, n, w, b] = [l, w, c] ∧ seqJumped 3 [l, w, c, n, w, b] = [n, w] := by
  intro l c b n w; exact ⟨rfl, by decide, by decide⟩

end LineStruct

/-! ### BEGIN ag_bcase (case family, B-full) -/
/-! ### layer B, the case family: analysis + fix keep the code sequence -/

/-- `token_case` (243 rules): for every parameter setting and every region, the action the analysis
    produces makes a fix that keeps the folded code sequence (hypotheses as in C03.bfull_case_caseOnly:
    character tables; the analysed token is a code token and not an extended identifier) -/
theorem bfull_case_codeSeq {E : Base.Case.Env} {lc uc fc : Char → Char}
    (T : Base.Case.CharWise E fold lc uc fc) (owner : String) (ho : owner ∈ Base.caseTokenOwners)
    (params : Base.KV) (p : Base.Case.Params) (old new : List Tok) (a : Base.Case.Action)
    (hok : ∀ t, old[0]? = some t → Base.Case.TokOk p t)
    (ha : Base.Case.TokenCase.analyzeToi E p old = .ok (some a))
    (hf : Base.fixByOwner owner params (Base.caseActionKV a) old = some (.ok new)) :
    codeSeq fold new = codeSeq fold old := by
  rw [Base.fixByOwner_tokenCase owner ho] at hf
  simp only [Option.some.injEq] at hf
  exact ((Base.Case.TokenCase.analyze_fix_caseOnly T p old new a hok ha hf).codeSeq fold).symm

/-- formal parts of port / generic maps (2 rules), partial: no duplicate-by-case `case_exceptions` -/
theorem bfull_case_formal_codeSeq_partial {E : Base.Case.Env} {lc uc fc : Char → Char}
    (T : Base.Case.CharWise E fold lc uc fc) (owner : String) (ho : owner ∈ Base.caseFormalOwners)
    (params : Base.KV) (c : Base.Case.FormalPart.Classes) (p : Base.Case.Params) (old new : List Tok)
    (acts : List Base.Case.Action) (a : Base.Case.Action) (hnd : Base.Case.NoCaseDup E p.exceptions)
    (hok : ∀ t ∈ old, t.cls = c.formal → Base.Case.TokOk p t)
    (ha : Base.Case.FormalPart.analyzeToi E c p old = .ok acts) (hm : a ∈ acts)
    (hf : Base.fixByOwner owner params (Base.caseActionKV a) old = some (.ok new)) :
    codeSeq fold new = codeSeq fold old := by
  rw [Base.fixByOwner_formal owner ho] at hf
  simp only [Option.some.injEq] at hf
  exact ((Base.Case.FormalPart.analyze_fix_caseOnly_partial T c p old new acts a hnd hok ha hm hf).codeSeq fold).symm

/-! ### END ag_bcase -/

end Vsgm.C01
