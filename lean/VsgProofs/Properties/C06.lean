/-
  C06 — analysis is read-only, repeatable, and rules do not interfere.

  In `RuleRun.lean` an analysis is a function `List Tok → List Viol`, so C06 would hold by
  construction.  Here `check_rules` is modelled with analyses that may READ AND WRITE a state `σ`
  (`VsgModel/Engine/Frame.lean`), and each theorem carries the frame hypothesis explicitly
  (`Frame view rs`: a rule's report depends only on `view` of the state, and an analysis leaves
  `view` of the state as it was).  The theorems are reductions: the property holds for the real
  code iff the real `_get_tokens_of_interest` / `_analyze` satisfy `Frame`; that is what
  `harness/props_frame.py` tests on the real code (attribute snapshots around every `analyze`,
  repeated runs, disabled subsets, shuffled orders).  `Leak` shows that the hypothesis is not
  vacuous: with the indent-on-comment channel of the pinned tree the disable theorem is false.

  "apart from the documented dependence of a later sub-phase on an earlier sub-phase": in a
  check run nothing is fixed, so no rule "prepares code" for a later one; the clause concerns fix
  runs (`fixRun`, C09/C13).  Accordingly no theorem below moves a rule to another sub-phase:
  the orders quantified over are the permutations of the rule list, which `check_rules` turns
  into permutations INSIDE each (phase, sub-phase) group.
-/
import VsgProofs.Lemmas.Frame
import VsgProofs.Lemmas.BFull2Affix   -- wp2b_affix
namespace Vsgm.C06
open Vsgm Vsgm.Frame

/-- `V(x, c)`: the all-phases report, one entry per analysed rule, in analysis order -/
def V (skip : List Nat) (rs : List (SRule σ)) (x : σ) : List (String × List Viol) :=
  (Frame.checkRules true skip rs 0 x).log

/-- what `report_violations` prints: entries in rule-list order, stably sorted by line -/
def report (skip : List Nat) (rs : List (SRule σ)) (x : σ) : List (String × Viol) :=
  sortByLine (reportRaw rs (V skip rs x))

/-- **read-only**: a check run (gated or all-phases, any skipped phases) leaves the observed part
    of the file state — token list, every token attribute, the text — as it was. -/
theorem checkRules_readonly {view : σ → α} {rs : List (SRule σ)} (F : Frame view rs)
    (ap : Bool) (skip : List Nat) (lp : Nat) (x : σ) :
    view (Frame.checkRules ap skip rs lp x).st = view x :=
  view_checkLoop F ap skip phases _

/-- **repeatable**: `clear_violations(); check_rules()` run again on the state the first run left
    behind (with `lastPhaseRan` as the first run left it) reports the same: per-rule violations,
    `iNumberRulesRan`, `lastPhaseRan`, `self.violations`. -/
theorem checkRules_repeat {view : σ → α} {rs : List (SRule σ)} (F : Frame view rs)
    (ap : Bool) (skip : List Nat) (lp : Nat) (x : σ) :
    (Frame.checkRules ap skip rs (Frame.checkRules ap skip rs lp x).lastPhase (Frame.checkRules ap skip rs lp x).st).obs
      = (Frame.checkRules ap skip rs lp x).obs := by
  have hv := checkRules_readonly F ap skip lp x
  have hsim : Sim view
      ({ st := (Frame.checkRules ap skip rs lp x).st, log := [], ran := 0, failures := 0,
         lastPhase := (Frame.checkRules ap skip rs lp x).lastPhase, violations := false } : CState σ)
      ({ st := x, log := [], ran := 0, failures := 0, lastPhase := lp, violations := false } : CState σ) :=
    ⟨hv, rfl⟩
  obtain ⟨⟨_, hrep⟩, hlast⟩ := sim_checkLoop F ap skip phases hsim
  simp only [CState.rep, Prod.mk.injEq] at hrep
  obtain ⟨h1, h2, h3, h4⟩ := hrep
  have h5 : (Frame.checkRules ap skip rs (Frame.checkRules ap skip rs lp x).lastPhase (Frame.checkRules ap skip rs lp x).st).lastPhase
      = (Frame.checkRules ap skip rs lp x).lastPhase := by
    rcases hlast with h | ⟨h, _⟩
    · exact h
    · exact h
  simp only [CState.obs, Prod.mk.injEq]
  exact ⟨h1, h2, h3, h5, h4⟩

/-- **no interference (solo form)**: in an all-phases run every rule reports exactly what it
    reports when it is analysed alone on the input. -/
theorem checkRules_solo {view : σ → α} {rs : List (SRule σ)} (F : Frame view rs) (skip : List Nat) (x : σ) :
    V skip rs x = (checkOrder skip rs).map (entry x) :=
  (checkRules_log F skip 0 x).2

/-- **disable**: `V(x, c ∖ D) = V(x, c)` minus the entries of the rules in `D`, for every set
    `D` of rule identifiers, every input and every set of skipped phases. -/
theorem checkRules_disable {view : σ → α} {rs : List (SRule σ)} (F : Frame view rs)
    (D : List String) (skip : List Nat) (x : σ) :
    V skip (disable D rs) x = (V skip rs x).filter (fun e => !(D.contains e.1)) := by
  rw [checkRules_solo (disable_frame F D), checkRules_solo F, checkOrder_disable, List.filter_map]
  rfl

/-- the same for the printed report (rule-list order, sorted by line) -/
theorem report_disable {view : σ → α} {rs : List (SRule σ)} (F : Frame view rs)
    (D : List String) (skip : List Nat) (x : σ) :
    report skip (disable D rs) x = (report skip rs x).filter (fun e => !(D.contains e.1)) := by
  unfold report
  rw [checkRules_disable F, ← sortByLine_filter, ← reportRaw_filter rs _ (fun i => !(D.contains i))]
  congr 1
  unfold reportRaw disable
  rw [List.flatMap_map]
  congr 1; funext r
  by_cases h : r.cfg.id ∈ D <;> simp [h]

/-- **order**: for every other order of the rule list (hence every order inside each
    sub-phase) the per-rule results are the same — the report is a permutation, and a rule's
    entry does not depend on the order. -/
theorem checkRules_order {view : σ → α} {rs rs' : List (SRule σ)} (F : Frame view rs)
    (h : rs'.Perm rs) (skip : List Nat) (x : σ) :
    (V skip rs' x).Perm (V skip rs x) ∧ ∀ e, e ∈ V skip rs' x ↔ e ∈ V skip rs x := by
  have F' : Frame view rs' := F.mono fun r hr => h.mem_iff.1 hr
  have hp : (V skip rs' x).Perm (V skip rs x) := by
    rw [checkRules_solo F', checkRules_solo F]
    exact (checkOrder_perm h skip).map _
  exact ⟨hp, fun e => hp.mem_iff⟩

/-! ### the hypothesis is satisfiable -/

/-- pure analyses (the rule semantics of `RuleRun.lean`) satisfy the frame hypothesis with the
    whole token list observed -/
theorem frame_ofPure (rs : List Rule) : Frame (fun f : List Tok => f) (rs.map ofPure) := by
  constructor
  · intro r hr s t h
    obtain ⟨r0, _, rfl⟩ := List.mem_map.1 hr
    simp only [ofPure]; rw [h]
  · intro r hr s
    obtain ⟨r0, _, rfl⟩ := List.mem_map.1 hr
    rfl

example (rs : List Rule) (D : List String) (x : List Tok) :
    V [] (disable D (rs.map ofPure)) x = (V [] (rs.map ofPure) x).filter (fun e => !(D.contains e.1)) :=
  checkRules_disable (frame_ofPure rs) D [] x

/-- a rule that normalises one of its own option attributes the first time it analyses (the real
    alignment rules turn `"yes"`/`"no"` into booleans inside `_get_tokens_of_interest`): the
    state is (tokens, normalised?) and only the tokens are observed -/
def normalising (cfg : RuleCfg) (sem : List Tok → List Viol) : SRule (List Tok × Bool) :=
  { cfg := cfg, analyze := fun s => ((s.1, true), sem s.1) }

example (cfg : RuleCfg) (sem : List Tok → List Viol) : Frame (fun s : List Tok × Bool => s.1) [normalising cfg sem] := by
  constructor
  · intro r hr s t h
    rw [List.mem_singleton.1 hr]; simp only [normalising]; rw [h]
  · intro r hr s
    rw [List.mem_singleton.1 hr]; rfl

/-! ### … and not vacuous: the indent-on-comment channel -/

namespace Leak

/-- the token attributes that matter here: is the line a comment line, the column its text
    starts in, and the `indent` attribute `set_token_indent` gave it -/
structure LTok where
  comment : Bool
  col     : Nat
  indent  : Nat
  deriving DecidableEq, Repr

def mkViol (line : Nat) : Viol := { line := line, start := line, toks := [], act := 0 }

/-- `align_consecutive_lines_starting_with_a_comment_above_line_starting_with_token._analyze`
    (library_009, phase 4 sub-phase 2): the comment lines above the last line (the `use`) are
    compared with the indent of that line — and `_adjust_token_indent` WRITES that indent onto
    each of them -/
def alignRule : SRule (List LTok) :=
  { cfg := { id := "library_009", phase := 4, subphase := 2, disabled := false, fixable := true, sevError := true, prereq := false }
    analyze := fun s =>
      match s.getLast? with
      | none => (s, [])
      | some u =>
        (s.map fun t => if t.comment then { t with indent := u.indent } else t,
         (s.zipIdx.filter fun ti => ti.1.comment && ti.1.col != 2 * u.indent).map fun ti => mkViol (ti.2 + 1)) }

/-- `token_indent` (comment_010, phase 4 sub-phase 3): reads the `indent` attribute -/
def indentRule : SRule (List LTok) :=
  { cfg := { id := "comment_010", phase := 4, subphase := 3, disabled := false, fixable := true, sevError := true, prereq := false }
    analyze := fun s =>
      (s, (s.zipIdx.filter fun ti => ti.1.comment && ti.1.col != 2 * ti.1.indent).map fun ti => mkViol (ti.2 + 1)) }

def rules : List (SRule (List LTok)) := [indentRule, alignRule]

/-- `-- comment` in column 0 above `use work.p.all;` in column 0, with
    `token_if_no_matching_library_clause: current`: `set_token_indent` gives the comment indent 1
    (hard-wired `iIndent + 1` for a comment followed by `use` after a library clause) and the
    `use` indent 0 -/
def x : List LTok := [{ comment := true, col := 0, indent := 1 }, { comment := false, col := 0, indent := 0 }]

end Leak

/-- with both rules the report is empty … -/
theorem leak_both_clean : V [] Leak.rules Leak.x = [("library_009", []), ("comment_010", [])] := by decide

/-- … and disabling library_009 ADDS a comment_010 violation: the disable statement is false
    for this model -/
theorem leak_disable_fails :
    V [] (disable ["library_009"] Leak.rules) Leak.x ≠ (V [] Leak.rules Leak.x).filter (fun e => !(["library_009"].contains e.1)) := by
  decide

/-- it is exactly the frame hypothesis that fails (for every observation that sees `indent`) -/
theorem leak_not_frame : ¬ Frame (fun s : List Leak.LTok => s) Leak.rules := by
  intro F
  have := F.keeps Leak.alignRule (by simp [Leak.rules]) Leak.x
  revert this
  decide

/-- the check is still repeatable here (the write is idempotent), which is why only the
    disabled-subset runs of the harness can see this channel -/
theorem leak_repeat_ok :
    (Frame.checkRules true [] Leak.rules 4 (Frame.checkRules true [] Leak.rules 0 Leak.x).st).obs = (Frame.checkRules true [] Leak.rules 0 Leak.x).obs := by
  decide

/-! ### why "all-phases": a gated run is not closed under disabling -/

namespace Gated

def r1 : SRule Unit :=
  { cfg := { id := "a_001", phase := 1, subphase := 1, disabled := false, fixable := true, sevError := true, prereq := false }
    analyze := fun s => (s, [Leak.mkViol 1]) }
def r2 : SRule Unit :=
  { cfg := { id := "b_001", phase := 2, subphase := 1, disabled := false, fixable := true, sevError := true, prereq := false }
    analyze := fun s => (s, [Leak.mkViol 2]) }

end Gated

/-- pure rules, yet disabling the phase-1 rule lets phase 2 run: more than "exactly their
    violations" changes in a gated report -/
theorem gated_disable_fails :
    (Frame.checkRules false [] (disable ["a_001"] [Gated.r1, Gated.r2]) 0 ()).log ≠
      ((Frame.checkRules false [] [Gated.r1, Gated.r2] 0 ()).log).filter (fun e => !(["a_001"].contains e.1)) := by
  decide

/-! ### BEGIN wp2b_affix (token_prefix / token_suffix: a rule whose analysis is inside the model) -/

section wp2b_affix
open BFull2

/-- the analysis of a naming rule is a FUNCTION OF THE TOKEN LIST ALONE (index recomputed from it, `lower` of the
    values, the option list): put into any rule list, with any configurations, the frame hypothesis holds for it
    together with every other pure rule — so `checkRules_readonly`, `_repeat`, `_solo`, `_disable`, `_order` apply
    with no hypothesis left for these 52 rules.  (What the model does not see: `lower_value` is cached on the token
    object at creation and the rule object's `regexp_exceptions` list grows on every analysis — both outside the
    token list; the correspondence run checks that the real analysis leaves every token object and value as it was.) -/
theorem bfull2_affix_frame (rs : List Rule) (cfg : RuleCfg) (V : TM.View Tok) (lower : Str → Str) (exc : Str → Bool)
    (P : Affix.Params) :
    Frame (fun f : List Tok => f) (((cfg, Affix.sem V lower exc P) :: rs).map ofPure) :=
  frame_ofPure _

/-- disabling any set of other rules does not change what the naming rule reports -/
theorem bfull2_affix_disable (rs : List Rule) (cfg : RuleCfg) (V : TM.View Tok) (lower : Str → Str) (exc : Str → Bool)
    (P : Affix.Params) (D : List String) (x : List Tok) :
    C06.V [] (disable D (((cfg, Affix.sem V lower exc P) :: rs).map ofPure)) x =
      (C06.V [] (((cfg, Affix.sem V lower exc P) :: rs).map ofPure) x).filter (fun e => !(D.contains e.1)) :=
  checkRules_disable (bfull2_affix_frame rs cfg V lower exc P) D [] x

end wp2b_affix

/-! ### END wp2b_affix -/


end Vsgm.C06
