/-
  C16 — write-back is all-or-nothing and keeps the file's mode.
  ONLY property theorems and their non-vacuity examples live here.

  Model: VsgModel/Engine/WriteBack.lean (OS call by OS call transcription of
  `write_vhdl_file`, `create_backup_file` and the write decision of `apply_rules`).
  `run sch sc` executes scenario `sc` under fault schedule `sch : Nat → Outcome` (outcome of the
  k-th OS call: ok / PermissionError / other OSError / process dies before the call / process
  dies after a partial effect); `(run sch sc).st.hist` is the file system after every OS call
  made, i.e. the state found after a crash at any point.  All theorems quantify over ALL
  schedules (hence all crash points) and all contents / modes / stale `.tmp` and `.bak` files.
  Modelling assumption: `os.replace` is atomic (it is defined as one step).
-/
import VsgModel.Engine.WriteBack
import VsgProofs.Lemmas.WriteBack
namespace Vsgm.C16
open Vsgm Vsgm.WB

/-- all-or-nothing + mode kept: at the end and after every prefix of the execution, under any
    fault schedule, the target holds the complete original or the complete fixed content and
    has its original mode -/
theorem writeBack_safe (sch : Schedule) (sc : Scenario) :
    Safe sc (run sch sc).st.fs ∧ ∀ fs ∈ (run sch sc).st.hist, Safe sc fs := by
  have h := J_applyRules sch sc (St.init sc) (J_init sc)
  unfold run
  cases hr : applyRules sch sc (St.init sc) <;> simp only [hr, Post, Res.st] at h ⊢ <;> exact h

/-- if the process is not killed and `os.remove` itself is not made to fail, no temporary file
    is left behind (whatever exceptions were raised) -/
theorem tmp_cleaned (sch : Schedule) (sc : Scenario) (h0 : sc.tmp0 = none)
    (halive : (run sch sc).alive = true)
    (hrm : ∀ o, (Op.remove, o) ∈ (run sch sc).st.trace → o = .ok) :
    (run sch sc).st.fs.tmp = none := by
  have h := C_applyRules sch sc (St.init sc) h0
  unfold run at *
  cases hr : applyRules sch sc (St.init sc) <;> simp only [hr, Post, Res.st, Res.alive] at h halive hrm ⊢
  · exact h hrm
  · exact h hrm
  · cases halive

/-- the excluded case of `tmp_cleaned` is real: when `os.remove` raises (here PermissionError
    after `os.chmod` raised an OSError), the temporary file stays although the process lives -/
theorem tmp_left_when_remove_fails :
    ∃ (sch : Schedule) (sc : Scenario), sc.tmp0 = none ∧ (run sch sc).alive = true ∧
      (run sch sc).st.fs.tmp ≠ none := by
  refine ⟨scheduleOf [(5, .oserr), (6, .perm)],
    { orig := ⟨[1, 2], 420⟩, body := [3], nl := [10], tmp0 := none, bak0 := none, createMode := 420,
      parseOk := true, configOk := true, fix := true, backup := false, hadViolations := true,
      fixRaises := false, buffered := true }, ?_⟩
  decide

/-- `--backup`: once `copy2` (the first OS call of such a run) has succeeded, `<name>.bak` holds
    the original content and mode at the end and at every later point of the execution -/
theorem backup_faithful (sch : Schedule) (sc : Scenario) (hp : sc.parseOk = true) (hc : sc.configOk = true)
    (hf : sc.fix = true) (hb : sc.backup = true) (h0 : sch 0 = .ok) :
    (run sch sc).st.fs.bak = some sc.orig ∧ ∀ fs ∈ (run sch sc).st.hist, fs.bak = some sc.orig := by
  have hrest : Inv (B sc.orig) ((if sc.fixRaises then raise .rule else pure ()) >>= fun _ =>
      (if sc.hadViolations then writeVhdlFile sch sc else pure ())) :=
    Inv.bind (Inv.ite (Inv.raise _) (Inv.pure ())) fun _ => Inv.ite (B_writeVhdlFile _ sch sc) (Inv.pure ())
  have h1 : copy2Bak sch sc.createMode (St.init sc) =
      .ok () (St.log { St.init sc with fs := { sc.fs0 with bak := some sc.orig } } .copy2 .ok) := by
    simp [copy2Bak, oscall, St.init, h0, Scenario.fs0]
  have hB : B sc.orig (St.log { St.init sc with fs := { sc.fs0 with bak := some sc.orig } } .copy2 .ok) := by
    refine ⟨rfl, ?_⟩
    intro fs hfs
    simp [St.init] at hfs
    rw [hfs]
  have h := hrest _ hB
  have hrun : run sch sc = ((if sc.fixRaises then raise .rule else pure ()) >>= fun _ =>
      (if sc.hadViolations then writeVhdlFile sch sc else pure ()))
      (St.log { St.init sc with fs := { sc.fs0 with bak := some sc.orig } } .copy2 .ok) := by
    simp only [run, applyRules, hp, hc, hf, hb, Bool.not_true, Bool.false_eq_true, if_false, if_true]
    show M.bind _ _ _ = _
    unfold M.bind
    rw [h1]
  rw [hrun]
  cases hr : ((if sc.fixRaises then raise .rule else pure ()) >>= fun _ =>
      (if sc.hadViolations then writeVhdlFile sch sc else pure ()))
      (St.log { St.init sc with fs := { sc.fs0 with bak := some sc.orig } } .copy2 .ok) <;>
    simp only [hr, Post, Res.st] at h ⊢ <;> exact h

/-- error paths: a file that fails to parse or to configure, or a run without `--fix`, makes no
    OS call at all: the file system is untouched -/
theorem error_paths_no_ops (sch : Schedule) (sc : Scenario)
    (h : sc.parseOk = false ∨ sc.configOk = false ∨ sc.fix = false) :
    run sch sc = .ok () (St.init sc) ∧ (run sch sc).st.trace = [] ∧ (run sch sc).st.fs = sc.fs0 := by
  have : run sch sc = .ok () (St.init sc) := by
    unfold run applyRules
    rcases h with h | h | h
    · simp [h]; rfl
    · cases sc.parseOk <;> simp [h] <;> rfl
    · cases sc.parseOk <;> cases sc.configOk <;> simp [h] <;> rfl
  rw [this]
  exact ⟨rfl, rfl, rfl⟩

/-- `--fix` on a file without (fixable) violations: nothing but the optional backup copy is
    done; target and `<name>.tmp` are untouched (without `--backup`: no OS call at all) -/
theorem no_violations_no_write (sch : Schedule) (sc : Scenario) (hv : sc.hadViolations = false) :
    (∀ p ∈ (run sch sc).st.trace, p.1 = .copy2) ∧ (run sch sc).st.fs.target = sc.orig ∧
      (run sch sc).st.fs.tmp = sc.tmp0 ∧ (sc.backup = false → (run sch sc).st.trace = []) := by
  unfold run applyRules
  cases sc.parseOk <;> cases sc.configOk <;> cases sc.fix <;> cases hb : sc.backup <;> cases sc.fixRaises <;>
    simp [hv, Bind.bind, M.bind, Pure.pure, M.pure, raise, Res.st, St.init, Scenario.fs0, copy2Bak, oscall] <;>
    (cases sch 0 <;> simp [St.log])

/-- a rule raising during `oRules.fix`: the target and `<name>.tmp` are untouched -/
theorem rule_exception_no_write (sch : Schedule) (sc : Scenario) (hx : sc.fixRaises = true) :
    (run sch sc).st.fs.target = sc.orig ∧ (run sch sc).st.fs.tmp = sc.tmp0 := by
  unfold run applyRules
  cases sc.parseOk <;> cases sc.configOk <;> cases sc.fix <;> cases hb : sc.backup <;>
    simp [hx, Bind.bind, M.bind, Pure.pure, M.pure, raise, Res.st, St.init, Scenario.fs0, copy2Bak, oscall] <;>
    (cases sch 0 <;> simp [St.log])

/-- no faults: the run returns normally, the target ends with the complete fixed content and the
    original mode, the temporary file is gone, `--backup` left a copy of the original -/
theorem success_path (sc : Scenario) (hp : sc.parseOk = true) (hc : sc.configOk = true) (hf : sc.fix = true)
    (hx : sc.fixRaises = false) (hv : sc.hadViolations = true) :
    ∃ s, run (fun _ => .ok) sc = .ok () s ∧ s.fs.target = ⟨sc.fixed, sc.orig.mode⟩ ∧ s.fs.tmp = none ∧
      s.msg = false ∧ (sc.backup = true → s.fs.bak = some sc.orig) ∧ (sc.backup = false → s.fs.bak = sc.bak0) := by
  unfold run applyRules
  cases hb : sc.backup <;> cases hbu : sc.buffered <;>
    simp [hp, hc, hf, hx, hv, hbu, Bind.bind, M.bind, Pure.pure, M.pure, writeVhdlFile, tryBlock, writeBlock,
      finallyBlock, WB.tryFinally, WB.tryExcept, statTarget, openTmp, fileWrite, fileClose, chmodTmp, replaceTmp,
      removeTmp, copy2Bak, oscall, St.init, Scenario.fs0, St.log, St.setTmp, St.flush, St.appendTmp, St.push,
      Scenario.fixed]

/-- a normal return tells the truth: without the "Could not write fixes back" message the target
    holds the fixed content (original mode), with it the target is exactly the original file -/
theorem returned_tells (sch : Schedule) (sc : Scenario) (hp : sc.parseOk = true) (hc : sc.configOk = true)
    (hf : sc.fix = true) (hv : sc.hadViolations = true) (s : St) (hr : run sch sc = .ok () s) :
    (s.msg = false ∧ s.fs.target = ⟨sc.fixed, sc.orig.mode⟩) ∨ (s.msg = true ∧ s.fs.target = sc.orig) := by
  have hprog : Triple (O sc) (applyRules sch sc) (fun _ => W sc) tt2 tt1 := by
    unfold applyRules
    simp only [hp, hc, hf, hv, Bool.not_true, Bool.false_eq_true, if_false, if_true]
    refine Triple.bind (Q := fun _ => O sc) (Triple.ite (fun _ => ?_) fun _ => fun s hs => hs) fun _ => ?_
    · exact (O_copy2 sch sc _).weaken (fun _ h => h) (fun _ _ h => h) (fun _ _ _ => trivial) (fun _ _ => trivial)
    refine Triple.bind (Q := fun _ => O sc) (Triple.ite (fun _ => fun s _ => trivial) fun _ => fun s hs => hs) fun _ => ?_
    exact W_writeVhdlFile sch sc
  have h := hprog (St.init sc) ⟨rfl, rfl⟩
  unfold run at hr
  rw [hr] at h
  exact h

/-! ### non-vacuity and concrete schedules -/

def demo (backup buffered : Bool) : Scenario :=
  { orig := ⟨[97, 32, 32, 10], 0o600⟩, body := [97, 32], nl := [10], tmp0 := none, bak0 := none,
    createMode := 0o644, parseOk := true, configOk := true, fix := true, backup := backup,
    hadViolations := true, fixRaises := false, buffered := buffered }

/-- the fault-free run makes the nine OS calls in the order of the code -/
example : (run (fun _ => .ok) (demo true true)).st.trace.map (·.1) =
    [.copy2, .stat, .openTmp, .writeBody, .writeNl, .close, .chmod, .replace, .remove] := by decide

/-- chmod raising PermissionError: message, temporary file removed, target untouched -/
example : run (scheduleOf [(5, .perm)]) (demo false true) =
    .ok () { fs := ⟨⟨[97, 32, 32, 10], 0o600⟩, none, none⟩, buf := [], msg := true,
             trace := [(.stat, .ok), (.openTmp, .ok), (.writeBody, .ok), (.writeNl, .ok), (.close, .ok), (.chmod, .perm), (.remove, .ok)],
             hist := (run (scheduleOf [(5, .perm)]) (demo false true)).st.hist } := by decide

/-- disk full at the second write: OSError propagates after close and remove; target untouched -/
example : (run (scheduleOf [(3, .oserr)]) (demo false false)).st.trace.map (·.1) =
      [.stat, .openTmp, .writeBody, .writeNl, .close, .remove] ∧
    (run (scheduleOf [(3, .oserr)]) (demo false false)).st.fs = ⟨⟨[97, 32, 32, 10], 0o600⟩, none, none⟩ ∧
    (run (scheduleOf [(3, .oserr)]) (demo false false)).alive = true := by decide

/-- killed in the middle of the first write: a partial temporary file (with the creation mode)
    is what remains; the target is the original -/
example : (run (scheduleOf [(2, .crashPartial)]) (demo false false)).st.fs =
    ⟨⟨[97, 32, 32, 10], 0o600⟩, some ⟨[97], 0o644⟩, none⟩ := by decide

/-- killed just before `os.replace`: complete temporary file with the original mode, target original -/
example : (run (scheduleOf [(6, .crash)]) (demo false true)).st.fs =
    ⟨⟨[97, 32, 32, 10], 0o600⟩, some ⟨[97, 32, 10], 0o600⟩, none⟩ := by decide

/-- killed just after `os.replace` (= before `os.remove`): target fixed with the original mode -/
example : (run (scheduleOf [(7, .crash)]) (demo false true)).st.fs =
    ⟨⟨[97, 32, 10], 0o600⟩, none, none⟩ := by decide

end Vsgm.C16
