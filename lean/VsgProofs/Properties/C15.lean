/-
  C15 — a file's result does not depend on jobs, order, neighbours or input channel.

  `main` (vsg/__main__.py:127-162) is modelled in `VsgModel/Engine/Frame.lean`: the serial
  loop (`runSerial`), and the pool (`runPool`): an execution is ANY list of events
  `(worker, task index)` — this covers every assignment of files to workers and every
  interleaving — each worker threads its own copy of the process state through the tasks it
  takes, and `imap` hands the results back in task order.  `apply : G → File → G × FileResult`
  is `apply_rules` together with everything it reads and writes in the process (`config.dPragmas`,
  `vhdlFile.default_conf`, class attributes of rule and token classes, module-level lists of
  `vsg.rules.*`, option objects).  In a model where `apply_rules` is a function of the file alone
  C15 holds by construction; here that is the explicit frame hypothesis `GFrame view apply`
  (results depend only on `view` of the process state; `apply_rules` leaves `view` as it was),
  which `harness/props_frame.py` tests on the real code (deep comparison of the module-level
  state around every `apply_rules` call; batch-vs-solo comparison with solo results from fresh
  interpreters; CLI `-p 1/2/8`, permutations, `--stdin`).  `leak_*` shows that the hypothesis
  is not vacuous.

  What the code does about "goes on to the remaining files": `apply_rules` returns
  `bKeepProcessingFiles` (= False) after a file that failed to parse (ClassifyError) and after a
  normal analysis, and `bStopProcessingFiles` (= True) after a ConfigurationError raised while
  configuring that file's rule list, or an OSError while loading `--local_rules`.  `main` binds
  the value to a local that is also called `bKeepProcessingFiles` and breaks when it is TRUE: the
  name is inverted, the behaviour is not — the loop stops exactly when `apply_rules` said stop.
  So: a parse failure never hides the files after it (`sched_indep` with `stop = false`); a
  per-file configuration error (e.g. a `file_list` entry naming an unknown rule) ends the run:
  the files after it get NO report, JSON entry or JUnit testcase, in both branches
  (`stop_truncates`), and the exit status is the OR over the results that were kept.  With
  `-p > 1` the workers may already have processed (with `--fix`: rewritten) later files whose
  results are then dropped — that side effect is outside this model and is examined by the
  harness.
-/
import VsgProofs.Lemmas.Frame
namespace Vsgm.C15
open Vsgm Vsgm.Frame

/-- the result of a file processed alone in a fresh interpreter (`g0` = the state after
    `config.New`) -/
def solo (apply : γ → φ → γ × FileResult ρ) (g0 : γ) (f : φ) : FileResult ρ := (apply g0 f).2

/-- every task is taken by some worker -/
def Complete (n : Nat) (evs : List (Nat × Nat)) : Prop := ∀ i, i < n → i ∈ evs.map (·.2)

/-- **scheduler independence**: under the frame hypothesis, for every list of files, every
    assignment of tasks to workers and every interleaving (`evs`, complete; a task may even be
    run twice), the results `main` collects are, in command-line order, the solo results (cut
    after the first result that says stop), in the pool branch and in the serial branch alike,
    and the exit status is the OR of the kept statuses. -/
theorem sched_indep {view : γ → α} {apply : γ → φ → γ × FileResult ρ} (F : GFrame view apply)
    (g0 : γ) (fs : List φ) (evs : List (Nat × Nat)) (hc : Complete fs.length evs) :
    runPool apply fs g0 evs = untilStop (fs.map (solo apply g0)) ∧
    runSerial apply g0 fs = untilStop (fs.map (solo apply g0)) ∧
    exitOf (runPool apply fs g0 evs) = exitOf (runSerial apply g0 fs) := by
  have hpool : runPool apply fs g0 evs = untilStop (fs.map (solo apply g0)) := by
    unfold runPool poolExec
    obtain ⟨_, hlog⟩ := poolExec_inv F fs g0 evs (fun _ => g0, []) (fun _ => rfl)
    rw [hlog]
    apply imapConsume_eq _ fs (solo apply g0) 0 _ fs (by simp) (by simp)
    intro i f hf
    have hi : i < fs.length := by
      rcases Nat.lt_or_ge i fs.length with h | h
      · exact h
      · rw [List.getElem?_eq_none h] at hf; cases hf
    simpa [solo] using lookup_filterMap_solo fs (solo apply g0) evs i f hf (hc i hi)
  have hser : runSerial apply g0 fs = untilStop (fs.map (solo apply g0)) := runSerial_eq F g0 fs g0 rfl
  exact ⟨hpool, hser, by rw [hpool, hser]⟩

/-- when no file raises a configuration error (parse failures allowed): every file gets exactly
    its solo result, in command-line order, and exit = OR of the solo statuses — for every job
    count and schedule -/
theorem sched_indep_all {view : γ → α} {apply : γ → φ → γ × FileResult ρ} (F : GFrame view apply)
    (g0 : γ) (fs : List φ) (evs : List (Nat × Nat)) (hc : Complete fs.length evs)
    (hns : ∀ f ∈ fs, (solo apply g0 f).stop = false) :
    runPool apply fs g0 evs = fs.map (solo apply g0) ∧
    runSerial apply g0 fs = fs.map (solo apply g0) ∧
    exitOf (runPool apply fs g0 evs) = fs.any (fun f => (solo apply g0 f).status) := by
  obtain ⟨h1, h2, _⟩ := sched_indep F g0 fs evs hc
  have hu : untilStop (fs.map (solo apply g0)) = fs.map (solo apply g0) := by
    apply untilStop_noStop
    intro r hr
    obtain ⟨f, hf, rfl⟩ := List.mem_map.1 hr
    exact hns f hf
  rw [hu] at h1 h2
  refine ⟨h1, h2, ?_⟩
  rw [h1]; simp [exitOf, List.any_map, Function.comp_def]

/-- **order and neighbours**: the result reported for a file is its solo result wherever it
    stands and whatever stands around it: for any other list `fs'` (a permutation, a sub-batch,
    the file alone) the entry at a position holding the same file is the same -/
theorem sched_position {view : γ → α} {apply : γ → φ → γ × FileResult ρ} (F : GFrame view apply)
    (g0 : γ) (fs fs' : List φ) (evs evs' : List (Nat × Nat))
    (hc : Complete fs.length evs) (hc' : Complete fs'.length evs')
    (hns : ∀ f ∈ fs, (solo apply g0 f).stop = false) (hns' : ∀ f ∈ fs', (solo apply g0 f).stop = false)
    (i j : Nat) (f : φ) (hi : fs[i]? = some f) (hj : fs'[j]? = some f) :
    (runPool apply fs g0 evs)[i]? = (runSerial apply g0 fs')[j]? := by
  rw [(sched_indep_all F g0 fs evs hc hns).1, (sched_indep_all F g0 fs' evs' hc' hns').2.1]
  simp [List.getElem?_map, hi, hj]

/-- **a configuration error ends the run**: the files after the first result that says stop get
    no result at all (in both branches, by `sched_indep`) -/
theorem stop_truncates (pre post : List (FileResult ρ)) (r : FileResult ρ)
    (hpre : ∀ x ∈ pre, x.stop = false) (hr : r.stop = true) :
    untilStop (pre ++ r :: post) = pre ++ [r] := by
  induction pre with
  | nil => simp [untilStop, hr]
  | cons a pre ih =>
    simp only [List.cons_append, untilStop, hpre a (List.mem_cons_self ..), Bool.false_eq_true, if_false]
    rw [ih fun x hx => hpre x (List.mem_cons_of_mem _ hx)]

/-! ### the return sites of `apply_rules` (vsg/apply_rules.py:74-139) -/

inductive Outcome where
  | classifyError            -- `except ClassifyError`
  | localRulesOSError        -- `except OSError` around `rule_list.rule_list(..., local_rules)`
  | configurationError       -- `except ConfigurationError` around `configure_rules`
  | analysed (violations : Bool)
  deriving DecidableEq, Repr

/-- (fExitStatus, sixth component) as written at each return -/
def returned : Outcome → Bool × Bool
  | .classifyError      => (true, false)   -- `True, …, bKeepProcessingFiles`
  | .localRulesOSError  => (true, true)    -- `1, None, …, bStopProcessingFiles`
  | .configurationError => (true, true)    -- `True, None, …, bStopProcessingFiles`
  | .analysed v         => (v, false)      -- `oRules.violations, …, bKeepProcessingFiles`

/-- `main` breaks iff the sixth component is true: exactly after a configuration error or a
    local-rules error; never after a parse failure -/
theorem stops_iff (o : Outcome) : (returned o).2 = true ↔ o = .configurationError ∨ o = .localRulesOSError := by
  cases o <;> simp [returned]

/-! ### the hypothesis is satisfiable … -/

/-- `apply_rules` as a function of the file alone satisfies the frame hypothesis with the whole
    state observed -/
theorem gframe_pure (res : φ → FileResult ρ) : GFrame (fun g : γ => g) (fun g f => (g, res f)) :=
  ⟨fun _ _ _ _ => rfl, fun _ _ => rfl⟩

example (res : Nat → FileResult Nat) (fs : List Nat) :
    runSerial (fun (g : Unit) f => (g, res f)) () fs = untilStop (fs.map res) :=
  (sched_indep (gframe_pure res) () fs ((List.range fs.length).map fun i => (0, i))
    (by intro i hi; simpa using hi)).2.1

/-! ### … and not vacuous: a leak through module state -/

/-- `apply_rules` that appends to a module-level list (`g` = its length) and whose report
    depends on it -/
def leaky (g : Nat) (f : Nat) : Nat × FileResult Nat := (g + 1, { status := false, out := f + g, stop := false })

/-- serial run: the second file's result is not its solo result -/
theorem leak_serial : runSerial leaky 0 [10, 20] ≠ [10, 20].map (solo leaky 0) := by decide

/-- pool: one worker per file gives the solo results, both files on one worker does not — the
    output depends on the assignment of files to workers -/
theorem leak_pool :
    runPool leaky [10, 20] 0 [(0, 0), (1, 1)] = [10, 20].map (solo leaky 0) ∧
    runPool leaky [10, 20] 0 [(0, 0), (0, 1)] ≠ [10, 20].map (solo leaky 0) := by decide

theorem leak_not_gframe : ¬ GFrame (fun g : Nat => g) leaky := by
  intro F
  have := F.keeps 0 0
  revert this
  decide

end Vsgm.C15
