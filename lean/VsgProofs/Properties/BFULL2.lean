/-
  WP2 — property theorems of the vertical-spacing families (`blank_line_below_line_ending_with_token`,
  `blank_line_above_line_starting_with_token`, `previous_line`; models `VsgModel/BFull2/ExtractV.lean`, `VSpace.lean`).
  They live in this file of their own because their lemma file uses `Properties/C18.lean` (which `C07` feeds): appending
  them to C03 / C07 / C18 would close an import cycle.  Grouped by the property they belong to.
  The whole-rule theorems of the indent family are in C03 / C07 / C10 / C18 (sections `wp2_bfull2`).
-/
import VsgProofs.Lemmas.BFull2VSpace
import VsgProofs.Lemmas.BFull2Affix   -- wp2b_affix
namespace Vsgm.BFULL2
open Vsgm Vsgm.TM Vsgm.BFull2.VSpace Vsgm.Base.BlankLine

variable {α : Type}

/-! ### BEGIN wp2_bfull2 -/

/-! #### C18 — the regions of the added extractors are contiguous slices with the recorded start index (fresh index) -/

theorem lineSucceeding_sliceExact (uid : α → Option Key) (f : List α) (line n : Nat) (t : Toi α)
    (h : lineSucceeding f (processTokens uid f) line n = .ok (some t)) : t.Exact f ∧ t.line = line + 1 :=
  BFull2.VSpace.lineSucceeding_sliceExact uid f line n t h

theorem lineBelowLineEndingWith_sliceExact (uid : α → Option Key) (f : List α) (cs : List Cls) (r : List (Toi α))
    (h : lineBelowLineEndingWith f (processTokens uid f) cs = .ok r) : ∀ t ∈ r, t.Exact f :=
  BFull2.VSpace.lineBelowLineEndingWith_sliceExact uid f cs r h

theorem lineBelowLineEndingWithHier_sliceExact (uid : α → Option Key) (f : List α) (hier : Nat → Option Int)
    (cs : List Cls) (lims : List Int) (r : List (Option (Toi α)))
    (h : lineBelowLineEndingWithHier f (processTokens uid f) hier cs lims = .ok r) : ∀ t, some t ∈ r → t.Exact f :=
  BFull2.VSpace.lineBelowLineEndingWithHier_sliceExact uid f hier cs lims r h

theorem blankLinesBelowLineEndingWith_sliceExact (uid : α → Option Key) (f : List α) (hier : Nat → Option Int)
    (cs : List Cls) (lims : Option (List Int)) (r : List (Toi α))
    (h : blankLinesBelowLineEndingWith f (processTokens uid f) hier cs lims = .ok r) :
    ∀ t ∈ r, t.Exact f ∧ 0 < t.toks.length :=
  BFull2.VSpace.blankLinesBelowLineEndingWith_sliceExact uid f hier cs lims r h

theorem linePrecedingB_sliceExact (uid : α → Option Key) (f : List α) (line : Nat) (b : Bool) (t : Toi α)
    (h : linePrecedingB f (processTokens uid f) line b = .ok t) : t.Exact f :=
  BFull2.VSpace.linePrecedingB_sliceExact uid f line b t h

theorem lineAboveLineStartingWithB_sliceExact (uid : α → Option Key) (f : List α) (cs : List Cls) (b : Bool)
    (r : List (Toi α)) (h : lineAboveLineStartingWithB f (processTokens uid f) cs b = .ok r) : ∀ t ∈ r, t.Exact f :=
  BFull2.VSpace.lineAboveLineStartingWithB_sliceExact uid f cs b r h

theorem lineAboveLineStartingWithHier_sliceExact (uid : α → Option Key) (f : List α) (hier : Nat → Option Int)
    (cs : List Cls) (lims : List Int) (b : Bool) (r : List (Toi α))
    (h : lineAboveLineStartingWithHier f (processTokens uid f) hier cs lims b = .ok r) : ∀ t ∈ r, t.Exact f :=
  BFull2.VSpace.lineAboveLineStartingWithHier_sliceExact uid f hier cs lims b r h

theorem blankLinesAboveLineStartingWith_sliceExact (uid : α → Option Key) (f : List α) (cs : List Cls) (r : List (Toi α))
    (h : blankLinesAboveLineStartingWith f (processTokens uid f) cs = .ok r) : ∀ t ∈ r, t.Exact f :=
  BFull2.VSpace.blankLinesAboveLineStartingWith_sliceExact uid f cs r h

/-! #### C03 — the fix of one region is layout-only (Remove: exactly when the region holds layout tokens only) -/

theorem vspace_layoutOnly_insert (P : Params) (v : Viol) (ha : v.act = Act.insert.code) : LayoutOnly v.toks (fixTok P v) :=
  fixTok_layoutOnly_insert P v ha

theorem vspace_layoutOnly_skip (P : Params) (v : Viol) (ha : v.act = Act.skip.code) : LayoutOnly v.toks (fixTok P v) :=
  fixTok_layoutOnly_skip P v ha

theorem vspace_layoutOnly_remove_iff (P : Params) (v : Viol) (ha : v.act = Act.remove.code) :
    LayoutOnly v.toks (fixTok P v) ↔ nonLayout v.toks = [] :=
  fixTok_layoutOnly_remove P v ha

/-! #### C07 — line count: Insert adds exactly one line break, Remove takes the region's, Skip none -/

theorem vspace_crCount_insert (P : Params) (v : Viol) (ha : v.act = Act.insert.code)
    (hne : P.family = .below → v.toks ≠ []) : (crSeq (fixTok P v)).length = (crSeq v.toks).length + 1 :=
  fixTok_crCount_insert P v ha hne

theorem vspace_crCount_remove (P : Params) (v : Viol) (ha : v.act = Act.remove.code) : crSeq (fixTok P v) = [] := by
  rw [fixTok_remove P v ha]; rfl

theorem vspace_crCount_skip (P : Params) (v : Viol) (ha : v.act = Act.skip.code) :
    (crSeq (fixTok P v)).length = (crSeq v.toks).length :=
  fixTok_crCount_skip P v ha

/-! #### C10 — region-level idempotence: what the extractor reads again after the fix is judged clean -/

/-- family `below`, Insert: from the region's start the fixed file reads `blank_line, line break, old tokens` -/
theorem vspace_below_insert_reread (f : List Tok) (P : Params) (v : Viol) (hf : P.family = .below)
    (ha : v.act = Act.insert.code) (hne : v.toks ≠ []) (hs : v.start + v.toks.length ≤ f.length)
    (hx : v.toks = (f.drop v.start).take v.toks.length) :
    (f.take v.start ++ fixTok P v ++ f.drop (v.start + v.toks.length)).drop v.start =
      blankTok P.blCls :: crTok P.crCls :: f.drop v.start :=
  below_insert_reread f P v hf ha hne hs hx

/-- families `above` / `previous_line`, Insert: the old file up to the region's end, then `line break, blank_line` -/
theorem vspace_above_insert_reread (f : List Tok) (P : Params) (v : Viol) (hf : P.family ≠ .below)
    (ha : v.act = Act.insert.code) (hs : v.start + v.toks.length ≤ f.length)
    (hx : v.toks = (f.drop v.start).take v.toks.length) :
    f.take v.start ++ fixTok P v ++ f.drop (v.start + v.toks.length) =
      f.take (v.start + v.toks.length) ++ crTok P.crCls :: blankTok P.blCls :: f.drop (v.start + v.toks.length) :=
  above_insert_reread f P v hf ha hs hx

/-- a region that is the single `blank_line` token the fix created is judged clean under every style that can ask for
    an Insert, in all three families -/
theorem vspace_blank_clean (inst : Tok → Nat → Bool) (P : Params) (t : Toi Tok)
    (ht : t.toks = [blankTok P.blCls]) (hi : inst (blankTok P.blCls) P.blCls = true)
    (hs : P.style = sRequire ∨ P.style = sUnlessPragma ∨ P.style = sNoCode ∨ P.style = sAllowComment) :
    judge inst P (.one (some t)) = .ok none :=
  judge_blank_clean inst P t ht hi hs

/-- Remove leaves nothing of the region -/
theorem vspace_remove_nothing (P : Params) (v : Viol) (ha : v.act = Act.remove.code) : fixTok P v = [] :=
  fixTok_remove P v ha

/-- the real `_fix_violation` of the `below` family raises IndexError on an EMPTY region (two adjacent line breaks):
    `insert_token` reads `lTokens[0]` -/
theorem vspace_below_insert_empty_raises (P : Params) (v : Viol) (hf : P.family = .below) (ha : v.act = Act.insert.code)
    (he : v.toks = []) : fixE P v = .error .indexError :=
  fixE_below_insert_empty P v hf ha he

/-- non-vacuity: an Insert on a one-token region of family `above` -/
example :
    let P : Params := { family := .above, cs := [], allow := [], style := sRequire, hier := none, crCls := 5, blCls := 6, wsCls := 4, commentCls := 7, pragmaCls := 8 }
    let v : Viol := { line := 2, start := 0, toks := [⟨9, .code, "a".toList⟩], act := Act.insert.code }
    fixTok P v = [⟨9, .code, "a".toList⟩, crTok 5, blankTok 6] ∧ (crSeq (fixTok P v)).length = (crSeq v.toks).length + 1 := by
  decide +kernel

/-! ### END wp2_bfull2 -/

/-! ### BEGIN wp2b_affix -/

/-! #### token_prefix / token_suffix — what the whole rule reports (spec form) -/

section affix
open BFull2 BFull2.Affix

/-- **report = exactly the tokens of the listed classes whose lower-cased value has none of the lower-cased
    prefixes / suffixes (and is no exception)**, in file order, each as a one-token region with its own position and
    line — plain extractor, every token list with a line break, every option list, every `lower` and exception oracle,
    `lTokens` admitted by `CsOk` -/
theorem affix_analyze_spec (V : View Tok) (lower : Str → Str) (exc : Str → Bool) (P : Affix.Params) (A : List Str)
    (f : List Tok) (hv : P.variant = .plain) (ha : P.affixes = some A) (hcs : CsOk P.cs) (hcr : HasCr V.uid f) :
    (Affix.sem V lower exc P).analyze f = (List.range f.length).filterMap (reportAt V lower exc P A f) :=
  analyze_spec V lower exc P A f hv ha hcs hcr

/-- guard `HasCr` is needed: on a token list without any line break the extractor raises KeyError
    (`dMap["parser"]["carriage_return"]`) as soon as there is a candidate; the rule then reports nothing -/
theorem affix_noCr_witness :
    let V : View Tok := { uid := fun t => if t.cls = 3 then some ("signal_declaration", "identifier") else none, inst := fun _ _ => false,
                          isCr := fun _ => false, isBof := fun _ => false, len := fun _ => 0, bof := default }
    let P : Affix.Params := { kind := .pre, cs := [{ uid := some ("signal_declaration", "identifier"), idx := 3 }], affixes := some [] }
    analyzeE V id (fun _ => false) P [⟨3, .code, "x".toList⟩] = .error .keyError := by
  decide +kernel

/-- an EMPTY option list: every candidate that is no exception is reported -/
theorem affix_empty_list (lower : Str → Str) (k : Affix.Kind) (s : Str) : hasAffix lower k ([].map lower) s = false :=
  hasAffix_nil lower k s

/-- an EMPTY STRING among the options: nothing is reported (needs `lower "" = ""`) -/
theorem affix_empty_string (lower : Str → Str) (hl : lower [] = []) (k : Affix.Kind) (A : List Str) (h : [] ∈ A) (s : Str) :
    hasAffix lower k (A.map lower) s = true :=
  hasAffix_empty lower hl k A h s

/-- options are compared case-insensitively: option lists with the same lower-cased forms report the same tokens -/
theorem affix_case_insensitive (V : View Tok) (lower : Str → Str) (exc : Str → Bool) (P : Affix.Params) (A B : List Str)
    (h : A.map lower = B.map lower) (f : List Tok) (i : Nat) :
    reportAt V lower exc P A f i = reportAt V lower exc P B f i :=
  reportAt_lower_congr V lower exc P A B h f i

/-- the prefix test lower-cases the option twice; with an idempotent `lower` it is the plain prefix test -/
theorem affix_prefix_idem (lower : Str → Str) (hi : ∀ s, lower (lower s) = lower s) (A : List Str) (s : Str) :
    hasAffix lower .pre (A.map lower) s = A.any fun p => (lower p).isPrefixOf s :=
  hasAffix_pre_idem lower hi A s

/-- options left at `None`: TypeError whenever the extractor returns -/
theorem affix_none_raises (V : View Tok) (lower : Str → Str) (exc : Str → Bool) (P : Affix.Params) (f : List Tok)
    (ts : List (Toi Tok)) (ha : P.affixes = none) (ht : Affix.toisWith V P f (processTokens V.uid f) = .ok ts) :
    analyzeE V lower exc P f = .error .typeError :=
  analyze_none V lower exc P f ts ha ht

/-- non-vacuity: prefixes `[S_]` (upper case in the configuration): `X_a` is reported, `s_b` is not -/
example :
    let V : View Tok := { uid := fun t => if t.cls = 3 then some ("signal_declaration", "identifier") else if t.cls = 1 then some crKey else none,
                          inst := fun _ _ => false, isCr := fun _ => false, isBof := fun _ => false, len := fun _ => 0, bof := default }
    let P : Affix.Params := { kind := .pre, cs := [{ uid := some ("signal_declaration", "identifier"), idx := 3 }], affixes := some ["S_".toList] }
    let lo : Str → Str := fun s => s.map fun c => if c = 'S' then 's' else if c = 'X' then 'x' else c
    ((Affix.sem V lo (fun _ => false) P).analyze [⟨3, .code, "X_a".toList⟩, ⟨1, .cr, []⟩]).map (·.start) = [0] ∧
    (Affix.sem V lo (fun _ => false) P).analyze [⟨3, .code, "s_b".toList⟩, ⟨1, .cr, []⟩] = [] := by
  decide +kernel

end affix

/-! ### END wp2b_affix -/


end Vsgm.BFULL2
