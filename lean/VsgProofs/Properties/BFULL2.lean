/-
  WP2 — property theorems of the vertical-spacing families (`blank_line_below_line_ending_with_token`,
  `blank_line_above_line_starting_with_token`, `previous_line`; models `VsgModel/BFull2/ExtractV.lean`, `VSpace.lean`).
  They live in this file of their own because their lemma file uses `Properties/C18.lean` (which `C07` feeds): appending
  them to C03 / C07 / C18 would close an import cycle.  Grouped by the property they belong to.
  The whole-rule theorems of the indent family are in C03 / C07 / C10 / C18 (sections `wp2_bfull2`).
-/
import VsgProofs.Lemmas.BFull2VSpace
import VsgProofs.Lemmas.BFull2Affix   -- wp2b_affix
import VsgProofs.Lemmas.BFull2Below   -- wp2c_vspace
import VsgProofs.Lemmas.BFull2Above   -- wp2c_vspace
import VsgProofs.Lemmas.BFull2BelowNo   -- wp2d_vspace
import VsgProofs.Lemmas.BFull2AboveNo   -- wp2d_vspace
namespace Vsgm.BFULL2
open Vsgm Vsgm.TM Vsgm.BFull2.VSpace Vsgm.Base.BlankLine

variable {α : Type}

/-! ### BEGIN wp2_bfull2 -/

/-! #### C18 — the regions of the added extractors are contiguous slices with the recorded start index (fresh index) -/

theorem lineSucceeding_sliceExact (uid : α → Option Key) (f : List α) (line n : Nat) (t : Toi α)
    (h : lineSucceeding f (processTokens uid f) line n = .ok (some t)) : t.Exact f ∧ t.line = line + 1 :=
  BFull2.VSpace.lineSucceeding_sliceExact uid f line n t h

theorem lineBelowLineEndingWith_sliceExact (uid : α → Option Key) (f : List α) (cs : List Cls) (r : List (Toi α))
    (h : lineBelowLineEndingWith f (processTokens uid f) cs = .ok r) : ∀ t ∈ r, t.Exact f :=
  BFull2.VSpace.lineBelowLineEndingWith_sliceExact uid f cs r h

theorem lineBelowLineEndingWithHier_sliceExact (uid : α → Option Key) (f : List α) (hier : Nat → Option Int)
    (cs : List Cls) (lims : List Int) (r : List (Option (Toi α)))
    (h : lineBelowLineEndingWithHier f (processTokens uid f) hier cs lims = .ok r) : ∀ t, some t ∈ r → t.Exact f :=
  BFull2.VSpace.lineBelowLineEndingWithHier_sliceExact uid f hier cs lims r h

theorem blankLinesBelowLineEndingWith_sliceExact (uid : α → Option Key) (f : List α) (hier : Nat → Option Int)
    (cs : List Cls) (lims : Option (List Int)) (r : List (Toi α))
    (h : blankLinesBelowLineEndingWith f (processTokens uid f) hier cs lims = .ok r) :
    ∀ t ∈ r, t.Exact f ∧ 0 < t.toks.length :=
  BFull2.VSpace.blankLinesBelowLineEndingWith_sliceExact uid f hier cs lims r h

theorem linePrecedingB_sliceExact (uid : α → Option Key) (f : List α) (line : Nat) (b : Bool) (t : Toi α)
    (h : linePrecedingB f (processTokens uid f) line b = .ok t) : t.Exact f :=
  BFull2.VSpace.linePrecedingB_sliceExact uid f line b t h

theorem lineAboveLineStartingWithB_sliceExact (uid : α → Option Key) (f : List α) (cs : List Cls) (b : Bool)
    (r : List (Toi α)) (h : lineAboveLineStartingWithB f (processTokens uid f) cs b = .ok r) : ∀ t ∈ r, t.Exact f :=
  BFull2.VSpace.lineAboveLineStartingWithB_sliceExact uid f cs b r h

theorem lineAboveLineStartingWithHier_sliceExact (uid : α → Option Key) (f : List α) (hier : Nat → Option Int)
    (cs : List Cls) (lims : List Int) (b : Bool) (r : List (Toi α))
    (h : lineAboveLineStartingWithHier f (processTokens uid f) hier cs lims b = .ok r) : ∀ t ∈ r, t.Exact f :=
  BFull2.VSpace.lineAboveLineStartingWithHier_sliceExact uid f hier cs lims b r h

theorem blankLinesAboveLineStartingWith_sliceExact (uid : α → Option Key) (f : List α) (cs : List Cls) (r : List (Toi α))
    (h : blankLinesAboveLineStartingWith f (processTokens uid f) cs = .ok r) : ∀ t ∈ r, t.Exact f :=
  BFull2.VSpace.blankLinesAboveLineStartingWith_sliceExact uid f cs r h

/-! #### C03 — the fix of one region is layout-only (Remove: exactly when the region holds layout tokens only) -/

theorem vspace_layoutOnly_insert (P : Params) (v : Viol) (ha : v.act = Act.insert.code) : LayoutOnly v.toks (fixTok P v) :=
  fixTok_layoutOnly_insert P v ha

theorem vspace_layoutOnly_skip (P : Params) (v : Viol) (ha : v.act = Act.skip.code) : LayoutOnly v.toks (fixTok P v) :=
  fixTok_layoutOnly_skip P v ha

theorem vspace_layoutOnly_remove_iff (P : Params) (v : Viol) (ha : v.act = Act.remove.code) :
    LayoutOnly v.toks (fixTok P v) ↔ nonLayout v.toks = [] :=
  fixTok_layoutOnly_remove P v ha

/-! #### C07 — line count: Insert adds exactly one line break, Remove takes the region's, Skip none -/

theorem vspace_crCount_insert (P : Params) (v : Viol) (ha : v.act = Act.insert.code)
    (hne : P.family = .below → v.toks ≠ []) : (crSeq (fixTok P v)).length = (crSeq v.toks).length + 1 :=
  fixTok_crCount_insert P v ha hne

theorem vspace_crCount_remove (P : Params) (v : Viol) (ha : v.act = Act.remove.code) : crSeq (fixTok P v) = [] := by
  rw [fixTok_remove P v ha]; rfl

theorem vspace_crCount_skip (P : Params) (v : Viol) (ha : v.act = Act.skip.code) :
    (crSeq (fixTok P v)).length = (crSeq v.toks).length :=
  fixTok_crCount_skip P v ha

/-! #### C10 — region-level idempotence: what the extractor reads again after the fix is judged clean -/

/-- family `below`, Insert: from the region's start the fixed file reads `blank_line, line break, old tokens` -/
theorem vspace_below_insert_reread (f : List Tok) (P : Params) (v : Viol) (hf : P.family = .below)
    (ha : v.act = Act.insert.code) (hne : v.toks ≠ []) (hs : v.start + v.toks.length ≤ f.length)
    (hx : v.toks = (f.drop v.start).take v.toks.length) :
    (f.take v.start ++ fixTok P v ++ f.drop (v.start + v.toks.length)).drop v.start =
      blankTok P.blCls :: crTok P.crCls :: f.drop v.start :=
  below_insert_reread f P v hf ha hne hs hx

/-- families `above` / `previous_line`, Insert: the old file up to the region's end, then `line break, blank_line` -/
theorem vspace_above_insert_reread (f : List Tok) (P : Params) (v : Viol) (hf : P.family ≠ .below)
    (ha : v.act = Act.insert.code) (hs : v.start + v.toks.length ≤ f.length)
    (hx : v.toks = (f.drop v.start).take v.toks.length) :
    f.take v.start ++ fixTok P v ++ f.drop (v.start + v.toks.length) =
      f.take (v.start + v.toks.length) ++ crTok P.crCls :: blankTok P.blCls :: f.drop (v.start + v.toks.length) :=
  above_insert_reread f P v hf ha hs hx

/-- a region that is the single `blank_line` token the fix created is judged clean under every style that can ask for
    an Insert, in all three families -/
theorem vspace_blank_clean (inst : Tok → Nat → Bool) (P : Params) (t : Toi Tok)
    (ht : t.toks = [blankTok P.blCls]) (hi : inst (blankTok P.blCls) P.blCls = true)
    (hs : P.style = sRequire ∨ P.style = sUnlessPragma ∨ P.style = sNoCode ∨ P.style = sAllowComment) :
    judge inst P (.one (some t)) = .ok none :=
  judge_blank_clean inst P t ht hi hs

/-- Remove leaves nothing of the region -/
theorem vspace_remove_nothing (P : Params) (v : Viol) (ha : v.act = Act.remove.code) : fixTok P v = [] :=
  fixTok_remove P v ha

/-- the real `_fix_violation` of the `below` family raises IndexError on an EMPTY region (two adjacent line breaks):
    `insert_token` reads `lTokens[0]` -/
theorem vspace_below_insert_empty_raises (P : Params) (v : Viol) (hf : P.family = .below) (ha : v.act = Act.insert.code)
    (he : v.toks = []) : fixE P v = .error .indexError :=
  fixE_below_insert_empty P v hf ha he

/-- non-vacuity: an Insert on a one-token region of family `above` -/
example :
    let P : Params := { family := .above, cs := [], allow := [], style := sRequire, hier := none, crCls := 5, blCls := 6, wsCls := 4, commentCls := 7, pragmaCls := 8 }
    let v : Viol := { line := 2, start := 0, toks := [⟨9, .code, "a".toList⟩], act := Act.insert.code }
    fixTok P v = [⟨9, .code, "a".toList⟩, crTok 5, blankTok 6] ∧ (crSeq (fixTok P v)).length = (crSeq v.toks).length + 1 := by
  decide +kernel

/-! #### WP5b: previous_line, style require_comment, after the repo repair of `self.allow_comment` -/

/-- **`_analyze_require_comment` cannot raise on a pair of regions** (what `_get_tokens_of_interest` hands it under
    this style), for every class table, rule row and token content.  Before the repair the judgement of a second
    region `[whitespace, comment]` was `.error .attributeError` (`self.allow_comment` does not exist) -/
theorem vspace_requireComment_total (inst : Tok → Nat → Bool) (P : Params) (a b : Toi Tok) :
    ∃ o, judgeRequireComment inst P (.pair a b) = .ok o := by
  unfold judgeRequireComment
  simp only [pure, Except.pure]
  repeat (first | exact ⟨_, rfl⟩ | split)

/-- comments that reach the beginning of the file — the line directly above the token and the line the
    comment-skipping extractor hands out are both comment lines — are accepted: nothing is reported -/
theorem vspace_requireComment_top_of_file (inst : Tok → Nat → Bool) (P : Params) (a b : Toi Tok)
    (ha : commentStartsLine inst P a.toks = true) (hb : commentStartsLine inst P b.toks = true) :
    judgeRequireComment inst P (.pair a b) = .ok none := by
  unfold judgeRequireComment
  simp only [pure, Except.pure, ha, hb, Bool.not_true, Bool.false_eq_true, if_false, if_true]
  repeat (first | rfl | split)

/-- the region pair of the former finding `previous_line / AttributeError` (`␣␣-- comment` in the first line, the
    token in the second): both regions are `[whitespace, comment]`; and a code line above the comment block is
    still answered with Insert -/
example :
    let P : Params := { family := .previous, cs := [], allow := [], style := sRequireComment, solution := solAboveInsert,
                        crCls := 5, blCls := 6, wsCls := 4, commentCls := 7, pragmaCls := 8 }
    let w : Tok := ⟨4, .ws, "  ".toList⟩
    let k : Tok := ⟨7, .comment, "-- comment".toList⟩
    let x : Tok := ⟨9, .code, "x".toList⟩
    judge (fun t p => t.cls == p) P (.pair { start := some 0, line := 2, toks := [w, k] } { start := some 0, line := 2, toks := [w, k] })
      = .ok none ∧
    judge (fun t p => t.cls == p) P (.pair { start := some 2, line := 2, toks := [w, k] } { start := some 0, line := 1, toks := [x] })
      = .ok (some ({ line := 1, start := 0, toks := [x], act := Act.insert.code }, solAboveInsert)) := by
  decide +kernel


/-! ### END wp2_bfull2 -/

/-! ### BEGIN wp2b_affix -/

/-! #### token_prefix / token_suffix — what the whole rule reports (spec form) -/

section affix
open BFull2 BFull2.Affix

/-- **report = exactly the tokens of the listed classes whose lower-cased value has none of the lower-cased
    prefixes / suffixes (and is no exception)**, in file order, each as a one-token region with its own position and
    line — plain extractor, every token list with a line break, every option list, every `lower` and exception oracle,
    `lTokens` admitted by `CsOk` -/
theorem affix_analyze_spec (V : View Tok) (lower : Str → Str) (exc : Str → Bool) (P : Affix.Params) (A : List Str)
    (f : List Tok) (hv : P.variant = .plain) (ha : P.affixes = some A) (hcs : CsOk P.cs) (hcr : HasCr V.uid f) :
    (Affix.sem V lower exc P).analyze f = (List.range f.length).filterMap (reportAt V lower exc P A f) :=
  analyze_spec V lower exc P A f hv ha hcs hcr

/-- guard `HasCr` is needed: on a token list without any line break the extractor raises KeyError
    (`dMap["parser"]["carriage_return"]`) as soon as there is a candidate; the rule then reports nothing -/
theorem affix_noCr_witness :
    let V : View Tok := { uid := fun t => if t.cls = 3 then some ("signal_declaration", "identifier") else none, inst := fun _ _ => false,
                          isCr := fun _ => false, isBof := fun _ => false, len := fun _ => 0, bof := default }
    let P : Affix.Params := { kind := .pre, cs := [{ uid := some ("signal_declaration", "identifier"), idx := 3 }], affixes := some [] }
    analyzeE V id (fun _ => false) P [⟨3, .code, "x".toList⟩] = .error .keyError := by
  decide +kernel

/-- an EMPTY option list: every candidate that is no exception is reported -/
theorem affix_empty_list (lower : Str → Str) (k : Affix.Kind) (s : Str) : hasAffix lower k ([].map lower) s = false :=
  hasAffix_nil lower k s

/-- an EMPTY STRING among the options: nothing is reported (needs `lower "" = ""`) -/
theorem affix_empty_string (lower : Str → Str) (hl : lower [] = []) (k : Affix.Kind) (A : List Str) (h : [] ∈ A) (s : Str) :
    hasAffix lower k (A.map lower) s = true :=
  hasAffix_empty lower hl k A h s

/-- options are compared case-insensitively: option lists with the same lower-cased forms report the same tokens -/
theorem affix_case_insensitive (V : View Tok) (lower : Str → Str) (exc : Str → Bool) (P : Affix.Params) (A B : List Str)
    (h : A.map lower = B.map lower) (f : List Tok) (i : Nat) :
    reportAt V lower exc P A f i = reportAt V lower exc P B f i :=
  reportAt_lower_congr V lower exc P A B h f i

/-- the prefix test lower-cases the option twice; with an idempotent `lower` it is the plain prefix test -/
theorem affix_prefix_idem (lower : Str → Str) (hi : ∀ s, lower (lower s) = lower s) (A : List Str) (s : Str) :
    hasAffix lower .pre (A.map lower) s = A.any fun p => (lower p).isPrefixOf s :=
  hasAffix_pre_idem lower hi A s

/-- options left at `None`: TypeError whenever the extractor returns -/
theorem affix_none_raises (V : View Tok) (lower : Str → Str) (exc : Str → Bool) (P : Affix.Params) (f : List Tok)
    (ts : List (Toi Tok)) (ha : P.affixes = none) (ht : Affix.toisWith V P f (processTokens V.uid f) = .ok ts) :
    analyzeE V lower exc P f = .error .typeError :=
  analyze_none V lower exc P f ts ha ht

/-- non-vacuity: prefixes `[S_]` (upper case in the configuration): `X_a` is reported, `s_b` is not -/
example :
    let V : View Tok := { uid := fun t => if t.cls = 3 then some ("signal_declaration", "identifier") else if t.cls = 1 then some crKey else none,
                          inst := fun _ _ => false, isCr := fun _ => false, isBof := fun _ => false, len := fun _ => 0, bof := default }
    let P : Affix.Params := { kind := .pre, cs := [{ uid := some ("signal_declaration", "identifier"), idx := 3 }], affixes := some ["S_".toList] }
    let lo : Str → Str := fun s => s.map fun c => if c = 'S' then 's' else if c = 'X' then 'x' else c
    ((Affix.sem V lo (fun _ => false) P).analyze [⟨3, .code, "X_a".toList⟩, ⟨1, .cr, []⟩]).map (·.start) = [0] ∧
    (Affix.sem V lo (fun _ => false) P).analyze [⟨3, .code, "s_b".toList⟩, ⟨1, .cr, []⟩] = [] := by
  decide +kernel

end affix

/-! ### END wp2b_affix -/


/-! ### BEGIN wp2c_vspace -/

/-! #### blank_line_below_line_ending_with_token (style require_blank_line, no hierarchy limits) — the WHOLE rule on a file
    of rows (a row = content without line break + its line break; every token list that ends in a line break is one) -/

section below
open BFull2.Rows

/-- **the line-based bridge**: `lCarriageReturns[k]` of a file of rows is the position of the line break of row `k`
    (IndexError beyond the last row), and `get_line_number_of_index` of a position inside row `k` is `k + 1` -/
theorem rows_bridge (uid : Tok → Option Key) (rows : List (Row Tok)) (h : RowsOk uid rows) :
    (∀ k : Nat, pyIdx ((processTokens uid (join rows)).get (some crKey)) (k : Int) =
        match rows[k]? with
        | some r => .ok (offs rows k + r.1.length)
        | none => .error .indexError) ∧
    (∀ k j r, rows[k]? = some r → j ≤ r.1.length → TM.Lemmas.lineNo uid (join rows) (offs rows k + j) = k + 1) := by
  constructor
  · intro k
    rw [crs_join uid rows h, pyIdx_crPos]
    cases rows[k]? <;> simp
  · intro k j r hk hj
    exact lineNo_join uid rows h k j r hk hj

/-- get_line_succeeding_line as a row look-up -/
theorem rows_lineSucceeding (uid : Tok → Option Key) (rows : List (Row Tok)) (h : RowsOk uid rows) (k : Nat) (r : Row Tok)
    (hk : rows[k]? = some r) :
    lineSucceeding (join rows) (processTokens uid (join rows)) (k + 1) 1 =
      .ok (match rows[k + 1]? with
        | some r' => some { start := some ((offs rows (k + 1) : Nat) : Int), line := k + 2, toks := r'.1 }
        | none => none) := by
  rw [lineSucceeding_join uid rows h k r hk]
  cases rows[k + 1]? <;> rfl

/-- **the analysis is a scan over the rows** with one bit of state (the previous row ends with a listed token): one
    violation per such row whose successor exists and is neither a blank line nor allowed.  Guards: `CsOk` on `lTokens`,
    `NoDupRows` — no row with two end-of-line candidates (needs a comment class among `lTokens`; then the real rule
    DUPLICATES CODE, replayed on the real class) -/
theorem below_analyze_scan (uid : Tok → Option Key) (inst : Tok → Nat → Bool) (P : Params) (hP : BelowRequire P) (hO : HOracle)
    (rows : List (Row Tok)) (h : RowsOk uid rows) (hcs : BFull2.CsOk P.cs) (hnd : NoDupRows uid P.cs rows) :
    (sem uid inst P hO).analyze (join rows) = violsP uid inst P 0 0 false rows :=
  analyze_scan uid inst P hP hO rows h hcs hnd

/-- **the file after `Rule.fix`**: a row holding one blank-line token in front of every reported row (`RowsFine`: no
    pseudo tokens, no empty row — on an empty row the real `_fix_violation` raises IndexError, `vspace_below_insert_empty_raises`) -/
theorem below_fixAll (uid : Tok → Option Key) (inst : Tok → Nat → Bool) (P : Params) (hP : BelowRequire P) (hO : HOracle)
    (rows : List (Row Tok)) (h : RowsOk uid rows) (hcs : BFull2.CsOk P.cs) (hnd : NoDupRows uid P.cs rows) (hf : RowsFine rows) :
    fixAll uid inst P hO (join rows) = join (expand uid inst P false rows) :=
  fixAll_join uid inst P hP hO rows h hcs hnd hf

/-- **C10, whole rule**: after its own fix the rule reports nothing (`NewTokOk`: the created line break has the id of a
    line break, the created blank line is a `blank_line` instance that is no line break and not among `lTokens`) -/
theorem below_idem (uid : Tok → Option Key) (inst : Tok → Nat → Bool) (P : Params) (hP : BelowRequire P) (hO : HOracle)
    (rows : List (Row Tok)) (h : RowsOk uid rows) (hcs : BFull2.CsOk P.cs) (hnd : NoDupRows uid P.cs rows) (hf : RowsFine rows)
    (hn : NewTokOk uid inst P) :
    (sem uid inst P hO).analyze (fixAll uid inst P hO (join rows)) = [] :=
  analyze_fixAll_below uid inst P hP hO rows h hcs hnd hf hn

/-- **C03 / C07, whole rule**: the fix is layout-only and adds EXACTLY one line break per violation -/
theorem below_effect (uid : Tok → Option Key) (inst : Tok → Nat → Bool) (P : Params) (hP : BelowRequire P) (hO : HOracle)
    (rows : List (Row Tok)) (h : RowsOk uid rows) (hcs : BFull2.CsOk P.cs) (hnd : NoDupRows uid P.cs rows) (hf : RowsFine rows) :
    LayoutOnly (join rows) (fixAll uid inst P hO (join rows)) ∧
    (crSeq (fixAll uid inst P hO (join rows))).length =
      (crSeq (join rows)).length + ((sem uid inst P hO).analyze (join rows)).length :=
  fixAll_below_effect uid inst P hP hO rows h hcs hnd hf

/-- non-vacuity: `x ;⏎ y⏎` with `;` listed — one violation on line 1, a blank line is inserted, nothing left -/
example :
    let uid : Tok → Option Key := fun t =>
      if t.cls = 1 then some crKey else if t.cls = 7 then some ("x", "semicolon") else if t.cls = 6 then some blankKey else none
    let P : Params := { family := .below, cs := [⟨some ("x", "semicolon"), 7⟩], allow := [], style := sRequire, crCls := 1, blCls := 6,
                        wsCls := 2, commentCls := 13, pragmaCls := 99 }
    let inst : Tok → Nat → Bool := fun t c => t.cls == c
    let cr : Tok := ⟨1, .cr, ['\n']⟩
    let rows : List (Row Tok) := [([⟨9, .code, "x".toList⟩, ⟨7, .code, ";".toList⟩], cr), ([⟨9, .code, "y".toList⟩], cr)]
    ((sem uid inst P (fun _ => none)).analyze (join rows)).map (fun v => (v.line, v.start)) = [(1, 3)] ∧
    fixAll uid inst P (fun _ => none) (join rows) =
      [⟨9, .code, "x".toList⟩, ⟨7, .code, ";".toList⟩, cr, ⟨6, .blank, []⟩, cr, ⟨9, .code, "y".toList⟩, cr] ∧
    (sem uid inst P (fun _ => none)).analyze (fixAll uid inst P (fun _ => none) (join rows)) = [] := by
  decide +kernel

end below

/-! #### blank_line_above_line_starting_with_token (style require_blank_line) — the WHOLE rule on a file of rows.  No
    `NoDupRows` guard here: a row has at most one start-of-line candidate (its first token, or its second after a
    whitespace token), and no empty-row guard (`_fix_violation` appends) -/

section above
open BFull2.Rows

/-- get_line_preceding_line (one line, comments not skipped) as a row look-up -/
theorem rows_linePreceding (uid : Tok → Option Key) (rows : List (Row Tok)) (h : RowsOk uid rows) (k : Nat) (r : Row Tok)
    (hk : rows[k]? = some r) :
    linePreceding (join rows) (processTokens uid (join rows)) (k + 2) 1 =
      .ok { start := some ((offs rows k : Nat) : Int), line := k + 2, toks := r.1 } :=
  linePreceding_join uid rows h k r hk

/-- **the analysis is a scan over the rows** with one row of lookahead: one violation per row whose successor starts with a
    listed token and which is neither a blank line nor allowed -/
theorem above_analyze_scan (uid : Tok → Option Key) (inst : Tok → Nat → Bool) (P : Params) (hP : AboveRequire P) (hO : HOracle)
    (rows : List (Row Tok)) (h : RowsOk uid rows) (hcs : BFull2.CsOk P.cs) :
    (sem uid inst P hO).analyze (join rows) = violsA uid inst P 0 2 rows :=
  analyzeA_scan uid inst P hP.like hO rows h hcs

/-- **the file after `Rule.fix`**: behind every reported row a new row holding one blank-line token -/
theorem above_fixAll (uid : Tok → Option Key) (inst : Tok → Nat → Bool) (P : Params) (hP : AboveRequire P) (hO : HOracle)
    (rows : List (Row Tok)) (h : RowsOk uid rows) (hcs : BFull2.CsOk P.cs) (hb : ∀ r ∈ rows, ∀ t ∈ r.1, t.isBof = false) :
    fixAll uid inst P hO (join rows) = join (expandA uid inst P rows) :=
  fixAllA_join uid inst P hP.like hO rows h hcs hb

/-- **C10, whole rule** -/
theorem above_idem (uid : Tok → Option Key) (inst : Tok → Nat → Bool) (P : Params) (hP : AboveRequire P) (hO : HOracle)
    (rows : List (Row Tok)) (h : RowsOk uid rows) (hcs : BFull2.CsOk P.cs) (hb : ∀ r ∈ rows, ∀ t ∈ r.1, t.isBof = false)
    (hn : NewTokOk uid inst P) :
    (sem uid inst P hO).analyze (fixAll uid inst P hO (join rows)) = [] :=
  analyze_fixAll_above uid inst P hP.like hO rows h hcs hb hn

/-- **C03 / C07, whole rule**: layout-only, exactly one line break more per violation -/
theorem above_effect (uid : Tok → Option Key) (inst : Tok → Nat → Bool) (P : Params) (hP : AboveRequire P) (hO : HOracle)
    (rows : List (Row Tok)) (h : RowsOk uid rows) (hcs : BFull2.CsOk P.cs) (hb : ∀ r ∈ rows, ∀ t ∈ r.1, t.isBof = false) :
    LayoutOnly (join rows) (fixAll uid inst P hO (join rows)) ∧
    (crSeq (fixAll uid inst P hO (join rows))).length =
      (crSeq (join rows)).length + ((sem uid inst P hO).analyze (join rows)).length :=
  fixAll_above_effect uid inst P hP.like hO rows h hcs hb

/-- non-vacuity: `x⏎ begin⏎` with `begin` listed — one violation on line 2 about line 1, a blank line goes in between -/
example :
    let uid : Tok → Option Key := fun t =>
      if t.cls = 1 then some crKey else if t.cls = 7 then some ("x", "begin") else if t.cls = 6 then some blankKey else none
    let P : Params := { family := .above, cs := [⟨some ("x", "begin"), 7⟩], allow := [], style := sRequire, crCls := 1, blCls := 6,
                        wsCls := 2, commentCls := 13, pragmaCls := 99 }
    let inst : Tok → Nat → Bool := fun t c => t.cls == c
    let cr : Tok := ⟨1, .cr, ['\n']⟩
    let rows : List (Row Tok) := [([⟨9, .code, "x".toList⟩], cr), ([⟨7, .code, "begin".toList⟩], cr)]
    ((sem uid inst P (fun _ => none)).analyze (join rows)).map (fun v => (v.line, v.start)) = [(2, 0)] ∧
    fixAll uid inst P (fun _ => none) (join rows) =
      [⟨9, .code, "x".toList⟩, cr, ⟨6, .blank, []⟩, cr, ⟨7, .code, "begin".toList⟩, cr] ∧
    (sem uid inst P (fun _ => none)).analyze (fixAll uid inst P (fun _ => none) (join rows)) = [] := by
  decide +kernel

/-- **every token list that is empty or ends with a line break is a file of rows**: the whole-file theorems above cover
    all such token lists -/
theorem tokens_are_rows (uid : Tok → Option Key) (f : List Tok) (h : EndsCr uid f) :
    ∃ rows, RowsOk uid rows ∧ join rows = f :=
  exists_rows uid f h

end above

/-! ### END wp2c_vspace -/


/-! ### BEGIN wp2d_vspace -/

/-! #### blank_line_below_line_ending_with_token, style no_blank_line (no hierarchy limits) — the WHOLE rule on a file of rows -/

section belowNo
open BFull2.Rows

/-- **the analysis is a scan over the rows**: one violation per trigger row that is followed by a run of rows starting
    with a blank_line token — the whole run, reported on the line below the trigger.  Guards: `CsOk`, `NoDupRows` -/
theorem belowNo_analyze_scan (uid : Tok → Option Key) (inst : Tok → Nat → Bool) (P : Params) (hP : BelowNoBlank P) (hO : HOracle)
    (rows : List (Row Tok)) (h : RowsOk uid rows) (hcs : BFull2.CsOk P.cs) (hnd : NoDupRows uid P.cs rows) :
    (sem uid inst P hO).analyze (join rows) = violsN uid P 0 2 rows :=
  analyzeN_scan uid inst P hP hO rows h hcs hnd

/-- **the file after `Rule.fix`**: every such run is gone (`BlankNotTrig`: a row that starts with a blank_line token does
    not itself end with a listed token — otherwise regions overlap; `RowsNoBof`: no pseudo tokens) -/
theorem belowNo_fixAll (uid : Tok → Option Key) (inst : Tok → Nat → Bool) (P : Params) (hP : BelowNoBlank P) (hO : HOracle)
    (rows : List (Row Tok)) (h : RowsOk uid rows) (hcs : BFull2.CsOk P.cs) (hnd : NoDupRows uid P.cs rows) (hb : RowsNoBof rows)
    (hbt : BlankNotTrig uid P rows) :
    fixAll uid inst P hO (join rows) = join (shrink uid P 0 rows) :=
  fixAllN_join uid inst P hP hO rows h hcs hnd hb hbt

/-- **C10, whole rule** -/
theorem belowNo_idem (uid : Tok → Option Key) (inst : Tok → Nat → Bool) (P : Params) (hP : BelowNoBlank P) (hO : HOracle)
    (rows : List (Row Tok)) (h : RowsOk uid rows) (hcs : BFull2.CsOk P.cs) (hnd : NoDupRows uid P.cs rows) (hb : RowsNoBof rows)
    (hbt : BlankNotTrig uid P rows) :
    (sem uid inst P hO).analyze (fixAll uid inst P hO (join rows)) = [] :=
  analyze_fixAll_belowNo uid inst P hP hO rows h hcs hnd hb hbt

/-- **C03 / C07, whole rule**: layout-only exactly under `RunLayout` (the removed rows hold layout tokens only — a stray
    blank_line token in front of code is removed WITH the code: the known defect of the blank-line removers); the line
    count drops by exactly the line breaks of the removed regions -/
theorem belowNo_effect (uid : Tok → Option Key) (inst : Tok → Nat → Bool) (P : Params) (hP : BelowNoBlank P) (hO : HOracle)
    (rows : List (Row Tok)) (h : RowsOk uid rows) (hcs : BFull2.CsOk P.cs) (hnd : NoDupRows uid P.cs rows) (hb : RowsNoBof rows)
    (hbt : BlankNotTrig uid P rows) :
    (RunLayout uid rows → LayoutOnly (join rows) (fixAll uid inst P hO (join rows))) ∧
    (crSeq (join rows)).length =
      (crSeq (fixAll uid inst P hO (join rows))).length + sumCr ((sem uid inst P hO).analyze (join rows)) :=
  fixAll_belowNo_effect uid inst P hP hO rows h hcs hnd hb hbt

/-- non-vacuity: `x ;⏎ ⏎ ⏎ y⏎` (two blank rows) with `;` listed: one violation on line 2 holding both rows; they go -/
example :
    let uid : Tok → Option Key := fun t =>
      if t.cls = 1 then some crKey else if t.cls = 7 then some ("x", "semicolon") else if t.cls = 6 then some blankKey else none
    let P : Params := { family := .below, cs := [⟨some ("x", "semicolon"), 7⟩], allow := [], style := sNoBlank, crCls := 1, blCls := 6,
                        wsCls := 2, commentCls := 13, pragmaCls := 99 }
    let inst : Tok → Nat → Bool := fun t c => t.cls == c
    let cr : Tok := ⟨1, .cr, ['\n']⟩
    let bl : Tok := ⟨6, .blank, []⟩
    let rows : List (Row Tok) := [([⟨9, .code, "x".toList⟩, ⟨7, .code, ";".toList⟩], cr), ([bl], cr), ([bl], cr), ([⟨9, .code, "y".toList⟩], cr)]
    ((sem uid inst P (fun _ => none)).analyze (join rows)).map (fun v => (v.line, v.start, v.toks.length)) = [(2, 3, 4)] ∧
    fixAll uid inst P (fun _ => none) (join rows) = [⟨9, .code, "x".toList⟩, ⟨7, .code, ";".toList⟩, cr, ⟨9, .code, "y".toList⟩, cr] ∧
    (sem uid inst P (fun _ => none)).analyze (fixAll uid inst P (fun _ => none) (join rows)) = [] := by
  decide +kernel

end belowNo

/-! #### previous_line, style require_blank_line (no hierarchy limits) — the WHOLE rule on a file of rows: extractor,
    judgement and fix are those of blank_line_above_line_starting_with_token (`AboveLike` covers both families) -/

section previous
open BFull2.Rows

/-- previous_line with style require_blank_line and `lHierarchyLimits = None` -/
theorem previous_like (P : Params) (hf : P.family = .previous) (hh : P.hier = none) (hs : P.style = sRequire) : AboveLike P :=
  ⟨Or.inr ⟨hf, hh⟩, hs⟩

theorem previous_analyze_scan (uid : Tok → Option Key) (inst : Tok → Nat → Bool) (P : Params) (hP : AboveLike P) (hO : HOracle)
    (rows : List (Row Tok)) (h : RowsOk uid rows) (hcs : BFull2.CsOk P.cs) :
    (sem uid inst P hO).analyze (join rows) = violsA uid inst P 0 2 rows :=
  analyzeA_scan uid inst P hP hO rows h hcs

theorem previous_fixAll (uid : Tok → Option Key) (inst : Tok → Nat → Bool) (P : Params) (hP : AboveLike P) (hO : HOracle)
    (rows : List (Row Tok)) (h : RowsOk uid rows) (hcs : BFull2.CsOk P.cs) (hb : ∀ r ∈ rows, ∀ t ∈ r.1, t.isBof = false) :
    fixAll uid inst P hO (join rows) = join (expandA uid inst P rows) :=
  fixAllA_join uid inst P hP hO rows h hcs hb

/-- **C10, whole rule (previous_line and blank_line_above…)** -/
theorem previous_idem (uid : Tok → Option Key) (inst : Tok → Nat → Bool) (P : Params) (hP : AboveLike P) (hO : HOracle)
    (rows : List (Row Tok)) (h : RowsOk uid rows) (hcs : BFull2.CsOk P.cs) (hb : ∀ r ∈ rows, ∀ t ∈ r.1, t.isBof = false)
    (hn : NewTokOk uid inst P) :
    (sem uid inst P hO).analyze (fixAll uid inst P hO (join rows)) = [] :=
  analyze_fixAll_above uid inst P hP hO rows h hcs hb hn

/-- **C03 / C07, whole rule**: layout-only, exactly one line break more per violation -/
theorem previous_effect (uid : Tok → Option Key) (inst : Tok → Nat → Bool) (P : Params) (hP : AboveLike P) (hO : HOracle)
    (rows : List (Row Tok)) (h : RowsOk uid rows) (hcs : BFull2.CsOk P.cs) (hb : ∀ r ∈ rows, ∀ t ∈ r.1, t.isBof = false) :
    LayoutOnly (join rows) (fixAll uid inst P hO (join rows)) ∧
    (crSeq (fixAll uid inst P hO (join rows))).length =
      (crSeq (join rows)).length + ((sem uid inst P hO).analyze (join rows)).length :=
  fixAll_above_effect uid inst P hP hO rows h hcs hb

/-- non-vacuity (family previous): `x⏎ begin⏎` — a blank line goes in between, nothing left -/
example :
    let uid : Tok → Option Key := fun t =>
      if t.cls = 1 then some crKey else if t.cls = 7 then some ("x", "begin") else if t.cls = 6 then some blankKey else none
    let P : Params := { family := .previous, cs := [⟨some ("x", "begin"), 7⟩], allow := [], style := sRequire, crCls := 1, blCls := 6,
                        wsCls := 2, commentCls := 13, pragmaCls := 99 }
    let inst : Tok → Nat → Bool := fun t c => t.cls == c
    let cr : Tok := ⟨1, .cr, ['\n']⟩
    let rows : List (Row Tok) := [([⟨9, .code, "x".toList⟩], cr), ([⟨7, .code, "begin".toList⟩], cr)]
    AboveLike P ∧
    fixAll uid inst P (fun _ => none) (join rows) =
      [⟨9, .code, "x".toList⟩, cr, ⟨6, .blank, []⟩, cr, ⟨7, .code, "begin".toList⟩, cr] ∧
    (sem uid inst P (fun _ => none)).analyze (fixAll uid inst P (fun _ => none) (join rows)) = [] := by
  refine ⟨⟨Or.inr ⟨rfl, rfl⟩, rfl⟩, ?_, ?_⟩ <;> decide +kernel

end previous

/-! #### blank_line_above_line_starting_with_token AND previous_line, style no_blank_line — the WHOLE rule on a file of
    rows.  `get_index_of_previous_non_whitespace_token_before_index` walks back over whitespace, line breaks and blank_line
    tokens: the ANCHOR row is the nearest row above the trigger that holds any other token; the violation runs from the
    anchor's line break up to (not including) the line break in front of the trigger.  The loop never looks at token 0 of
    the file (`repR`, offset 0) — the defect is carried by the model, see the second example. -/

section aboveNo
open BFull2.Rows

/-- style no_blank_line of either family -/
theorem aboveNo_of (P : Params) (hf : P.family = .above ∨ P.family = .previous) (hs : P.style = sNoBlank) : AboveNoBlank P :=
  ⟨hf, hs⟩

/-- **the analysis is a forward scan over the rows**: a row with a token other than whitespace / blank_line (not token 0 of
    the file), then a non-empty run of rows without such a token, then a row that starts with a listed token.
    Guards: `CsOk`; `TrigSolid` (a row that starts with a listed token holds a token other than whitespace / blank_line) -/
theorem aboveNo_analyze_scan (uid : Tok → Option Key) (inst : Tok → Nat → Bool) (P : Params) (hP : AboveNoBlank P) (hO : HOracle)
    (rows : List (Row Tok)) (h : RowsOk uid rows) (hcs : BFull2.CsOk P.cs) (hts : TrigSolid uid P rows) :
    (sem uid inst P hO).analyze (join rows) = violsAN uid P 0 2 rows :=
  analyzeAN_scan uid inst P hP hO rows h hcs hts

/-- **the file after `Rule.fix`**: every such run is gone; the anchor row ends with the LAST line break of the run -/
theorem aboveNo_fixAll (uid : Tok → Option Key) (inst : Tok → Nat → Bool) (P : Params) (hP : AboveNoBlank P) (hO : HOracle)
    (rows : List (Row Tok)) (h : RowsOk uid rows) (hcs : BFull2.CsOk P.cs) (hts : TrigSolid uid P rows) (hb : RowsNoBof rows) :
    fixAll uid inst P hO (join rows) = join (shrinkA uid P 0 0 rows) :=
  fixAllAN_join uid inst P hP hO rows h hcs hts hb

/-- **C10, whole rule** -/
theorem aboveNo_idem (uid : Tok → Option Key) (inst : Tok → Nat → Bool) (P : Params) (hP : AboveNoBlank P) (hO : HOracle)
    (rows : List (Row Tok)) (h : RowsOk uid rows) (hcs : BFull2.CsOk P.cs) (hts : TrigSolid uid P rows) (hb : RowsNoBof rows) :
    (sem uid inst P hO).analyze (fixAll uid inst P hO (join rows)) = [] :=
  analyze_fixAll_aboveNo uid inst P hP hO rows h hcs hts hb

/-- **C03 / C07, whole rule**: layout-only exactly under `SoftLayout` (line breaks are layout, and so are the tokens of the
    rows without a token other than whitespace / blank_line); the line count drops by exactly the line breaks among the
    removed tokens -/
theorem aboveNo_effect (uid : Tok → Option Key) (inst : Tok → Nat → Bool) (P : Params) (hP : AboveNoBlank P) (hO : HOracle)
    (rows : List (Row Tok)) (h : RowsOk uid rows) (hcs : BFull2.CsOk P.cs) (hts : TrigSolid uid P rows) (hb : RowsNoBof rows) :
    (SoftLayout uid rows → LayoutOnly (join rows) (fixAll uid inst P hO (join rows))) ∧
    (crSeq (join rows)).length =
      (crSeq (fixAll uid inst P hO (join rows))).length + sumCr ((sem uid inst P hO).analyze (join rows)) :=
  fixAll_aboveNo_effect uid inst P hP hO rows h hcs hts hb

/-- **C07 in rows** (`KindRows`: the line breaks of the rows are `.cr` tokens, their contents are not): the number of rows
    drops by exactly the line breaks among the removed tokens — above / previous and below -/
theorem aboveNo_rows (uid : Tok → Option Key) (P : Params) (rows : List (Row Tok)) (hk : KindRows rows) :
    rows.length = (shrinkA uid P 0 0 rows).length + sumCr (violsAN uid P 0 2 rows) :=
  rows_aboveNo uid P rows hk

theorem belowNo_rows (uid : Tok → Option Key) (P : Params) (rows : List (Row Tok)) (hk : KindRows rows)
    (hbt : BlankNotTrig uid P rows) :
    rows.length = (shrink uid P 0 rows).length + sumCr (violsN uid P 0 2 rows) :=
  rows_belowNo uid P rows hk hbt

/-- `TrigSolid` holds as soon as no listed token is itself a whitespace or blank_line token -/
theorem aboveNo_trigSolid (uid : Tok → Option Key) (P : Params) (rows : List (Row Tok))
    (hc : ∀ t, BFull2.matchB uid P.cs t = true → softTok uid t = false) : TrigSolid uid P rows :=
  trigSolid_of uid P rows hc

/-- non-vacuity (family previous): `y⏎ x⏎ ⏎ begin⏎` — one violation on line 4 (line break of row 2 and the blank_line
    token); after the fix `x` ends with the line break of the removed row; nothing left -/
example :
    let uid : Tok → Option Key := fun t =>
      if t.cls = 1 then some crKey else if t.cls = 7 then some ("x", "begin") else if t.cls = 6 then some blankKey else none
    let P : Params := { family := .previous, cs := [⟨some ("x", "begin"), 7⟩], allow := [], style := sNoBlank, crCls := 1, blCls := 6,
                        wsCls := 2, commentCls := 13, pragmaCls := 99 }
    let inst : Tok → Nat → Bool := fun t c => t.cls == c
    let cr : Tok := ⟨1, .cr, ['\n']⟩
    let cr2 : Tok := ⟨1, .cr, ['\r', '\n']⟩
    let bl : Tok := ⟨6, .blank, []⟩
    let rows : List (Row Tok) := [([⟨9, .code, "y".toList⟩], cr), ([⟨9, .code, "x".toList⟩], cr), ([bl], cr2), ([⟨7, .code, "begin".toList⟩], cr)]
    ((sem uid inst P (fun _ => none)).analyze (join rows)).map (fun v => (v.line, v.start, v.toks)) = [(4, 3, [cr, bl])] ∧
    fixAll uid inst P (fun _ => none) (join rows) =
      [⟨9, .code, "y".toList⟩, cr, ⟨9, .code, "x".toList⟩, cr2, ⟨7, .code, "begin".toList⟩, cr] ∧
    (sem uid inst P (fun _ => none)).analyze (fixAll uid inst P (fun _ => none) (join rows)) = [] := by
  decide +kernel

/-- the defect of `get_index_of_previous_non_whitespace_token_before_index` (`range(iStart, 0, -1)` never reaches index 0):
    `x⏎ ⏎ begin⏎` with `x` token 0 of the file — NO violation although a blank line stands above `begin`
    (family above; the real rule agrees: `-- c⏎ ⏎ entity e is` with entity_003 style no_blank_line reports nothing) -/
example :
    let uid : Tok → Option Key := fun t =>
      if t.cls = 1 then some crKey else if t.cls = 7 then some ("x", "begin") else if t.cls = 6 then some blankKey else none
    let P : Params := { family := .above, cs := [⟨some ("x", "begin"), 7⟩], allow := [], style := sNoBlank, crCls := 1, blCls := 6,
                        wsCls := 2, commentCls := 13, pragmaCls := 99 }
    let inst : Tok → Nat → Bool := fun t c => t.cls == c
    let cr : Tok := ⟨1, .cr, ['\n']⟩
    let bl : Tok := ⟨6, .blank, []⟩
    let rows : List (Row Tok) := [([⟨9, .code, "x".toList⟩], cr), ([bl], cr), ([⟨7, .code, "begin".toList⟩], cr)]
    AboveNoBlank P ∧ (sem uid inst P (fun _ => none)).analyze (join rows) = [] ∧ violsAN uid P 0 2 rows = [] := by
  refine ⟨⟨Or.inl rfl, rfl⟩, ?_, ?_⟩ <;> decide +kernel

/-- non-vacuity of the guards and of the row count: the rows of the first example satisfy `KindRows`, `TrigSolid`,
    `SoftLayout`; 4 rows = 3 rows + 1 removed line break.  Below: `x ;⏎ ⏎ ⏎ y⏎`, 4 rows = 2 rows + 2 -/
example :
    let uid : Tok → Option Key := fun t =>
      if t.cls = 1 then some crKey else if t.cls = 7 then some ("x", "begin") else if t.cls = 6 then some blankKey else none
    let P : Params := { family := .previous, cs := [⟨some ("x", "begin"), 7⟩], allow := [], style := sNoBlank, crCls := 1, blCls := 6,
                        wsCls := 2, commentCls := 13, pragmaCls := 99 }
    let cr : Tok := ⟨1, .cr, ['\n']⟩
    let bl : Tok := ⟨6, .blank, []⟩
    let rows : List (Row Tok) := [([⟨9, .code, "y".toList⟩], cr), ([⟨9, .code, "x".toList⟩], cr), ([bl], cr), ([⟨7, .code, "begin".toList⟩], cr)]
    let P' : Params := { P with family := .below, cs := [⟨some ("x", "semicolon"), 8⟩] }
    let uid' : Tok → Option Key := fun t =>
      if t.cls = 1 then some crKey else if t.cls = 8 then some ("x", "semicolon") else if t.cls = 6 then some blankKey else none
    let rows' : List (Row Tok) := [([⟨9, .code, "x".toList⟩, ⟨8, .code, ";".toList⟩], cr), ([bl], cr), ([bl], cr), ([⟨9, .code, "y".toList⟩], cr)]
    (∀ r ∈ rows, r.2.isCr = true ∧ ∀ t ∈ r.1, t.isCr = false) ∧
    (∀ r ∈ rows, bolTrig uid P.cs r = true → softRow uid r = false) ∧
    (∀ r ∈ rows, nonLayout [r.2] = [] ∧ (softRow uid r = true → nonLayout r.1 = [])) ∧
    (shrinkA uid P 0 0 rows).length = 3 ∧ sumCr (violsAN uid P 0 2 rows) = 1 ∧
    (∀ r ∈ rows', blankStart uid' r = true → trigRow uid' P'.cs r = false) ∧
    (shrink uid' P' 0 rows').length = 2 ∧ sumCr (violsN uid' P' 0 2 rows') = 2 := by
  decide +kernel

end aboveNo

/-! ### END wp2d_vspace -/

end Vsgm.BFULL2
