/-
  C07 — a rule's fix touches exactly the lines that rule reported.
-/
import VsgModel.Engine.RuleRun
import VsgModel.Engine.Relations
import VsgModel.Check.Verdict
namespace Vsgm.C07
open Vsgm

/-- the line number VSG attaches to a token position: one plus the carriage returns before it
    (token_map.get_line_number_of_index is `bisect_left` over the CR positions, see C18) -/
def lineOfIndex (f : List Tok) (i : Nat) : Nat := 1 + (crSeq (f.take i)).length

/-- `tokens.extract_tokens` recomputes the line of a sub-slice by counting the carriage
    returns it skips: that equals the line of the new start position -/
theorem extract_tokens_line (f : List Tok) (s k : Nat) :
    lineOfIndex f (s + k) = lineOfIndex f s + (crSeq ((f.drop s).take k)).length := by
  unfold lineOfIndex
  have : f.take (s + k) = f.take s ++ (f.drop s).take k := by
    rw [List.take_add]
  rw [this, crSeq_append]; simp; omega

/-- **engine**: if every violation keeps the number of line breaks of its slice, the update
    keeps the file's line count -/
theorem update_lineCount (f : List Tok) (es : List (Edit Tok)) (h : Chain f.length 0 es)
    (hp : ∀ e ∈ es, crSeq e.new = crSeq (old f e)) : crSeq (update f es) = crSeq f :=
  update_hom crSeq crSeq_append f es h hp

/-- a case-only step keeps every token's class, hence every line break where it was:
    the line count and the line on which each token sits are unchanged -/
theorem caseOnly_lines (fold : Str → Str) (a b : List Tok) (h : CaseOnly fold a b) (i : Nat) :
    lineOfIndex a i = lineOfIndex b i := by
  unfold lineOfIndex
  congr 2
  unfold CaseOnly at h
  induction a generalizing b i with
  | nil => cases b <;> simp_all [caseOnlyB]
  | cons x a ih =>
    cases b with
    | nil => simp [caseOnlyB] at h
    | cons y b =>
      simp only [caseOnlyB, Bool.and_eq_true] at h
      cases i with
      | zero => simp
      | succ j =>
        simp only [List.take_succ_cons, crSeq, List.flatMap_cons]
        have hk : x.isCr = y.isCr := by
          have := h.1
          unfold tokCaseEq at this
          simp only [Bool.and_eq_true, beq_iff_eq] at this
          unfold Tok.isCr; rw [this.1.1.2]
        rw [hk]
        have := ih b h.2 j
        simp only [crSeq] at this
        rw [this]

example : lineOfIndex [⟨9, .code, "a".toList⟩, ⟨2, .cr, []⟩, ⟨9, .code, "b".toList⟩] 2 = 2 := by decide

end Vsgm.C07
