/-
  C07 — a rule's fix touches exactly the lines that rule reported.
-/
import VsgModel.Engine.RuleRun
import VsgModel.Engine.Relations
import VsgModel.Check.Verdict
import VsgProofs.Lemmas.BaseWsEffects
import VsgProofs.Lemmas.BaseWsLines
import VsgProofs.Lemmas.BaseBindEffects
import VsgProofs.Lemmas.PostPhase1
import VsgProofs.Lemmas.BaseCaseTok
import VsgProofs.Lemmas.BaseStructDispatch
import VsgProofs.Lemmas.BFull2Indent   -- wp2_bfull2
import VsgProofs.Lemmas.BFull2IndentVar   -- wp2b_indent
namespace Vsgm.C07
open Vsgm

/-- the line number VSG attaches to a token position: one plus the carriage returns before it
    (token_map.get_line_number_of_index is `bisect_left` over the CR positions, see C18) -/
def lineOfIndex (f : List Tok) (i : Nat) : Nat := 1 + (crSeq (f.take i)).length

/-- `tokens.extract_tokens` recomputes the line of a sub-slice by counting the carriage
    returns it skips: that equals the line of the new start position -/
theorem extract_tokens_line (f : List Tok) (s k : Nat) :
    lineOfIndex f (s + k) = lineOfIndex f s + (crSeq ((f.drop s).take k)).length := by
  unfold lineOfIndex
  have : f.take (s + k) = f.take s ++ (f.drop s).take k := by
    rw [List.take_add]
  rw [this, crSeq_append]; simp; omega

/-- **engine**: if every violation keeps the number of line breaks of its slice, the update
    keeps the file's line count -/
theorem update_lineCount (f : List Tok) (es : List (Edit Tok)) (h : Chain f.length 0 es)
    (hp : ∀ e ∈ es, crSeq e.new = crSeq (old f e)) : crSeq (update f es) = crSeq f :=
  update_hom crSeq crSeq_append f es h hp

/-- a case-only step keeps every token's class, hence every line break where it was:
    the line count and the line on which each token sits are unchanged -/
theorem caseOnly_lines (fold : Str → Str) (a b : List Tok) (h : CaseOnly fold a b) (i : Nat) :
    lineOfIndex a i = lineOfIndex b i := by
  unfold lineOfIndex
  congr 2
  unfold CaseOnly at h
  induction a generalizing b i with
  | nil => cases b <;> simp_all [caseOnlyB]
  | cons x a ih =>
    cases b with
    | nil => simp [caseOnlyB] at h
    | cons y b =>
      simp only [caseOnlyB, Bool.and_eq_true] at h
      cases i with
      | zero => simp
      | succ j =>
        simp only [List.take_succ_cons, crSeq, List.flatMap_cons]
        have hk : x.isCr = y.isCr := by
          have := h.1
          unfold tokCaseEq at this
          simp only [Bool.and_eq_true, beq_iff_eq] at this
          unfold Tok.isCr; rw [this.1.1.2]
        rw [hk]
        have := ih b h.2 j
        simp only [crSeq] at this
        rw [this]

example : lineOfIndex [⟨9, .code, "a".toList⟩, ⟨2, .cr, []⟩, ⟨9, .code, "b".toList⟩] 2 = 2 := by decide

/-! ### layer B: the whitespace family — BEGIN ag_bws -/

/-- **every `_fix_violation` of the whitespace family (187 rules), all actions, all token lists**: the line
    breaks are kept — `_partial`: the guard `wsGuard (· ≠ cr)` says that no old token the fix deletes is a
    carriage return (overwriting a VALUE never changes a line break) -/
theorem bfix_ws_crSeq_partial (owner : String) (params action : Base.KV) (old new : List Tok)
    (ho : owner ∈ Base.wsOwners) (h : Base.fixByOwner owner params action old = some (.ok new))
    (hg : Base.wsGuard (fun k => k != .cr) owner params action old = true) : crSeq old = crSeq new := by
  rw [Base.fixByOwner_ws _ _ _ _ ho] at h
  exact Base.ws_crSeq owner params action old new ho h hg

/-- whitespace_between_tokens with `number_of_spaces ≠ 0`: no guard at all -/
theorem bfix_wsBetween_crSeq (params action : Base.KV) (old new : List Tok) (nos : Base.NoS)
    (hn : Base.nosOf (params.get "number_of_spaces") = .ok nos) (hn0 : nos ≠ .int 0)
    (h : Base.fixByOwner Base.wsBetweenOwner params action old = some (.ok new)) : crSeq old = crSeq new := by
  apply bfix_ws_crSeq_partial _ params action old new (by decide +kernel) h
  have hne : (nos == Base.NoS.int 0) = false := by simpa using hn0
  simp [Base.wsGuard, hn, Base.WsBetween.guard, Base.WsBetween.touched, hne]

/-- the guard is needed: whitespace_008 pops the last token whatever it is — also a line break -/
theorem bfix_ws008_cr_witness :
    ∃ old new, Base.fixByOwner Base.ws008Owner [] [] old = some (.ok new) ∧ crSeq old ≠ crSeq new :=
  ⟨[⟨9, .code, "a".toList⟩, ⟨5, .cr, "\n".toList⟩], [⟨9, .code, "a".toList⟩], by decide +kernel, by decide +kernel⟩

/-- **B-full, line locality of whitespace_between_tokens (171 rules)**: the file is `pre ++ old ++ suf`, the
    violation is reported on the line of `old[0]` (`oToi.get_line_number()`, the line of the region start).
    Every line the fix changes has the number `reported + 1` if `old[0]` is a carriage return and `reported`
    otherwise: the changed line is the reported line exactly when the region does not start with a line break
    (or nothing changed).  (`number_of_spaces = 0`: for the three-token regions `[left, whitespace, right]`
    the analysis produces.)  Lines as the trace checker splits and compares them. -/
theorem bfix_wsBetween_lineLocal (params action : Base.KV) (old new pre suf : List Tok) (nos : Base.NoS)
    (hn : Base.nosOf (params.get "number_of_spaces") = .ok nos)
    (h3 : nos = .int 0 → old.length = 3 ∧ ∀ t, old[1]? = some t → t.kind = .ws)
    (h : Base.fixByOwner Base.wsBetweenOwner params action old = some (.ok new)) :
    ∀ n ∈ Verdict.changedLines (Verdict.lineSplit (pre ++ old ++ suf) [] []) (Verdict.lineSplit (pre ++ new ++ suf) [] []) 1,
      n = lineOfIndex (pre ++ old ++ suf) pre.length + (if (old.head?.map (·.isCr)) = some true then 1 else 0) := by
  rw [Base.fixByOwner_ws _ _ _ _ (by decide +kernel)] at h
  simp only [Base.wsFixByOwner, beq_self_eq_true, if_true, Option.some.injEq, hn, bind, Except.bind] at h
  obtain ⟨a, mid, mid', tail, rfl, rfl, _, _, hm, hm'⟩ := Base.WsBetween.fix_local _ nos action old new h3 h
  have hcr : ∀ (m : List Tok), (∀ t ∈ m, t.kind = .ws) → ∀ t ∈ m, t.isCr = false := by
    intro m hm t ht; simp [Tok.isCr, hm t ht]
  obtain ⟨p, ln, ln', post, e1, e2, e3, _⟩ :=
    Base.lines_local (pre ++ [a]) mid mid' (tail ++ suf) (hcr mid hm) (hcr mid' hm')
  have f1 : pre ++ (a :: mid ++ tail) ++ suf = pre ++ [a] ++ mid ++ (tail ++ suf) := by simp
  have f2 : pre ++ (a :: mid' ++ tail) ++ suf = pre ++ [a] ++ mid' ++ (tail ++ suf) := by simp
  intro n hn'
  rw [Base.lineSplit_linesOf, Base.lineSplit_linesOf, f1, f2, e1, e2, Base.changedLines_local] at hn'
  have hline : lineOfIndex (pre ++ (a :: mid ++ tail) ++ suf) pre.length = 1 + (crSeq pre).length := by
    unfold lineOfIndex
    rw [List.append_assoc, List.take_left']; rfl
  rw [hline]
  split at hn'
  · cases hn'
  · simp only [List.mem_singleton] at hn'
    rw [hn', e3, crSeq_append]
    by_cases hc : a.isCr = true
    · simp [crSeq, hc]; omega
    · simp [crSeq, hc]

/-- the case distinction is not vacuous: a region that starts with a line break is repaired on the NEXT line -/
example :
    let old : List Tok := [⟨5, .cr, "\n".toList⟩, ⟨9, .code, "a".toList⟩]
    let new : List Tok := [⟨5, .cr, "\n".toList⟩, ⟨Gen.wsCls, .ws, " ".toList⟩, ⟨9, .code, "a".toList⟩]
    Base.fixByOwner Base.wsBetweenOwner [("number_of_spaces", .int 1)] [("spaces", .int 1)] old = some (.ok new) ∧
      Verdict.changedLines (Verdict.lineSplit old [] []) (Verdict.lineSplit new [] []) 1 = [2] := by
  decide +kernel

/-! END ag_bws -/

/-! ### BEGIN ag_bind (indent / vertical spacing / post-phase-1) -/

/-! ### layer B: indent family keeps every line break; vertical spacing changes the line count by exactly
    what it inserts / cuts; post-phase-1 normalisation keeps every line break -/

/-- indent rules: `adjust_whitespace`, `add_whitespace` and unknown actions keep the line breaks of
    EVERY token list; `remove_whitespace` does if no carriage return sits outside index 1 -/
theorem bfix_indent_crSeq_partial (owner : String) (params action : Base.KV) (old new : List Tok)
    (ho : owner ∈ Base.indentOwners) (h : Base.fixByOwner owner params action old = some (.ok new))
    (hok : Base.strAction action = Base.Indent.sRemove → ∀ t ∈ old.eraseIdx 1, t.isCr = false) :
    crSeq old = crSeq new := by
  obtain ⟨style, size, h'⟩ := Base.Bind.indent_fixV_of_owner owner params action old new ho h
  exact Base.Indent.fixV_crSeq _ _ _ _ _ _ _ h' hok

/-- without the hypothesis `remove_whitespace` can join two lines -/
theorem bfix_indent_crSeq_false :
    ∃ params action old new, Base.fixByOwner "vsg.rules.token_indent.token_indent" params action old = some (.ok new) ∧
      crSeq old ≠ crSeq new :=
  ⟨[("indent_size", .int 2), ("indent_style", .str "spaces".toList)],
   [("_str", .str "remove_whitespace".toList)],
   [⟨Gen.crCls, .cr, ['\n']⟩, ⟨9, .code, "b".toList⟩], [⟨9, .code, "b".toList⟩],
   by decide +kernel, by decide +kernel⟩

/-- vertical spacing, every action, every token list: exactly one line break more (a blank line
    inserted), the same, or the line breaks of the two pieces that were cut off fewer -/
theorem bfix_blankline_crSeq (owner : String) (params action : Base.KV) (old new : List Tok)
    (ho : owner ∈ Base.blankLineOwners) (h : Base.fixByOwner owner params action old = some (.ok new)) :
    crSeq new = () :: crSeq old ∨ crSeq new = crSeq old ∨
      ∃ pre suf, old = pre ++ new ++ suf ∧ crSeq old = crSeq pre ++ crSeq new ++ crSeq suf := by
  rcases Base.Bind.blankline_shape owner params action old new ho h with ⟨_, hr⟩ | hr | hr | ⟨pre, suf, c⟩
  · left; rw [hr]; rfl
  · left; rw [hr, crSeq_append]
    have : crSeq [Base.BlankLine.crTok Gen.crCls, Base.BlankLine.blankTok Gen.blankCls] = [()] := rfl
    rw [this]
    generalize crSeq old = u
    induction u with
    | nil => rfl
    | cons a u ih => cases a; simp [ih]
  · right; left; rw [hr]
  · right; right; exact ⟨pre, suf, c, c.crSeq⟩

/-- the post-phase-1 normalisation keeps the line count of every token list -/
theorem postPhase1_crSeq (blCls : Nat) (l : List Tok) : crSeq (Post.postPhase1 blCls l) = crSeq l := by
  unfold Post.postPhase1
  rw [Post.fixTrailingWhitespace_eq, Post.fixBlankLines_eq, Post.ftwGo_crSeq, Post.fblGo_crSeq]

/-! ### END ag_bind -/

/-! ### BEGIN ag_bcase (case family, B-full) -/
/-! ### layer B, the case family -/

theorem crSeq_eq_kinds (l : List Tok) :
    crSeq l = (l.map (·.kind)).flatMap (fun k => if k == Kind.cr then [()] else []) := by
  induction l with
  | nil => rfl
  | cons x l ih =>
    simp only [crSeq, List.flatMap_cons, List.map_cons] at ih ⊢
    rw [ih]
    rfl

theorem crSeq_of_kinds (a b : List Tok) (h : a.map (·.kind) = b.map (·.kind)) : crSeq a = crSeq b := by
  rw [crSeq_eq_kinds, crSeq_eq_kinds, h]

/-- every `_fix_violation` of the case family, for ALL actions and all regions: no line break is
    added or removed (a case fix never moves a token to another line) -/
theorem bfix_case_crSeq (owner : String) (params action : Base.KV) (old new : List Tok)
    (ho : owner ∈ Base.caseOwners) (h : Base.fixByOwner owner params action old = some (.ok new)) :
    crSeq new = crSeq old ∧ new.length = old.length := by
  rcases Base.fixByOwner_case_shape owner ho params action old new h with rfl | ⟨k, t, e, hk, rfl⟩
  · exact ⟨rfl, rfl⟩
  · refine ⟨crSeq_of_kinds _ _ ?_, by simp⟩
    have := congrArg (List.map Prod.snd) (Base.set_val_shape old k t e hk)
    simpa [List.map_map, Function.comp_def] using this

/-! ### END ag_bcase -/

/-! ### BEGIN ag_bstruct (insert / remove / parens / split / multiline alignment) -/

/-! ### layer B: line breaks under the structure family and the remaining alignment fixers -/

/-- the remaining alignment fixers (`multiline_alignment_between_tokens`, `multiline_array_alignment`,
    `multiline_conditional_alignment`, `align_consecutive_lines_after_line_starting_with_token_and_stopping_with_token`):
    for EVERY action and token list — even when the rewritten first token is not whitespace — the
    number of line breaks is unchanged -/
theorem bfix_alignMulti_crSeq (E : Base.Env) (owner : String) (o : Base.SOwner) (params action : Base.KV)
    (old new : List Tok) (ho : Base.sownerOf owner = some o) (hal : o.isAlign = true)
    (h : Base.fixStruct E owner params action old = some (.ok new)) : crSeq new = crSeq old := by
  unfold Base.fixStruct at h
  simp only [ho, Option.map_some, Option.some.injEq] at h
  exact Base.fixS_align_crSeq E o params action old new hal h

/-- insert family, `action: add`: the optional keyword / end name goes onto an existing line — the line
    breaks are kept (unless a designated token is itself a line break; none of the pinned parameters is) -/
theorem bfix_insert_crSeq (E : Base.Env) (owner : String) (o : Base.SOwner) (params action : Base.KV)
    (old new : List Tok) (ho : Base.sownerOf owner = some o) (hi : o.isInsert = true)
    (hm : Base.removeMode o params = false)
    (h : Base.fixStruct E owner params action old = some (.ok new))
    (hd : ∀ ins, Base.designated E o params action = .ok (some ins) → crSeq ins = []) :
    crSeq new = crSeq old := by
  unfold Base.fixStruct at h
  simp only [ho, Option.map_some, Option.some.injEq] at h
  rcases Base.fixS_insert_add Base.projCr E o params action old new hi hm h with h | ⟨ins, hd', hs⟩
  · rw [h]
  · have : Base.InsSeg [] (crSeq old) (crSeq new) := by
      have := hd ins hd'
      simp only [Base.projCr] at hs
      rw [this] at hs; exact hs
    exact this.nil.symm

/-- insert family, `action: remove`, on the two tokens the extractor delivers: line breaks kept unless
    the removed optional token is itself a line break -/
theorem bfix_optional_remove_crSeq (E : Base.Env) (owner : String) (o : Base.SOwner) (params action : Base.KV)
    (a t : Tok) (new : List Tok) (ho : Base.sownerOf owner = some o) (hi : o.isInsert = true)
    (hne : o ≠ .tokensRightOf) (hm : Base.removeMode o params = true)
    (h : Base.fixStruct E owner params action [a, t] = some (.ok new)) (ht : t.isCr = false) :
    crSeq new = crSeq [a, t] := by
  unfold Base.fixStruct at h
  simp only [ho, Option.map_some, Option.some.injEq] at h
  obtain ⟨t0, rest, hl, hn⟩ := Base.fixS_insert_remove E o params action [a, t] new hi hne hm h
  cases hl
  subst hn
  by_cases hw : (a.kind == Kind.ws) = true
  · have hk : a.kind = .ws := by simpa using hw
    have ha : a.isCr = false := by simp [Tok.isCr, hk]
    simp [hw, crSeq, ht, ha]
  · simp [hw, crSeq, ht]

/-- `if_002`, `parenthesis: insert`: no line break added or removed -/
theorem bfix_parens_insert_crSeq (E : Base.Env) (params action : Base.KV) (old new : List Tok)
    (hp : Base.strIs params "parenthesis" "insert" = true)
    (h : Base.fixS E .if002 params action old = .ok new)
    (hko : E.kindOf E.openParenCls ≠ .cr) (hkc : E.kindOf E.closeParenCls ≠ .cr) :
    crSeq new = crSeq old := by
  unfold Base.fixS at h
  simp only [hp] at h
  obtain ⟨_, hn⟩ := Base.Parens.fixV_insert E action old new h
  subst hn
  simp [crSeq, Tok.isCr, Base.Env.inst, hko, hkc]

/-! ### END ag_bstruct -/

/-! ### BEGIN wp2_bfull2 (indent family, whole rule) -/

section wp2_bfull2
open BFull2

/-- **whole-rule line count of `token_indent` (93 rules)**: for every token list (no pseudo tokens; tokens whose
    id is `parser.whitespace` have kind `ws`), indent assignment, `indent_size` and both documented styles the file
    after `Rule.fix` has exactly the line breaks of the file before — no line is added, removed or joined -/
theorem bfull2_indent_lineCount (uid : Tok → Option TM.Key) (P : Params) (ind : Oracle) (f : List Tok)
    (hv : P.variant = .plain) (hcs : CsOk P.cs) (hs : StyleOk P)
    (hb : ∀ t ∈ f, t.isBof = false) (hk : ∀ t ∈ f, isWsU uid t = true → t.kind = .ws) :
    crSeq (fixAll uid P ind f) = crSeq f :=
  fixAll_hom uid P ind crSeq crSeq_append (by intro t ht; simp [crSeq, Tok.isCr, ht]) hv hcs hs f hb hk

/-- **the fix is confined to the reported regions**: the file after `Rule.fix` is the concatenation of the new
    texts of consecutive pieces of the file, and a piece the rule did not report is unchanged (so a line the rule
    did not report keeps its tokens; with `bfull2_indent_lineCount` no line moves) -/
theorem bfull2_indent_pieces (uid : Tok → Option TM.Key) (P : Params) (ind : Oracle) (f : List Tok)
    (hv : P.variant = .plain) (hcs : CsOk P.cs) (hs : StyleOk P) (hb : ∀ t ∈ f, t.isBof = false) :
    ∃ ps : List (Piece Tok), olds ps = f ∧ news ps = fixAll uid P ind f ∧
      (∀ p ∈ ps, p.hit = false → p.new = p.old) ∧
      (ps.filter (·.hit)).length = ((sem uid P ind).analyze f).length := by
  refine ⟨(units uid P ind [] f).map (toPiece P), units_olds' uid P ind [] f,
    (fixAll_eq_news uid P ind hv hcs hs f hb).symm, units_hit uid P ind [] f, ?_⟩
  rw [analyze_eq_scanA uid P ind hv hcs hs f, scanA_units uid P ind hcs [] f (crWs_nil uid)]
  generalize units uid P ind [] f = us
  induction us with
  | nil => rfl
  | cons u r ih =>
    obtain ⟨o, v⟩ := u
    cases v with
    | none => simpa [toPiece] using ih
    | some v => simp only [List.map_cons, toPiece, List.filter_cons, if_true, List.length_cons, List.filterMap_cons]; rw [ih]

/-- non-vacuity: a line whose indent is wrong is rewritten in place, the line break stays -/
example :
    let f : List Tok := [⟨9, .code, "a".toList⟩, ⟨1, .cr, []⟩, ⟨2, .ws, " ".toList⟩, ⟨3, .code, "signal".toList⟩]
    crSeq (fixAll toyUid toyP (fun _ => some 1) f) = crSeq f ∧ fixAll toyUid toyP (fun _ => some 1) f ≠ f := by
  decide +kernel

end wp2_bfull2

/-! ### END wp2_bfull2 -/


/-! ### BEGIN wp2b_indent (all four extractors of token_indent) -/

section wp2b_indent
open BFull2

/-- **whole-rule line count, all 102 indent rules** (plain, between, between-unless, unless extractors): no hypothesis
    about the selection — the variant is the plain rule with a masked oracle -/
theorem bfull2_indent_lineCount_variants (uid : Tok → Option TM.Key) (P : Params) (ind : Oracle) (f : List Tok)
    (hcs : CsOk P.cs) (hs : StyleOk P) (hb : ∀ t ∈ f, t.isBof = false) (hk : ∀ t ∈ f, isWsU uid t = true → t.kind = .ws) :
    crSeq (fixAll uid P ind f) = crSeq f :=
  fixAll_hom_variant uid P ind crSeq crSeq_append (by intro t ht; simp [crSeq, Tok.isCr, ht]) hcs hs f hb hk

end wp2b_indent

/-! ### END wp2b_indent -/


end Vsgm.C07
