/-
  C11 — code tags suppress exactly the tagged rules on exactly the tagged lines.
  ONLY property theorems and their non-vacuity examples live here.

  Model: VsgModel/Engine/CodeTags.lean (transcription of code_tags.py, vhdlFile.set_code_tags,
  parser.item.has_code_tag, violation.has_code_tag, Rule.add_violation).
  Spec:  `specSuppressed toks i id` — backwards scans from token `i`, no state machine.
-/
import VsgModel.Engine.CodeTags
import VsgProofs.Lemmas.CodeTags
import VsgModel.Generated.Rules
namespace Vsgm.C11
open Vsgm Vsgm.CT

/-! ### the stamp is the documented meaning — for the REPAIRED `has_code_tag` -/

/-- every token gets a stamp -/
theorem setCodeTags_length (toks : List TTok) : (setCodeTags toks).length = toks.length :=
  setCodeTagsFrom_length _ _

/-- membership in the stamped list is exactly "a region / next-line tag of that name is in force" -/
theorem stamp_mem (toks : List TTok) (i : Nat) (h : i < toks.length) (t : Tag) :
    ∃ tags, (setCodeTags toks)[i]? = some tags ∧ (t ∈ tags ↔ specTag toks i t = true) :=
  ⟨_, setCodeTags_get toks i h, mem_stamp toks i t⟩

/-- FULL statement, repaired variant (`"all" in self.code_tags`): for every token list, every
    position and every rule id, the token counts as tagged for the rule iff the specification
    says the rule is suppressed there -/
theorem stamp_spec (toks : List TTok) (i : Nat) (id : Tag) :
    suppressedAt hasCodeTagFixed (setCodeTags toks) i id = specSuppressed toks i id := by
  by_cases h : i < toks.length
  · unfold suppressedAt
    rw [setCodeTags_get toks i h]
    simp only [hasCodeTagFixed, specSuppressed]
    have ha := mem_stamp toks i kAll
    have hi := mem_stamp toks i id
    cases h1 : specTag toks i kAll <;> cases h2 : specTag toks i id <;> simp_all
  · have h' : toks.length ≤ i := Nat.le_of_not_lt h
    have hn : (setCodeTags toks)[i]? = none := by
      apply List.getElem?_eq_none; rw [setCodeTags_length]; exact h'
    simp [suppressedAt, hn, specSuppressed, specTag, scope_out toks i h', offGov, nlGov]

/-- the same for the variant the model's switch `hasCodeTag` currently selects (the tree under
    /repo); breaks — and is reported by name — when the switch is set back to the pinned variant -/
theorem stamp_spec_repo (toks : List TTok) (i : Nat) (id : Tag) :
    suppressedAt hasCodeTag (setCodeTags toks) i id = specSuppressed toks i id :=
  stamp_spec toks i id

/-! ### the pinned `has_code_tag` (`self.code_tags == ["all"]`) -/

/-- the witness: `-- vsg_off` / `-- vsg_off a` / a token: rule `b` is not suppressed at the token -/
def witness : List TTok :=
  [.comment ['-', '-', ' ', 'v', 's', 'g', '_', 'o', 'f', 'f'], .cr,
   .comment ['-', '-', ' ', 'v', 's', 'g', '_', 'o', 'f', 'f', ' ', 'a'], .cr, .other]

/-- `stamp_spec` is FALSE for the pinned `has_code_tag`: after a bare `vsg_off`, a `vsg_off a`
    makes the list `["all", "a"]` and rule `b` reports again inside the bare-off region -/
theorem stamp_spec_pinned_false :
    ¬ ∀ (toks : List TTok) (i : Nat) (id : Tag),
        suppressedAt hasCodeTagPinned (setCodeTags toks) i id = specSuppressed toks i id := by
  intro h
  exact absurd (h witness 4 ['b']) (by decide)

/-- the same defect through a next-line tag inside a bare-off region -/
theorem stamp_spec_pinned_false_next_line :
    suppressedAt hasCodeTagPinned (setCodeTags
      [.comment ['-', '-', ' ', 'v', 's', 'g', '_', 'o', 'f', 'f'], .cr,
       .comment (kNext ++ [' ', 'a']), .cr, .other]) 4 ['b'] = false ∧
    specSuppressed
      [.comment ['-', '-', ' ', 'v', 's', 'g', '_', 'o', 'f', 'f'], .cr,
       .comment (kNext ++ [' ', 'a']), .cr, .other] 4 ['b'] = true := by
  decide

/-- where the bare-off region (name `all`) is in force at token `i`, nothing else is: no other
    region, no next-line tag, and `all` not both as region and as next-line tag -/
def Guard (toks : List TTok) (i : Nat) : Prop :=
  specTag toks i kAll = true →
    (∀ t, specTag toks i t = true → t = kAll) ∧
    ¬ (offGov (scope toks i).reverse kAll = true ∧ nlGov false (scope toks i).reverse kAll = true)

/-- PARTIAL statement for the pinned variant: what is missing relative to `stamp_spec` is exactly
    the tokens at which an id tag or a next-line tag is in force inside a bare-off region -/
theorem stamp_spec_partial (toks : List TTok) (i : Nat) (id : Tag) (hg : Guard toks i) :
    suppressedAt hasCodeTagPinned (setCodeTags toks) i id = specSuppressed toks i id := by
  rw [← stamp_spec]
  by_cases h : i < toks.length
  · unfold suppressedAt
    rw [setCodeTags_get toks i h]
    apply pinned_eq_fixed
    intro hall
    have hall' := (mem_stamp toks i kAll).mp hall
    obtain ⟨honly, hnot⟩ := hg hall'
    have hinv := inv_run (scope toks i)
    have htags : ∀ t ∈ (run St.new (scope toks i)).tags, t = kAll := fun t ht =>
      honly t ((mem_stamp toks i t).mp (by simp [St.getTags, ht]))
    have hnext : ∀ t ∈ (run St.new (scope toks i)).next, t = kAll := fun t ht =>
      honly t ((mem_stamp toks i t).mp (by simp [St.getTags, ht]))
    have h1 := mem_tags_run (scope toks i).reverse kAll
    have h2 := (mem_next_run (scope toks i).reverse kAll).1
    rw [List.reverse_reverse] at h1 h2
    simp only [St.getTags, List.mem_append] at hall
    unfold St.getTags
    by_cases ht : kAll ∈ (run St.new (scope toks i)).tags
    · have hn : kAll ∉ (run St.new (scope toks i)).next := fun hn => hnot ⟨h1.mp ht, h2.mp hn⟩
      rw [nodup_all_eq _ _ hinv.1 htags ht, all_eq_not_mem _ _ hnext hn]
      rfl
    · have hn : kAll ∈ (run St.new (scope toks i)).next := hall.resolve_left ht
      rw [nodup_all_eq _ _ hinv.2 hnext hn, all_eq_not_mem _ _ htags ht]
      rfl
  · have hn : (setCodeTags toks)[i]? = none := by
      apply List.getElem?_eq_none; rw [setCodeTags_length]; exact Nat.le_of_not_lt h
    simp [suppressedAt, hn]

/-! ### a file wrapped in a bare `vsg_off` -/

/-- tokens `pre` (no tag comment), a bare `vsg_off` comment, tokens `rest` (no tag comment):
    everything before carries no tag, the comment and everything after carries exactly `["all"]` -/
theorem bare_off_whole_file (pre rest : List TTok) (c : TTok) (ids : List Tag)
    (hpre : NoTag pre) (hc : tagOf c = .off true ids) (hrest : NoTag rest) :
    setCodeTags (pre ++ c :: rest) =
      List.replicate pre.length [] ++ List.replicate (rest.length + 1) [kAll] := by
  unfold setCodeTags
  obtain ⟨p1, p2, p3⟩ := notag_stamp pre St.new hpre rfl
  rw [setCodeTagsFrom_append, p1, setCodeTagsFrom_cons]
  have hu : update (run St.new pre) c = ⟨[kAll], [], (run St.new pre).ign⟩ := by
    rw [update_eq_step, hc]; simp [step, St.clear, St.add]
  have hs : stampState (run St.new pre) c = update (run St.new pre) c := by simp [stampState, hc]
  rw [hs, hu]
  obtain ⟨r1, _, _⟩ := notag_stamp rest ⟨[kAll], [], (run St.new pre).ign⟩ hrest rfl
  rw [r1]
  simp [St.new, St.getTags, List.replicate_succ]

/-- … hence every rule is suppressed on the comment and on every later token, under the pinned
    and under the repaired `has_code_tag` alike -/
theorem bare_off_whole_file_suppressed (pre rest : List TTok) (c : TTok) (ids : List Tag)
    (hpre : NoTag pre) (hc : tagOf c = .off true ids) (hrest : NoTag rest)
    (i : Nat) (h1 : pre.length ≤ i) (h2 : i < pre.length + (rest.length + 1)) (id : Tag) :
    suppressedAt hasCodeTagPinned (setCodeTags (pre ++ c :: rest)) i id = true ∧
    suppressedAt hasCodeTagFixed (setCodeTags (pre ++ c :: rest)) i id = true := by
  rw [bare_off_whole_file pre rest c ids hpre hc hrest]
  unfold suppressedAt
  have : (List.replicate pre.length ([] : List Tag) ++ List.replicate (rest.length + 1) [kAll])[i]? = some [kAll] := by
    rw [List.getElem?_append_right (by simpa using h1)]
    simp only [List.length_replicate]
    rw [List.getElem?_replicate]
    have : i - pre.length < rest.length + 1 := by omega
    simp [this]
  rw [this]
  simp [hasCodeTagPinned, hasCodeTagFixed]

/-- … hence an empty report: every offered violation that has a token at or after the comment
    is dropped -/
theorem bare_off_whole_file_report (impl : HasTagImpl) (himpl : impl = hasCodeTagPinned ∨ impl = hasCodeTagFixed)
    (pre rest : List TTok) (c : TTok) (ids : List Tag)
    (hpre : NoTag pre) (hc : tagOf c = .off true ids) (hrest : NoTag rest) (id : Tag)
    (offered : List (List Nat))
    (hoff : ∀ v ∈ offered, ∃ i ∈ v, pre.length ≤ i ∧ i < pre.length + (rest.length + 1)) :
    report impl (setCodeTags (pre ++ c :: rest)) id offered = [] := by
  unfold report addViolation
  rw [foldl_filter]
  simp only [List.nil_append, List.filter_eq_nil_iff]
  intro v hv
  obtain ⟨i, hi, h1, h2⟩ := hoff v hv
  have hs := bare_off_whole_file_suppressed pre rest c ids hpre hc hrest i h1 h2 id
  have : violationHasCodeTag impl (setCodeTags (pre ++ c :: rest)) v id = true := by
    unfold violationHasCodeTag
    rw [List.any_eq_true]
    rcases himpl with e | e <;> subst e
    · exact ⟨i, hi, hs.1⟩
    · exact ⟨i, hi, hs.2⟩
  simp [this]

/-- the region statement at full strength for the repaired variant: after a bare `vsg_off`,
    as long as no bare tag and no `vsg_on all` follows, every rule is suppressed (whatever other
    tags occur in between) -/
theorem bare_off_region (pre mid : List TTok) (c x : TTok) (post : List TTok) (ids : List Tag)
    (hc : tagOf c = .off true ids) (hmid : ∀ d ∈ mid, (tagOf d).closes kAll = false)
    (hx : (tagOf x).closes kAll = false) (id : Tag) :
    suppressedAt hasCodeTagFixed (setCodeTags (pre ++ c :: mid ++ x :: post)) (pre.length + 1 + mid.length) id = true := by
  rw [stamp_spec]
  have gen : ∀ (m : List TTok) (acc : List TTok), offGov acc kAll = true →
      (∀ d ∈ m, (tagOf d).closes kAll = false) → offGov (m.reverse ++ acc) kAll = true := by
    intro m
    induction m with
    | nil => intro acc ha _; simpa using ha
    | cons e m ih =>
      intro acc ha hm
      rw [List.reverse_cons, List.append_assoc]
      apply ih
      · simp only [List.singleton_append, offGov_cons, hm e (by simp)]
        cases (tagOf e).opens kAll <;> simp [ha]
      · exact fun d hd => hm d (by simp [hd])
  have key : ∀ (m : List TTok), (∀ d ∈ m, (tagOf d).closes kAll = false) →
      offGov (m.reverse ++ c :: pre.reverse) kAll = true :=
    fun m hm => gen m (c :: pre.reverse) (by simp [offGov_cons, hc, TagC.opens]) hm
  have hlen : pre.length + 1 + mid.length < (pre ++ c :: mid ++ x :: post).length := by simp; omega
  have hget : (pre ++ c :: mid ++ x :: post)[pre.length + 1 + mid.length]? = some x := by
    have : pre ++ c :: mid ++ x :: post = (pre ++ c :: mid) ++ x :: post := by simp
    rw [this, List.getElem?_append_right (by simp; omega)]
    simp
    have : pre.length + 1 + mid.length - (pre.length + (mid.length + 1)) = 0 := by omega
    simp [this]
  have htake : (pre ++ c :: mid ++ x :: post).take (pre.length + 1 + mid.length) = pre ++ c :: mid := by
    have : pre ++ c :: mid ++ x :: post = (pre ++ c :: mid) ++ x :: post := by simp
    rw [this, List.take_left' (by simp; omega)]
  have htake1 : (pre ++ c :: mid ++ x :: post).take (pre.length + 1 + mid.length + 1) = pre ++ c :: mid ++ [x] := by
    have : pre ++ c :: mid ++ x :: post = (pre ++ c :: mid ++ [x]) ++ post := by simp
    rw [this, List.take_left' (by simp; omega)]
  have hkx := key (mid ++ [x]) (by
    intro d hd
    rcases List.mem_append.mp hd with h | h
    · exact hmid d h
    · simp at h; subst h; exact hx)
  have hoff : offGov (scope (pre ++ c :: mid ++ x :: post) (pre.length + 1 + mid.length)).reverse kAll = true := by
    unfold scope
    rw [hget]
    cases hx' : tagOf x with
    | off b ids' => simp only [hx', htake1]; simpa using hkx
    | next ids' => simp only [hx', htake1]; simpa using hkx
    | cr => simp only [hx', htake]; simpa using key mid hmid
    | on b ids' => simp only [hx', htake]; simpa using key mid hmid
    | plain => simp only [hx', htake]; simpa using key mid hmid
  unfold specSuppressed specTag
  rw [hoff]
  simp

/-! ### the report filter (engine part) -/

/-- `Rule.add_violation` over the offered violations keeps exactly those none of whose tokens is
    suppressed for the rule — repaired variant, every token list, every offered list -/
theorem report_filter (toks : List TTok) (id : Tag) (offered : List (List Nat)) :
    report hasCodeTagFixed (setCodeTags toks) id offered = specReport toks id offered := by
  unfold report addViolation specReport
  rw [foldl_filter]
  simp only [List.nil_append, violationHasCodeTag, stamp_spec]

/-- the filter of the tree under /repo (model switch `hasCodeTag`) -/
theorem report_filter_repo (toks : List TTok) (id : Tag) (offered : List (List Nat)) :
    report hasCodeTag (setCodeTags toks) id offered = specReport toks id offered :=
  report_filter toks id offered

/-- pinned variant: the same under the guard at every token of every offered violation -/
theorem report_filter_partial (toks : List TTok) (id : Tag) (offered : List (List Nat))
    (hg : ∀ v ∈ offered, ∀ i ∈ v, Guard toks i) :
    report hasCodeTagPinned (setCodeTags toks) id offered = specReport toks id offered := by
  unfold report addViolation specReport
  rw [foldl_filter]
  simp only [List.nil_append]
  apply List.filter_congr
  intro v hv
  unfold violationHasCodeTag
  rw [any_congr_mem v _ _ (fun i hi => stamp_spec_partial toks i id (hg v hv i hi))]

/-- without tag comments nothing is filtered (the "neutral" file): together with
    `report_filter`, for an analysis that offers the same violations on the tagged and on the
    neutral file,  V(tagged) = V(neutral).filter (no token suppressed) -/
theorem report_neutral (impl : HasTagImpl) (himpl : impl = hasCodeTagPinned ∨ impl = hasCodeTagFixed)
    (toks : List TTok) (h : NoTag toks) (id : Tag) (offered : List (List Nat)) :
    report impl (setCodeTags toks) id offered = offered := by
  have hst : setCodeTags toks = List.replicate toks.length [] := (notag_stamp toks St.new h rfl).1
  unfold report addViolation
  rw [foldl_filter]
  simp only [List.nil_append]
  have : ∀ v, violationHasCodeTag impl (setCodeTags toks) v id = false := by
    intro v
    unfold violationHasCodeTag
    rw [List.any_eq_false]
    intro i _
    unfold suppressedAt
    rw [hst, List.getElem?_replicate]
    split
    · rename_i tags he
      split at he
      · cases he
        rcases himpl with e | e <;> subst e <;> simp [hasCodeTagPinned, hasCodeTagFixed, kAll]
      · cases he
    · simp
  simp [this]

/-! ### next-line tags survive exactly one line break -/

/-- `pre` (no tags) · a next-line comment naming `ids` · `l1` · line break · `l2` · line break ·
    `l3` (no tags), `l1` / `l2` without line breaks and tags: the ids are stamped on the comment,
    on the rest of its line, on the first line break, on the whole following line and on the
    line break that ends it — and on nothing else -/
theorem next_line_one_break (pre l1 l2 l3 : List TTok) (c : TTok) (ids : List Tag)
    (hpre : NoTag pre) (hc : tagOf c = .next ids) (h1 : Plain l1) (h2 : Plain l2) (h3 : NoTag l3) :
    setCodeTags (pre ++ c :: (l1 ++ .cr :: (l2 ++ .cr :: l3))) =
      List.replicate pre.length [] ++
      List.replicate (l1.length + l2.length + 3) (ids.foldl St.addNext St.new).next ++
      List.replicate l3.length [] := by
  unfold setCodeTags
  obtain ⟨p1, p2, p3⟩ := notag_stamp pre St.new hpre rfl
  rw [setCodeTagsFrom_append, p1, setCodeTagsFrom_cons]
  have hs : stampState (run St.new pre) c = update (run St.new pre) c := by simp [stampState, hc]
  have hn : (ids.foldl St.addNext (run St.new pre)).next = (ids.foldl St.addNext St.new).next := by
    have gen : ∀ (ids : List Tag) (a b : St), a.next = b.next → (ids.foldl St.addNext a).next = (ids.foldl St.addNext b).next := by
      intro ids
      induction ids with
      | nil => intro a b h; simpa using h
      | cons t r ih =>
        intro a b h
        simp only [List.foldl_cons]
        apply ih
        unfold St.addNext
        rw [h]
        split <;> simp [h]
    exact gen ids _ _ (by rw [p3]; rfl)
  have hu : update (run St.new pre) c = ⟨[], (ids.foldl St.addNext St.new).next, true⟩ := by
    rw [update_eq_step, hc]
    simp only [step]
    rw [hn, (foldl_addNext_other ids _).1, p2]
    rfl
  rw [hs, hu]
  generalize (ids.foldl St.addNext St.new).next = N
  rw [setCodeTagsFrom_append, (plain_stamp l1 _ h1).1, (plain_stamp l1 _ h1).2, setCodeTagsFrom_cons]
  have hcr : ∀ s : St, stampState s .cr = s := fun s => rfl
  have hu1 : update ⟨[], N, true⟩ .cr = ⟨[], N, false⟩ := rfl
  rw [hcr, hu1, setCodeTagsFrom_append, (plain_stamp l2 _ h2).1, (plain_stamp l2 _ h2).2, setCodeTagsFrom_cons]
  have hu2 : update ⟨[], N, false⟩ .cr = ⟨[], [], false⟩ := rfl
  rw [hcr, hu2, (notag_stamp l3 ⟨[], [], false⟩ h3 rfl).1]
  simp only [St.getTags, St.new, List.nil_append]
  rw [replicate_three]
  simp

/-- the stamped list of a next-line comment names exactly its ids -/
theorem next_line_ids (ids : List Tag) (t : Tag) : t ∈ (ids.foldl St.addNext St.new).next ↔ t ∈ ids := by
  simp [foldl_addNext_next, St.new]

/-! ### the backwards scan for off regions, said without a scan -/

/-- `offGov` (nearest token first) holds iff some comment opens a region named `t` and no comment
    nearer to the token ends it (its `vsg_on`, a bare `vsg_on`, a bare `vsg_off`) -/
theorem spec_off_region (r : List TTok) (t : Tag) :
    offGov r t = true ↔
      ∃ a c b, r = a ++ c :: b ∧ (tagOf c).opens t = true ∧ ∀ d ∈ a, (tagOf d).closes t = false := by
  induction r with
  | nil => simp [offGov]
  | cons x r ih =>
    rw [offGov_cons]
    constructor
    · intro h
      by_cases ho : (tagOf x).opens t = true
      · exact ⟨[], x, r, rfl, ho, by simp⟩
      · by_cases hc : (tagOf x).closes t = true
        · simp [ho, hc] at h
        · simp only [ho, hc] at h
          obtain ⟨a, c, b, e, h1, h2⟩ := ih.mp (by simpa using h)
          refine ⟨x :: a, c, b, by simp [e], h1, ?_⟩
          intro d hd
          rcases List.mem_cons.mp hd with hd | hd
          · subst hd; simpa using hc
          · exact h2 d hd
    · rintro ⟨a, c, b, e, h1, h2⟩
      cases a with
      | nil =>
        simp only [List.nil_append, List.cons.injEq] at e
        rw [e.1, h1]; rfl
      | cons y a =>
        simp only [List.cons_append, List.cons.injEq] at e
        have hy : (tagOf x).closes t = false := by rw [e.1]; exact h2 y (by simp)
        have := ih.mpr ⟨a, c, b, e.2, h1, fun d hd => h2 d (by simp [hd])⟩
        cases ho : (tagOf x).opens t <;> simp [hy, this]

/-! ### the executable one-pass form of the specification is the specification -/

/-- what the driver evaluates on whole files (`specAll`) is `specSuppressed`, token by token -/
theorem specAll_spec (toks : List TTok) (ids : List Tag) (i : Nat) (h : i < toks.length) :
    (specAll toks ids)[i]? = some (ids.map (fun id => specSuppressed toks i id)) := by
  have := specPass_get ids toks [] i h
  simpa [specAll] using this

/-! ### non-vacuity -/

-- the documented examples: region with ids, `vsg_on` for one of them, remark after ':'
example : setCodeTags
    [.comment (kOff ++ [' ', 'a', ' ', 'b', ' ', ':', ' ', 'w', 'h', 'y']), .cr, .other, .cr,
     .comment (kOn ++ [' ', 'a']), .cr, .other, .cr, .comment kOn, .cr, .other]
    = [[['a'], ['b']], [['a'], ['b']], [['a'], ['b']], [['a'], ['b']], [['a'], ['b']], [['b']], [['b']], [['b']], [['b']], [], []] := by
  decide

-- sequential next-line exclusions
example : setCodeTags
    [.comment (kNext ++ [' ', 'a']), .cr, .comment (kNext ++ [' ', 'b']), .cr, .other, .cr, .other]
    = [[['a']], [['a']], [['a'], ['b']], [['a'], ['b']], [['a'], ['b']], [['a'], ['b']], []] := by
  decide

-- the guard of the partial statement is satisfiable inside a bare-off region
example : Guard [.comment kOff, .cr, .other] 2 := by
  have hc : tagOf (.comment kOff) = .off true [] := by decide
  have hs : scope [.comment kOff, .cr, .other] 2 = [.comment kOff, .cr] := by decide
  intro _
  refine ⟨?_, by decide⟩
  intro t ht
  unfold specTag at ht
  rw [hs] at ht
  have h0 : tagOf .cr = .cr := rfl
  simpa [offGov_cons, nlGov_cons, offGov, nlGov, hc, h0, TagC.opens, TagC.closes] using ht

/-! ### static side condition, re-checked against the regenerated rule table on every run -/

/-- **every violation enters through `Rule.add_violation`** (where `has_code_tag` is consulted): no rule of
    the running system overrides the method, and no class in a rule's MRO other than `vsg.rule.Rule` assigns to,
    appends to or extends `self.violations` (source scan in `harness/gen_tables.py`).  The filter theorems above
    speak about `add_violation`; this is what makes them speak about every rule. -/
theorem violations_enter_through_add_violation : ∀ r ∈ Gen.ruleTable, r.overridesAddViolation = false := by
  decide +kernel

end Vsgm.C11
