/-
  C04 — reading is lossless and a clean file is never rewritten.
    1. tokenizing only regroups characters: `tokens.create` neither loses, invents nor reorders a
       character, produces no empty token, and never indexes out of range;
    2. the line layer (`read_vhdlfile`, `_processFile` up to `design_file.tokenize`, `get_lines`):
       what `rstrip` removes, every line is classified without an IndexError, the values of a
       classified line concatenate to the line (unconditionally since the repair c5cb15b of
       `comment.ending_token_should_exist`; the former lossy input is kept as a regression example),
       `get_lines` of the parsed file are the lines read (conditional on the value-preservation
       contract of the classifier productions, checked per parsed file by harness/props_c04.py);
    3. `apply_rules` writes iff `--fix` and some `_fix_violation` was invoked.
  ONLY property theorems and their non-vacuity examples live here.
-/
import VsgModel.Lex.Create
import VsgModel.Lex.Tables
import VsgModel.Lex.Lines
import VsgModel.Engine.ApplyRules
import VsgProofs.Lemmas.Lex
import VsgProofs.Lemmas.Lines
import VsgProofs.Lemmas.ApplyRules
-- >>> WP1 layer P
import VsgModel.Generated.ClassifyProg
import VsgProofs.Lemmas.ProgThms
import VsgProofs.Lemmas.ProgValue
import VsgProofs.Lemmas.ProgLink
-- <<< WP1 layer P
namespace Vsgm.C04
open Vsgm Vsgm.Lex

/-- **tokens.create only regroups**: the concatenation of the tokens is the input string, for
    every table of character predicates in which a character whose lower case ends in
    b/o/x/d is not a digit (otherwise `parse_bit_string_…` slices with `None` and duplicates
    the token) -/
theorem create_flatten (T : LexTables) (hbd : ∀ c, T.lowerBoxd c = true → T.isDigit c = false)
    (s : Str) : (create T s).flatten = s :=
  Lex.create_flatten T hbd s

/-- each of the nine passes on its own keeps the concatenation (pass 9 under `hbd`) -/
theorem passes_flatten (T : LexTables) (hbd : ∀ c, T.lowerBoxd c = true → T.isDigit c = false)
    (s : Str) : ∀ p ∈ passes T s, p.flatten = s := by
  have h0 := toChars_flatten s
  have h1 := (combineWhitespace_flatten T _).trans h0
  have h2 := (combineStringLiterals_flatten _).trans h1
  have h3 := (combineBackslash_flatten T _).trans h2
  have h4 := (combineThree_flatten T _).trans h3
  have h5 := (combineTwo_flatten T _).trans h4
  have h6 := (combineWords_flatten T _).trans h5
  have h7 := (combineCharLiterals_flatten _).trans h6
  have h8 := (splitNaturalNumbers_flatten T _).trans h7
  have h9 := (splitBitStrings_flatten T hbd _).trans h8
  intro p hp
  simp only [passes, List.mem_cons, List.not_mem_nil, or_false] at hp
  rcases hp with e | e | e | e | e | e | e | e | e <;> subst e <;> assumption

/-- **no empty token**: no token returned by `tokens.create` is empty, for every table.  (The
    trailing `""` of combine_whitespace and the `""` symbols of the backslash pass are absorbed
    by combine_characters_into_words; whatever empty token reaches split_natural_numbers is
    dropped there, because `is_natural_number("")` holds and `parse_natural_number("")` is `[]`;
    a number is only split at an `e` that has a digit string in front of it; the last pass
    filters its own splits.) -/
theorem create_no_empty (T : LexTables) (s : Str) : ∀ t ∈ create T s, t ≠ [] :=
  Lex.create_noEmpty T s

/-- the same already holds from pass 6 on (combine_characters_into_words, then
    combine_character_literals: the joined slices start inside the list because the quote
    indexes are increasing and the pairs are joined right to left), provided the empty string
    is not listed as a single-character symbol -/
theorem passes_no_empty (T : LexTables) (hs : [] ∉ T.single) (s : Str) :
    ∀ p ∈ (passes T s).drop 5, ∀ t ∈ p, t ≠ [] := by
  have h6 := combineWords_noEmpty T hs (combineTwo T (combineThree T (combineBackslash T
    (combineStringLiterals (combineWhitespace T (toChars s))))))
  have h7 := combineCharLiterals_noEmpty _ h6
  have h8 := splitNaturalNumbers_noEmpty T (combineCharLiterals (combineWords T (combineTwo T
    (combineThree T (combineBackslash T (combineStringLiterals (combineWhitespace T (toChars s))))))))
  have h9 := splitBitStrings_noEmpty T _ h8
  intro p hp
  simp only [passes, List.drop_succ_cons, List.drop_zero, List.mem_cons, List.not_mem_nil,
    or_false] at hp
  rcases hp with e | e | e | e <;> subst e <;> assumption

/-- **no IndexError in find_character_literal_candidates**: for two consecutive quote indexes
    `q, q'` (the loop runs over `lQuotes[0:-1]`, so `q` always has a successor) the index
    `q + 1` that `lChars[iQuote + 1]` looks up is inside the token list -/
theorem indexes_in_range (v : Str) (l : List Str) (pre post : List Nat) (q q' : Nat)
    (h : indexesOf v l 0 = pre ++ q :: q' :: post) : q + 1 < l.length := by
  have := indexesOf_consecutive v l pre post q q' h
  omega

/-- the same, positionally: every element of `lQuotes[0:-1]` -/
theorem indexes_in_range_get (v : Str) (l : List Str) (i : Nat)
    (h : i + 1 < (indexesOf v l 0).length) : (indexesOf v l 0)[i] + 1 < l.length := by
  have hs := List.pairwise_iff_getElem.1 (indexesOf_sorted v l 0) i (i + 1) (by omega) h (by omega)
  have hr := indexesOf_range v l 0 _ (List.getElem_mem h)
  omega

/-- hence the model's `l[q + 1]?` in `candidates` is never `none` on the quote indexes -/
theorem candidates_lookup_some (v : Str) (l : List Str) (pre post : List Nat) (q q' : Nat)
    (h : indexesOf v l 0 = pre ++ q :: q' :: post) : ∃ t, l[q + 1]? = some t :=
  ⟨l[q + 1]'(indexes_in_range v l pre post q q' h), List.getElem?_eq_getElem _⟩

/-- the tables of the running system (CPython's predicates, the symbol lists of tokens.py)
    satisfy the two hypotheses -/
theorem pyTables_hyps :
    (∀ c, pyTables.lowerBoxd c = true → pyTables.isDigit c = false) ∧ [] ∉ pyTables.single := by
  constructor
  · intro c hc
    simp only [pyTables, Gen.lowerBoxdCodes, decide_eq_true_eq, List.mem_cons, List.not_mem_nil,
      or_false] at hc
    show inRanges Gen.digitRanges c.toNat = false
    rcases hc with h | h | h | h | h | h | h | h <;> rw [h] <;> decide
  · decide

theorem create_flatten_py (s : Str) : (create pyTables s).flatten = s :=
  create_flatten pyTables pyTables_hyps.1 s

theorem create_no_empty_py (s : Str) : ∀ t ∈ create pyTables s, t ≠ [] :=
  create_no_empty pyTables s

/-! ### non-vacuity -/

example : create pyTables "a <= x\"AB\"".toList =
    ["a".toList, " ".toList, "<=".toList, " ".toList, "x".toList, "\"AB\"".toList] := by decide +kernel

example : create pyTables "c := '1';".toList =
    ["c".toList, " ".toList, ":=".toList, " ".toList, "'1'".toList, ";".toList] := by decide +kernel

example : create pyTables "1e3 ".toList = ["1".toList, "e".toList, "3".toList, " ".toList] := by
  decide +kernel

/-- the hypothesis of `create_flatten` is not decorative: with a table in which `x` is a digit the
    base specifier is duplicated -/
example :
    let T : LexTables := { pyTables with isDigit := fun _ => true }
    (create T "x\"1\"".toList).flatten = "xx\"1\"".toList := by decide +kernel

/-- … and the hypothesis of `passes_no_empty` neither: with `""` listed as a single-character
    symbol the trailing `""` of combine_whitespace survives combine_characters_into_words -/
example :
    let T : LexTables := { pyTables with single := [] :: pyTables.single }
    (passes T "a".toList)[5]? = some ["a".toList, []] := by decide +kernel

/-- a quote pair whose lookup is exercised -/
example : indexesOf sq ["'".toList, "1".toList, "'".toList] 0 = [] ++ 0 :: 2 :: [] := by decide

/-! ## 2. the line layer -/

/-- **what `rstrip` removes** (`read_vhdlfile`: `sLine.rstrip("\r\n")`): a suffix made of `\n` and
    `\r` only — no other character of the line, nothing in front of it -/
theorem stripEol_removes_only_line_ends (s : Str) :
    ∃ t, s = stripEol s ++ t ∧ ∀ c ∈ t, c = '\n' ∨ c = '\r' :=
  stripEol_suffix s

/-- … and all of it: whatever run of `\n` / `\r` ends the line, the same line is read -/
theorem stripEol_line_end_independent (s t : Str) (h : ∀ c ∈ t, c = '\n' ∨ c = '\r') :
    stripEol (s ++ t) = stripEol s :=
  stripEol_append_eol s t h

/-- the second strip of `_processFile` (`rstrip("\n").rstrip("\r")`) finds nothing left to do on a
    line delivered by `read_vhdlfile` -/
theorem stripNlCr_after_read (s : Str) : stripNlCr (stripEol s) = stripEol s :=
  stripNlCr_stripEol s

/-- the two strips are not the same function (the first argument is a character set, the second
    a sequence of two strips): they differ on a line handed to `vhdlFile` directly -/
theorem stripNlCr_ne_stripEol : stripNlCr "a\r\n\r".toList ≠ stripEol "a\r\n\r".toList := by decide

/-- **a file is read as the same lines whatever its line ends are**: text made of lines without
    `\r` / `\n` joined by `\n`, `\r\n` or a lone `\r`, with or without a final line end, is read
    by `read_vhdlfile` as exactly those lines -/
theorem readLines_line_end_independent (eol : Str) (he : IsEol eol) (ls : List Str) (last : Str)
    (hls : ∀ l ∈ ls, NoEol l) (hlast : NoEol last) :
    readLines (joinEol eol ls ++ last) = ls ++ (if last.isEmpty then [] else [last]) :=
  readLines_joinEol eol he ls last hls hlast

/-- hence **what C04 cannot promise about a file that IS rewritten**: `write_vhdl_file` writes
    `"\n".join(lines) + "\n"` (or the configured `linesep`), so a CRLF file, a file with lone
    `\r` line ends and a file without a final line end are NOT reproduced byte for byte even when
    every line is.  C04 is about the files that are not rewritten. -/
theorem rewrite_normalises_line_ends :
    joinEol ['\n'] (readLines "a\r\nb\r\n".toList) ≠ "a\r\nb\r\n".toList ∧
    joinEol ['\n'] (readLines "a\rb\r".toList) ≠ "a\rb\r".toList ∧
    joinEol ['\n'] (readLines "a\nb".toList) ≠ "a\nb".toList ∧
    joinEol ['\n'] (readLines "a\nb\n".toList) = "a\nb\n".toList := by decide

/-- only `\n`, `\r\n`, `\r` end a line: form feed, vertical tab, U+0085, U+2028 stay inside it -/
theorem readLines_other_separators :
    readLines [Char.ofNat 97, Char.ofNat 12, Char.ofNat 98, Char.ofNat 11, Char.ofNat 0x85, Char.ofNat 0x2028, '\n'] =
      [[Char.ofNat 97, Char.ofNat 12, Char.ofNat 98, Char.ofNat 11, Char.ofNat 0x85, Char.ofNat 0x2028]] := by
  decide

/-- **no IndexError in the line loop of `_processFile`**: for every table, regexp answer, incoming
    state and line, `blank / whitespace / comment / preprocessor / pragma.classify` return -/
theorem classifyLine_total (T : LexTables) (rx : PragmaRx) (st : LState) (raw : Str) :
    ∃ r, classifyLine T rx st raw = some r :=
  Lex.classifyLine_total T rx st raw

/-- **a classified line concatenates to the line** — for every incoming state (inside a delimited
    comment or not, inside a `vhdl_comp_off` region or not), every regexp answer and every line.
    (Before /repo c5cb15b this needed the exclusion of the line read inside a delimited comment
    whose first token is `/` and whose last token ends with `*`: `lObjects[iToken - 1]` at
    `iToken = 0`.) -/
theorem classifyLine_flatten (T : LexTables)
    (hbd : ∀ c, T.lowerBoxd c = true → T.isDigit c = false) (rx : PragmaRx) (st st' : LState)
    (raw : Str) (objs : List LTok) (h : classifyLine T rx st raw = some (objs, st')) :
    (vals objs).flatten = stripNlCr raw :=
  Lex.classifyLine_flatten T hbd rx st st' raw objs h

/-- for the tables of the running system -/
theorem classifyLine_flatten_py (rx : PragmaRx) (st st' : LState) (raw : Str) (objs : List LTok)
    (h : classifyLine pyTables rx st raw = some (objs, st')) : (vals objs).flatten = stripNlCr raw :=
  classifyLine_flatten pyTables pyTables_hyps.1 rx st st' raw objs h

/-- **blank lines**: a line without tokens becomes exactly one token with the EMPTY value — a
    `blank_line`; inside a delimited comment a `delimited_comment.text("")`; inside a
    `vhdl_comp_off` region a `pragma.ignore("")`.  (So "no empty token" holds for `tokens.create`,
    not for the classified line.) -/
theorem classifyLine_blank (rx : PragmaRx) (st : LState) (raw : Str) (h : stripNlCr raw = []) :
    classifyLine pyTables rx st raw =
      some ([⟨if st.region then .pragmaIgnore else if st.inside then .dcText else .blank, []⟩], st) :=
  classifyLine_of_no_tokens pyTables rx st raw (by rw [h]; decide +kernel)

/-- **no empty token in a non-empty line, except delimited-comment text**: in the classified form
    of a line that has tokens, a token with the empty value is a `delimited_comment.text` (made by
    `remove_last_star_from_previous_token` out of a token `*`) or, inside a `vhdl_comp_off` region, the
    `pragma.ignore` that replaces it — never an item, whitespace, comment, delimiter, pragma or
    preprocessor token -/
theorem classifyLine_no_empty (T : LexTables) (rx : PragmaRx) (st st' : LState) (raw : Str)
    (objs : List LTok) (h : classifyLine T rx st raw = some (objs, st'))
    (hne : create T (stripNlCr raw) ≠ []) :
    ∀ t ∈ objs, t.val = [] → t.kind = .dcText ∨ t.kind = .pragmaIgnore :=
  classifyLine_noEmpty T rx st st' raw objs h hne

/-- the whole loop of `_processFile` returns -/
theorem processLines_total (T : LexTables) (rx : Str → PragmaRx) (st : LState) (ls : List Str) :
    ∃ objs, processLines T rx st ls = some objs :=
  Lex.processLines_total T rx st ls

/-- **emit ∘ parse = identity on the lines as read** (conditional): if the classifier productions
    and post passes are value preserving (contract `ValuePreserving` = `Refines`: every token is
    replaced by a non-empty group of tokens whose values concatenate to its value, carriage returns
    by one carriage return, nothing else becomes one — checked on every parsed file by
    harness/props_c04.py; the strict one-for-one form `OneForOne` is a special case,
    `oneForOne_valuePreserving`, and is FALSE on 146 of 2604 accepted corpus files: dotted names
    are split), then `get_lines()` of the parsed file is `""` followed by the lines handed to
    `vhdlFile` with their line ends stripped -/
theorem getLines_processLines_partial (T : LexTables)
    (hbd : ∀ c, T.lowerBoxd c = true → T.isDigit c = false) (rx : Str → PragmaRx)
    (classify : List LTok → List Tok) (hvp : ValuePreserving classify) (st : LState) (ls : List Str) :
    ∃ objs, processLines T rx st ls = some objs ∧
      getLines (classify objs) = [] :: ls.map stripNlCr := by
  obtain ⟨objs, h⟩ := Lex.processLines_total T rx st ls
  refine ⟨objs, h, ?_⟩
  rw [getLines_of_valuePreserving objs (classify objs) (hvp objs)]
  exact getLinesL_processLines T hbd rx st ls objs h

/-- the pre-classification layer alone is lossless without any hypothesis: `get_lines` of the list
    `_processFile` hands to `design_file.tokenize` -/
theorem getLinesL_processLines (T : LexTables)
    (hbd : ∀ c, T.lowerBoxd c = true → T.isDigit c = false) (rx : Str → PragmaRx) (st : LState)
    (ls : List Str) : ∃ objs, processLines T rx st ls = some objs ∧ getLinesL objs = [] :: ls.map stripNlCr := by
  obtain ⟨objs, h⟩ := Lex.processLines_total T rx st ls
  exact ⟨objs, h, Lex.getLinesL_processLines T hbd rx st ls objs h⟩

/-- one-for-one replacement (same length, same values, carriage returns stay) is value preserving -/
theorem oneForOne_valuePreserving (inp : List LTok) (out : List Tok) (h : OneForOne inp out) :
    ValuePreservingOn inp out :=
  refines_of_oneForOne inp out h

/-- the same with the contract only on the file at hand -/
theorem getLines_of_parsed_partial (T : LexTables)
    (hbd : ∀ c, T.lowerBoxd c = true → T.isDigit c = false) (rx : Str → PragmaRx) (st : LState)
    (ls : List Str) (objs : List LTok) (out : List Tok) (h : processLines T rx st ls = some objs)
    (hvp : ValuePreservingOn objs out) :
    getLines out = [] :: ls.map stripNlCr := by
  rw [getLines_of_valuePreserving objs out hvp]
  exact Lex.getLinesL_processLines T hbd rx st ls objs h

/-- for the lines `read_vhdlfile` delivers the strip is the identity: `get_lines()[1:]` IS the list
    that was read -/
theorem getLines_of_read_file_partial (rx : Str → PragmaRx) (classify : List LTok → List Tok)
    (hvp : ValuePreserving classify) (text : Str) :
    ∃ objs, processLines pyTables rx LState.init (readLines text) = some objs ∧
      getLines (classify objs) = [] :: readLines text := by
  obtain ⟨objs, h, hg⟩ := getLines_processLines_partial pyTables pyTables_hyps.1 rx classify hvp
    LState.init (readLines text)
  refine ⟨objs, h, ?_⟩
  rw [hg]
  congr 1
  conv => rhs; rw [← List.map_id (readLines text)]
  unfold readLines
  rw [List.map_map, List.map_map]
  apply List.map_congr_left
  intro l _
  simp only [Function.comp, id]
  exact stripNlCr_stripEol l

/-! ## 3. the file is written iff `--fix` and some `_fix_violation` ran -/

/-- **any run without `--fix` leaves the file system alone** -/
theorem no_fix_no_write (rs : List Rule) (fixPhase : Nat) (skip : List Nat) (fo : Option FixOnly)
    (post : List Tok → List Tok) (f : List Tok) :
    applyRulesWrite false rs fixPhase skip fo post f = none := rfl

/-- `rule_list.had_violations` is set iff at least one `_fix_violation` was invoked during the run
    (`Rule.fix` sets it inside the loop over the violations, `rule_list.fix` ORs the rules) -/
theorem hadViolations_iff_fixV_invoked (rs : List Rule) (fixPhase : Nat) (skip : List Nat)
    (fo : Option FixOnly) (post : List Tok → List Tok) (f : List Tok) :
    (fixRun rs fixPhase skip fo post f).2 = true ↔ 0 < (fixRunCount rs fixPhase skip fo post f).2 :=
  Lemmas.fixRun_had_iff rs fixPhase skip fo post f

/-- the instrumented run is the run -/
theorem fixRunCount_is_fixRun (rs : List Rule) (fixPhase : Nat) (skip : List Nat)
    (fo : Option FixOnly) (post : List Tok → List Tok) (f : List Tok) :
    (fixRunCount rs fixPhase skip fo post f).1 = fixRun rs fixPhase skip fo post f :=
  Lemmas.fixRunCount_fst rs fixPhase skip fo post f

/-- **the write happens iff `--fix` and some `_fix_violation` ran** -/
theorem write_iff (fix : Bool) (rs : List Rule) (fixPhase : Nat) (skip : List Nat) (fo : Option FixOnly)
    (post : List Tok → List Tok) (f : List Tok) :
    (applyRulesWrite fix rs fixPhase skip fo post f).isSome = true ↔
      fix = true ∧ 0 < (fixRunCount rs fixPhase skip fo post f).2 := by
  rw [← hadViolations_iff_fixV_invoked]
  unfold applyRulesWrite
  cases fix with
  | false => simp
  | true =>
    simp only [if_true, true_and]
    split <;> simp_all

/-- **a clean file is never rewritten**: a `--fix` run in which no `_fix_violation` is invoked
    does not write — whatever the rules, phases, `--fix_only` and the post-phase-1 normalisation
    (which may change the token list in memory: it does not set `had_violations`) -/
theorem clean_file_no_write (fix : Bool) (rs : List Rule) (fixPhase : Nat) (skip : List Nat)
    (fo : Option FixOnly) (post : List Tok → List Tok) (f : List Tok)
    (h : (fixRunCount rs fixPhase skip fo post f).2 = 0) :
    applyRulesWrite fix rs fixPhase skip fo post f = none := by
  have := write_iff fix rs fixPhase skip fo post f
  cases hw : applyRulesWrite fix rs fixPhase skip fo post f with
  | none => rfl
  | some w =>
    rw [hw] at this
    have := this.1 rfl
    omega

/-- the converse, for the record (DESIGN §7): a `_fix_violation` that ran sets `had_violations`
    even if it returned the tokens it was given — the file is then rewritten although no rule
    changed anything.  Witness: one fixable error rule with one violation whose fix is the identity. -/
theorem noop_fix_still_writes :
    let sem : RuleSem := ⟨fun _ => [⟨1, 0, [], 0⟩], fun v => v.toks⟩
    let r : Rule := (⟨"x_001", 1, 0, false, true, true, false⟩, sem)
    (fixRun [r] 7 [] none id []).1 = [] ∧ (applyRulesWrite true [r] 7 [] none id []).isSome = true := by
  decide +kernel

/-! ### non-vacuity of the line-layer hypotheses -/

/-- the identity classifier satisfies the contract -/
example : ValuePreserving (fun l => l.map fun t => (⟨0, t.kind.toKind, t.val⟩ : Tok)) := by
  intro l
  apply refines_of_oneForOne
  constructor
  · simp [List.map_map, Function.comp_def]
  · rw [List.map_map]
    apply List.map_congr_left
    intro t _
    cases t with
    | mk k v => cases k <;> rfl

/-- a splitting classifier satisfies it too: `ieee.numeric_std` as three tokens -/
example : ValuePreservingOn [⟨.item, "use".toList⟩, ⟨.ws, " ".toList⟩, ⟨.item, "ieee.numeric_std".toList⟩, crTok]
    [⟨0, .code, "use".toList⟩, ⟨0, .ws, " ".toList⟩, ⟨0, .code, "ieee".toList⟩, ⟨0, .code, ".".toList⟩,
     ⟨0, .code, "numeric_std".toList⟩, ⟨0, .cr, "\n".toList⟩] := by
  refine .tok _ [_] _ _ rfl (by simp) (by decide) rfl ?_
  refine .tok _ [_] _ _ rfl (by simp) (by decide) rfl ?_
  refine .tok _ [_, _, _] _ _ rfl (by simp) (by decide) (by decide) ?_
  exact .cr _ _ _ _ rfl rfl .nil

/-- regression (finding repaired in /repo c5cb15b): inside a delimited comment the line `/ foo *` stays
    text — it used to become `ending("*/") … text("")` and to close the comment -/
example : classifyLine pyTables ⟨false, false, false⟩ ⟨true, false⟩ "/ foo *".toList =
    some ([⟨.dcText, "/ foo *".toList⟩], ⟨true, false⟩) := by decide +kernel

/-- … and the three-line file is emitted as it was read -/
example : ∃ objs, processLines pyTables (fun _ => ⟨false, false, false⟩) LState.init
      ["/*".toList, "/ foo *".toList, "*/".toList] = some objs ∧
    getLinesL objs = [[], "/*".toList, "/ foo *".toList, "*/".toList] := by
  refine ⟨[⟨.dcBegin, "/*".toList⟩, crTok, ⟨.dcText, "/ foo *".toList⟩, crTok, ⟨.dcEnd, "*/".toList⟩, crTok], ?_, ?_⟩ <;>
    decide +kernel

/-- `**/` inside a delimited comment: the `/` closes it, the star moves (`iToken - 1` with `iToken > 0`) -/
example : classifyLine pyTables ⟨false, false, false⟩ ⟨true, false⟩ "a **/ b".toList =
    some ([⟨.dcText, "a *".toList⟩, ⟨.dcEnd, "*/".toList⟩, ⟨.ws, " ".toList⟩, ⟨.item, "b".toList⟩], ⟨false, false⟩) := by
  decide +kernel

example : ∃ st', classifyLine pyTables ⟨false, false, false⟩ LState.init "a <= b; -- c /* d ".toList =
    some ([⟨.item, "a".toList⟩, ⟨.ws, " ".toList⟩, ⟨.item, "<=".toList⟩, ⟨.ws, " ".toList⟩, ⟨.item, "b".toList⟩,
      ⟨.item, ";".toList⟩, ⟨.ws, " ".toList⟩, ⟨.comment, "-- c /* d".toList⟩, ⟨.ws, " ".toList⟩], st') :=
  ⟨LState.init, by decide +kernel⟩

/-- `--` inside a delimited comment is text; everything from the first to the last text token of the
    line is merged; the state carries over -/
example : classifyLine pyTables ⟨false, false, false⟩ ⟨true, false⟩ "a -- b */ c".toList =
    some ([⟨.dcText, "a -- b ".toList⟩, ⟨.dcEnd, "*/".toList⟩, ⟨.ws, " ".toList⟩, ⟨.item, "c".toList⟩],
      ⟨false, false⟩) := by decide +kernel

end Vsgm.C04

-- >>> WP1 layer P: the classifier productions as a program table (generic over the table)
namespace Vsgm.C04
open Vsgm.Prog

/-- **productions, length (unconditional)**: for every program table, fuel, function and arguments, the number
    of tokens after a call is the number before plus the executed `insert`s minus the executed `pop`s on the
    token list (ghost counters of the interpreter) — also when the call ends in an exception -/
theorem prog_call_length (S : Sys) (n f : Nat) (args : List Val) (st : State) :
    let st' := ((run S n).call f args st).2
    st'.toks.size + st'.nDel + st.nIns = st.toks.size + st.nDel + st'.nIns :=
  call_length S n f args st

/-- **productions, length (syntactic)**: if no function of the table contains `pop` / `insert` / `append` of
    anything but a string literal, a call never changes the number of tokens -/
theorem prog_call_length_noLen (S : Sys) (htab : ∀ fd ∈ S.funs.toList, fd.ok Chk.noLen = true)
    (n f : Nat) (args : List Val) (st : State) :
    let st' := ((run S n).call f args st).2
    st'.toks.size = st.toks.size ∧ st'.nIns = st.nIns ∧ st'.nDel = st.nDel :=
  call_length_noLen S htab n f args st

/-- the functions of the GENERATED table that can change the number of tokens (positions in `progTable`):
    the token-list filters of `utils.py` used by rules, the line-level classifiers, and — the only ones reachable
    from `design_file.tokenize` — `classify.instantiated_unit.classify_entity_name` and the selected-name builders
    of `classify/utils.py` -/
def progLenChanging : List String :=
  ["utils.combine_two_token_class_lists", "utils.remove_carriage_returns_from_token_list",
   "utils.remove_comments_from_token_list", "utils.remove_consecutive_whitespace_tokens",
   "utils.remove_whitespace_from_token_list", "utils.remove_all_trailing_whitespace", "utils.fix_blank_lines",
   "utils.fix_trailing_whitespace", "classify.blank.classify", "classify.comment.classify",
   "classify.instantiated_unit.classify_entity_name", "classify.preprocessor.classify",
   "classify.utils.classify_selected_name", "classify.utils.build_use_clause_selected_name_token_list",
   "classify.utils.build_context_reference_selected_name_token_list",
   "classify.utils.classify_use_clause_selected_name_elements",
   "classify.utils.classify_context_reference_selected_name_elements",
   "classify.utils.replace_item_in_list_with_a_list_at_index"]

/-- stated by name, so that adding, removing or reordering OTHER functions in the sources does not disturb it -/
theorem progTable_noLen_failing :
    failingNames Chk.noLen Gen.Prog.progTable = progLenChanging := by decide +kernel

/-- with those functions made opaque, the generated table satisfies the hypothesis of `prog_call_length_noLen` -/
theorem progTable_masked_noLen :
    (maskNames progLenChanging Gen.Prog.progTable).all (fun fd => fd.ok Chk.noLen) = true := by
  decide +kernel

/-- non-vacuity: the hypothesis of `prog_call_length_noLen` holds for every system whose table is the masked
    generated table (542 translated functions) -/
example (S : Sys) (h : S.funs = (maskNames progLenChanging Gen.Prog.progTable).toArray) :
    ∀ fd ∈ S.funs.toList, fd.ok Chk.noLen = true := by
  intro fd hfd
  rw [h] at hfd
  have := progTable_masked_noLen
  rw [List.all_eq_true] at this
  exact this fd (by simpa using hfd)

/-- a two-statement program: `lObjects[i] = token(lObjects[i].get_value())`, the store of `utils.assign_next_token` -/
def demoFun : FunDef := { nparams := 3, nlocals := 3, body := [.retag 0 1 2 true, .ret (.binop .add (.var 1) (.int 1))] }

/-- class 7 ignores its argument (`def __init__(self, sString=";")`), every other class keeps it -/
def demoSys : Sys :=
  { funs := #[demoFun], globals := [], isa := fun _ _ => false
    ctor1 := fun c => if c = 7 then .fixed [';'] [';'] else .keep
    ctor0 := fun c => if c = 7 then some ([';'], [';']) else none
    ctorOdd := fun _ => false, lowerS := id, isDigitC := fun _ => false, isSpaceC := fun _ => false
    clsModule := fun _ => [], modName := fun _ => [], modAttr := fun _ _ => none, regex := fun _ _ _ => none }

def demoToks : Array Classify.CTok := #[{ cls := 24, val := ['x'], lower := ['x'] }, { cls := 24, val := ['y'], lower := ['y'] }]

/-- the interpreter runs in the kernel: a value-keeping class re-tags token 1 and keeps its text … -/
example : (((run demoSys 6).call 0 [.toks, .int 1, .cls 9] (initState demoSys demoToks)).2.toks.toList.map
    fun t => (t.cls, t.val)) = [(24, ['x']), (9, ['y'])] := by decide +kernel

/-- … a fixed-value class REPLACES the text (`semicolon("x")` is `;`): the model says exactly what Python does;
    on the corpus, the variants and the corrupted inputs of `./check PROG` the real productions never do this -/
example : (((run demoSys 6).call 0 [.toks, .int 0, .cls 7] (initState demoSys demoToks)).2.toks.toList.map
    fun t => (t.cls, t.val)) = [(7, [';']), (24, ['y'])] := by decide +kernel

/-- out of range: IndexError, nothing written -/
example : (match ((run demoSys 6).call 0 [.toks, .int 2, .cls 9] (initState demoSys demoToks)).1 with
    | .error e => some e | .ok _ => none) = some (.py .indexError) := by
  decide +kernel

end Vsgm.C04
-- <<< WP1 layer P

-- >>> WP1b layer P: value preservation of the classifier productions
namespace Vsgm.C04
open Vsgm.Prog

/-- **productions, values**: if every function of the table passes `Chk.value` (the token list is written only by
    the fused stores `L[X] = C(L[X].get_value())` / `L[X] = C()` of `utils.py`; no `pop`, `insert`, free
    `l[i] = v`), then after ANY call — any fuel, function, arguments, also when it ends in an exception — the number
    of tokens is unchanged and every token either has its old text (with its old `lower_value` or `text.lower()`)
    or carries the fixed text `(v, lo)` of a class whose constructor ignores its argument (`ctor1 c = .fixed v lo`
    or `C()` = `(v, lo)`) -/
theorem prog_call_values (S : Sys) (htab : ∀ fd ∈ S.funs.toList, fd.ok Chk.value = true)
    (n f : Nat) (args : List Val) (st : State) :
    let st' := ((run S n).call f args st).2
    st'.toks.size = st.toks.size ∧ ∀ (i : Nat) t t', st.toks[i]? = some t → st'.toks[i]? = some t' → TokStep S t t' :=
  call_values S htab n f args st

/-- **one fused store, exactly**: either the token list is untouched (any exception, or `L` is not the token list), or
    exactly the token at the normalised index `X` is replaced by a token of the class `cls` held in `C`, whose text is
    the OLD text of that token (`lower = text.lower()`) — or the fixed pair of `cls`: `semicolon("x")` is `;` -/
theorem prog_retag_exact (S : Sys) (l x c : Nat) (b : Bool) (st : State) :
    ((retag S l x c b st).2.toks = st.toks ∧ (retag S l x c b st).2.nIns = st.nIns ∧ (retag S l x c b st).2.nDel = st.nDel)
    ∨ ∃ k t t' cls, st.toks[k]? = some t ∧ (retag S l x c b st).2 = (toksSet k t' st).2 ∧ t'.cls = cls
        ∧ (getVar c st).1 = .ok (.cls cls)
        ∧ ((b = true ∧ t'.val = t.val ∧ t'.lower = S.lowerS t.val) ∨ fixedPair S t'.val t'.lower) :=
  retag_spec S l x c b st

/-- corollary: in a system without fixed-text constructors every token keeps its text -/
theorem prog_call_values_noFixed (S : Sys) (htab : ∀ fd ∈ S.funs.toList, fd.ok Chk.value = true)
    (hnf : ∀ v lo, ¬ fixedPair S v lo) (n f : Nat) (args : List Val) (st : State) (i : Nat) (t t' : Classify.CTok)
    (h : st.toks[i]? = some t) (h' : ((run S n).call f args st).2.toks[i]? = some t') : t'.val = t.val := by
  rcases (call_values S htab n f args st).2 i t t' h h' with ⟨hv, _⟩ | ⟨v, lo, hf, _, _⟩
  · exact hv
  · exact absurd hf (hnf v lo)

/-- the functions of the GENERATED table outside the fragment, by name: token-list filters of `utils.py` used by
    rules, line-level classifiers (comment / pragma / blank / preprocessor), and — reachable from
    `design_file.tokenize` — `instantiated_unit.classify_entity_name` and the selected-name builders of
    `classify/utils.py`, which split `a.b.c` into several tokens (they keep the concatenation, not the tokens) -/
def progValueChanging : List String :=
  ["utils.combine_two_token_class_lists", "utils.remove_carriage_returns_from_token_list",
   "utils.remove_comments_from_token_list", "utils.remove_consecutive_whitespace_tokens",
   "utils.remove_whitespace_from_token_list", "utils.remove_all_trailing_whitespace", "utils.fix_blank_lines",
   "utils.fix_trailing_whitespace", "classify.blank.classify", "classify.comment.classify",
   "classify.comment.replace_token_with_ending_token", "classify.comment.remove_last_star_from_previous_token",
   "classify.comment.classify_delimited_comment_open_keyword", "classify.instantiated_unit.classify_entity_name",
   "classify.pragma.set_tokens_to_ignore", "classify.pragma.check_for_open_pragmas",
   "classify.pragma.classify_open_pragmas", "classify.pragma.classify_close_pragmas", "classify.pragma.classify_pragma",
   "classify.preprocessor.classify", "classify.utils.classify_selected_name",
   "classify.utils.build_use_clause_selected_name_token_list",
   "classify.utils.build_context_reference_selected_name_token_list",
   "classify.utils.classify_use_clause_selected_name_elements",
   "classify.utils.classify_context_reference_selected_name_elements",
   "classify.utils.replace_item_in_list_with_a_list_at_index"]

theorem progTable_value_failing :
    failingNames Chk.value Gen.Prog.progTable = progValueChanging := by decide +kernel

theorem progTable_masked_value :
    (maskNames progValueChanging Gen.Prog.progTable).all (fun fd => fd.ok Chk.value) = true := by
  decide +kernel

/-- non-vacuity: the hypothesis of `prog_call_values` holds for every system whose table is the masked generated
    table (523 of 549 functions stay as translated) -/
example (S : Sys) (h : S.funs = (maskNames progValueChanging Gen.Prog.progTable).toArray) :
    ∀ fd ∈ S.funs.toList, fd.ok Chk.value = true := by
  intro fd hfd
  rw [h] at hfd
  have := progTable_masked_value
  rw [List.all_eq_true] at this
  exact this fd (by simpa using hfd)

/-- `demoSys` (one function, the store of `assign_next_token`) passes `Chk.value` … -/
example : ∀ fd ∈ demoSys.funs.toList, fd.ok Chk.value = true := by decide +kernel

/-- … and why the theorem cannot name the NEW class of a token whose text changed: `semicolon("x")` then
    `identifier(";")` leaves a token of the value-keeping class 9 with the fixed text of class 7 -/
example :
    let st1 := ((run demoSys 6).call 0 [.toks, .int 0, .cls 7] (initState demoSys demoToks)).2
    let st2 := ((run demoSys 6).call 0 [.toks, .int 0, .cls 9] st1).2
    (st2.toks.toList.map fun t => (t.cls, t.val)) = [(9, [';']), (24, ['y'])] := by decide +kernel

/-- **link masked ↔ full table**: let `F'` be the table of `S` with some functions made opaque.  A call on the masked
    table that does not end in `unmodelled` — i.e. that never calls a masked function — IS the call on the full
    table: same result, same final state.  (`./check PROG` re-runs every corpus / variant / corrupted input whose
    executed-function set avoids the masked names on the masked table and counts the runs reproduced.) -/
theorem prog_call_link (S : Sys) (F' : Array FunDef) (hM : Masked S F') (n f : Nat) (args : List Val) (st : State)
    (h : ((run { S with funs := F' } n).call f args st).1 ≠ .error .unmodelled) :
    (run S n).call f args st = (run { S with funs := F' } n).call f args st :=
  call_link S F' hM n f args st h

/-- **values, transferred to the FULL generated table**: for every system whose table is the generated `progTable`,
    a call that the masked table (`progValueChanging` opaque) reproduces without `unmodelled` keeps the number of
    tokens and every token's text (or writes a fixed constructor text) -/
theorem prog_call_values_full (S : Sys) (hS : S.funs = (Gen.Prog.progTable.map (·.2)).toArray)
    (n f : Nat) (args : List Val) (st : State)
    (h : ((run { S with funs := (maskNames progValueChanging Gen.Prog.progTable).toArray } n).call f args st).1
      ≠ .error .unmodelled) :
    let st' := ((run S n).call f args st).2
    st'.toks.size = st.toks.size ∧ ∀ (i : Nat) t t', st.toks[i]? = some t → st'.toks[i]? = some t' → TokStep S t t' := by
  have hl := call_link S _ (masked_maskNames S progValueChanging Gen.Prog.progTable hS) n f args st h
  have htab : ∀ fd ∈ ({ S with funs := (maskNames progValueChanging Gen.Prog.progTable).toArray } : Sys).funs.toList,
      fd.ok Chk.value = true := by
    intro fd hfd
    have := progTable_masked_value
    rw [List.all_eq_true] at this
    exact this fd (by simpa using hfd)
  have hv := call_values { S with funs := (maskNames progValueChanging Gen.Prog.progTable).toArray } htab n f args st
  simp only
  rw [hl]
  exact hv

/-- the same for the length (`progLenChanging` opaque) -/
theorem prog_call_length_full (S : Sys) (hS : S.funs = (Gen.Prog.progTable.map (·.2)).toArray)
    (n f : Nat) (args : List Val) (st : State)
    (h : ((run { S with funs := (maskNames progLenChanging Gen.Prog.progTable).toArray } n).call f args st).1
      ≠ .error .unmodelled) :
    ((run S n).call f args st).2.toks.size = st.toks.size := by
  have hl := call_link S _ (masked_maskNames S progLenChanging Gen.Prog.progTable hS) n f args st h
  have htab : ∀ fd ∈ ({ S with funs := (maskNames progLenChanging Gen.Prog.progTable).toArray } : Sys).funs.toList,
      fd.ok Chk.noLen = true := by
    intro fd hfd
    have := progTable_masked_noLen
    rw [List.all_eq_true] at this
    exact this fd (by simpa using hfd)
  rw [hl]
  exact (call_length_noLen { S with funs := (maskNames progLenChanging Gen.Prog.progTable).toArray } htab n f args st).1

/-- non-vacuity of the link: a two-function table, function 1 masked; a call of function 0 (which never reaches
    function 1) does not end in `unmodelled` on the masked table, a call of function 1 does -/
def linkSys : Sys := { demoSys with funs := #[demoFun, demoFun] }
def linkMasked : Array FunDef := (maskNames ["g"] [("f", demoFun), ("g", demoFun)]).toArray

example : Masked linkSys linkMasked := masked_maskNames linkSys ["g"] [("f", demoFun), ("g", demoFun)] rfl

example : (match ((run { linkSys with funs := linkMasked } 6).call 0 [.toks, .int 1, .cls 9] (initState linkSys demoToks)).1 with
    | .error e => some e | .ok _ => none) = none := by decide +kernel

example : (match ((run { linkSys with funs := linkMasked } 6).call 1 [.toks, .int 1, .cls 9] (initState linkSys demoToks)).1 with
    | .error e => some e | .ok _ => none) = some .unmodelled := by decide +kernel

end Vsgm.C04
-- <<< WP1b layer P
