/-
  C04 — tokenizing only regroups characters: `tokens.create` neither loses, invents nor
  reorders a character, produces no empty token, and never indexes out of range.
  ONLY property theorems and their non-vacuity examples live here.
-/
import VsgModel.Lex.Create
import VsgModel.Lex.Tables
import VsgProofs.Lemmas.Lex
namespace Vsgm.C04
open Vsgm Vsgm.Lex

/-- **tokens.create only regroups**: the concatenation of the tokens is the input string, for
    every table of character predicates in which a character whose lower case ends in
    b/o/x/d is not a digit (otherwise `parse_bit_string_…` slices with `None` and duplicates
    the token) -/
theorem create_flatten (T : LexTables) (hbd : ∀ c, T.lowerBoxd c = true → T.isDigit c = false)
    (s : Str) : (create T s).flatten = s :=
  Lex.create_flatten T hbd s

/-- each of the nine passes on its own keeps the concatenation (pass 9 under `hbd`) -/
theorem passes_flatten (T : LexTables) (hbd : ∀ c, T.lowerBoxd c = true → T.isDigit c = false)
    (s : Str) : ∀ p ∈ passes T s, p.flatten = s := by
  have h0 := toChars_flatten s
  have h1 := (combineWhitespace_flatten T _).trans h0
  have h2 := (combineStringLiterals_flatten _).trans h1
  have h3 := (combineBackslash_flatten T _).trans h2
  have h4 := (combineThree_flatten T _).trans h3
  have h5 := (combineTwo_flatten T _).trans h4
  have h6 := (combineWords_flatten T _).trans h5
  have h7 := (combineCharLiterals_flatten _).trans h6
  have h8 := (splitNaturalNumbers_flatten T _).trans h7
  have h9 := (splitBitStrings_flatten T hbd _).trans h8
  intro p hp
  simp only [passes, List.mem_cons, List.not_mem_nil, or_false] at hp
  rcases hp with e | e | e | e | e | e | e | e | e <;> subst e <;> assumption

/-- **no empty token**: no token returned by `tokens.create` is empty, for every table.  (The
    trailing `""` of combine_whitespace and the `""` symbols of the backslash pass are absorbed
    by combine_characters_into_words; whatever empty token reaches split_natural_numbers is
    dropped there, because `is_natural_number("")` holds and `parse_natural_number("")` is `[]`;
    a number is only split at an `e` that has a digit string in front of it; the last pass
    filters its own splits.) -/
theorem create_no_empty (T : LexTables) (s : Str) : ∀ t ∈ create T s, t ≠ [] :=
  Lex.create_noEmpty T s

/-- the same already holds from pass 6 on (combine_characters_into_words, then
    combine_character_literals: the joined slices start inside the list because the quote
    indexes are increasing and the pairs are joined right to left), provided the empty string
    is not listed as a single-character symbol -/
theorem passes_no_empty (T : LexTables) (hs : [] ∉ T.single) (s : Str) :
    ∀ p ∈ (passes T s).drop 5, ∀ t ∈ p, t ≠ [] := by
  have h6 := combineWords_noEmpty T hs (combineTwo T (combineThree T (combineBackslash T
    (combineStringLiterals (combineWhitespace T (toChars s))))))
  have h7 := combineCharLiterals_noEmpty _ h6
  have h8 := splitNaturalNumbers_noEmpty T (combineCharLiterals (combineWords T (combineTwo T
    (combineThree T (combineBackslash T (combineStringLiterals (combineWhitespace T (toChars s))))))))
  have h9 := splitBitStrings_noEmpty T _ h8
  intro p hp
  simp only [passes, List.drop_succ_cons, List.drop_zero, List.mem_cons, List.not_mem_nil,
    or_false] at hp
  rcases hp with e | e | e | e <;> subst e <;> assumption

/-- **no IndexError in find_character_literal_candidates**: for two consecutive quote indexes
    `q, q'` (the loop runs over `lQuotes[0:-1]`, so `q` always has a successor) the index
    `q + 1` that `lChars[iQuote + 1]` looks up is inside the token list -/
theorem indexes_in_range (v : Str) (l : List Str) (pre post : List Nat) (q q' : Nat)
    (h : indexesOf v l 0 = pre ++ q :: q' :: post) : q + 1 < l.length := by
  have := indexesOf_consecutive v l pre post q q' h
  omega

/-- the same, positionally: every element of `lQuotes[0:-1]` -/
theorem indexes_in_range_get (v : Str) (l : List Str) (i : Nat)
    (h : i + 1 < (indexesOf v l 0).length) : (indexesOf v l 0)[i] + 1 < l.length := by
  have hs := List.pairwise_iff_getElem.1 (indexesOf_sorted v l 0) i (i + 1) (by omega) h (by omega)
  have hr := indexesOf_range v l 0 _ (List.getElem_mem h)
  omega

/-- hence the model's `l[q + 1]?` in `candidates` is never `none` on the quote indexes -/
theorem candidates_lookup_some (v : Str) (l : List Str) (pre post : List Nat) (q q' : Nat)
    (h : indexesOf v l 0 = pre ++ q :: q' :: post) : ∃ t, l[q + 1]? = some t :=
  ⟨l[q + 1]'(indexes_in_range v l pre post q q' h), List.getElem?_eq_getElem _⟩

/-- the tables of the running system (CPython's predicates, the symbol lists of tokens.py)
    satisfy the two hypotheses -/
theorem pyTables_hyps :
    (∀ c, pyTables.lowerBoxd c = true → pyTables.isDigit c = false) ∧ [] ∉ pyTables.single := by
  constructor
  · intro c hc
    simp only [pyTables, Gen.lowerBoxdCodes, decide_eq_true_eq, List.mem_cons, List.not_mem_nil,
      or_false] at hc
    show inRanges Gen.digitRanges c.toNat = false
    rcases hc with h | h | h | h | h | h | h | h <;> rw [h] <;> decide
  · decide

theorem create_flatten_py (s : Str) : (create pyTables s).flatten = s :=
  create_flatten pyTables pyTables_hyps.1 s

theorem create_no_empty_py (s : Str) : ∀ t ∈ create pyTables s, t ≠ [] :=
  create_no_empty pyTables s

/-! ### non-vacuity -/

example : create pyTables "a <= x\"AB\"".toList =
    ["a".toList, " ".toList, "<=".toList, " ".toList, "x".toList, "\"AB\"".toList] := by decide +kernel

example : create pyTables "c := '1';".toList =
    ["c".toList, " ".toList, ":=".toList, " ".toList, "'1'".toList, ";".toList] := by decide +kernel

example : create pyTables "1e3 ".toList = ["1".toList, "e".toList, "3".toList, " ".toList] := by
  decide +kernel

/-- the hypothesis of `create_flatten` is not decorative: with a table in which `x` is a digit the
    base specifier is duplicated -/
example :
    let T : LexTables := { pyTables with isDigit := fun _ => true }
    (create T "x\"1\"".toList).flatten = "xx\"1\"".toList := by decide +kernel

/-- … and the hypothesis of `passes_no_empty` neither: with `""` listed as a single-character
    symbol the trailing `""` of combine_whitespace survives combine_characters_into_words -/
example :
    let T : LexTables := { pyTables with single := [] :: pyTables.single }
    (passes T "a".toList)[5]? = some ["a".toList, []] := by decide +kernel

/-- a quote pair whose lookup is exercised -/
example : indexesOf sq ["'".toList, "1".toList, "'".toList] 0 = [] ++ 0 :: 2 :: [] := by decide

end Vsgm.C04
