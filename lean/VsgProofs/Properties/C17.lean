/-
  C17 — the emitted configuration (--output_configuration / --rule_configuration) reproduces the run.
  ONLY property theorems and their non-vacuity examples live here.  Model: VsgModel/Engine/Config.lean.
-/
import VsgModel.Engine.Config
import VsgModel.Generated.Rules
import VsgProofs.Lemmas.Config
import VsgProofs.Lemmas.StrictSorted
namespace Vsgm.C17
open Vsgm Vsgm.Cfg Vsgm.Cfg.Lemmas

/-! ### reachable rule states -/

/-- `r` is a state of the rule object `r0` after some `rule_list.configure` calls: same identity and
    `configuration` list, and every attribute `r0` has is still there -/
structure Reach (r0 r : RuleObj) : Prop where
  id : r.id = r0.id
  configuration : r.configuration = r0.configuration
  mono : ∀ a, dhas r0.dict a = true → dhas r.dict a = true

theorem Reach.refl (r : RuleObj) : Reach r r := ⟨rfl, rfl, fun _ h => h⟩

/-- every state `apply_rules.configure_rules` produces is reachable in that sense, position by position -/
theorem configureRules_reach (c : Config) (rs rs' : List RuleObj) (fname : String)
    (h : configureRules c rs fname = .ok rs') :
    ∀ (i : Nat) (r0 r : RuleObj), rs[i]? = some r0 → rs'[i]? = some r → Reach r0 r := by
  unfold configureRules at h
  simp only [bind, Except.bind] at h
  cases h1 : ruleListConfigure (some c.sevs) c.doc.rule c.doc.debug rs with
  | error e => simp [h1] at h
  | ok rs1 =>
    simp only [h1] at h
    cases h2 : configurePerOption c.doc.fileList fname rs1 with
    | error e => simp [h2] at h
    | ok rs2 =>
      simp only [h2] at h
      obtain ⟨l1, p1⟩ := ruleListConfigure_spec _ _ _ _ _ h1
      obtain ⟨l2, p2⟩ := configurePerOption_spec _ _ _ _ h2
      obtain ⟨l3, p3⟩ := configurePerOption_spec _ _ _ _ h
      intro i r0 r hr hr'
      obtain ⟨r1, hr1⟩ := getElem?_of_length_eq rs rs1 i r0 l1 hr
      obtain ⟨r2, hr2⟩ := getElem?_of_length_eq rs1 rs2 i r1 l2 hr1
      have q1 := p1 i r0 r1 hr hr1
      have q2 := p2 i r1 r2 hr1 hr2
      have q3 := p3 i r2 r hr2 hr'
      exact ⟨q3.id.trans (q2.id.trans q1.id), q3.configuration.trans (q2.configuration.trans q1.configuration),
        fun a ha => q3.mono a (q2.mono a (q1.mono a ha))⟩

/-- for a reachable state of a rule whose `configuration` names are all attributes (table fact
    `config_in_dict`) and whose severity is not None, `Rule.get_configuration` does not raise -/
theorem getConfiguration_total (r0 r : RuleObj) (s : Sev) (hr : Reach r0 r)
    (h0 : ∀ a ∈ r0.configuration, a ≠ "severity" → dhas r0.dict a = true) (hs : r.severity = some s) :
    ∃ c, getConfiguration r = .ok c := by
  rw [getConfiguration_eq]
  have : ∀ (l : List String) (acc : Attrs), (∀ a ∈ l, a ≠ "severity" → dhas r.dict a = true) →
      ∃ d, l.foldlM (gcStep r.dict) acc = .ok d := by
    intro l
    induction l with
    | nil => intro acc _; exact ⟨acc, rfl⟩
    | cons p t ih =>
      intro acc hl
      simp only [List.foldlM_cons, bind, Except.bind]
      by_cases hp : p = "severity"
      · simp only [gcStep, hp, if_true]
        exact ih _ (fun a ha => hl a (List.mem_cons_of_mem _ ha))
      · have := hl p (List.mem_cons_self ..) hp
        unfold dhas at this
        cases hd : dget r.dict p with
        | none => simp [hd] at this
        | some v =>
          simp only [gcStep, hp, if_false, hd]
          exact ih _ (fun a ha => hl a (List.mem_cons_of_mem _ ha))
  obtain ⟨d, hd⟩ := this r.configuration [] (by
    intro a ha hne
    rw [hr.configuration] at ha
    exact hr.mono a (h0 a ha hne))
  exact ⟨dset d "severity" (.str s.name), by simp only [hd, Except.bind, hs]⟩

/-- `Error` and `Warning` resolve to themselves in the built-in list -/
theorem builtin_resolves_aux (s : Sev) (h : s ∈ builtinSevs) : getSeverityNamed builtinSevs (.str s.name) = some s := by
  simp only [builtinSevs, List.mem_cons, List.not_mem_nil, or_false] at h
  rcases h with e | e <;> subst e <;> decide

/-! ### round trip of one rule -/

/-- `oc_roundtrip`: take any state `r` of a rule, its emitted fragment `c = r.get_configuration()`, and a
    fresh rule object `r0` of the same class (same id and `configuration`, not deprecated, having the
    attributes its `configuration` names).  Configuring `r0` with ANY `rule` dictionary whose entry for the
    rule is `c` (the emitted file: an entry per rule, no style) under a severity list in which the emitted
    severity NAME resolves to the same severity gives back every value named in `configuration`, and the
    severity — whatever the dictionary says at its group / global levels. -/
theorem oc_roundtrip (sl : List Sev) (sec : RuleSec) (r r0 r1 : RuleObj) (c : Attrs) (s : Sev) (msgs : List String)
    (hid : r0.id = r.id) (hconf : r0.configuration = r.configuration) (hdep : r0.deprecated = false)
    (hkeys : ∀ a ∈ r.configuration, a ≠ "severity" → dhas r0.dict a = true)
    (hc : getConfiguration r = .ok c) (hs : r.severity = some s)
    (hres : getSeverityNamed sl (.str s.name) = some s)
    (hsec : dget sec r0.id = some (.attrs c))
    (hcfg : ruleConfigure (some sl) sec r0 = .ok (r1, msgs)) :
    msgs = [] ∧ r1.configuration = r.configuration ∧
      (∀ a ∈ r.configuration, a ≠ "severity" → dget r1.dict a = dget r.dict a) ∧ r1.severity = r.severity := by
  rcases ruleConfigure_ok _ _ _ _ _ hcfg with ⟨hd, _, _⟩ | ⟨hm, ss⟩
  · rw [hdep] at hd; cases hd
  · obtain ⟨h1, h2⟩ := roundtrip_core sl sec r r0 r1 c s hid hc hs hres hsec hkeys
      (fun a ha hne => ss.dict a hne (hkeys a ha hne)) ss.sev
    exact ⟨hm, ss.configuration.trans hconf, h1, h2⟩

/-- `oc_idempotent` (one rule): the fragment emitted after the round trip is identical -/
theorem oc_idempotent (sl : List Sev) (sec : RuleSec) (r r0 r1 : RuleObj) (c : Attrs) (s : Sev) (msgs : List String)
    (hid : r0.id = r.id) (hconf : r0.configuration = r.configuration) (hdep : r0.deprecated = false)
    (hkeys : ∀ a ∈ r.configuration, a ≠ "severity" → dhas r0.dict a = true)
    (hc : getConfiguration r = .ok c) (hs : r.severity = some s)
    (hres : getSeverityNamed sl (.str s.name) = some s)
    (hsec : dget sec r0.id = some (.attrs c))
    (hcfg : ruleConfigure (some sl) sec r0 = .ok (r1, msgs)) :
    getConfiguration r1 = .ok c := by
  obtain ⟨_, h1, h2, h3⟩ := oc_roundtrip sl sec r r0 r1 c s msgs hid hconf hdep hkeys hc hs hres hsec hcfg
  rw [← hc]
  exact getConfiguration_congr r r1 h1 h2 (by rw [h3])

/-- the `-rc` fragment `{rule: {id: c}}` is the special case of a one-entry dictionary -/
example (r : RuleObj) (c : Attrs) : dget [(r.id, Entry.attrs c)] r.id = some (.attrs c) := by simp [dget]

/-! ### the whole emitted file -/

/-- `oc_idempotent` for the document: emit with `-oc` under any configuration `c`, read the emitted file
    back alone (no style) through `config.New`, emit again: the `rule` dictionary of the second file is
    identical to the first.  Guards: distinct rule ids; every `configuration` name is an attribute and
    none is called `debug` (table facts below); and every live rule's severity under `c` is a BUILT-IN one
    — the emitted file has no `severity` section. -/
theorem oc_rule_section_idempotent (env : Env) (c : Config) (defaults : List RuleObj) (cla : List String)
    (lr : Option String) (oc : OcDoc) (h : generateOutputConfiguration env c defaults cla lr = .ok oc)
    (hnodup : (defaults.map (·.id)).Nodup)
    (hkeys : ∀ r0 ∈ defaults, ∀ a ∈ r0.configuration, a ≠ "severity" → dhas r0.dict a = true)
    (hdebug : ∀ r0 ∈ defaults, "debug" ∉ r0.configuration)
    (hbuiltin : ∀ rs, ruleListConfigure (some c.sevs) c.doc.rule c.doc.debug defaults = .ok rs →
      ∀ r ∈ rs, r.deprecated = false → ∀ s, r.severity = some s → s ∈ builtinSevs)
    (dbg : Bool) (c2 : Config) (h2 : newConfig env {} [oc.toDoc] dbg = .ok c2)
    (cla2 : List String) (lr2 : Option String) (oc2 : OcDoc)
    (h3 : generateOutputConfiguration env c2 defaults cla2 lr2 = .ok oc2) : oc2.rule = oc.rule := by
  obtain ⟨rs, hcfg, hrc⟩ := genOc_unfold env c defaults cla lr oc h
  obtain ⟨rs2, hcfg2, hrc2⟩ := genOc_unfold env c2 defaults cla2 lr2 oc2 h3
  obtain ⟨hrule, hsevs, _⟩ := newConfig_toDoc env oc dbg c2 h2
  have rel1 := ruleListConfigure_spec _ _ _ _ _ hcfg
  have rel2 := ruleListConfigure_spec _ _ _ _ _ hcfg2
  have hids : (rs.map (·.id)).Nodup := by rw [map_id_of_listRel _ _ _ _ rel1]; exact hnodup
  rw [ruleListGetConfiguration_eq] at hrc hrc2
  obtain ⟨g1, g2, _⟩ := rlgc_spec rs [] oc.rule hrc hids
  have hnk : NodupKeys oc.rule := g1 (by simp [NodupKeys, dkeys])
  have key : rs2.foldlM rlgcStep [] = rs.foldlM rlgcStep [] := by
    apply rlgc_congr
    apply forall2_of_index rs rs2 (by rw [rel2.1, rel1.1])
    intro i r r1 hr hr1
    have hi : i < defaults.length := by
      rcases List.getElem?_eq_some_iff.mp hr with ⟨hi, _⟩; rw [rel1.1] at hi; exact hi
    have hr0 : defaults[i]? = some defaults[i] := List.getElem?_eq_getElem hi
    have q1 := rel1.2 i _ r hr0 hr
    have q2 := rel2.2 i _ r1 hr0 hr1
    have hmem0 : defaults[i] ∈ defaults := List.getElem_mem hi
    refine ⟨q2.id.trans q1.id.symm, q2.deprecated.trans q1.deprecated.symm, ?_⟩
    intro hdep
    have hmem : r ∈ rs := List.mem_of_getElem? hr
    obtain ⟨cf, hcf, hget⟩ := g2 r hmem hdep
    cases hsv : r.severity with
    | none =>
      rw [getConfiguration_eq] at hcf
      cases hf : r.configuration.foldlM (gcStep r.dict) ([] : Attrs) with
      | error e => simp [hf, Except.bind] at hcf
      | ok d => simp [hf, Except.bind, hsv] at hcf
    | some s =>
      have hne : oc.rule ≠ [] := by
        intro e; rw [e] at hget; simp [dget] at hget
      rw [hrule, mergeRule_none_nodup _ (nodupKeys_asSec _ hnk) (by simpa [asSec] using hne)] at q2
      have hsec : dget (asSec oc.rule) defaults[i].id = some (.attrs cf) := by
        rw [dget_asSec, ← q1.id, hget]; rfl
      have hk : ∀ a ∈ r.configuration, a ≠ "severity" → dhas defaults[i].dict a = true := by
        intro a ha hn
        rw [q1.configuration] at ha
        exact hkeys _ hmem0 a ha hn
      have hres := C17.builtin_resolves_aux s (hbuiltin rs hcfg r hmem hdep s hsv)
      rw [hsevs] at q2
      obtain ⟨e1, e2⟩ := roundtrip_core builtinSevs (asSec oc.rule) r defaults[i] r1 cf s q1.id.symm hcf hsv hres hsec hk
        (by
          intro a ha hn
          have hdb : a ≠ "debug" := by
            intro e; subst e
            rw [q1.configuration] at ha
            exact hdebug _ hmem0 ha
          exact q2.dict a hn hdb (hk a ha hn))
        q2.sev
      exact getConfiguration_congr r r1 (q2.configuration.trans q1.configuration.symm) e1 (by rw [e2])
  rw [key, hrc] at hrc2
  exact (Except.ok.inj hrc2).symm

/-- the built-in severities survive the round trip: the emitted file has no `severity` section, so it is
    read under the built-in list, where `Error` and `Warning` resolve to themselves -/
theorem builtin_resolves : ∀ s ∈ builtinSevs, getSeverityNamed builtinSevs (.str s.name) = some s := by decide

/-- the emitted document never carries a `severity` section (nor `file_rules`): it is read back under the
    built-in severity list -/
theorem emitted_has_no_severity_section (o : OcDoc) :
    o.toDoc.severity = none ∧ o.toDoc.fileRules = none ∧ createSevList o.toDoc = .ok builtinSevs :=
  ⟨rfl, rfl, rfl⟩

/-! ### the full statement fails for user-defined severities -/

/-- the round trip as the property states it: reading the emitted fragment back (built-in severities
    only, because `-oc` emits no `severity` section) succeeds and reproduces the severity of every rule state -/
def OcReproducesSeverity : Prop :=
  ∀ (r r0 : RuleObj) (c : Attrs),
    r0.id = r.id → r0.configuration = r.configuration → r0.deprecated = false →
    (∀ a ∈ r.configuration, a ≠ "severity" → dhas r0.dict a = true) →
    getConfiguration r = .ok c →
    ∃ r1 msgs, ruleConfigure (some builtinSevs) [(r.id, .attrs c)] r0 = .ok (r1, msgs) ∧ r1.severity = r.severity

def wDefault : RuleObj :=
  { id := "length_001", groups := ["length"],
    configuration := ["indent_style", "indent_size", "phase", "disable", "fixable", "severity", "user_error_message", "length"],
    dict := [("indent_style", .str "spaces"), ("indent_size", .int 2), ("phase", .int 7), ("disable", .bool false),
             ("fixable", .bool false), ("user_error_message", .str ""), ("length", .int 120)],
    severity := some ⟨"Warning", "warning"⟩, options := [], deprecated := false }

/-- `length_001` configured with the user-defined severity `Future` (type warning), as in
    docs/rule_severity.rst -/
def wConfigured : RuleObj := { wDefault with severity := some ⟨"Future", "warning"⟩ }

/-- witness on the model: the fragment says `severity: Future`; read back without the `severity` section
    the name is unknown — a configuration error since the repo repair of the severity look-up (before it
    the rule's severity silently became None and emitting again raised) -/
theorem user_severity_witness :
    ∃ c, getConfiguration wConfigured = .ok c ∧
      ruleConfigure (some builtinSevs) [("length_001", .attrs c)] wDefault = .error (.config "unknownSeverity" "Future") := by
  exact ⟨_, rfl, rfl⟩

theorem oc_roundtrip_fails_for_user_severities : ¬ OcReproducesSeverity := by
  intro h
  obtain ⟨c, hc, hr⟩ := user_severity_witness
  obtain ⟨r1, msgs, hok, _⟩ := h wConfigured wDefault c rfl rfl rfl (by decide) hc
  rw [show wConfigured.id = "length_001" from rfl, hr] at hok
  cases hok

/-! ### table fact -/

/-- every name in every rule's `configuration` is an attribute of the rule object (hypothesis `hkeys` /
    `h0` above), for all rules of the regenerated table -/
theorem config_in_dict : ∀ r ∈ Gen.ruleTable, r.configInDict = true := by decide +kernel

/-- rule ids are distinct and no rule has a configurable attribute called `debug` (hypotheses `hnodup`,
    `hdebug` of `oc_rule_section_idempotent`) -/
theorem ids_distinct_no_debug : (Gen.ruleTable.map (·.id)).Nodup ∧ ∀ r ∈ Gen.ruleTable, "debug" ∉ r.configuration := by
  constructor
  · -- the generated table is sorted by id: strict sortedness is checked in linear time
    exact Lemmas.nodup_of_sorted_codes _ (by decide +kernel)
  · decide +kernel

end Vsgm.C17
