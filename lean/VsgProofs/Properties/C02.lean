/-
  C02 — comments, pragmas and preprocessor lines survive fixing verbatim.
-/
import VsgModel.Engine.RuleRun
import VsgModel.Engine.Relations
import VsgModel.Check.Verdict
namespace Vsgm.C02
open Vsgm

/-- **engine**: per-violation preservation of the comment sequence lifts to the whole update -/
theorem update_commentSeq (f : List Tok) (es : List (Edit Tok)) (h : Chain f.length 0 es)
    (hp : ∀ e ∈ es, commentSeq e.new = commentSeq (old f e)) :
    commentSeq (update f es) = commentSeq f :=
  update_hom commentSeq commentSeq_append f es h hp

/-- dropping beginning_of_file pseudo tokens never drops a comment -/
theorem dropBof_commentSeq (l : List Tok) : commentSeq (dropBof l) = commentSeq l := by
  induction l with
  | nil => rfl
  | cons t l ih =>
    by_cases h : t.isBof = true
    · have hc : t.isCommentLike = false := by
        unfold Tok.isBof at h; unfold Tok.isCommentLike Kind.isCommentLike
        cases hk : t.kind <;> simp_all
      simp [dropBof, h, commentSeq, hc] at ih ⊢
      exact ih
    · simp [dropBof, h, commentSeq] at ih ⊢
      exact ih

/-- phases 2–6: layout-only and case-only steps keep every comment verbatim and in order -/
theorem layout_or_case_step (fold : Str → Str) (a b : List Tok) (h : LayoutOnly a b ∨ CaseOnly fold a b) :
    commentSeq a = commentSeq b := by
  rcases h with h | h
  · exact h.commentSeq
  · exact h.commentSeq fold

/-- a run of steps each of which keeps the comment sequence keeps it end to end -/
theorem run_commentSeq (states : List (List Tok)) (first : List Tok)
    (h : StepsAll (fun a b => commentSeq a = commentSeq b) first states) :
    commentSeq (lastOf first states) = commentSeq first := by
  induction states generalizing first with
  | nil => rfl
  | cons s rest ih =>
    simp only [StepsAll] at h
    rw [h.1]; exact ih s h.2

/-- `commentEndsLine` really says that the token after a `--` comment is a line break:
    in the emitted text nothing follows the comment on its line, so nothing is absorbed -/
theorem commentEndsLine_next (l : List Tok) (h : commentEndsLine l = true) (i : Nat) (s t : Tok)
    (hs : l[i]? = some s) (ht : l[i + 1]? = some t) (hc : s.kind = .comment ∨ s.kind = .pragma) :
    t.kind = .cr := by
  induction l generalizing i with
  | nil => simp at hs
  | cons x l ih =>
    cases l with
    | nil => simp at ht
    | cons y l' =>
      simp only [commentEndsLine, Bool.and_eq_true] at h
      cases i with
      | zero =>
        simp at hs ht; subst hs; subst ht
        have h1 := h.1
        rcases hc with hc | hc <;> simp [hc] at h1 <;> exact h1
      | succ j =>
        simp at hs ht
        exact ih h.2 j (by simpa using hs) (by simpa using ht)

example : commentEndsLine [⟨4, .comment, "-- c".toList⟩, ⟨2, .cr, []⟩, ⟨9, .code, "a".toList⟩] = true := by decide
example : commentEndsLine [⟨4, .comment, "-- c".toList⟩, ⟨9, .code, "a".toList⟩] = false := by decide

end Vsgm.C02
