/-
  C02 — comments, pragmas and preprocessor lines survive fixing verbatim.
-/
import VsgModel.Engine.RuleRun
import VsgModel.Engine.Relations
import VsgModel.Check.Verdict
import VsgProofs.Lemmas.BaseWsEffects
import VsgProofs.Lemmas.BaseBindEffects
import VsgProofs.Lemmas.PostPhase1
namespace Vsgm.C02
open Vsgm

/-- **engine**: per-violation preservation of the comment sequence lifts to the whole update -/
theorem update_commentSeq (f : List Tok) (es : List (Edit Tok)) (h : Chain f.length 0 es)
    (hp : ∀ e ∈ es, commentSeq e.new = commentSeq (old f e)) :
    commentSeq (update f es) = commentSeq f :=
  update_hom commentSeq commentSeq_append f es h hp

/-- dropping beginning_of_file pseudo tokens never drops a comment -/
theorem dropBof_commentSeq (l : List Tok) : commentSeq (dropBof l) = commentSeq l := by
  induction l with
  | nil => rfl
  | cons t l ih =>
    by_cases h : t.isBof = true
    · have hc : t.isCommentLike = false := by
        unfold Tok.isBof at h; unfold Tok.isCommentLike Kind.isCommentLike
        cases hk : t.kind <;> simp_all
      simp [dropBof, h, commentSeq, hc] at ih ⊢
      exact ih
    · simp [dropBof, h, commentSeq] at ih ⊢
      exact ih

/-- phases 2–6: layout-only and case-only steps keep every comment verbatim and in order -/
theorem layout_or_case_step (fold : Str → Str) (a b : List Tok) (h : LayoutOnly a b ∨ CaseOnly fold a b) :
    commentSeq a = commentSeq b := by
  rcases h with h | h
  · exact h.commentSeq
  · exact h.commentSeq fold

/-- a run of steps each of which keeps the comment sequence keeps it end to end -/
theorem run_commentSeq (states : List (List Tok)) (first : List Tok)
    (h : StepsAll (fun a b => commentSeq a = commentSeq b) first states) :
    commentSeq (lastOf first states) = commentSeq first := by
  induction states generalizing first with
  | nil => rfl
  | cons s rest ih =>
    simp only [StepsAll] at h
    rw [h.1]; exact ih s h.2

/-- `commentEndsLine` really says that the token after a `--` comment is a line break:
    in the emitted text nothing follows the comment on its line, so nothing is absorbed -/
theorem commentEndsLine_next (l : List Tok) (h : commentEndsLine l = true) (i : Nat) (s t : Tok)
    (hs : l[i]? = some s) (ht : l[i + 1]? = some t) (hc : s.kind = .comment ∨ s.kind = .pragma) :
    t.kind = .cr := by
  induction l generalizing i with
  | nil => simp at hs
  | cons x l ih =>
    cases l with
    | nil => simp at ht
    | cons y l' =>
      simp only [commentEndsLine, Bool.and_eq_true] at h
      cases i with
      | zero =>
        simp at hs ht; subst hs; subst ht
        have h1 := h.1
        rcases hc with hc | hc <;> simp [hc] at h1 <;> exact h1
      | succ j =>
        simp at hs ht
        exact ih h.2 j (by simpa using hs) (by simpa using ht)

example : commentEndsLine [⟨4, .comment, "-- c".toList⟩, ⟨2, .cr, []⟩, ⟨9, .code, "a".toList⟩] = true := by decide
example : commentEndsLine [⟨4, .comment, "-- c".toList⟩, ⟨9, .code, "a".toList⟩] = false := by decide

/-! ### layer B: the whitespace family — BEGIN ag_bws -/

/-- the strictly-layout owners keep every comment verbatim (all actions, all token lists, under the guard) -/
theorem bfix_ws_commentSeq_partial (owner : String) (params action : Base.KV) (old new : List Tok)
    (ho : owner ∈ Base.wsLayoutOwners) (h : Base.fixByOwner owner params action old = some (.ok new))
    (hg : Base.wsGuard (fun k => k.isLayout) owner params action old = true) : commentSeq old = commentSeq new := by
  rw [Base.fixByOwner_ws _ _ _ _ (Base.ws_layout_mem owner ho)] at h
  exact (Base.ws_layoutOnly owner params action old new (Or.inl ho) h hg).commentSeq

/-- whitespace_002 and comment_100 change comment VALUES, but only in blanks and tabs: the comment sequences
    agree after deleting blanks and tabs -/
theorem bfix_wsComment_commentSeq_modBlanks (owner : String) (params action : Base.KV) (old new : List Tok)
    (ho : owner ∈ Base.wsOwners) (h : Base.fixByOwner owner params action old = some (.ok new))
    (hg : Base.wsGuard (fun k => k.isLayout) owner params action old = true) :
    (nonLayout old).map Verdict.normTok = (nonLayout new).map Verdict.normTok := by
  rw [Base.fixByOwner_ws _ _ _ _ ho] at h
  have := Base.ws_layoutOnlyW owner params action old new ho h hg
  unfold Verdict.layoutOnlyW at this
  simpa using this

/-- **whitespace_between_tokens (171 rules)**: whatever surrounds the region (`pre`, `suf`), a comment never
    absorbs what follows it — `_partial`: unless the fix INSERTS a whitespace directly after a comment, i.e.
    `lTokens[0]` is a comment / pragma and `lTokens[1]` is not whitespace -/
theorem bfix_wsBetween_commentEndsLine_partial (params action : Base.KV) (old new pre suf : List Tok) (nos : Base.NoS)
    (hn : Base.nosOf (params.get "number_of_spaces") = .ok nos)
    (hg : ∀ t ∈ Base.WsBetween.touched nos old, t.kind ≠ .cr)
    (hq : ∀ a t1, old[0]? = some a → old[1]? = some t1 → t1.kind ≠ .ws → a.kind ≠ .comment ∧ a.kind ≠ .pragma)
    (hpre : ∀ p, pre.getLast? = some p → p.kind ≠ .comment ∧ p.kind ≠ .pragma)
    (h : Base.fixByOwner Base.wsBetweenOwner params action old = some (.ok new))
    (hc : commentEndsLine (pre ++ old ++ suf) = true) : commentEndsLine (pre ++ new ++ suf) = true := by
  rw [Base.fixByOwner_ws _ _ _ _ (by decide +kernel)] at h
  simp only [Base.wsFixByOwner, beq_self_eq_true, if_true, Option.some.injEq, hn, bind, Except.bind] at h
  apply Base.WsBetween.fixV_celSafe _ nos action old new hg _ h pre suf _ hc
  · intro _ t1 h1 hk x hx
    cases ha : old[0]? with
    | none => rw [ha] at hx; cases hx
    | some a =>
      rw [ha] at hx
      have hax : a = x := by simpa using hx
      subst hax
      have := hq a t1 ha h1 hk
      simp [Kind.isCmt, this.1, this.2]
  · intro k hk
    rw [List.getLast?_map] at hk
    cases hp : pre.getLast? with
    | none => simp [hp] at hk
    | some p =>
      simp [hp] at hk
      have := hpre p hp
      rw [← hk]; simp [Kind.isCmt, this.1, this.2]

/-- the excluded case is real for the function (hand-built list; no extractor of the family delivers it,
    a `--` comment being followed by a line break and a line break never being the right token of a pair):
    a whitespace inserted between a comment and its line break -/
theorem bfix_wsBetween_commentEndsLine_witness :
    ∃ old new, Base.fixByOwner Base.wsBetweenOwner [("number_of_spaces", .int 1)] [("spaces", .int 1)] old = some (.ok new) ∧
      commentEndsLine old = true ∧ commentEndsLine new = false :=
  ⟨[⟨13, .comment, "-- c".toList⟩, ⟨5, .cr, "\n".toList⟩],
   [⟨13, .comment, "-- c".toList⟩, ⟨Gen.wsCls, .ws, " ".toList⟩, ⟨5, .cr, "\n".toList⟩],
   by decide +kernel, by decide +kernel, by decide +kernel⟩

/-- the pure deletions (remove_spaces_before_token_rule, whitespace_005, whitespace_008) and the two
    value-only edits (comment_100; whitespace_002 on a comment) are safe in every context -/
theorem bfix_wsDeletions_commentEndsLine_partial (owner : String) (params action : Base.KV) (old new pre suf : List Tok)
    (ho : owner ∈ [Base.removeBeforeOwner, Base.ws005Owner, Base.ws008Owner, Base.comment100Owner])
    (hg : Base.wsGuard (fun k => k != .cr) owner params action old = true)
    (hpre : ∀ p, pre.getLast? = some p → p.kind ≠ .comment ∧ p.kind ≠ .pragma)
    (h : Base.fixByOwner owner params action old = some (.ok new))
    (hc : commentEndsLine (pre ++ old ++ suf) = true) : commentEndsLine (pre ++ new ++ suf) = true := by
  have hpre' : Base.lastNotCmt (pre.map (·.kind)) := by
    intro k hk
    rw [List.getLast?_map] at hk
    cases hp : pre.getLast? with
    | none => simp [hp] at hk
    | some p =>
      simp [hp] at hk
      have := hpre p hp
      rw [← hk]; simp [Kind.isCmt, this.1, this.2]
  have hP : ∀ k : Kind, (k != Kind.cr) = true → k ≠ .cr := fun k hk => by simpa using hk
  simp only [List.mem_cons, List.not_mem_nil, or_false] at ho
  rcases ho with rfl | rfl | rfl | rfl
  · rw [Base.fixByOwner_ws _ _ _ _ (by decide +kernel)] at h
    have e1 : (Base.removeBeforeOwner == Base.wsBetweenOwner) = false := by decide
    have e2 : (Base.removeBeforeOwner == Base.nSpacesOwner) = false := by decide
    have e3 : (Base.removeBeforeOwner == Base.boundedOwner) = false := by decide
    simp only [Base.wsFixByOwner, e1, e2, e3, Bool.false_eq_true, if_false, beq_self_eq_true, if_true, Option.some.injEq] at h
    simp only [Base.wsGuard, e1, e2, e3, Bool.false_eq_true, if_false, beq_self_eq_true, if_true, Base.RemoveBefore.guard] at hg
    exact Base.RemoveBefore.fixV_celSafe old new (Base.optAll_spec _ hP _ hg) h pre suf hpre' hc
  · rw [Base.fixByOwner_ws _ _ _ _ (by decide +kernel)] at h
    have e1 : (Base.ws005Owner == Base.wsBetweenOwner) = false := by decide
    have e2 : (Base.ws005Owner == Base.nSpacesOwner) = false := by decide
    have e3 : (Base.ws005Owner == Base.boundedOwner) = false := by decide
    have e4 : (Base.ws005Owner == Base.removeBeforeOwner) = false := by decide
    have e5 : (Base.ws005Owner == Base.ws001Owner) = false := by decide
    have e6 : (Base.ws005Owner == Base.ws002Owner) = false := by decide
    simp only [Base.wsFixByOwner, e1, e2, e3, e4, e5, e6, Bool.false_eq_true, if_false, beq_self_eq_true, if_true, Option.some.injEq] at h
    simp only [Base.wsGuard, e1, e2, e3, e4, e5, e6, Bool.false_eq_true, if_false, beq_self_eq_true, if_true, Base.Ws005.guard] at hg
    exact Base.Ws005.fixV_celSafe old new (Base.optAll_spec _ hP _ hg) h pre suf hpre' hc
  · rw [Base.fixByOwner_ws _ _ _ _ (by decide +kernel)] at h
    have e1 : (Base.ws008Owner == Base.wsBetweenOwner) = false := by decide
    have e2 : (Base.ws008Owner == Base.nSpacesOwner) = false := by decide
    have e3 : (Base.ws008Owner == Base.boundedOwner) = false := by decide
    have e4 : (Base.ws008Owner == Base.removeBeforeOwner) = false := by decide
    have e5 : (Base.ws008Owner == Base.ws001Owner) = false := by decide
    have e6 : (Base.ws008Owner == Base.ws002Owner) = false := by decide
    have e7 : (Base.ws008Owner == Base.ws005Owner) = false := by decide
    simp only [Base.wsFixByOwner, e1, e2, e3, e4, e5, e6, e7, Bool.false_eq_true, if_false, beq_self_eq_true, if_true, Option.some.injEq] at h
    simp only [Base.wsGuard, e1, e2, e3, e4, e5, e6, e7, Bool.false_eq_true, if_false, beq_self_eq_true, if_true, Base.Ws008.guard] at hg
    exact Base.Ws008.fixV_celSafe old new (Base.optAll_spec _ hP _ hg) h pre suf hpre' hc
  · rw [Base.fixByOwner_ws _ _ _ _ (by decide +kernel), Base.wsFix_comment100] at h
    exact Base.Comment100.fixV_celSafe action old new (by simpa using h) pre suf hpre' hc

/-- **every strictly-layout owner (and whitespace_002 on whitespace), all actions**: a region that contains no
    comment / pragma token can be repaired in any context without a comment absorbing anything (covers
    n_spaces_before_and_after_tokens and spaces_before_and_after_tokens_when_bounded_by_tokens, whose
    insertion points depend on the action).  The guard with the trivial predicate only asks whitespace_001's
    region to have ≥ 2 tokens. -/
theorem bfix_ws_commentEndsLine_noComment_partial (owner : String) (params action : Base.KV) (old new pre suf : List Tok)
    (ho : owner ∈ Base.wsLayoutOwners ∨ (owner = Base.ws002Owner ∧ Base.Ws002.isCommentAction action = false))
    (hg : Base.wsGuard (fun _ => true) owner params action old = true)
    (hn : ∀ t ∈ old, t.kind ≠ .comment ∧ t.kind ≠ .pragma)
    (hpre : ∀ p, pre.getLast? = some p → p.kind ≠ .comment ∧ p.kind ≠ .pragma)
    (h : Base.fixByOwner owner params action old = some (.ok new))
    (hc : commentEndsLine (pre ++ old ++ suf) = true) : commentEndsLine (pre ++ new ++ suf) = true := by
  have hmem : owner ∈ Base.wsOwners := by
    rcases ho with ho | ⟨rfl, _⟩
    · exact Base.ws_layout_mem owner ho
    · decide +kernel
  rw [Base.fixByOwner_ws _ _ _ _ hmem] at h
  apply Base.ws_celSafe_noCmt owner params action old new ho h hg _ pre suf _ hc
  · intro t ht
    have := hn t ht
    simp [Kind.isCmt, this.1, this.2]
  · intro k hk
    rw [List.getLast?_map] at hk
    cases hp : pre.getLast? with
    | none => simp [hp] at hk
    | some p =>
      simp [hp] at hk
      have := hpre p hp
      rw [← hk]; simp [Kind.isCmt, this.1, this.2]

/-! END ag_bws -/

/-! ### BEGIN ag_bind (indent / vertical spacing / post-phase-1) -/

/-! ### layer B: indent and vertical-spacing families, post-phase-1 normalisation — comments kept -/

theorem bfix_indent_commentSeq_partial (owner : String) (params action : Base.KV) (old new : List Tok)
    (ho : owner ∈ Base.indentOwners) (h : Base.fixByOwner owner params action old = some (.ok new))
    (hok : Base.Indent.ToiOk (Base.strAction action) old) : commentSeq old = commentSeq new := by
  obtain ⟨style, size, h'⟩ := Base.Bind.indent_fixV_of_owner owner params action old new ho h
  exact (Base.Indent.fixV_layoutOnly _ _ _ _ _ _ _ h' hok).commentSeq

/-- every indent rule, every action / style / size / indent level, EVERY token list: a comment that
    ended its line inside the tokens of interest still does afterwards -/
theorem bfix_indent_commentEndsLine (owner : String) (params action : Base.KV) (old new : List Tok)
    (ho : owner ∈ Base.indentOwners) (h : Base.fixByOwner owner params action old = some (.ok new))
    (hc : commentEndsLine old = true) : commentEndsLine new = true := by
  obtain ⟨style, size, h'⟩ := Base.Bind.indent_fixV_of_owner owner params action old new ho h
  exact (Base.Indent.fixV_shape _ _ _ _ _ _ _ h').commentEndsLine hc

/-- every vertical-spacing rule, every action, every token list: a comment that ended its line inside the
    tokens of interest still does afterwards (no hypothesis on the region at all) -/
theorem bfix_blankline_commentEndsLine (owner : String) (params action : Base.KV) (old new : List Tok)
    (ho : owner ∈ Base.blankLineOwners) (h : Base.fixByOwner owner params action old = some (.ok new))
    (hc : commentEndsLine old = true) : commentEndsLine new = true := by
  rcases Base.Bind.blankline_shape owner params action old new ho h with ⟨_, hr⟩ | hr | hr | ⟨pre, suf, c⟩
  · rw [hr]; exact Base.BlankLine.commentEndsLine_insert_front _ _ old hc
  · rw [hr]; exact Base.BlankLine.commentEndsLine_insert_back _ _ old hc
  · rw [hr]; exact hc
  · exact c.commentEndsLine hc

/-- comments are kept by every vertical-spacing rule when inserting (always) and when removing from a
    region without code / comments -/
theorem bfix_blankline_commentSeq_partial (owner : String) (params action : Base.KV) (old new : List Tok)
    (ho : owner ∈ Base.blankLineOwners) (h : Base.fixByOwner owner params action old = some (.ok new))
    (hreg : new.length < old.length → nonLayout old = []) : commentSeq old = commentSeq new := by
  suffices hl : LayoutOnly old new from hl.commentSeq
  rcases Base.Bind.blankline_shape owner params action old new ho h with ⟨_, hr⟩ | hr | hr | ⟨pre, suf, c⟩
  · rw [hr]; exact Base.BlankLine.layoutOnly_insert_front _ _ old
  · rw [hr]; exact Base.BlankLine.layoutOnly_insert_back _ _ old
  · rw [hr]; rfl
  · rw [c.layoutOnly_iff]
    unfold Base.BlankLine.Cut at c
    by_cases hlen : new.length < old.length
    · have hz := hreg hlen
      rw [c, nonLayout_append, nonLayout_append] at hz
      simp only [List.append_eq_nil_iff] at hz
      exact ⟨hz.1.1, hz.2⟩
    · have hl := congrArg List.length c
      simp only [List.length_append] at hl
      have h1 : pre = [] := List.eq_nil_of_length_eq_zero (by omega)
      have h2 : suf = [] := List.eq_nil_of_length_eq_zero (by omega)
      rw [h1, h2]; exact ⟨rfl, rfl⟩

/-- the post-phase-1 normalisation keeps every comment of every token list -/
theorem postPhase1_commentSeq (blCls : Nat) (l : List Tok) :
    commentSeq (Post.postPhase1 blCls l) = commentSeq l := by
  have hl : LayoutOnly l (Post.postPhase1 blCls l) := by
    unfold LayoutOnly Post.postPhase1
    rw [Post.fixTrailingWhitespace_eq, Post.fixBlankLines_eq, Post.ftwGo_nonLayout, Post.fblGo_nonLayout]
  exact hl.commentSeq.symm

/-! ### END ag_bind -/

end Vsgm.C02
