/-
  C02 — comments, pragmas and preprocessor lines survive fixing verbatim.
-/
import VsgModel.Engine.RuleRun
import VsgModel.Engine.Relations
import VsgModel.Check.Verdict
import VsgProofs.Lemmas.BaseLineStruct
import VsgProofs.Lemmas.BaseWsEffects
import VsgProofs.Lemmas.BaseBindEffects
import VsgProofs.Lemmas.PostPhase1
import VsgProofs.Lemmas.BaseCaseTok
import VsgProofs.Lemmas.BaseStructDispatch
import VsgProofs.Lemmas.BaseMultiDispatch
namespace Vsgm.C02
open Vsgm

/-- **engine**: per-violation preservation of the comment sequence lifts to the whole update -/
theorem update_commentSeq (f : List Tok) (es : List (Edit Tok)) (h : Chain f.length 0 es)
    (hp : ∀ e ∈ es, commentSeq e.new = commentSeq (old f e)) :
    commentSeq (update f es) = commentSeq f :=
  update_hom commentSeq commentSeq_append f es h hp

/-- dropping beginning_of_file pseudo tokens never drops a comment -/
theorem dropBof_commentSeq (l : List Tok) : commentSeq (dropBof l) = commentSeq l := by
  induction l with
  | nil => rfl
  | cons t l ih =>
    by_cases h : t.isBof = true
    · have hc : t.isCommentLike = false := by
        unfold Tok.isBof at h; unfold Tok.isCommentLike Kind.isCommentLike
        cases hk : t.kind <;> simp_all
      simp [dropBof, h, commentSeq, hc] at ih ⊢
      exact ih
    · simp [dropBof, h, commentSeq] at ih ⊢
      exact ih

/-- phases 2–6: layout-only and case-only steps keep every comment verbatim and in order -/
theorem layout_or_case_step (fold : Str → Str) (a b : List Tok) (h : LayoutOnly a b ∨ CaseOnly fold a b) :
    commentSeq a = commentSeq b := by
  rcases h with h | h
  · exact h.commentSeq
  · exact h.commentSeq fold

/-- a run of steps each of which keeps the comment sequence keeps it end to end -/
theorem run_commentSeq (states : List (List Tok)) (first : List Tok)
    (h : StepsAll (fun a b => commentSeq a = commentSeq b) first states) :
    commentSeq (lastOf first states) = commentSeq first := by
  induction states generalizing first with
  | nil => rfl
  | cons s rest ih =>
    simp only [StepsAll] at h
    rw [h.1]; exact ih s h.2

/-- `commentEndsLine` really says that the token after a `--` comment is a line break:
    in the emitted text nothing follows the comment on its line, so nothing is absorbed -/
theorem commentEndsLine_next (l : List Tok) (h : commentEndsLine l = true) (i : Nat) (s t : Tok)
    (hs : l[i]? = some s) (ht : l[i + 1]? = some t) (hc : s.kind = .comment ∨ s.kind = .pragma) :
    t.kind = .cr := by
  induction l generalizing i with
  | nil => simp at hs
  | cons x l ih =>
    cases l with
    | nil => simp at ht
    | cons y l' =>
      simp only [commentEndsLine, Bool.and_eq_true] at h
      cases i with
      | zero =>
        simp at hs ht; subst hs; subst ht
        have h1 := h.1
        rcases hc with hc | hc <;> simp [hc] at h1 <;> exact h1
      | succ j =>
        simp at hs ht
        exact ih h.2 j (by simpa using hs) (by simpa using ht)

example : commentEndsLine [⟨4, .comment, "-- c".toList⟩, ⟨2, .cr, []⟩, ⟨9, .code, "a".toList⟩] = true := by decide
example : commentEndsLine [⟨4, .comment, "-- c".toList⟩, ⟨9, .code, "a".toList⟩] = false := by decide

/-! ### layer B: the whitespace family — BEGIN ag_bws -/

/-- the strictly-layout owners keep every comment verbatim (all actions, all token lists, under the guard) -/
theorem bfix_ws_commentSeq_partial (owner : String) (params action : Base.KV) (old new : List Tok)
    (ho : owner ∈ Base.wsLayoutOwners) (h : Base.fixByOwner owner params action old = some (.ok new))
    (hg : Base.wsGuard (fun k => k.isLayout) owner params action old = true) : commentSeq old = commentSeq new := by
  rw [Base.fixByOwner_ws _ _ _ _ (Base.ws_layout_mem owner ho)] at h
  exact (Base.ws_layoutOnly owner params action old new (Or.inl ho) h hg).commentSeq

/-- whitespace_002 and comment_100 change comment VALUES, but only in blanks and tabs: the comment sequences
    agree after deleting blanks and tabs -/
theorem bfix_wsComment_commentSeq_modBlanks (owner : String) (params action : Base.KV) (old new : List Tok)
    (ho : owner ∈ Base.wsOwners) (h : Base.fixByOwner owner params action old = some (.ok new))
    (hg : Base.wsGuard (fun k => k.isLayout) owner params action old = true) :
    (nonLayout old).map Verdict.normTok = (nonLayout new).map Verdict.normTok := by
  rw [Base.fixByOwner_ws _ _ _ _ ho] at h
  have := Base.ws_layoutOnlyW owner params action old new ho h hg
  unfold Verdict.layoutOnlyW at this
  simpa using this

/-- **whitespace_between_tokens (171 rules)**: whatever surrounds the region (`pre`, `suf`), a comment never
    absorbs what follows it — `_partial`: unless the fix INSERTS a whitespace directly after a comment, i.e.
    `lTokens[0]` is a comment / pragma and `lTokens[1]` is not whitespace -/
theorem bfix_wsBetween_commentEndsLine_partial (params action : Base.KV) (old new pre suf : List Tok) (nos : Base.NoS)
    (hn : Base.nosOf (params.get "number_of_spaces") = .ok nos)
    (hg : ∀ t ∈ Base.WsBetween.touched nos old, t.kind ≠ .cr)
    (hq : ∀ a t1, old[0]? = some a → old[1]? = some t1 → t1.kind ≠ .ws → a.kind ≠ .comment ∧ a.kind ≠ .pragma)
    (hpre : ∀ p, pre.getLast? = some p → p.kind ≠ .comment ∧ p.kind ≠ .pragma)
    (h : Base.fixByOwner Base.wsBetweenOwner params action old = some (.ok new))
    (hc : commentEndsLine (pre ++ old ++ suf) = true) : commentEndsLine (pre ++ new ++ suf) = true := by
  rw [Base.fixByOwner_ws _ _ _ _ (by decide +kernel)] at h
  simp only [Base.wsFixByOwner, beq_self_eq_true, if_true, Option.some.injEq, hn, bind, Except.bind] at h
  apply Base.WsBetween.fixV_celSafe _ nos action old new hg _ h pre suf _ hc
  · intro _ t1 h1 hk x hx
    cases ha : old[0]? with
    | none => rw [ha] at hx; cases hx
    | some a =>
      rw [ha] at hx
      have hax : a = x := by simpa using hx
      subst hax
      have := hq a t1 ha h1 hk
      simp [Kind.isCmt, this.1, this.2]
  · intro k hk
    rw [List.getLast?_map] at hk
    cases hp : pre.getLast? with
    | none => simp [hp] at hk
    | some p =>
      simp [hp] at hk
      have := hpre p hp
      rw [← hk]; simp [Kind.isCmt, this.1, this.2]

/-- the excluded case is real for the function (hand-built list; no extractor of the family delivers it,
    a `--` comment being followed by a line break and a line break never being the right token of a pair):
    a whitespace inserted between a comment and its line break -/
theorem bfix_wsBetween_commentEndsLine_witness :
    ∃ old new, Base.fixByOwner Base.wsBetweenOwner [("number_of_spaces", .int 1)] [("spaces", .int 1)] old = some (.ok new) ∧
      commentEndsLine old = true ∧ commentEndsLine new = false :=
  ⟨[⟨13, .comment, "-- c".toList⟩, ⟨5, .cr, "\n".toList⟩],
   [⟨13, .comment, "-- c".toList⟩, ⟨Gen.wsCls, .ws, " ".toList⟩, ⟨5, .cr, "\n".toList⟩],
   by decide +kernel, by decide +kernel, by decide +kernel⟩

/-- the pure deletions (remove_spaces_before_token_rule, whitespace_005, whitespace_008) and the two
    value-only edits (comment_100; whitespace_002 on a comment) are safe in every context -/
theorem bfix_wsDeletions_commentEndsLine_partial (owner : String) (params action : Base.KV) (old new pre suf : List Tok)
    (ho : owner ∈ [Base.removeBeforeOwner, Base.ws005Owner, Base.ws008Owner, Base.comment100Owner])
    (hg : Base.wsGuard (fun k => k != .cr) owner params action old = true)
    (hpre : ∀ p, pre.getLast? = some p → p.kind ≠ .comment ∧ p.kind ≠ .pragma)
    (h : Base.fixByOwner owner params action old = some (.ok new))
    (hc : commentEndsLine (pre ++ old ++ suf) = true) : commentEndsLine (pre ++ new ++ suf) = true := by
  have hpre' : Base.lastNotCmt (pre.map (·.kind)) := by
    intro k hk
    rw [List.getLast?_map] at hk
    cases hp : pre.getLast? with
    | none => simp [hp] at hk
    | some p =>
      simp [hp] at hk
      have := hpre p hp
      rw [← hk]; simp [Kind.isCmt, this.1, this.2]
  have hP : ∀ k : Kind, (k != Kind.cr) = true → k ≠ .cr := fun k hk => by simpa using hk
  simp only [List.mem_cons, List.not_mem_nil, or_false] at ho
  rcases ho with rfl | rfl | rfl | rfl
  · rw [Base.fixByOwner_ws _ _ _ _ (by decide +kernel)] at h
    have e1 : (Base.removeBeforeOwner == Base.wsBetweenOwner) = false := by decide
    have e2 : (Base.removeBeforeOwner == Base.nSpacesOwner) = false := by decide
    have e3 : (Base.removeBeforeOwner == Base.boundedOwner) = false := by decide
    simp only [Base.wsFixByOwner, e1, e2, e3, Bool.false_eq_true, if_false, beq_self_eq_true, if_true, Option.some.injEq] at h
    simp only [Base.wsGuard, e1, e2, e3, Bool.false_eq_true, if_false, beq_self_eq_true, if_true, Base.RemoveBefore.guard] at hg
    exact Base.RemoveBefore.fixV_celSafe old new (Base.optAll_spec _ hP _ hg) h pre suf hpre' hc
  · rw [Base.fixByOwner_ws _ _ _ _ (by decide +kernel)] at h
    have e1 : (Base.ws005Owner == Base.wsBetweenOwner) = false := by decide
    have e2 : (Base.ws005Owner == Base.nSpacesOwner) = false := by decide
    have e3 : (Base.ws005Owner == Base.boundedOwner) = false := by decide
    have e4 : (Base.ws005Owner == Base.removeBeforeOwner) = false := by decide
    have e5 : (Base.ws005Owner == Base.ws001Owner) = false := by decide
    have e6 : (Base.ws005Owner == Base.ws002Owner) = false := by decide
    simp only [Base.wsFixByOwner, e1, e2, e3, e4, e5, e6, Bool.false_eq_true, if_false, beq_self_eq_true, if_true, Option.some.injEq] at h
    simp only [Base.wsGuard, e1, e2, e3, e4, e5, e6, Bool.false_eq_true, if_false, beq_self_eq_true, if_true, Base.Ws005.guard] at hg
    exact Base.Ws005.fixV_celSafe old new (Base.optAll_spec _ hP _ hg) h pre suf hpre' hc
  · rw [Base.fixByOwner_ws _ _ _ _ (by decide +kernel)] at h
    have e1 : (Base.ws008Owner == Base.wsBetweenOwner) = false := by decide
    have e2 : (Base.ws008Owner == Base.nSpacesOwner) = false := by decide
    have e3 : (Base.ws008Owner == Base.boundedOwner) = false := by decide
    have e4 : (Base.ws008Owner == Base.removeBeforeOwner) = false := by decide
    have e5 : (Base.ws008Owner == Base.ws001Owner) = false := by decide
    have e6 : (Base.ws008Owner == Base.ws002Owner) = false := by decide
    have e7 : (Base.ws008Owner == Base.ws005Owner) = false := by decide
    simp only [Base.wsFixByOwner, e1, e2, e3, e4, e5, e6, e7, Bool.false_eq_true, if_false, beq_self_eq_true, if_true, Option.some.injEq] at h
    simp only [Base.wsGuard, e1, e2, e3, e4, e5, e6, e7, Bool.false_eq_true, if_false, beq_self_eq_true, if_true, Base.Ws008.guard] at hg
    exact Base.Ws008.fixV_celSafe old new (Base.optAll_spec _ hP _ hg) h pre suf hpre' hc
  · rw [Base.fixByOwner_ws _ _ _ _ (by decide +kernel), Base.wsFix_comment100] at h
    exact Base.Comment100.fixV_celSafe action old new (by simpa using h) pre suf hpre' hc

/-- **every strictly-layout owner (and whitespace_002 on whitespace), all actions**: a region that contains no
    comment / pragma token can be repaired in any context without a comment absorbing anything (covers
    n_spaces_before_and_after_tokens and spaces_before_and_after_tokens_when_bounded_by_tokens, whose
    insertion points depend on the action).  The guard with the trivial predicate only asks whitespace_001's
    region to have ≥ 2 tokens. -/
theorem bfix_ws_commentEndsLine_noComment_partial (owner : String) (params action : Base.KV) (old new pre suf : List Tok)
    (ho : owner ∈ Base.wsLayoutOwners ∨ (owner = Base.ws002Owner ∧ Base.Ws002.isCommentAction action = false))
    (hg : Base.wsGuard (fun _ => true) owner params action old = true)
    (hn : ∀ t ∈ old, t.kind ≠ .comment ∧ t.kind ≠ .pragma)
    (hpre : ∀ p, pre.getLast? = some p → p.kind ≠ .comment ∧ p.kind ≠ .pragma)
    (h : Base.fixByOwner owner params action old = some (.ok new))
    (hc : commentEndsLine (pre ++ old ++ suf) = true) : commentEndsLine (pre ++ new ++ suf) = true := by
  have hmem : owner ∈ Base.wsOwners := by
    rcases ho with ho | ⟨rfl, _⟩
    · exact Base.ws_layout_mem owner ho
    · decide +kernel
  rw [Base.fixByOwner_ws _ _ _ _ hmem] at h
  apply Base.ws_celSafe_noCmt owner params action old new ho h hg _ pre suf _ hc
  · intro t ht
    have := hn t ht
    simp [Kind.isCmt, this.1, this.2]
  · intro k hk
    rw [List.getLast?_map] at hk
    cases hp : pre.getLast? with
    | none => simp [hp] at hk
    | some p =>
      simp [hp] at hk
      have := hpre p hp
      rw [← hk]; simp [Kind.isCmt, this.1, this.2]

/-! END ag_bws -/

/-! ### BEGIN ag_bind (indent / vertical spacing / post-phase-1) -/

/-! ### layer B: indent and vertical-spacing families, post-phase-1 normalisation — comments kept -/

theorem bfix_indent_commentSeq_partial (owner : String) (params action : Base.KV) (old new : List Tok)
    (ho : owner ∈ Base.indentOwners) (h : Base.fixByOwner owner params action old = some (.ok new))
    (hok : Base.Indent.ToiOk (Base.strAction action) old) : commentSeq old = commentSeq new := by
  obtain ⟨style, size, h'⟩ := Base.Bind.indent_fixV_of_owner owner params action old new ho h
  exact (Base.Indent.fixV_layoutOnly _ _ _ _ _ _ _ h' hok).commentSeq

/-- every indent rule, every action / style / size / indent level, EVERY token list: a comment that
    ended its line inside the tokens of interest still does afterwards -/
theorem bfix_indent_commentEndsLine (owner : String) (params action : Base.KV) (old new : List Tok)
    (ho : owner ∈ Base.indentOwners) (h : Base.fixByOwner owner params action old = some (.ok new))
    (hc : commentEndsLine old = true) : commentEndsLine new = true := by
  obtain ⟨style, size, h'⟩ := Base.Bind.indent_fixV_of_owner owner params action old new ho h
  exact (Base.Indent.fixV_shape _ _ _ _ _ _ _ h').commentEndsLine hc

/-- every vertical-spacing rule, every action, every token list: a comment that ended its line inside the
    tokens of interest still does afterwards (no hypothesis on the region at all) -/
theorem bfix_blankline_commentEndsLine (owner : String) (params action : Base.KV) (old new : List Tok)
    (ho : owner ∈ Base.blankLineOwners) (h : Base.fixByOwner owner params action old = some (.ok new))
    (hc : commentEndsLine old = true) : commentEndsLine new = true := by
  rcases Base.Bind.blankline_shape owner params action old new ho h with ⟨_, hr⟩ | hr | hr | ⟨pre, suf, c⟩
  · rw [hr]; exact Base.BlankLine.commentEndsLine_insert_front _ _ old hc
  · rw [hr]; exact Base.BlankLine.commentEndsLine_insert_back _ _ old hc
  · rw [hr]; exact hc
  · exact c.commentEndsLine hc

/-- comments are kept by every vertical-spacing rule when inserting (always) and when removing from a
    region without code / comments -/
theorem bfix_blankline_commentSeq_partial (owner : String) (params action : Base.KV) (old new : List Tok)
    (ho : owner ∈ Base.blankLineOwners) (h : Base.fixByOwner owner params action old = some (.ok new))
    (hreg : new.length < old.length → nonLayout old = []) : commentSeq old = commentSeq new := by
  suffices hl : LayoutOnly old new from hl.commentSeq
  rcases Base.Bind.blankline_shape owner params action old new ho h with ⟨_, hr⟩ | hr | hr | ⟨pre, suf, c⟩
  · rw [hr]; exact Base.BlankLine.layoutOnly_insert_front _ _ old
  · rw [hr]; exact Base.BlankLine.layoutOnly_insert_back _ _ old
  · rw [hr]; rfl
  · rw [c.layoutOnly_iff]
    unfold Base.BlankLine.Cut at c
    by_cases hlen : new.length < old.length
    · have hz := hreg hlen
      rw [c, nonLayout_append, nonLayout_append] at hz
      simp only [List.append_eq_nil_iff] at hz
      exact ⟨hz.1.1, hz.2⟩
    · have hl := congrArg List.length c
      simp only [List.length_append] at hl
      have h1 : pre = [] := List.eq_nil_of_length_eq_zero (by omega)
      have h2 : suf = [] := List.eq_nil_of_length_eq_zero (by omega)
      rw [h1, h2]; exact ⟨rfl, rfl⟩

/-- the post-phase-1 normalisation keeps every comment of every token list -/
theorem postPhase1_commentSeq (blCls : Nat) (l : List Tok) :
    commentSeq (Post.postPhase1 blCls l) = commentSeq l := by
  have hl : LayoutOnly l (Post.postPhase1 blCls l) := by
    unfold LayoutOnly Post.postPhase1
    rw [Post.fixTrailingWhitespace_eq, Post.fixBlankLines_eq, Post.ftwGo_nonLayout, Post.fblGo_nonLayout]
  exact hl.commentSeq.symm

/-! ### END ag_bind -/

/-! ### layer B: the phase-1 line-structure base classes (≈110 rules)

`CelSafe old new` (VsgModel/Base/Base.LineStruct.lean) is the context form of "the comment still ends its
line": whatever stands before and behind the region, no `--` comment swallows code after the region
`old` has been replaced by `new`.  (The region-local `commentEndsLine new` is too weak: a comment that
became the LAST token of its region swallows what follows the region.) -/

section LineStruct
open Vsgm.Base.LineStruct
open Vsgm.Base (KV pyIdx)

/-- **engine**: if the violations of one `Rule.fix` are sorted, disjoint and in range and every
    `_fix_violation` is `CelSafe` on its own region, then after `vhdlFile.update` every `--` comment
    of the file is still followed by a line break -/
theorem update_commentEndsLine (f : List Tok) (es : List (Edit Tok)) (h : Chain f.length 0 es)
    (hp : ∀ e ∈ es, CelSafe (old f e) e.new) (hc : commentEndsLine f = true) :
    commentEndsLine (update f es) = true :=
  update_celSafe f es h hp hc

/-- `CelSafe` with empty context is the region-local statement -/
theorem celSafe_local (old new : List Tok) (h : CelSafe old new) (hc : commentEndsLine old = true) :
    commentEndsLine new = true := by
  have := h [] [] (by simpa using hc)
  simpa using this

/-- **line-break inserting / removing base classes** (54 rules): every comment, pragma and
    preprocessor line is kept verbatim and in order -/
theorem bfix_lineBreak_commentSeq (owner : String) (params action : KV) (old new : List Tok)
    (ho : owner ∈ breakOwners ++ removeCrOwners) (h : Base.fixByOwner owner params action old = some (.ok new)) :
    commentSeq new = commentSeq old := by
  rw [fixByOwner_lineStruct owner params action old (layoutOwners_sub_all ho)] at h
  exact ((dispatch_layout _ owner params action old new ho h).1.commentSeq).symm

/-- **line-break inserting base classes** (insert_carriage_return_after_token…, split_line_at_token…;
    49 rules): for every insert index (also negative, also out of range) a comment stays at the end
    of its line, in every context -/
theorem bfix_break_celSafe (owner : String) (params action : KV) (old new : List Tok)
    (ho : owner ∈ breakOwners) (h : Base.fixByOwner owner params action old = some (.ok new)) :
    CelSafe old new := by
  have ho' : owner ∈ breakOwners ++ removeCrOwners := List.mem_append_left _ ho
  rw [fixByOwner_lineStruct owner params action old (layoutOwners_sub_all ho')] at h
  exact (dispatch_layout _ owner params action old new ho' h).2.1 ho

/-- **remove_carriage_return_after_token** (if_035, loop_statement_005, selected_assignment_001/003/011;
    the tree after the repair 7d29fc3: line breaks are removed only up to the first comment, and — since the
    preprocessor repair, see `bfix_removeCrAfter_preprocSafe` — up to a line break in front of a preprocessor line).  In
    every context every comment stays at its line end, provided the region starts neither with a
    line break nor with a `--` comment (it starts with the keyword the rule is about; each hypothesis
    is violated by one witness of `removeCrAfter_celSafe_false`) -/
theorem bfix_removeCrAfter_celSafe_partial (owner : String) (params action : KV) (old new : List Tok)
    (ho : owner ∈ removeCrAfterOwners) (h : Base.fixByOwner owner params action old = some (.ok new))
    (hstart : startsCr old = false) (hhead : endsLC (old.take 1) = false) : CelSafe old new := by
  have ho' : owner ∈ breakOwners ++ removeCrOwners :=
    List.mem_append_right _ (List.mem_append_left _ ho)
  rw [fixByOwner_lineStruct owner params action old (layoutOwners_sub_all ho')] at h
  exact (dispatch_layout _ owner params action old new ho' h).2.2.1 ho hstart hhead

/-- without the two hypotheses the statement is false: a region that starts with the line break of a
    preceding comment loses it; a whitespace inserted at index 1 lands behind a leading comment -/
theorem removeCrAfter_celSafe_false :
    (∃ old new, fixRemoveCrAfter Base.lineCls false old = .ok new ∧ endsLC (old.take 1) = false ∧ ¬ CelSafe old new) ∧
    (∃ old new, fixRemoveCrAfter Base.lineCls true old = .ok new ∧ startsCr old = false ∧
      commentEndsLine old = true ∧ commentEndsLine new = false) := by
  refine ⟨⟨[⟨2, .cr, ['\n']⟩, ⟨9, .code, ['a']⟩], _, rfl, by decide, ?_⟩,
    ⟨[⟨4, .comment, "-- c".toList⟩, ⟨2, .cr, ['\n']⟩, ⟨9, .code, ['a']⟩], _, rfl, by decide, by decide, by decide⟩⟩
  intro hs
  have := hs [⟨4, .comment, "-- c".toList⟩] [] (by decide)
  revert this
  decide

/-- **remove_carriage_return_after_token and preprocessor lines** (the tree after the repair "keeps a
    preprocessor line on a line of its own"; before it `with sel select ⏎ #ifdef X ⏎ q <= …` became
    `with sel select #ifdef X    q <= …`).  In every context in which every preprocessor line stands alone
    on its line (`preprocOwnLine`: a preprocessor token is admitted only on a fresh line and nothing but
    whitespace follows it up to the next line break) it still does after the fix — provided the region
    starts with a solid token (the keyword the rule is about) and the text BEHIND the region does not begin
    with a preprocessor line (the fix cannot see it; both hypotheses are violated by one witness of
    `removeCrAfter_preprocSafe_false`) -/
theorem bfix_removeCrAfter_preprocSafe (owner : String) (params action : KV) (old new : List Tok)
    (ho : owner ∈ removeCrAfterOwners) (h : Base.fixByOwner owner params action old = some (.ok new))
    (hhead : headSolid old = true) (pre post : List Tok) (hpost : nextIsPreproc post = false)
    (hok : preprocOwnLine (pre ++ old ++ post) = true) : preprocOwnLine (pre ++ new ++ post) = true := by
  have ho' : owner ∈ breakOwners ++ removeCrOwners :=
    List.mem_append_right _ (List.mem_append_left _ ho)
  rw [fixByOwner_lineStruct owner params action old (layoutOwners_sub_all ho')] at h
  exact dispatch_removeCrAfter_preproc _ owner params action old new ho h hhead pre post hpost hok

/-- the region of the former finding `remove_carriage_return_after_token / preprocessorAbsorbsCode`,
    `select ⏎ #ifdef X ⏎ ␣`: the repaired fix keeps it as it is (it used to return `select #ifdef X ␣`),
    and an own-line blank in front of the preprocessor line loses only its own line break -/
theorem removeCrAfter_preproc_region_kept :
    (let a : Tok := ⟨9, .code, "select".toList⟩
     let p : Tok := ⟨7, .preproc, "#ifdef X".toList⟩
     let n : Tok := ⟨2, .cr, ['\n']⟩
     let w : Tok := ⟨1, .ws, [' ']⟩
     let b : Tok := ⟨3, .blank, []⟩
     fixRemoveCrAfter Base.lineCls false [a, n, p, n, w] = .ok [a, n, p, n, w] ∧
     fixRemoveCrAfter Base.lineCls false [a, n, w, p, n] = .ok [a, n, w, p, n] ∧
     fixRemoveCrAfter Base.lineCls false [a, n, b, n, p] = .ok [a, b, n, p]) := by
  decide

/-- without the two hypotheses the statement is false: a region whose last line break stands in front of
    a preprocessor line OUTSIDE the region loses it (`a ⏎` followed by `#ifdef X`); a region that starts with
    whitespace behind a preprocessor line joins the next line onto it -/
theorem removeCrAfter_preprocSafe_false :
    (∃ old new post, fixRemoveCrAfter Base.lineCls false old = .ok new ∧ headSolid old = true ∧
      preprocOwnLine (old ++ post) = true ∧ preprocOwnLine (new ++ post) = false) ∧
    (∃ pre old new, fixRemoveCrAfter Base.lineCls false old = .ok new ∧
      preprocOwnLine (pre ++ old) = true ∧ preprocOwnLine (pre ++ new) = false) := by
  refine ⟨⟨[⟨9, .code, ['a']⟩, ⟨2, .cr, ['\n']⟩], _, [⟨7, .preproc, "#ifdef X".toList⟩], rfl, by decide, by decide, by decide⟩,
    ⟨[⟨7, .preproc, "#ifdef X".toList⟩], [⟨1, .ws, [' ']⟩, ⟨2, .cr, ['\n']⟩, ⟨9, .code, ['a']⟩], _, rfl, by decide, by decide⟩⟩

/-- non-vacuity of `bfix_removeCrAfter_preprocSafe`: the region of the former finding followed by code -/
example :
    let a : Tok := ⟨9, .code, "select".toList⟩
    let p : Tok := ⟨7, .preproc, "#ifdef X".toList⟩
    let n : Tok := ⟨2, .cr, ['\n']⟩
    let w : Tok := ⟨1, .ws, [' ']⟩
    let old := [a, n, p, n, w]
    headSolid old = true ∧ nextIsPreproc [a] = false ∧ preprocOwnLine ([n] ++ old ++ [a]) = true := by
  intro a p n w old; exact ⟨by decide, by decide, by decide⟩

/-- **remove_carriage_returns_between_token_pairs** (a base class no rule of the tree uses) still
    removes EVERY line break of its region, as remove_carriage_return_after_token did before the
    repair.  Comments stay at their line ends when the region does not start with a line break and
    holds no `--` comment except as its very last token (exactly what `removeCr_celSafe_false`
    violates) -/
theorem bfix_removeCrPairs_celSafe_partial (owner : String) (params action : KV) (old new : List Tok)
    (ho : owner ∈ removeCrPairsOwners) (h : Base.fixByOwner owner params action old = some (.ok new))
    (hstart : startsCr old = false) (hno : ∀ t ∈ old.dropLast, isLC t = false) : CelSafe old new := by
  have ho' : owner ∈ breakOwners ++ removeCrOwners :=
    List.mem_append_right _ (List.mem_append_right _ ho)
  rw [fixByOwner_lineStruct owner params action old (layoutOwners_sub_all ho')] at h
  exact (dispatch_layout _ owner params action old new ho' h).2.2.2 ho hstart hno

/-- the defect of the unrepaired fix, smallest witnesses: the region `with -- c ⏎ e` (comment inside)
    becomes `with -- c e` — the comment swallows `e`; and the region `a -- c ⏎` (comment followed by
    the region's last line break) becomes `a -- c`, which swallows whatever follows the region -/
theorem removeCr_celSafe_false :
    (∃ old new, fixRemoveCr Base.lineCls true old = .ok new ∧ commentEndsLine old = true ∧
      commentEndsLine new = false) ∧
    (∃ old new, fixRemoveCr Base.lineCls true old = .ok new ∧ startsCr old = false ∧ ¬ CelSafe old new) := by
  refine ⟨⟨[⟨9, .code, "with".toList⟩, ⟨1, .ws, [' ']⟩, ⟨4, .comment, "-- c".toList⟩, ⟨2, .cr, ['\n']⟩, ⟨9, .code, ['e']⟩],
      _, rfl, by decide, by decide⟩, ?_⟩
  refine ⟨[⟨9, .code, ['a']⟩, ⟨4, .comment, "-- c".toList⟩, ⟨2, .cr, ['\n']⟩], _, rfl, by decide, ?_⟩
  intro hs
  have := hs [] [⟨9, .code, ['b']⟩] (by decide)
  revert this
  decide

/-- the repaired fix on the same two regions: nothing is swallowed any more -/
example :
    fixRemoveCrAfter Base.lineCls true [⟨9, .code, "with".toList⟩, ⟨1, .ws, [' ']⟩, ⟨4, .comment, "-- c".toList⟩, ⟨2, .cr, ['\n']⟩, ⟨9, .code, ['e']⟩]
      = .ok [⟨9, .code, "with".toList⟩, ⟨1, .ws, [' ']⟩, ⟨4, .comment, "-- c".toList⟩, ⟨2, .cr, ['\n']⟩, ⟨9, .code, ['e']⟩] := rfl

/-- **single-token moves** (53 rules) — exact condition for the comment sequence: unchanged iff the
    moved token's contribution commutes with that of the tokens it jumps over.  For
    move_token_left_to_next_non_whitespace_token with `bRemoveTrailingWhitespace` the region must hold
    no preprocessor token (`remove_trailing_whitespace` deletes trailing preprocessor tokens) -/
theorem bfix_move_commentSeq_iff (owner : String) (params action : KV) (old new : List Tok)
    (ho : owner ∈ singleMoveOwners) (h : Base.fixByOwner owner params action old = some (.ok new))
    (hpre : owner ∈ moveLeftOwners → Base.LineStruct.needBool params "bRemoveTrailingWhitespace" = .ok true →
      ∀ t ∈ old, t.kind ≠ .preproc) :
    ∃ ki ii k x, moveIdx owner action = some (ki, ii) ∧ pyIdx old.length ki = some k ∧ old[k]? = some x ∧
      (commentSeq new = commentSeq old ↔
        commentSeq [x] ++ commentSeq (crossed old k (insPos (old.length - 1) ii)) =
          commentSeq (crossed old k (insPos (old.length - 1) ii)) ++ commentSeq [x]) := by
  rw [fixByOwner_lineStruct owner params action old (singleMove_sub_all ho)] at h
  obtain ⟨ki, ii, w, k, x, hidx, fo, hw⟩ := dispatch_move _ owner params action old new ho h
  exact ⟨ki, ii, k, x, hidx, fo.idx, fo.get, fo.commentSeq_iff (fun hh => hpre (hw hh).1 (hw hh).2)⟩

/-- … in particular: moving a CODE token never changes the comment sequence -/
theorem bfix_move_commentSeq_partial (owner : String) (params action : KV) (old new : List Tok)
    (ho : owner ∈ singleMoveOwners) (h : Base.fixByOwner owner params action old = some (.ok new))
    (hpre : owner ∈ moveLeftOwners → Base.LineStruct.needBool params "bRemoveTrailingWhitespace" = .ok true →
      ∀ t ∈ old, t.kind ≠ .preproc)
    (hx : ∀ ki ii k x, moveIdx owner action = some (ki, ii) → pyIdx old.length ki = some k → old[k]? = some x →
      x.isCode = true) :
    commentSeq new = commentSeq old := by
  obtain ⟨ki, ii, k, x, hidx, hk, hget, hiff⟩ := bfix_move_commentSeq_iff owner params action old new ho h hpre
  rw [hiff]
  have hc : x.isCommentLike = false := by
    have := hx ki ii k x hidx hk hget
    unfold Tok.isCode at this; unfold Tok.isCommentLike Kind.isCommentLike
    cases hk2 : x.kind <;> simp_all
  simp [commentSeq, hc]

/-- without the preprocessor hypothesis the statement is FALSE: `a #if ⏎ b` becomes `a b` -/
theorem moveLeft_commentSeq_false :
    ∃ old new, fixMoveLeft Base.lineCls true true old = .ok new ∧ commentSeq new ≠ commentSeq old :=
  ⟨[⟨9, .code, ['a']⟩, ⟨35, .preproc, "#if".toList⟩, ⟨2, .cr, ['\n']⟩, ⟨9, .code, ['b']⟩], _, rfl, by decide⟩

/-- **single-token moves**: comments stay at their line ends, in every context, when the moved
    token is a code token, it is not moved to the very front of the region, the token it lands
    behind is not a `--` comment, and — for move_token_left… with `bRemoveTrailingWhitespace` — the
    region holds no `--` comment (each hypothesis is violated by one witness of
    `move_celSafe_false`) -/
theorem bfix_move_celSafe_partial (owner : String) (params action : KV) (old new : List Tok)
    (ho : owner ∈ singleMoveOwners) (h : Base.fixByOwner owner params action old = some (.ok new))
    (hx : ∀ ki ii k x, moveIdx owner action = some (ki, ii) → pyIdx old.length ki = some k → old[k]? = some x →
      x.isCode = true ∧ 0 < insPos (old.length - 1) ii ∧
      endsLC ((old.eraseIdx k).take (insPos (old.length - 1) ii)) = false)
    (hno : owner ∈ moveLeftOwners → Base.LineStruct.needBool params "bRemoveTrailingWhitespace" = .ok true →
      ∀ t ∈ old, isLC t = false) :
    CelSafe old new := by
  rw [fixByOwner_lineStruct owner params action old (singleMove_sub_all ho)] at h
  obtain ⟨ki, ii, w, k, x, hidx, fo, hw⟩ := dispatch_move _ owner params action old new ho h
  obtain ⟨h1, h2, h3⟩ := hx ki ii k x hidx fo.idx fo.get
  exact fo.cel h1 h2 h3 (fun hh => hno (hw hh).1 (hw hh).2)

/-- the known defect and its relatives, smallest witnesses:
    (1) move_token_left… with trailing-whitespace removal and a comment between anchor and token:
        the region `e -- c ⏎ select` becomes `e select -- c` and the comment, now the LAST token of
        the region, swallows what follows it;
    (2) a token moved directly behind a comment (`-- c ⏎ b`, token value 2) lands inside it -/
theorem move_celSafe_false :
    (∃ old new, fixMoveLeft Base.lineCls true true old = .ok new ∧ commentEndsLine old = true ∧
      commentEndsLine new = true ∧ ¬ CelSafe old new) ∧
    (∃ old new, fixMoveNext Base.lineCls 2 old = .ok new ∧ commentEndsLine old = true ∧
      commentEndsLine new = false) := by
  refine ⟨⟨[⟨9, .code, ['e']⟩, ⟨1, .ws, [' ']⟩, ⟨4, .comment, "-- c".toList⟩, ⟨2, .cr, ['\n']⟩,
      ⟨9, .code, "select".toList⟩], _, rfl, by decide, by decide, ?_⟩,
    ⟨[⟨4, .comment, "-- c".toList⟩, ⟨2, .cr, ['\n']⟩, ⟨9, .code, ['b']⟩], _, rfl, by decide, by decide⟩⟩
  intro hs
  have := hs [] [⟨1, .ws, [' ']⟩, ⟨9, .code, ['q']⟩] (by decide)
  revert this
  decide

/-- **block_001**: comment sequence, exact condition (as for the code sequence) -/
theorem bfix_moveSeq_commentSeq_iff (owner : String) (params action : KV) (old new : List Tok)
    (ho : owner ∈ moveSeqOwners) (h : Base.fixByOwner owner params action old = some (.ok new)) :
    ∃ n, Base.LineStruct.needInt action "num_tokens" = .ok n ∧
      (commentSeq new = commentSeq old ↔
        commentSeq (seqJumped n old) ++ commentSeq (seqMoved n old) =
          commentSeq (seqMoved n old) ++ commentSeq (seqJumped n old)) := by
  rw [fixByOwner_lineStruct owner params action old (moveSeq_sub_all ho)] at h
  obtain ⟨n, hn, hf⟩ := dispatch_moveSeq _ owner params action old new ho h
  obtain ⟨last, h1, h2, _⟩ := fixMoveSeq_spec _ n old new hf
  refine ⟨n, hn, ?_⟩
  rw [blind_commentSeq.layoutOnly h1, blind_commentSeq.layoutOnly h2]
  exact swap_hom_iff commentSeq commentSeq_append _ _ _

/-- block_001 keeps every comment when the moved prefix (label, colon, whitespace) holds none -/
theorem bfix_moveSeq_commentSeq_partial (owner : String) (params action : KV) (old new : List Tok)
    (ho : owner ∈ moveSeqOwners) (h : Base.fixByOwner owner params action old = some (.ok new))
    (hm : ∀ n, Base.LineStruct.needInt action "num_tokens" = .ok n → ∀ t ∈ seqMoved n old, t.isCommentLike = false) :
    commentSeq new = commentSeq old := by
  obtain ⟨n, hn, hiff⟩ := bfix_moveSeq_commentSeq_iff owner params action old new ho h
  rw [hiff, commentSeq_eq_nil_of_noComment _ (hm n hn)]
  simp

/-- block_001: comments stay at their line ends when the region does not start with a line break and
    neither the moved prefix nor the part it jumps over ends in a `--` comment -/
theorem bfix_moveSeq_celSafe_partial (owner : String) (params action : KV) (old new : List Tok)
    (ho : owner ∈ moveSeqOwners) (h : Base.fixByOwner owner params action old = some (.ok new))
    (hstart : startsCr old = false)
    (hends : ∀ n, Base.LineStruct.needInt action "num_tokens" = .ok n →
      endsLC (seqMoved n old) = false ∧ endsLC (seqJumped n old) = false) :
    CelSafe old new := by
  rw [fixByOwner_lineStruct owner params action old (moveSeq_sub_all ho)] at h
  obtain ⟨n, hn, hf⟩ := dispatch_moveSeq _ owner params action old new ho h
  obtain ⟨last, _, _, hcel⟩ := fixMoveSeq_spec _ n old new hf
  exact hcel hstart (hends n hn).1 (hends n hn).2

/-- **move_token** (5 rules): comment sequence.  `new_line`: unchanged; `new_line` with
    `preserve_comment`: unchanged iff the trailing comment commutes with what it is moved over
    (the tokens from the new line break to the comment) — here: when those hold no comment;
    `move_left`: unchanged when the moved (last) token is code -/
theorem bfix_moveToken_commentSeq_partial (owner : String) (params action : KV) (old new : List Tok)
    (ho : owner ∈ moveTokenOwners) (h : Base.fixByOwner owner params action old = some (.ok new))
    (hpres : ∀ i, Base.LineStruct.needAttrInt action "_ti" = .ok i →
      ∀ t ∈ (preserveBody old).drop (insPos (preserveBody old).length i), t.isCommentLike = false)
    (hlast : ∀ k x, pyIdx old.length (-1) = some k → old[k]? = some x → x.isCode = true) :
    commentSeq new = commentSeq old := by
  rw [fixByOwner_lineStruct owner params action old (moveToken_sub_all ho)] at h
  obtain ⟨a, pc, _, _, h1, h2, h3⟩ := dispatch_moveToken _ owner params action old new ho h
  cases hm : moveTokenMode a pc with
  | newLine => exact ((fixSplitLine_spec _ old new (h1 hm)).1.commentSeq).symm
  | newLinePreserve =>
    obtain ⟨i, hi, hf⟩ := h2 hm
    rw [fixNewLinePreserve_hom_iff commentSeq blind_commentSeq _ i old new hf,
      commentSeq_eq_nil_of_noComment _ (hpres i hi)]
    simp
  | moveLeft =>
    obtain ⟨b, hf⟩ := h3 hm
    obtain ⟨k, x, fo⟩ := fixMoveTokenLeft_spec _ b old new hf
    rw [fo.commentSeq_iff (by intro hh; cases hh)]
    have hc : x.isCommentLike = false := by
      have := hlast k x fo.idx fo.get
      unfold Tok.isCode at this; unfold Tok.isCommentLike Kind.isCommentLike
      cases hk2 : x.kind <;> simp_all
    simp [commentSeq, hc]

/-- **move_token**: comments stay at their line ends, in every context -/
theorem bfix_moveToken_celSafe_partial (owner : String) (params action : KV) (old new : List Tok)
    (ho : owner ∈ moveTokenOwners) (h : Base.fixByOwner owner params action old = some (.ok new))
    (hstart : startsCr old = false)
    (hpres : ∀ i, Base.LineStruct.needAttrInt action "_ti" = .ok i → 0 ≤ i ∧ i ≤ (preserveBody old).length ∧
      (preserveTail old ≠ [] → endsLC ((preserveBody old).take (insPos (preserveBody old).length i)) = false))
    (hlast : ∀ k x, pyIdx old.length (-1) = some k → old[k]? = some x →
      x.isCode = true ∧ 0 < insPos (old.length - 1) 1 ∧ endsLC ((old.eraseIdx k).take (insPos (old.length - 1) 1)) = false) :
    CelSafe old new := by
  rw [fixByOwner_lineStruct owner params action old (moveToken_sub_all ho)] at h
  obtain ⟨a, pc, _, _, h1, h2, h3⟩ := dispatch_moveToken _ owner params action old new ho h
  cases hm : moveTokenMode a pc with
  | newLine => exact (fixSplitLine_spec _ old new (h1 hm)).2
  | newLinePreserve =>
    obtain ⟨i, hi, hf⟩ := h2 hm
    obtain ⟨p0, p1, p2⟩ := hpres i hi
    exact fixNewLinePreserve_cel _ i old new hf hstart p0 p1 p2
  | moveLeft =>
    obtain ⟨b, hf⟩ := h3 hm
    obtain ⟨k, x, fo⟩ := fixMoveTokenLeft_spec _ b old new hf
    obtain ⟨q1, q2, q3⟩ := hlast k x fo.idx fo.get
    exact fo.cel q1 q2 q3 (by intro hh; cases hh)

example : CelSafe [⟨4, .comment, "-- c".toList⟩] [⟨4, .comment, "-- c".toList⟩] := fun _ _ h => h

/-- non-vacuity of `bfix_move_celSafe_partial`: `architecture ␣ -- c ⏎ ␣ rtl`, token value 5 — a code
    token is moved to index 1 behind a code token; the comment keeps its line break -/
example :
    let a : Tok := ⟨9, .code, "architecture".toList⟩
    let k : Tok := ⟨4, .comment, "-- c".toList⟩
    let n : Tok := ⟨2, .cr, ['\n']⟩
    let w : Tok := ⟨1, .ws, [' ']⟩
    let x : Tok := ⟨9, .code, "rtl".toList⟩
    let old := [a, w, k, n, w, x]
    fixMoveNext Base.lineCls 5 old = .ok [a, mkWs Base.lineCls, x, w, k, n, w] ∧
    x.isCode = true ∧ 0 < insPos (old.length - 1) 1 ∧ endsLC ((old.eraseIdx 5).take (insPos (old.length - 1) 1)) = false := by
  intro a k n w x old; exact ⟨rfl, by decide, by decide, by decide⟩

/-- non-vacuity of `bfix_removeCrAfter_celSafe_partial`: `with ⏎ ␣ e ␣ -- c ⏎ x` — the line break in
    front of the comment goes, the one behind it stays -/
example :
    let a : Tok := ⟨9, .code, "with".toList⟩
    let e : Tok := ⟨9, .code, ['e']⟩
    let k : Tok := ⟨4, .comment, "-- c".toList⟩
    let n : Tok := ⟨2, .cr, ['\n']⟩
    let w : Tok := ⟨1, .ws, [' ']⟩
    let old := [a, n, w, e, k, n, e]
    fixRemoveCrAfter Base.lineCls true old = .ok [a, w, e, k, n, e] ∧ startsCr old = false ∧
    endsLC (old.take 1) = false := by
  intro a e k n w old; exact ⟨rfl, by decide, by decide⟩

end LineStruct

/-! ### BEGIN ag_bcase (case family, B-full) -/
/-! ### layer B, the case family -/

/-- `token_case` (243 rules): analysis + fix never touch a comment, pragma or preprocessor line;
    a `--` comment that ended its line still does (the kinds of all tokens are unchanged) -/
theorem bfull_case_commentSeq {E : Base.Case.Env} {fold : Str → Str} {lc uc fc : Char → Char}
    (T : Base.Case.CharWise E fold lc uc fc) (owner : String) (ho : owner ∈ Base.caseTokenOwners)
    (params : Base.KV) (p : Base.Case.Params) (old new : List Tok) (a : Base.Case.Action)
    (hok : ∀ t, old[0]? = some t → Base.Case.TokOk p t)
    (ha : Base.Case.TokenCase.analyzeToi E p old = .ok (some a))
    (hf : Base.fixByOwner owner params (Base.caseActionKV a) old = some (.ok new)) :
    commentSeq new = commentSeq old ∧ new.map (·.kind) = old.map (·.kind) := by
  rw [Base.fixByOwner_tokenCase owner ho] at hf
  simp only [Option.some.injEq] at hf
  have h := Base.Case.TokenCase.analyze_fix_caseOnly T p old new a hok ha hf
  refine ⟨(h.commentSeq fold).symm, ?_⟩
  have := congrArg (List.map Prod.snd) (Base.Case.caseOnly_classes fold h)
  simpa [List.map_map, Function.comp_def] using this.symm

/-- the fix alone, for ALL actions of all five owners: the kinds of the tokens are kept, hence a
    `--` comment that was followed by its line break still is -/
theorem bfix_case_commentEndsLine (owner : String) (params action : Base.KV) (old new : List Tok)
    (ho : owner ∈ Base.caseOwners) (h : Base.fixByOwner owner params action old = some (.ok new)) :
    new.map (·.kind) = old.map (·.kind) := by
  rcases Base.fixByOwner_case_shape owner ho params action old new h with rfl | ⟨k, t, e, hk, rfl⟩
  · rfl
  · have := congrArg (List.map Prod.snd) (Base.set_val_shape old k t e hk)
    simpa [List.map_map, Function.comp_def] using this

/-! ### END ag_bcase -/

/-! ### BEGIN ag_bstruct (insert / remove / parens / split / multiline alignment) -/

/-! ### layer B: the token-adding / token-removing base classes and comments, for ALL actions and token lists -/

/-- **insert family, `action: add`**: unless a designated token is itself comment-like (none of the
    pinned rules' parameters is, see `C01.insert_params_redundant`), every comment, pragma and
    preprocessor line is kept verbatim and in order -/
theorem bfix_insert_commentSeq (E : Base.Env) (owner : String) (o : Base.SOwner) (params action : Base.KV)
    (old new : List Tok) (ho : Base.sownerOf owner = some o) (hi : o.isInsert = true)
    (hm : Base.removeMode o params = false)
    (h : Base.fixStruct E owner params action old = some (.ok new))
    (hd : ∀ ins, Base.designated E o params action = .ok (some ins) → commentSeq ins = []) :
    commentSeq new = commentSeq old := by
  unfold Base.fixStruct at h
  simp only [ho, Option.map_some, Option.some.injEq] at h
  rcases Base.fixS_insert_add Base.projComment E o params action old new hi hm h with h | ⟨ins, hd', hs⟩
  · rw [h]
  · have : Base.InsSeg [] (commentSeq old) (commentSeq new) := by
      have := hd ins hd'
      simp only [Base.projComment] at hs
      rw [this] at hs; exact hs
    exact this.nil.symm

/-- **insert family, `action: remove`**: the comments of the result are those of the first token of
    interest; on the two tokens the extractor delivers nothing comment-like is lost unless the
    removed optional token is itself comment-like -/
theorem bfix_optional_remove_commentSeq (E : Base.Env) (owner : String) (o : Base.SOwner) (params action : Base.KV)
    (a t : Tok) (new : List Tok) (ho : Base.sownerOf owner = some o) (hi : o.isInsert = true)
    (hne : o ≠ .tokensRightOf) (hm : Base.removeMode o params = true)
    (h : Base.fixStruct E owner params action [a, t] = some (.ok new)) (ht : t.isCommentLike = false) :
    commentSeq new = commentSeq [a, t] := by
  unfold Base.fixStruct at h
  simp only [ho, Option.map_some, Option.some.injEq] at h
  obtain ⟨t0, rest, hl, hn⟩ := Base.fixS_insert_remove E o params action [a, t] new hi hne hm h
  cases hl
  subst hn
  by_cases hw : (a.kind == Kind.ws) = true
  · have hk : a.kind = .ws := by simpa using hw
    have ha : a.isCommentLike = false := by simp [Tok.isCommentLike, Kind.isCommentLike, hk]
    simp [hw, commentSeq, ht, ha]
  · simp [hw, commentSeq, ht]

/-- **label removers** (`remove_tokens_bounded_by_tokens_and_remove_trailing_whitespace`): the fixer
    replaces the tokens of interest by nothing WITHOUT looking at them — a comment between the label
    and the colon is deleted (the known `commentLost` finding); the model reproduces it -/
theorem bfix_bounded_commentLost :
    let old : List Tok := [⟨138, .code, "lbl".toList⟩, ⟨5, .cr, "\n".toList⟩, ⟨13, .comment, "-- c".toList⟩,
      ⟨5, .cr, "\n".toList⟩, ⟨143, .code, ":".toList⟩, ⟨51, .ws, " ".toList⟩]
    ∃ new, Base.fixS Base.stdEnv .bounded [] [] old = .ok new ∧ commentSeq old ≠ commentSeq new ∧
      crSeq old ≠ crSeq new := by
  refine ⟨[], by rfl, by decide, by decide⟩

/-- … and keeps every comment when there is none among the tokens of interest (the excluded case is
    exactly the witness above) -/
theorem bfix_delete_commentSeq_partial (E : Base.Env) (owner : String) (o : Base.SOwner) (params action : Base.KV)
    (old new : List Tok) (ho : Base.sownerOf owner = some o) (hd : o.isDelete = true)
    (h : Base.fixStruct E owner params action old = some (.ok new)) (hc : commentSeq old = []) :
    commentSeq new = commentSeq old := by
  unfold Base.fixStruct at h
  simp only [ho, Option.map_some, Option.some.injEq] at h
  cases o <;> simp [Base.SOwner.isDelete] at hd
  · have := Base.Remove.fixBounded_eq old new h
    subst this; rw [hc]; rfl
  · obtain ⟨a, x, rest, _, _, h3⟩ := Base.Remove.fixRemoveTokens_proj Base.projComment old new h
    have hs := h3.sublist
    simp only [Base.projComment] at hs
    rw [hc] at hs ⊢
    exact List.eq_nil_of_sublist_nil hs

/-- `remove_comments_from_end_of_lines_bounded_by_tokens` (documented to delete comments): every token
    of interest goes, whatever it is -/
theorem bfix_removeComments_all (E : Base.Env) (params action : Base.KV) (old new : List Tok)
    (h : Base.fixS E .removeComments params action old = .ok new) : new = [] :=
  Base.Remove.fixRemoveComments_eq old new h

/-- **`if_002`**: new parentheses never touch a comment (`parenthesis: insert`, parenthesis classes that
    are not comment classes); `parenthesis: remove` can only drop tokens -/
theorem bfix_parens_insert_commentSeq (E : Base.Env) (params action : Base.KV) (old new : List Tok)
    (hp : Base.strIs params "parenthesis" "insert" = true)
    (h : Base.fixS E .if002 params action old = .ok new)
    (hko : (E.kindOf E.openParenCls).isCommentLike = false) (hkc : (E.kindOf E.closeParenCls).isCommentLike = false) :
    commentSeq new = commentSeq old := by
  unfold Base.fixS at h
  simp only [hp] at h
  obtain ⟨_, hn⟩ := Base.Parens.fixV_insert E action old new h
  subst hn
  simp [commentSeq, Tok.isCommentLike, Base.Env.inst, hko, hkc]

theorem bfix_parens_remove_commentSeq (E : Base.Env) (params action : Base.KV) (old new : List Tok)
    (hp : Base.strIs params "parenthesis" "insert" = false)
    (h : Base.fixS E .if002 params action old = .ok new) :
    ∃ li ri, (Base.needList action "left_insert" >>= Base.toksOf) = .ok li ∧
      (Base.needList action "right_insert" >>= Base.toksOf) = .ok ri ∧
      (commentSeq li = [] → commentSeq ri = [] → (commentSeq new).Sublist (commentSeq old)) := by
  unfold Base.fixS at h
  simp only [hp] at h
  obtain ⟨li, ri, k, hli, hri, hk, hn⟩ := Base.Parens.fixV_remove E action old new h
  refine ⟨li, ri, hli, hri, ?_⟩
  intro h1 h2
  subst hn
  rw [commentSeq_append, h2, List.append_nil]
  have : (commentSeq k).Sublist (commentSeq (li ++ old)) := Base.projComment.sublist hk
  rw [commentSeq_append, h1, List.nil_append] at this
  exact this

/-- **signal_015** re-creates the declaration once per identifier from the tokens before the first and
    after the last identifier, with every line break removed: a comment between the identifiers is lost
    (`commentLost`), a comment before them is repeated and — its line break gone — swallows the code
    that follows (`commentAbsorbsCode`).  Known findings; the model reproduces both. -/
theorem bfix_signal_commentLost :
    let sg : Tok := ⟨692, .code, "signal".toList⟩
    let w : Tok := ⟨51, .ws, " ".toList⟩
    let a : Tok := ⟨690, .code, "a".toList⟩
    let b : Tok := ⟨690, .code, "b".toList⟩
    let old : List Tok := [sg, w, a, ⟨352, .code, ",".toList⟩, w, ⟨13, .comment, "-- c".toList⟩, ⟨5, .cr, "\n".toList⟩,
      b, w, ⟨689, .code, ":".toList⟩, w, ⟨749, .code, "bit".toList⟩, ⟨691, .code, ";".toList⟩]
    let action : Base.KV := [("start", .int 2), ("end", .int 7), ("number", .int 2), ("identifiers", .list [.tok a, .tok b])]
    ∃ new, Base.fixS Base.stdEnv .signal015 [] action old = .ok new ∧ commentSeq old = ["-- c".toList] ∧
      commentSeq new = [] := by
  refine ⟨_, by rfl, by decide, by decide⟩

theorem bfix_signal_commentAbsorbsCode :
    let sg : Tok := ⟨692, .code, "signal".toList⟩
    let w : Tok := ⟨51, .ws, " ".toList⟩
    let a : Tok := ⟨690, .code, "a".toList⟩
    let b : Tok := ⟨690, .code, "b".toList⟩
    let old : List Tok := [sg, w, ⟨13, .comment, "-- c".toList⟩, ⟨5, .cr, "\n".toList⟩, a, ⟨352, .code, ",".toList⟩, w,
      b, w, ⟨689, .code, ":".toList⟩, w, ⟨749, .code, "bit".toList⟩, ⟨691, .code, ";".toList⟩]
    let action : Base.KV := [("start", .int 4), ("end", .int 7), ("number", .int 2), ("identifiers", .list [.tok a, .tok b])]
    ∃ new, Base.fixS Base.stdEnv .signal015 [] action old = .ok new ∧ commentEndsLine old = true ∧
      commentEndsLine new = false ∧ commentSeq new = ["-- c".toList, "-- c".toList] := by
  refine ⟨_, by rfl, by decide, by decide, by decide⟩

/-- **port_026** copies the tokens after the identifier list once per identifier: a trailing comment
    that belongs to the tokens of interest is duplicated (`commentInvented`, known finding) -/
theorem bfix_port_commentInvented :
    let w : Tok := ⟨51, .ws, " ".toList⟩
    let a : Tok := ⟨445, .code, "a".toList⟩
    let b : Tok := ⟨445, .code, "b".toList⟩
    let old : List Tok := [a, ⟨352, .code, ",".toList⟩, w, b, w, ⟨444, .code, ":".toList⟩, w, ⟨475, .code, "in".toList⟩, w,
      ⟨749, .code, "bit".toList⟩, w, ⟨13, .comment, "-- c".toList⟩]
    let action : Base.KV := [("last_element", .bool false), ("identifier_indexes", .list [.int 0, .int 3]), ("split_index", .int 4)]
    ∃ new, Base.fixS Base.stdEnv .port026 [] action old = .ok new ∧ commentSeq old = ["-- c".toList] ∧
      commentSeq new = ["-- c".toList, "-- c".toList] ∧ commentEndsLine new = false := by
  refine ⟨_, by rfl, by decide, by decide +kernel, by decide +kernel⟩

/-- the splitters keep the (empty) comment sequence when neither the tokens of interest nor the
    action's identifiers contain anything comment-like: the excluded cases are the witnesses above -/
theorem bfix_split_commentSeq_partial (E : Base.Env) (o : Base.SOwner) (params action : Base.KV) (old new : List Tok)
    (hs : o.isSplit = true) (h : Base.fixS E o params action old = .ok new)
    (hc : ∀ t ∈ old, t.isCommentLike = false)
    (hids : ∀ ids, (Base.needList action "identifiers" >>= Base.toksOf) = .ok ids → ∀ t ∈ ids, t.isCommentLike = false)
    (hsemi : (E.kindOf E.ifaceSemicolonCls).isCommentLike = false) :
    commentSeq new = commentSeq old := by
  have key : ∀ l : List Tok, (∀ t ∈ l, t.isCommentLike = false) → commentSeq l = [] := by
    intro l hl
    induction l with
    | nil => rfl
    | cons t r ih =>
      simp only [commentSeq, List.flatMap_cons, hl t (by simp), Bool.false_eq_true, if_false, List.nil_append]
      exact ih (fun t ht => hl t (by simp [ht]))
  rw [key old hc]
  apply key
  intro t ht
  cases o <;> simp [Base.SOwner.isSplit] at hs
  · obtain ⟨ids, _, _, h1, _, _, _, _, hm⟩ := Base.Split.fixSignal_codeSeq id E action old new h
    rcases hm t ht with h | h | h
    · exact hc t h
    · exact hids ids h1 t h
    · subst h; rfl
  · rcases Base.Split.fixPort_mem E action old new h t ht with h | h | h
    · exact hc t h
    · subst h; simpa [Tok.isCommentLike, Base.Env.inst] using hsemi
    · subst h; rfl

/-! ### END ag_bstruct -/

/-! ### BEGIN ag_bmulti (multi-line structure family: multiline_structure, fix.py, single rules) -/

open Base.Multi Base.LineStruct in
/-- **multiline_structure**, every fix function and every action string.  Comments are kept by the `insert`
    branches and by unknown action strings; by a `remove` branch (`[first, last]`) EXACTLY when no comment
    stood between the first and the last token of the region (the analysis skips comments when it looks
    for the region's first token: `multiStruct_commentLost`); `_fix_assign_on_single_line` removes
    exactly the `parser.comment` instances of its region (the documented removal,
    multiline_structure.py:536-545); `insert_and_move_comment` keeps them EXACTLY when the comments of
    the moved tail commute with those it jumps over -/
theorem bfix_multiStruct_commentSeq (params action : Base.KV) (old new : List Tok)
    (h : Base.fixByOwner (MOwner.name .multiStruct) params action old = some (.ok new)) :
    ∃ ty f act, dget action "type" = .ok ty ∧ msFnOf ty = .ok f ∧ dget action "action" = .ok act ∧
      match msKind f act old with
      | .insert | .noop => commentSeq new = commentSeq old
      | .collapse => 2 ≤ old.length → (commentSeq new = commentSeq old ↔ commentSeq (middle old) = [])
      | .join => commentSeq new = commentSeq (removeComments old)
      | .moveComment => ∃ t0 M D, LayoutOnly old (t0 :: M ++ D) ∧ new = t0 :: D ++ mkCr Base.lineCls :: M ∧
          (commentSeq new = commentSeq old ↔ commentSeq D ++ commentSeq M = commentSeq M ++ commentSeq D) := by
  have hm := run_fixM .multiStruct params action old new (mowner_all _) h
  obtain ⟨ty, f, act, h1, h2, h3, he⟩ := fixMS_effect _ _ action old new hm
  refine ⟨ty, f, act, h1, h2, h3, ?_⟩
  cases hk : msKind f act old <;> simp only [hk] at he ⊢
  · exact he.1.commentSeq.symm
  · intro hlen; exact collapse_commentSeq_iff _ old new he hlen
  · obtain ⟨t0, M, D, hl, hn⟩ := he
    refine ⟨t0, M, D, hl, hn, ?_⟩
    rw [hn]
    exact moveComment_proj commentSeq blind_commentSeq _ t0 M D old hl
  · rw [he]; exact joinAssign_commentSeq old
  · rw [he]

open Base.Multi Base.LineStruct in
/-- the guard the `remove` branches carry since the repairs c6e66e8 / 8e6c5bb: when it does not fire and the
    region holds no text line of a delimited comment, nothing comment-like stands between the first and the
    last token -/
theorem keepGuard_false_commentSeq (l : List Tok) (hg : keepGuard l = false)
    (hd : ∀ t ∈ middle l, t.kind ≠ .dcText) : commentSeq (middle l) = [] := by
  unfold keepGuard at hg
  unfold commentSeq middle
  rw [List.flatMap_eq_nil_iff]
  intro t ht
  have h1 := List.any_eq_false.mp hg t ht
  have h2 := hd t (by simpa [middle] using ht)
  simp only [isCommentInst, Bool.or_eq_true, beq_iff_eq, not_or] at h1
  have : t.isCommentLike = false := by
    unfold Tok.isCommentLike Kind.isCommentLike
    cases hk : t.kind <;> simp_all
  simp [this]

open Base.Multi Base.LineStruct in
/-- **multiline_structure `remove` branches after the repair** (was the genuine defect
    `multiStruct_commentLost`: `new_line_after_comma: no` turned `1, -- one ⏎ 2` into `1, 2`): a `remove`
    branch that collapses a region of at least two tokens without a delimited-comment text line keeps the
    comment / pragma / preprocessor sequence, for every region -/
theorem bfix_multiStruct_remove_keeps_comments (params action : Base.KV) (old new : List Tok)
    (h : Base.fixByOwner (MOwner.name .multiStruct) params action old = some (.ok new))
    (hlen : 2 ≤ old.length) (hd : ∀ t ∈ middle old, t.kind ≠ .dcText) :
    ∃ ty f act, dget action "type" = .ok ty ∧ msFnOf ty = .ok f ∧ dget action "action" = .ok act ∧
      (msKind f act old = .collapse ∨ msKind f act old = .noop → commentSeq new = commentSeq old) := by
  have hm := run_fixM .multiStruct params action old new (mowner_all _) h
  obtain ⟨ty, f, act, h1, h2, h3, he⟩ := fixMS_effect _ _ action old new hm
  refine ⟨ty, f, act, h1, h2, h3, ?_⟩
  intro hk
  rcases hk with hk | hk
  · rw [hk] at he
    have hg : keepGuard old = false := by
      cases hc' : keepGuard old with
      | false => rfl
      | true =>
        exfalso
        by_cases a1 : valIs act "insert" = true
        · cases f <;> simp [msKind, a1] at hk <;> (split at hk <;> simp at hk)
        · by_cases a2 : valIs act "remove" = true
          · cases f <;> simp [msKind, a1, a2, hc'] at hk
          · by_cases a3 : valIs act "insert_and_move_comment" = true
            · cases f <;> simp [msKind, a1, a2, a3] at hk
            · cases f <;> simp [msKind, a1, a2, a3] at hk
    exact (collapse_commentSeq_iff _ old new he hlen).mpr (keepGuard_false_commentSeq old hg hd)
  · rw [hk] at he; rw [he]

open Base.Multi in
/-- the witness of the former defect, now kept: the region `, ␣ --one ⏎ ␣␣ 2` is handed back unchanged -/
theorem multiStruct_comment_region_kept :
    let old : List Tok := [⟨9, .code, [',']⟩, ⟨Gen.wsCls, .ws, [' ']⟩, ⟨Gen.commentCls, .comment, "-- one".toList⟩,
      ⟨Gen.crCls, .cr, ['\n']⟩, ⟨Gen.wsCls, .ws, "    ".toList⟩, ⟨9, .code, ['2']⟩]
    let act : Base.KV := [("type", .dict [("fn", .str "_fix_new_line_after_comma".toList)]), ("action", .str "remove".toList)]
    Base.fixByOwner (MOwner.name .multiStruct) [] act old = some (.ok old) := by decide +kernel

open Base.Multi Base.LineStruct in
/-- **multiline_structure, comment still ends its line (every context)**: the `insert` branches always;
    a `remove` branch when the region's first token is no `--` comment; `_fix_assign_on_single_line`
    (no comment and no line break is left) when the region does not start with a line break -/
theorem bfix_multiStruct_celSafe (params action : Base.KV) (old new : List Tok)
    (h : Base.fixByOwner (MOwner.name .multiStruct) params action old = some (.ok new)) :
    ∃ ty f act, dget action "type" = .ok ty ∧ msFnOf ty = .ok f ∧ dget action "action" = .ok act ∧
      match msKind f act old with
      | .insert | .noop => CelSafe old new
      | .collapse => 2 ≤ old.length → endsLC (old.take 1) = false → CelSafe old new
      | .join => startsCr old = false → CelSafe old new
      | .moveComment => True := by
  have hm := run_fixM .multiStruct params action old new (mowner_all _) h
  obtain ⟨ty, f, act, h1, h2, h3, he⟩ := fixMS_effect _ _ action old new hm
  refine ⟨ty, f, act, h1, h2, h3, ?_⟩
  cases hk : msKind f act old <;> simp only [hk] at he ⊢
  · exact he.2
  · intro hlen ha; exact collapse_celSafe' _ old new he hlen ha
  · intro hs; rw [he]; exact joinAssign_celSafe old hs
  · rw [he]; exact CelSafe.refl' _

open Base.Multi in
/-- **multiline_simple_structure**: comments kept by "insert" and by unknown types / actions; by "remove"
    EXACTLY when no comment stood between the assignment operator and the expression; every context keeps
    comments at their line ends for "insert", and for "remove" when the first token is no comment -/
theorem bfix_simple_commentSeq (params action : Base.KV) (old new : List Tok)
    (h : Base.fixByOwner (MOwner.name .simple) params action old = some (.ok new)) :
    ∃ ty, dget action "type" = .ok ty ∧
      ((valIs ty "new_line_after_assign" = false ∧ new = old) ∨
       (valIs ty "new_line_after_assign" = true ∧ ∃ act, dget action "action" = .ok act ∧
          match simpleKind ty act with
          | .collapse => 2 ≤ old.length → (commentSeq new = commentSeq old ↔ commentSeq (middle old) = []) ∧
              (Base.LineStruct.endsLC (old.take 1) = false → Base.LineStruct.CelSafe old new)
          | _ => commentSeq new = commentSeq old ∧ Base.LineStruct.CelSafe old new)) := by
  have hm := run_fixM .simple params action old new (mowner_all _) h
  obtain ⟨ty, h1, hc⟩ := fixSimple_effect _ action old new hm
  refine ⟨ty, h1, ?_⟩
  rcases hc with hc | ⟨ht, act, ha, he⟩
  · exact Or.inl hc
  · refine Or.inr ⟨ht, act, ha, ?_⟩
    have hkinds : simpleKind ty act = .insert ∨ simpleKind ty act = .collapse ∨ simpleKind ty act = .noop := by
      unfold simpleKind; simp only [ht, if_true]
      by_cases a1 : valIs act "insert" = true
      · simp [a1]
      · by_cases a2 : valIs act "remove" = true <;> simp [a1, a2]
    rcases hkinds with hk | hk | hk <;> simp only [hk] at he ⊢
    · exact ⟨he.1.commentSeq.symm, he.2⟩
    · intro hlen; exact ⟨collapse_commentSeq_iff _ old new he hlen, fun ha => collapse_celSafe' _ old new he hlen ha⟩
    · rw [he]; exact ⟨rfl, Base.LineStruct.CelSafe.refl' _⟩

open Base.Multi in
/-- **KNOWN DEFECT `commentLost` at multiline_simple_structure**, smallest witness: `a <= -- c ⏎ b;` with
    the default `new_line_after_assign: no` — the region `<= ␣ -- c ⏎ ␣␣ b` comes back as `<= ␣ b` -/
theorem simple_commentLost :
    let old : List Tok := [⟨9, .code, "<=".toList⟩, ⟨Gen.wsCls, .ws, [' ']⟩, ⟨Gen.commentCls, .comment, "-- c".toList⟩,
      ⟨Gen.crCls, .cr, ['\n']⟩, ⟨Gen.wsCls, .ws, "    ".toList⟩, ⟨9, .code, ['b']⟩]
    let act : Base.KV := [("type", .str "new_line_after_assign".toList), ("action", .str "remove".toList)]
    ∃ new, Base.fixByOwner (MOwner.name .simple) [] act old = some (.ok new) ∧
      commentSeq old = ["-- c".toList] ∧ commentSeq new = [] :=
  ⟨[⟨9, .code, "<=".toList⟩, ⟨Gen.wsCls, .ws, [' ']⟩, ⟨9, .code, ['b']⟩], by decide +kernel, by decide, by decide⟩

open Base.Multi Base.LineStruct in
/-- **vsg/rules/fix.py** (6 rules): comments, pragmas and preprocessor lines are kept when the region holds
    no preprocessor token; they stay at their line ends in every context when the region holds no `--`
    comment and does not start with a line break — `add_new_line` needs neither hypothesis -/
theorem bfix_fixpy_commentSeq_partial (o : MOwner) (ho : o.usesFixPy = true) (params action : Base.KV) (old new : List Tok)
    (h : Base.fixByOwner o.name params action old = some (.ok new)) :
    ((∀ t ∈ old, t.kind ≠ .preproc) → commentSeq new = commentSeq old) ∧
    (startsCr old = false → (∀ t ∈ old, isLC t = false) → CelSafe old new) ∧
    (∀ act, dget action "action" = .ok act → nlKind act = .add → CelSafe old new ∧ commentSeq new = commentSeq old) := by
  have hm := run_fixM o params action old new (mowner_all _) h
  have hm' : fixNL Base.multiEnv.c action old = .ok new := by
    cases o <;> simp [MOwner.usesFixPy] at ho <;> exact hm
  refine ⟨fun hp => (fixNL_layoutOnly _ action old new hm' hp).commentSeq.symm,
    (fixNL_celSafe _ action old new hm').2, fun act ha hk => ⟨(fixNL_celSafe _ action old new hm').1 act ha hk, ?_⟩⟩
  obtain ⟨act', ha', hkk⟩ := fixNL_cases _ action old new hm'
  rw [ha] at ha'; cases ha'
  simp only [hk] at hkk
  exact (addNewLine_spec _ old new hkk).1.commentSeq.symm

open Base.Multi in
/-- **KNOWN DEFECT `commentAbsorbsCode` at multiline_subprogram_specification_structure** (the same code
    serves multiline_constraint_structure and multiline_procedure_call_structure), smallest witness:
    `procedure p -- c ⏎ (a : integer);` — `remove_new_line` gets ` -- c ⏎ ␣␣(` and returns `-- c ␣ (`;
    and a trailing preprocessor token is deleted by `remove_trailing_whitespace` -/
theorem fixpy_commentAbsorbsCode :
    let old : List Tok := [⟨Gen.wsCls, .ws, [' ']⟩, ⟨Gen.commentCls, .comment, "-- c".toList⟩, ⟨Gen.crCls, .cr, ['\n']⟩,
      ⟨Gen.wsCls, .ws, "  ".toList⟩, ⟨9, .code, ['(']⟩]
    let act : Base.KV := [("action", .str "remove_new_line".toList)]
    (∃ new, Base.fixByOwner (MOwner.name .subprogram) [] act old = some (.ok new) ∧
      commentEndsLine old = true ∧ commentEndsLine new = false) ∧
    (∃ new, Base.fixByOwner (MOwner.name .subprogram) [] act
        [⟨9, .code, ['a']⟩, ⟨Gen.crCls, .cr, ['\n']⟩, ⟨35, .preproc, "`if X".toList⟩] = some (.ok new) ∧
      commentSeq new = []) :=
  ⟨⟨[⟨Gen.commentCls, .comment, "-- c".toList⟩, ⟨Gen.wsCls, .ws, [' ']⟩, ⟨9, .code, ['(']⟩], by decide +kernel, by decide, by decide⟩,
   ⟨[⟨9, .code, ['a']⟩], by decide +kernel, by decide⟩⟩

open Base.Multi Base.LineStruct in
/-- conditional_waveforms_001, concurrent_008, after_002, every action: comments kept;
    conditional_waveforms_001 (a line break appended) keeps them at their line ends in every context -/
theorem bfix_multi_inserters_commentSeq (o : MOwner) (ho : o = .condWave001 ∨ o = .concurrent008 ∨ o = .after002)
    (params action : Base.KV) (old new : List Tok)
    (h : Base.fixByOwner o.name params action old = some (.ok new)) :
    commentSeq new = commentSeq old ∧ (o = .condWave001 → CelSafe old new) := by
  have hm := run_fixM o params action old new (mowner_all _) h
  rcases ho with rfl | rfl | rfl
  · exact ⟨(fixCondWave_spec _ old new hm).1.commentSeq.symm, fun _ => (fixCondWave_spec _ old new hm).2⟩
  · exact ⟨(fixAlignComment_layoutOnly _ _ action old new hm).commentSeq.symm, fun e => by cases e⟩
  · exact ⟨(fixAlignComment_layoutOnly _ _ action old new hm).commentSeq.symm, fun e => by cases e⟩

open Base.Multi Base.LineStruct in
/-- **instantiation_005**, action "add": comments kept, at their line ends in every context -/
theorem bfix_inst005_add_commentSeq (params action : Base.KV) (old new : List Tok)
    (h : Base.fixByOwner (MOwner.name .inst005) params action old = some (.ok new))
    (ha : action.get "_str" = some (.str "add".toList)) : commentSeq new = commentSeq old ∧ CelSafe old new := by
  have hm := run_fixM .inst005 params action old new (mowner_all _) h
  exact ⟨(fixInst005_add_spec _ action old new hm ha).1.commentSeq.symm, (fixInst005_add_spec _ action old new hm ha).2⟩

open Base.Multi Base.LineStruct in
/-- **comment_011**: the comment sequence survives the rotation EXACTLY when the comments of the two parts
    commute; comments stay at their line ends in every context when the part in front of the cut neither
    starts with a line break nor ends in a comment -/
theorem bfix_comment011_commentSeq_iff (params action : Base.KV) (old new : List Tok) (i : Int)
    (h : Base.fixByOwner (MOwner.name .comment011) params action old = some (.ok new))
    (hi : dget action "iToken" = .ok (.int i)) :
    (commentSeq new = commentSeq old ↔
      commentSeq (old.drop (pyCut old.length i)) ++ commentSeq (old.take (pyCut old.length i)) =
        commentSeq (old.take (pyCut old.length i)) ++ commentSeq (old.drop (pyCut old.length i))) ∧
    ((old.take (pyCut old.length i) = [] ∨ startsCr (old.take (pyCut old.length i)) = false) →
      endsLC (old.take (pyCut old.length i)) = false → CelSafe old new) := by
  have hm := run_fixM .comment011 params action old new (mowner_all _) h
  obtain ⟨v, b, hv, hb, hn⟩ := fixComment011_eq _ action old new hm
  rw [hi] at hv; cases hv
  simp only [asBound] at hb; cases hb
  have hn' : new = old.drop (pyCut old.length i) ++ [mkCr Base.multiEnv.c] ++ old.take (pyCut old.length i) := hn
  rw [hn']
  exact ⟨rotate_proj commentSeq blind_commentSeq _ old _, fun h1 h2 => rotate_celSafe _ old _ h1 h2⟩

open Base.Multi Base.LineStruct in
/-- **when_001**: comments kept EXACTLY when the moved token commutes with the comments it jumps over (a
    code token always does); in a region that does not start with a line break the move keeps comments at
    their line ends when the moved token is neither comment nor line break -/
theorem bfix_when001_commentSeq_iff (params action : Base.KV) (old new : List Tok)
    (h : Base.fixByOwner (MOwner.name .when001) params action old = some (.ok new)) :
    ∃ m x tail, old = m ++ [x] ++ tail ∧ (∀ t ∈ tail, isWs t = true) ∧ m ≠ [] ∧ new = mkWs Base.lineCls :: x :: m ∧
      (commentSeq new = commentSeq old ↔ commentSeq [x] ++ commentSeq m = commentSeq m ++ commentSeq [x]) ∧
      (x.isCode = true → commentSeq new = commentSeq old) ∧
      (startsCr m = false → isLC x = false → isCr x = false → CelSafe old new) := by
  have hm := run_fixM .when001 params action old new (mowner_all _) h
  obtain ⟨m, x, tail, hl, ht, hne, hn⟩ := fixWhen001_eq _ old new hm
  have hiff := when001_proj commentSeq blind_commentSeq Base.multiEnv.c m x tail ht
  refine ⟨m, x, tail, hl, ht, hne, hn, ?_, ?_, ?_⟩
  · rw [hn, hl]; exact hiff
  · intro hx
    rw [hn, hl]
    apply hiff.2
    have : commentSeq [x] = [] := by
      have hc : x.isCommentLike = false := by
        unfold Tok.isCode at hx; unfold Tok.isCommentLike Kind.isCommentLike
        cases hk : x.kind <;> simp_all
      simp [commentSeq, hc]
    rw [this]; simp
  · intro hs hx hxc
    rw [hn, hl]
    exact when001_celSafe _ m x tail ht hne hs hx hxc

open Base.Multi in
/-- **process_021**: comments kept when every blank_line token of the region is followed by its line break -/
theorem bfix_process021_commentSeq_partial (params action : Base.KV) (old new : List Tok)
    (h : Base.fixByOwner (MOwner.name .process021) params action old = some (.ok new))
    (hg : blankThenCr old = true) : commentSeq new = commentSeq old := by
  have hm := run_fixM .process021 params action old new (mowner_all _) h
  obtain ⟨st, _, hc⟩ := fixProcess021_cases _ params old new hm
  rcases hc with ⟨_, h1⟩ | ⟨_, _, h1⟩ | ⟨_, _, h1⟩
  · exact (dropBlankAndNext_layoutOnly old new h1 hg).1.commentSeq.symm
  · exact (insertBlankBeforeLast_layoutOnly _ old new h1).commentSeq.symm
  · rw [h1]

open Base.Multi in
/-- **KNOWN FINDING `commentAbsorbsCode` at process_021** (style require_blank_line): on
    `process -- c ⏎ begin` the new `blank_line` token is inserted BETWEEN the comment and the line break that
    ends it (`… -- c, blank_line, ⏎, ⏎, begin`): at token level the comment is no longer followed by its
    line break (the text, `blank_line` having the empty value, is unharmed — the same misplacement is the
    C08 finding) -/
theorem process021_commentAbsorbsCode :
    let old : List Tok := [⟨9, .code, "process".toList⟩, ⟨Gen.wsCls, .ws, [' ']⟩, ⟨Gen.commentCls, .comment, "-- c".toList⟩,
      ⟨Gen.crCls, .cr, ['\n']⟩, ⟨9, .code, "begin".toList⟩]
    ∃ new, Base.fixByOwner (MOwner.name .process021) [("style", .str "require_blank_line".toList)] [] old = some (.ok new) ∧
      commentEndsLine old = true ∧ commentEndsLine new = false ∧ commentSeq new = commentSeq old :=
  ⟨[⟨9, .code, "process".toList⟩, ⟨Gen.wsCls, .ws, [' ']⟩, ⟨Gen.commentCls, .comment, "-- c".toList⟩,
      ⟨Gen.blankCls, .blank, []⟩, ⟨Gen.crCls, .cr, ['\n']⟩, ⟨Gen.crCls, .cr, ['\n']⟩, ⟨9, .code, "begin".toList⟩],
    by decide +kernel, by decide, by decide, by decide⟩

open Base.Multi in
/-- after_003 keeps only the last token of its region: every comment in front of it goes with the
    `after` clause; process_029 builds a region without any comment -/
theorem bfix_after003_process029_commentSeq (params action : Base.KV) (old new : List Tok) :
    (Base.fixByOwner (MOwner.name .after003) params action old = some (.ok new) →
      ∃ x, old = old.dropLast ++ [x] ∧ commentSeq old = commentSeq old.dropLast ++ commentSeq new) ∧
    (Base.fixByOwner (MOwner.name .process029) params action old = some (.ok new) → commentSeq new = []) := by
  constructor
  · intro h
    obtain ⟨x, hl, hn⟩ := fixAfter003_eq old new (run_fixM .after003 params action old new (mowner_all _) h)
    refine ⟨x, hl, ?_⟩
    rw [hn]
    conv => lhs; rw [hl]
    rw [commentSeq_append]
  · intro h
    obtain ⟨conv, _, hc⟩ := fixProcess029_eq _ action old new (run_fixM .process029 params action old new (mowner_all _) h)
    have kk : ∀ cls, cls ∈ [Base.multiEnv.risingCls, Base.multiEnv.fallingCls, Base.multiEnv.openParenCls,
        Base.multiEnv.closeParenCls, Base.multiEnv.todoCls, Base.multiEnv.ticCls, Base.multiEnv.eventCls,
        Base.multiEnv.andCls, Base.multiEnv.equalCls, Base.multiEnv.charLitCls] → Base.multiEnv.kindOf cls = .code := by
      decide +kernel
    have k : ∀ cls s, Base.multiEnv.kindOf cls = .code → (Base.multiEnv.inst cls s).isCommentLike = false := by
      intro cls s hk; simp [MEnv.inst, Tok.isCommentLike, hk, Kind.isCommentLike]
    have kw : (Base.LineStruct.mkWs Base.multiEnv.c).isCommentLike = false := rfl
    have f1 := fun s => k Base.multiEnv.risingCls s (kk _ (by simp))
    have f2 := fun s => k Base.multiEnv.fallingCls s (kk _ (by simp))
    have f3 := fun s => k Base.multiEnv.openParenCls s (kk _ (by simp))
    have f4 := fun s => k Base.multiEnv.closeParenCls s (kk _ (by simp))
    have f5 := fun s => k Base.multiEnv.todoCls s (kk _ (by simp))
    have f6 := fun s => k Base.multiEnv.ticCls s (kk _ (by simp))
    have f7 := fun s => k Base.multiEnv.eventCls s (kk _ (by simp))
    have f8 := fun s => k Base.multiEnv.andCls s (kk _ (by simp))
    have f9 := fun s => k Base.multiEnv.equalCls s (kk _ (by simp))
    have f10 := fun s => k Base.multiEnv.charLitCls s (kk _ (by simp))
    rcases hc with ⟨_, e, clk, _, _, hn⟩ | ⟨_, clk, e, _, _, hn⟩
    · rw [hn]; unfold edgeCall
      cases valIs e "rising_edge" <;>
        simp only [commentSeq, List.flatMap_cons, List.flatMap_nil, f1, f2, f3, f4, f5, Bool.false_eq_true, if_false,
          if_true, List.append_nil]
    · rw [hn]; unfold eventExpr
      simp only [commentSeq, List.flatMap_cons, List.flatMap_nil, f5, f6, f7, f8, f9, f10, kw, Bool.false_eq_true,
        if_false, List.append_nil]

open Base.Multi Base.LineStruct in
/-- **the aligners** (concurrent_008, after_002, signal_012, library_009, process_028): whenever the fix
    REWRITES a token value (the whitespace in front of the aligned token; signal_012: `lTokens[1]` of a
    region of other than two tokens; the comment / keyword aligners: any action but "insert") every comment
    stays at its line end in every context — `commentEndsLine` looks at token kinds only -/
theorem bfix_multi_aligners_setValue_celSafe (params action : Base.KV) (old new : List Tok) :
    (∀ o, (o = MOwner.concurrent008 ∨ o = .after002) → Base.fixByOwner o.name params action old = some (.ok new) →
      (∃ ti prev, dgetInt action "token_index" = .ok ti ∧ Base.pyGet old (ti - 1) = .ok prev ∧ isWs prev = true) →
      CelSafe old new) ∧
    (Base.fixByOwner (MOwner.name .signal012) params action old = some (.ok new) → old.length ≠ 2 → CelSafe old new) ∧
    (∀ o, (o = MOwner.alignCommentAbove ∨ o = .alignLeftRight) → Base.fixByOwner o.name params action old = some (.ok new) →
      (∃ a, dget action "action" = .ok a ∧ valIs a "insert" = false) → CelSafe old new) := by
  refine ⟨fun o ho h hw => ?_, fun h hl => ?_, fun o ho h ha => ?_⟩
  · have hm := run_fixM o params action old new (mowner_all _) h
    rcases ho with rfl | rfl <;> exact fixAlignComment_set_celSafe _ _ action old new hm hw
  · exact fixSignal012_set_celSafe _ action old new (run_fixM .signal012 params action old new (mowner_all _) h) hl
  · have hm := run_fixM o params action old new (mowner_all _) h
    rcases ho with rfl | rfl <;> exact fixSetWs_set_celSafe _ _ action old new hm ha

/-! ### END ag_bmulti -/

end Vsgm.C02
