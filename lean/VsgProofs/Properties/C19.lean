/-
  C19 — every accepted file can be checked and fixed without a crash or a hang.
  What Lean carries here: (1) totality and in-range indexing of the modelled tokenizer (all
  strings), (2) termination of every modelled engine loop (the definitions are structurally
  recursive / folds: accepted by Lean's termination checker), (3) the outcome structure of
  apply_rules / main: a rejected file is reported, sets exit status 1 and does not stop the
  remaining files.  The rules' own code is layer U: decided per explored run.
-/
import VsgModel.Engine.Outcome
import VsgModel.Engine.RuleRun
import VsgModel.Lex.Create
import VsgProofs.Properties.C04
import VsgProofs.Lemmas.BaseCaseTok
import VsgModel.Base.CaseTables
-- >>> WP1b layer P
import VsgProofs.Lemmas.ProgErr
import VsgProofs.Lemmas.ProgLink
-- <<< WP1b layer P
namespace Vsgm.C19
open Vsgm Vsgm.Outcome

/-- a rejected file: located one-line message on stderr, exit contribution 1, loop goes on -/
theorem reject_reports_and_goes_on (f msg : String) :
    applyRules f (.classifyError msg) = .ret true (some s!"Error while processing {f}: {msg}") false := rfl

/-- files after a rejected file are still processed: the results of the loop are the result
    of the rejected file followed by the results of the rest -/
theorem loop_continues_after_reject (f msg : String) (rest : List (String × Event)) :
    mainLoop ((f, .classifyError msg) :: rest) =
      (mainLoop rest).map (.ret true (some s!"Error while processing {f}: {msg}") false :: ·) := rfl

/-- the exit status is non-zero as soon as one file was rejected, failed to configure or has an
    error-severity violation -/
theorem exit_nonzero_of_reject (rs : List Result) (msg : Option String) (stop : Bool)
    (h : Result.ret true msg stop ∈ rs) : exitStatus rs = true := by
  unfold exitStatus
  rw [List.any_eq_true]
  exact ⟨_, h, rfl⟩

/-- a run ends in a traceback only if some file's processing raised something other than
    ClassifyError / ConfigurationError / the local-rules OSError: `mainLoop = none` needs an
    `otherException` event -/
theorem traceback_only_from_uncaught (l : List (String × Event)) (h : mainLoop l = none) :
    ∃ f n, (f, Event.otherException n) ∈ l := by
  induction l with
  | nil => simp [mainLoop] at h
  | cons p rest ih =>
    obtain ⟨f, e⟩ := p
    cases e with
    | otherException n => exact ⟨f, n, List.mem_cons_self ..⟩
    | classifyError m =>
      simp only [mainLoop, applyRules, Bool.false_eq_true, if_false, Option.map_eq_none_iff] at h
      obtain ⟨f', n, hm⟩ := ih h
      exact ⟨f', n, List.mem_cons_of_mem _ hm⟩
    | checked v =>
      simp only [mainLoop, applyRules, Bool.false_eq_true, if_false, Option.map_eq_none_iff] at h
      obtain ⟨f', n, hm⟩ := ih h
      exact ⟨f', n, List.mem_cons_of_mem _ hm⟩
    | localRulesOSError => simp [mainLoop, applyRules] at h
    | configurationError m => simp [mainLoop, applyRules] at h

/-- the tokenizer model is a total function that only regroups characters and never yields an
    empty token (all Unicode strings): `tokens.create` itself cannot be the source of a crash on
    the index look-ups it performs -/
theorem tokenizer_total (s : Str) : (Lex.create Lex.pyTables s).flatten = s ∧ ∀ t ∈ Lex.create Lex.pyTables s, t ≠ [] :=
  ⟨C04.create_flatten_py s, C04.create_no_empty_py s⟩

/-- the engine never invokes a rule outside the schedule: a fix run is a fold over a finite
    list, hence terminates whenever every rule's `analyze` / `_fix_violation` does -/
theorem fixRun_is_finite_fold (rs : List Rule) (fixPhase : Nat) (skip : List Nat) (fo : Option FixOnly)
    (post : List Tok → List Tok) (f : List Tok) :
    fixRun rs fixPhase skip fo post f = (schedule rs fixPhase skip).foldl (stepOpt fo post) (f, false) := rfl

example : mainLoop [("a.vhd", .classifyError "x"), ("b.vhd", .checked false)] =
    some [.ret true (some "Error while processing a.vhd: x") false, .ret false none false] := by decide

end Vsgm.C19

-- >>> WP1 layer P: error shape of the translated classifier productions
namespace Vsgm.C19
open Vsgm.Prog

/-- **productions, error shape**: a call of the interpreter returns a value or one of the enumerated outcomes:
    the four Python exceptions of `PyErr`, AttributeError, ValueError, RecursionError, or the interpreter's own
    `outOfFuel` / `unmodelled` (which are not Python outcomes and are reported as such by `./check PROG`) -/
theorem prog_result_enumerated (S : Sys) (n f : Nat) (args : List Val) (st : State) :
    (∃ v, ((run S n).call f args st).1 = .ok v)
    ∨ ((run S n).call f args st).1 = .error (.py .indexError)
    ∨ ((run S n).call f args st).1 = .error (.py .typeError)
    ∨ ((run S n).call f args st).1 = .error (.py .unboundLocal)
    ∨ ((run S n).call f args st).1 = .error (.py .classifyError)
    ∨ ((run S n).call f args st).1 = .error .attributeError
    ∨ ((run S n).call f args st).1 = .error .valueError
    ∨ ((run S n).call f args st).1 = .error .recursionError
    ∨ ((run S n).call f args st).1 = .error .outOfFuel
    ∨ ((run S n).call f args st).1 = .error .unmodelled := by
  cases h : ((run S n).call f args st).1 with
  | ok v => exact Or.inl ⟨v, rfl⟩
  | error e =>
    right
    cases e with
    | py p => cases p <;> simp
    | attributeError => simp
    | valueError => simp
    | recursionError => simp
    | outOfFuel => simp
    | unmodelled => simp

/-- the only functions of the GENERATED table that contain a `raise` statement are `utils.print_error_message`
    and `utils.print_missing_error_message` (stated by name): every ClassifyError of the
    productions is built there; IndexError / TypeError / UnboundLocalError come out of the leaf operations
    (`lObjects[i]`, `None + 1`, unassigned locals) and are found by the search (known findings of C19) -/
theorem progTable_raise_sites :
    failingNames Chk.noRaise Gen.Prog.progTable = ["utils.print_error_message", "utils.print_missing_error_message"] := by
  decide +kernel

/-- a run that ends in IndexError stops there: the state is returned as it was when the exception was raised
    (no token inserted or deleted), cf. `C04.prog_call_length` -/
example : (((run C04.demoSys 6).call 0 [.toks, .int 5, .cls 9] (initState C04.demoSys C04.demoToks)).2.toks.size) = 2 := by
  decide +kernel

end Vsgm.C19
-- <<< WP1 layer P

-- >>> WP1b layer P: where the exceptions of the productions can originate
namespace Vsgm.C19
open Vsgm.Prog

/-- **no `raise`, no ClassifyError**: if no function of the table contains a `raise` statement, no call — any fuel,
    function, arguments, state — ends in ClassifyError -/
theorem prog_no_classifyError (S : Sys) (htab : ∀ fd ∈ S.funs.toList, fd.ok Chk.noRaise = true)
    (n f : Nat) (args : List Val) (st : State) : ((run S n).call f args st).1 ≠ .error (.py .classifyError) :=
  call_no_classifyError S htab n f args st

/-- **no subscript, no IndexError**: if no function of the table contains a subscript read `l[i]`, a subscript
    store, a fused store or a `pop`, no call ends in IndexError (slices, `enumerate(l[i::])`, `for … in range` clamp
    and cannot raise it) -/
theorem prog_no_indexError (S : Sys) (htab : ∀ fd ∈ S.funs.toList, fd.ok Chk.noIndex = true)
    (n f : Nat) (args : List Val) (st : State) : ((run S n).call f args st).1 ≠ .error (.py .indexError) :=
  call_no_indexError S htab n f args st

/-- the general form: whatever predicate `A` admits the ambient outcomes, admits IndexError where the checker admits a
    subscript / fused store / `pop`, and admits ClassifyError where it admits `raise`, holds of every exception a call
    can end in -/
theorem prog_error_origin (S : Sys) (A : Err → Prop) (C : Chk) (hS : ErrSound A C)
    (htab : ∀ fd ∈ S.funs.toList, fd.ok C = true) (n f : Nat) (args : List Val) (st : State) (e : Err)
    (h : ((run S n).call f args st).1 = .error e) : A e :=
  (err_run hS htab n).call f args st e h

/-- the functions of the GENERATED table that contain a subscript read / store, a fused store or a `pop`, by name: an
    IndexError of the productions can only be raised while one of them is on the stack (82 of 549; the other 467
    cannot originate one) -/
def progIndexSites : List String :=
  ["utils.assign_tokens_until_ignoring_paren", "utils.assign_next_token", "utils.assign_token",
   "utils.assign_next_token_if", "utils.assign_next_token_if_not", "utils.assign_next_token_if_not_one_of",
   "utils.assign_next_token_required", "utils.assign_tokens_until_matching_closing_paren",
   "utils.object_value_is", "utils.object_value_matches", "utils.is_item", "utils.get_range",
   "utils.are_next_consecutive_tokens", "utils.are_next_consecutive_token_types",
   "utils.are_next_consecutive_tokens_ignoring_whitespace",
   "utils.are_next_consecutive_token_types_ignoring_whitespace",
   "utils.are_previous_consecutive_token_types_ignoring_whitespace", "utils.find_earliest_occurrence",
   "utils.find_earliest_occurrence_not_in_paren", "utils.find_next_non_whitespace_token",
   "utils.find_previous_non_whitespace_token", "utils.print_debug", "utils.print_next_token",
   "utils.print_token", "utils.print_line", "utils.is_next_token_one_of", "utils.calculate_line_number",
   "utils.calculate_column", "utils.print_error_message", "utils.extract_module_name",
   "utils.is_next_token_in_list", "utils.remove_consecutive_whitespace_tokens",
   "utils.remove_comment_at_end_of_token_list", "utils.remove_trailing_whitespace",
   "utils.remove_trailing_whitespace_and_comments", "utils.remove_leading_whitespace_and_comments",
   "utils.remove_all_trailing_whitespace", "utils.find_carriage_return", "utils.does_token_start_line",
   "utils.fix_blank_lines", "utils.fix_trailing_whitespace", "utils.assign_special_tokens",
   "utils.exponent_detected", "utils.classify_predefined_types", "utils.extract_line_with_token_index_of",
   "classify.architecture_statement_part.classify_until", "classify.case_generate_statement.detect",
   "classify.comment.ending_token_exists", "classify.comment.ending_token_should_exist",
   "classify.comment.replace_token_with_ending_token", "classify.comment.remove_last_star_from_previous_token",
   "classify.comment.classify_delimited_comment_open_keyword",
   "classify.concurrent_conditional_signal_assignment.detect", "classify.discrete_range.classify_until",
   "classify.expression.classify_until", "classify.for_generate_statement.detect",
   "classify.if_generate_statement.detect", "classify.instantiated_unit.classify_entity_name",
   "classify.logical_name_list.classify_until", "classify.name.classify_until",
   "classify.pragma.set_tokens_to_ignore", "classify.pragma.inside_vhdloff_vhdlon_region",
   "classify.pragma.check_for_open_pragmas", "classify.pragma.first_token_is_a_comment",
   "classify.pragma.second_token_is_a_comment", "classify.pragma.classify_open_pragmas",
   "classify.pragma.classify_close_pragmas", "classify.pragma.classify_single_pragmas",
   "classify.pragma.classify_pragma", "classify.preprocessor.classify", "classify.procedure_call.detect",
   "classify.procedure_call_statement.detect", "classify.range.check_for_todo_token",
   "classify.sensitivity_list.classify_until", "classify.utils.classify_selected_name",
   "classify.utils.build_use_clause_selected_name_token_list",
   "classify.utils.build_context_reference_selected_name_token_list",
   "classify.utils.classify_use_clause_selected_name_elements",
   "classify.utils.classify_context_reference_selected_name_elements",
   "classify.utils.replace_item_in_list_with_a_list_at_index", "classify.whitespace.is_string_literal",
   "classify.whitespace.is_character_literal"]

theorem progTable_index_sites : failingNames Chk.noIndex Gen.Prog.progTable = progIndexSites := by decide +kernel

theorem progTable_masked_noIndex :
    (maskNames progIndexSites Gen.Prog.progTable).all (fun fd => fd.ok Chk.noIndex) = true := by decide +kernel

def progRaiseSites : List String := ["utils.print_error_message", "utils.print_missing_error_message"]

theorem progTable_masked_noRaise :
    (maskNames progRaiseSites Gen.Prog.progTable).all (fun fd => fd.ok Chk.noRaise) = true := by decide +kernel

/-- **every ClassifyError of the generated productions comes out of `print_error_message` /
    `print_missing_error_message`**: a call on the full generated table that the table with these two functions
    opaque reproduces (i.e. that never calls them) does not end in ClassifyError -/
theorem prog_classifyError_origin (S : Sys) (hS : S.funs = (Gen.Prog.progTable.map (·.2)).toArray)
    (n f : Nat) (args : List Val) (st : State)
    (h : ((run { S with funs := (maskNames progRaiseSites Gen.Prog.progTable).toArray } n).call f args st).1
      ≠ .error .unmodelled) :
    ((run S n).call f args st).1 ≠ .error (.py .classifyError) := by
  rw [call_link S _ (masked_maskNames S progRaiseSites Gen.Prog.progTable hS) n f args st h]
  apply call_no_classifyError
  intro fd hfd
  have := progTable_masked_noRaise
  rw [List.all_eq_true] at this
  exact this fd (by simpa using hfd)

/-- **every IndexError of the generated productions originates in one of the 82 functions of `progIndexSites`** -/
theorem prog_indexError_origin (S : Sys) (hS : S.funs = (Gen.Prog.progTable.map (·.2)).toArray)
    (n f : Nat) (args : List Val) (st : State)
    (h : ((run { S with funs := (maskNames progIndexSites Gen.Prog.progTable).toArray } n).call f args st).1
      ≠ .error .unmodelled) :
    ((run S n).call f args st).1 ≠ .error (.py .indexError) := by
  rw [call_link S _ (masked_maskNames S progIndexSites Gen.Prog.progTable hS) n f args st h]
  apply call_no_indexError
  intro fd hfd
  have := progTable_masked_noIndex
  rw [List.all_eq_true] at this
  exact this fd (by simpa using hfd)

/-- non-vacuity: a function without subscripts (`return x + 1`) passes `Chk.noIndex` and `Chk.noRaise`; the store of
    `assign_next_token` does not pass `Chk.noIndex` — and does end in IndexError (example in C04) -/
def plusOne : FunDef := { nparams := 1, nlocals := 1, body := [.ret (.binop .add (.var 0) (.int 1))] }

example : plusOne.ok Chk.noIndex = true ∧ plusOne.ok Chk.noRaise = true ∧ C04.demoFun.ok Chk.noIndex = false := by
  decide +kernel

example : ∀ fd ∈ ({ C04.demoSys with funs := #[plusOne] } : Sys).funs.toList, fd.ok Chk.noIndex = true := by
  decide +kernel

/-- `None + 1` is TypeError — an ambient outcome no syntactic condition of these theorems excludes -/
example : (match ((run { C04.demoSys with funs := #[plusOne] } 6).call 0 [.none] (initState C04.demoSys C04.demoToks)).1 with
    | .error e => some e | .ok _ => none) = some (.py .typeError) := by decide +kernel

end Vsgm.C19
-- <<< WP1b layer P

/-! ### BEGIN wp5b (case family: the analysis cannot raise a TypeError any more) -/
namespace Vsgm.C19
open Vsgm Vsgm.Base Vsgm.Base.Case

/-- **`token_case` analysis (243 rules) after the repair of `check_for_prefix_and_suffix_exceptions`**: for every
    interpreter table, option set (style, prefix / suffix / whole-word exception lists, overlapping or not) and
    region, the analysis returns — or raises the KeyError of an unknown `case` option, the ValueError / IndexError of
    `check_for_exception`, or the IndexError of an empty region.  The TypeError of a prefix and a suffix
    exception that overlap in a name (`prefix_exceptions: [RD]`, `suffix_exceptions: [D]`, name `rd`) is gone. -/
theorem bfull_case_analysis_errors (E : Case.Env) (p : Params) (l : List Tok) (e : PyErr)
    (h : TokenCase.analyzeToi E p l = .error e) :
    (∃ n, e = .keyError n) ∨ e = .valueError ∨ e = .indexError := by
  unfold TokenCase.analyzeToi at h
  cases hg : pyGet l 0 with
  | error e' =>
    simp only [hg, bind, Except.bind] at h
    cases h
    unfold pyGet at hg
    split at hg
    · split at hg
      · cases hg
      · cases hg; exact Or.inr (Or.inr rfl)
    · cases hg; exact Or.inr (Or.inr rfl)
  | ok t =>
    simp only [hg, bind, Except.bind] at h
    exact checkForCaseViolation_errors E p _ _ t.val 0 e h

/-- … and with a known `case` option and a name that is not a whole-word exception it returns -/
theorem bfull_case_analysis_total (E : Case.Env) (p : Params) (cp cs : Bool) (v : Str) (idx : Int)
    (hst : ∀ n, p.style ≠ .unknown n) (hx : p.exceptions.contains v = false) :
    ∃ o, checkForCaseViolation E p cp cs v idx = .ok o := by
  cases h : checkForCaseViolation E p cp cs v idx with
  | ok o => exact ⟨o, rfl⟩
  | error e =>
    exfalso
    unfold checkForCaseViolation at h
    split at h
    · cases h
    · simp only [hx, Bool.false_eq_true, if_false] at h
      cases hl : lookupCheck E p.style with
      | error e' =>
        cases hs : p.style <;> simp [hs, lookupCheck] at hl
        rename_i n
        exact hst n hs
      | ok f =>
        simp only [hl, bind, Except.bind] at h
        obtain ⟨o, ho⟩ := dChecker_total E cp cs p v idx f
        rw [ho] at h; cases h

/-- the inputs of the former finding `rules/case_utils.py:extract_suffix / TypeError` on the model: the prefix is
    split off, nothing is left for the suffix, the name is reported with the configured prefix -/
theorem bfull_case_overlap_no_crash :
    checkForCaseViolation (asciiEnv fun _ _ => false)
      { name := "port".toList, style := .lower, prefixes := ["RD".toList], suffixes := ["D".toList], exceptions := [] }
      true true "rd".toList 0 = .ok (some { value := some "RD".toList, index := 0 }) ∧
    checkForCaseViolation (asciiEnv fun _ _ => false)
      { name := "signal".toList, style := .lower, prefixes := ["i_".toList], suffixes := ["_i".toList], exceptions := [] }
      true true "I_I".toList 0 = .ok (some { value := some "i_i".toList, index := 0 }) := by
  decide +kernel

/-- non-vacuity of `bfull_case_analysis_total`, and the ordinary prefix + suffix case is split as before -/
example :
    checkForCaseViolation (asciiEnv fun _ _ => false)
      { name := "signal".toList, style := .upper, prefixes := ["I_".toList], suffixes := ["_O".toList], exceptions := [] }
      true true "I_MySig_O".toList 0 = .ok (some { value := some "I_MYSIG_O".toList, index := 0 }) := by
  decide +kernel

end Vsgm.C19
/-! ### END wp5b -/
