/-
  C19 — every accepted file can be checked and fixed without a crash or a hang.
  What Lean carries here: (1) totality and in-range indexing of the modelled tokenizer (all
  strings), (2) termination of every modelled engine loop (the definitions are structurally
  recursive / folds: accepted by Lean's termination checker), (3) the outcome structure of
  apply_rules / main: a rejected file is reported, sets exit status 1 and does not stop the
  remaining files.  The rules' own code is layer U: decided per explored run.
-/
import VsgModel.Engine.Outcome
import VsgModel.Engine.RuleRun
import VsgModel.Lex.Create
import VsgProofs.Properties.C04
namespace Vsgm.C19
open Vsgm Vsgm.Outcome

/-- a rejected file: located one-line message on stderr, exit contribution 1, loop goes on -/
theorem reject_reports_and_goes_on (f msg : String) :
    applyRules f (.classifyError msg) = .ret true (some s!"Error while processing {f}: {msg}") false := rfl

/-- files after a rejected file are still processed: the results of the loop are the result
    of the rejected file followed by the results of the rest -/
theorem loop_continues_after_reject (f msg : String) (rest : List (String × Event)) :
    mainLoop ((f, .classifyError msg) :: rest) =
      (mainLoop rest).map (.ret true (some s!"Error while processing {f}: {msg}") false :: ·) := rfl

/-- the exit status is non-zero as soon as one file was rejected, failed to configure or has an
    error-severity violation -/
theorem exit_nonzero_of_reject (rs : List Result) (msg : Option String) (stop : Bool)
    (h : Result.ret true msg stop ∈ rs) : exitStatus rs = true := by
  unfold exitStatus
  rw [List.any_eq_true]
  exact ⟨_, h, rfl⟩

/-- a run ends in a traceback only if some file's processing raised something other than
    ClassifyError / ConfigurationError / the local-rules OSError: `mainLoop = none` needs an
    `otherException` event -/
theorem traceback_only_from_uncaught (l : List (String × Event)) (h : mainLoop l = none) :
    ∃ f n, (f, Event.otherException n) ∈ l := by
  induction l with
  | nil => simp [mainLoop] at h
  | cons p rest ih =>
    obtain ⟨f, e⟩ := p
    cases e with
    | otherException n => exact ⟨f, n, List.mem_cons_self ..⟩
    | classifyError m =>
      simp only [mainLoop, applyRules, Bool.false_eq_true, if_false, Option.map_eq_none_iff] at h
      obtain ⟨f', n, hm⟩ := ih h
      exact ⟨f', n, List.mem_cons_of_mem _ hm⟩
    | checked v =>
      simp only [mainLoop, applyRules, Bool.false_eq_true, if_false, Option.map_eq_none_iff] at h
      obtain ⟨f', n, hm⟩ := ih h
      exact ⟨f', n, List.mem_cons_of_mem _ hm⟩
    | localRulesOSError => simp [mainLoop, applyRules] at h
    | configurationError m => simp [mainLoop, applyRules] at h

/-- the tokenizer model is a total function that only regroups characters and never yields an
    empty token (all Unicode strings): `tokens.create` itself cannot be the source of a crash on
    the index look-ups it performs -/
theorem tokenizer_total (s : Str) : (Lex.create Lex.pyTables s).flatten = s ∧ ∀ t ∈ Lex.create Lex.pyTables s, t ≠ [] :=
  ⟨C04.create_flatten_py s, C04.create_no_empty_py s⟩

/-- the engine never invokes a rule outside the schedule: a fix run is a fold over a finite
    list, hence terminates whenever every rule's `analyze` / `_fix_violation` does -/
theorem fixRun_is_finite_fold (rs : List Rule) (fixPhase : Nat) (skip : List Nat) (fo : Option FixOnly)
    (post : List Tok → List Tok) (f : List Tok) :
    fixRun rs fixPhase skip fo post f = (schedule rs fixPhase skip).foldl (stepOpt fo post) (f, false) := rfl

example : mainLoop [("a.vhd", .classifyError "x"), ("b.vhd", .checked false)] =
    some [.ret true (some "Error while processing a.vhd: x") false, .ret false none false] := by decide

end Vsgm.C19

-- >>> WP1 layer P: error shape of the translated classifier productions
namespace Vsgm.C19
open Vsgm.Prog

/-- **productions, error shape**: a call of the interpreter returns a value or one of the enumerated outcomes:
    the four Python exceptions of `PyErr`, AttributeError, ValueError, RecursionError, or the interpreter's own
    `outOfFuel` / `unmodelled` (which are not Python outcomes and are reported as such by `./check PROG`) -/
theorem prog_result_enumerated (S : Sys) (n f : Nat) (args : List Val) (st : State) :
    (∃ v, ((run S n).call f args st).1 = .ok v)
    ∨ ((run S n).call f args st).1 = .error (.py .indexError)
    ∨ ((run S n).call f args st).1 = .error (.py .typeError)
    ∨ ((run S n).call f args st).1 = .error (.py .unboundLocal)
    ∨ ((run S n).call f args st).1 = .error (.py .classifyError)
    ∨ ((run S n).call f args st).1 = .error .attributeError
    ∨ ((run S n).call f args st).1 = .error .valueError
    ∨ ((run S n).call f args st).1 = .error .recursionError
    ∨ ((run S n).call f args st).1 = .error .outOfFuel
    ∨ ((run S n).call f args st).1 = .error .unmodelled := by
  cases h : ((run S n).call f args st).1 with
  | ok v => exact Or.inl ⟨v, rfl⟩
  | error e =>
    right
    cases e with
    | py p => cases p <;> simp
    | attributeError => simp
    | valueError => simp
    | recursionError => simp
    | outOfFuel => simp
    | unmodelled => simp

/-- the only functions of the GENERATED table that contain a `raise` statement are `utils.print_error_message`
    and `utils.print_missing_error_message` (stated by name): every ClassifyError of the
    productions is built there; IndexError / TypeError / UnboundLocalError come out of the leaf operations
    (`lObjects[i]`, `None + 1`, unassigned locals) and are found by the search (known findings of C19) -/
theorem progTable_raise_sites :
    failingNames Chk.noRaise Gen.Prog.progTable = ["utils.print_error_message", "utils.print_missing_error_message"] := by
  decide +kernel

/-- a run that ends in IndexError stops there: the state is returned as it was when the exception was raised
    (no token inserted or deleted), cf. `C04.prog_call_length` -/
example : (((run C04.demoSys 6).call 0 [.toks, .int 5, .cls 9] (initState C04.demoSys C04.demoToks)).2.toks.size) = 2 := by
  decide +kernel

end Vsgm.C19
-- <<< WP1 layer P
