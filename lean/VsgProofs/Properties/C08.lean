/-
  C08 — what VSG writes is what it would read.
  Full statement:  for all accepted inputs x and configurations c,
      parse (emit (fix_c x)) succeeds and equals model (fix_c x)     (tokens, classes, indents),
      and  report_after_fix (x, c) = report (check_c (emit (fix_c x))).
  What is proved here (`_partial` = the guard is explicit, nothing is assumed silently):
    * layer T, lexical round trip — `emit_retokenise_partial`: a line whose values satisfy the
      decidable guard `WellFormedLine` (no quote / backslash character; single whitespace values
      alternating with whitespace-free segments; each segment, alone, re-tokenises to itself)
      is given back by the tokenizer model, for every table satisfying `TablesOk` and in
      particular for the tables of the running system (`pyTables_ok`).  The content is
      `create_ws_compositional`: `tokens.create` never looks across a whitespace token, hence
      `whitespace_resize_retokenises`: edits that only resize whitespace tokens (what phases 2–5
      mostly do) cannot break the round trip.  Lines with quotes are decided per explored line by
      the driver (mode `retok`), which also evaluates the guard on every emitted line.
    * the report — `report_after_fix_eq`: the two reports are the same function of the model, so
      they agree as soon as the fresh parse equals the in-memory model (a reduction: the
      hypothesis is what the harness compares token by token, class / value / indent).
  Class agreement of the fresh parse is layer U (the classifier is not modelled): per explored run.
  ONLY property theorems and their non-vacuity examples live here.
-/
import VsgModel.Lex.Create
import VsgModel.Lex.Tables
import VsgModel.Lex.Retok
import VsgModel.Engine.ReparseReport
import VsgProofs.Lemmas.Retok
import VsgProofs.Lemmas.BaseMultiDispatch
import VsgModel.Indent.SetIndent
import VsgProofs.Lemmas.SetIndent
namespace Vsgm.C08
open Vsgm Vsgm.Lex Vsgm.Lex.Rt Vsgm.Reparse

/-- the tables of the running system satisfy the conditions of the theorems below -/
theorem pyTables_ok : TablesOk pyTables where
  threeLen := by decide
  twoLen := by decide
  threeNoSpace := by decide
  twoNoSpace := by decide
  spaceNotE := by
    intro c hc
    show decide (c.toNat ∈ Gen.lowerECodes) = false
    rw [decide_eq_false_iff_not]
    intro hm
    simp only [Gen.lowerECodes, List.mem_cons, List.not_mem_nil, or_false] at hm
    have : inRanges Gen.spaceRanges c.toNat = true := hc
    rcases hm with h | h <;> rw [h] at this <;> revert this <;> decide
  emptyNotSingle := by decide

/-- **whitespace compositionality** of `tokens.create`: for a whitespace-free, quote-free
    segment `a`, a whitespace run `w` and a quote-free rest starting with a non-whitespace
    character, the tokens of `a · w · rest` are the tokens of `a`, then `w`, then the tokens of
    the rest.  (Quotes are excluded because string literals, extended identifiers and character
    literals are paired globally over the line.) -/
theorem create_ws_compositional (T : LexTables) (hT : TablesOk T) (a w : Str) (c : Char) (b : Str)
    (ha : spaceFree T a = true) (hqa : quoteFree a = true)
    (hw : strIsSpace T w = true) (hqw : quoteFree w = true)
    (hc : T.isSpace c = false) (hqb : quoteFree (c :: b) = true) :
    create T (a ++ w ++ c :: b) = create T a ++ w :: create T (c :: b) :=
  create_seg_ws_rest T hT a w c b ha hqa hw hqw hc hqb

/-- … and at the end of a line -/
theorem create_ws_trailing (T : LexTables) (hT : TablesOk T) (a w : Str)
    (ha : spaceFree T a = true) (hqa : quoteFree a = true)
    (hw : strIsSpace T w = true) (hqw : quoteFree w = true) :
    create T (a ++ w) = create T a ++ [w] :=
  create_seg_ws T hT a w ha hqa hw hqw

/-- **lexical round trip** (partial: the guard `WellFormedLine` is the excluded-case boundary):
    the text of a well-formed line tokenises back into exactly its values -/
theorem emit_retokenise_partial (T : LexTables) (hT : TablesOk T) (vals : List Str)
    (h : WellFormedLine T vals = true) : create T vals.flatten = vals :=
  wellFormedLine_sound T hT vals h

/-- the same for the running system's tables -/
theorem emit_retokenise_partial_py (vals : List Str) (h : WellFormedLine pyTables vals = true) :
    create pyTables vals.flatten = vals :=
  emit_retokenise_partial pyTables pyTables_ok vals h

/-- a whole emitted file: if every line of the model is well formed, tokenising every written
    line gives the model's values back, line by line -/
theorem emit_lines_retokenise_partial (T : LexTables) (hT : TablesOk T) (lines : List (List Str))
    (h : ∀ l ∈ lines, WellFormedLine T l = true) :
    lines.map (fun l => create T l.flatten) = lines := by
  induction lines with
  | nil => rfl
  | cons l ls ih =>
    rw [List.map_cons, emit_retokenise_partial T hT l (h l (List.mem_cons_self ..)),
      ih (fun l' hl' => h l' (List.mem_cons_of_mem _ hl'))]

/-- **whitespace edits keep the round trip**: resizing whitespace tokens of a well-formed line
    (each stays non-empty) gives a well-formed line, which therefore still re-tokenises to itself -/
theorem whitespace_resize_retokenises (T : LexTables) (hT : TablesOk T) (vals vals' : List Str)
    (hR : SameUpToWhitespace T vals vals') (h : WellFormedLine T vals = true) :
    WellFormedLine T vals' = true ∧ create T vals'.flatten = vals' := by
  have hwf : WellFormedLine T vals' = true := by
    cases hR with
    | nil => rfl
    | @same a l l' hl =>
      have hemp := sameUpToWhitespace_isEmpty T hl
      simp only [WellFormedLine] at h ⊢
      split at h
      · rename_i hs
        simp only [Bool.and_eq_true, Bool.or_eq_true] at h
        simp only [hs, if_true, Bool.and_eq_true, Bool.or_eq_true]
        refine ⟨h.1, ?_⟩
        rcases h.2 with he | hr
        · left; rw [← hemp]; exact he
        · right; exact wfGo_resize T _ _ hl [] hr
      · rename_i hs
        simp only [hs]
        exact wfGo_resize T _ _ (.same a hl) [] h
    | @ws a b l l' ha hb hqb hl =>
      have hemp := sameUpToWhitespace_isEmpty T hl
      simp only [WellFormedLine, ha, hb, if_true, Bool.and_eq_true, Bool.or_eq_true] at h ⊢
      refine ⟨hqb, ?_⟩
      rcases h.2 with he | hr
      · left; rw [← hemp]; exact he
      · right; exact wfGo_resize T _ _ hl [] hr
  exact ⟨hwf, emit_retokenise_partial T hT vals' hwf⟩

/-- **the report printed after --fix is the report of a fresh check**, provided the fresh parse
    of the written text equals the in-memory model the fix run ended with (everything the
    analyses read — classes, values, indents, hierarchy, code tags — is part of `α`).  A
    reduction: both reports are `check_rules` applied to the respective model. -/
theorem report_after_fix_eq {α : Type} (rs : List (CheckRule α)) (allPhases : Bool) (skip : List Nat)
    (reparse : α → α) (fixed : α) (h : reparse fixed = fixed) :
    reportAfterFix rs allPhases skip fixed = reportFresh rs allPhases skip reparse fixed := by
  unfold reportAfterFix reportFresh
  rw [h]

/-! ### non-vacuity, and lines that do NOT re-tokenise -/

private def s (x : String) : Str := x.toList

/-- a typical emitted line is well formed … -/
example : WellFormedLine pyTables [s "  ", s "a", s " ", s "<=", s " ", s "b", s ";"] = true := by
  decide +kernel

/-- … and so is the same line after an alignment rule widened a blank -/
example : SameUpToWhitespace pyTables [s "  ", s "a", s " ", s "<=", s " ", s "b", s ";"]
    [s "  ", s "a", s "      ", s "<=", s " ", s "b", s ";"] := by
  refine .same _ (.same _ (.ws _ _ ?_ ?_ ?_ (.same _ (.same _ (.same _ (.same _ .nil)))))) <;> decide +kernel

/-- two words without a blank between them merge -/
example : WellFormedLine pyTables [s "a", s "b"] = false ∧
    create pyTables [s "a", s "b"].flatten = [s "ab"] := by decide +kernel

/-- symbol characters combine across the token boundary -/
example : WellFormedLine pyTables [s "<", s "="] = false ∧
    create pyTables [s "<", s "="].flatten = [s "<="] := by decide +kernel

/-- two adjacent whitespace tokens (what line-joining fixes leave behind) merge -/
example : WellFormedLine pyTables [s "a", s " ", s "  ", s "b"] = false ∧
    create pyTables [s "a", s " ", s "  ", s "b"].flatten = [s "a", s "   ", s "b"] := by decide +kernel

/-- a minus sign moved next to another one starts a comment -/
example : create pyTables [s "x", s "-", s "-", s "1"].flatten = [s "x", s "--", s "1"] := by decide +kernel

/-- an empty whitespace token (number_of_spaces = 0 applied by shrinking instead of deleting) -/
example : WellFormedLine pyTables [s "a", [], s "<=", s "b"] = false ∧
    create pyTables [s "a", [], s "<=", s "b"].flatten = [s "a", s "<=", s "b"] := by decide +kernel

/-- the guard is sufficient, not necessary: a line with a character literal is outside it and
    still re-tokenises -/
example : WellFormedLine pyTables [s "c", s " ", s ":=", s " ", s "'1'", s ";"] = false ∧
    create pyTables [s "c", s " ", s ":=", s " ", s "'1'", s ";"].flatten =
      [s "c", s " ", s ":=", s " ", s "'1'", s ";"] := by decide +kernel

/-- the hypothesis of `report_after_fix_eq` is not decorative: a model with a stray token the
    fresh parse does not have gives another report -/
example :
    let r : CheckRule (List Nat) := { cfg := ⟨"r", 1, 0, false, true, true, false⟩, analyze := fun f => f.map (fun n => ⟨n, 0, [], 0⟩) }
    reportAfterFix [r] true [] [1, 2] ≠ reportFresh [r] true [] (fun f => f.take 1) [1, 2] := by decide

/-! ### BEGIN ag_bmulti (causes of the "stray blank_line token" / "line break without blank_line" findings) -/

open Base.Multi Base.LineStruct in
/-- **cause of the C08 findings at multiline_subprogram_specification_structure /
    multiline_constraint_structure / multiline_procedure_call_structure** (`vsg/rules/fix.py`):
    `remove_new_line` removes EVERY carriage return of its region, `blank_line` tokens are not looked at
    (and the result of the final `utils.fix_blank_lines(lNewTokens)` is thrown away).  So no token of the
    returned list is a carriage return: a `blank_line` token that survives stands inside a code line -/
theorem bfix_fixpy_remove_noCr (o : MOwner) (ho : o.usesFixPy = true) (params action : Base.KV) (old new : List Tok)
    (h : Base.fixByOwner o.name params action old = some (.ok new))
    (ha : ∃ act, dget action "action" = .ok act ∧ nlKind act = .remove) : ∀ t ∈ new, isCr t = false := by
  have hm := run_fixM o params action old new (mowner_all _) h
  have hm' : fixNL Base.multiEnv.c action old = .ok new := by
    cases o <;> simp [MOwner.usesFixPy] at ho <;> exact hm
  obtain ⟨act, ha1, hk⟩ := ha
  obtain ⟨act', ha', hkk⟩ := fixNL_cases _ action old new hm'
  rw [ha1] at ha'; cases ha'
  simp only [hk] at hkk
  exact removeNewLine_noCr old new hkk

open Base.Multi in
/-- the finding's own region (`: text ⏎ <blank line> ⏎ ␣ ;` of procedure_013): the `blank_line` token
    is still there, its two line breaks are gone -/
theorem fixpy_stray_blank_line :
    let old : List Tok := [⟨9, .code, "text".toList⟩, ⟨Gen.crCls, .cr, ['\n']⟩, ⟨Gen.blankCls, .blank, []⟩,
      ⟨Gen.crCls, .cr, ['\n']⟩, ⟨Gen.wsCls, .ws, "    ".toList⟩, ⟨9, .code, [';']⟩]
    Base.fixByOwner (MOwner.name .subprogram) [] [("action", .str "remove_new_line".toList)] old =
      some (.ok [⟨9, .code, "text".toList⟩, ⟨Gen.blankCls, .blank, []⟩, ⟨Gen.wsCls, .ws, [' ']⟩, ⟨9, .code, [';']⟩]) := by
  decide +kernel

open Base.Multi Base.LineStruct in
/-- **cause at multiline_structure**: `_fix_assign_on_single_line` removes every carriage return and every
    comment of its region and keeps every `blank_line` token -/
theorem bfix_multiStruct_join_blank (old : List Tok) :
    (∀ t ∈ joinAssign old, isCr t = false) ∧ (joinAssign old).filter isBlank = old.filter isBlank :=
  joinAssign_blank old

open Base.Multi Base.LineStruct in
/-- **cause at process_021** (style require_blank_line): on a region of at least three tokens the new
    `blank_line` token and its line break are inserted at `len - 3` (whitespace in front of `begin`) resp.
    `len - 2`, i.e. IN FRONT of the line break that ends the previous line — `X ⏎ begin` becomes
    `X blank_line ⏎ ⏎ begin`: the `blank_line` token is not preceded by a carriage return and the second
    line break has no `blank_line` token -/
theorem bfix_process021_blank_position (params action : Base.KV) (old new : List Tok)
    (h : Base.fixByOwner (MOwner.name .process021) params action old = some (.ok new))
    (hs : pget params "style" = .ok (.str "require_blank_line".toList)) (hlen : 3 ≤ old.length) :
    ∃ t, Base.pyGet old (-2) = .ok t ∧
      new = old.take (old.length - (if isWs t then 3 else 2)) ++ [mkBlank Base.lineCls, mkCr Base.lineCls] ++
        old.drop (old.length - (if isWs t then 3 else 2)) := by
  have hm := run_fixM .process021 params action old new (mowner_all _) h
  obtain ⟨st, hst, hc⟩ := fixProcess021_cases _ params old new hm
  rw [hs] at hst; cases hst
  rcases hc with ⟨h0, _⟩ | ⟨_, _, h1⟩ | ⟨_, h0, _⟩
  · exact absurd h0 (by decide)
  · exact insertBlankBeforeLast_eq _ old new h1 hlen
  · exact absurd h0 (by decide)

open Base.Multi in
/-- the finding's own region: `process ⏎ ␣␣begin` -/
theorem process021_stray_blank_line :
    Base.fixByOwner (MOwner.name .process021) [("style", .str "require_blank_line".toList)] []
      [⟨9, .code, "process".toList⟩, ⟨Gen.crCls, .cr, ['\n']⟩, ⟨Gen.wsCls, .ws, "  ".toList⟩, ⟨9, .code, "begin".toList⟩] =
    some (.ok [⟨9, .code, "process".toList⟩, ⟨Gen.blankCls, .blank, []⟩, ⟨Gen.crCls, .cr, ['\n']⟩, ⟨Gen.crCls, .cr, ['\n']⟩,
      ⟨Gen.wsCls, .ws, "  ".toList⟩, ⟨9, .code, "begin".toList⟩]) := by
  decide +kernel

open Base.Multi Base.LineStruct in
/-- **cause at process_026 / process_027**, action "Insert" with an index inside the region: the pair
    `blank_line, ⏎` is inserted at the index the analysis computed, directly behind `old[index - 1]` — a
    stray `blank_line` token whenever that token is not a carriage return (process_027 assumes that
    `begin` starts its line; process_026 that the token after the declarative part's first line break
    starts a line) -/
theorem bfix_process026_027_insert_position (o : MOwner) (ho : o = .process026 ∨ o = .process027)
    (params action : Base.KV) (old new : List Tok)
    (h : Base.fixByOwner o.name params action old = some (.ok new))
    (ha : dget action "action" = .ok (.str "Insert".toList)) :
    ∃ i, dgetInt action "index" = .ok i ∧ (0 ≤ i → i ≤ old.length →
      new = old.take (insPos old.length i) ++ [mkBlank Base.lineCls, mkCr Base.lineCls] ++ old.drop (insPos old.length i)) := by
  have hm := run_fixM o params action old new (mowner_all _) h
  have hins : insertBlankAt Base.multiEnv.c action old = .ok new := by
    rcases ho with rfl | rfl
    · obtain ⟨a, ha', hc⟩ := fixProcess026_cases _ action old new hm
      rw [ha] at ha'; cases ha'
      rcases hc with ⟨_, h1⟩ | ⟨h0, _⟩
      · exact h1
      · exact absurd h0 (by decide)
    · obtain ⟨a, ha', hc⟩ := fixProcess027_cases _ action old new hm
      rw [ha] at ha'; cases ha'
      rcases hc with ⟨_, h1⟩ | ⟨h0, _, _⟩ | ⟨h0, _, _⟩
      · exact h1
      · exact absurd h0 (by decide)
      · exact absurd h0 (by decide)
  exact (insertBlankAt_eq _ action old new hins).2

open Base.Multi in
/-- the removing branch with the action the analysis of process_026 builds for `process ⏎ <blank line> ⏎ …`
    (`start` = 1, `end` = 2): the line break IN FRONT of the `blank_line` token is cut, the token stays;
    and "Insert" of process_027 on `… ; ␣ begin` (index = len - 2): the pair lands behind the semicolon -/
theorem process026_027_stray_blank_line :
    Base.fixByOwner (MOwner.name .process026) [] [("action", .str "Remove".toList), ("start", .int 1), ("end", .int 2)]
      [⟨9, .code, "process".toList⟩, ⟨Gen.crCls, .cr, ['\n']⟩, ⟨Gen.blankCls, .blank, []⟩, ⟨Gen.crCls, .cr, ['\n']⟩,
        ⟨9, .code, "constant".toList⟩] =
      some (.ok [⟨9, .code, "process".toList⟩, ⟨Gen.blankCls, .blank, []⟩, ⟨Gen.crCls, .cr, ['\n']⟩, ⟨9, .code, "constant".toList⟩]) ∧
    Base.fixByOwner (MOwner.name .process027) [] [("action", .str "Insert".toList), ("index", .int 1)]
      [⟨9, .code, [';']⟩, ⟨Gen.wsCls, .ws, [' ']⟩, ⟨9, .code, "begin".toList⟩] =
      some (.ok [⟨9, .code, [';']⟩, ⟨Gen.blankCls, .blank, []⟩, ⟨Gen.crCls, .cr, ['\n']⟩, ⟨Gen.wsCls, .ws, [' ']⟩,
        ⟨9, .code, "begin".toList⟩]) := by
  constructor <;> decide +kernel

open Base.Multi Base.LineStruct in
/-- **cause at when_001** ("carriage return where the re-parse has a blank_line"): the moved token leaves
    its line behind — `m ++ [x]` becomes `[␣, x] ++ m`, so when `x` stood alone on its line (`m` ends with
    the line break in front of it) the region now ENDS with that line break, and the line break that
    followed `x` comes directly after it with no `blank_line` token between them -/
theorem bfix_when001_leaves_empty_line (params action : Base.KV) (old new : List Tok)
    (h : Base.fixByOwner (MOwner.name .when001) params action old = some (.ok new)) :
    ∃ m x tail, old = m ++ [x] ++ tail ∧ m ≠ [] ∧ new = mkWs Base.lineCls :: x :: m ∧ new.getLast? = m.getLast? := by
  have hm := run_fixM .when001 params action old new (mowner_all _) h
  obtain ⟨m, x, tail, hl, _, hne, hn⟩ := fixWhen001_eq _ old new hm
  refine ⟨m, x, tail, hl, hne, hn, ?_⟩
  rw [hn]
  cases m with
  | nil => exact absurd rfl hne
  | cons y r => simp [List.getLast?_cons_cons]

/-! ### END ag_bmulti -/

/-! ### BEGIN ag_setindent (`set_token_indent`: in-memory indents against a fresh parse) -/

section SetIndent
open Vsgm.Indent

/-- **idempotence**: the function reads class, lower-case value and block-comment mark of the tokens and
    never an `indent`, so a second call writes the same values (and again nothing on the tokens it never
    writes) -/
theorem setIndent_idem (E : Env) (m : IndentMap) (l r : List ITok) (h : setTokenIndent E m l = .ok r) :
    setTokenIndent E m r = .ok r :=
  setTokenIndent_idem' E m l r h

/-- **the in-memory indents are the function of the final list**: `r` = the list the last
    `set_token_indent` call of a fix run left, `mem` = the list at the end of the run, where the steps in
    between are layout-only or case-only and write no attribute the function reads or writes
    (`strip mem = strip r`: outside whitespace / carriage returns the tokens agree in class, lower-case
    value, block-comment mark and indent).  Then one more call on `mem` changes no indent. -/
theorem indent_memory_fixpoint (E : Env) (m : IndentMap) (L : LayoutOk E) (H : SkipOk E (processIndentMap m))
    (l₀ r mem mem' : List ITok) (h₀ : setTokenIndent E m l₀ = .ok r) (hm : strip E mem = strip E r)
    (hf : setTokenIndent E m mem = .ok mem') : strip E mem' = strip E mem :=
  setTokenIndent_memory_fix E m L H l₀ r mem mem' h₀ hm hf

/-- **a fresh parse assigns the same indents** (`fresh` = new token objects of the same classes: no indent,
    no block-comment mark), provided that at the last refresh
      (`hb`) no comment carried a block-comment mark (`is_block_comment`, written by the block_comment
             rules and lost on a re-parse), and
      (`hn`) the tokens the function never writes (`neverSet`: blank lines and, for the default map,
             `architecture_body.semicolon`, `concurrent_simple_signal_assignment.semicolon`,
             `concurrent_conditional_signal_assignment.semicolon` — the function never resets an indent)
             carried no indent.
    These are exactly the two excluded cases (`indent_agree_false_blockComment`,
    `indent_agree_false_staleIndent`). -/
theorem indent_agree_partial (E : Env) (m : IndentMap) (L : LayoutOk E) (H : SkipOk E (processIndentMap m))
    (l₀ r mem mem' : List ITok) (h₀ : setTokenIndent E m l₀ = .ok r) (hm : strip E mem = strip E r)
    (hb : ∀ t ∈ l₀, t.key.block = .no)
    (hn : ∀ t ∈ l₀, neverSet E (processIndentMap m) t.key = true → E.isLayout t.key = false → t.indent = none)
    (hf : setTokenIndent E m (fresh mem) = .ok mem') : strip E mem' = strip E mem :=
  setTokenIndent_agree E m L H l₀ r mem mem' h₀ hm hb hn hf

/-- … with the tables of the pinned tree and any indent map a user `indent:` section can produce -/
theorem indent_agree_partial_userConfig (user : Option IndentMap) (m : IndentMap)
    (hc : readIndentConfiguration Gen.indentConfig user = .ok m)
    (l₀ r mem mem' : List ITok) (h₀ : setTokenIndent genEnv m l₀ = .ok r) (hm : strip genEnv mem = strip genEnv r)
    (hb : ∀ t ∈ l₀, t.key.block = .no)
    (hn : ∀ t ∈ l₀, neverSet genEnv (processIndentMap m) t.key = true → genEnv.isLayout t.key = false →
      t.indent = none)
    (hf : setTokenIndent genEnv m (fresh mem) = .ok mem') : strip genEnv mem' = strip genEnv mem :=
  setTokenIndent_agree genEnv m genEnv_layoutOk (SkipOk.of_merge genEnv _ user m genEnv_skipOk hc)
    l₀ r mem mem' h₀ hm hb hn hf

/-- the classes the function never writes under the default map, outside whitespace / carriage returns:
    `parser.blank_line`, `architecture_body.semicolon`, `concurrent_conditional_signal_assignment.semicolon`,
    `concurrent_simple_signal_assignment.semicolon` (rows of the generated class table) -/
theorem neverSet_default_classes (k : Key)
    (h : neverSet genEnv (processIndentMap Gen.indentConfig) k = true) (hl : genEnv.isLayout k = false) :
    k.cls ∈ [Gen.indentCls.blankLine, Gen.indentCls.archSemi, Gen.indentCls.ccsaSemi, Gen.indentCls.cssaSemi] :=
  rowNever_mem _ _ neverSet_default_rows k h hl

/-- … for the pinned tree with the default indent map: `hn` only concerns four classes -/
theorem indent_agree_partial_py (l₀ r mem mem' : List ITok)
    (h₀ : setTokenIndent genEnv Gen.indentConfig l₀ = .ok r) (hm : strip genEnv mem = strip genEnv r)
    (hb : ∀ t ∈ l₀, t.key.block = .no)
    (hn : ∀ t ∈ l₀, t.key.cls ∈ [Gen.indentCls.blankLine, Gen.indentCls.archSemi, Gen.indentCls.ccsaSemi,
      Gen.indentCls.cssaSemi] → t.indent = none)
    (hf : setTokenIndent genEnv Gen.indentConfig (fresh mem) = .ok mem') :
    strip genEnv mem' = strip genEnv mem :=
  setTokenIndent_agree genEnv Gen.indentConfig genEnv_layoutOk genEnv_skipOk l₀ r mem mem' h₀ hm hb
    (fun t ht hns hl => hn t ht (neverSet_default_classes t.key hns hl)) hf

/-- **without `hb` false**: a comment marked as block comment between `architecture` and the next
    `architecture` keeps the running indent 1 in memory, a fresh parse gives it the indent of the next token, 0 -/
theorem indent_agree_false_blockComment :
    let N := Gen.indentCls
    let l₀ : List ITok := [{ key := { cls := N.archKw, lower := [] }, indent := none },
                           { key := { cls := N.comment, lower := [], block := .yes }, indent := none },
                           { key := { cls := N.archKw, lower := [] }, indent := none }]
    ((setTokenIndent genEnv Gen.indentConfig l₀).toOption.map (·.map (·.indent)) = some [some 0, some 1, some 0]) ∧
    ((setTokenIndent genEnv Gen.indentConfig (fresh l₀)).toOption.map (·.map (·.indent)) = some [some 0, some 0, some 0]) := by
  decide +kernel

/-- **without `hn` false**: the function never resets an indent — an `architecture_body.semicolon` that
    carries indent 5 keeps it, the freshly parsed one has none -/
theorem indent_agree_false_staleIndent :
    let N := Gen.indentCls
    let l₀ : List ITok := [{ key := { cls := N.archSemi, lower := [] }, indent := some 5 }]
    ((setTokenIndent genEnv Gen.indentConfig l₀).toOption.map (·.map (·.indent)) = some [some 5]) ∧
    ((setTokenIndent genEnv Gen.indentConfig (fresh l₀)).toOption.map (·.map (·.indent)) = some [none]) := by
  decide +kernel

/-- non-vacuity of `indent_agree_partial_py`: `architecture` ⟨comment⟩ `;` refreshed, then a whitespace token
    inserted in front of the comment -/
example :
    let N := Gen.indentCls
    let tk : Nat → Option Int → ITok := fun c i => { key := { cls := c, lower := [] }, indent := i }
    let l₀ := [tk N.archKw none, tk N.comment (some 7), tk N.archSemi none]
    let r := [tk N.archKw (some 0), tk N.comment (some 1), tk N.archSemi none]
    let mem := [tk N.archKw (some 0), tk N.whitespace none, tk N.comment (some 1), tk N.archSemi none]
    (setTokenIndent genEnv Gen.indentConfig l₀).toOption = some r ∧ strip genEnv mem = strip genEnv r ∧
    (∀ t ∈ l₀, t.key.block = .no) ∧
    (∀ t ∈ l₀, t.key.cls ∈ [Gen.indentCls.blankLine, Gen.indentCls.archSemi, Gen.indentCls.ccsaSemi,
      Gen.indentCls.cssaSemi] → t.indent = none) ∧
    (setTokenIndent genEnv Gen.indentConfig (fresh mem)).toOption = some mem := by
  decide +kernel

end SetIndent

/-! ### END ag_setindent -/

end Vsgm.C08
