/-
  C08 — what VSG writes is what it would read.
  Full statement:  for all accepted inputs x and configurations c,
      parse (emit (fix_c x)) succeeds and equals model (fix_c x)     (tokens, classes, indents),
      and  report_after_fix (x, c) = report (check_c (emit (fix_c x))).
  What is proved here (`_partial` = the guard is explicit, nothing is assumed silently):
    * layer T, lexical round trip — `emit_retokenise_partial`: a line whose values satisfy the
      decidable guard `WellFormedLine` (no quote / backslash character; single whitespace values
      alternating with whitespace-free segments; each segment, alone, re-tokenises to itself)
      is given back by the tokenizer model, for every table satisfying `TablesOk` and in
      particular for the tables of the running system (`pyTables_ok`).  The content is
      `create_ws_compositional`: `tokens.create` never looks across a whitespace token, hence
      `whitespace_resize_retokenises`: edits that only resize whitespace tokens (what phases 2–5
      mostly do) cannot break the round trip.  Lines with quotes are decided per explored line by
      the driver (mode `retok`), which also evaluates the guard on every emitted line.
    * the report — `report_after_fix_eq`: the two reports are the same function of the model, so
      they agree as soon as the fresh parse equals the in-memory model (a reduction: the
      hypothesis is what the harness compares token by token, class / value / indent).
  Class agreement of the fresh parse is layer U (the classifier is not modelled): per explored run.
  ONLY property theorems and their non-vacuity examples live here.
-/
import VsgModel.Lex.Create
import VsgModel.Lex.Tables
import VsgModel.Lex.Retok
import VsgModel.Engine.ReparseReport
import VsgProofs.Lemmas.Retok
namespace Vsgm.C08
open Vsgm Vsgm.Lex Vsgm.Lex.Rt Vsgm.Reparse

/-- the tables of the running system satisfy the conditions of the theorems below -/
theorem pyTables_ok : TablesOk pyTables where
  threeLen := by decide
  twoLen := by decide
  threeNoSpace := by decide
  twoNoSpace := by decide
  spaceNotE := by
    intro c hc
    show decide (c.toNat ∈ Gen.lowerECodes) = false
    rw [decide_eq_false_iff_not]
    intro hm
    simp only [Gen.lowerECodes, List.mem_cons, List.not_mem_nil, or_false] at hm
    have : inRanges Gen.spaceRanges c.toNat = true := hc
    rcases hm with h | h <;> rw [h] at this <;> revert this <;> decide
  emptyNotSingle := by decide

/-- **whitespace compositionality** of `tokens.create`: for a whitespace-free, quote-free
    segment `a`, a whitespace run `w` and a quote-free rest starting with a non-whitespace
    character, the tokens of `a · w · rest` are the tokens of `a`, then `w`, then the tokens of
    the rest.  (Quotes are excluded because string literals, extended identifiers and character
    literals are paired globally over the line.) -/
theorem create_ws_compositional (T : LexTables) (hT : TablesOk T) (a w : Str) (c : Char) (b : Str)
    (ha : spaceFree T a = true) (hqa : quoteFree a = true)
    (hw : strIsSpace T w = true) (hqw : quoteFree w = true)
    (hc : T.isSpace c = false) (hqb : quoteFree (c :: b) = true) :
    create T (a ++ w ++ c :: b) = create T a ++ w :: create T (c :: b) :=
  create_seg_ws_rest T hT a w c b ha hqa hw hqw hc hqb

/-- … and at the end of a line -/
theorem create_ws_trailing (T : LexTables) (hT : TablesOk T) (a w : Str)
    (ha : spaceFree T a = true) (hqa : quoteFree a = true)
    (hw : strIsSpace T w = true) (hqw : quoteFree w = true) :
    create T (a ++ w) = create T a ++ [w] :=
  create_seg_ws T hT a w ha hqa hw hqw

/-- **lexical round trip** (partial: the guard `WellFormedLine` is the excluded-case boundary):
    the text of a well-formed line tokenises back into exactly its values -/
theorem emit_retokenise_partial (T : LexTables) (hT : TablesOk T) (vals : List Str)
    (h : WellFormedLine T vals = true) : create T vals.flatten = vals :=
  wellFormedLine_sound T hT vals h

/-- the same for the running system's tables -/
theorem emit_retokenise_partial_py (vals : List Str) (h : WellFormedLine pyTables vals = true) :
    create pyTables vals.flatten = vals :=
  emit_retokenise_partial pyTables pyTables_ok vals h

/-- a whole emitted file: if every line of the model is well formed, tokenising every written
    line gives the model's values back, line by line -/
theorem emit_lines_retokenise_partial (T : LexTables) (hT : TablesOk T) (lines : List (List Str))
    (h : ∀ l ∈ lines, WellFormedLine T l = true) :
    lines.map (fun l => create T l.flatten) = lines := by
  induction lines with
  | nil => rfl
  | cons l ls ih =>
    rw [List.map_cons, emit_retokenise_partial T hT l (h l (List.mem_cons_self ..)),
      ih (fun l' hl' => h l' (List.mem_cons_of_mem _ hl'))]

/-- **whitespace edits keep the round trip**: resizing whitespace tokens of a well-formed line
    (each stays non-empty) gives a well-formed line, which therefore still re-tokenises to itself -/
theorem whitespace_resize_retokenises (T : LexTables) (hT : TablesOk T) (vals vals' : List Str)
    (hR : SameUpToWhitespace T vals vals') (h : WellFormedLine T vals = true) :
    WellFormedLine T vals' = true ∧ create T vals'.flatten = vals' := by
  have hwf : WellFormedLine T vals' = true := by
    cases hR with
    | nil => rfl
    | @same a l l' hl =>
      have hemp := sameUpToWhitespace_isEmpty T hl
      simp only [WellFormedLine] at h ⊢
      split at h
      · rename_i hs
        simp only [Bool.and_eq_true, Bool.or_eq_true] at h
        simp only [hs, if_true, Bool.and_eq_true, Bool.or_eq_true]
        refine ⟨h.1, ?_⟩
        rcases h.2 with he | hr
        · left; rw [← hemp]; exact he
        · right; exact wfGo_resize T _ _ hl [] hr
      · rename_i hs
        simp only [hs]
        exact wfGo_resize T _ _ (.same a hl) [] h
    | @ws a b l l' ha hb hqb hl =>
      have hemp := sameUpToWhitespace_isEmpty T hl
      simp only [WellFormedLine, ha, hb, if_true, Bool.and_eq_true, Bool.or_eq_true] at h ⊢
      refine ⟨hqb, ?_⟩
      rcases h.2 with he | hr
      · left; rw [← hemp]; exact he
      · right; exact wfGo_resize T _ _ hl [] hr
  exact ⟨hwf, emit_retokenise_partial T hT vals' hwf⟩

/-- **the report printed after --fix is the report of a fresh check**, provided the fresh parse
    of the written text equals the in-memory model the fix run ended with (everything the
    analyses read — classes, values, indents, hierarchy, code tags — is part of `α`).  A
    reduction: both reports are `check_rules` applied to the respective model. -/
theorem report_after_fix_eq {α : Type} (rs : List (CheckRule α)) (allPhases : Bool) (skip : List Nat)
    (reparse : α → α) (fixed : α) (h : reparse fixed = fixed) :
    reportAfterFix rs allPhases skip fixed = reportFresh rs allPhases skip reparse fixed := by
  unfold reportAfterFix reportFresh
  rw [h]

/-! ### non-vacuity, and lines that do NOT re-tokenise -/

private def s (x : String) : Str := x.toList

/-- a typical emitted line is well formed … -/
example : WellFormedLine pyTables [s "  ", s "a", s " ", s "<=", s " ", s "b", s ";"] = true := by
  decide +kernel

/-- … and so is the same line after an alignment rule widened a blank -/
example : SameUpToWhitespace pyTables [s "  ", s "a", s " ", s "<=", s " ", s "b", s ";"]
    [s "  ", s "a", s "      ", s "<=", s " ", s "b", s ";"] := by
  refine .same _ (.same _ (.ws _ _ ?_ ?_ ?_ (.same _ (.same _ (.same _ (.same _ .nil)))))) <;> decide +kernel

/-- two words without a blank between them merge -/
example : WellFormedLine pyTables [s "a", s "b"] = false ∧
    create pyTables [s "a", s "b"].flatten = [s "ab"] := by decide +kernel

/-- symbol characters combine across the token boundary -/
example : WellFormedLine pyTables [s "<", s "="] = false ∧
    create pyTables [s "<", s "="].flatten = [s "<="] := by decide +kernel

/-- two adjacent whitespace tokens (what line-joining fixes leave behind) merge -/
example : WellFormedLine pyTables [s "a", s " ", s "  ", s "b"] = false ∧
    create pyTables [s "a", s " ", s "  ", s "b"].flatten = [s "a", s "   ", s "b"] := by decide +kernel

/-- a minus sign moved next to another one starts a comment -/
example : create pyTables [s "x", s "-", s "-", s "1"].flatten = [s "x", s "--", s "1"] := by decide +kernel

/-- an empty whitespace token (number_of_spaces = 0 applied by shrinking instead of deleting) -/
example : WellFormedLine pyTables [s "a", [], s "<=", s "b"] = false ∧
    create pyTables [s "a", [], s "<=", s "b"].flatten = [s "a", s "<=", s "b"] := by decide +kernel

/-- the guard is sufficient, not necessary: a line with a character literal is outside it and
    still re-tokenises -/
example : WellFormedLine pyTables [s "c", s " ", s ":=", s " ", s "'1'", s ";"] = false ∧
    create pyTables [s "c", s " ", s ":=", s " ", s "'1'", s ";"].flatten =
      [s "c", s " ", s ":=", s " ", s "'1'", s ";"] := by decide +kernel

/-- the hypothesis of `report_after_fix_eq` is not decorative: a model with a stray token the
    fresh parse does not have gives another report -/
example :
    let r : CheckRule (List Nat) := { cfg := ⟨"r", 1, 0, false, true, true, false⟩, analyze := fun f => f.map (fun n => ⟨n, 0, [], 0⟩) }
    reportAfterFix [r] true [] [1, 2] ≠ reportFresh [r] true [] (fun f => f.take 1) [1, 2] := by decide

end Vsgm.C08
