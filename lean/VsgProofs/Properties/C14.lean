/-
  C14 — exit status and every report format tell the same story.
  ONLY property theorems and their non-vacuity examples live here.

  One run = `checkRun ap skip rs f` (apply_rules.py:125-131).  The formats are the functions of
  VsgModel/Engine/Report.lean to record lists (text layout is glue); `allRecs st.rules` is the list
  of all violations held by the rule objects after the run, `Rec.core` = (rule, line, solution).
-/
import VsgModel.Engine.CheckRules
import VsgModel.Engine.Report
import VsgModel.Engine.Stub
import VsgProofs.Lemmas.CheckRules
import VsgProofs.Lemmas.Report
import VsgProofs.Lemmas.EngineReport
namespace Vsgm.C14
open Vsgm Vsgm.Lemmas

/-! ### every format lists the same violations -/

/-- the three independent walks over the rule objects (`report_violations` guarded by
    `has_violations()`, `extract_violation_dictionary` guarded by a test that is always true,
    `extract_junit_testcase` guarded by `len > 0 and type == error`) and the renderings agree:
    vsg and syntastic list the line-sorted permutation of all violations, JSON and the quality
    report list all of them in rule order, JUnit lists those of error-TYPE severities -/
theorem formats_project_same_set (st : CheckState) (sevNames : List String) (ri : RunInfo)
    (h : reportViolations st sevNames = some ri) :
    (vsgOut ri).rows.map (fun x => (⟨x.1, x.2.2.1, x.2.2.2⟩ : Core)) = (sortByLine (allRecs st.rules)).map Rec.core ∧
    (synOut ri).map (fun x => (⟨x.2.1, x.2.2.1, x.2.2.2⟩ : Core)) = (sortByLine (allRecs st.rules)).map Rec.core ∧
    (sortByLine (allRecs st.rules)).Perm (allRecs st.rules) ∧
    (jsonRecs st.rules).map JsonRec.core = (allRecs st.rules).map Rec.core ∧
    (qualityRecs (jsonRecs st.rules)).map (fun q => (q.description, q.line)) =
      (allRecs st.rules).map (fun r => (r.rule ++ " :: " ++ r.sol, r.line)) ∧
    junitLines st.rules = ((allRecs st.rules).filter (·.sevErr)).map Rec.core := by
  obtain ⟨hv, _⟩ := reportViolations_some st sevNames ri h
  refine ⟨?_, ?_, sortByLine_perm _, jsonRecs_core _, ?_, junitLines_eq _⟩
  · simp [vsgOut, hv, reportRecs_eq, Rec.core, Function.comp_def]
  · simp [synOut, hv, reportRecs_eq, Rec.core, Function.comp_def]
  · simp [qualityRecs, jsonRecs, allRecs, List.map_flatMap, CRule.getViolations, Function.comp_def]

/-- the severity shown next to each entry is that of the reporting rule: the name in the vsg table
    and the JSON file, the type in the syntastic status word -/
theorem formats_show_rule_severity (st : CheckState) (sevNames : List String) (ri : RunInfo)
    (h : reportViolations st sevNames = some ri) :
    (vsgOut ri).rows.map (·.2.1) = (sortByLine (allRecs st.rules)).map (·.sevName) ∧
    (synOut ri).map (·.1) = (sortByLine (allRecs st.rules)).map (·.sevErr) ∧
    (jsonRecs st.rules).map (·.severity) = (allRecs st.rules).map (·.sevName) := by
  obtain ⟨hv, _⟩ := reportViolations_some st sevNames ri h
  refine ⟨?_, ?_, jsonRecs_severity _⟩
  · simp [vsgOut, hv, reportRecs_eq, Function.comp_def]
  · simp [synOut, hv, reportRecs_eq, Function.comp_def]

/-- JUnit: exactly the violations of rules whose severity TYPE is error (built-in or user-defined) -/
theorem junit_is_error_filter (rs : List CRule) :
    junitLines rs = ((allRecs rs).filter (·.sevErr)).map Rec.core := junitLines_eq rs

/-! ### printed counts -/

/-- "Total Violations" is the number of table rows and of violations held by the rule objects; the
    per-severity counters add up to it; the counter printed for a name is the number of rows with
    that severity name; the keys are the severity list; "Total Rules Checked" is iNumberRulesRan;
    the summary line prints the same counters and number of rules -/
theorem counts_eq_length (st : CheckState) (sevNames : List String) (ri : RunInfo)
    (h : reportViolations st sevNames = some ri) :
    (vsgOut ri).total = (vsgOut ri).rows.length ∧
    (vsgOut ri).total = (allRecs st.rules).length ∧
    countSum (vsgOut ri).severities = (vsgOut ri).total ∧
    (∀ k c, (vsgOut ri).severities.lookup k = some c → c = ((vsgOut ri).rows.filter (fun x => x.2.1 = k)).length) ∧
    (vsgOut ri).severities.map (·.1) = sevNames.eraseDups ∧
    (vsgOut ri).numRules = st.nran ∧ (vsgOut ri).stopPhase = st.lastPhase ∧
    (∀ s, sumOut ri = some s → s.severities = (vsgOut ri).severities ∧ s.numRules = st.nran) := by
  obtain ⟨hv, hstop, hnum, htot, hsev⟩ := reportViolations_some st sevNames ri h
  obtain ⟨h1, h2, h3⟩ := countSeverities_counts _ _ _ hsev
  refine ⟨?_, ?_, ?_, ?_, h2, hnum, hstop, ?_⟩
  · simp [vsgOut, htot, hv]
  · simp [vsgOut, htot, reportRecs_eq, length_sortByLine]
  · simp only [vsgOut]; rw [h1, htot]
  · intro k c hk
    simp only [vsgOut] at hk ⊢
    rw [h3 k c hk, hv, List.filter_map, List.length_map]
    rfl
  · intro s hs
    simp only [sumOut] at hs
    cases hl : ri.severities.lookup "Error" with
    | none => simp [hl] at hs
    | some n =>
      simp only [hl, Option.map_some, Option.some.injEq] at hs
      subst hs
      exact ⟨rfl, hnum⟩

/-! ### exit status -/

/-- **exit status of one file**: `fExitStatus = oRules.violations` is false exactly when the
    report contains no violation of an error-TYPE severity — with or without `--all_phases`, for
    any skip set, rule set and severity configuration (user-defined severities included) -/
theorem exit_zero_iff (ap : Bool) (skip : List Nat) (rs : List CRule) (f : List Tok) :
    (checkRun ap skip rs f).viol = false ↔
      ∀ rec ∈ reportRecs (checkRun ap skip rs f).rules, rec.sevErr = false := by
  have hviol := checkRules_viol ap skip (clearViolations rs) f 0
  have hfail := checkRules_failures ap skip (clearViolations rs) f 0
  have hrules := checkRules_rules ap skip (clearViolations rs) f 0
  show (checkRules ap skip (clearViolations rs) f 0).viol = false ↔
    ∀ rec ∈ reportRecs (checkRules ap skip (clearViolations rs) f 0).rules, rec.sevErr = false
  rw [hviol, hfail, hrules]
  simp only [decide_eq_false_iff_not, gt_iff_lt, sum_map_pos_iff, mem_reportRecs, mem_allRecs]
  constructor
  · intro hno rec hrec
    obtain ⟨r', hr', v, hv, rfl⟩ := hrec
    obtain ⟨r, hr, rfl⟩ := List.mem_map.mp hr'
    have hcl : r.viols = [] := clear_viols rs r hr
    by_cases hse : r.cfg.sevError = true
    · exfalso
      apply hno
      by_cases hran : ranBy ap skip (clearViolations rs) f r = true
      · obtain ⟨p, hp, hrun⟩ := List.any_eq_true.mp hran
        refine ⟨p, hp, ?_⟩
        unfold errIn
        rw [sum_map_pos_iff]
        obtain ⟨s, hs, hin⟩ := List.any_eq_true.mp hrun
        refine ⟨s, hs, ?_⟩
        rw [sum_map_pos_iff]
        refine ⟨r, List.mem_filter.mpr ⟨hr, hin⟩, ?_⟩
        simp only [anaIf, hran, if_true] at hv
        unfold errOf
        simp only [hse, if_true]
        exact List.length_pos_iff.mpr (List.ne_nil_of_mem hv)
      · have hran' : ranBy ap skip (clearViolations rs) f r = false := by simpa using hran
        simp only [anaIf, hran', Bool.false_eq_true, if_false, hcl] at hv
        simp at hv
    · have : (anaIf f (ranBy ap skip (clearViolations rs) f) r).cfg.sevError = r.cfg.sevError := by
        unfold anaIf; split <;> rfl
      simp only [this]; simpa using hse
  · intro hall hpos
    obtain ⟨p, hp, hpos⟩ := hpos
    unfold errIn at hpos
    rw [sum_map_pos_iff] at hpos
    obtain ⟨s, hs, hpos⟩ := hpos
    rw [sum_map_pos_iff] at hpos
    obtain ⟨r, hrm, hpos⟩ := hpos
    obtain ⟨hr, hin⟩ := List.mem_filter.mp hrm
    have hran : ranBy ap skip (clearViolations rs) f r = true :=
      List.any_eq_true.mpr ⟨p, hp, List.any_eq_true.mpr ⟨s, hs, hin⟩⟩
    unfold errOf at hpos
    by_cases hse : r.cfg.sevError = true
    · simp only [hse, if_true] at hpos
      obtain ⟨v, hv⟩ := List.exists_mem_of_length_pos hpos
      have := hall ⟨r.cfg.id, r.sevName, r.cfg.sevError, v.line, v.sol, r.cfg.phase⟩
        ⟨anaIf f (ranBy ap skip (clearViolations rs) f) r, List.mem_map.mpr ⟨r, hr, rfl⟩, v,
          by simp only [anaIf, hran, if_true]; exact hv, by simp only [anaIf, hran, if_true]; rfl⟩
      simp [hse] at this
    · simp [hse] at hpos

/-- warnings alone never make the status non-zero -/
theorem warnings_only_exit_zero (ap : Bool) (skip : List Nat) (rs : List CRule) (f : List Tok)
    (h : ∀ r ∈ rs, r.cfg.sevError = false) : (checkRun ap skip rs f).viol = false := by
  rw [exit_zero_iff]
  intro rec hrec
  rw [mem_reportRecs, mem_allRecs] at hrec
  obtain ⟨r', hr', v, _, rfl⟩ := hrec
  obtain ⟨r, hr, hcfg, _, _⟩ := final_rule_attrs ap skip rs f r' hr'
  simp only [hcfg]; exact h r hr

/-- the JUnit file has a failure element for the file exactly when its exit flag is set -/
theorem exit_zero_iff_junit_empty (ap : Bool) (skip : List Nat) (rs : List CRule) (f : List Tok) :
    (checkRun ap skip rs f).viol = false ↔ junitLines (checkRun ap skip rs f).rules = [] := by
  rw [exit_zero_iff, junit_is_error_filter, List.map_eq_nil_iff, List.filter_eq_nil_iff]
  simp only [mem_reportRecs, Bool.not_eq_true]

/-- **process exit status** (`__main__.main`): 0 exactly when every file for which a result was
    produced was checked without error-type violation; a file that fails to parse (ClassifyError)
    or to configure (ConfigurationError — which also stops the run) makes it non-zero -/
theorem main_exit_zero_iff (outcomes : List FileOutcome) :
    mainExit outcomes = false ↔ ∀ o ∈ processed outcomes, o = FileOutcome.checked false := by
  unfold mainExit
  have key : ∀ (l : List FileOutcome) (b : Bool),
      l.foldl (fun acc o => acc || o.status) b = false ↔ b = false ∧ ∀ o ∈ l, o = FileOutcome.checked false := by
    intro l
    induction l with
    | nil => intro b; simp
    | cons o l ih =>
      intro b
      simp only [List.foldl_cons, ih, List.mem_cons, forall_eq_or_imp, Bool.or_eq_false_iff]
      constructor
      · rintro ⟨⟨hb, ho⟩, hl⟩
        refine ⟨hb, ?_, hl⟩
        cases o with
        | checked v => simp [FileOutcome.status] at ho; rw [ho]
        | _ => simp [FileOutcome.status] at ho
      · rintro ⟨hb, ho, hl⟩
        exact ⟨⟨hb, by rw [ho]; rfl⟩, hl⟩
  rw [key]; simp

/-- files after a ConfigurationError are not processed at all -/
theorem main_stops_at_config_error (pre post : List FileOutcome) (h : ∀ o ∈ pre, o.stops = false) :
    processed (pre ++ FileOutcome.configError :: post) = pre ++ [FileOutcome.configError] := by
  induction pre with
  | nil => simp [processed, FileOutcome.stops]
  | cons o pre ih =>
    have ho := h o (List.mem_cons_self ..)
    simp only [List.cons_append, processed, ho, Bool.false_eq_true, if_false]
    rw [ih (fun o' ho' => h o' (List.mem_cons_of_mem _ ho'))]

/-! ### where the real code keys on the severity NAME "Error" -/

def exRule (id sev : String) (phase : Int) (sevError : Bool) (k : StubKind) : CRule :=
  { cfg := { id := id, phase := phase, subphase := 1, disabled := false, fixable := true, sevError := sevError, prereq := false },
    sem := k.sem, sevName := sev, userMsg := "", sol := k.sol, viols := [] }

def exFile : List Tok := [⟨7, .code, ['A']⟩, ⟨1, .ws, [' ', ' ']⟩, ⟨7, .code, ['b']⟩]

/-- one rule of a user-defined error-type severity "Todo" with one violation -/
def exTodo : List CRule := [exRule "ws_001" "Todo" 2 true (.setVal 1 [' '])]
def exSevs : List String := ["Error", "Warning", "Todo"]

/-- the summary status word ("OK"/"ERROR") and channel of a run -/
def summaryOk (ap : Bool) (skip : List Nat) (rs : List CRule) (f : List Tok) (sevNames : List String) : Option Bool :=
  ((reportViolations (checkRun ap skip rs f) sevNames).bind sumOut).map (·.ok)

/-- FULL statement "the summary says OK exactly when the exit flag is clear" is FALSE for the
    faithful model: with a user-defined error-type severity the summary prints OK (on stdout)
    while the exit flag is set -/
theorem summary_ok_iff_exit_fails :
    summaryOk true [] exTodo exFile exSevs = some true ∧ (checkRun true [] exTodo exFile).viol = true := by
  decide +kernel

/-- … it holds when error-type severities are exactly those named "Error" (the built-in set-up) -/
theorem summary_ok_iff_exit_partial (ap : Bool) (skip : List Nat) (rs : List CRule) (f : List Tok)
    (sevNames : List String) (ok : Bool)
    (hnames : ∀ r ∈ rs, r.cfg.sevError = (r.sevName == "Error"))
    (h : summaryOk ap skip rs f sevNames = some ok) :
    ok = !(checkRun ap skip rs f).viol := by
  unfold summaryOk at h
  cases hri : reportViolations (checkRun ap skip rs f) sevNames with
  | none => simp [hri] at h
  | some ri =>
    simp only [hri, Option.bind_some] at h
    obtain ⟨hv, _, _, _, hsev⟩ := reportViolations_some _ _ _ hri
    obtain ⟨_, _, h3⟩ := countSeverities_counts _ _ _ hsev
    unfold sumOut at h
    cases hl : ri.severities.lookup "Error" with
    | none => simp [hl] at h
    | some n =>
      simp only [hl, Option.map_some, Option.some.injEq] at h
      subst h
      have hn := h3 "Error" n hl
      -- n = 0 ↔ no record named "Error" ↔ no record of error type ↔ exit flag clear
      have hattr : ∀ rec ∈ reportRecs (checkRun ap skip rs f).rules, rec.sevErr = (rec.sevName == "Error") := by
        intro rec hrec
        rw [mem_reportRecs, mem_allRecs] at hrec
        obtain ⟨r', hr', v, _, rfl⟩ := hrec
        obtain ⟨r, hr, hcfg, hname, _⟩ := final_rule_attrs ap skip rs f r' hr'
        simp only [hcfg, hname]; exact hnames r hr
      cases hvi : (checkRun ap skip rs f).viol with
      | false =>
        have hall := (exit_zero_iff ap skip rs f).mp hvi
        have : n = 0 := by
          rw [hn, List.length_eq_zero_iff, List.filter_eq_nil_iff]
          intro rec hrec
          have h1 := hall rec hrec
          rw [hattr rec hrec] at h1
          simpa using h1
        simp [this]
      | true =>
        have hnot : ¬ ∀ rec ∈ reportRecs (checkRun ap skip rs f).rules, rec.sevErr = false := by
          intro hall; have := (exit_zero_iff ap skip rs f).mpr hall; rw [hvi] at this; cases this
        have : n ≠ 0 := by
          intro h0
          apply hnot
          intro rec hm
          rw [hn, List.length_eq_zero_iff, List.filter_eq_nil_iff] at h0
          have := h0 rec hm
          rw [hattr rec hm]
          simpa using this
        simp [this]

/-- FULL statement "the quality report marks an entry critical exactly when its rule is of error
    type" is FALSE for the faithful model: a user-defined error-type severity is reported `minor` -/
theorem quality_critical_iff_error_type_fails :
    (qualityRecs (jsonRecs (checkRun true [] exTodo exFile).rules)).map (·.critical) = [false] ∧
    ((allRecs (checkRun true [] exTodo exFile).rules).map (·.sevErr)) = [true] := by
  decide +kernel

/-- … it holds when error-type severities are exactly those named "Error" -/
theorem quality_critical_iff_error_type_partial (rs : List CRule)
    (hnames : ∀ r ∈ rs, r.cfg.sevError = (r.sevName == "Error")) :
    (qualityRecs (jsonRecs rs)).map (·.critical) = (allRecs rs).map (·.sevErr) := by
  unfold qualityRecs jsonRecs allRecs
  induction rs with
  | nil => rfl
  | cons r rs ih =>
    have ih := ih (fun r' hr' => hnames r' (List.mem_cons_of_mem _ hr'))
    simp only [List.flatMap_cons, List.map_append, List.map_map] at ih ⊢
    rw [ih]
    congr 1
    simp [CRule.getViolations, Function.comp_def, hnames r (List.mem_cons_self ..)]

/-! ### non-vacuity -/

def exMixed : List CRule :=
  [exRule "late_001" "Error" 6 true (.setVal 7 ['b']), exRule "warn_001" "Warning" 1 false (.delete 1)]

example : (checkRun true [] exMixed exFile).viol = true := by decide +kernel
example : (checkRun true [] [exRule "warn_001" "Warning" 1 false (.delete 1)] exFile).viol = false ∧
    (reportRecs (checkRun true [] [exRule "warn_001" "Warning" 1 false (.delete 1)] exFile).rules).length = 1 := by
  decide +kernel
example : (junitLines (checkRun true [] exMixed exFile).rules).length = 1 ∧
    (jsonRecs (checkRun true [] exMixed exFile).rules).length = 2 := by decide +kernel
example : mainExit [.checked false, .classifyError, .checked false] = true := by decide
example : mainExit [.checked false, .checked false] = false := by decide

end Vsgm.C14
