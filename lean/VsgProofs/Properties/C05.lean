/-
  C05 — token classification does not depend on layout, comments or letter case.

  SCOPE.  The ~8 300 lines of productions under vsg/vhdlFile/classify are NOT modelled: for them
  the property is decided per explored (file, re-layout) pair on the real parser
  (harness/props_c05.py; the role comparison `compareRoles` below is what the driver runs).
  Proved here, for every token list:
    * the navigation primitives of vsg/vhdlFile/utils.py return results that depend only on the
      view of the list they skip to and on the rank of the start position in that view
      (`prims_*`), with a witness wherever a primitive does NOT (`*_not_layoutBlind`);
    * the four post passes of vhdlFile.py commute with dropping the skipped tokens
      (`postPasses_relayout_partial`: three guards, each shown to be needed by a witness);
    * the tokenizer keeps every other token when one of its white space tokens is resized
      (`create_relayout_partial`: two guards, three witnesses).
  ONLY property theorems and their non-vacuity examples live here.
-/
import VsgModel.Classify.View
import VsgModel.Classify.Tables
import VsgModel.Wire
import VsgProofs.Lemmas.Classify
import VsgProofs.Lemmas.ClassifyPost
import VsgProofs.Lemmas.ClassifyPta
import VsgProofs.Lemmas.LexRelayout
import VsgModel.Indent.SetIndent
import VsgProofs.Lemmas.SetIndent
-- >>> WP1b layer P
import VsgModel.Prog.Check
import VsgModel.Generated.ClassifyProg
import VsgProofs.Lemmas.ProgLayout
import VsgProofs.Lemmas.ProgPrims
import VsgProofs.Lemmas.ProgPrimsLayout
import VsgProofs.Lemmas.ProgChain
import VsgProofs.Lemmas.ProgIfChain
import VsgProofs.Lemmas.ProgDetect
import VsgModel.Prog.NavCheck
import VsgModel.Generated.ClassifyTables
-- <<< WP1b layer P
namespace Vsgm.C05
open Vsgm Vsgm.Classify Vsgm.Lex

/-! ## 1. navigation primitives

`view p l` is the list of kept tokens, `rank p l i` the number of kept tokens in front of index `i`:
positions `i` of `l` and `j` of `l'` CORRESPOND when `rank p l i = rank p l' j` (`i` and `j` sit
in front of the same token of the common view). -/

/-- **forward skip searches** (`find_next_token` with `p = isRaw`, `find_next_non_whitespace_token`
    with `p = ¬ token_is_whitespace_or_comment`): applied at corresponding positions of two lists
    with the same view they return corresponding positions, and these point at the same kept
    token (or, in both lists, at no kept token) -/
theorem prims_forwardSearch (p : CTok → Bool) (l l' : List CTok) (i j : Nat)
    (hv : view p l = view p l') (hr : rank p l i = rank p l' j) :
    rank p l (fwd p l i) = rank p l' (fwd p l' j)
      ∧ (l[fwd p l i]?).filter p = (l'[fwd p l' j]?).filter p := by
  refine ⟨by rw [fwd_rank, fwd_rank, hr], ?_⟩
  rw [fwd_get, fwd_get, hv, hr]

/-- `find_next_token` is the forward search for raw items, `find_next_non_whitespace_token` the
    one for tokens that are not white space / comment -/
theorem prims_findNext_are_forwardSearches (T : ClassTables) (i : Nat) (l : List CTok) :
    findNextToken T i l = fwd (isRaw T) l i ∧ findNextNonWs T i l = fwd (keepNav T) l i :=
  ⟨rfl, rfl⟩

/-- the found token is the `rank i`-th token of the view -/
theorem prims_forwardSearch_token (p : CTok → Bool) (l : List CTok) (i : Nat) :
    (l[fwd p l i]?).filter p = (view p l)[rank p l i]? := fwd_get p l i

/-- **`are_next_consecutive_token_types_ignoring_whitespace`** factors through the navigation
    view, for type lists none of whose types has a skipped class as instance -/
theorem prims_areNextTypesIgnWs (T : ClassTables) (tys : List (Option Ty)) (l l' : List CTok) (i j : Nat)
    (hty : tysNoSkip T tys)
    (hv : view (keepNav T) l = view (keepNav T) l') (hr : rank (keepNav T) l i = rank (keepNav T) l' j) :
    areNextTypesIgnWs T tys i l = areNextTypesIgnWs T tys j l' := by
  rw [areNextTypesIgnWs_spec T tys l i hty, areNextTypesIgnWs_spec T tys l' j hty, hv, hr]

/-- … and what it computes, said on the view -/
theorem prims_areNextTypesIgnWs_spec (T : ClassTables) (tys : List (Option Ty)) (l : List CTok) (i : Nat)
    (hty : tysNoSkip T tys) :
    areNextTypesIgnWs T tys i l = .ok (specNextTypes tys (view (keepNav T) l) (rank (keepNav T) l i)) :=
  areNextTypesIgnWs_spec T tys l i hty

/-- **`are_previous_consecutive_token_types_ignoring_whitespace([ty], i - 1, l)`** (the form every
    call in vhdlFile.py has) at a position `i ≥ 1` inside the list factors through the view -/
theorem prims_arePrevTypesIgnWs_partial (T : ClassTables) (ty : Ty) (l l' : List CTok) (n m : Nat)
    (hn : n < l.length) (hm : m < l'.length) (hty : tyNoSkip T ty)
    (hv : view (keepNav T) l = view (keepNav T) l')
    (hr : rank (keepNav T) l (n + 1) = rank (keepNav T) l' (m + 1)) :
    prevIs T ty l (n + 1) = prevIs T ty l' (m + 1) := by
  rw [prevIs_spec T ty l n hn hty, prevIs_spec T ty l' m hm hty, hv, hr]

/-- the excluded case `i = 0`: Python evaluates `lObjects[-1]`, the LAST token of the list -/
theorem prims_arePrevTypesIgnWs_wraps (T : ClassTables) (ty : Ty) (l : List CTok) :
    prevIs T ty l 0 = (l.getLast?).any (isInst · ty) := prevIs_zero T ty l

/-- **`is_next_token`** at corresponding positions, when a raw item follows (the excluded case:
    no raw item at or after the position — then `lObjects[iToken]` itself is compared) -/
theorem prims_isNextToken_partial (T : ClassTables) (s : Str) (l l' : List CTok) (i j : Nat)
    (hv : view (isRaw T) l = view (isRaw T) l') (hr : rank (isRaw T) l i = rank (isRaw T) l' j)
    (hex : rank (isRaw T) l i < (view (isRaw T) l).length) :
    isNextToken T s i l = isNextToken T s j l' := by
  obtain ⟨t, ht⟩ : ∃ t, (view (isRaw T) l)[rank (isRaw T) l i]? = some t :=
    ⟨_, List.getElem?_eq_getElem hex⟩
  have h1 := fwd_found (isRaw T) l i t ht
  have h2 := fwd_found (isRaw T) l' j t (by rw [← hv, ← hr]; exact ht)
  simp only [isNextToken, objectValueIs, findNextToken_eq_fwd, natGet, h1.1, h2.1]

/-! ### primitives that are NOT layout blind (witnesses on the generated tables of /repo) -/

private def tk (c : Nat) (v : String) : CTok := { cls := c, lower := v.toList, val := v.toList }
private def wsTok : CTok := tk Gen.idx_parser_whitespace " "

/-- `are_next_consecutive_token_types` looks at `lObjects[i], lObjects[i+1]` directly: one blank
    in between changes the answer (call sites: only rules, e.g. `utils.is_token_at_end_of_line`) -/
theorem areNextTypes_not_layoutBlind :
    let a := tk Gen.idx_parser_keyword "a"
    let b := tk Gen.idx_parser_todo "b"
    areNextTypes [some [a.cls], some [b.cls]] 0 [a, b] = .ok true
      ∧ areNextTypes [some [a.cls], some [b.cls]] 0 [a, wsTok, b] = .ok false
      ∧ view (keepNav pyClassTables) [a, b] = view (keepNav pyClassTables) [a, wsTok, b] := by
  try dsimp only
  try simp only [postPasses_eq_F]
  decide +kernel

/-- `exponent_detected` / `assign_special_tokens` look at `lObjects[iCurrent ± 1]` directly (call
    sites: every production that classifies expressions through `assign_special_tokens`) -/
theorem assignSpecial_not_layoutBlind :
    let e := tk Gen.idx_parser_item "e"
    let plus := tk Gen.idx_parser_item "+"
    let ek := tk Gen.idx_exponent_e_keyword "e"
    assignSpecial pyClassTables (fun _ => false) [e, plus] 0 = .ok .eKeyword
      ∧ assignSpecial pyClassTables (fun _ => false) [e, wsTok, plus] 0 = .ok .oType
      ∧ exponentDetected pyClassTables [ek, plus] 1 = .ok true
      ∧ exponentDetected pyClassTables [ek, wsTok, plus] 2 = .ok false := by
  try dsimp only
  try simp only [postPasses_eq_F]
  decide +kernel

/-- `is_next_token` when no raw item is left compares `lObjects[iToken]` itself: a blank in
    front changes the answer although the positions correspond -/
theorem isNextToken_not_layoutBlind :
    let semi := tk Gen.idx_parser_semicolon ";"
    isNextToken pyClassTables [';'] 0 [semi] = .ok true
      ∧ isNextToken pyClassTables [';'] 0 [wsTok, semi] = .ok false
      ∧ rank (isRaw pyClassTables) [semi] 0 = rank (isRaw pyClassTables) [wsTok, semi] 0 := by
  try dsimp only
  try simp only [postPasses_eq_F]
  decide +kernel

/-- the value scans (`get_range`, `find_in_range`, `update_paren_counter`, …) compare the value of
    EVERY token: the text of a delimited comment that is spelled like a code token is taken for
    that token -/
theorem valueScan_reads_comment_text :
    let x := tk Gen.idx_parser_item "x"
    let semi := tk Gen.idx_parser_item ";"
    let le := tk Gen.idx_parser_item "<="
    let dc := tk Gen.idx_delimited_comment_text ";"
    findInRange ['<', '='] 0 [';'] [x, le, x, semi] = .ok true
      ∧ findInRange ['<', '='] 0 [';'] [x, dc, le, x, semi] = .ok false
      ∧ codeView Wire.kindOfCls [x, le, x, semi] = codeView Wire.kindOfCls [x, dc, le, x, semi] := by
  try dsimp only
  try simp only [postPasses_eq_F]
  decide +kernel

/-! ## 2. post passes -/

/-- the class tables of /repo satisfy every hypothesis of the post pass theorems -/
theorem pyTables_postHyps : PostHyps pyClassTables pyPostTables := by
  constructor
  all_goals first
    | exact tyNoSkip_of_disjoint _ _ (by decide)
    | (unfold clsKept; decide)
    | decide

/-- **the post passes commute with re-layout**: the four passes of `vhdlFile._processFile`
    (`post_token_assignments`, `set_token_hierarchy_value`, `set_todo_tokens`,
    `set_aggregate_tokens`) give the same kept tokens — classes, parenthesis ids, hierarchy values
    — and fail with the same exception, whether they run on the list or on its navigation view.
    Guards (each is needed, see the witnesses below):
    `SkipNoOp` — skipped tokens are not spelled `+ - * / ** ( )`;
    `TicAdj` — no kept token spelled `'` is directly followed by a skipped token;
    `FirstPlain` — the first kept token is not a to-do / parenthesis / sign. -/
theorem postPasses_relayout_partial (T : ClassTables) (P : PostTables) (H : PostHyps T P) (l : List CTok)
    (hno : SkipNoOp T l) (hadj : TicAdj T l)
    (hq : ∀ t, (navView T l).head? = some t → FirstPlain P t) :
    postPasses T P (navView T l) = (postPasses T P l).map (navView T) :=
  postPasses_filter T P H l hno hadj hq

/-- … hence two lists with the same navigation view (same code tokens in the same order; white
    space, line ends, `--` comments, blank lines, directives anywhere) get the same kept tokens -/
theorem postPasses_relayout_two (T : ClassTables) (P : PostTables) (H : PostHyps T P) (l l' : List CTok)
    (hv : navView T l = navView T l')
    (hno : SkipNoOp T l) (hadj : TicAdj T l) (hno' : SkipNoOp T l') (hadj' : TicAdj T l')
    (hq : ∀ t, (navView T l).head? = some t → FirstPlain P t) :
    (postPasses T P l).map (navView T) = (postPasses T P l').map (navView T) := by
  rw [← postPasses_relayout_partial T P H l hno hadj hq,
    ← postPasses_relayout_partial T P H l' hno' hadj' (by rw [← hv]; exact hq), hv]

/-- each pass on its own -/
theorem postPasses_each (T : ClassTables) (P : PostTables) (H : PostHyps T P) (l : List CTok) :
    setTokenHierarchy P (navView T l) = navView T (setTokenHierarchy P l)
    ∧ setAggregateTokens P (navView T l) = (setAggregateTokens P l).map (navView T)
    ∧ (quietTodo P (navView T l).head? → setTodoTokens T P (navView T l) = navView T (setTodoTokens T P l))
    ∧ (SkipNoOp T l → TicAdj T l → (∀ t, (navView T l).head? = some t → quietPta P t) →
        postTokenAssignments T P (navView T l) = (postTokenAssignments T P l).map (navView T)) :=
  ⟨(hierGo_filter T P H l 0).symm, setAggregateTokens_filter T P H l,
   fun hq => (setTodoTokens_filter T P H l hq).symm,
   fun a b c => postTokenAssignments_filter T P H l a b c⟩

/-- the statement for the tables of /repo -/
theorem postPasses_relayout_py (l l' : List CTok)
    (hv : navView pyClassTables l = navView pyClassTables l')
    (hno : SkipNoOp pyClassTables l) (hadj : TicAdj pyClassTables l)
    (hno' : SkipNoOp pyClassTables l') (hadj' : TicAdj pyClassTables l')
    (hq : ∀ t, (navView pyClassTables l).head? = some t → FirstPlain pyPostTables t) :
    (postPasses pyClassTables pyPostTables l).map (navView pyClassTables)
      = (postPasses pyClassTables pyPostTables l').map (navView pyClassTables) :=
  postPasses_relayout_two _ _ pyTables_postHyps l l' hv hno hadj hno' hadj' hq

/-! ### the guards are needed; delimited comments are not skipped -/

private def todoTok (v : String) : CTok := tk Gen.idx_parser_todo v
private def kw : CTok := tk Gen.idx_parser_keyword "is"

/-- without `TicAdj`: `classify_predefined_types(lTokens, iToken + 1)` reads the token directly
    behind the tick — `x'event` and `x' event` differ -/
theorem postPasses_tick_not_layoutBlind :
    let l := [kw, todoTok "x", todoTok "'", todoTok "event"]
    let l' := [kw, todoTok "x", todoTok "'", wsTok, todoTok "event"]
    navView pyClassTables l = navView pyClassTables l'
      ∧ (postPasses pyClassTables pyPostTables l).map (navView pyClassTables)
          ≠ (postPasses pyClassTables pyPostTables l').map (navView pyClassTables) := by
  try dsimp only
  try simp only [postPasses_eq_F]
  decide +kernel

/-- without `FirstPlain`: at the first token the backward search is called with index `-1` and
    Python reads the last token of the list (`lObjects[-1]`) -/
theorem postPasses_first_not_layoutBlind :
    let l := [todoTok "-", todoTok "x", tk Gen.idx_parser_keyword "is"]
    let l' := [todoTok "-", todoTok "x", tk Gen.idx_parser_keyword "is", wsTok]
    navView pyClassTables l = navView pyClassTables l'
      ∧ (postPasses pyClassTables pyPostTables l).map (navView pyClassTables)
          ≠ (postPasses pyClassTables pyPostTables l').map (navView pyClassTables) := by
  try dsimp only
  try simp only [postPasses_eq_F]
  decide +kernel

/-- comment insertion in general: the TEXT token of a delimited comment is not
    `token_is_whitespace_or_comment`, so the passes stop at it — `a /* c */ (` keeps `a` a
    `parser.todo` where `a (` makes it a `todo.name`, and a sign behind `(`, `/* c */` is binary -/
theorem postPasses_delimitedComment_not_skipped :
    let dc := tk Gen.idx_delimited_comment_text " c "
    let l := [kw, todoTok "a", todoTok "(", todoTok "-", todoTok "b", todoTok ")"]
    let l' := [kw, todoTok "a", dc, todoTok "(", dc, todoTok "-", todoTok "b", todoTok ")"]
    codeView Wire.kindOfCls l = codeView Wire.kindOfCls l'
      ∧ ((postPasses pyClassTables pyPostTables l).map fun r => (codeView Wire.kindOfCls r).map (·.cls))
          ≠ ((postPasses pyClassTables pyPostTables l').map fun r => (codeView Wire.kindOfCls r).map (·.cls)) := by
  try dsimp only
  try simp only [postPasses_eq_F]
  decide +kernel

/-! ## 3. the role comparison the driver runs -/

/-- `compareRoles` answers `same` exactly when the two lists are re-layouts of each other with
    equal roles -/
theorem compareRoles_same_iff (kindOf : Nat → Kind) (l l' : List CTok) :
    (∃ n, compareRoles kindOf l l' = .same n) ↔ Relayout kindOf l l' := by
  unfold compareRoles Relayout
  have key : ∀ (a b : List CTok) (k : Nat), a.length = b.length →
      (firstDiff a b k = none ↔ agreeList a b = true) := by
    intro a
    induction a with
    | nil => intro b k h; cases b <;> simp_all [firstDiff, agreeList]
    | cons x xs ih =>
      intro b k h
      cases b with
      | nil => simp at h
      | cons y ys =>
        simp only [firstDiff, agreeList, agree]
        by_cases h1 : sameToken x y = true
        · by_cases h2 : x.cls = y.cls
          · simp [h1, h2, ih ys (k + 1) (by simpa using h)]
          · simp [h1, h2]
        · simp [h1]
  have len : ∀ a b : List CTok, agreeList a b = true → a.length = b.length := by
    intro a
    induction a with
    | nil => intro b h; cases b <;> simp_all [agreeList]
    | cons x xs ih =>
      intro b h
      cases b with
      | nil => simp [agreeList] at h
      | cons y ys => simp only [agreeList, Bool.and_eq_true] at h; simp [ih ys h.2]
  constructor
  · rintro ⟨n, h⟩
    by_cases hl : (codeView kindOf l).length = (codeView kindOf l').length
    · simp only [hl, bne_self_eq_false, Bool.false_eq_true, if_false] at h
      cases hf : firstDiff (codeView kindOf l) (codeView kindOf l') 0 with
      | none => exact (key _ _ 0 hl).1 hf
      | some c =>
        rw [hf] at h
        -- `firstDiff` never answers `same`
        have : ∀ (a b : List CTok) (k : Nat) (c : Cmp), firstDiff a b k = some c → ∀ n, c ≠ .same n := by
          intro a
          induction a with
          | nil => intro b k c h; cases b <;> simp [firstDiff] at h
          | cons x xs ih =>
            intro b k c h
            cases b with
            | nil => simp [firstDiff] at h
            | cons y ys =>
              simp only [firstDiff] at h
              split at h
              · cases h; intro n; simp
              · split at h
                · cases h; intro n; simp
                · exact ih ys (k + 1) c h
        exact absurd h (this _ _ _ _ hf n)
    · have : ((codeView kindOf l).length != (codeView kindOf l').length) = true := by simpa using hl
      simp [this] at h
  · intro h
    have hl := len _ _ h
    refine ⟨(codeView kindOf l).length, ?_⟩
    simp only [hl, bne_self_eq_false, Bool.false_eq_true, if_false, (key _ _ 0 hl).2 h]

/-! ## 4. tokenizer -/

/-- **resizing a white space token of `tokens.create`'s output changes no other token**, unless
    (G1) a backslash symbol is open in front of it and the blank-ness of the token changes, or
    (G2) it stands between two tick characters and its being one character long changes -/
theorem create_relayout_partial (T : LexTables) (H : RelayoutHyps T)
    (a w w' b : Str) (pre post : List Str)
    (hw : strIsSpace T w = true) (hw' : strIsSpace T w' = true)
    (hc : create T (a ++ w ++ b) = pre ++ [w] ++ post) (hpre : pre.flatten = a)
    (G1 : ((' ' ∈ w) ↔ (' ' ∈ w')) ∨ '\\' ∉ a)
    (G2 : ¬ (a.getLast? = some '\'' ∧ b.head? = some '\'') ∨ (w.length = 1 ↔ w'.length = 1)) :
    create T (a ++ w' ++ b) = pre ++ [w'] ++ post :=
  Lex.create_relayout_partial T H a w w' b pre post hw hw' hc hpre G1 G2

/-- the same for CPython's character predicates and the symbol lists of tokens.py -/
theorem create_relayout_partial_py (a w w' b : Str) (pre post : List Str)
    (hw : strIsSpace pyTables w = true) (hw' : strIsSpace pyTables w' = true)
    (hc : create pyTables (a ++ w ++ b) = pre ++ [w] ++ post) (hpre : pre.flatten = a)
    (G1 : ((' ' ∈ w) ↔ (' ' ∈ w')) ∨ '\\' ∉ a)
    (G2 : ¬ (a.getLast? = some '\'' ∧ b.head? = some '\'') ∨ (w.length = 1 ↔ w'.length = 1)) :
    create pyTables (a ++ w' ++ b) = pre ++ [w'] ++ post :=
  Lex.create_relayout_partial pyTables pyTables_relayout_hyps a w w' b pre post hw hw' hc hpre G1 G2

/-- G1 is needed: a blank closes an extended identifier `\a\`, a tab does not — `\a\<TAB><=`
    is ONE token (which `whitespace.classify` then takes for white space) -/
theorem create_relayout_false_backslash :
    create pyTables ("\\a\\".toList ++ " ".toList ++ "<= b".toList)
        = ["\\a\\".toList] ++ [" ".toList] ++ ["<=".toList, " ".toList, "b".toList] ∧
    create pyTables ("\\a\\".toList ++ "\t".toList ++ "<= b".toList)
        = ["\\a\\\t<=".toList, " ".toList, "b".toList] :=
  ⟨Lex.create_relayout_false_backslash.1, Lex.create_relayout_false_backslash.2.2⟩

/-- G2 is needed: two blanks between ticks are a token, one blank is a character literal -/
theorem create_relayout_false_tick :
    create pyTables ("'".toList ++ "  ".toList ++ "'".toList)
        = ["'".toList] ++ ["  ".toList] ++ ["'".toList] ∧
    create pyTables ("'".toList ++ " ".toList ++ "'".toList) = ["' '".toList] :=
  ⟨Lex.create_relayout_false_tick.1, Lex.create_relayout_false_tick.2.2⟩

/-! ## non-vacuity -/

/-- the hypotheses of `postPasses_relayout_py` hold on a pair of lists that differ in layout, and
    the conclusion is an equation between successful runs -/
example :
    let l := [kw, todoTok "a", todoTok "(", todoTok "-", todoTok "b", todoTok ")"]
    let l' := [wsTok, kw, wsTok, todoTok "a", wsTok, todoTok "(", wsTok, wsTok, todoTok "-", todoTok "b", todoTok ")", wsTok]
    navView pyClassTables l = navView pyClassTables l'
      ∧ (postPasses pyClassTables pyPostTables l).map (navView pyClassTables)
          = (postPasses pyClassTables pyPostTables l').map (navView pyClassTables)
      ∧ ((postPasses pyClassTables pyPostTables l).map fun r => r.map (·.cls))
          = .ok [Gen.idx_parser_keyword, Gen.idx_todo_name, Gen.idx_todo_open_parenthesis,
              Gen.idx_sign_minus, Gen.idx_parser_todo, Gen.idx_todo_close_parenthesis] := by
  try dsimp only
  try simp only [postPasses_eq_F]
  decide +kernel

example : FirstPlain pyPostTables kw := by
  refine ⟨⟨by decide, by decide, by decide, by decide⟩, by decide, by decide, by decide, by decide⟩

example : prevIs pyClassTables pyPostTables.openParen [todoTok "-", todoTok "x", tk Gen.idx_parser_open_parenthesis "("] 0 = true := by
  try dsimp only
  try simp only [postPasses_eq_F]
  decide +kernel

example : create pyTables ("x".toList ++ " ".toList ++ "<= y".toList) = ["x".toList] ++ [" ".toList] ++ ["<=".toList, " ".toList, "y".toList]
    ∧ create pyTables ("x".toList ++ "\t  ".toList ++ "<= y".toList) = ["x".toList] ++ ["\t  ".toList] ++ ["<=".toList, " ".toList, "y".toList] := by
  decide +kernel

/-! ### BEGIN ag_setindent (`set_token_indent`: which re-layouts the indent levels are blind to) -/

section SetIndent
open Vsgm.Indent

/-- **`set_token_indent` is blind to whitespace and line breaks.**  `E` = class table, `m` = indent map
    (default or merged with a user `indent:` section), `strip` deletes the `parser.whitespace` and
    `parser.carriage_return` tokens — everything else (code, comments, pragmas, `parser.blank_line` tokens,
    with the attributes the function reads: class, lower-case value, block-comment mark, old indent) stays.
    Two token lists that agree after `strip` get the same indents on all remaining tokens, whenever both
    calls return.  Hypotheses on the tables (`LayoutOk`: a carriage return is no blank line, layout classes
    are no library names; `SkipOk`: the classes `find_next_non_whitespace_token` skips are no `use` /
    `context` keywords, have a `unique_id`, and are no keys of the indent map) hold for the pinned tree
    (`setIndent_layoutBlind_py`).  A call does not return only for `IndexError` (a comment as very last
    token), a class without `unique_id`, or an indent map with missing / non-integer values. -/
theorem setIndent_layoutBlind (E : Env) (m : IndentMap) (L : LayoutOk E) (H : SkipOk E (processIndentMap m))
    (l₁ l₂ r₁ r₂ : List ITok) (hs : strip E l₁ = strip E l₂)
    (h₁ : setTokenIndent E m l₁ = .ok r₁) (h₂ : setTokenIndent E m l₂ = .ok r₂) :
    strip E r₁ = strip E r₂ :=
  setTokenIndent_layoutBlind E m L H l₁ l₂ r₁ r₂ hs h₁ h₂

/-- … for the class table and the default `indent_config.yaml` of the pinned tree, no hypothesis left -/
theorem setIndent_layoutBlind_py (l₁ l₂ r₁ r₂ : List ITok) (hs : strip genEnv l₁ = strip genEnv l₂)
    (h₁ : setTokenIndent genEnv Gen.indentConfig l₁ = .ok r₁)
    (h₂ : setTokenIndent genEnv Gen.indentConfig l₂ = .ok r₂) :
    strip genEnv r₁ = strip genEnv r₂ :=
  setTokenIndent_layoutBlind genEnv Gen.indentConfig genEnv_layoutOk genEnv_skipOk l₁ l₂ r₁ r₂ hs h₁ h₂

/-- … and for every indent map a user `indent:` section can produce from it (`read_indent_configuration`
    assigns into existing entries only — an unknown group or token name ends the run — so no key is added) -/
theorem setIndent_layoutBlind_userConfig (user : Option IndentMap) (m : IndentMap)
    (hm : readIndentConfiguration Gen.indentConfig user = .ok m)
    (l₁ l₂ r₁ r₂ : List ITok) (hs : strip genEnv l₁ = strip genEnv l₂)
    (h₁ : setTokenIndent genEnv m l₁ = .ok r₁) (h₂ : setTokenIndent genEnv m l₂ = .ok r₂) :
    strip genEnv r₁ = strip genEnv r₂ :=
  setTokenIndent_layoutBlind genEnv m genEnv_layoutOk (SkipOk.of_merge genEnv _ user m genEnv_skipOk hm)
    l₁ l₂ r₁ r₂ hs h₁ h₂

/-- **blind to comments as well**: `stripC` also deletes the comment tokens (`parser.comment` and its
    subclasses: pragmas, the delimiters of delimited comments).  Adding, deleting or moving comments changes
    the indent of no other token — a comment only receives an indent (from the look-ahead), it changes no
    parameter of the loop and every look-ahead skips it.  (The indent a comment itself gets does depend on
    where it stands.) -/
theorem setIndent_commentBlind (user : Option IndentMap) (m : IndentMap)
    (hm : readIndentConfiguration Gen.indentConfig user = .ok m)
    (l₁ l₂ r₁ r₂ : List ITok) (hs : stripC genEnv l₁ = stripC genEnv l₂)
    (h₁ : setTokenIndent genEnv m l₁ = .ok r₁) (h₂ : setTokenIndent genEnv m l₂ = .ok r₂) :
    stripC genEnv r₁ = stripC genEnv r₂ :=
  setTokenIndent_commentBlind genEnv m genEnv_layoutOk (SkipOk.of_merge genEnv _ user m genEnv_skipOk hm)
    genEnv_commentOk l₁ l₂ r₁ r₂ hs h₁ h₂

/-- … and the class of every token is untouched: the function writes `indent` only -/
theorem setIndent_keys (E : Env) (m : IndentMap) (l r : List ITok) (h : setTokenIndent E m l = .ok r) :
    keys r = keys l :=
  setTokenIndent_keys E m l r h

/-- **not blind to blank lines** (`parser.blank_line` resets `bLibraryFound`): `library` `context` gives the
    context reference indent 1, `library` ⟨blank line⟩ `context` gives it indent 0 — so a re-layout that adds or
    removes an empty line CAN change the indent of a code token (`context_reference.keyword`) and of the
    comments behind a library clause; this is why `strip` keeps the blank-line tokens -/
theorem setIndent_not_blankLineBlind :
    let tk : Nat → ITok := fun c => { key := { cls := c, lower := [] }, indent := none }
    let N := Gen.indentCls
    ((setTokenIndent genEnv Gen.indentConfig [tk N.libKw, tk N.ctxRefKw]).toOption.map (·.map (·.indent))
        = some [some 0, some 1]) ∧
    ((setTokenIndent genEnv Gen.indentConfig [tk N.libKw, tk N.blankLine, tk N.ctxRefKw]).toOption.map (·.map (·.indent))
        = some [some 0, none, some 0]) := by
  decide +kernel

/-- **the `_ok` hypotheses are needed**: a comment that is the very last token raises `IndexError`
    (`lTokens[iToken + 1]`), the same comment followed by a whitespace token does not — the two lists are
    re-layouts of each other.  (Every list the parser builds ends in a carriage return.) -/
theorem setIndent_trailingComment_raises :
    let tk : Nat → ITok := fun c => { key := { cls := c, lower := [] }, indent := none }
    let N := Gen.indentCls
    (setTokenIndent genEnv Gen.indentConfig [tk N.comment]).toOption = none ∧
    ((setTokenIndent genEnv Gen.indentConfig [tk N.comment, tk N.whitespace]).toOption.map (·.map (·.indent))
        = some [some 0, none]) := by
  decide +kernel

/-- non-vacuity: `library` ⟨ws⟩ `ieee` ⟨cr⟩ ⟨ws⟩ `use` and `library` `ieee` `use` both return and are re-layouts
    of each other -/
example :
    let tk : Nat → ITok := fun c => { key := { cls := c, lower := ['i', 'e', 'e', 'e'] }, indent := none }
    let N := Gen.indentCls
    let l₁ := [tk N.libKw, tk N.whitespace, tk N.logicalName, tk N.carriageReturn, tk N.whitespace, tk N.useKw, tk N.useLibName]
    let l₂ := [tk N.libKw, tk N.logicalName, tk N.useKw, tk N.useLibName]
    strip genEnv l₁ = strip genEnv l₂ ∧
    ((setTokenIndent genEnv Gen.indentConfig l₁).toOption.map (fun r => (strip genEnv r).map (·.indent))
        = some [some 0, none, some 1, none]) ∧
    ((setTokenIndent genEnv Gen.indentConfig l₂).toOption.map (fun r => (strip genEnv r).map (·.indent))
        = some [some 0, none, some 1, none]) := by
  decide +kernel

/-- non-vacuity of the `_userConfig` statements: the first example of docs/configuring_indentation.rst is
    accepted by `readIndentConfiguration` and changes the entry; an unknown token name is refused -/
example :
    ((readIndentConfiguration Gen.indentConfig
        (some [("port_clause", [("close_parenthesis", [("token", .str "current"), ("after", .str "-2")])])])).toOption.map
      fun m => dget (processIndentMap m) "port_clause:close_parenthesis")
      = some (some [("token", .str "current"), ("after", .str "-2")]) ∧
    (readIndentConfiguration Gen.indentConfig
        (some [("port_clause", [("no_such_token", [("token", .int 1)])])])).toOption = none := by
  decide +kernel

/-- non-vacuity of `setIndent_commentBlind`: `architecture` ⟨comment⟩ `;` and `architecture` `;` -/
example :
    let tk : Nat → ITok := fun c => { key := { cls := c, lower := [] }, indent := none }
    let N := Gen.indentCls
    let l₁ := [tk N.archKw, tk N.comment, tk N.carriageReturn, tk N.archSemi]
    let l₂ := [tk N.archKw, tk N.archSemi]
    stripC genEnv l₁ = stripC genEnv l₂ ∧
    ((setTokenIndent genEnv Gen.indentConfig l₁).toOption.map (fun r => (stripC genEnv r).map (·.indent))
        = some [some 0, none]) ∧
    ((setTokenIndent genEnv Gen.indentConfig l₂).toOption.map (fun r => (stripC genEnv r).map (·.indent))
        = some [some 0, none]) := by
  decide +kernel

end SetIndent

/-! ### END ag_setindent -/

end Vsgm.C05

-- >>> WP1b layer P: layout blindness of the interpreter's indexed leaf operations (partial)
namespace Vsgm.C05
open Vsgm Vsgm.Classify Vsgm.Prog

/-- **the full property (STATED, not proved)**: calls of function `f` on two states whose token lists have the same
    view, with integer arguments that correspond position-wise (`rank`), end in states with the same view and return
    corresponding positions.  What is proved below are the two indexed leaf operations; the lift through the
    interpreter needs a BINARY relation on values (ints related by `rank`, not by equality), i.e. a fourth induction of
    the size of `inv_run` with related frames — not done.  The hand models of the navigation primitives
    (`prims_forwardSearch`, `prims_areNextTypesIgnWs`, …) are the base cases such a lift would use. -/
def LayoutBlindCall (S : Sys) (p : Classify.CTok → Bool) (f : Nat) : Prop :=
  ∀ (n : Nat) (st st' : State) (i i' : Nat),
    view p st.toks.toList = view p st'.toks.toList →
    rank p st.toks.toList i = rank p st'.toks.toList i' →
    st.frame = st'.frame → st.heap = st'.heap → st.globals = st'.globals →
    let r := (run S n).call f [.int i, .toks] st
    let r' := (run S n).call f [.int i', .toks] st'
    view p r.2.toks.toList = view p r'.2.toks.toList ∧
    (∀ j j', r.1 = .ok (.int j) → r'.1 = .ok (.int j') → rank p r.2.toks.toList j.toNat = rank p r'.2.toks.toList j'.toNat)

/-- **read, partial**: at corresponding positions that both point at a kept token, `lObjects[k]` and `lObjects[k']`
    are the same token -/
theorem prog_read_layout_partial (p : Classify.CTok → Bool) (st st' : State) (k k' : Nat) (h : Corr p st st' k k') :
    st.toks[k]? = st'.toks[k']? := read_layout p st st' k k' h

/-- **store, partial**: the only store the value fragment admits (`toksSet`, reached through the fused `retag`), applied
    at corresponding positions with the same kept token, keeps the views equal and every rank unchanged — so all
    positions that corresponded before the store correspond after it -/
theorem prog_store_layout_partial (p : Classify.CTok → Bool) (st st' : State) (k k' : Nat) (t : Classify.CTok)
    (h : Corr p st st' k k') (hpt : p t = true) :
    view p (toksSet k t st).2.toks.toList = view p (toksSet k' t st').2.toks.toList
    ∧ (∀ j, rank p (toksSet k t st).2.toks.toList j = rank p st.toks.toList j)
    ∧ (∀ j, rank p (toksSet k' t st').2.toks.toList j = rank p st'.toks.toList j) :=
  store_layout p st st' k k' t h hpt

/-- candidates for the fragment "touches the token list only through calls of the navigation / assignment helpers":
    the functions of the generated table without any subscript, fused store or `pop` of their own — 467 of 549 (the 82
    others are listed by name in `C19.progIndexSites`) -/
theorem progTable_nav_candidates :
    (failingNames Chk.noIndex Gen.Prog.progTable).length = 82 ∧ Gen.Prog.progTable.length = 549 := by decide +kernel

/-- non-vacuity: `a ; b` and `a <ws> ; b` (class 51 = white space is not kept): position 1 of the first and position 2
    of the second correspond -/
example :
    let keep : Classify.CTok → Bool := fun t => t.cls != 51
    let a : Classify.CTok := { cls := 24, val := ['a'], lower := ['a'] }
    let s : Classify.CTok := { cls := 24, val := [';'], lower := [';'] }
    let w : Classify.CTok := { cls := 51, val := [' '], lower := [' '] }
    let st : State := { toks := #[a, s, a] }
    let st' : State := { toks := #[a, w, s, a] }
    view keep st.toks.toList = view keep st'.toks.toList ∧ rank keep st.toks.toList 1 = rank keep st'.toks.toList 2
      ∧ st.toks[1]? = st'.toks[2]? := by decide +kernel

end Vsgm.C05
-- <<< WP1b layer P

-- >>> WP1c layer P: the interpreted helpers of utils.py ARE the hand models of Classify/Prims.lean
namespace Vsgm.C05
open Vsgm Vsgm.Classify Vsgm.Prog

/-! The generated table contains, under these NAMES, exactly the bodies the theorems of `Lemmas/ProgPrims.lean`
    execute symbolically (checked by `rfl`; positions are found by name, no position is written down).  A change of
    one of these function bodies in `/repo/vsg/vhdlFile/utils.py` breaks the corresponding theorem here. -/

abbrev genFuns : List FunDef := Gen.Prog.progTable.map (·.2)

theorem progTable_find_next_token : ∃ k, funIdx "utils.find_next_token" Gen.Prog.progTable = some k
    ∧ genFuns[k]? = some (findNextTokenDef Gen.idx_parser_item) := ⟨_, by rfl, rfl⟩

theorem progTable_object_value_is : ∃ k, funIdx "utils.object_value_is" Gen.Prog.progTable = some k
    ∧ genFuns[k]? = some objectValueIsDef := ⟨_, by rfl, rfl⟩

theorem progTable_is_next_token : ∃ k kF kO, funIdx "utils.is_next_token" Gen.Prog.progTable = some k
    ∧ funIdx "utils.find_next_token" Gen.Prog.progTable = some kF
    ∧ funIdx "utils.object_value_is" Gen.Prog.progTable = some kO
    ∧ genFuns[k]? = some (isNextTokenDef kF kO) := ⟨_, _, _, by rfl, by rfl, by rfl, rfl⟩

theorem progTable_assign_next_token : ∃ k kF, funIdx "utils.assign_next_token" Gen.Prog.progTable = some k
    ∧ funIdx "utils.find_next_token" Gen.Prog.progTable = some kF
    ∧ genFuns[k]? = some (assignNextTokenDef kF) := ⟨_, _, by rfl, by rfl, rfl⟩

theorem progTable_assign_next_token_if : ∃ k kF kO, funIdx "utils.assign_next_token_if" Gen.Prog.progTable = some k
    ∧ funIdx "utils.find_next_token" Gen.Prog.progTable = some kF
    ∧ funIdx "utils.object_value_is" Gen.Prog.progTable = some kO
    ∧ genFuns[k]? = some (assignNextTokenIfDef kF kO) := ⟨_, _, _, by rfl, by rfl, by rfl, rfl⟩

theorem progTable_assign_next_token_if_not : ∃ k kF kO, funIdx "utils.assign_next_token_if_not" Gen.Prog.progTable = some k
    ∧ funIdx "utils.find_next_token" Gen.Prog.progTable = some kF
    ∧ funIdx "utils.object_value_is" Gen.Prog.progTable = some kO
    ∧ genFuns[k]? = some (assignNextTokenIfNotDef kF kO) := ⟨_, _, _, by rfl, by rfl, by rfl, rfl⟩

theorem progTable_assign_next_token_required : ∃ k kF kO kE,
    funIdx "utils.assign_next_token_required" Gen.Prog.progTable = some k
    ∧ funIdx "utils.find_next_token" Gen.Prog.progTable = some kF
    ∧ funIdx "utils.object_value_is" Gen.Prog.progTable = some kO
    ∧ funIdx "utils.print_error_message" Gen.Prog.progTable = some kE
    ∧ genFuns[k]? = some (assignNextTokenRequiredDef kF kO kE) := ⟨_, _, _, _, by rfl, by rfl, by rfl, by rfl, rfl⟩

/-- a system whose program table is the generated one and whose `parser.item` is the generated class index -/
structure GenSys (S : Sys) (T : ClassTables) : Prop where
  funs : S.funs = genFuns.toArray
  item : T.item = Gen.idx_parser_item

theorem GenSys.get {S : Sys} {T : ClassTables} (h : GenSys S T) (k : Nat) : S.funs[k]? = genFuns[k]? := by
  rw [h.funs]; simp

theorem GenSys.find {S : Sys} {T : ClassTables} (h : GenSys S T) {k : Nat}
    (hk : funIdx "utils.find_next_token" Gen.Prog.progTable = some k) : S.funs[k]? = some (findNextTokenDef T.item) := by
  obtain ⟨k', h1, h2⟩ := progTable_find_next_token
  rw [h1] at hk; cases hk
  rw [h.get, h2, h.item]

theorem GenSys.ovi {S : Sys} {T : ClassTables} (h : GenSys S T) {k : Nat}
    (hk : funIdx "utils.object_value_is" Gen.Prog.progTable = some k) : S.funs[k]? = some objectValueIsDef := by
  obtain ⟨k', h1, h2⟩ := progTable_object_value_is
  rw [h1] at hk; cases hk
  rw [h.get, h2]

/-- **translated `utils.find_next_token` = hand model `findNextToken`** -/
theorem prog_find_next_token (S : Sys) (T : ClassTables) (hG : GenSys S T) (k : Nat)
    (hk : funIdx "utils.find_next_token" Gen.Prog.progTable = some k) (m i : Nat) (st : State)
    (hfuel : st.toks.size < m + 4) (hsteps : st.steps + st.toks.size + 1 < S.maxSteps) (hdepth : st.depth < S.maxDepth) :
    ∃ st', (run S (m + 6)).call k [.int i, .toks] st = (.ok (.int (findNextToken T i st.toks.toList : Nat)), st')
      ∧ SameButCounters st st' :=
  let ⟨st', h, hs, _⟩ := call_find_next_token S T k m i st (hG.find hk) hfuel hsteps hdepth
  ⟨st', h, hs⟩

/-- **translated `utils.object_value_is` = hand model `objectValueIs`** -/
theorem prog_object_value_is (S : Sys) (T : ClassTables) (hG : GenSys S T) (k : Nat)
    (hk : funIdx "utils.object_value_is" Gen.Prog.progTable = some k) (m i : Nat) (s : Str) (st : State)
    (hsteps : st.steps < S.maxSteps) (hdepth : st.depth < S.maxDepth) :
    ∃ st', (run S (m + 6)).call k [.toks, .int i, .str s] st = (boolRes (objectValueIs st.toks.toList i (S.lowerS s)), st')
      ∧ SameButCounters st st' :=
  let ⟨st', h, hs, _⟩ := call_object_value_is S k m i s st (hG.ovi hk) hsteps hdepth
  ⟨st', h, hs⟩

/-- **translated `utils.is_next_token` = hand model `isNextToken`** -/
theorem prog_is_next_token (S : Sys) (T : ClassTables) (hG : GenSys S T) (k : Nat)
    (hk : funIdx "utils.is_next_token" Gen.Prog.progTable = some k) (m i : Nat) (s : Str) (st : State)
    (hfuel : st.toks.size < m + 4) (hsteps : st.steps + st.toks.size + 4 < S.maxSteps) (hdepth : st.depth + 1 < S.maxDepth) :
    ∃ st', (run S (m + 9)).call k [.str s, .int i, .toks] st = (boolRes (isNextToken T (S.lowerS s) i st.toks.toList), st')
      ∧ st'.toks = st.toks ∧ st'.frame = st.frame ∧ st'.depth = st.depth ∧ st'.heap = st.heap := by
  obtain ⟨k', kF, kO, h1, h2, h3, hb⟩ := progTable_is_next_token
  rw [h1] at hk; cases hk
  obtain ⟨st', h, a, b, c, d, _⟩ := call_is_next_token S T k kF kO m i s st (by rw [hG.get, hb]) (hG.find h2) (hG.ovi h3)
    hfuel hsteps hdepth
  exact ⟨st', h, a, b, c, d⟩

/-- **translated `utils.assign_next_token`**: re-tags the next raw item with `token(value)` (falling back to `token()` on
    TypeError) and returns the index after it — `assignNextTokenSpec`, i.e. `Classify.assignNextToken` with the
    constructor behaviour of the class table; on an exception the token list is untouched -/
theorem prog_assign_next_token (S : Sys) (T : ClassTables) (hG : GenSys S T) (k : Nat)
    (hk : funIdx "utils.assign_next_token" Gen.Prog.progTable = some k) (m c i : Nat) (st : State)
    (hfuel : st.toks.size < m + 4) (hsteps : st.steps + st.toks.size + 4 < S.maxSteps) (hdepth : st.depth + 1 < S.maxDepth) :
    ∃ st', (run S (m + 9)).call k [.cls c, .int i, .toks] st = (specVal (assignNextTokenSpec S T c i st.toks), st')
      ∧ st'.toks = specToks st.toks (assignNextTokenSpec S T c i st.toks)
      ∧ st'.frame = st.frame ∧ st'.depth = st.depth ∧ st'.heap = st.heap := by
  obtain ⟨k', kF, h1, h2, hb⟩ := progTable_assign_next_token
  rw [h1] at hk; cases hk
  obtain ⟨st', h, a, b, c', d, _⟩ := call_assign_next_token S T k kF m c i st (by rw [hG.get, hb]) (hG.find h2)
    hfuel hsteps hdepth
  exact ⟨st', h, a, b, c', d⟩

/-- **translated `utils.assign_next_token_if`** = `assignIfSpec … false` -/
theorem prog_assign_next_token_if (S : Sys) (T : ClassTables) (hG : GenSys S T) (k : Nat)
    (hk : funIdx "utils.assign_next_token_if" Gen.Prog.progTable = some k) (m c i : Nat) (s : Str) (st : State)
    (hfuel : st.toks.size < m + 4) (hsteps : st.steps + st.toks.size + 5 < S.maxSteps) (hdepth : st.depth + 1 < S.maxDepth) :
    ∃ st', (run S (m + 10)).call k [.str s, .cls c, .int i, .toks] st = (specVal (assignIfSpec S T false s c i st.toks), st')
      ∧ st'.toks = specToks st.toks (assignIfSpec S T false s c i st.toks)
      ∧ st'.frame = st.frame ∧ st'.depth = st.depth ∧ st'.heap = st.heap := by
  obtain ⟨k', kF, kO, h1, h2, h3, hb⟩ := progTable_assign_next_token_if
  rw [h1] at hk; cases hk
  obtain ⟨st', h, a, b, c', d, _⟩ := call_assign_next_token_if S T k kF kO m c i s st (by rw [hG.get, hb]) (hG.find h2)
    (hG.ovi h3) hfuel hsteps hdepth
  exact ⟨st', h, a, b, c', d⟩

/-- **translated `utils.assign_next_token_if_not`** = `assignIfSpec … true` -/
theorem prog_assign_next_token_if_not (S : Sys) (T : ClassTables) (hG : GenSys S T) (k : Nat)
    (hk : funIdx "utils.assign_next_token_if_not" Gen.Prog.progTable = some k) (m c i : Nat) (s : Str) (st : State)
    (hfuel : st.toks.size < m + 4) (hsteps : st.steps + st.toks.size + 5 < S.maxSteps) (hdepth : st.depth + 1 < S.maxDepth) :
    ∃ st', (run S (m + 10)).call k [.str s, .cls c, .int i, .toks] st = (specVal (assignIfSpec S T true s c i st.toks), st')
      ∧ st'.toks = specToks st.toks (assignIfSpec S T true s c i st.toks)
      ∧ st'.frame = st.frame ∧ st'.depth = st.depth ∧ st'.heap = st.heap := by
  obtain ⟨k', kF, kO, h1, h2, h3, hb⟩ := progTable_assign_next_token_if_not
  rw [h1] at hk; cases hk
  obtain ⟨st', h, a, b, c', d, _⟩ := call_assign_next_token_if_not S T k kF kO m c i s st (by rw [hG.get, hb]) (hG.find h2)
    (hG.ovi h3) hfuel hsteps hdepth
  exact ⟨st', h, a, b, c', d⟩

/-- **translated `utils.assign_next_token_required`**, all cases that do not call `print_error_message` (required value
    found: re-tag and advance; no next item: the IndexError of `object_value_is`) -/
theorem prog_assign_next_token_required (S : Sys) (T : ClassTables) (hG : GenSys S T) (k : Nat)
    (hk : funIdx "utils.assign_next_token_required" Gen.Prog.progTable = some k) (m c i : Nat) (s : Str) (st : State)
    (hfuel : st.toks.size < m + 4) (hsteps : st.steps + st.toks.size + 5 < S.maxSteps) (hdepth : st.depth + 1 < S.maxDepth)
    (hreq : objectValueIs st.toks.toList (findNextToken T i st.toks.toList) (S.lowerS s) ≠ .ok false) :
    ∃ st', (run S (m + 10)).call k [.str s, .cls c, .int i, .toks] st = (specVal (assignIfSpec S T false s c i st.toks), st')
      ∧ st'.toks = specToks st.toks (assignIfSpec S T false s c i st.toks)
      ∧ st'.frame = st.frame ∧ st'.depth = st.depth ∧ st'.heap = st.heap := by
  obtain ⟨k', kF, kO, kE, h1, h2, h3, _, hb⟩ := progTable_assign_next_token_required
  rw [h1] at hk; cases hk
  obtain ⟨st', h, a, b, c', d, _⟩ := call_assign_next_token_required S T k kF kO kE m c i s st (by rw [hG.get, hb])
    (hG.find h2) (hG.ovi h3) hfuel hsteps hdepth hreq
  exact ⟨st', h, a, b, c', d⟩

/-- **layout blindness of the TRANSLATED `find_next_token`** (`prims_forwardSearch` is now a statement about the
    generated code): on two states whose token lists have the same raw-item view, called at corresponding positions,
    the interpreted function returns corresponding positions, and these point at the same raw item -/
theorem prog_find_next_token_layout (S : Sys) (T : ClassTables) (hG : GenSys S T) (k : Nat)
    (hk : funIdx "utils.find_next_token" Gen.Prog.progTable = some k) (m i j : Nat) (st st' : State)
    (hv : view (isRaw T) st.toks.toList = view (isRaw T) st'.toks.toList)
    (hr : rank (isRaw T) st.toks.toList i = rank (isRaw T) st'.toks.toList j)
    (hfuel : st.toks.size < m + 4) (hsteps : st.steps + st.toks.size + 1 < S.maxSteps) (hdepth : st.depth < S.maxDepth)
    (hfuel' : st'.toks.size < m + 4) (hsteps' : st'.steps + st'.toks.size + 1 < S.maxSteps) (hdepth' : st'.depth < S.maxDepth) :
    ∃ (p q : Nat) (s1 s1' : State),
      (run S (m + 6)).call k [.int i, .toks] st = (.ok (.int p), s1) ∧
      (run S (m + 6)).call k [.int j, .toks] st' = (.ok (.int q), s1') ∧
      rank (isRaw T) st.toks.toList p = rank (isRaw T) st'.toks.toList q ∧
      (st.toks.toList[p]?).filter (isRaw T) = (st'.toks.toList[q]?).filter (isRaw T) ∧
      s1.toks = st.toks ∧ s1'.toks = st'.toks := by
  obtain ⟨s1, h1, hs1⟩ := prog_find_next_token S T hG k hk m i st hfuel hsteps hdepth
  obtain ⟨s1', h1', hs1'⟩ := prog_find_next_token S T hG k hk m j st' hfuel' hsteps' hdepth'
  have := prims_forwardSearch (isRaw T) st.toks.toList st'.toks.toList i j hv hr
  rw [← (prims_findNext_are_forwardSearches T i st.toks.toList).1,
    ← (prims_findNext_are_forwardSearches T j st'.toks.toList).1] at this
  exact ⟨_, _, s1, s1', h1, h1', this.1, this.2, hs1.toks, hs1'.toks⟩

/-- **layout blindness of the TRANSLATED `is_next_token`** (through `prims_isNextToken_partial`): same answer at
    corresponding positions when a raw item follows -/
theorem prog_is_next_token_layout_partial (S : Sys) (T : ClassTables) (hG : GenSys S T) (k : Nat)
    (hk : funIdx "utils.is_next_token" Gen.Prog.progTable = some k) (m i j : Nat) (s : Str) (st st' : State)
    (hv : view (isRaw T) st.toks.toList = view (isRaw T) st'.toks.toList)
    (hr : rank (isRaw T) st.toks.toList i = rank (isRaw T) st'.toks.toList j)
    (hex : rank (isRaw T) st.toks.toList i < (view (isRaw T) st.toks.toList).length)
    (hfuel : st.toks.size < m + 4) (hsteps : st.steps + st.toks.size + 4 < S.maxSteps) (hdepth : st.depth + 1 < S.maxDepth)
    (hfuel' : st'.toks.size < m + 4) (hsteps' : st'.steps + st'.toks.size + 4 < S.maxSteps)
    (hdepth' : st'.depth + 1 < S.maxDepth) :
    ∃ (r : Except Err Val) (s1 s1' : State),
      (run S (m + 9)).call k [.str s, .int i, .toks] st = (r, s1) ∧
      (run S (m + 9)).call k [.str s, .int j, .toks] st' = (r, s1') ∧ s1.toks = st.toks ∧ s1'.toks = st'.toks := by
  obtain ⟨s1, h1, ht1, _⟩ := prog_is_next_token S T hG k hk m i s st hfuel hsteps hdepth
  obtain ⟨s1', h1', ht1', _⟩ := prog_is_next_token S T hG k hk m j s st' hfuel' hsteps' hdepth'
  have := prims_isNextToken_partial T (S.lowerS s) st.toks.toList st'.toks.toList i j hv hr hex
  rw [← this] at h1'
  exact ⟨_, s1, s1', h1, h1', ht1, ht1'⟩

/-- **layout blindness of the TRANSLATED `assign_next_token`**: on two states with the same raw-item view, called at
    corresponding positions in front of a raw item, the interpreted function ends in the same exception, or re-tags
    "the same" token: the new token lists again have the same raw-item view and the returned indices correspond -/
theorem prog_assign_next_token_layout_partial (S : Sys) (T : ClassTables) (hG : GenSys S T) (k : Nat)
    (hk : funIdx "utils.assign_next_token" Gen.Prog.progTable = some k) (m c i j : Nat) (st st' : State)
    (hv : view (isRaw T) st.toks.toList = view (isRaw T) st'.toks.toList)
    (hr : rank (isRaw T) st.toks.toList i = rank (isRaw T) st'.toks.toList j)
    (hex : rank (isRaw T) st.toks.toList i < (view (isRaw T) st.toks.toList).length)
    (hfuel : st.toks.size < m + 4) (hsteps : st.steps + st.toks.size + 4 < S.maxSteps) (hdepth : st.depth + 1 < S.maxDepth)
    (hfuel' : st'.toks.size < m + 4) (hsteps' : st'.steps + st'.toks.size + 4 < S.maxSteps)
    (hdepth' : st'.depth + 1 < S.maxDepth) :
    ∃ (r r' : Except Err (Array CTok × Nat)) (s1 s1' : State),
      (run S (m + 9)).call k [.cls c, .int i, .toks] st = (specVal r, s1) ∧
      (run S (m + 9)).call k [.cls c, .int j, .toks] st' = (specVal r', s1') ∧
      s1.toks = specToks st.toks r ∧ s1'.toks = specToks st'.toks r' ∧ SpecRel T r r' := by
  obtain ⟨s1, h1, ht1, _⟩ := prog_assign_next_token S T hG k hk m c i st hfuel hsteps hdepth
  obtain ⟨s1', h1', ht1', _⟩ := prog_assign_next_token S T hG k hk m c j st' hfuel' hsteps' hdepth'
  exact ⟨_, _, s1, s1', h1, h1', ht1, ht1', assignNextTokenSpec_layout S T c i j st.toks st'.toks hv hr hex⟩

/-- the same for `assign_next_token_if` -/
theorem prog_assign_next_token_if_layout_partial (S : Sys) (T : ClassTables) (hG : GenSys S T) (k : Nat)
    (hk : funIdx "utils.assign_next_token_if" Gen.Prog.progTable = some k) (m c i j : Nat) (s : Str) (st st' : State)
    (hv : view (isRaw T) st.toks.toList = view (isRaw T) st'.toks.toList)
    (hr : rank (isRaw T) st.toks.toList i = rank (isRaw T) st'.toks.toList j)
    (hex : rank (isRaw T) st.toks.toList i < (view (isRaw T) st.toks.toList).length)
    (hfuel : st.toks.size < m + 4) (hsteps : st.steps + st.toks.size + 5 < S.maxSteps) (hdepth : st.depth + 1 < S.maxDepth)
    (hfuel' : st'.toks.size < m + 4) (hsteps' : st'.steps + st'.toks.size + 5 < S.maxSteps)
    (hdepth' : st'.depth + 1 < S.maxDepth) :
    ∃ (r r' : Except Err (Array CTok × Nat)) (s1 s1' : State),
      (run S (m + 10)).call k [.str s, .cls c, .int i, .toks] st = (specVal r, s1) ∧
      (run S (m + 10)).call k [.str s, .cls c, .int j, .toks] st' = (specVal r', s1') ∧
      s1.toks = specToks st.toks r ∧ s1'.toks = specToks st'.toks r' ∧ SpecRel T r r' := by
  obtain ⟨s1, h1, ht1, _⟩ := prog_assign_next_token_if S T hG k hk m c i s st hfuel hsteps hdepth
  obtain ⟨s1', h1', ht1', _⟩ := prog_assign_next_token_if S T hG k hk m c j s st' hfuel' hsteps' hdepth'
  exact ⟨_, _, s1, s1', h1, h1', ht1, ht1', assignIfSpec_layout S T false s c i j st.toks st'.toks hv hr hex⟩

/-- the same for `assign_next_token_if_not` -/
theorem prog_assign_next_token_if_not_layout_partial (S : Sys) (T : ClassTables) (hG : GenSys S T) (k : Nat)
    (hk : funIdx "utils.assign_next_token_if_not" Gen.Prog.progTable = some k) (m c i j : Nat) (s : Str) (st st' : State)
    (hv : view (isRaw T) st.toks.toList = view (isRaw T) st'.toks.toList)
    (hr : rank (isRaw T) st.toks.toList i = rank (isRaw T) st'.toks.toList j)
    (hex : rank (isRaw T) st.toks.toList i < (view (isRaw T) st.toks.toList).length)
    (hfuel : st.toks.size < m + 4) (hsteps : st.steps + st.toks.size + 5 < S.maxSteps) (hdepth : st.depth + 1 < S.maxDepth)
    (hfuel' : st'.toks.size < m + 4) (hsteps' : st'.steps + st'.toks.size + 5 < S.maxSteps)
    (hdepth' : st'.depth + 1 < S.maxDepth) :
    ∃ (r r' : Except Err (Array CTok × Nat)) (s1 s1' : State),
      (run S (m + 10)).call k [.str s, .cls c, .int i, .toks] st = (specVal r, s1) ∧
      (run S (m + 10)).call k [.str s, .cls c, .int j, .toks] st' = (specVal r', s1') ∧
      s1.toks = specToks st.toks r ∧ s1'.toks = specToks st'.toks r' ∧ SpecRel T r r' := by
  obtain ⟨s1, h1, ht1, _⟩ := prog_assign_next_token_if_not S T hG k hk m c i s st hfuel hsteps hdepth
  obtain ⟨s1', h1', ht1', _⟩ := prog_assign_next_token_if_not S T hG k hk m c j s st' hfuel' hsteps' hdepth'
  exact ⟨_, _, s1, s1', h1, h1', ht1, ht1', assignIfSpec_layout S T true s c i j st.toks st'.toks hv hr hex⟩

/-- **the navigation fragment, by name** (candidates for the lifting, NO lifting theorem): the largest set of functions
    of the generated table that touch the token list only through calls of the seven helpers above (`navBase`) or of
    each other, built from assignments of call results / variables / `x ± const`, if / while on such calls, return.
    The check says the set is closed; `./check PROG` reports how many of the executed functions are in it. -/
def progNavFragment : List String :=
  ["utils.assign_tokens_until", "utils.has_label", "utils.token_is_semicolon", "utils.token_is_comma",
   "utils.token_is_open_parenthesis", "utils.token_is_close_parenthesis", "utils.token_is_assignment_operator",
   "utils.increment_token_count", "utils.update_paren_counter", "utils.convert_yes_no_option_to_boolean",
   "classify.architecture_body.classify_opening_declaration",
   "classify.architecture_body.classify_closing_declaration",
   "classify.component_declaration.classify_opening_declaration",
   "classify.component_declaration.classify_closing_declaration", "classify.component_specification.classify",
   "classify.condition_clause.detect", "classify.configuration_declaration.classify_opening_declaration",
   "classify.configuration_declaration.classify_closing_declaration", "classify.entity_aspect.classify",
   "classify.entity_declaration.classify_opening_declaration",
   "classify.entity_declaration.classify_closing_declaration", "classify.enumeration_type_definition.detect",
   "classify.enumeration_type_definition.classify", "classify.force_mode.detect",
   "classify.group_constituent_list.classify", "classify.group_declaration.detect",
   "classify.group_declaration.classify", "classify.identifier.classify",
   "classify.incomplete_type_declaration.classify", "classify.instantiation_list.classify",
   "classify.interface_incomplete_type_declaration.detect",
   "classify.interface_incomplete_type_declaration.classify",
   "classify.interface_package_generic_map_aspect.classify", "classify.interface_type_declaration.detect",
   "classify.mode.classify", "classify.package_body.classify_opening_declaration",
   "classify.package_declaration.classify_opening_declaration",
   "classify.package_declaration.classify_closing_declaration",
   "classify.process_statement.classify_closing_declaration", "classify.psl_assert_directive.classify",
   "classify.psl_assume_directive.classify", "classify.psl_clock_declaration.classify",
   "classify.psl_cover_directive.classify", "classify.psl_fairness_statement.classify",
   "classify.psl_property_declaration.detect", "classify.psl_property_declaration.classify",
   "classify.psl_restrict_directive.classify", "classify.psl_restrict_n_directive.classify",
   "classify.psl_sequence_declaration.detect", "classify.psl_sequence_declaration.classify",
   "classify.psl_verification_unit.classify", "classify.range.token_is_matching_close_parenthesis",
   "classify.resolution_indication.classify_resolution_function_name",
   "classify.resolution_indication.detect_element_resolution", "classify.sensitivity_clause.detect",
   "classify.signal_kind.detect", "classify.signal_kind.classify",
   "classify.simple_release_assignment.classify", "classify.subprogram_kind.detect",
   "classify.subprogram_kind.classify", "classify.timeout_clause.detect"]

theorem progTable_nav_fragment : navClosed navBase progNavFragment Gen.Prog.progTable = true := by decide +kernel

/-- it is the LARGEST such set -/
theorem progTable_nav_fragment_largest : navFragmentNames Gen.Prog.progTable = progNavFragment := by decide +kernel

/-- non-vacuity: the running system's class tables and any `Sys` over the generated table form a `GenSys` -/
example (S : Sys) (h : S.funs = genFuns.toArray) : GenSys S pyClassTables := ⟨h, rfl⟩

end Vsgm.C05
-- <<< WP1c layer P

-- >>> WP1c layer P, stage 2: lifting for straight-line productions (chains)
namespace Vsgm.C05
open Vsgm Vsgm.Classify Vsgm.Prog

/-- the helper positions of the generated table, by name -/
abbrev genSig : ChainSig := chainSigOf Gen.Prog.progTable

theorem genSys_tie (S : Sys) (T : ClassTables) (hG : GenSys S T) : ChainTie S T genSig := by
  obtain ⟨k1, a1, b1⟩ := progTable_find_next_token
  obtain ⟨k2, a2, b2⟩ := progTable_object_value_is
  obtain ⟨k3, kF3, a3, f3, b3⟩ := progTable_assign_next_token
  obtain ⟨k4, kF4, kO4, a4, f4, o4, b4⟩ := progTable_assign_next_token_if
  obtain ⟨k5, kF5, kO5, a5, f5, o5, b5⟩ := progTable_assign_next_token_if_not
  obtain ⟨k6, kF6, kO6, kE6, a6, f6, o6, e6, b6⟩ := progTable_assign_next_token_required
  rw [a1] at f3 f4 f5 f6; cases f3; cases f4; cases f5; cases f6
  rw [a2] at o4 o5 o6; cases o4; cases o5; cases o6
  have hF : genSig.kFind = k1 := by
    have : genSig.kFind = (funIdx "utils.find_next_token" Gen.Prog.progTable).getD 0 := rfl
    rw [this, a1]; rfl
  have hO : genSig.kOvi = k2 := by
    have : genSig.kOvi = (funIdx "utils.object_value_is" Gen.Prog.progTable).getD 0 := rfl
    rw [this, a2]; rfl
  have hA : genSig.kAnt = k3 := by
    have : genSig.kAnt = (funIdx "utils.assign_next_token" Gen.Prog.progTable).getD 0 := rfl
    rw [this, a3]; rfl
  have hI : genSig.kIf = k4 := by
    have : genSig.kIf = (funIdx "utils.assign_next_token_if" Gen.Prog.progTable).getD 0 := rfl
    rw [this, a4]; rfl
  have hN : genSig.kIfNot = k5 := by
    have : genSig.kIfNot = (funIdx "utils.assign_next_token_if_not" Gen.Prog.progTable).getD 0 := rfl
    rw [this, a5]; rfl
  have hR : genSig.kReq = k6 := by
    have : genSig.kReq = (funIdx "utils.assign_next_token_required" Gen.Prog.progTable).getD 0 := rfl
    rw [this, a6]; rfl
  have hE : genSig.kErr = kE6 := by
    have : genSig.kErr = (funIdx "utils.print_error_message" Gen.Prog.progTable).getD 0 := rfl
    rw [this, e6]; rfl
  exact
    { find := by rw [hF, hG.get, b1, hG.item]
      ovi := by rw [hO, hG.get, b2]
      ant := by rw [hA, hF, hG.get, b3]
      aif := by rw [hI, hF, hO, hG.get, b4]
      aifnot := by rw [hN, hF, hO, hG.get, b5]
      areq := by rw [hR, hF, hO, hE, hG.get, b6] }

/-- **lifting, partial (chains)**: for EVERY function of the generated table that the syntactic decoder recognises as
    a chain (`iCurrent = utils.assign_next_token…(…)` repeated, `return iCurrent`), the interpreted call computes the fold
    of the helpers' specifications — generic over the chain, by induction over its steps -/
theorem prog_chain_call_partial (S : Sys) (T : ClassTables) (hG : GenSys S T) (k : Nat) (fd : FunDef) (steps : List Step)
    (hk : genFuns[k]? = some fd) (hd : decodeChain genSig fd = some steps) (m i : Nat) (st : State)
    (hfuel : st.toks.size < m + 4) (hsteps : st.steps + steps.length * (st.toks.size + 5) + 2 < S.maxSteps)
    (hdepth : st.depth + 2 < S.maxDepth) (hreq : ReqOk S T steps (st.toks, i)) :
    ∃ st', (run S (m + 13)).call k [.int i, .toks] st = (chainRes (chainSpec S T steps (st.toks, i)), st')
      ∧ st'.toks = chainToks S T steps (st.toks, i) ∧ st'.frame = st.frame ∧ st'.depth = st.depth ∧ st'.heap = st.heap :=
  call_chain S T genSig (genSys_tie S T hG) k m steps (by rw [hG.get, hk, decodeChain_sound genSig fd steps hd]) i st
    hfuel hsteps hdepth hreq

/-- **layout blindness, partial (chains)**: two calls of the same chain on states with the same raw-item view, at
    corresponding positions, a raw item in front of every step reached and no `required` step failing: same exception,
    or token lists with the same raw-item view and corresponding returned indices.  This is `LayoutBlindCall` for the
    chains (with `view`/`rank` of raw items), resources assumed sufficient. -/
theorem prog_chain_layout_partial (S : Sys) (T : ClassTables) (hG : GenSys S T) (k : Nat) (fd : FunDef) (steps : List Step)
    (hk : genFuns[k]? = some fd) (hd : decodeChain genSig fd = some steps) (m i j : Nat) (st st' : State)
    (hv : view (isRaw T) st.toks.toList = view (isRaw T) st'.toks.toList)
    (hr : rank (isRaw T) st.toks.toList i = rank (isRaw T) st'.toks.toList j)
    (hfol : Follows S T steps (st.toks, i))
    (hfuel : st.toks.size < m + 4) (hsteps : st.steps + steps.length * (st.toks.size + 5) + 2 < S.maxSteps)
    (hdepth : st.depth + 2 < S.maxDepth) (hreq : ReqOk S T steps (st.toks, i))
    (hfuel' : st'.toks.size < m + 4) (hsteps' : st'.steps + steps.length * (st'.toks.size + 5) + 2 < S.maxSteps)
    (hdepth' : st'.depth + 2 < S.maxDepth) (hreq' : ReqOk S T steps (st'.toks, j)) :
    ∃ (r r' : Except Err (Array CTok × Nat)) (s1 s1' : State),
      (run S (m + 13)).call k [.int i, .toks] st = (chainRes r, s1) ∧
      (run S (m + 13)).call k [.int j, .toks] st' = (chainRes r', s1') ∧ SpecRel T r r' := by
  obtain ⟨s1, h1, _⟩ := prog_chain_call_partial S T hG k fd steps hk hd m i st hfuel hsteps hdepth hreq
  obtain ⟨s1', h1', _⟩ := prog_chain_call_partial S T hG k fd steps hk hd m j st' hfuel' hsteps' hdepth' hreq'
  exact ⟨_, _, s1, s1', h1, h1', chainSpec_layout S T steps st.toks st'.toks i j hv hr hfol⟩

/-- the chains of the generated table, by name -/
def progChains : List String :=
  ["classify.architecture_body.classify_opening_declaration",
   "classify.architecture_body.classify_closing_declaration",
   "classify.component_declaration.classify_opening_declaration",
   "classify.component_declaration.classify_closing_declaration",
   "classify.configuration_declaration.classify_opening_declaration",
   "classify.configuration_declaration.classify_closing_declaration",
   "classify.entity_declaration.classify_opening_declaration",
   "classify.entity_declaration.classify_closing_declaration", "classify.force_mode.detect",
   "classify.mode.classify", "classify.package_body.classify_opening_declaration",
   "classify.package_declaration.classify_opening_declaration",
   "classify.process_statement.classify_closing_declaration"]

theorem progTable_chains : chainNames Gen.Prog.progTable = progChains := by decide +kernel

set_option maxRecDepth 20000 in
/-- non-vacuity: `architecture_body.classify_opening_declaration` decodes to the five steps of
    `architecture identifier of entity_name is` -/
example : ∃ k fd steps, funIdx "classify.architecture_body.classify_opening_declaration" Gen.Prog.progTable = some k
    ∧ genFuns[k]? = some fd ∧ decodeChain genSig fd = some steps ∧ steps.length = 5 :=
  ⟨_, _, _, by rfl, by rfl, by rfl, by rfl⟩

end Vsgm.C05
-- <<< WP1c layer P, stage 2

-- >>> WP1d layer P: lifting for chains WITH conditionals on utils.is_next_token
namespace Vsgm.C05
open Vsgm Vsgm.Classify Vsgm.Prog

abbrev genIs : Nat := isNextIdx Gen.Prog.progTable

theorem genSys_isNext (S : Sys) (T : ClassTables) (hG : GenSys S T) :
    S.funs[genIs]? = some (isNextTokenDef genSig.kFind genSig.kOvi) := by
  obtain ⟨k, kF, kO, a, f, o, b⟩ := progTable_is_next_token
  have hI : genIs = k := by
    have : genIs = (funIdx "utils.is_next_token" Gen.Prog.progTable).getD 0 := rfl
    rw [this, a]; rfl
  have hF : genSig.kFind = kF := by
    have : genSig.kFind = (funIdx "utils.find_next_token" Gen.Prog.progTable).getD 0 := rfl
    rw [this, f]; rfl
  have hO : genSig.kOvi = kO := by
    have : genSig.kOvi = (funIdx "utils.object_value_is" Gen.Prog.progTable).getD 0 := rfl
    rw [this, o]; rfl
  rw [hI, hF, hO, hG.get, b]

/-- **lifting, partial (chains with conditionals)**: for EVERY function of the generated table that the decoder recognises
    as `iCurrent = iToken / helper(…)`, `if [not] utils.is_next_token("x", iCurrent, lObjects): … [else: …]` (nested),
    `return iCurrent`, the interpreted call computes `icmdSpec`: the fold of the helpers' specifications, every branch
    chosen by the hand model `isNextToken` — generic over the program, by induction on its structure -/
theorem prog_ifchain_call_partial (S : Sys) (T : ClassTables) (hG : GenSys S T) (k : Nat) (fd : FunDef) (c : ICmd)
    (hk : genFuns[k]? = some fd) (hd : decodeIfChain genSig genIs fd = some c) (L i : Nat) (st : State)
    (hfuel : st.toks.size + c.depth < L + 4) (hL : c.depth ≤ L)
    (hsteps : st.steps + c.cost * (st.toks.size + 5) + 2 < S.maxSteps)
    (hdepth : st.depth + 2 < S.maxDepth) (hreq : IReq S T c (st.toks, i)) :
    ∃ st', (run S (L + 13)).call k [.int i, .toks] st = (icmdRes (icmdSpec S T c (st.toks, i)), st')
      ∧ st'.frame = st.frame ∧ st'.depth = st.depth
      ∧ (∀ b a n, icmdSpec S T c (st.toks, i) = .ok (b, (a, n)) → st'.toks = a) := by
  obtain ⟨hfd, hwf⟩ := decodeIfChain_sound genSig genIs fd c hd
  exact call_ifchain S T genSig (genSys_tie S T hG) genIs (genSys_isNext S T hG) k L c (by rw [hG.get, hk, hfd]) hwf i st
    hfuel hL hsteps hdepth hreq

/-- **layout blindness, partial (chains with conditionals)**: two calls of the same such function on states with the same
    raw-item view at corresponding positions take the SAME branches and end in the same exception, or in token lists with
    the same raw-item view and corresponding returned indices (`IRel`) — `LayoutBlindCall` for this fragment (view / rank
    of raw items; a raw item in front of every helper step and condition reached; no `required` step failing;
    resources sufficient) -/
theorem prog_ifchain_layout_partial (S : Sys) (T : ClassTables) (hG : GenSys S T) (k : Nat) (fd : FunDef) (c : ICmd)
    (hk : genFuns[k]? = some fd) (hd : decodeIfChain genSig genIs fd = some c) (L i j : Nat) (st st' : State)
    (hv : view (isRaw T) st.toks.toList = view (isRaw T) st'.toks.toList)
    (hr : rank (isRaw T) st.toks.toList i = rank (isRaw T) st'.toks.toList j)
    (hfol : IFol S T c (st.toks, i))
    (hfuel : st.toks.size + c.depth < L + 4) (hL : c.depth ≤ L)
    (hsteps : st.steps + c.cost * (st.toks.size + 5) + 2 < S.maxSteps)
    (hdepth : st.depth + 2 < S.maxDepth) (hreq : IReq S T c (st.toks, i))
    (hfuel' : st'.toks.size + c.depth < L + 4)
    (hsteps' : st'.steps + c.cost * (st'.toks.size + 5) + 2 < S.maxSteps)
    (hdepth' : st'.depth + 2 < S.maxDepth) (hreq' : IReq S T c (st'.toks, j)) :
    ∃ (r r' : Except Err (Bool × Cfg)) (s1 s1' : State),
      (run S (L + 13)).call k [.int i, .toks] st = (icmdRes r, s1) ∧
      (run S (L + 13)).call k [.int j, .toks] st' = (icmdRes r', s1') ∧ IRel T r r' := by
  obtain ⟨s1, h1, _⟩ := prog_ifchain_call_partial S T hG k fd c hk hd L i st hfuel hL hsteps hdepth hreq
  obtain ⟨s1', h1', _⟩ := prog_ifchain_call_partial S T hG k fd c hk hd L j st' hfuel' hL hsteps' hdepth' hreq'
  exact ⟨_, _, s1, s1', h1, h1', icmdSpec_layout S T c (st.toks, i) (st'.toks, j) hv hr hfol⟩

/-- the chains with conditionals of the generated table, by name.  It is ONE function: every other production with an
    `if utils.is_next_token(…)` also calls another production (`process_sensitivity_list.classify`, `expression.classify_until`,
    `utils.tokenize_label`, …) inside or around the conditional and is therefore outside the fragment -/
def progIfChains : List String := ["classify.entity_aspect.classify"]

theorem progTable_ifchains : ifChainNames Gen.Prog.progTable = progIfChains := by decide +kernel

set_option maxRecDepth 20000 in
/-- non-vacuity: `entity_aspect.classify` decodes (`iCurrent = iToken`, then `open` / `configuration` / `entity`
    nested three deep with an optional `( architecture )`) -/
example : ∃ k fd c, funIdx "classify.entity_aspect.classify" Gen.Prog.progTable = some k
    ∧ genFuns[k]? = some fd ∧ decodeIfChain genSig genIs fd = some c ∧ c.hasIte = true ∧ c.depth = 4 :=
  ⟨_, _, _, by rfl, by rfl, by rfl, by rfl, by rfl⟩

end Vsgm.C05
-- <<< WP1d layer P

-- >>> WP1d layer P, detectors
namespace Vsgm.C05
open Vsgm Vsgm.Classify Vsgm.Prog

/-- **lifting, partial (detectors)**: every function of the generated table of the shape
    `if utils.is_next_token("x", iToken, lObjects): return True` (repeated) `return False` computes `detectSpec` -/
theorem prog_detect_call_partial (S : Sys) (T : ClassTables) (hG : GenSys S T) (k : Nat) (fd : FunDef) (strs : List Str)
    (hk : genFuns[k]? = some fd) (hd : decodeDetectFun genIs fd = some strs) (m i : Nat) (st : State)
    (hfuel : st.toks.size < m + 4) (hsteps : st.steps + strs.length * (st.toks.size + 5) + 2 < S.maxSteps)
    (hdepth : st.depth + 2 < S.maxDepth) :
    ∃ st', (run S (m + 12)).call k [.int i, .toks] st = (boolRes (detectSpec S T strs i st.toks.toList), st')
      ∧ st'.toks = st.toks ∧ st'.frame = st.frame ∧ st'.depth = st.depth :=
  call_detect S T genIs genSig.kFind genSig.kOvi (genSys_isNext S T hG) (genSys_tie S T hG).find (genSys_tie S T hG).ovi k m strs
    (by rw [hG.get, hk, decodeDetectFun_sound genIs fd strs hd]) i st hfuel hsteps hdepth

/-- **layout blindness, partial (detectors)**: the same answer (or the same exception) at corresponding positions of two
    token lists with the same raw-item view, in front of a raw item; the token lists are untouched -/
theorem prog_detect_layout_partial (S : Sys) (T : ClassTables) (hG : GenSys S T) (k : Nat) (fd : FunDef) (strs : List Str)
    (hk : genFuns[k]? = some fd) (hd : decodeDetectFun genIs fd = some strs) (m i j : Nat) (st st' : State)
    (hv : view (isRaw T) st.toks.toList = view (isRaw T) st'.toks.toList)
    (hr : rank (isRaw T) st.toks.toList i = rank (isRaw T) st'.toks.toList j)
    (hex : rank (isRaw T) st.toks.toList i < (view (isRaw T) st.toks.toList).length)
    (hfuel : st.toks.size < m + 4) (hsteps : st.steps + strs.length * (st.toks.size + 5) + 2 < S.maxSteps)
    (hdepth : st.depth + 2 < S.maxDepth)
    (hfuel' : st'.toks.size < m + 4) (hsteps' : st'.steps + strs.length * (st'.toks.size + 5) + 2 < S.maxSteps)
    (hdepth' : st'.depth + 2 < S.maxDepth) :
    ∃ (r : Except Err Val) (s1 s1' : State),
      (run S (m + 12)).call k [.int i, .toks] st = (r, s1) ∧
      (run S (m + 12)).call k [.int j, .toks] st' = (r, s1') ∧ s1.toks = st.toks ∧ s1'.toks = st'.toks := by
  obtain ⟨s1, h1, t1, _⟩ := prog_detect_call_partial S T hG k fd strs hk hd m i st hfuel hsteps hdepth
  obtain ⟨s1', h1', t1', _⟩ := prog_detect_call_partial S T hG k fd strs hk hd m j st' hfuel' hsteps' hdepth'
  rw [← detectSpec_layout S T strs st.toks.toList st'.toks.toList i j hv hr hex] at h1'
  exact ⟨_, s1, s1', h1, h1', t1, t1'⟩

/-- the detectors of the generated table, by name -/
def progDetectors : List String :=
  ["classify.condition_clause.detect", "classify.resolution_indication.detect_element_resolution",
   "classify.sensitivity_clause.detect", "classify.subprogram_kind.detect", "classify.timeout_clause.detect"]

theorem progTable_detectors : detectNames Gen.Prog.progTable = progDetectors := by decide +kernel

set_option maxRecDepth 20000 in
/-- non-vacuity: `subprogram_kind.detect` decodes to the two checks `procedure`, `function` -/
example : ∃ k fd strs, funIdx "classify.subprogram_kind.detect" Gen.Prog.progTable = some k
    ∧ genFuns[k]? = some fd ∧ decodeDetectFun genIs fd = some strs ∧ strs.length = 2 :=
  ⟨_, _, _, by rfl, by rfl, by rfl, by rfl⟩

end Vsgm.C05
-- <<< WP1d layer P, detectors
