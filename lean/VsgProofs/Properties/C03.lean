/-
  C03 — each phase only makes the kind of change it is documented to make.
  ONLY property theorems and their non-vacuity examples live here.
-/
import VsgModel.Engine.RuleRun
import VsgModel.Engine.Relations
import VsgModel.Check.Verdict
import VsgModel.Generated.Rules
import VsgProofs.Lemmas.Engine
import VsgProofs.Lemmas.BaseAlign
import VsgProofs.Lemmas.BaseLineStruct
import VsgModel.Base.Dispatch
import VsgProofs.Lemmas.BaseWsEffects
import VsgModel.Engine.PostPhase1
import VsgProofs.Lemmas.BaseIndent
import VsgProofs.Lemmas.BaseBlankLine
import VsgProofs.Lemmas.BaseBindDispatch
import VsgProofs.Lemmas.BaseBindEffects
import VsgProofs.Lemmas.PostPhase1
import VsgModel.Generated.CaseRules
import VsgProofs.Lemmas.BaseCaseTok
import VsgProofs.Lemmas.BaseCaseAscii
import VsgProofs.Lemmas.BaseStructDispatch
import VsgProofs.Lemmas.BaseMultiDispatch
import VsgProofs.Lemmas.BFull2Indent   -- wp2_bfull2
import VsgProofs.Lemmas.BFull2Affix   -- wp2b_affix
import VsgModel.Generated.BFull2Rules   -- wp2b_affix
import VsgProofs.Lemmas.BFull2IndentVar   -- wp2b_indent
namespace Vsgm.C03
open Vsgm

/-! ### engine: rules that must never change the file (any rule semantics) -/

/-- `fixable: false` / unfixable rules: `Rule.fix` is the identity and does not set
    had_violations, whatever the rule's analysis and `_fix_violation` are -/
theorem ruleFix_unfixable (r : RuleCfg) (sem : RuleSem) (fo : Option FixOnly) (f : List Tok)
    (h : r.fixable = false) : ruleFix r sem fo f = (f, false) := by
  simp [ruleFix, h]

/-- warning-type severities are only analysed inside `rule_list.fix` -/
theorem stepRule_warning (r : Rule) (fo : Option FixOnly) (st : List Tok × Bool)
    (h : r.1.sevError = false) : stepRule fo st r = st := by
  simp [stepRule, h]

/-- every rule `rule_list.fix` invokes is enabled, lies in a phase `1 … fixPhase` that is not
    skipped, and in a sub-phase `0 … 5` -/
theorem schedule_sound (rs : List Rule) (fixPhase : Nat) (skip : List Nat) (r : Rule)
    (h : some r ∈ schedule rs fixPhase skip) :
    r ∈ rs ∧ r.1.disabled = false ∧ (1 : Int) ≤ r.1.phase ∧ r.1.phase ≤ (fixPhase : Int) ∧
      (∀ p ∈ skip, (p : Int) ≠ r.1.phase) ∧ (0 : Int) ≤ r.1.subphase ∧ r.1.subphase ≤ 5 :=
  Lemmas.schedule_sound rs fixPhase skip r h

/-- invariant principle for a whole fix run: a property of the token list that every invoked
    error-type fixable rule and the post-phase-1 normalisation preserve holds at the end -/
theorem fixRun_invariant (P : List Tok → Prop) (rs : List Rule) (fixPhase : Nat) (skip : List Nat)
    (fo : Option FixOnly) (post : List Tok → List Tok) (f : List Tok) (h0 : P f)
    (hr : ∀ r, some r ∈ schedule rs fixPhase skip → r.1.sevError = true → r.1.fixable = true →
      ∀ g, P g → P (ruleFix r.1 r.2 fo g).1)
    (hp : ∀ g, P g → P (post g)) : P (fixRun rs fixPhase skip fo post f).1 :=
  Lemmas.fixRun_invariant P rs fixPhase skip fo post f h0 hr hp

/-- a run in which every enabled rule is unfixable or a warning, and whose post-phase-1
    normalisation finds nothing to do, returns the input and never sets had_violations:
    the file is not written (C04) -/
theorem fixRun_inert (rs : List Rule) (fixPhase : Nat) (skip : List Nat) (fo : Option FixOnly)
    (post : List Tok → List Tok) (f : List Tok)
    (hin : ∀ r ∈ rs, r.1.disabled = true ∨ r.1.fixable = false ∨ r.1.sevError = false)
    (hp : post f = f) : fixRun rs fixPhase skip fo post f = (f, false) :=
  Lemmas.fixRun_inert rs fixPhase skip fo post f hin hp

/-! ### engine: the effect of a rule is the effect of its violations -/

/-- if the violations of one `Rule.fix` form a sorted, disjoint, in-range chain and each
    `_fix_violation` changes only layout tokens of its slice, the whole update is layout-only -/
theorem update_layoutOnly (f : List Tok) (es : List (Edit Tok)) (h : Chain f.length 0 es)
    (hp : ∀ e ∈ es, nonLayout e.new = nonLayout (old f e)) : LayoutOnly f (update f es) := by
  unfold LayoutOnly
  exact (update_hom nonLayout nonLayout_append f es h hp).symm

/-- a layout-only step keeps the code sequence and every comment (C03 ⇒ C01, C02 for phases 2–5) -/
theorem layoutOnly_keeps_code_and_comments (fold : Str → Str) (a b : List Tok) (h : LayoutOnly a b) :
    codeSeq fold a = codeSeq fold b ∧ commentSeq a = commentSeq b :=
  ⟨h.codeSeq fold, h.commentSeq⟩

/-- a case-only step keeps the number of tokens, every token class, every value's length,
    the code sequence and every comment (phase 6) -/
theorem caseOnly_keeps (fold : Str → Str) (a b : List Tok) (h : CaseOnly fold a b) :
    a.length = b.length ∧ codeSeq fold a = codeSeq fold b ∧ commentSeq a = commentSeq b :=
  ⟨h.length fold, h.codeSeq fold, h.commentSeq fold⟩

/-! ### layer B: `_fix_violation` of modelled base classes, for ALL tokens of interest and ALL actions -/

/-- every `align_tokens_in_region_between_tokens*` rule: whatever token index and (also
    negative) adjustment the analysis recorded, the fix changes nothing but whitespace tokens -/
theorem bfix_align_layoutOnly (owner : String) (params action : Base.KV) (old new : List Tok)
    (ho : owner ∈ Base.alignOwners) (h : Base.fixByOwner owner params action old = some (.ok new)) :
    LayoutOnly old new := by
  unfold Base.fixByOwner at h
  simp only [ho, if_true, Option.some.injEq] at h
  cases h1 : Base.needInt action "token_index" with
  | error e => simp [h1, bind, Except.bind] at h
  | ok ti =>
    cases h2 : Base.needInt action "adjust" with
    | error e => simp [h1, h2, bind, Except.bind] at h
    | ok adj =>
      simp only [h1, h2, bind, Except.bind] at h
      exact Base.Align.fixV_layoutOnly _ _ _ _ _ h

/-- layer B, line-structure family: the line-break inserting base classes
    (insert_carriage_return_after_token…, split_line_at_token…) and the line-break removing ones
    (remove_carriage_return_after_token, remove_carriage_returns_between_token_pairs) — 54 phase-1
    `structure` rules — change nothing but whitespace / carriage-return tokens, for every action
    (also negative and out-of-range insert indices) and every region -/
theorem bfix_lineBreak_layoutOnly (owner : String) (params action : Base.KV) (old new : List Tok)
    (ho : owner ∈ Base.LineStruct.breakOwners ++ Base.LineStruct.removeCrOwners)
    (h : Base.fixByOwner owner params action old = some (.ok new)) : LayoutOnly old new := by
  rw [Base.LineStruct.fixByOwner_lineStruct owner params action old (Base.LineStruct.layoutOwners_sub_all ho)] at h
  exact (Base.LineStruct.dispatch_layout _ owner params action old new ho h).1

/-- the rules served by that model are documented layout rules (alignment group) -/
theorem align_owners_are_layout_rules : ∀ r ∈ Gen.ruleTable, r.fixVOwner ∈ Base.alignOwners →
    Verdict.effectOfGroups r.groups = .layout := by decide +kernel

/-! ### table facts, re-checked against the regenerated rule table on every run -/

/-- naming rules (phase 7) are unfixable -/
theorem phase7_unfixable : ∀ r ∈ Gen.ruleTable, r.phase = 7 → r.fixable = false := by decide +kernel

/-- only unfixable rules replace the engine's `fix`; nobody replaces `add_violation` -/
theorem engine_fix_is_used : ∀ r ∈ Gen.ruleTable, (r.overridesFix = true → r.fixable = false) ∧ r.overridesAddViolation = false := by
  decide +kernel

/-- the docs label of every live rule states the phase it runs in and its severity -/
theorem docs_agree : ∀ r ∈ Gen.ruleTable, r.deprecated = false → r.phase ≠ 0 →
    r.documented = true ∧ r.docPhase = some r.phase.toNat ∧ r.docSeverity = some (if r.sevError then "error" else "warning") := by
  decide +kernel

/-- rule group ↔ phase: layout groups run in phases 2–5 (the two trailing-whitespace/tab rules
    and one blank-line rule run in phase 1), case in 6, naming/length in 7 and are unfixable -/
def groupPhaseOk (r : RuleRow) : Bool :=
  match Verdict.effectOfGroups r.groups with
  | .layout => r.phase ∈ [1, 2, 3, 4, 5]
  | .case => r.phase = 6
  | .same => r.phase = 7 && !r.fixable
  | .any => r.phase ∈ [1, 2, 5]

theorem group_phase : ∀ r ∈ Gen.ruleTable, r.deprecated = false → r.phase ≠ 0 → groupPhaseOk r = true := by
  decide +kernel

/-! ### non-vacuity -/

example : ∃ r ∈ Gen.ruleTable, r.phase = 7 := by decide +kernel
example : ∃ r ∈ Gen.ruleTable, r.overridesFix = true := by decide +kernel

/-! ### layer B: the whitespace family (≈190 rules: whitespace_between_tokens and everything that inherits
  its `_fix_violation`, n_spaces_before_and_after_tokens, spaces_before_and_after_tokens_when_bounded_by_tokens,
  remove_spaces_before_token_rule, whitespace_001/002/005/008, comment_100) — BEGIN ag_bws -/

/-- **whitespace_between_tokens (171 rules), `number_of_spaces ≠ 0`**: for EVERY action and EVERY token list,
    if the fix returns it changed nothing but one whitespace token — no guard at all -/
theorem bfix_wsBetween_layoutOnly (params action : Base.KV) (old new : List Tok) (nos : Base.NoS)
    (hn : Base.nosOf (params.get "number_of_spaces") = .ok nos) (hn0 : nos ≠ .int 0)
    (h : Base.fixByOwner Base.wsBetweenOwner params action old = some (.ok new)) : LayoutOnly old new := by
  rw [Base.fixByOwner_ws _ _ _ _ (by decide +kernel)] at h
  apply Base.ws_layoutOnly _ params action old new (Or.inl (by decide +kernel)) h
  have hne : (nos == Base.NoS.int 0) = false := by simpa using hn0
  simp [Base.wsGuard, hn, Base.WsBetween.guard, Base.WsBetween.touched, hne]

/-- with `number_of_spaces = 0` the fix keeps `lTokens[0]` and `lTokens[2]` and drops the rest WHATEVER it is:
    on a hand-built list whose middle token is code the code token is lost (reproduced on the real class by
    harness/props_bws.py, synthetic case `nos0-code-middle`); the analysis never records such a violation
    (`wsBetween_analysis_establishes_guard`) -/
theorem bfix_wsBetween_zero_not_layoutOnly :
    ∃ old new, Base.fixByOwner Base.wsBetweenOwner [("number_of_spaces", .int 0)] [("spaces", .int 0)] old = some (.ok new) ∧
      ¬ LayoutOnly old new :=
  ⟨[⟨9, .code, "a".toList⟩, ⟨9, .code, "b".toList⟩, ⟨9, .code, "c".toList⟩],
   [⟨9, .code, "a".toList⟩, ⟨9, .code, "c".toList⟩], by decide +kernel, by decide +kernel⟩

/-- **every strictly-layout owner of the family, all actions, all token lists** — `_partial`: the guard
    `Base.wsGuard isLayout` says that the old tokens the fix deletes or overwrites are layout tokens
    (`number_of_spaces = 0`: `lTokens[1]` and `lTokens[3:]`; `adjust` / `remove`: the first / last token;
    whitespace_001: everything between first and last, and ≥ 2 tokens; 005: the last but one; 008: the last) -/
theorem bfix_ws_layoutOnly_partial (owner : String) (params action : Base.KV) (old new : List Tok)
    (ho : owner ∈ Base.wsLayoutOwners) (h : Base.fixByOwner owner params action old = some (.ok new))
    (hg : Base.wsGuard (fun k => k.isLayout) owner params action old = true) : LayoutOnly old new := by
  rw [Base.fixByOwner_ws _ _ _ _ (Base.ws_layout_mem owner ho)] at h
  exact Base.ws_layoutOnly owner params action old new (Or.inl ho) h hg

/-- the two rules that edit comment VALUES (whitespace_002: tabs, comment_100: blank after `--`) together
    with the rest of the family: non-layout tokens are equal up to blanks / tabs inside comment-like values -/
theorem bfix_ws_layoutOnlyW_partial (owner : String) (params action : Base.KV) (old new : List Tok)
    (ho : owner ∈ Base.wsOwners) (h : Base.fixByOwner owner params action old = some (.ok new))
    (hg : Base.wsGuard (fun k => k.isLayout) owner params action old = true) : Verdict.layoutOnlyW old new = true := by
  rw [Base.fixByOwner_ws _ _ _ _ ho] at h
  exact Base.ws_layoutOnlyW owner params action old new ho h hg

/-- the guards are needed: remove_spaces_before_token_rule drops `lTokens[0]` whatever it is -/
theorem bfix_removeBefore_not_layoutOnly :
    ∃ old new, Base.fixByOwner Base.removeBeforeOwner [] [] old = some (.ok new) ∧ ¬ LayoutOnly old new :=
  ⟨[⟨9, .code, "a".toList⟩, ⟨9, .code, "b".toList⟩], [⟨9, .code, "b".toList⟩], by decide +kernel, by decide +kernel⟩

/-- whitespace_001 on a ONE-token region duplicates the token -/
theorem bfix_ws001_duplicates :
    Base.fixByOwner Base.ws001Owner [] [("action", .str "remove".toList)] [⟨9, .code, "a".toList⟩]
      = some (.ok [⟨9, .code, "a".toList⟩, ⟨9, .code, "a".toList⟩]) := by decide +kernel

/-- B-full: `_analyze` of whitespace_between_tokens establishes the guard of its own fix — a violation is
    recorded under `number_of_spaces = 0` only when `lTokens[1]` is whitespace (TOIs have ≤ 3 tokens) -/
theorem wsBetween_analysis_establishes_guard (nos : Base.NoS) (l : List Tok) (sp : Base.Val)
    (ha : Base.WsBetween.analyzeToi nos l = .ok (.spaces sp)) (hlen : l.length ≤ 3) :
    Base.WsBetween.guard (fun k => k == .ws) nos l = true := by
  unfold Base.WsBetween.guard Base.WsBetween.touched
  by_cases h0 : nos = .int 0
  · subst h0
    simp only [beq_self_eq_true, if_true]
    unfold Base.WsBetween.analyzeToi at ha
    simp only [bind, Except.bind] at ha
    cases hw : Base.WsBetween.wsAt l with
    | error e => simp [hw] at ha
    | ok w =>
      simp only [hw] at ha
      cases w with
      | none => simp [Base.WsBetween.judge, Base.WsBetween.analyzeNoWs] at ha
      | some n =>
        unfold Base.WsBetween.wsAt at hw
        split at hw
        · cases hw
        · simp only [bind, Except.bind] at hw
          cases h1 : Base.pyGet l 1 with
          | error e => simp [h1] at hw
          | ok t1 =>
            simp only [h1, pure, Except.pure] at hw
            have h1' := Base.pyGet_nat_ok l 1 t1 h1
            have hk : t1.kind = .ws := by
              by_cases hk : (t1.kind == Kind.ws) = true
              · simpa using hk
              · simp [hk] at hw
            have hd : l.drop 3 = [] := List.drop_eq_nil_of_le hlen
            match l, h1' with
            | a :: y :: rest, h1' =>
              simp at h1'; subst h1'
              simp [hd, hk]
  · have hne : (nos == Base.NoS.int 0) = false := by simpa using h0
    simp [hne]

/-- the rules served by these models are documented layout rules (whitespace group) -/
theorem ws_owners_are_layout_rules : ∀ r ∈ Gen.ruleTable, r.fixVOwner ∈ Base.wsOwners →
    Verdict.effectOfGroups r.groups = .layout := by decide +kernel

/-- … and there are 187 of them -/
theorem ws_owners_rule_count : (Gen.ruleTable.filter (fun r => decide (r.fixVOwner ∈ Base.wsOwners))).length = 187 := by
  decide +kernel

/-- a layout-only oddity of spaces_before_and_after_tokens_when_bounded_by_tokens, as the code is:
    `insert_whitespace(lTokens, self.spaces_before)` / `insert_whitespace(lTokens, len(lTokens) - self.spaces_after)`
    pass the configured WIDTH as the INDEX (and insert one blank).  Defaults 1 / 4, `:in⏎` with both blanks
    missing: the "right" blank lands in FRONT of the token before the keyword -/
example :
    Base.fixByOwner Base.boundedOwner [("spaces_before", .int 1), ("spaces_after", .int 4)]
        [("left", .dict [("action", .str "insert".toList)]), ("right", .dict [("action", .str "insert".toList)])]
        [⟨9, .code, ":".toList⟩, ⟨9, .code, "in".toList⟩, ⟨5, .cr, "\n".toList⟩]
      = some (.ok [⟨Gen.wsCls, .ws, " ".toList⟩, ⟨9, .code, ":".toList⟩, ⟨Gen.wsCls, .ws, " ".toList⟩, ⟨9, .code, "in".toList⟩, ⟨5, .cr, "\n".toList⟩]) := by
  decide +kernel

/-- non-vacuity: hypotheses of `bfix_ws_layoutOnly_partial` are satisfiable in the guarded case (`number_of_spaces = 0`
    on `[left, whitespace, right]`), of `bfix_ws_layoutOnlyW_partial` at comment_100 -/
example : ∃ old new, Base.fixByOwner Base.wsBetweenOwner [("number_of_spaces", .int 0)] [("spaces", .int 0)] old = some (.ok new) ∧
    Base.wsGuard (fun k => k.isLayout) Base.wsBetweenOwner [("number_of_spaces", .int 0)] [("spaces", .int 0)] old = true :=
  ⟨[⟨9, .code, "a".toList⟩, ⟨Gen.wsCls, .ws, "  ".toList⟩, ⟨9, .code, "(".toList⟩],
   [⟨9, .code, "a".toList⟩, ⟨9, .code, "(".toList⟩], by decide +kernel, by decide +kernel⟩
example : ∃ old new, Base.fixByOwner Base.comment100Owner [] [("index", .int 2)] old = some (.ok new) ∧
    Base.wsGuard (fun k => k.isLayout) Base.comment100Owner [] [("index", .int 2)] old = true ∧ old ≠ new :=
  ⟨[⟨13, .comment, "--c".toList⟩], [⟨13, .comment, "-- c".toList⟩], by decide +kernel, by decide +kernel, by decide +kernel⟩

/-! END ag_bws -/

/-! ### BEGIN ag_bind (indent / vertical spacing / post-phase-1) -/

/-! ### layer B: INDENT family — `token_indent._fix_violation` (102 rules), all actions, styles, sizes,
    indent levels and token lists -/

/-- what `token_indent._fix_violation` does, whenever it returns: nothing; or keep only the token at
    index 1 (`remove_whitespace`); or rewrite the VALUE of the FIRST token to an indent string — blanks
    only or tabs only — keeping its class and every other token (`adjust_whitespace`); or put ONE new
    whitespace token holding an indent string in front (`add_whitespace`).  Only the token at the start
    of the line is ever touched. -/
theorem bfix_indent_shape (owner : String) (params action : Base.KV) (old new : List Tok)
    (ho : owner ∈ Base.indentOwners) (h : Base.fixByOwner owner params action old = some (.ok new)) :
    Base.Indent.Shape Gen.wsCls (Base.strAction action) old new := by
  obtain ⟨style, size, h'⟩ := Base.Bind.indent_fixV_of_owner owner params action old new ho h
  exact Base.Indent.fixV_shape _ _ _ _ _ _ _ h'

/-- layout-only, under the extractor's contract `ToiOk`: when the action removes tokens everything
    except the token at index 1 is whitespace, when it rewrites the first token that token is whitespace
    (`get_tokens_at_beginning_of_line_matching*` returns `[token]` or `[whitespace, token]`) -/
theorem bfix_indent_layoutOnly_partial (owner : String) (params action : Base.KV) (old new : List Tok)
    (ho : owner ∈ Base.indentOwners) (h : Base.fixByOwner owner params action old = some (.ok new))
    (hok : Base.Indent.ToiOk (Base.strAction action) old) : LayoutOnly old new := by
  obtain ⟨style, size, h'⟩ := Base.Bind.indent_fixV_of_owner owner params action old new ho h
  exact Base.Indent.fixV_layoutOnly _ _ _ _ _ _ _ h' hok

/-- `add_whitespace` (and every unknown action) is layout-only on EVERY token list -/
theorem bfix_indent_add_layoutOnly (owner : String) (params action : Base.KV) (old new : List Tok)
    (ho : owner ∈ Base.indentOwners) (h : Base.fixByOwner owner params action old = some (.ok new))
    (h1 : Base.strAction action ≠ Base.Indent.sRemove) (h2 : Base.strAction action ≠ Base.Indent.sAdjust) :
    LayoutOnly old new :=
  bfix_indent_layoutOnly_partial owner params action old new ho h ⟨fun e => absurd e h1, fun e => absurd e h2⟩

/-- WITHOUT the contract the statement is false: `adjust_whitespace` overwrites the value of whatever
    token comes first, `remove_whitespace` drops everything but the token at index 1 (replayed on the
    real class by `props_bind.py`) -/
theorem bfix_indent_layoutOnly_false :
    ∃ params action old new, Base.fixByOwner "vsg.rules.token_indent.token_indent" params action old = some (.ok new) ∧
      ¬ LayoutOnly old new :=
  ⟨[("indent_size", .int 2), ("indent_style", .str "spaces".toList)],
   [("_str", .str "adjust_whitespace".toList), ("_indents", .list [.none, .int 1])],
   [⟨9, .code, "a".toList⟩, ⟨9, .code, "b".toList⟩], [⟨9, .code, "  ".toList⟩, ⟨9, .code, "b".toList⟩],
   by decide +kernel, by decide +kernel⟩

theorem bfix_indent_remove_layoutOnly_false :
    ∃ params action old new, Base.fixByOwner "vsg.rules.token_indent.token_indent" params action old = some (.ok new) ∧
      ¬ LayoutOnly old new :=
  ⟨[("indent_size", .int 2), ("indent_style", .str "spaces".toList)],
   [("_str", .str "remove_whitespace".toList)],
   [⟨9, .code, "a".toList⟩, ⟨9, .code, "b".toList⟩], [⟨9, .code, "b".toList⟩],
   by decide +kernel, by decide +kernel⟩

/-! ### layer B: VERTICAL-SPACING family (phase 3 blank-line base classes + whitespace_200) -/

/-- the exact change of every blank-line `_fix_violation`, whenever it returns:
    `[blank_line, CR]` in front (below/"Insert"); `[CR, blank_line]` at the end (above, previous_line
    /"Insert"); nothing; or a contiguous piece of the old tokens (slices, "Remove" = the empty piece) -/
theorem bfix_blankline_shape (owner : String) (params action : Base.KV) (old new : List Tok)
    (ho : owner ∈ Base.blankLineOwners) (h : Base.fixByOwner owner params action old = some (.ok new)) :
    (old ≠ [] ∧ new = Base.BlankLine.blankTok Gen.blankCls :: Base.BlankLine.crTok Gen.crCls :: old) ∨
    new = old ++ [Base.BlankLine.crTok Gen.crCls, Base.BlankLine.blankTok Gen.blankCls] ∨
    new = old ∨
    ∃ pre suf, Base.BlankLine.Cut old new pre suf :=
  Base.Bind.blankline_shape owner params action old new ho h

/-- a contiguous piece of `old` is layout-only exactly if the two pieces cut off contain no code / comment -/
theorem cut_layoutOnly_iff (old new pre suf : List Tok) (c : Base.BlankLine.Cut old new pre suf) :
    LayoutOnly old new ↔ nonLayout pre = [] ∧ nonLayout suf = [] := c.layoutOnly_iff

/-- layout-only for the whole family, every action, every token list: inserting is always layout-only;
    when tokens are removed, the region must consist of layout tokens (the contract of the extractors
    `get_blank_lines_*`, and of whitespace_200's analysis) -/
theorem bfix_blankline_layoutOnly_partial (owner : String) (params action : Base.KV) (old new : List Tok)
    (ho : owner ∈ Base.blankLineOwners) (h : Base.fixByOwner owner params action old = some (.ok new))
    (hreg : new.length < old.length → nonLayout old = []) : LayoutOnly old new := by
  rcases bfix_blankline_shape owner params action old new ho h with ⟨_, hr⟩ | hr | hr | ⟨pre, suf, c⟩
  · rw [hr]; exact Base.BlankLine.layoutOnly_insert_front _ _ old
  · rw [hr]; exact Base.BlankLine.layoutOnly_insert_back _ _ old
  · rw [hr]; rfl
  · rw [c.layoutOnly_iff]
    by_cases hlen : new.length < old.length
    · have hz := hreg hlen
      unfold Base.BlankLine.Cut at c
      rw [c, nonLayout_append, nonLayout_append] at hz
      simp only [List.append_eq_nil_iff] at hz
      exact ⟨hz.1.1, hz.2⟩
    · unfold Base.BlankLine.Cut at c
      have hl := congrArg List.length c
      simp only [List.length_append] at hl
      have h1 : pre = [] := List.eq_nil_of_length_eq_zero (by omega)
      have h2 : suf = [] := List.eq_nil_of_length_eq_zero (by omega)
      rw [h1, h2]; exact ⟨rfl, rfl⟩

/-- "Insert" and every unknown action of the three Insert/Remove base classes: layout-only on EVERY
    token list (no hypothesis) -/
theorem bfix_blankline_insert_layoutOnly (owner : String) (params action : Base.KV) (old new : List Tok)
    (ho : owner ∈ Base.blankBelowOwners ++ Base.blankAboveOwners)
    (h : Base.fixByOwner owner params action old = some (.ok new)) (hlen : old.length ≤ new.length) :
    LayoutOnly old new := by
  apply bfix_blankline_layoutOnly_partial owner params action old new _ h (fun hl => by omega)
  simp only [Base.blankLineOwners, List.mem_append] at ho ⊢
  rcases ho with ho | ho
  · exact Or.inl (Or.inl (Or.inl (Or.inl (Or.inl (Or.inl ho)))))
  · exact Or.inl (Or.inl (Or.inl (Or.inl (Or.inl (Or.inr ho)))))

/-- whitespace_200, exactly: it drops the first `k = clamp (2 · remove)` tokens of the region, whatever
    they are; the step is layout-only if and only if none of them is a code or comment token -/
theorem bfix_ws200_layoutOnly_iff (params action : Base.KV) (old new : List Tok) (remove : Int)
    (hr : Base.actTwice action "remove" = .ok remove)
    (h : Base.fixByOwner "vsg.rules.whitespace.rule_200.rule_200" params action old = some (.ok new)) :
    new = old.drop (Base.BlankLine.pyClamp old.length (2 * remove)) ∧
    (LayoutOnly old new ↔ nonLayout (old.take (Base.BlankLine.pyClamp old.length (2 * remove))) = []) := by
  rw [Base.fixByOwner_ws200 _ params action old (by simp [Base.ws200Owners])] at h
  simp only [Option.some.injEq, hr, bind, Except.bind, Base.BlankLine.ws200FixV, pure, Except.pure,
    Except.ok.injEq] at h
  subst h
  refine ⟨rfl, ?_⟩
  rw [(Base.BlankLine.sliceFrom_cut old (2 * remove)).layoutOnly_iff]
  exact ⟨fun hh => hh.1, fun hh => ⟨hh, rfl⟩⟩

/-- **whitespace_200 is NOT layout-only** (genuine defect of the pinned tree): the analysis counts every
    `blank_line` token as a two-token line `blank_line, CR` and the fix drops `2 · remove` tokens from the
    first counted `blank_line` on; a `blank_line` token left in the middle of a line by an earlier
    line-joining fix (here: before `others`) makes it drop the CODE token that follows -/
theorem bfix_ws200_layoutOnly_false :
    ∃ params action old new, Base.fixByOwner "vsg.rules.whitespace.rule_200.rule_200" params action old = some (.ok new) ∧
      ¬ LayoutOnly old new ∧ codeSeq id old ≠ codeSeq id new :=
  ⟨[], [("remove", .int 1)],
   [⟨Gen.blankCls, .blank, []⟩, ⟨9, .code, "others".toList⟩, ⟨9, .code, ";".toList⟩, ⟨Gen.crCls, .cr, ['\n']⟩,
    ⟨Gen.blankCls, .blank, []⟩, ⟨Gen.crCls, .cr, ['\n']⟩],
   [⟨9, .code, ";".toList⟩, ⟨Gen.crCls, .cr, ['\n']⟩, ⟨Gen.blankCls, .blank, []⟩, ⟨Gen.crCls, .cr, ['\n']⟩],
   by decide +kernel, by decide +kernel, by decide +kernel⟩

/-- the guard under which whitespace_200 (and every other slicing blank-line rule) is layout-only: the
    region consists of `blank_line, CR` pairs — then what is removed and what stays are such pairs too -/
theorem bfix_ws200_layoutOnly_partial (params action : Base.KV) (old new : List Tok)
    (h : Base.fixByOwner "vsg.rules.whitespace.rule_200.rule_200" params action old = some (.ok new))
    (hp : Base.BlankLine.blankPairs old = true) :
    LayoutOnly old new ∧ Base.BlankLine.blankPairs new = true ∧
      ∃ removed, old = removed ++ new ∧ Base.BlankLine.blankPairs removed = true := by
  have h0 := h
  rw [Base.fixByOwner_ws200 _ params action old (by simp [Base.ws200Owners])] at h
  simp only [Option.some.injEq] at h
  cases hr : Base.actTwice action "remove" with
  | error e => simp [hr, bind, Except.bind] at h
  | ok remove =>
    obtain ⟨hnew, hiff⟩ := bfix_ws200_layoutOnly_iff params action old new remove hr h0
    obtain ⟨n, hn⟩ := Base.BlankLine.blankPairs_even old hp
    obtain ⟨m, hm⟩ := Base.BlankLine.pyClamp_two_mul n remove
    rw [hn, hm] at hnew hiff
    refine ⟨hiff.mpr (Base.BlankLine.blankPairs_layout _ (Base.BlankLine.blankPairs_take old m hp)), ?_, ?_⟩
    · rw [hnew]; exact Base.BlankLine.blankPairs_drop old m hp
    · exact ⟨old.take (2 * m), by rw [hnew]; simp, Base.BlankLine.blankPairs_take old m hp⟩

/-- the rules that cut at an even position (`2 · remove`), insert in front, or delete the region: a
    region made of `blank_line, CR` pairs stays one — whole blank LINES are inserted / removed -/
theorem bfix_blankline_pairs (owner : String) (params action : Base.KV) (old new : List Tok)
    (ho : owner ∈ Base.blankBelowOwners ++ Base.excessBelowOwners ++ Base.ws200Owners ++ Base.betweenPairsOwners)
    (h : Base.fixByOwner owner params action old = some (.ok new))
    (hp : Base.BlankLine.blankPairs old = true) : Base.BlankLine.blankPairs new = true := by
  simp only [List.mem_append] at ho
  rcases ho with ((ho | ho) | ho) | ho
  · rw [Base.fixByOwner_below owner params action old ho] at h
    simp only [Option.some.injEq] at h
    cases ha : Base.dictAction action with
    | error e => simp [ha, bind, Except.bind] at h
    | ok a =>
      simp only [ha, bind, Except.bind] at h
      rcases Base.BlankLine.belowFixV_cases _ _ _ _ _ h with ⟨_, _, hr⟩ | ⟨_, hr⟩ | hr
      · rw [hr]; simpa [Base.BlankLine.blankPairs, Base.BlankLine.blankTok, Base.BlankLine.crTok] using hp
      · rw [hr]; rfl
      · rw [hr]; exact hp
  · rw [Base.fixByOwner_excessBelow owner params action old ho] at h
    simp only [Option.some.injEq] at h
    cases ha : Base.actTwice action "remove" with
    | error e => simp [ha, bind, Except.bind] at h
    | ok r =>
      simp only [ha, bind, Except.bind, Base.BlankLine.excessBelowFixV, pure, Except.pure, Except.ok.injEq] at h
      obtain ⟨n, hn⟩ := Base.BlankLine.blankPairs_even old hp
      obtain ⟨m, hm⟩ := Base.BlankLine.pyClamp_two_mul n r
      rw [← h, Base.BlankLine.sliceTo, hn, hm]
      exact Base.BlankLine.blankPairs_take old m hp
  · rw [Base.fixByOwner_ws200 owner params action old ho] at h
    simp only [Option.some.injEq] at h
    cases ha : Base.actTwice action "remove" with
    | error e => simp [ha, bind, Except.bind] at h
    | ok r =>
      simp only [ha, bind, Except.bind, Base.BlankLine.ws200FixV, pure, Except.pure, Except.ok.injEq] at h
      obtain ⟨n, hn⟩ := Base.BlankLine.blankPairs_even old hp
      obtain ⟨m, hm⟩ := Base.BlankLine.pyClamp_two_mul n r
      rw [← h, Base.BlankLine.sliceFrom, hn, hm]
      exact Base.BlankLine.blankPairs_drop old m hp
  · rw [Base.fixByOwner_betweenPairs owner params action old ho] at h
    simp only [Option.some.injEq, Base.BlankLine.betweenPairsFixV, pure, Except.pure, Except.ok.injEq] at h
    rw [← h]; rfl

/-- "Remove" is not layout-only on arbitrary tokens of interest either: `set_tokens([])` -/
theorem bfix_blankline_remove_layoutOnly_false :
    ∃ params action old new,
      Base.fixByOwner "vsg.rules.previous_line.previous_line" params action old = some (.ok new) ∧ ¬ LayoutOnly old new :=
  ⟨[], [("action", .str "Remove".toList)], [⟨9, .code, "a".toList⟩], [], by decide +kernel, by decide +kernel⟩

/-- `blank_lines_between_token_pairs` (concurrent_010) is not layout-only either (genuine defect of the
    pinned tree): its analysis extracts "the `blank_line` token and the token after it" and the fix
    deletes both; after a phase-1 line-joining fix left a `blank_line` token in the middle of a line the
    token after it is CODE (`others` in the reproduction) -/
theorem bfix_betweenPairs_layoutOnly_false :
    ∃ params action old new,
      Base.fixByOwner "vsg.rules.blank_lines_between_token_pairs.blank_lines_between_token_pairs" params action old =
        some (.ok new) ∧ ¬ LayoutOnly old new ∧ codeSeq id old ≠ codeSeq id new :=
  ⟨[], [("_none", .none)], [⟨Gen.blankCls, .blank, []⟩, ⟨9, .code, "others".toList⟩], [],
   by decide +kernel, by decide +kernel, by decide +kernel⟩

/-- the rules served by the two families are documented layout rules (indent / blank_line / whitespace groups) -/
theorem bind_owners_are_layout_rules : ∀ r ∈ Gen.ruleTable,
    r.fixVOwner ∈ Base.indentOwners ++ Base.blankLineOwners → Verdict.effectOfGroups r.groups = .layout := by
  decide +kernel

/-- … and the families are not empty: 102 indent rules, 88 vertical-spacing rules -/
theorem bind_owner_counts :
    (Gen.ruleTable.filter (fun r => decide (r.fixVOwner ∈ Base.indentOwners))).length = 102 ∧
    (Gen.ruleTable.filter (fun r => decide (r.fixVOwner ∈ Base.blankLineOwners))).length = 88 := by
  decide +kernel

/-! ### the post-phase-1 normalisation (`fix_blank_lines`, `fix_trailing_whitespace`), every token list -/

/-- `postPhase1_layout`: both passes and their composition change only whitespace / blank_line tokens
    (code, comments kept) and keep every carriage return -/
theorem postPhase1_layout (blCls : Nat) (l : List Tok) :
    LayoutOnly l (Post.fixBlankLines blCls l) ∧ crSeq (Post.fixBlankLines blCls l) = crSeq l ∧
    LayoutOnly l (Post.fixTrailingWhitespace l) ∧ crSeq (Post.fixTrailingWhitespace l) = crSeq l ∧
    LayoutOnly l (Post.postPhase1 blCls l) ∧ crSeq (Post.postPhase1 blCls l) = crSeq l := by
  unfold LayoutOnly Post.postPhase1
  simp only [Post.fixBlankLines_eq, Post.fixTrailingWhitespace_eq, Post.fblGo_nonLayout, Post.fblGo_crSeq,
    Post.ftwGo_nonLayout, Post.ftwGo_crSeq, and_self]

/-- `fix_blank_lines` is idempotent on every token list (the wrap-around `lTokens[-1]` at index 0
    and the IndexError at the last token included) -/
theorem postPhase1_fixBlankLines_idem (blCls : Nat) (l : List Tok) :
    Post.fixBlankLines blCls (Post.fixBlankLines blCls l) = Post.fixBlankLines blCls l :=
  Post.fixBlankLines_idem blCls l

/-- `fix_trailing_whitespace` is NOT idempotent on every token list: it pops one token per carriage
    return, so of two adjacent whitespace tokens before a line break one survives the first pass -/
theorem postPhase1_fixTrailingWhitespace_idem_false :
    ∃ l, Post.fixTrailingWhitespace (Post.fixTrailingWhitespace l) ≠ Post.fixTrailingWhitespace l :=
  ⟨[⟨Gen.wsCls, .ws, [' ']⟩, ⟨Gen.wsCls, .ws, [' ']⟩, ⟨Gen.crCls, .cr, ['\n']⟩], by decide +kernel⟩

/-- … and idempotent on every token list without `whitespace whitespace CR` (the tokenizer never
    produces two adjacent whitespace tokens) -/
theorem postPhase1_fixTrailingWhitespace_idem_partial (l : List Tok) (h : Post.noWsWsCr l = true) :
    Post.fixTrailingWhitespace (Post.fixTrailingWhitespace l) = Post.fixTrailingWhitespace l :=
  Post.fixTrailingWhitespace_idem l h

/-- the whole fix run keeps code and comments if every invoked rule does: the `post` step never breaks it -/
theorem fixRun_nonLayout_post (rs : List Rule) (fixPhase : Nat) (skip : List Nat) (fo : Option FixOnly)
    (blCls : Nat) (f : List Tok)
    (hr : ∀ r, some r ∈ schedule rs fixPhase skip → r.1.sevError = true → r.1.fixable = true →
      ∀ g, nonLayout g = nonLayout f → nonLayout (ruleFix r.1 r.2 fo g).1 = nonLayout f) :
    nonLayout (fixRun rs fixPhase skip fo (Post.postPhase1 blCls) f).1 = nonLayout f :=
  fixRun_invariant (fun g => nonLayout g = nonLayout f) rs fixPhase skip fo _ f rfl hr
    (fun g hg => by rw [← (postPhase1_layout blCls g).2.2.2.2.1]; exact hg)

example : Base.fixByOwner "vsg.rules.token_indent.token_indent"
    [("indent_size", .int 2), ("indent_style", .str "spaces".toList)]
    [("_str", .str "adjust_whitespace".toList), ("_indents", .list [.none, .int 2])]
    [⟨Gen.wsCls, .ws, " ".toList⟩, ⟨9, .code, "b".toList⟩] =
    some (.ok [⟨Gen.wsCls, .ws, "    ".toList⟩, ⟨9, .code, "b".toList⟩]) := by decide +kernel
example : Base.Indent.ToiOk "adjust_whitespace".toList [⟨Gen.wsCls, .ws, " ".toList⟩, ⟨9, .code, "b".toList⟩] :=
  ⟨fun h => absurd h (by decide), fun _ t ht => by simp [List.head?] at ht; subst ht; rfl⟩
example : Post.fixBlankLines Gen.blankCls [⟨Gen.wsCls, .ws, [' ']⟩, ⟨Gen.crCls, .cr, ['\n']⟩] =
    [⟨Gen.blankCls, .blank, []⟩, ⟨Gen.crCls, .cr, ['\n']⟩] := by decide +kernel
example : Post.noWsWsCr [⟨Gen.wsCls, .ws, [' ']⟩, ⟨Gen.crCls, .cr, ['\n']⟩] = true := by decide

/-! ### END ag_bind -/

/-! ### BEGIN ag_bcase (case family, B-full) -/

/-! ### layer B, the CASE family (phase 6: 259 rules, five `_fix_violation` owners)

`_fix_violation` writes `dAction["value"]` — whatever string the analysis computed — into one
token, so the effect class is a property of analysis + fix (B-full), not of the fix alone. -/

section caseFamily
open Base Base.Case

/-- the fix alone, for ALL actions: the region keeps its length, every token class and kind;
    at most one token's value is replaced -/
theorem bfix_case_shape (owner : String) (params action : Base.KV) (old new : List Tok)
    (ho : owner ∈ Base.caseOwners) (h : Base.fixByOwner owner params action old = some (.ok new)) :
    new.map (fun t => (t.cls, t.kind)) = old.map (fun t => (t.cls, t.kind)) ∧ new.length = old.length ∧
      (new = old ∨ ∃ k t e, old[k]? = some t ∧ new = old.set k { t with val := e }) := by
  have hs := Base.fixByOwner_case_shape owner ho params action old new h
  rcases hs with rfl | ⟨k, t, e, hk, rfl⟩
  · exact ⟨rfl, rfl, .inl rfl⟩
  · exact ⟨Base.set_val_shape old k t e hk, by simp, .inr ⟨k, t, e, hk, rfl⟩⟩

/-- … and that is all one can say about the fix alone: it is NOT case-only for every action -/
theorem bfix_case_not_caseOnly_for_all_actions :
    ∃ (action : Base.KV) (old new : List Tok),
      Base.fixByOwner "vsg.rules.token_case.token_case" [] action old = some (.ok new) ∧
      ¬ CaseOnly asciiLowerS old new :=
  ⟨[("value", .str "xyz".toList), ("index", .int 0)], [⟨0, .code, "Abc".toList⟩], [⟨0, .code, "xyz".toList⟩],
    by decide +kernel, by decide +kernel⟩

/-- B-FULL, `token_case` (243 rules): for EVERY parameter setting (case style, prefix / suffix / whole
    word exceptions), EVERY region and the action the analysis of that region produces, the fix is
    case-only: it keeps the token count, every class, the code sequence and every comment, and the
    changed value has the same length.  Hypotheses: the character tables (`CharWise`, discharged for
    ASCII below) and `TokOk` for the analysed token — a code token (and, for the two rules named
    `bit_string_literal`, a bit-string token).  EXTENDED IDENTIFIERS ARE NO LONGER EXCLUDED: since the
    repair of `does_not_contain_any_alpha_characters` the analysis skips them
    (`bfull_case_extended_identifier_untouched`). -/
theorem bfull_case_caseOnly {E : Case.Env} {fold : Str → Str} {lc uc fc : Char → Char}
    (T : CharWise E fold lc uc fc) (owner : String) (ho : owner ∈ Base.caseTokenOwners)
    (params : Base.KV) (p : Params) (old new : List Tok) (a : Action)
    (hok : ∀ t, old[0]? = some t → TokOk p t)
    (ha : TokenCase.analyzeToi E p old = .ok (some a))
    (hf : Base.fixByOwner owner params (Base.caseActionKV a) old = some (.ok new)) :
    CaseOnly fold old new ∧ old.length = new.length ∧
      old.map (fun t => (t.cls, t.kind)) = new.map (fun t => (t.cls, t.kind)) ∧
      codeSeq fold old = codeSeq fold new ∧ commentSeq old = commentSeq new := by
  rw [Base.fixByOwner_tokenCase owner ho] at hf
  simp only [Option.some.injEq] at hf
  have h := TokenCase.analyze_fix_caseOnly T p old new a hok ha hf
  exact ⟨h, h.length fold, caseOnly_classes fold h, h.codeSeq fold, h.commentSeq fold⟩

/-- the same with the table hypotheses discharged: ASCII `lower` / `upper`, fold = ASCII lower -/
theorem bfull_case_caseOnly_ascii (fm : String → Str → Bool) (owner : String)
    (ho : owner ∈ Base.caseTokenOwners) (params : Base.KV) (p : Params) (old new : List Tok) (a : Action)
    (hok : ∀ t, old[0]? = some t → TokOk p t)
    (ha : TokenCase.analyzeToi (asciiEnv fm) p old = .ok (some a))
    (hf : Base.fixByOwner owner params (Base.caseActionKV a) old = some (.ok new)) :
    CaseOnly asciiLowerS old new :=
  (bfull_case_caseOnly (ascii_charWise fm) owner ho params p old new a hok ha hf).1

/-- string literals, character literals and extended identifiers never reach the fix: a value that
    starts with `"`, `'` or a backslash is skipped by the analysis of every rule that is not named
    `bit_string_literal` (commit da18b98 and the extended-identifier repair) -/
theorem bfull_case_literal_skipped (E : Case.Env) (p : Params) (l : List Tok) (t : Tok)
    (hn : p.name ≠ bitStringLiteral) (h0 : l[0]? = some t) (hq : doesNotContainAnyAlpha t.val = true) :
    TokenCase.analyzeToi E p l = .ok none := by
  unfold TokenCase.analyzeToi
  have hg : pyGet l 0 = .ok t := by
    cases l with
    | nil => simp at h0
    | cons x l =>
      simp only [List.getElem?_cons_zero, Option.some.injEq] at h0
      subst h0
      unfold pyGet pyIdx
      simp
  simp only [hg, bind, Except.bind]
  exact check_skip (by simp [hn, hq])

/-- the values the case rules skip are exactly the values property C01 compares exactly
    (string literal, character literal, extended identifier) -/
theorem bfull_case_skip_iff_exact (v : Str) : doesNotContainAnyAlpha v = isExact v :=
  (isExact_eq_skip v).symm

/-- FORMER EXCLUDED CASE of `TokOk`, now a theorem: an EXTENDED IDENTIFIER IS LEFT ALONE by every
    analysis of the family, for every interpreter environment, every case style and every exception
    list — `token_case` (every rule not named `bit_string_literal`) reports nothing for the region,
    and neither value choice of the three `consistent_*` base classes proposes a spelling.
    (Before the repair: `\Ab\` → `\ab\` under the default `case: lower`; reproduced on the real code
    then, absent on the repaired code.) -/
theorem bfull_case_extended_identifier_untouched (E : Case.Env) (p : Params) (l : List Tok) (t : Tok)
    (hn : p.name ≠ bitStringLiteral) (h0 : l[0]? = some t) (hb : t.val.head? = some '\\') :
    TokenCase.analyzeToi E p l = .ok none ∧
      ∀ ids, Consistent.expectedFirst E ids t.val = none ∧ Consistent.expectedMap E ids t.val = .ok none :=
  ⟨bfull_case_literal_skipped E p l t hn h0 (skip_of_backslash hb),
    fun _ => ⟨Consistent.expectedFirst_skip (skip_of_backslash hb), Consistent.expectedMap_skip (skip_of_backslash hb)⟩⟩

/-- … and the formal-part rules (port_map_002, generic_map_002): every action the analysis of a region
    produces points at a formal-part token that is not an extended identifier (nor a literal) -/
theorem bfull_case_formal_extended_untouched {E : Case.Env} {fold : Str → Str} {lc uc fc : Char → Char}
    (T : CharWise E fold lc uc fc) (c : FormalPart.Classes) (p : Params) (l : List Tok)
    (acts : List Action) (a : Action) (hn : p.name ≠ bitStringLiteral)
    (ha : FormalPart.analyzeToi E c p l = .ok acts) (hm : a ∈ acts) :
    ∃ (j : Nat) (t : Tok), a.index = (j : Int) ∧ l[j]? = some t ∧ t.cls = c.formal ∧
      t.val.head? ≠ some '\\' ∧ isExact t.val = false := by
  unfold FormalPart.analyzeToi at ha
  rcases FormalPart.scan_spec c p _ _ l 0 false false [] acts [] rfl ha a hm with h | ⟨j, t, hj, hcls, hchk⟩
  · cases h
  · simp only [List.nil_append] at hj
    have hs := check_not_skipped hchk
    have hd : doesNotContainAnyAlpha t.val = false := by
      cases hd : doesNotContainAnyAlpha t.val with
      | false => rfl
      | true =>
        rw [hd, Bool.and_true] at hs
        exact absurd (by simpa using hs) hn
    exact ⟨j, t, check_index T hchk, hj, hcls, not_backslash_of_not_skip hd, by rw [isExact_eq_skip, hd]⟩

/-- the former witness, on the repaired model: `\Ab\` under the default `case: lower` is not reported,
    while the plain identifier `Ab` still is -/
theorem bfull_case_extended_identifier_witness :
    let p : Params := { name := "signal".toList, style := .lower, prefixes := [], suffixes := [], exceptions := [] }
    TokenCase.analyzeToi (asciiEnv fun _ _ => false) p [⟨0, .code, "\\Ab\\".toList⟩] = .ok none ∧
    TokenCase.analyzeToi (asciiEnv fun _ _ => false) p [⟨0, .code, "Ab".toList⟩] =
      .ok (some { value := some "ab".toList, index := 0 }) ∧
    Consistent.expectedFirst (asciiEnv fun _ _ => false) ["\\Ab\\".toList] "\\ab\\".toList = none ∧
    Consistent.expectedMap (asciiEnv fun _ _ => false) ["\\Ab\\".toList] "\\ab\\".toList = .ok none ∧
    Consistent.expectedFirst (asciiEnv fun _ _ => false) ["Ab".toList] "ab".toList = some "Ab".toList := by
  refine ⟨by decide +kernel, by decide +kernel, by decide +kernel, by decide +kernel, by decide +kernel⟩

/-- B-FULL, formal parts of port / generic maps (2 rules), for every `case_exceptions` list (the former
    hypothesis "no word twice in different case" is gone with the repo repair of `check_for_exception`) -/
theorem bfull_case_formal_caseOnly {E : Case.Env} {fold : Str → Str} {lc uc fc : Char → Char}
    (T : CharWise E fold lc uc fc) (owner : String) (ho : owner ∈ Base.caseFormalOwners)
    (params : Base.KV) (c : FormalPart.Classes) (p : Params) (old new : List Tok) (acts : List Action)
    (a : Action)
    (hok : ∀ t ∈ old, t.cls = c.formal → TokOk p t)
    (ha : FormalPart.analyzeToi E c p old = .ok acts) (hm : a ∈ acts)
    (hf : Base.fixByOwner owner params (Base.caseActionKV a) old = some (.ok new)) :
    CaseOnly fold old new ∧ old.length = new.length ∧
      codeSeq fold old = codeSeq fold new ∧ commentSeq old = commentSeq new := by
  rw [Base.fixByOwner_formal owner ho] at hf
  simp only [Option.some.injEq] at hf
  have h := FormalPart.analyze_fix_caseOnly T c p old new acts a hok ha hm hf
  exact ⟨h, h.length fold, h.codeSeq fold, h.commentSeq fold⟩

/-- the former EXCLUDED CASE (`bfull_case_formal_index_witness`), on the repaired model: with
    `case_exceptions: [Clk, CLK]` the action for the formal part `CLK` carries the position of that token (2),
    the fix writes `Clk` there and the instantiation label `u_x` — token 0, which the unrepaired code
    overwrote — stays.  The same region is replayed on the real class. -/
theorem bfull_case_formal_index_repaired :
    ∃ (c : FormalPart.Classes) (p : Params) (old new : List Tok) (a : Action),
      FormalPart.analyzeToi (asciiEnv fun _ _ => false) c p old = .ok [a] ∧ a.index = 2 ∧
      Base.fixByOwner Base.caseFormalOwners.head! [] (Base.caseActionKV a) old = some (.ok new) ∧
      new[0]? = old[0]? ∧ codeSeq asciiLowerS old = codeSeq asciiLowerS new :=
  ⟨{ mapStart := 1, mapEnd := 2, formal := 3, assign := 4 },
    { name := "port_map".toList, style := .lower, prefixes := [], suffixes := [], exceptions := ["Clk".toList, "CLK".toList] },
    [⟨0, .code, "u_x".toList⟩, ⟨1, .code, "(".toList⟩, ⟨3, .code, "CLK".toList⟩, ⟨4, .code, "=>".toList⟩],
    [⟨0, .code, "u_x".toList⟩, ⟨1, .code, "(".toList⟩, ⟨3, .code, "Clk".toList⟩, ⟨4, .code, "=>".toList⟩],
    { value := some "Clk".toList, index := 2 }, by decide +kernel, rfl, by decide +kernel, rfl, by decide +kernel⟩

/-- B-FULL (value part), `consistent_token_case` (10 rules): the expected spelling is the first
    declared identifier that equals the name after `lower()`.  The former hypothesis `t.exact = false`
    (not a literal, not an extended identifier) is gone: the repaired choice skips such names. -/
theorem bfull_case_consistent_caseOnly {E : Case.Env} {fold : Str → Str} {lc uc fc : Char → Char}
    (T : CharWise E fold lc uc fc) (owner : String) (ho : owner ∈ Base.caseConsistentOwners)
    (params : Base.KV) (ids : List Str) (old new : List Tok) (t : Tok) (e : Str)
    (h0 : old[0]? = some t) (hc : t.isCode = true)
    (he : Consistent.expectedFirst E ids t.val = some e)
    (hf : Base.fixByOwner owner params (Base.consistentActionKV "expected" e) old = some (.ok new)) :
    CaseOnly fold old new := by
  rw [Base.fixByOwner_consistent owner ho] at hf
  simp only [Option.some.injEq] at hf
  exact Consistent.first_fix_caseOnly T ids old new t e h0 hc he hf

/-- B-FULL (value part), `consistent_interface_token_case` / `consistent_subprogram_parameter_token_case`
    (4 rules): the expected spelling is the last declared name that equals the token after `lower()`
    (no hypothesis about literals / extended identifiers any more: `interface_case_mismatch` skips them) -/
theorem bfull_case_interface_caseOnly {E : Case.Env} {fold : Str → Str} {lc uc fc : Char → Char}
    (T : CharWise E fold lc uc fc) (owner : String) (ho : owner ∈ Base.caseInterfaceOwners)
    (params : Base.KV) (ids : List Str) (old new : List Tok) (t : Tok) (e : Str)
    (h0 : old[0]? = some t) (hc : t.isCode = true)
    (he : Consistent.expectedMap E ids t.val = .ok (some e))
    (hf : Base.fixByOwner owner params (Base.consistentActionKV "value" e) old = some (.ok new)) :
    CaseOnly fold old new := by
  rw [Base.fixByOwner_interface owner ho] at hf
  simp only [Option.some.injEq] at hf
  exact Consistent.map_fix_caseOnly T ids old new t e h0 hc he hf

/-- the table hypotheses are satisfiable: ASCII -/
theorem case_tables_ascii (fm : String → Str → Bool) :
    CharWiseIdem (asciiEnv fm) asciiLowerS asciiLowerC asciiUpperC asciiLowerC := ascii_charWiseIdem fm

/-- … and they are FALSE for CPython's `str.upper()` as soon as one of the code points of the
    generated table `Gen.upperMultiMap` occurs: 'ß' ↦ "SS" changes the length -/
theorem case_tables_cpython_eszett :
    Gen.upperMultiMap.lookup 223 = some [83, 83] ∧ (∀ e ∈ Gen.upperMultiMap, 2 ≤ e.2.length) :=
  ⟨cpython_upper_eszett, cpython_multi_longer.1⟩

/-- on ASCII strings the CPython model of the driver IS the ASCII map (and the ASCII rows of the
    generated CPython tables are exactly A–Z ↔ a–z: `ascii_agrees_with_cpython_tables`); on a
    request whose strings are all ASCII the driver mode `caseu` runs the very environment the
    theorems above are instantiated with -/
theorem case_tables_cpython_ascii :
    (∀ v : Str, isAsciiS v = true → pyLowerS v = asciiLowerS v ∧ pyUpperS v = asciiUpperS v) ∧
    (∀ (strings : List Str) (fm : String → Str → Bool), strings.all isAsciiS = true →
      envFor strings fm = asciiEnv fm) ∧
    Gen.lowerPairs.filter (fun p => p.1 < 128) = (List.range 26).map (fun i => (65 + i, 97 + i)) ∧
    Gen.upperPairs.filter (fun p => p.1 < 128) = (List.range 26).map (fun i => (97 + i, 65 + i)) :=
  ⟨fun v h => ⟨pyLowerS_ascii v h, pyUpperS_ascii v h⟩, envFor_ascii,
    ascii_agrees_with_cpython_tables.1, ascii_agrees_with_cpython_tables.2.1⟩

/-- every rule whose `_fix_violation` is one of the five owners is a documented case rule -/
theorem case_owners_are_case_rules : ∀ r ∈ Gen.ruleTable, r.fixVOwner ∈ Base.caseOwners →
    Verdict.effectOfGroups r.groups = .case := by decide +kernel

/-- … and conversely every phase-6 rule is served by one of the five models -/
theorem case_rules_are_modelled : ∀ r ∈ Gen.ruleTable, r.phase = 6 → r.fixVOwner ∈ Base.caseOwners := by
  decide +kernel

/-- the classes a case rule can report are code classes (hypothesis `TokOk.code`), and the two
    `bit_string_literal` rules look at the base specifier and the (case-insensitive) value string -/
theorem case_rule_targets_are_code : ∀ r ∈ Gen.caseRuleTable,
    (∀ c ∈ r.targets, Wire.kindOfCls c = .code ∨ Wire.kindOfCls c = .codeCI) ∧
    (r.name = "bit_string_literal" → ∀ c ∈ r.targets,
      c = Gen.bitStringBaseSpecifierCls ∨ (c = Gen.bitStringValueCls ∧ Wire.kindOfCls c = .codeCI)) := by
  decide +kernel

end caseFamily

/-! ### END ag_bcase -/

/-! ### BEGIN ag_bcase (case family, B-full) -/
example : ∃ r ∈ Gen.ruleTable, r.fixVOwner ∈ Base.caseOwners := by decide +kernel
example : ∃ r ∈ Gen.caseRuleTable, r.name = "bit_string_literal" := by decide +kernel
/-- the hypotheses of `bfull_case_caseOnly` are satisfiable and the conclusion is not trivial:
    `Abc` under `case: upper` with prefix exception `a` becomes `aBC` -/
example : ∃ (p : Base.Case.Params) (old new : List Tok) (a : Base.Case.Action),
    Base.Case.TokenCase.analyzeToi (Base.Case.asciiEnv fun _ _ => false) p old = .ok (some a) ∧
    Base.fixByOwner "vsg.rules.token_case.token_case" [] (Base.caseActionKV a) old = some (.ok new) ∧
    new ≠ old ∧ (∀ t, old[0]? = some t → Base.Case.TokOk p t) :=
  ⟨{ name := "signal".toList, style := .upper, prefixes := ["a".toList], suffixes := [], exceptions := [] },
    [⟨0, .code, "Abc".toList⟩], [⟨0, .code, "aBC".toList⟩], { value := some "aBC".toList, index := 0 },
    by decide +kernel, by decide +kernel, by decide +kernel,
    fun t ht => by
      simp only [List.getElem?_cons_zero, Option.some.injEq] at ht
      subst ht
      exact ⟨by decide, fun h => absurd h (by decide)⟩⟩
/-- the hypotheses of `bfull_case_extended_identifier_untouched` are satisfiable -/
example : ∃ (p : Base.Case.Params) (l : List Tok) (t : Tok), p.name ≠ Base.Case.bitStringLiteral ∧
    l[0]? = some t ∧ t.val.head? = some '\\' :=
  ⟨{ name := "signal".toList, style := .lower, prefixes := [], suffixes := [], exceptions := [] },
    [⟨0, .code, "\\Clk_In\\".toList⟩], ⟨0, .code, "\\Clk_In\\".toList⟩, by decide, rfl, rfl⟩
/-- … and of the consistent_* theorems (no exactness hypothesis any more): `CLK` against the declared `Clk` -/
example : Base.Case.Consistent.expectedFirst (Base.Case.asciiEnv fun _ _ => false) ["Clk".toList] "CLK".toList
    = some "Clk".toList ∧
    Base.Case.Consistent.expectedMap (Base.Case.asciiEnv fun _ _ => false) ["Clk".toList] "CLK".toList
    = .ok (some "Clk".toList) := ⟨by decide +kernel, by decide +kernel⟩
/-! ### END ag_bcase -/

/-! ### BEGIN ag_bstruct (insert / remove / parens / split / multiline alignment) -/

/-! ### layer B, structure family dispatcher and the remaining alignment fixers -/

/-- every owner that no earlier arm of the dispatcher serves is served by the structure-family
    dispatcher, instantiated with the class tree of the pinned repository -/
theorem fixByOwner_struct (owner : String) (params action : Base.KV) (old : List Tok)
    (h : owner ∉ Base.earlierOwners) :
    Base.fixByOwner owner params action old = Base.fixStruct Base.stdEnv owner params action old := by
  simp only [Base.earlierOwners, List.mem_append, not_or] at h
  obtain ⟨⟨⟨⟨⟨⟨⟨⟨⟨⟨⟨⟨⟨⟨⟨h1, h2⟩, h3⟩, h4⟩, h5⟩, h6⟩, h7⟩, h8⟩, h9⟩, h10⟩, h11⟩, h12⟩, h13⟩, h14⟩, h15⟩, h16⟩ := h
  unfold Base.fixByOwner
  simp only [h1, h2, h3, h4, h5, h6, h7, h8, h9, h10, h11, h12, h13, h14, h15, h16, if_false]

/-- `multiline_alignment_between_tokens` (10 rules), `multiline_array_alignment`,
    `multiline_conditional_alignment`, `align_consecutive_lines_after_line_starting_with_token_and_stopping_with_token`:
    for EVERY action (adjust / insert / when / else / indent, any column string, any adjust) and every
    class environment, the fix changes nothing but layout tokens PROVIDED the first token of interest
    is a layout token (or there is none) -/
theorem bfix_alignMulti_layoutOnly_partial (E : Base.Env) (owner : String) (o : Base.SOwner) (params action : Base.KV)
    (old new : List Tok) (ho : Base.sownerOf owner = some o) (hal : o.isAlign = true)
    (h : Base.fixStruct E owner params action old = some (.ok new))
    (hf : Base.AlignMulti.firstIsLayout old = true) : LayoutOnly old new := by
  unfold Base.fixStruct at h
  simp only [ho, Option.map_some, Option.some.injEq] at h
  exact Base.fixS_align_layoutOnly E o params action old new hal h hf

/-- the excluded case is real: action `adjust` rewrites the value of the first token whatever it
    is — here an identifier becomes blanks (the fixer never looks at the token's class) -/
theorem bfix_alignMulti_not_layoutOnly :
    let old : List Tok := [⟨9, .code, "a".toList⟩, ⟨9, .code, "b".toList⟩]
    let action : Base.KV := [("action", .str "adjust".toList), ("column", .str "  ".toList)]
    ∃ new, Base.fixS Base.stdEnv .multiAlign [] action old = .ok new ∧ ¬ LayoutOnly old new ∧
      codeSeq id old ≠ codeSeq id new := by
  refine ⟨[⟨9, .code, "  ".toList⟩, ⟨9, .code, "b".toList⟩], by rfl, by decide, by decide⟩

/-- the rules served by the models of this family, one scan of the rule table: the alignment fixers
    serve documented layout rules (alignment group, phases 4–5); the owners that add / remove code tokens
    serve only phase-1 `structure` rules, the insert family exactly `structure::optional` rules with an
    `action` option -/
theorem struct_family_rule_groups : ∀ r ∈ Gen.ruleTable, ∀ o, Base.sownerOf r.fixVOwner = some o →
    (o.isAlign = true → Verdict.effectOfGroups r.groups = .layout ∧ (r.phase = 4 ∨ r.phase = 5)) ∧
    (o.isAlign = false → Verdict.effectOfGroups r.groups = .any ∧ r.phase = 1 ∧
      (o.isInsert = true → "structure::optional" ∈ r.groups ∧ "action" ∈ r.configuration)) := by
  decide +kernel

/-- every modelled owner serves at least one rule (no dead model) -/
theorem struct_owners_used : ∀ o ∈ Base.SOwner.all, ∃ r ∈ Gen.ruleTable, Base.sownerOf r.fixVOwner = some o := by
  decide +kernel

/-! ### END ag_bstruct -/

/-! ### BEGIN ag_bmulti (multi-line structure family: multiline_structure, fix.py, single rules) -/

open Base.Multi in
/-- **multiline_structure** (concurrent_012, sequential_009, variable_assignment_008, constant_016), every
    `dAction["type"]` function and every action string — the effect of the branch that runs:
    `insert` branches and unknown action strings are layout-only; a `remove` branch (`[first, last]`) is
    layout-only EXACTLY when nothing but layout stood between the first and the last token of the region;
    `_fix_assign_on_single_line` is layout-only when the region holds no `parser.comment` instance;
    `insert_and_move_comment` is a rotation `t0 :: M ++ D ↦ t0 :: D ++ [line break] ++ M` -/
theorem bfix_multiStruct_effect (params action : Base.KV) (old new : List Tok)
    (h : Base.fixByOwner (MOwner.name .multiStruct) params action old = some (.ok new)) :
    ∃ ty f act, dget action "type" = .ok ty ∧ msFnOf ty = .ok f ∧ dget action "action" = .ok act ∧
      match msKind f act old with
      | .insert => LayoutOnly old new
      | .noop => new = old
      | .collapse => 2 ≤ old.length → (LayoutOnly old new ↔ ∀ t ∈ middle old, t.isLayout = true)
      | .join => new = joinAssign old ∧ ((∀ t ∈ old, Base.LineStruct.isCommentInst t = false) → LayoutOnly old new)
      | .moveComment => ∃ t0 M D, LayoutOnly old (t0 :: M ++ D) ∧ new = t0 :: D ++ Base.LineStruct.mkCr Base.lineCls :: M := by
  have hm := run_fixM .multiStruct params action old new (mowner_all _) h
  obtain ⟨ty, f, act, h1, h2, h3, he⟩ := fixMS_effect _ _ action old new hm
  refine ⟨ty, f, act, h1, h2, h3, ?_⟩
  cases hk : msKind f act old <;> simp only [hk] at he ⊢
  · exact he.1
  · intro hlen; exact collapse_layoutOnly _ old new he hlen
  · exact he
  · exact ⟨he, fun hno => by rw [he]; exact joinAssign_layoutOnly old hno⟩
  · exact he

open Base.Multi in
/-- **multiline_simple_structure** (concurrent_011, sequential_008, variable_assignment_007): "insert" is
    layout-only; "remove" is layout-only EXACTLY when nothing but layout stood between the assignment
    operator and the first token of the expression — a comment there is deleted (`simple_commentLost`
    in C02) -/
theorem bfix_simple_effect (params action : Base.KV) (old new : List Tok)
    (h : Base.fixByOwner (MOwner.name .simple) params action old = some (.ok new)) :
    ∃ ty, dget action "type" = .ok ty ∧
      ((valIs ty "new_line_after_assign" = false ∧ new = old) ∨
       (valIs ty "new_line_after_assign" = true ∧ ∃ act, dget action "action" = .ok act ∧
          match simpleKind ty act with
          | .insert => LayoutOnly old new
          | .collapse => 2 ≤ old.length → (LayoutOnly old new ↔ ∀ t ∈ middle old, t.isLayout = true)
          | _ => new = old)) := by
  have hm := run_fixM .simple params action old new (mowner_all _) h
  obtain ⟨ty, h1, hc⟩ := fixSimple_effect _ action old new hm
  refine ⟨ty, h1, ?_⟩
  rcases hc with hc | ⟨ht, act, ha, he⟩
  · exact Or.inl hc
  · refine Or.inr ⟨ht, act, ha, ?_⟩
    have hkinds : simpleKind ty act = .insert ∨ simpleKind ty act = .collapse ∨ simpleKind ty act = .noop := by
      unfold simpleKind; simp only [ht, if_true]
      by_cases a1 : valIs act "insert" = true
      · simp [a1]
      · by_cases a2 : valIs act "remove" = true <;> simp [a1, a2]
    rcases hkinds with hk | hk | hk <;> simp only [hk] at he ⊢
    · exact he.1
    · intro hlen; exact collapse_layoutOnly _ old new he hlen
    · exact he

open Base.Multi in
/-- **vsg/rules/fix.py** (multiline_subprogram_specification_structure, multiline_constraint_structure,
    multiline_procedure_call_structure; 6 rules), all three actions and any other action string: layout-only
    when the region holds no preprocessor token (`remove_trailing_whitespace` deletes a trailing one) -/
theorem bfix_fixpy_layoutOnly_partial (o : MOwner) (ho : o.usesFixPy = true) (params action : Base.KV) (old new : List Tok)
    (h : Base.fixByOwner o.name params action old = some (.ok new)) (hp : ∀ t ∈ old, t.kind ≠ .preproc) :
    LayoutOnly old new := by
  have hm := run_fixM o params action old new (mowner_all _) h
  cases o <;> simp [MOwner.usesFixPy] at ho <;> exact fixNL_layoutOnly _ action old new hm hp

open Base.Multi in
/-- the rules that only insert a line break or resize / insert one whitespace token —
    conditional_waveforms_001, concurrent_008, after_002 — for every action: layout-only -/
theorem bfix_multi_inserters_layoutOnly (o : MOwner) (ho : o = .condWave001 ∨ o = .concurrent008 ∨ o = .after002)
    (params action : Base.KV) (old new : List Tok)
    (h : Base.fixByOwner o.name params action old = some (.ok new)) : LayoutOnly old new := by
  have hm := run_fixM o params action old new (mowner_all _) h
  rcases ho with rfl | rfl | rfl
  · exact (fixCondWave_spec _ old new hm).1
  · exact fixAlignComment_layoutOnly _ _ action old new hm
  · exact fixAlignComment_layoutOnly _ _ action old new hm

open Base.Multi in
/-- **process_021** (`blank_line` group, phase 1): style require_blank_line is layout-only; style
    no_blank_line is layout-only when every blank_line token of the region is directly followed by its
    line break (the fix deletes each blank_line token together with WHATEVER token follows it —
    `process021_deletes_code`) -/
theorem bfix_process021_layoutOnly_partial (params action : Base.KV) (old new : List Tok)
    (h : Base.fixByOwner (MOwner.name .process021) params action old = some (.ok new))
    (hg : blankThenCr old = true) : LayoutOnly old new := by
  have hm := run_fixM .process021 params action old new (mowner_all _) h
  obtain ⟨st, _, hc⟩ := fixProcess021_cases _ params old new hm
  rcases hc with ⟨_, h1⟩ | ⟨_, _, h1⟩ | ⟨_, _, h1⟩
  · exact (dropBlankAndNext_layoutOnly old new h1 hg).1
  · exact insertBlankBeforeLast_layoutOnly _ old new h1
  · rw [h1]; exact Base.LineStruct.LayoutOnly.rfl' _

open Base.Multi in
/-- without the guard the statement is false: a blank_line token followed by code takes the code
    token with it -/
theorem process021_deletes_code :
    let old : List Tok := [⟨4, .blank, []⟩, ⟨9, .code, "begin".toList⟩]
    Base.fixByOwner (MOwner.name .process021) [("style", .str "no_blank_line".toList)] [] old = some (.ok []) ∧
      blankThenCr old = false ∧ ¬ LayoutOnly old [] := by
  refine ⟨by decide +kernel, by decide, by decide⟩

open Base.Multi in
/-- **process_026 / process_027** (`blank_line` group, phase 3): action "Insert" is layout-only for every
    index; the removing branch returns `old[:start] ++ old[end:]`, which (for `start ≤ end`, both within
    the region) is layout-only EXACTLY when the cut holds nothing but layout -/
theorem bfix_process026_027_effect (o : MOwner) (ho : o = .process026 ∨ o = .process027)
    (params action : Base.KV) (old new : List Tok)
    (h : Base.fixByOwner o.name params action old = some (.ok new)) :
    LayoutOnly old new ∨ new = old ∨
      ∃ sv ev sb eb, dget action "start" = .ok sv ∧ dget action "end" = .ok ev ∧ asBound sv = .ok sb ∧
        asBound ev = .ok eb ∧ new = sliceTo old sb ++ sliceFrom old eb := by
  have hm := run_fixM o params action old new (mowner_all _) h
  rcases ho with rfl | rfl
  · obtain ⟨a, _, hc⟩ := fixProcess026_cases _ action old new hm
    rcases hc with ⟨_, h1⟩ | ⟨_, h1⟩
    · exact Or.inl (insertBlankAt_eq _ action old new h1).1
    · exact Or.inr (Or.inr (cutOut_eq action old new h1))
  · obtain ⟨a, _, hc⟩ := fixProcess027_cases _ action old new hm
    rcases hc with ⟨_, h1⟩ | ⟨_, _, h1⟩ | ⟨_, _, h1⟩
    · exact Or.inl (insertBlankAt_eq _ action old new h1).1
    · exact Or.inr (Or.inr (cutOut_eq action old new h1))
    · exact Or.inr (Or.inl h1)

/-- the cut of the removing branch: layout-only iff nothing but layout is cut (cut points `s ≤ e`) -/
theorem bfix_cut_layoutOnly_iff (old : List Tok) (s e : Nat) (hse : s ≤ e) :
    LayoutOnly old (old.take s ++ old.drop e) ↔ ∀ t ∈ (old.take e).drop s, t.isLayout = true :=
  Base.Multi.cut_layoutOnly_iff old s e hse

open Base.Multi in
/-- **the aligners that set a token value without looking at the token** — signal_012 (`lTokens[1]`),
    library_009 (`lTokens[0]`), process_028 (`lTokens[-2]`): layout-only when the token written to is a layout
    token (signal_012: or the region has exactly two tokens; the two comment aligners: or the action is
    "insert") -/
theorem bfix_multi_aligners_layoutOnly_partial (params action : Base.KV) (old new : List Tok) :
    (Base.fixByOwner (MOwner.name .signal012) params action old = some (.ok new) →
      (old.length = 2 ∨ ∃ t, Base.pyGet old 1 = .ok t ∧ t.isLayout = true) → LayoutOnly old new) ∧
    (Base.fixByOwner (MOwner.name .alignCommentAbove) params action old = some (.ok new) →
      ((∃ a, dget action "action" = .ok a ∧ valIs a "insert" = true) ∨ ∃ t, Base.pyGet old 0 = .ok t ∧ t.isLayout = true) →
      LayoutOnly old new) ∧
    (Base.fixByOwner (MOwner.name .alignLeftRight) params action old = some (.ok new) →
      ((∃ a, dget action "action" = .ok a ∧ valIs a "insert" = true) ∨ ∃ t, Base.pyGet old (-2) = .ok t ∧ t.isLayout = true) →
      LayoutOnly old new) := by
  refine ⟨fun h hg => ?_, fun h hg => ?_, fun h hg => ?_⟩
  · exact fixSignal012_layoutOnly _ action old new (run_fixM .signal012 params action old new (mowner_all _) h) hg
  · have hs := fixSetWs_layoutOnly _ 0 action old new (run_fixM .alignCommentAbove params action old new (mowner_all _) h)
    rcases hg with ⟨a, ha, hi⟩ | hg
    · exact hs.1 a ha hi
    · exact hs.2 hg
  · have hs := fixSetWs_layoutOnly _ (-2) action old new (run_fixM .alignLeftRight params action old new (mowner_all _) h)
    rcases hg with ⟨a, ha, hi⟩ | hg
    · exact hs.1 a ha hi
    · exact hs.2 hg

open Base.Multi in
/-- the guard is needed: the three aligners overwrite a CODE token with blanks when the action points at one -/
theorem multi_aligners_not_layoutOnly :
    let old : List Tok := [⟨9, .code, ",".toList⟩, ⟨9, .code, "sig".toList⟩, ⟨9, .code, "b".toList⟩]
    let adj : Base.KV := [("action", .str "adjust".toList), ("whitespace", .str "  ".toList)]
    (∃ new, Base.fixByOwner (MOwner.name .signal012) [] [("adjust", .int 1)] old = some (.ok new) ∧ ¬ LayoutOnly old new) ∧
    (∃ new, Base.fixByOwner (MOwner.name .alignCommentAbove) [] adj old = some (.ok new) ∧ ¬ LayoutOnly old new) ∧
    (∃ new, Base.fixByOwner (MOwner.name .alignLeftRight) [] adj old = some (.ok new) ∧ ¬ LayoutOnly old new) := by
  refine ⟨⟨[⟨9, .code, ",".toList⟩, ⟨9, .code, "    ".toList⟩, ⟨9, .code, "b".toList⟩], by decide +kernel, by decide⟩,
    ⟨[⟨9, .code, "  ".toList⟩, ⟨9, .code, "sig".toList⟩, ⟨9, .code, "b".toList⟩], by decide +kernel, by decide⟩,
    ⟨[⟨9, .code, ",".toList⟩, ⟨9, .code, "  ".toList⟩, ⟨9, .code, "b".toList⟩], by decide +kernel, by decide⟩⟩

/-- **table**: every rule served by a model of this family.  None of them has an edit class in the
    certificate checker (`editClassOfOwner = .none`: the checker demands code-sequence equality, which is
    why after_001 / after_003 / process_029 are known findings).  The five aligners serve `alignment` rules
    of phases 4–5, process_021/026/027 serve `blank_line` rules (phase 1 resp. 3), every other owner serves
    `structure` rules of phase 1 — with ONE exception, constant_016, a `structure` rule that runs in phase 5 -/
theorem multi_owners_rule_table : ∀ r ∈ Gen.ruleTable, ∀ o, Base.Multi.mownerOf r.fixVOwner = some o →
    Verdict.editClassOfOwner r.fixVOwner = .none ∧
    (o ∈ [Base.Multi.MOwner.concurrent008, .after002, .signal012, .alignCommentAbove, .alignLeftRight] →
      Verdict.effectOfGroups r.groups = .layout ∧ (r.phase = 4 ∨ r.phase = 5)) ∧
    (o ∈ [Base.Multi.MOwner.process021, .process026, .process027] →
      Verdict.effectOfGroups r.groups = .layout ∧ (r.phase = 1 ∨ r.phase = 3)) ∧
    (o ∉ [Base.Multi.MOwner.concurrent008, .after002, .signal012, .alignCommentAbove, .alignLeftRight, .process021,
        .process026, .process027] →
      Verdict.effectOfGroups r.groups = .any ∧ (r.phase = 1 ∨ (r.id = "constant_016" ∧ r.phase = 5))) := by
  decide +kernel

/-- every modelled owner serves at least one rule (no dead model); 28 rules in all -/
theorem multi_owners_used :
    (∀ o ∈ Base.Multi.MOwner.all, ∃ r ∈ Gen.ruleTable, Base.Multi.mownerOf r.fixVOwner = some o) ∧
    (Gen.ruleTable.filter fun r => (Base.Multi.mownerOf r.fixVOwner).isSome).length = 28 := by
  decide +kernel

/-! ### END ag_bmulti -/

/-! ### BEGIN wp2_bfull2 (indent family, whole rule) -/

section wp2_bfull2
open BFull2

/-- **whole-rule layout-only of `token_indent` (93 rules)**: for every token list (no pseudo tokens; tokens whose
    id is `parser.whitespace` have kind `ws`), every indent assignment, `indent_size` and both documented styles the
    file after `Rule.fix` has exactly the non-layout tokens of the file before, in the same order — no extractor or
    analysis contract left (`ToiOk` of `bfix_indent_*` is now a theorem about the model's own extractor) -/
theorem bfull2_indent_layoutOnly (r : RuleCfg) (uid : Tok → Option TM.Key) (P : Params) (ind : Oracle) (f : List Tok)
    (hv : P.variant = .plain) (hcs : CsOk P.cs) (hs : StyleOk P)
    (hb : ∀ t ∈ f, t.isBof = false) (hk : ∀ t ∈ f, isWsU uid t = true → t.kind = .ws) :
    LayoutOnly f (ruleFix r (sem uid P ind) none f).1 := by
  unfold LayoutOnly
  by_cases hf : r.fixable = true
  · have e : (ruleFix r (sem uid P ind) none f).1 = fixAll uid P ind f := by
      simp [ruleFix, hf, filterFixOnly, fixAll]
    rw [e]
    exact (fixAll_hom uid P ind nonLayout nonLayout_append
      (by intro t ht; simp [nonLayout, Tok.isLayout, Kind.isLayout, ht]) hv hcs hs f hb hk).symm
  · have : r.fixable = false := by simpa using hf
    simp [ruleFix, this]

/-- … hence the code sequence and the comment sequence are untouched (C01 / C02 for the whole rule) -/
theorem bfull2_indent_code_comments (fold : Str → Str) (r : RuleCfg) (uid : Tok → Option TM.Key) (P : Params) (ind : Oracle)
    (f : List Tok) (hv : P.variant = .plain) (hcs : CsOk P.cs) (hs : StyleOk P)
    (hb : ∀ t ∈ f, t.isBof = false) (hk : ∀ t ∈ f, isWsU uid t = true → t.kind = .ws) :
    codeSeq fold f = codeSeq fold (ruleFix r (sem uid P ind) none f).1 ∧
      commentSeq f = commentSeq (ruleFix r (sem uid P ind) none f).1 :=
  ⟨(bfull2_indent_layoutOnly r uid P ind f hv hcs hs hb hk).codeSeq fold,
   (bfull2_indent_layoutOnly r uid P ind f hv hcs hs hb hk).commentSeq⟩

/-- non-vacuity: the fix changes the file, its non-layout tokens stay -/
example :
    let f : List Tok := [⟨9, .code, "a".toList⟩, ⟨1, .cr, []⟩, ⟨2, .ws, " ".toList⟩, ⟨3, .code, "signal".toList⟩]
    nonLayout (fixAll toyUid toyP (fun _ => some 1) f) = nonLayout f ∧ fixAll toyUid toyP (fun _ => some 1) f ≠ f := by
  decide +kernel

end wp2_bfull2

/-! ### END wp2_bfull2 -/


/-! ### BEGIN wp2b_affix (token_prefix / token_suffix, whole rule) -/

section wp2b_affix
open BFull2

/-- **the 52 naming rules never change the file**: instance of `ruleFix_unfixable` for the concrete semantics of
    `BFull2/Affix.lean` — any `lTokens`, extractor variant, option list (also `None`), `str.lower`, exception oracle,
    `--fix_only` dictionary and token list -/
theorem bfull2_affix_never_fixes (r : RuleCfg) (V : TM.View Tok) (lower : Str → Str) (exc : Str → Bool) (P : Affix.Params)
    (fo : Option FixOnly) (f : List Tok) (h : r.fixable = false) :
    ruleFix r (Affix.sem V lower exc P) fo f = (f, false) :=
  ruleFix_unfixable r _ fo f h

/-- **table fact**: every rule of the generated prefix / suffix table is unfixable, in phase 7, disabled by default,
    does not override `Rule.fix`, and there are 52 of them (26 prefix, 26 suffix; 30 plain, 10 between, 2 between-unless,
    10 port-mode extractors) -/
theorem bfull2_affix_table :
    (∀ a ∈ Gen.affixRuleTable, ∃ r ∈ Gen.ruleTable, r.id = a.id ∧ r.fixable = false ∧ r.phase = 7 ∧ r.disable = true ∧
      r.overridesFix = false) ∧
    Gen.affixRuleTable.length = 52 ∧ (Gen.affixRuleTable.filter (·.kind == 0)).length = 26 ∧
    (Gen.affixRuleTable.filter (·.variant == 0)).length = 30 ∧ (Gen.affixRuleTable.filter (·.variant == 3)).length = 10 := by
  decide +kernel

/-- … and even a rule object forced to `fixable: true` hands every region back as it is: `_fix_violation` finds none of
    the three actions it knows (the action of these violations is `None`) -/
theorem bfull2_affix_fixV_id (V : TM.View Tok) (lower : Str → Str) (exc : Str → Bool) (P : Affix.Params) (v : Viol) :
    (Affix.sem V lower exc P).fixV v = v.toks := rfl

end wp2b_affix

/-! ### END wp2b_affix -/


/-! ### BEGIN wp2b_indent (all four extractors of token_indent) -/

section wp2b_indent
open BFull2

/-- **whole-rule layout-only, all 102 indent rules** (plain, between, between-unless, unless extractors), for every
    token list, indent assignment, size and both styles; no hypothesis about the selection -/
theorem bfull2_indent_layoutOnly_variants (r : RuleCfg) (uid : Tok → Option TM.Key) (P : Params) (ind : Oracle) (f : List Tok)
    (hcs : CsOk P.cs) (hs : StyleOk P) (hb : ∀ t ∈ f, t.isBof = false) (hk : ∀ t ∈ f, isWsU uid t = true → t.kind = .ws) :
    LayoutOnly f (ruleFix r (sem uid P ind) none f).1 := by
  unfold LayoutOnly
  by_cases hf : r.fixable = true
  · have e : (ruleFix r (sem uid P ind) none f).1 = fixAll uid P ind f := by
      simp [ruleFix, hf, filterFixOnly, fixAll]
    rw [e]
    exact (fixAll_hom_variant uid P ind nonLayout nonLayout_append
      (by intro t ht; simp [nonLayout, Tok.isLayout, Kind.isLayout, ht]) hcs hs f hb hk).symm
  · have : r.fixable = false := by simpa using hf
    simp [ruleFix, this]

end wp2b_indent

/-! ### END wp2b_indent -/


end Vsgm.C03
