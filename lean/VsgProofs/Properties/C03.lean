/-
  C03 — each phase only makes the kind of change it is documented to make.
  ONLY property theorems and their non-vacuity examples live here.
-/
import VsgModel.Engine.RuleRun
import VsgModel.Engine.Relations
import VsgModel.Check.Verdict
import VsgModel.Generated.Rules
import VsgProofs.Lemmas.Engine
import VsgProofs.Lemmas.BaseAlign
import VsgModel.Base.Dispatch
namespace Vsgm.C03
open Vsgm

/-! ### engine: rules that must never change the file (any rule semantics) -/

/-- `fixable: false` / unfixable rules: `Rule.fix` is the identity and does not set
    had_violations, whatever the rule's analysis and `_fix_violation` are -/
theorem ruleFix_unfixable (r : RuleCfg) (sem : RuleSem) (fo : Option FixOnly) (f : List Tok)
    (h : r.fixable = false) : ruleFix r sem fo f = (f, false) := by
  simp [ruleFix, h]

/-- warning-type severities are only analysed inside `rule_list.fix` -/
theorem stepRule_warning (r : Rule) (fo : Option FixOnly) (st : List Tok × Bool)
    (h : r.1.sevError = false) : stepRule fo st r = st := by
  simp [stepRule, h]

/-- every rule `rule_list.fix` invokes is enabled, lies in a phase `1 … fixPhase` that is not
    skipped, and in a sub-phase `0 … 5` -/
theorem schedule_sound (rs : List Rule) (fixPhase : Nat) (skip : List Nat) (r : Rule)
    (h : some r ∈ schedule rs fixPhase skip) :
    r ∈ rs ∧ r.1.disabled = false ∧ (1 : Int) ≤ r.1.phase ∧ r.1.phase ≤ (fixPhase : Int) ∧
      (∀ p ∈ skip, (p : Int) ≠ r.1.phase) ∧ (0 : Int) ≤ r.1.subphase ∧ r.1.subphase ≤ 5 :=
  Lemmas.schedule_sound rs fixPhase skip r h

/-- invariant principle for a whole fix run: a property of the token list that every invoked
    error-type fixable rule and the post-phase-1 normalisation preserve holds at the end -/
theorem fixRun_invariant (P : List Tok → Prop) (rs : List Rule) (fixPhase : Nat) (skip : List Nat)
    (fo : Option FixOnly) (post : List Tok → List Tok) (f : List Tok) (h0 : P f)
    (hr : ∀ r, some r ∈ schedule rs fixPhase skip → r.1.sevError = true → r.1.fixable = true →
      ∀ g, P g → P (ruleFix r.1 r.2 fo g).1)
    (hp : ∀ g, P g → P (post g)) : P (fixRun rs fixPhase skip fo post f).1 :=
  Lemmas.fixRun_invariant P rs fixPhase skip fo post f h0 hr hp

/-- a run in which every enabled rule is unfixable or a warning, and whose post-phase-1
    normalisation finds nothing to do, returns the input and never sets had_violations:
    the file is not written (C04) -/
theorem fixRun_inert (rs : List Rule) (fixPhase : Nat) (skip : List Nat) (fo : Option FixOnly)
    (post : List Tok → List Tok) (f : List Tok)
    (hin : ∀ r ∈ rs, r.1.disabled = true ∨ r.1.fixable = false ∨ r.1.sevError = false)
    (hp : post f = f) : fixRun rs fixPhase skip fo post f = (f, false) :=
  Lemmas.fixRun_inert rs fixPhase skip fo post f hin hp

/-! ### engine: the effect of a rule is the effect of its violations -/

/-- if the violations of one `Rule.fix` form a sorted, disjoint, in-range chain and each
    `_fix_violation` changes only layout tokens of its slice, the whole update is layout-only -/
theorem update_layoutOnly (f : List Tok) (es : List (Edit Tok)) (h : Chain f.length 0 es)
    (hp : ∀ e ∈ es, nonLayout e.new = nonLayout (old f e)) : LayoutOnly f (update f es) := by
  unfold LayoutOnly
  exact (update_hom nonLayout nonLayout_append f es h hp).symm

/-- a layout-only step keeps the code sequence and every comment (C03 ⇒ C01, C02 for phases 2–5) -/
theorem layoutOnly_keeps_code_and_comments (fold : Str → Str) (a b : List Tok) (h : LayoutOnly a b) :
    codeSeq fold a = codeSeq fold b ∧ commentSeq a = commentSeq b :=
  ⟨h.codeSeq fold, h.commentSeq⟩

/-- a case-only step keeps the number of tokens, every token class, every value's length,
    the code sequence and every comment (phase 6) -/
theorem caseOnly_keeps (fold : Str → Str) (a b : List Tok) (h : CaseOnly fold a b) :
    a.length = b.length ∧ codeSeq fold a = codeSeq fold b ∧ commentSeq a = commentSeq b :=
  ⟨h.length fold, h.codeSeq fold, h.commentSeq fold⟩

/-! ### layer B: `_fix_violation` of modelled base classes, for ALL tokens of interest and ALL actions -/

/-- every `align_tokens_in_region_between_tokens*` rule: whatever token index and (also
    negative) adjustment the analysis recorded, the fix changes nothing but whitespace tokens -/
theorem bfix_align_layoutOnly (owner : String) (params action : Base.KV) (old new : List Tok)
    (ho : owner ∈ Base.alignOwners) (h : Base.fixByOwner owner params action old = some (.ok new)) :
    LayoutOnly old new := by
  unfold Base.fixByOwner at h
  simp only [ho, if_true, Option.some.injEq] at h
  cases h1 : Base.needInt action "token_index" with
  | error e => simp [h1, bind, Except.bind] at h
  | ok ti =>
    cases h2 : Base.needInt action "adjust" with
    | error e => simp [h1, h2, bind, Except.bind] at h
    | ok adj =>
      simp only [h1, h2, bind, Except.bind] at h
      exact Base.Align.fixV_layoutOnly _ _ _ _ _ h

/-- the rules served by that model are documented layout rules (alignment group) -/
theorem align_owners_are_layout_rules : ∀ r ∈ Gen.ruleTable, r.fixVOwner ∈ Base.alignOwners →
    Verdict.effectOfGroups r.groups = .layout := by decide +kernel

/-! ### table facts, re-checked against the regenerated rule table on every run -/

/-- naming rules (phase 7) are unfixable -/
theorem phase7_unfixable : ∀ r ∈ Gen.ruleTable, r.phase = 7 → r.fixable = false := by decide +kernel

/-- only unfixable rules replace the engine's `fix`; nobody replaces `add_violation` -/
theorem engine_fix_is_used : ∀ r ∈ Gen.ruleTable, (r.overridesFix = true → r.fixable = false) ∧ r.overridesAddViolation = false := by
  decide +kernel

/-- the docs label of every live rule states the phase it runs in and its severity -/
theorem docs_agree : ∀ r ∈ Gen.ruleTable, r.deprecated = false → r.phase ≠ 0 →
    r.documented = true ∧ r.docPhase = some r.phase.toNat ∧ r.docSeverity = some (if r.sevError then "error" else "warning") := by
  decide +kernel

/-- rule group ↔ phase: layout groups run in phases 2–5 (the two trailing-whitespace/tab rules
    and one blank-line rule run in phase 1), case in 6, naming/length in 7 and are unfixable -/
def groupPhaseOk (r : RuleRow) : Bool :=
  match Verdict.effectOfGroups r.groups with
  | .layout => r.phase ∈ [1, 2, 3, 4, 5]
  | .case => r.phase = 6
  | .same => r.phase = 7 && !r.fixable
  | .any => r.phase ∈ [1, 2, 5]

theorem group_phase : ∀ r ∈ Gen.ruleTable, r.deprecated = false → r.phase ≠ 0 → groupPhaseOk r = true := by
  decide +kernel

/-! ### non-vacuity -/

example : ∃ r ∈ Gen.ruleTable, r.phase = 7 := by decide +kernel
example : ∃ r ∈ Gen.ruleTable, r.overridesFix = true := by decide +kernel

end Vsgm.C03
