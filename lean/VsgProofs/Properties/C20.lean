/-
  C20 — `--fix_only` fixes what it lists and nothing else.
  ONLY property theorems and their non-vacuity examples live here.

  `fixRun rs N skip fo post f` is `rule_list.fix(N, skip, dFixOnly)` (token list, had_violations);
  `fixTrace …` lists, per `Rule.fix` call that got past `if self.fixable`, the token list the rule
  analysed and the violations whose `_fix_violation` is invoked.  `fo = none` is `dFixOnly is None`;
  `FODict.toFixOnly` is the lookup `dFixOnly["fix"]["rule"][id]` with its KeyError paths.
-/
import VsgModel.Engine.CheckRules
import VsgModel.Engine.Stub
import VsgProofs.Lemmas.Engine
import VsgProofs.Lemmas.FixTrace
import VsgProofs.Lemmas.SortByStart
namespace Vsgm.C20
open Vsgm Vsgm.Lemmas

/-- without `--fix_only` nothing is filtered -/
theorem fixOnly_none_is_plain (id : String) (vs : List Viol) : filterFixOnly none id vs = vs := rfl

/-- what the filter keeps, case by case: a missing key at any level (KeyError) keeps nothing,
    "all" keeps everything, otherwise exactly the violations on listed lines, in order -/
theorem fixOnly_filter_spec (d : FixOnly) (id : String) (vs : List Viol) :
    filterFixOnly (some d) id vs =
      match d id with
      | none => []
      | some (true, _) => vs
      | some (false, lines) => vs.filter (fun v => v.line ∈ lines) := rfl

/-- the violations fixed by every `Rule.fix` call of a run are the analysed ones that pass the
    filter — for a rule listed with line numbers: exactly the analysed violations on listed lines -/
theorem fixOnly_lines (rs : List Rule) (fixPhase : Nat) (skip : List Nat) (d : FixOnly)
    (post : List Tok → List Tok) (f : List Tok) (ev : FixEv) (h : ev ∈ fixTrace rs fixPhase skip (some d) post f) :
    ev.fixed =
      match d ev.rule.1.id with
      | none => []
      | some (true, _) => sortByStart (ev.rule.2.analyze ev.seen)
      | some (false, lines) => (sortByStart (ev.rule.2.analyze ev.seen)).filter (fun v => v.line ∈ lines) := by
  rw [(mem_traceFrom _ post _ f ev h).2.2.2, fixOnly_filter_spec]

/-- line clause: for a rule listed with line numbers a violation is fixed iff it was found by the
    rule's analysis (at the moment the rule runs) on a listed line -/
theorem fixOnly_listed_lines_iff (rs : List Rule) (fixPhase : Nat) (skip : List Nat) (d : FixOnly)
    (post : List Tok → List Tok) (f : List Tok) (ev : FixEv) (h : ev ∈ fixTrace rs fixPhase skip (some d) post f)
    (lines : List Nat) (hd : d ev.rule.1.id = some (false, lines)) (v : Viol) :
    v ∈ ev.fixed ↔ v ∈ ev.rule.2.analyze ev.seen ∧ v.line ∈ lines := by
  rw [fixOnly_lines rs fixPhase skip d post f ev h, hd]
  simp [List.mem_filter, Lemmas.mem_sortByStart]

/-- listing every rule with "all" is a plain `--fix`: same token list, same had_violations, same
    `_fix_violation` calls -/
theorem fixOnly_all_eq_plain (rs : List Rule) (fixPhase : Nat) (skip : List Nat) (d : FixOnly)
    (post : List Tok → List Tok) (f : List Tok) (hall : ∀ r ∈ rs, ∃ ls, d r.1.id = some (true, ls)) :
    fixRun rs fixPhase skip (some d) post f = fixRun rs fixPhase skip none post f ∧
    fixTrace rs fixPhase skip (some d) post f = fixTrace rs fixPhase skip none post f := by
  have key : ∀ r, some r ∈ schedule rs fixPhase skip → ∀ vs, filterFixOnly (some d) r.1.id vs = filterFixOnly none r.1.id vs := by
    intro r hr vs
    obtain ⟨ls, hls⟩ := hall r (schedule_sound rs fixPhase skip r hr).1
    rw [fixOnly_filter_spec, hls]; rfl
  constructor
  · unfold fixRun
    apply foldl_congr_mem
    intro o ho st
    exact stepOpt_congr _ _ post o (fun r e vs => key r (e ▸ ho) vs) st
  · exact traceFrom_congr _ _ post _ f key

/-- listing nothing (no rule of the rule set has an entry, or only empty line lists, or a key is
    missing) leaves the token list untouched apart from the post-phase-1 normalisation (trailing
    whitespace, blank lines) which `rule_list.fix` applies when phase 1 is executed; no
    `_fix_violation` is invoked and had_violations stays false, so nothing is written back -/
theorem fixOnly_empty_untouched (rs : List Rule) (fixPhase : Nat) (skip : List Nat) (d : FixOnly)
    (post : List Tok → List Tok) (f : List Tok)
    (hnone : ∀ r ∈ rs, d r.1.id = none ∨ d r.1.id = some (false, [])) :
    fixRun rs fixPhase skip (some d) post f = (if 1 ≤ fixPhase ∧ 1 ∉ skip then post f else f, false) ∧
    ∀ ev ∈ fixTrace rs fixPhase skip (some d) post f, ev.fixed = [] := by
  have key : ∀ r, some r ∈ schedule rs fixPhase skip → ∀ vs, filterFixOnly (some d) r.1.id vs = [] := by
    intro r hr vs
    rw [fixOnly_filter_spec]
    rcases hnone r (schedule_sound rs fixPhase skip r hr).1 with h | h <;> rw [h] <;> simp
  constructor
  · unfold fixRun
    rw [foldl_inert _ post _ key, schedule_none_count]
    by_cases h : 1 ≤ fixPhase ∧ 1 ∉ skip
    · rw [if_pos h, if_pos h]; rfl
    · rw [if_neg h, if_neg h]; rfl
  · intro ev hev
    obtain ⟨hmem, _, _, hfx⟩ := mem_traceFrom _ post _ f ev hev
    rw [hfx]; exact key ev.rule hmem _

/-- the KeyError paths of `dFixOnly["fix"]["rule"][id]`: with the "fix" key, the "rule" key or the
    rule's own entry missing the rule fixes nothing and does not set had_violations -/
theorem fixOnly_keyerror (dct : FODict) (id : String)
    (h : dct.fix = none ∨ dct.fix = some none ∨ ∃ m, dct.fix = some (some m) ∧ m.lookup id = none) :
    dct.toFixOnly id = none := by
  unfold FODict.toFixOnly
  rcases h with h | h | ⟨m, h, hm⟩
  · rw [h]
  · rw [h]
  · rw [h]; simp [hm]

theorem fixOnly_keyerror_inert (dct : FODict) (r : RuleCfg) (sem : RuleSem) (g : List Tok)
    (h : dct.toFixOnly r.id = none) : ruleFix r sem (some dct.toFixOnly) g = (g, false) := by
  unfold ruleFix
  by_cases hf : r.fixable = true
  · simp [hf, filterFixOnly, h, update_nil]
  · simp [hf]

/-- what an entry means: "all" anywhere in the list selects every violation; otherwise the
    integers of the list are the selected lines (other items never match a line number) -/
theorem fixOnly_entry (m : List (String × List FOItem)) (id : String) (items : List FOItem)
    (h : m.lookup id = some items) :
    (FODict.mk (some (some m))).toFixOnly id = some (items.contains FOItem.all, items.filterMap FOItem.line?) := by
  simp [FODict.toFixOnly, h]

/-! ### non-vacuity -/

def exRules : List Rule :=
  [({ id := "ws_001", phase := 2, subphase := 1, disabled := false, fixable := true, sevError := true, prereq := false },
    (StubKind.setVal 1 [' ']).sem)]

def exFile : List Tok :=
  [⟨7, .code, ['a']⟩, ⟨1, .ws, [' ', ' ']⟩, ⟨7, .code, ['b']⟩, ⟨2, .cr, ['\n']⟩, ⟨7, .code, ['c']⟩, ⟨1, .ws, [' ', ' ']⟩, ⟨7, .code, ['d']⟩]

def exDict (lines : List Nat) : FixOnly := (FODict.mk (some (some [("ws_001", lines.map FOItem.line)]))).toFixOnly

/-- selecting line 2 fixes line 2 only; selecting both lines equals the plain fix; selecting no line changes nothing -/
example : (fixRun exRules 7 [] (some (exDict [2])) id exFile).1 =
    [⟨7, .code, ['a']⟩, ⟨1, .ws, [' ', ' ']⟩, ⟨7, .code, ['b']⟩, ⟨2, .cr, ['\n']⟩, ⟨7, .code, ['c']⟩, ⟨1, .ws, [' ']⟩, ⟨7, .code, ['d']⟩] := by decide
example : fixRun exRules 7 [] (some (exDict [1, 2])) id exFile = fixRun exRules 7 [] none id exFile := by decide
example : fixRun exRules 7 [] (some (exDict [])) id exFile = (exFile, false) := by decide
example : (fixRun exRules 7 [] none id exFile).2 = true := by decide

end Vsgm.C20
