/-
  C10 — a rule that has just fixed a file has nothing left to fix.
  Engine part (any rule semantics): the second `Rule.fix` is the identity exactly when the
  re-analysis offers no violation that passes the fix-only filter; `_fix_violation`s that
  return their tokens unchanged make a chain update the identity.
-/
import VsgModel.Engine.RuleRun
import VsgModel.Engine.Relations
namespace Vsgm.C10
open Vsgm

theorem update_nil {α : Type} (f : List α) : update f [] = f := rfl

/-- if, after its own fix, a rule's analysis reports nothing (that the fix-only filter lets
    through), applying the fix again changes nothing and does not set had_violations -/
theorem second_fix_identity (r : RuleCfg) (sem : RuleSem) (fo : Option FixOnly) (f : List Tok)
    (h : filterFixOnly fo r.id (sem.analyze (ruleFix r sem fo f).1) = []) :
    ruleFix r sem fo (ruleFix r sem fo f).1 = ((ruleFix r sem fo f).1, false) := by
  generalize hg : (ruleFix r sem fo f).1 = g at h ⊢
  by_cases hf : r.fixable = true
  · simp [ruleFix, hf, h, update]
  · have : r.fixable = false := by simpa using hf
    simp [ruleFix, this]

/-- violations the rule cannot repair: a `_fix_violation` that hands back the analysed slice
    unchanged leaves the file unchanged (chain of slice-exact violations) -/
theorem unrepairable_noop (f : List Tok) (es : List (Edit Tok)) (h : Chain f.length 0 es)
    (hp : ∀ e ∈ es, e.new = old f e) : update f es = f := by
  have := update_hom (fun l => l) (fun _ _ => rfl) f es h (by simpa using hp)
  simpa using this

/-- so: a second fix is the identity as soon as every violation found by the re-analysis is
    unrepairable in this sense -/
theorem second_fix_identity_of_unrepairable (r : RuleCfg) (sem : RuleSem) (fo : Option FixOnly) (f : List Tok)
    (g : List Tok) (_hg : g = (ruleFix r sem fo f).1)
    (hc : Chain g.length 0 ((filterFixOnly fo r.id (sem.analyze g)).map (editOf sem)))
    (hu : ∀ v ∈ filterFixOnly fo r.id (sem.analyze g), (editOf sem v).new = old g (editOf sem v)) :
    (ruleFix r sem fo g).1 = g := by
  by_cases hf : r.fixable = true
  · simp only [ruleFix, hf, if_true]
    apply unrepairable_noop _ _ hc
    intro e he
    simp only [List.mem_map] at he
    obtain ⟨v, hv, rfl⟩ := he
    exact hu v hv
  · have : r.fixable = false := by simpa using hf
    simp [ruleFix, this]

/-- non-vacuity: a one-token case rule whose fix lower-cases `A`; after the fix the analysis is
    empty and the second fix is the identity -/
example :
    let A : Tok := ⟨7, .code, "A".toList⟩
    let a : Tok := ⟨7, .code, "a".toList⟩
    let sem : RuleSem := {
      analyze := fun f => (f.zipIdx.filter (fun p => p.1.val == "A".toList)).map (fun p => ⟨1, p.2, [p.1], 0⟩)
      fixV := fun _ => [a] }
    let r : RuleCfg := ⟨"x_001", 6, 1, false, true, true, false⟩
    (ruleFix r sem none [A, a, A]).1 = [a, a, a] ∧ sem.analyze (ruleFix r sem none [A, a, A]).1 = [] := by
  decide

end Vsgm.C10
